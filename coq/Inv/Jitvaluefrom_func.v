(* Functional correctness of the TRANSLATED jitvaluefrom against the functional model Model/ValueFrom.v
   (the cursor machine vf_inner / vf_query / vf_interval / vf_all the C06 theorems are about), by proof
   (partial correctness through [run_sound], same method as Inv/Jitrestrict_func.v):

     [k_jitvaluefrom_computes_vf_all]  for EVERY block decomposition qss / sss (lists of lists of ticks,
       one block per interval, as many blocks of each as the array [starts] has cells), every mode (any
       integer; 0 before, 1 closest, 2 after) and every tick scale p, running the translated kernel on
         time_array        = concat qss            (as floats t / p)
         time_target_array = concat sss            (as floats t / p)
         count             = the block lengths of qss
         count_target      = the block lengths of sss
         starts            = any array with one cell per block (only its length is read)
       returns, whenever it returns, exactly the float array of [vf_all mode qss sss 0]
       (Some j is the float j, None is NaN).
     [k_jitvaluefrom_computes_model]   the instance _value_from builds: the blocks are the per-interval
       samples of qs / sr0 in ep ([per_interval]), i.e. the two time arrays are [restrict_ts qs ep] and
       [restrict_ts sr0 ep] and the two count arrays are [restrict_cnt qs ep] and [restrict_cnt sr0 ep]
       (what jitrestrict_with_count returns, Inv/Jitrestrict_with_count_func.v); the result is
       [value_from mode qs sr0 ep].  Ticks are nanoseconds: the float of t is t * 1e-9 ([qtick]).

   Partial correctness: OutOfFuel is allowed; any Err and any other Return are excluded.
   Hypotheses: NONE on the data (no sortedness of either series, no condition on the intervals, no
   restriction of mode to {0,1,2}); the only hypotheses of the general theorem are the shape conditions
   that the count arrays describe block decompositions of the two time arrays with as many blocks as
   [starts] has cells - they are what makes the kernel's index arithmetic the model's list structure.

   Times: the kernel subtracts times and compares the differences with 0 and with each other, so the
   embedding must be additive; t |-> Qred (t # p) is ([fsub_qt], [abs_qt]).  p = 10^9 is the harness
   encoding [qcells]; p = 1 is the encoding [tcells] of Inv/Jitrestrict_func.v ([scells_1]). *)
From Coq Require Import ZArith QArith Qcanon String List Bool Lia.
From Verif Require Import Base.Prelude Model.Restrict Model.ValueFrom Proofs.BaseLemmas Proofs.RestrictProofs
  Proofs.ValueFromProofs.
From Verif Require Import Jit.Lang Jit.Interp Jit.Safety Jit.Tactics Jit.ArrayFacts Gen.Kernels.
From Verif Require Import Inv.Jitrestrict_func Inv.Jitrestrict_with_count_func Inv.Jitfix_iset_func.
Import ListNotations.
Open Scope Z_scope.

(* ---------- embedding of ticks: t is the float t / p, as a reduced fraction ---------- *)
Definition qt (p : positive) (t : Z) : Q := Qred (t # p).
Definition scell (p : positive) (t : Z) : sval := VFlt (Some (qt p t)).
Definition scells (p : positive) (l : list Z) : list sval := map (scell p) l.

Lemma zlen_scells : forall p l, zlen (scells p l) = zlen l.
Proof. intros; unfold scells; apply zlen_map. Qed.

Lemma nth_scells : forall p l k, 0 <= k < zlen l -> to_flt (nthZ (scells p l) k) = Some (qt p (tk l k)).
Proof.
  intros p l k H. unfold nthZ, scells, tk.
  rewrite (nth_indep _ dflt (scell p 0)) by (rewrite map_length; unfold zlen in H; lia).
  rewrite map_nth. reflexivity.
Qed.

Lemma qt_eq : forall p t, (qt p t == t # p)%Q.
Proof. intros. unfold qt. apply Qred_correct. Qed.

Lemma Qle_bool_qt : forall p a b, Qle_bool (qt p a) (qt p b) = (a <=? b).
Proof.
  intros p a b. apply Bool.eq_true_iff_eq. rewrite Qle_bool_iff, !qt_eq. rewrite Z.leb_le.
  unfold Qle. cbn [Qnum Qden]. symmetry. apply Z.mul_le_mono_pos_r. reflexivity.
Qed.
Lemma Qle_bool_qt_0 : forall p a, Qle_bool (qt p a) (qz 0) = (a <=? 0).
Proof.
  intros p a. apply Bool.eq_true_iff_eq. rewrite Qle_bool_iff, qt_eq. rewrite Z.leb_le.
  unfold Qle, qz, inject_Z. cbn [Qnum Qden]. lia.
Qed.
Lemma Qle_bool_0_qt : forall p a, Qle_bool (qz 0) (qt p a) = (0 <=? a).
Proof.
  intros p a. apply Bool.eq_true_iff_eq. rewrite Qle_bool_iff, qt_eq. rewrite Z.leb_le.
  unfold Qle, qz, inject_Z. cbn [Qnum Qden]. lia.
Qed.

Lemma cmp_gt_qt : forall p a b, cmp_flt Gt (Some (qt p a)) (Some (qt p b)) = (b <? a).
Proof. intros. unfold cmp_flt, cmp_q. rewrite Qle_bool_qt. rewrite Z.ltb_antisym. reflexivity. Qed.
Lemma cmp_gt_qt0 : forall p a, cmp_flt Gt (Some (qt p a)) (Some (qz 0)) = (0 <? a).
Proof. intros. unfold cmp_flt, cmp_q. rewrite Qle_bool_qt_0. rewrite Z.ltb_antisym. reflexivity. Qed.
Lemma cmp_lt_qt0 : forall p a, cmp_flt Lt (Some (qt p a)) (Some (qz 0)) = (a <? 0).
Proof. intros. unfold cmp_flt, cmp_q. rewrite Qle_bool_0_qt. rewrite Z.ltb_antisym. reflexivity. Qed.
Lemma cmp_le_qt0 : forall p a, cmp_flt Le (Some (qt p a)) (Some (qz 0)) = (a <=? 0).
Proof. intros. unfold cmp_flt, cmp_q. apply Qle_bool_qt_0. Qed.
Lemma cmp_ge_qt0 : forall p a, cmp_flt Ge (Some (qt p a)) (Some (qz 0)) = (0 <=? a).
Proof. intros. unfold cmp_flt, cmp_q. apply Qle_bool_0_qt. Qed.

(* the difference of two times is exact *)
Lemma fsub_qt : forall p a b, fsub (Some (qt p a)) (Some (qt p b)) = Some (qt p (a - b)).
Proof.
  intros p a b. unfold fsub, f2, qsome. f_equal. unfold qt at 3. apply Qred_complete.
  rewrite !qt_eq. unfold Qeq, Qminus, Qplus, Qopp. cbn [Qnum Qden]. rewrite Pos2Z.inj_mul. ring.
Qed.

Lemma abs_qt : forall p d, eval_unop Abs (VFlt (Some (qt p d))) = VFlt (Some (qt p (Z.abs d))).
Proof.
  intros p d. cbn [eval_unop]. f_equal. f_equal.
  change 0%Q with (qz 0). rewrite Qle_bool_0_qt. destruct (Z.leb_spec 0 d) as [H|H].
  - rewrite Z.abs_eq by assumption. reflexivity.
  - rewrite Z.abs_neq by lia. unfold qt at 2. apply Qred_complete. rewrite qt_eq. reflexivity.
Qed.

(* the two instances used elsewhere in the development *)
Lemma qt_1 : forall t, qt 1 t = inject_Z t.
Proof. intros. unfold qt. apply Qred_identity. cbn [Qnum Qden]. apply Z.gcd_1_r. Qed.
Lemma scells_1 : forall l, scells 1 l = tcells l.
Proof. intros. unfold scells, tcells. apply map_ext. intros t. unfold scell, tcell. rewrite qt_1. reflexivity. Qed.
Lemma scells_e9 : forall l, scells 1000000000 l = qcells l.
Proof. reflexivity. Qed.

(* ---------- results: an index j is the float j, None is NaN ---------- *)
Definition ocell (o : option nat) : sval :=
  match o with Some j => VFlt (Some (inject_Z (Z.of_nat j))) | None => VFlt None end.
Definition ocells (l : list (option nat)) : list sval := map ocell l.
Definition nan : sval := VFlt None.
Definition fcell (i : Z) : sval := VFlt (Some (inject_Z i)).

(* ---------- cells ---------- *)
Lemma nthZ_updZ_same : forall d i v, 0 <= i < zlen d -> nthZ (updZ d i v) i = v.
Proof. intros. unfold nthZ, updZ. apply nth_upd_nth_same. unfold zlen in *. lia. Qed.
Lemma nthZ_updZ_other : forall d i j v, 0 <= i -> 0 <= j -> i <> j -> nthZ (updZ d i v) j = nthZ d j.
Proof. intros. unfold nthZ, updZ. apply nth_upd_nth_other. lia. Qed.
Lemma updZ_twice : forall d i v w, updZ (updZ d i v) i w = updZ d i w.
Proof. intros. unfold updZ. apply upd_nth_twice. Qed.

(* ---------- blocks of a list of lists: lengths, offsets ---------- *)
Definition lens (L : list (list Z)) : list nat := map (@length Z) L.
Definition blk (L : list (list Z)) (k : Z) : list Z := nth (Z.to_nat k) L [].
Definition off (L : list (list Z)) (k : Z) : Z := zlen (concat (firstn (Z.to_nat k) L)).

Lemma zlen_lens : forall L, zlen (index_cells (lens L)) = zlen L.
Proof. intros. unfold index_cells, lens. rewrite !zlen_map. reflexivity. Qed.

Lemma cell_lens : forall L k, 0 <= k < zlen L -> to_int (nthZ (index_cells (lens L)) k) = zlen (blk L k).
Proof.
  intros L k H. unfold nthZ, index_cells, lens, blk.
  set (f := fun i : nat => VInt (Z.of_nat i)).
  assert (Hn : (Z.to_nat k < length L)%nat) by (unfold zlen in H; lia).
  rewrite (nth_indep _ dflt (f (length (@nil Z)))) by (rewrite !map_length; exact Hn).
  rewrite map_nth, map_nth. reflexivity.
Qed.

Lemma off_0 : forall L, off L 0 = 0.
Proof. reflexivity. Qed.

Lemma off_succ : forall L k, 0 <= k < zlen L -> off L (k + 1) = off L k + zlen (blk L k).
Proof.
  intros L k H. unfold off, blk. replace (Z.to_nat (k + 1)) with (S (Z.to_nat k)) by lia.
  rewrite (firstn_snoc L (Z.to_nat k) []) by (unfold zlen in H; lia).
  rewrite concat_app. simpl concat. rewrite app_nil_r. unfold zlen. rewrite app_length. lia.
Qed.

Lemma off_le : forall L k, off L k <= zlen (concat L).
Proof.
  intros L k. unfold off. rewrite <- (firstn_skipn (Z.to_nat k) L) at 2.
  rewrite concat_app. unfold zlen. rewrite app_length. lia.
Qed.

Lemma off_all : forall L k, zlen L <= k -> off L k = zlen (concat L).
Proof. intros L k H. unfold off. rewrite firstn_all2 by (unfold zlen in H; lia). reflexivity. Qed.

Lemma off_blk_le : forall L k, 0 <= k < zlen L -> off L k + zlen (blk L k) <= zlen (concat L).
Proof. intros L k H. rewrite <- off_succ by assumption. apply off_le. Qed.

Lemma off_nonneg : forall L k, 0 <= off L k.
Proof. intros. unfold off. apply zlen_nonneg. Qed.

Lemma psum_lens : forall L k, 0 <= k <= zlen L -> sum_int (pyslice (index_cells (lens L)) 0 k) = off L k.
Proof.
  intros L k [H0 H1]. change (psum (index_cells (lens L)) k = off L k). revert H1.
  pattern k. apply natlike_ind; [| |exact H0].
  - intros _. rewrite psum_0. reflexivity.
  - intros x Hx IH Hle. unfold Z.succ in *. rewrite psum_succ by (rewrite zlen_lens; lia).
    rewrite IH by lia. rewrite cell_lens by lia. rewrite off_succ by lia. reflexivity.
Qed.

Lemma nth_concat_blk : forall (L : list (list Z)) n j, (n < length L)%nat -> (j < length (nth n L []))%nat ->
  nth (length (concat (firstn n L)) + j) (concat L) 0 = nth j (nth n L []) 0.
Proof.
  induction L as [|x r IH]; intros n j Hn Hj; [simpl in Hn; lia|].
  destruct n as [|n].
  - simpl. simpl in Hj. apply app_nth1. exact Hj.
  - simpl firstn. simpl concat. rewrite app_length. simpl nth in *.
    rewrite <- Nat.add_assoc. rewrite app_nth2_plus. apply IH; [simpl in Hn; lia | exact Hj].
Qed.

Lemma tk_concat : forall L k j, 0 <= k < zlen L -> 0 <= j < zlen (blk L k) ->
  tk (concat L) (off L k + j) = tk (blk L k) j.
Proof.
  intros L k j Hk Hj. unfold tk, off, blk in *. unfold zlen in *.
  replace (Z.to_nat (Z.of_nat (length (concat (firstn (Z.to_nat k) L))) + j))
    with (length (concat (firstn (Z.to_nat k) L)) + Z.to_nat j)%nat by lia.
  apply nth_concat_blk; lia.
Qed.

Lemma blk_nil : forall L k, zlen (blk L k) <= 0 -> blk L k = [].
Proof. intros L k H. destruct (blk L k); [reflexivity|]. unfold zlen in H. simpl in H. lia. Qed.

(* ---------- the model, block by block ---------- *)
Lemma nth_map_none : forall (l : list Z) j, nth j (map (fun _ : Z => @None nat) l) None = None.
Proof. induction l; destruct j; simpl; auto. Qed.

Lemma vf_block_length : forall mode qs src o, length (vf_block mode qs src o) = length qs.
Proof. intros. apply (proj1 (vf_block_in_range mode qs src o)). Qed.

Lemma vf_all_nth : forall mode qss sss o n j, length qss = length sss -> (n < length qss)%nat ->
  (j < length (nth n qss []))%nat ->
  nth (length (concat (firstn n qss)) + j) (vf_all mode qss sss o) None
  = nth j (vf_block mode (nth n qss []) (nth n sss []) (o + length (concat (firstn n sss)))) None.
Proof.
  intros mode. induction qss as [|qs qr IH]; intros sss o n j Hl Hn Hj; [simpl in Hn; lia|].
  destruct sss as [|src sr]; [discriminate|]. rewrite vf_all_cons.
  destruct n as [|n].
  - simpl firstn. simpl concat. simpl length. simpl nth in *. rewrite Nat.add_0_r.
    apply app_nth1. rewrite vf_block_length. exact Hj.
  - simpl firstn. simpl concat. rewrite !app_length. simpl nth in *.
    rewrite <- (vf_block_length mode qs src o) at 1. rewrite <- Nat.add_assoc. rewrite app_nth2_plus.
    rewrite IH; [| simpl in Hl; lia | simpl in Hn; lia | exact Hj]. f_equal. f_equal. lia.
Qed.

Lemma vf_all_no_source : forall mode qss sss o, length qss = length sss -> concat sss = [] ->
  vf_all mode qss sss o = map (fun _ => None) (concat qss).
Proof.
  intros mode. induction qss as [|qs qr IH]; intros sss o Hl Hc; [reflexivity|].
  destruct sss as [|src sr]; [discriminate|]. simpl in Hc. apply app_eq_nil in Hc. destruct Hc as [-> Hc].
  rewrite vf_all_cons. simpl concat. rewrite map_app. f_equal. apply IH; [simpl in Hl; lia | exact Hc].
Qed.

Lemma skipn_S_tl : forall {A} (l : list A) n, skipn (S n) l = List.tl (skipn n l).
Proof.
  induction l as [|x r IH]; intros n; [destruct n; reflexivity|].
  destruct n; [reflexivity|]. simpl. apply IH.
Qed.

Lemma nth_hd_skipn : forall {A} (l : list A) n d, nth n l d = hd d (skipn n l).
Proof. induction l as [|x r IH]; intros [|n] d; simpl; auto. Qed.

Section VF.
Variable p : positive.
Variable mode : Z.
Variables qss sss : list (list Z).

Definition Qs := concat qss.
Definition Ss := concat sss.
Definition Tn (j : Z) : option nat := nth (Z.to_nat j) (vf_all mode qss sss 0%nat) None.

(* The invariants are pointwise on the result buffer idx (n cells, initially all NaN).
   [Tn j] is the model's answer for the j-th query of the concatenated array.
   OInv k: for-loop over the intervals; the blocks before k are answered, the rest is still NaN. *)
Definition OInv (k : Z) (idx : list sval) : Prop :=
  (forall j, 0 <= j < off qss k -> nthZ idx j = ocell (Tn j))
  /\ (forall j, off qss k <= j < zlen Qs -> nthZ idx j = nan).

(* I3: while t < maxt, inside interval k; t is the absolute query position, i the absolute cursor.
   The remaining answers of the block are the model's [vf_interval] resumed at the local query
   position t - off qss k with the local cursor i - off sss k. *)
Definition I3 (k t i : Z) (idx : list sval) : Prop :=
  off qss k <= t <= off qss k + zlen (blk qss k)
  /\ off sss k <= i < off sss k + zlen (blk sss k)
  /\ (forall j, 0 <= j < t -> nthZ idx j = ocell (Tn j))
  /\ (forall j, t <= j < zlen Qs -> nthZ idx j = nan)
  /\ skipn (Z.to_nat (t - off qss k)) (vf_interval mode (blk qss k) (blk sss k) 0%nat)
     = vf_interval mode (skipn (Z.to_nat (t - off qss k)) (blk qss k)) (blk sss k) (Z.to_nat (i - off sss k)).

(* cut point after "if mode != 1": interval holds the (signed or absolute) difference *)
Definition F4 (t i : Z) (v : sval) : Prop :=
  v = VFlt (Some (qt p (ivl mode (tk Ss i) (tk Qs t)))).

(* the model's inner loop for the query at t entered with cursor i0 *)
Definition R0 (k t i0 : Z) :=
  let src := blk sss k in let x := tk Qs t in
  let il0 := Z.to_nat (i0 - off sss k) in
  vf_inner (S (length src)) mode x src (S il0) il0 (ivl mode (nth il0 src 0) x)
           ((mode =? 0) && (0 <? ivl mode (nth il0 src 0) x)).

(* I5: while i < maxi.  idx[t] holds float(i - 1); the model's inner loop resumed at the local i, with
   the current interval / nan_cond and some sufficient fuel, yields the result of the whole inner loop *)
Definition I5 (k t i1 : Z) (idx1 : list sval) (i : Z) (ivv ncv : sval) (idx : list sval) : Prop :=
  i1 <= i <= off sss k + zlen (blk sss k)
  /\ idx = updZ idx1 t (fcell (i - 1))
  /\ exists iv f, ivv = VFlt (Some (qt p iv))
       /\ (Z.to_nat (off sss k + zlen (blk sss k) - i) < f)%nat
       /\ vf_inner f mode (tk Qs t) (blk sss k) (Z.to_nat (i - off sss k)) (Z.to_nat (i - off sss k - 1))
                   iv (truthy ncv) = R0 k t (i1 - 1).

(* the model's break_cond and nan_cond of one inner step *)
Definition BC (iv nw : Z) : bool :=
  if mode =? 1 then iv <? nw
  else if mode =? 0 then ((0 <? nw) && (iv <=? 0)) || (0 <=? iv)
       else ((nw <? 0) && (0 <=? iv)) || (0 <=? iv).
Definition NC (iv nw : Z) : bool :=
  if mode =? 1 then false else if mode =? 0 then 0 <? iv else nw <? 0.

(* cut point after "if mode != 1" inside the inner loop *)
Definition F6 (t i : Z) (ivv nwv bcv ncv : sval) : Prop :=
  forall iv, ivv = VFlt (Some (qt p iv)) ->
    nwv = VFlt (Some (qt p (ivl mode (tk Ss i) (tk Qs t))))
    /\ truthy bcv = BC iv (ivl mode (tk Ss i) (tk Qs t))
    /\ truthy ncv = NC iv (ivl mode (tk Ss i) (tk Qs t)).

(* cut points after "if mode == 2" and after "if i == maxi": what the two conditionals did *)
Definition F10 (t i : Z) (ncv0 ncv : sval) : Prop :=
  truthy ncv = if mode =? 2 then (tk Ss (i - 1) - tk Qs t <? 0) else truthy ncv0.

Definition F9 (t i maxi : Z) (ncv0 : sval) (idx0 idx : list sval) : Prop :=
  idx = if (i =? maxi) && (if mode =? 2 then (tk Ss (i - 1) - tk Qs t <? 0) else truthy ncv0)
        then updZ idx0 t nan else idx0.

Hypothesis Hlen : zlen sss = zlen qss.

Lemma len_eq : length qss = length sss.
Proof. unfold zlen in Hlen. lia. Qed.

Lemma Tn_blk : forall k j, 0 <= k < zlen qss -> 0 <= j < zlen (blk qss k) ->
  Tn (off qss k + j)
  = nth (Z.to_nat j) (vf_block mode (blk qss k) (blk sss k) (Z.to_nat (off sss k))) None.
Proof.
  intros k j Hk Hj. unfold Tn, off, blk in *. unfold zlen in *.
  replace (Z.to_nat (Z.of_nat (length (concat (firstn (Z.to_nat k) qss))) + j))
    with (length (concat (firstn (Z.to_nat k) qss)) + Z.to_nat j)%nat by lia.
  rewrite vf_all_nth; [| exact len_eq | lia | lia]. rewrite Nat2Z.id. reflexivity.
Qed.

(* ---------- the outer loop ---------- *)
Lemma V_oinv_init : forall n, n = zlen Qs -> OInv 0 (zeros DFlt n (VFlt None)).
Proof.
  intros n ->. split; intros j Hj.
  - rewrite off_0 in Hj. lia.
  - rewrite off_0 in Hj. unfold nthZ, zeros. cbn [coerce to_flt].
    rewrite (nth_indep _ dflt nan) by (rewrite repeat_length; lia).
    apply nth_repeat.
Qed.

Lemma V_oinv_skip : forall k d, OInv k d -> 0 <= k < zlen qss ->
  zlen (blk qss k) <= 0 \/ zlen (blk sss k) <= 0 -> OInv (k + 1) d.
Proof.
  intros k d [A B] Hk X. pose proof (off_blk_le qss k Hk) as Hle. fold Qs in Hle.
  pose proof (zlen_nonneg (blk qss k)) as Hq0.
  unfold OInv. rewrite (off_succ qss k Hk). split; intros j Hj.
  - destruct (Z_lt_le_dec j (off qss k)) as [Hlt|Hge]; [apply A; lia|].
    rewrite B by lia. destruct X as [X|X]; [lia|].
    replace j with (off qss k + (j - off qss k)) by lia. rewrite Tn_blk by lia.
    rewrite (blk_nil sss k X). unfold vf_block. rewrite nth_map_none. reflexivity.
  - apply B. lia.
Qed.

Lemma V_i3_init : forall k d, OInv k d -> 0 <= k < zlen qss -> 0 < zlen (blk sss k) ->
  I3 k (off qss k) (off sss k) d.
Proof.
  intros k d [A B] Hk Hs. pose proof (zlen_nonneg (blk qss k)). unfold I3. repeat split; try lia.
  - exact A.
  - exact B.
  - rewrite !Z.sub_diag. reflexivity.
Qed.

Lemma V_oinv_next : forall k t i d, I3 k t i d -> 0 <= k < zlen qss ->
  off qss k + zlen (blk qss k) <= t -> OInv (k + 1) d.
Proof.
  intros k t i d (Ht & Hi & A & B & E) Hk Hge. unfold OInv. rewrite (off_succ qss k Hk). split; intros j Hj.
  - apply A. lia.
  - apply B. lia.
Qed.

Lemma V_final : forall k d, OInv k d -> zlen qss <= k -> zlen d = zlen Qs ->
  d = ocells (vf_all mode qss sss 0%nat).
Proof.
  intros k d [A B] Hk Hd. rewrite (off_all qss k Hk) in A. fold Qs in A.
  assert (L : length (vf_all mode qss sss 0%nat) = length Qs) by (apply vf_all_length; exact len_eq).
  apply (nth_ext _ _ dflt (ocell None)).
  - unfold ocells. rewrite map_length, L. unfold zlen in Hd. lia.
  - intros n Hn. unfold ocells. rewrite map_nth.
    specialize (A (Z.of_nat n)). unfold nthZ, Tn in A. rewrite Nat2Z.id in A. apply A. unfold zlen in *. lia.
Qed.

Lemma V_trivial : forall n, n = zlen Qs -> zlen Qs <= 0 \/ zlen Ss <= 0 ->
  zeros DFlt n (VFlt None) = ocells (vf_all mode qss sss 0%nat).
Proof.
  intros n -> X. apply (V_final (zlen qss)); [| lia | rewrite zlen_zeros; pose proof (zlen_nonneg Qs); lia].
  pose proof (V_oinv_init (zlen Qs) eq_refl) as [_ B]. split; intros j Hj.
  - rewrite off_all in Hj by lia. fold Qs in Hj. destruct X as [X|X]; [lia|].
    rewrite B by (rewrite off_0; lia). unfold Tn.
    rewrite vf_all_no_source; [| exact len_eq |].
    + rewrite nth_map_none. reflexivity.
    + fold Ss. destruct Ss; [reflexivity|]. unfold zlen in X. simpl in X. lia.
  - rewrite off_all in Hj by lia. fold Qs in Hj. lia.
Qed.

(* ---------- one query ---------- *)
Lemma V_query_end : forall k t i0 d0 d2 i r,
  I3 k t i0 d0 -> 0 <= k < zlen qss -> t < off qss k + zlen (blk qss k) -> zlen d0 = zlen Qs ->
  off sss k <= i - 1 ->
  vf_query mode (tk Qs t) (blk sss k) (Z.to_nat (i0 - off sss k)) = (r, Z.to_nat (i - 1 - off sss k)) ->
  (Z.to_nat (i - 1 - off sss k) < length (blk sss k))%nat ->
  d2 = updZ d0 t (ocell (option_map (fun j => (Z.to_nat (off sss k) + j)%nat) r)) ->
  I3 k (t + 1) (i - 1) d2.
Proof.
  intros k t i0 d0 d2 i r (Ht & Hi & A & B & E) Hk Hlt Hd Hi1 HQ Hc ->.
  pose proof (off_blk_le qss k Hk) as Hle. fold Qs in Hle. pose proof (off_nonneg qss k) as Ho.
  set (tl := t - off qss k) in *.
  assert (Hsk : skipn (Z.to_nat tl) (blk qss k) = tk Qs t :: skipn (Z.to_nat (tl + 1)) (blk qss k)).
  { replace t with (off qss k + tl) at 1 by (unfold tl; lia). unfold Qs.
    rewrite tk_concat by (unfold tl; lia).
    replace (Z.to_nat (tl + 1)) with (S (Z.to_nat tl)) by (unfold tl; lia).
    unfold tk. apply skipn_cons_nth. unfold zlen in *. unfold tl. lia. }
  rewrite Hsk in E. cbn [vf_interval] in E. rewrite HQ in E.
  assert (Hs : blk sss k <> []) by (intros Z0; rewrite Z0 in Hc; simpl in Hc; lia).
  assert (HT : Tn t = option_map (fun j => (Z.to_nat (off sss k) + j)%nat) r).
  { replace t with (off qss k + tl) by (unfold tl; lia). rewrite Tn_blk by (unfold tl; lia).
    unfold vf_block. destruct (blk sss k) as [|s0 sr] eqn:Eb; [congruence|].
    rewrite (nth_indep _ None (option_map (fun j => (Z.to_nat (off sss k) + j)%nat) None)).
    2:{ rewrite map_length, vf_interval_length. unfold zlen in *. unfold tl. lia. }
    rewrite map_nth. f_equal. rewrite nth_hd_skipn. rewrite E. reflexivity. }
  unfold I3. repeat split; try lia.
  - unfold zlen. lia.
  - intros j Hj. destruct (Z.eq_dec j t) as [->|Hne].
    + rewrite nthZ_updZ_same by lia. rewrite HT. reflexivity.
    + rewrite nthZ_updZ_other by lia. apply A. lia.
  - intros j Hj. rewrite nthZ_updZ_other by lia. apply B. lia.
  - replace (t + 1 - off qss k) with (tl + 1) by (unfold tl; lia).
    replace (Z.to_nat (tl + 1)) with (S (Z.to_nat tl)) at 1 by (unfold tl; lia).
    rewrite skipn_S_tl. rewrite E. reflexivity.
Qed.

Lemma I3_bounds : forall k t i d, I3 k t i d -> 0 <= k < zlen qss ->
  off qss k <= t <= off qss k + zlen (blk qss k)
  /\ off sss k <= i < off sss k + zlen (blk sss k)
  /\ 0 <= off qss k /\ off qss k + zlen (blk qss k) <= zlen Qs
  /\ 0 <= off sss k /\ off sss k + zlen (blk sss k) <= zlen Ss.
Proof.
  intros k t i d (Ht & Hi & _) Hk. repeat split; try lia.
  - apply off_nonneg.
  - apply off_blk_le. exact Hk.
  - apply off_nonneg.
  - apply off_blk_le. lia.
Qed.

Lemma I5_bounds : forall k t i1 idx1 i ivv ncv idx, I5 k t i1 idx1 i ivv ncv idx ->
  i1 <= i <= off sss k + zlen (blk sss k).
Proof. intros k t i1 idx1 i ivv ncv idx (H & _). exact H. Qed.

Lemma tk_Ss : forall k i, 0 <= k < zlen sss -> off sss k <= i < off sss k + zlen (blk sss k) ->
  tk Ss i = nth (Z.to_nat (i - off sss k)) (blk sss k) 0.
Proof.
  intros k i Hk Hi. replace i with (off sss k + (i - off sss k)) at 1 by lia.
  unfold Ss. rewrite tk_concat by lia. reflexivity.
Qed.

Lemma R0_query : forall k t i0,
  vf_query mode (tk Qs t) (blk sss k) (Z.to_nat (i0 - off sss k)) = vf_fin mode (tk Qs t) (blk sss k) (R0 k t i0).
Proof. intros. rewrite vf_query_fin. reflexivity. Qed.

Lemma V_i5_init : forall k t i0 d0 v2, I3 k t i0 d0 -> 0 <= k < zlen qss -> F4 t i0 v2 ->
  I5 k t (i0 + 1) (updZ d0 t (fcell i0)) (i0 + 1) v2
     (if mode =? 0 then VBool (eval_cmp Gt v2 (VInt 0)) else VBool (mode =? 0))
     (updZ d0 t (fcell i0)).
Proof.
  intros k t i0 d0 v2 H3 Hk H4. destruct (I3_bounds _ _ _ _ H3 Hk) as (Ht & Hi & Hq0 & Hq1 & Hs0 & Hs1).
  unfold I5. split; [lia|]. split.
  { rewrite updZ_twice. replace (i0 + 1 - 1) with i0 by lia. reflexivity. }
  exists (ivl mode (tk Ss i0) (tk Qs t)), (S (length (blk sss k))). split; [exact H4|].
  split; [unfold zlen in *; lia|].
  unfold R0. cbv zeta. replace (i0 + 1 - 1) with i0 by lia.
  replace (Z.to_nat (i0 + 1 - off sss k)) with (S (Z.to_nat (i0 - off sss k))) by lia.
  replace (Z.to_nat (i0 + 1 - off sss k - 1)) with (Z.to_nat (i0 - off sss k)) by lia.
  rewrite <- (tk_Ss k i0) by lia. f_equal.
  unfold F4 in H4. subst v2. destruct (mode =? 0); [|reflexivity].
  cbn [eval_cmp is_flt orb to_flt truthy]. rewrite cmp_gt_qt0. reflexivity.
Qed.

Lemma V_i5_step : forall k t i1 idx1 i v3 v4 d1 v7 v8 v6,
  I5 k t i1 idx1 i v3 v4 d1 -> 0 <= k < zlen qss -> off sss k < i1 ->
  i < off sss k + zlen (blk sss k) -> F6 t i v3 v7 v8 v6 -> truthy v8 = false ->
  I5 k t i1 idx1 (i + 1) v7 v6 (updZ d1 t (fcell i)).
Proof.
  intros k t i1 idx1 i v3 v4 d1 v7 v8 v6 (Hb & -> & iv & f & -> & Hf & HR) Hk H1 Hlt H6 H8.
  destruct (H6 iv eq_refl) as (-> & Hbc & Hnc). clear H6.
  unfold I5. split; [lia|]. split.
  { rewrite updZ_twice. replace (i + 1 - 1) with i by lia. reflexivity. }
  destruct f as [|f]; [lia|]. rewrite vf_inner_S in HR. cbv zeta in HR.
  assert (E : (Z.to_nat (i - off sss k) <? length (blk sss k))%nat = true)
    by (apply Nat.ltb_lt; unfold zlen in *; lia).
  rewrite E in HR. rewrite <- (tk_Ss k i) in HR by lia.
  unfold BC in Hbc. rewrite <- Hbc, H8 in HR. unfold NC in Hnc. rewrite <- Hnc in HR.
  exists (ivl mode (tk Ss i) (tk Qs t)), f. split; [reflexivity|]. split; [lia|].
  replace (Z.to_nat (i + 1 - off sss k)) with (S (Z.to_nat (i - off sss k))) by lia.
  replace (Z.to_nat (i + 1 - off sss k - 1)) with (Z.to_nat (i - off sss k)) by lia.
  exact HR.
Qed.

Lemma ocell_some : forall k i, 0 <= off sss k -> off sss k <= i - 1 ->
  ocell (option_map (fun j => (Z.to_nat (off sss k) + j)%nat) (Some (Z.to_nat (i - off sss k - 1)))) = fcell (i - 1).
Proof. intros k i H0 H1. unfold ocell, option_map, fcell. f_equal. f_equal. f_equal. lia. Qed.

Lemma V_brk : forall k t i0 d0 i v3 v4 d1 v7 v8 v6 dX d2,
  I3 k t i0 d0 -> 0 <= k < zlen qss -> t < off qss k + zlen (blk qss k) -> zlen d0 = zlen Qs ->
  I5 k t (i0 + 1) (updZ d0 t (fcell i0)) i v3 v4 d1 ->
  i < off sss k + zlen (blk sss k) -> F6 t i v3 v7 v8 v6 -> truthy v8 = true ->
  dX = (if truthy v6 then updZ d1 t nan else d1) ->
  F9 t i (off sss k + zlen (blk sss k)) v6 dX d2 ->
  I3 k (t + 1) (i - 1) d2.
Proof.
  intros k t i0 d0 i v3 v4 d1 v7 v8 v6 dX d2 H3 Hk Hlt Hd (Hb & -> & iv & f & -> & Hf & HR) Hi H6 H8 -> H9.
  destruct (I3_bounds _ _ _ _ H3 Hk) as (Ht & Hi0 & Hq0 & Hq1 & Hs0 & Hs1).
  destruct (H6 iv eq_refl) as (-> & Hbc & Hnc). clear H6.
  replace (i0 + 1 - 1) with i0 in HR by lia.
  destruct f as [|f]; [lia|]. rewrite vf_inner_S in HR. cbv zeta in HR.
  assert (E : (Z.to_nat (i - off sss k) <? length (blk sss k))%nat = true)
    by (apply Nat.ltb_lt; unfold zlen in *; lia).
  rewrite E in HR. rewrite <- (tk_Ss k i) in HR by lia.
  unfold BC in Hbc. rewrite <- Hbc, H8 in HR. unfold NC in Hnc. rewrite <- Hnc in HR.
  unfold F9 in H9. assert (E9 : (i =? off sss k + zlen (blk sss k)) = false) by (apply Z.eqb_neq; lia).
  rewrite E9 in H9. cbn [andb] in H9. subst d2.
  eapply (V_query_end k t i0 d0 _ i); try eassumption; try lia.
  - rewrite R0_query, <- HR. unfold vf_fin.
    assert (E2 : (Z.to_nat (i - off sss k) =? length (blk sss k))%nat = false)
      by (apply Nat.eqb_neq; apply Nat.ltb_lt in E; lia).
    rewrite E2. f_equal. lia.
  - rewrite !updZ_twice. destruct (truthy v6).
    + reflexivity.
    + rewrite ocell_some by lia. reflexivity.
Qed.

Lemma V_exit : forall k t i0 d0 i v3 v4 d1 d2,
  I3 k t i0 d0 -> 0 <= k < zlen qss -> t < off qss k + zlen (blk qss k) -> zlen d0 = zlen Qs ->
  I5 k t (i0 + 1) (updZ d0 t (fcell i0)) i v3 v4 d1 ->
  off sss k + zlen (blk sss k) <= i ->
  F9 t i (off sss k + zlen (blk sss k)) v4 d1 d2 ->
  I3 k (t + 1) (i - 1) d2.
Proof.
  intros k t i0 d0 i v3 v4 d1 d2 H3 Hk Hlt Hd (Hb & -> & iv & f & -> & Hf & HR) Hi H9.
  destruct (I3_bounds _ _ _ _ H3 Hk) as (Ht & Hi0 & Hq0 & Hq1 & Hs0 & Hs1).
  assert (Ei : i = off sss k + zlen (blk sss k)) by lia.
  replace (i0 + 1 - 1) with i0 in HR by lia.
  destruct f as [|f]; [lia|]. rewrite vf_inner_S in HR. cbv zeta in HR.
  assert (En : Z.to_nat (i - off sss k) = length (blk sss k)) by (unfold zlen in *; lia).
  assert (E : (Z.to_nat (i - off sss k) <? length (blk sss k))%nat = false)
    by (apply Nat.ltb_ge; lia).
  rewrite E in HR.
  unfold F9 in H9. assert (E9 : (i =? off sss k + zlen (blk sss k)) = true) by (apply Z.eqb_eq; lia).
  rewrite E9 in H9. cbn [andb] in H9. subst d2.
  eapply (V_query_end k t i0 d0 _ i); try eassumption; try lia.
  - rewrite R0_query, <- HR. unfold vf_fin.
    assert (E2 : (Z.to_nat (i - off sss k) =? length (blk sss k))%nat = true) by (apply Nat.eqb_eq; exact En).
    rewrite E2. f_equal. lia.
  - rewrite (tk_Ss k (i - 1)) by lia.
    replace (Z.to_nat (i - 1 - off sss k)) with (Z.to_nat (i - off sss k) - 1)%nat by lia.
    match goal with |- context [if ?c then updZ _ _ _ else _] => destruct c end.
    + rewrite updZ_twice. rewrite updZ_twice. reflexivity.
    + rewrite updZ_twice. replace (Z.to_nat (i - off sss k - 1)) with (Z.to_nat (i - off sss k) - 1)%nat by lia.
      replace (Z.to_nat (i - off sss k) - 1)%nat with (Z.to_nat (i - off sss k - 1)) by lia.
      rewrite ocell_some by lia. reflexivity.
Qed.

(* ---------- the cut points: what the conditionals compute ---------- *)
Lemma V_f4_signed : forall t i, mode <> 1 -> 0 <= t < zlen Qs -> 0 <= i < zlen Ss ->
  F4 t i (binop_flt Sub (to_flt (nthZ (scells p Ss) i)) (to_flt (nthZ (scells p Qs) t))).
Proof.
  intros t i Hm Ht Hi. rewrite !nth_scells by assumption. unfold binop_flt. rewrite fsub_qt.
  unfold F4, ivl. assert (E : (mode =? 1) = false) by (apply Z.eqb_neq; exact Hm). rewrite E. reflexivity.
Qed.

Lemma V_f4_abs : forall t i, mode = 1 -> 0 <= t < zlen Qs -> 0 <= i < zlen Ss ->
  F4 t i (eval_unop Abs (binop_flt Sub (to_flt (nthZ (scells p Ss) i)) (to_flt (nthZ (scells p Qs) t)))).
Proof.
  intros t i Hm Ht Hi. rewrite !nth_scells by assumption. unfold binop_flt. rewrite fsub_qt, abs_qt.
  unfold F4, ivl. subst mode. reflexivity.
Qed.

Lemma V_f10_after : forall t i v, mode = 2 -> 0 <= t < zlen Qs -> 0 <= i - 1 < zlen Ss ->
  F10 t i v (VBool (cmp_flt Lt (fsub (to_flt (nthZ (scells p Ss) (i - 1))) (to_flt (nthZ (scells p Qs) t)))
                           (Some (qz 0)))).
Proof.
  intros t i v Hm Ht Hi. rewrite !nth_scells by assumption. rewrite fsub_qt, cmp_lt_qt0.
  unfold F10. subst mode. reflexivity.
Qed.

Lemma V_f10_other : forall t i v, mode <> 2 -> F10 t i v v.
Proof.
  intros t i v Hm. unfold F10. assert (E : (mode =? 2) = false) by (apply Z.eqb_neq; exact Hm).
  rewrite E. reflexivity.
Qed.

Lemma V_f9_skip : forall t i maxi v d, i <> maxi -> F9 t i maxi v d d.
Proof.
  intros t i maxi v d H. unfold F9. assert (E : (i =? maxi) = false) by (apply Z.eqb_neq; exact H).
  rewrite E. reflexivity.
Qed.

Lemma V_f9_nan : forall t i maxi v4 v6 d, i = maxi -> F10 t i v4 v6 -> truthy v6 = true ->
  F9 t i maxi v4 d (updZ d t (VFlt None)).
Proof.
  intros t i maxi v4 v6 d -> H10 H6. unfold F9, F10 in *. rewrite Z.eqb_refl, <- H10, H6. reflexivity.
Qed.

Lemma V_f9_keep : forall t i maxi v4 v6 d, i = maxi -> F10 t i v4 v6 -> truthy v6 = false ->
  F9 t i maxi v4 d d.
Proof.
  intros t i maxi v4 v6 d -> H10 H6. unfold F9, F10 in *. rewrite Z.eqb_refl, <- H10, H6. reflexivity.
Qed.

End VF.

Local Open Scope string_scope.

Definition ann_vf (p : positive) (mode : Z) (qss sss : list (list Z)) (l : nat) : annot :=
  match l with
  | 1%nat => ALoop [("k", KInt); ("t", KAny); ("i", KAny); ("maxt", KAny); ("maxi", KAny);
                    ("interval", KAny); ("nan_cond", KAny); ("new_interval", KAny);
                    ("break_cond", KAny); ("idx", KArr)]
                   (fun st0 st => OInv mode qss sss (getZ st "k") (getD st "idx"))
  | 3%nat => ALoop [("t", KInt); ("i", KInt); ("interval", KAny); ("nan_cond", KAny);
                    ("new_interval", KAny); ("break_cond", KAny); ("idx", KArr)]
                   (fun st0 st => I3 mode qss sss (getZ st0 "k") (getZ st "t") (getZ st "i") (getD st "idx"))
  | 4%nat => ALoop [("interval", KSc)]
                   (fun st0 st => F4 p mode qss sss (getZ st0 "t") (getZ st0 "i") (getsc st "interval"))
  | 5%nat => ALoop [("i", KInt); ("interval", KSc); ("nan_cond", KSc);
                    ("new_interval", KAny); ("break_cond", KAny); ("idx", KArr)]
                   (fun st0 st => I5 p mode qss sss (getZ st0 "k") (getZ st0 "t") (getZ st0 "i") (getD st0 "idx")
                                     (getZ st "i") (getsc st "interval") (getsc st "nan_cond") (getD st "idx"))
  | 6%nat => ALoop [("new_interval", KSc); ("break_cond", KSc); ("nan_cond", KSc)]
                   (fun st0 st => F6 p mode qss sss (getZ st0 "t") (getZ st0 "i") (getsc st0 "interval")
                                     (getsc st "new_interval") (getsc st "break_cond") (getsc st "nan_cond"))
  | 9%nat => ALoop [("new_interval", KAny); ("nan_cond", KSc); ("idx", KArr)]
                   (fun st0 st => F9 mode qss sss (getZ st0 "t") (getZ st0 "i") (getZ st0 "maxi")
                                     (getsc st0 "nan_cond") (getD st0 "idx") (getD st "idx"))
  | 10%nat => ALoop [("new_interval", KAny); ("nan_cond", KSc)]
                   (fun st0 st => F10 mode qss sss (getZ st0 "t") (getZ st0 "i") (getsc st0 "nan_cond")
                                      (getsc st "nan_cond"))
  | _ => ANone
  end.

Definition vf_args (p : positive) (mode : Z) (qss sss : list (list Z)) (dt : dtype) (starts : list sval) : list value :=
  [Ar (A1 DFlt (scells p (concat qss))); Ar (A1 DFlt (scells p (concat sss)));
   Ar (A1 DInt (index_cells (lens qss))); Ar (A1 DInt (index_cells (lens sss)));
   Ar (A1 dt starts); Sc (VInt mode)].

Lemma concat_empty : forall (L : list (list Z)), zlen L <= 0 -> zlen (concat L) = 0.
Proof. intros L H. rewrite <- (off_all L 0) by lia. apply off_0. Qed.

Ltac lens_norm :=
  repeat match goal with
         | H : context [sum_int (pyslice (index_cells (lens ?L)) 0 ?k)] |- _ =>
             rewrite (psum_lens L k) in H by lia
         | |- context [sum_int (pyslice (index_cells (lens ?L)) 0 ?k)] =>
             rewrite (psum_lens L k) by lia
         | H : context [to_int (nthZ (index_cells (lens ?L)) ?k)] |- _ =>
             rewrite (cell_lens L k) in H by lia
         | |- context [to_int (nthZ (index_cells (lens ?L)) ?k)] =>
             rewrite (cell_lens L k) by lia
         end.

Theorem k_jitvaluefrom_computes_vf_all : forall p mode qss sss dt starts fuel,
  zlen sss = zlen qss -> zlen starts = zlen qss ->
  match run fuel k_jitvaluefrom (vf_args p mode qss sss dt starts) with
  | Return rs => rs = [Ar (A1 DFlt (ocells (vf_all mode qss sss 0%nat)))]
  | OutOfFuel => True
  | _ => False
  end.
Proof.
  intros p mode qss sss dt starts fuel Hs Hm.
  pose proof (run_sound all_kernels (ann_vf p mode qss sss) k_jitvaluefrom
                (fun rs => rs = [Ar (A1 DFlt (ocells (vf_all mode qss sss 0%nat)))])
                (vf_args p mode qss sss dt starts) fuel) as RS.
  unfold run.
  match type of RS with ?P -> _ => assert (W : P) end.
  2: { specialize (RS W). unfold Interp.run in *.
       destruct (exec all_kernels fuel (fbody k_jitvaluefrom) (init_store k_jitvaluefrom (vf_args p mode qss sss dt starts)));
         simpl in *; auto. }
  clear RS. unfold vf_args.
  wp_compute k_jitvaluefrom ann_vf.
  vc k_jitvaluefrom ann_vf.
  all: try solve [arith].
  all: rewrite ?zlen_scells, ?zlen_lens in *.
  all: lens_norm.
  all: repeat match goal with
         | H : I3 ?m ?q ?s ?k ?t ?i ?d |- _ =>
             lazymatch goal with
             | _ : off q k <= t <= off q k + zlen (blk q k) /\ _ |- _ => fail
             | _ => pose proof (I3_bounds m q s Hs k t i d H ltac:(lia))
             end
         end.
  all: repeat match goal with
         | H : I5 _ _ _ _ _ _ ?i1 _ ?i _ _ _ |- _ =>
             lazymatch goal with
             | _ : i1 <= i <= _ |- _ => fail
             | _ => pose proof (I5_bounds _ _ _ _ _ _ _ _ _ _ _ _ H)
             end
         end.
  all: unfold Qs, Ss in *.
  all: try lia.
  (* results *)
  all: try match goal with
         | |- [Ar (A1 DFlt ?a)] = [Ar (A1 DFlt ?b)] => apply (f_equal (fun x => [Ar (A1 DFlt x)]))
         end.
  all: try match goal with
         | |- zeros DFlt _ (VFlt None) = ocells _ =>
             apply (V_trivial mode qss sss Hs); [reflexivity | unfold Qs, Ss; pose proof (concat_empty qss); lia]
         | H : OInv _ _ _ ?k ?d |- ?d = ocells _ =>
             apply (V_final mode qss sss Hs k d H); [lia | unfold Qs; lia]
         end.
  (* outer loop *)
  all: try match goal with
         | |- OInv _ _ _ 0 (zeros _ _ _) => apply V_oinv_init; reflexivity
         | H : OInv _ _ _ ?k ?d |- I3 _ _ _ ?k (off _ ?k) (off _ ?k) ?d => apply (V_i3_init mode qss sss k d H); lia
         | H : I3 _ _ _ ?k ?t ?i ?d |- OInv _ _ _ (?k + 1) ?d => apply (V_oinv_next mode qss sss k t i d H); lia
         | H : OInv _ _ _ ?k ?d |- OInv _ _ _ (?k + 1) ?d =>
             apply (V_oinv_skip mode qss sss Hs k d H); [lia | first [left; lia | right; lia]]
         end.
  (* cut points *)
  all: try match goal with
         | |- F4 _ _ _ _ _ _ (binop_flt Sub _ _) => apply V_f4_signed; [assumption | unfold Qs; lia | unfold Ss; lia]
         | |- F4 _ _ _ _ _ _ (eval_unop Abs _) => apply V_f4_abs; [assumption | unfold Qs; lia | unfold Ss; lia]
         | |- F10 _ _ _ _ _ ?v ?v => apply V_f10_other; assumption
         | |- F10 _ _ _ _ _ _ (VBool _) => apply V_f10_after; [assumption | unfold Qs; lia | unfold Ss; lia]
         | H : truthy ?v6 = true |- F9 _ _ _ _ _ _ _ ?d (updZ ?d _ _) => eapply V_f9_nan; [lia | eassumption | exact H]
         | H : F10 _ _ _ _ _ _ ?v6, H' : truthy ?v6 = false |- F9 _ _ _ _ _ _ _ ?d ?d =>
             eapply V_f9_keep; [lia | exact H | exact H']
         | |- F9 _ _ _ _ _ _ _ ?d ?d => apply V_f9_skip; lia
         end.
  (* inner loop *)
  all: try match goal with
         | H3 : I3 _ _ _ ?k ?t ?i0 ?d0, H4 : F4 _ _ _ _ ?t ?i0 ?v2 |- I5 _ _ _ _ ?k ?t (?i0 + 1) _ (?i0 + 1) ?v2 _ _ =>
             apply (V_i5_init p mode qss sss Hs k t i0 d0 v2 H3); [lia | exact H4]
         | H5 : I5 _ _ _ _ ?k ?t ?i1 ?idx1 ?i ?v3 ?v4 ?d1, H6 : F6 _ _ _ _ ?t ?i ?v3 ?v7 ?v8 ?v6, H8 : truthy ?v8 = false
           |- I5 _ _ _ _ ?k ?t ?i1 ?idx1 (?i + 1) ?v7 ?v6 _ =>
             apply (V_i5_step p mode qss sss Hs k t i1 idx1 i v3 v4 d1 v7 v8 v6 H5); [lia | lia | lia | exact H6 | exact H8]
         | H3 : I3 _ _ _ ?k ?t ?i0 ?d0, H5 : I5 _ _ _ _ ?k ?t _ _ ?i ?v3 ?v4 ?d1,
           H6 : F6 _ _ _ _ ?t ?i ?v3 ?v7 ?v8 ?v6, H8 : truthy ?v8 = true, Hv : truthy ?v6 = _,
           H9 : F9 _ _ _ ?t ?i _ ?v6 ?dX ?d2 |- I3 _ _ _ ?k (?t + 1) (?i - 1) ?d2 =>
             apply (V_brk p mode qss sss Hs k t i0 d0 i v3 v4 d1 v7 v8 v6 dX d2 H3);
             [lia | lia | unfold Qs; lia | exact H5 | lia | exact H6 | exact H8 | rewrite Hv; reflexivity | exact H9]
         | H3 : I3 _ _ _ ?k ?t ?i0 ?d0, H5 : I5 _ _ _ _ ?k ?t _ _ ?i ?v3 ?v4 ?d1,
           H9 : F9 _ _ _ ?t ?i _ ?v4 ?d1 ?d2 |- I3 _ _ _ ?k (?t + 1) (?i - 1) ?d2 =>
             apply (V_exit p mode qss sss Hs k t i0 d0 i v3 v4 d1 d2 H3);
             [lia | lia | unfold Qs; lia | exact H5 | lia | exact H9]
         end.
  (* the break / NaN conditions of the inner loop *)
  all: unfold F6; intros iv ->.
  all: rewrite !nth_scells by lia.
  all: unfold binop_flt; rewrite !fsub_qt, ?abs_qt.
  all: cbn [eval_cmp is_flt orb to_flt].
  all: rewrite ?cmp_gt_qt0, ?cmp_lt_qt0, ?cmp_le_qt0, ?cmp_ge_qt0, ?cmp_gt_qt.
  all: unfold BC, NC, ivl.
  all: match goal with
       | Hm1 : ?m <> 1 |- _ => rewrite (proj2 (Z.eqb_neq m 1) Hm1)
       | Hm1 : ?m = 1 |- _ => rewrite Hm1
       end.
  all: unfold Qs, Ss.
  all: change (1 =? 1)%Z with true; change (1 =? 0)%Z with false; cbv iota.
  all: repeat (cbn [truthy andb orb];
               match goal with
               | |- context [if (?a <? ?b)%Z then _ else _] => destruct (a <? b)%Z
               | |- context [if (?a <=? ?b)%Z then _ else _] => destruct (a <=? b)%Z
               | |- context [if (?a =? ?b)%Z then _ else _] => destruct (a =? b)%Z
               end).
  all: cbn [truthy andb orb]; repeat split; try reflexivity.
Qed.

(* ---------- the instance built by _value_from: blocks = per-interval samples ---------- *)
Lemma lens_per_interval : forall ts ep, lens (per_interval ts ep) = restrict_cnt ts ep.
Proof.
  intros. unfold lens, per_interval, restrict_cnt. rewrite map_map. apply map_ext.
  intros ix. unfold select. apply map_length.
Qed.

Lemma zlen_per_interval : forall ts ep, zlen (per_interval ts ep) = zlen ep.
Proof. intros. unfold zlen, per_interval. rewrite map_length, restrict_scan_length. reflexivity. Qed.

(* arguments as _value_from passes them: restricted time arrays, their per-interval counts, the starts
   (only the number of intervals is read), the mode.  Ticks are nanoseconds, floats are seconds. *)
Definition jitvaluefrom_args (mode : Z) (qs sr0 : list Z) (ep : iset) : list value :=
  [Ar (A1 DFlt (qcells (restrict_ts qs ep))); Ar (A1 DFlt (qcells (restrict_ts sr0 ep)));
   index_array (restrict_cnt qs ep); index_array (restrict_cnt sr0 ep);
   Ar (A1 DFlt (qcells (firsts ep))); Sc (VInt mode)].

(* the result array: the float j for Some j, NaN for None *)
Definition vf_result (l : list (option nat)) : value := Ar (A1 DFlt (ocells l)).

Theorem k_jitvaluefrom_computes_model : forall mode qs sr0 ep fuel,
  match run fuel k_jitvaluefrom (jitvaluefrom_args mode qs sr0 ep) with
  | Return rs => rs = [vf_result (value_from mode qs sr0 ep)]
  | OutOfFuel => True
  | _ => False
  end.
Proof.
  intros mode qs sr0 ep fuel.
  pose proof (k_jitvaluefrom_computes_vf_all 1000000000 mode (per_interval qs ep) (per_interval sr0 ep)
                DFlt (qcells (firsts ep)) fuel) as K.
  unfold vf_args in K. rewrite !concat_per_interval, !lens_per_interval in K.
  apply K.
  - rewrite !zlen_per_interval. reflexivity.
  - rewrite zlen_qcells, zlen_firsts, zlen_per_interval. reflexivity.
Qed.

(* the same with the tick embedding of Inv/Jitrestrict_func.v (floats = ticks), the one under which
   jitrestrict_with_count is proved to return these very count arrays *)
Theorem k_jitvaluefrom_computes_model_ticks : forall mode qs sr0 ep fuel,
  match run fuel k_jitvaluefrom
          [Ar (A1 DFlt (tcells (restrict_ts qs ep))); Ar (A1 DFlt (tcells (restrict_ts sr0 ep)));
           index_array (restrict_cnt qs ep); index_array (restrict_cnt sr0 ep);
           Ar (A1 DFlt (tcells (firsts ep))); Sc (VInt mode)] with
  | Return rs => rs = [vf_result (value_from mode qs sr0 ep)]
  | OutOfFuel => True
  | _ => False
  end.
Proof.
  intros mode qs sr0 ep fuel.
  pose proof (k_jitvaluefrom_computes_vf_all 1 mode (per_interval qs ep) (per_interval sr0 ep)
                DFlt (tcells (firsts ep)) fuel) as K.
  unfold vf_args in K. rewrite !scells_1, !concat_per_interval, !lens_per_interval in K.
  apply K.
  - rewrite !zlen_per_interval. reflexivity.
  - rewrite zlen_tcells, zlen_firsts, zlen_per_interval. reflexivity.
Qed.

(* with the structure theorem of the model (C06): for sorted series and a canonical interval set, the
   translated kernel answers the queries of every interval from the sources of that interval only *)
Corollary k_jitvaluefrom_no_cross : forall mode qs sr0 ep fuel, sortedZ qs -> sortedZ sr0 -> canonical ep ->
  match run fuel k_jitvaluefrom (jitvaluefrom_args mode qs sr0 ep) with
  | Return rs => rs = [vf_result (vf_all mode (map (fun iv => filter (fun x => inb x iv) qs) ep)
                                         (map (fun iv => filter (fun y => inb y iv) sr0) ep) 0%nat)]
  | OutOfFuel => True
  | _ => False
  end.
Proof.
  intros mode qs sr0 ep fuel Hq Hs Hc.
  pose proof (k_jitvaluefrom_computes_model mode qs sr0 ep fuel) as H.
  rewrite (value_from_structure mode qs sr0 ep Hq Hs Hc) in H. exact H.
Qed.

(* not vacuous: with enough fuel the kernel does return (termination itself is not proved) *)
Example k_jitvaluefrom_runs :
  run 2000 k_jitvaluefrom
      (jitvaluefrom_args 1 [0; 1; 2; 6; 11; 12; 13; 30] [1; 1; 3; 5; 12; 12; 25; 26]
                         [(0, 6); (10, 20); (22, 28); (29, 40)])
  = Return [vf_result [Some 1; Some 1; Some 2; Some 3; Some 5; Some 5; Some 5; None]%nat].
Proof. vm_compute. reflexivity. Qed.

(* arbitrary blocks (unsorted, duplicates, an empty source block, an empty query block), scale 7, mode 0 *)
Example k_jitvaluefrom_runs_blocks :
  run 2000 k_jitvaluefrom
      (vf_args 7 0 [[5; 3; 9]; [4]; []; [1; 1]] [[4; 4; 8]; []; [2]; [0; 1; 3]] DInt [VInt 0; VInt 0; VInt 0; VInt 0])
  = Return [vf_result (vf_all 0 [[5; 3; 9]; [4]; []; [1; 1]] [[4; 4; 8]; []; [2]; [0; 1; 3]] 0%nat)].
Proof. vm_compute. reflexivity. Qed.

Print Assumptions k_jitvaluefrom_computes_vf_all.
Print Assumptions k_jitvaluefrom_computes_model.
Print Assumptions k_jitvaluefrom_computes_model_ticks.
Print Assumptions k_jitvaluefrom_no_cross.
