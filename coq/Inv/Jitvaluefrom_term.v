(* Termination of the translated jitvaluefrom on every input of its safety precondition [Pre_jitvaluefrom]:
   some fuel makes the checked interpreter return (no error, no fuel exhaustion).
   Jit/Total.v used as a termination-only calculus: the safety annotation [ann_jitvaluefrom] of
   Inv/Jitvaluefrom.v is reused VERBATIM, the only new input is one variant per while loop. *)
From Coq Require Import ZArith QArith String List Bool Lia.
From Verif Require Import Jit.Lang Jit.Interp Jit.Safety Jit.Tactics Jit.ArrayFacts Jit.Total Gen.Kernels.
From Verif Require Import Inv.Jitvaluefrom.
Import ListNotations.
Open Scope Z_scope.
Local Open Scope string_scope.

Definition vnt_term (l : nat) (st : store) : Z :=
  match l with
  | 3%nat => getZ st "maxt" - getZ st "t"
  | 5%nat => getZ st "maxi" - getZ st "i"
  | _ => 0
  end.

Theorem k_jitvaluefrom_returns : forall args, Pre_jitvaluefrom args ->
  exists fuel rs, run fuel k_jitvaluefrom args = Return rs.
Proof.
  intros args (d1 & d2 & d3 & ta & tt & c & ct & s & mode & -> & Hc & Hct & Ic & Ict).
  unfold run.
  match goal with |- exists fuel rs, Interp.run _ fuel _ ?a = _ =>
    destruct (run_total all_kernels ann_jitvaluefrom vnt_term k_jitvaluefrom (fun _ => True) a) as [fuel [rs [E _]]];
      [| exists fuel, rs; exact E]
  end.
  twp_compute k_jitvaluefrom ann_jitvaluefrom vnt_term.
  vc k_jitvaluefrom ann_jitvaluefrom.
  all: arr_arith.
Qed.

Corollary k_jitvaluefrom_terminates : forall args, Pre_jitvaluefrom args ->
  exists fuel, run fuel k_jitvaluefrom args <> OutOfFuel.
Proof.
  intros args HP. destruct (k_jitvaluefrom_returns args HP) as [fuel [rs E]]. exists fuel. rewrite E. discriminate.
Qed.

Print Assumptions k_jitvaluefrom_returns.
