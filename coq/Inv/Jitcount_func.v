(* Functional correctness of the TRANSLATED jitcount (Gen/Kernels.v, generated from
   pynapple/core/_jitted_functions.py) against the functional model [count_binned] of Model/Count.v
   (the model the C05 theorems of Proofs/CountProofs.v are about), by proof, with the method of
   Inv/Jitrestrict_func.v (partial correctness through [run_sound], functional loop invariants):

     for EVERY time array ts (integer ticks; no sortedness needed), every interval list ep with
     start <= end, and EVERY bin size b > 0 ticks (even or odd), running the translated kernel on the
     arrays of ts / starts ep / ends ep and the float b * 1e-9 returns, whenever it returns, exactly
       [ array of the bin centres ; array of the counts ]   of   count_binned ts ep b,
     the doubled centre c2 of the model being reported as the float np.round(c2 / 2 * 1e-9, 9), i.e. the
     tick [centre_tick c2]: c2 / 2 when c2 is even (always the case for an even b), and for an odd c2 the
     EVEN one of the two ticks next to the half tick c2 / 2 (round half to even) ([ccell]).

   Times: a tick t is the float t * 1e-9, the reduced fraction [qtick t] (Inv/Jitfix_iset_func.v): the
   kernel computes in seconds (ends - starts > bin_size, ceil((e + bin - s) / bin), lbound + bin / 2,
   2 * lbound + bin, 2 * ends[k], np.round(., 9)); on the tick lattice every intermediate is an exact
   rational, np.round(., 9) is the identity on ticks ([round9_q]) and rounds a half tick to the even
   neighbour ([round9_half]).  The call of jitrestrict_with_count is discharged with its own functional
   theorem, re-proved here for the [qtick] embedding ([k_jitrestrict_with_count_computes_model_q], same
   invariants and transition lemmas as Inv/Jitrestrict_with_count_func.v), together with its safety
   contract (index bounds of the gather).

   Hypotheses, all needed:
   - start <= end for every interval: needed by the callee (see Inv/Jitrestrict_with_count_func.v);
   - b > 0: the kernel divides by bin_size.
   Neither sortedness of ts nor separation/order of the intervals is needed, and NO parity condition on b:
   the kernel decides whether a bin is reported with  np.round(2 * lbound + bin_size, 9) > 2 * ends[k],
   the doubled exact centre against the doubled end, which is the test [2 * e <? 2 * lb + b] of the model.
   HISTORY: before that repair the kernel compared the ROUNDED centre (xpos > ends[k]); for an odd b the
   centre is a half tick, np.round moved a centre half a tick beyond the end onto the end, and the bin was
   reported: the refinement then held for even b only.  [k_jitcount_before_fix] (Inv/Findings.v) is the
   frozen translation of that text and [odd_bin_size_differs] below the computed witness (ts = [0],
   ep = [(0,0)], b = 1: the old kernel reports one bin, centre 0, count 1; the model and the repaired
   kernel report none). *)
From Coq Require Import ZArith QArith Qround String List Bool Lia.
From Verif Require Import Base.Prelude Model.Restrict Model.Count Proofs.BaseLemmas Proofs.RestrictProofs
  Proofs.CountProofs.
From Verif Require Import Jit.Lang Jit.Interp Jit.Safety Jit.Tactics Jit.ArrayFacts Jit.FloatFacts Gen.Kernels.
From Verif Require Import Inv.Jitrestrict_with_count.
From Verif Require Import Inv.Jitfix_iset_func.
From Verif Require Import Inv.Jitrestrict_func Inv.Jitrestrict_with_count_func Inv.Findings.
Import ListNotations.
Open Scope Z_scope.

(* ---------- float facts on the tick lattice ---------- *)
Lemma cmp_ge_q : forall a b, cmp_flt Ge (Some (qtick a)) (Some (qtick b)) = (b <=? a).
Proof. intros. unfold cmp_flt, cmp_q. apply Qle_bool_qtick. Qed.

Lemma fsub_q : forall a b, fsub (Some (qtick a)) (Some (qtick b)) = Some (qtick (a - b)).
Proof.
  intros a b. unfold fsub, f2, qsome, qtick. f_equal. apply Qred_complete.
  rewrite !Qred_correct. unfold Qeq, Qminus, Qplus, Qopp. simpl. lia.
Qed.
Lemma fadd_q : forall a b, fadd (Some (qtick a)) (Some (qtick b)) = Some (qtick (a + b)).
Proof.
  intros a b. unfold fadd, f2, qsome, qtick. f_equal. apply Qred_complete.
  rewrite !Qred_correct. unfold Qeq, Qplus. simpl. lia.
Qed.

Lemma q_rhe_int : forall q z, (q == inject_Z z)%Q -> q_rhe q = z.
Proof.
  intros q z H. unfold q_rhe.
  assert (F : Qfloor q = z) by (rewrite H; apply Qfloor_Z).
  rewrite F. unfold qz.
  assert (C : Qcompare (q - inject_Z z)%Q (1 # 2)%Q = Datatypes.Lt).
  { apply -> Qlt_alt. rewrite H. unfold Qlt, Qminus, Qplus, Qopp, inject_Z. simpl. lia. }
  rewrite C. reflexivity.
Qed.

Lemma round9_q : forall a, round9 (qtick a) = qtick a.
Proof.
  intros a. unfold round9. rewrite (q_rhe_int _ a); [reflexivity|].
  rewrite qtick_eq. unfold Qeq, Qmult, inject_Z, e9. simpl. lia.
Qed.

Lemma Qceiling_frac : forall x (p : positive), Qceiling (x # p) = (x + Zpos p - 1) / Zpos p.
Proof.
  intros x p. unfold Qceiling, Qfloor. simpl.
  pose proof (Z.mod_pos_bound (- x) (Zpos p) ltac:(lia)) as Hm.
  pose proof (Z.div_mod (- x) (Zpos p) ltac:(lia)) as Hd.
  apply Z.div_unique with (r := Zpos p - 1 - ((- x) mod Zpos p)); [left; lia | lia].
Qed.

Lemma ceil_div_q : forall x b, 0 < b ->
  exists q, fdiv (Some (qtick x)) (Some (qtick b)) = Some q /\ Qceiling q = cdiv x b.
Proof.
  intros x b Hb. unfold fdiv, f2, qsome.
  assert (Z0 : Qeq_bool (qtick b) 0 = false).
  { change 0%Q with (qtick 0). rewrite Qeq_bool_qtick. apply Z.eqb_neq. lia. }
  rewrite Z0. eexists. split; [reflexivity|].
  destruct b as [|p|p]; try lia.
  assert (E : (Qred (qtick x / qtick (Zpos p)) == x # p)%Q).
  { rewrite Qred_correct, !qtick_eq. unfold Qeq, Qdiv, Qmult, Qinv. simpl. lia. }
  rewrite E. rewrite Qceiling_frac. reflexivity.
Qed.

(* doubled centres: [qhalf c] is the float (c / 2) * 1e-9, a tick or a half tick *)
Definition qhalf (c : Z) : Q := Qred (c # 2000000000).
Lemma qhalf_eq : forall c, (qhalf c == c # 2000000000)%Q.
Proof. intros. unfold qhalf. apply Qred_correct. Qed.
Lemma qhalf_even : forall x, qhalf (2 * x) = qtick x.
Proof. intros. unfold qhalf, qtick. apply Qred_complete. unfold Qeq. simpl. lia. Qed.

(* bin_size / 2 *)
Lemma fdiv2_half : forall b, fdiv (Some (qtick b)) (Some (qz 2)) = Some (qhalf b).
Proof.
  intros b. unfold fdiv, f2, qsome. change (Qeq_bool (qz 2) 0) with false. cbv iota. f_equal. unfold qhalf. apply Qred_complete.
  rewrite qtick_eq. unfold Qeq, Qdiv, Qmult, Qinv, qz, inject_Z. simpl. lia.
Qed.
(* lbound + bin_size / 2 *)
Lemma fadd_q_half : forall a c, fadd (Some (qtick a)) (Some (qhalf c)) = Some (qhalf (2 * a + c)).
Proof.
  intros a c. unfold fadd, f2, qsome. f_equal. unfold qhalf at 2. apply Qred_complete.
  rewrite qtick_eq, qhalf_eq. unfold Qeq, Qplus. simpl. lia.
Qed.
(* 2 * lbound, 2 * ends[k] *)
Lemma fmul2_q : forall a, fmul (Some (qz 2)) (Some (qtick a)) = Some (qtick (2 * a)).
Proof.
  intros a. unfold fmul, f2, qsome. f_equal. unfold qtick at 2. apply Qred_complete.
  rewrite qtick_eq. unfold Qeq, Qmult, qz, inject_Z. simpl. lia.
Qed.

(* np.round(., 9) of a doubled centre: the tick itself, or for a half tick its even neighbour *)
Definition centre_tick (c : Z) : Z :=
  if Z.even c then c / 2 else if Z.even (c / 2) then c / 2 else c / 2 + 1.
Lemma centre_tick_even : forall x, centre_tick (2 * x) = x.
Proof.
  intros x. unfold centre_tick. rewrite Z.even_mul. simpl. rewrite Z.mul_comm, Z.div_mul by lia. reflexivity.
Qed.
Lemma centre_tick_near : forall c, Z.abs (2 * centre_tick c - c) <= 1.
Proof.
  intros c. unfold centre_tick. pose proof (Z.div_mod c 2 ltac:(lia)). pose proof (Zmod_even c) as M.
  destruct (Z.even c); [|destruct (Z.even (c / 2))]; lia.
Qed.

Lemma q_rhe_comp : forall p q, (p == q)%Q -> q_rhe p = q_rhe q.
Proof.
  intros p q H. unfold q_rhe. rewrite (Qfloor_comp _ _ H).
  assert (C : Qcompare (p - qz (Qfloor q)) (1 # 2) = Qcompare (q - qz (Qfloor q)) (1 # 2)) by (rewrite H; reflexivity).
  rewrite C. reflexivity.
Qed.
Lemma q_rhe_half : forall c, q_rhe (c # 2) = centre_tick c.
Proof.
  intros c. unfold q_rhe, centre_tick.
  assert (F : Qfloor (c # 2) = c / 2) by reflexivity. rewrite F.
  pose proof (Z.div_mod c 2 ltac:(lia)) as D. pose proof (Zmod_even c) as M.
  destruct (Z.even c) eqn:E.
  - assert (C : Qcompare ((c # 2) - qz (c / 2))%Q (1 # 2)%Q = Datatypes.Lt).
    { apply -> Qlt_alt. unfold Qlt, Qminus, Qplus, Qopp, qz, inject_Z. simpl. lia. }
    rewrite C. reflexivity.
  - assert (C : Qcompare ((c # 2) - qz (c / 2))%Q (1 # 2)%Q = Datatypes.Eq).
    { apply -> Qeq_alt. unfold Qeq, Qminus, Qplus, Qopp, qz, inject_Z. simpl. lia. }
    rewrite C. reflexivity.
Qed.
Lemma round9_half : forall c, round9 (qhalf c) = qtick (centre_tick c).
Proof.
  intros c. unfold round9.
  assert (E : (qhalf c * (Z.pos e9 # 1) == c # 2)%Q).
  { rewrite qhalf_eq. unfold Qeq, Qmult, e9. simpl. lia. }
  rewrite (q_rhe_comp _ _ E), q_rhe_half. reflexivity.
Qed.

(* the tick of a float on the lattice *)
Definition tick_of (v : sval) : Z :=
  match v with VFlt (Some q) => Qfloor (q * (1000000000 # 1))%Q | _ => 0 end.
Lemma tick_of_q : forall a, tick_of (VFlt (Some (qtick a))) = a.
Proof.
  intros a. unfold tick_of.
  assert (E : (qtick a * (1000000000 # 1) == inject_Z a)%Q).
  { rewrite qtick_eq. unfold Qeq, Qmult, inject_Z. simpl. lia. }
  rewrite E. apply Qfloor_Z.
Qed.

#[local] Hint Rewrite zlen_qcells zlen_tcells zlen_firsts zlen_seconds : zlen.

(* ---------- the callee, on the tick lattice ---------- *)
(* Inv/Jitrestrict_with_count_func.v proves the functional theorem of jitrestrict_with_count for times
   embedded as [inject_Z t]; jitcount does arithmetic in seconds, so its arrays hold [qtick t]: the same
   invariants and transition lemmas give the theorem for that embedding (comparisons only). *)
Definition qrestrict_args (ts : list Z) (ep : iset) : list value :=
  [Ar (A1 DFlt (qcells ts)); Ar (A1 DFlt (qcells (firsts ep))); Ar (A1 DFlt (qcells (seconds ep)))].

Theorem k_jitrestrict_with_count_computes_model_q : forall ts ep fuel,
  Forall (fun I => fst I <= snd I) ep ->
  match run fuel k_jitrestrict_with_count (qrestrict_args ts ep) with
  | Return rs => rs = [index_array (restrict_idx ts ep); index_array (restrict_cnt ts ep)]
  | OutOfFuel => True
  | _ => False
  end.
Proof.
  intros ts ep fuel Hep.
  pose proof (run_sound all_kernels (ann_rwc ts ep) k_jitrestrict_with_count
                (fun rs => rs = [index_array (restrict_idx ts ep); index_array (restrict_cnt ts ep)])
                (qrestrict_args ts ep) fuel) as RS.
  unfold run.
  match type of RS with ?P -> _ => assert (W : P) end.
  2: { specialize (RS W). unfold Interp.run in *.
       destruct (exec all_kernels fuel (fbody k_jitrestrict_with_count)
                   (init_store k_jitrestrict_with_count (qrestrict_args ts ep)));
         simpl in *; auto. }
  clear RS. unfold qrestrict_args, index_array.
  wp_compute k_jitrestrict_with_count ann_rwc.
  vc k_jitrestrict_with_count ann_rwc.
  all: try solve [arith].
  all: repeat match goal with
         | Hc : context [to_flt (nthZ (qcells ?l) ?k)] |- _ =>
             rewrite (nth_qcells l k) in Hc by (autorewrite with zlen; lia)
         end.
  all: repeat match goal with
         | Hc : context [cmp_flt Lt (Some (qtick _)) (Some (qtick _))] |- _ => rewrite cmp_lt_q in Hc
         | Hc : context [cmp_flt Gt (Some (qtick _)) (Some (qtick _))] |- _ => rewrite cmp_gt_q in Hc
         | Hc : context [cmp_flt Ge (Some (qtick _)) (Some (qtick _))] |- _ => rewrite cmp_ge_q in Hc
         end.
  all: repeat match goal with
         | Hc : (_ <? _)%Z = _ |- _ => b2p Hc
         | Hc : (_ <=? _)%Z = _ |- _ => b2p Hc
         end.
  all: autorewrite with zlen in *.
  all: repeat match goal with Hc : ?a = ?b |- _ => is_var a; is_var b; subst a end.
  all: try match goal with
         | |- Inv0 _ _ (_ + 1) => apply T_inv0_step; try assumption; unfold Jitrestrict_func.ek; lia
         | |- Inv1 _ _ _ 0 0 (zeros _ _ _) => apply T_inv1_init; assumption
         | |- Inv4 _ _ ?k ?t ?x ?d ?t ?x ?d => eapply T_inv4_init; eassumption
         | |- Inv2 _ _ _ _ (_ + 1) => apply T_inv2_step; [assumption | lia | unfold Jitrestrict_func.sk; lia]
         | |- Inv4 _ _ _ _ _ _ (_ + 1) (_ + 1) (updZ _ _ _) =>
             apply T_inv4_step; [assumption | lia | unfold Jitrestrict_func.ek; lia | lia]
         end.
  all: try apply zlen_nonneg.
  all: try match goal with
         | |- CInv1 _ _ 0 0 (zeros _ _ _) => apply T_cinv1_init; reflexivity
         | |- CInv1 _ _ (_ + 1) 0 _ => apply T_cinv0_step; [assumption | assumption | lia | lia | unfold Jitrestrict_func.ek; lia]
         | H : CInv1 _ _ ?k ?t ?c |- CInv1 _ _ ?k ?t ?c => exact H
         | I1 : CInv1 _ _ ?k ?t0 ?c |- CInv4 _ _ ?k ?t ?x ?c ?t ?x ?c =>
             apply (T_cinv4_init ts ep k t0 c t x I1); lia
         | |- CInv4 _ _ _ _ _ _ (_ + 1) (_ + 1) (updZ _ _ _) =>
             apply T_cinv4_step; [assumption | lia | unfold Jitrestrict_func.ek; lia | lia]
         end.
  all: try match goal with
         | I1 : Inv1 _ _ ?k ?t0 ?x0 ?d0, I2 : Inv2 _ _ ?k ?t0 ?t1, I4 : Inv4 _ _ ?k ?t1 ?x0 ?d0 ?t ?x ?d
           |- Inv1 _ _ (?k + 1) ?t ?x ?d =>
             apply (T_inv1_next ts ep Hep k t0 x0 d0 t1 t x d I1);
             [ lia | lia | lia | lia | exact I2
             | unfold Jitrestrict_func.sk; first [left; lia | right; split; lia]
             | exact I4
             | unfold Jitrestrict_func.ek; first [left; lia | right; split; lia] ]
         | C1 : CInv1 _ _ ?k ?t0 ?c0, I2 : Inv2 _ _ ?k ?t0 ?t1, I4 : Inv4 _ _ ?k ?t1 ?x0 _ ?t ?x _,
           C4 : CInv4 _ _ ?k ?t1 ?x0 ?c0 ?t ?x ?c
           |- CInv1 _ _ (?k + 1) ?t ?c =>
             apply (T_cinv1_next ts ep Hep k t0 c0 t1 x0 t x c C1);
             [ lia | lia | lia | lia | exact I2
             | unfold Jitrestrict_func.sk; first [left; lia | right; split; lia]
             | exact C4
             | exact (proj2 (proj2 I4))
             | unfold Jitrestrict_func.ek; first [left; lia | right; split; lia] ]
         end.
  all: try apply T_result.
  all: try match goal with
         | I1 : Inv1 _ _ ?k ?t ?x ?d |- pyslice ?d 0 ?x = _ =>
             apply (Jitrestrict_func.T_final ts ep k t x d I1); [first [left; lia | right; lia] | lia]
         | C1 : CInv1 _ _ ?k ?t ?c |- ?c = index_cells _ =>
             apply (T_cfinal ts ep k t c C1); [lia | first [left; lia | right; lia]]
         | I1 : Inv1 _ _ ?k ?t0 ?x0 ?d0, I2 : Inv2 _ _ ?k ?t0 ?t1, I4 : Inv4 _ _ ?k ?t1 ?x0 ?d0 ?t ?x ?d
           |- pyslice ?d 0 ?x = _ =>
             apply (Jitrestrict_func.T_final ts ep (k + 1) t x d);
             [ apply (T_inv1_next ts ep Hep k t0 x0 d0 t1 t x d I1);
               [ lia | lia | lia | lia | exact I2
               | unfold Jitrestrict_func.sk; first [left; lia | right; split; lia]
               | exact I4
               | unfold Jitrestrict_func.ek; first [left; lia | right; split; lia] ]
             | first [left; lia | right; lia] | lia ]
         | C1 : CInv1 _ _ ?k ?t0 ?c0, I2 : Inv2 _ _ ?k ?t0 ?t1, I4 : Inv4 _ _ ?k ?t1 ?x0 _ ?t ?x _,
           C4 : CInv4 _ _ ?k ?t1 ?x0 ?c0 ?t ?x ?c
           |- ?c = index_cells _ =>
             apply (T_cfinal ts ep (k + 1) t c);
             [ apply (T_cinv1_next ts ep Hep k t0 c0 t1 x0 t x c C1);
               [ lia | lia | lia | lia | exact I2
               | unfold Jitrestrict_func.sk; first [left; lia | right; split; lia]
               | exact C4
               | exact (proj2 (proj2 I4))
               | unfold Jitrestrict_func.ek; first [left; lia | right; split; lia] ]
             | lia | first [left; lia | right; lia] ]
         end.
Qed.

(* ---------- generic list facts ---------- *)
Lemma scan_length : forall ep i ts, length (restrict_scan ep i ts) = length ep.
Proof.
  induction ep as [|[s e] r IH]; intros i ts; simpl; [reflexivity|].
  destruct (drop_lt s i ts) as [i1 l1]. destruct (take_le e i1 l1) as [ix [i2 l2]]. simpl. f_equal. apply IH.
Qed.

Lemma split_nth : forall {A} (l : list A) n d, (n < length l)%nat ->
  l = (firstn n l ++ nth n l d :: skipn (S n) l)%list.
Proof.
  induction l as [|x r IH]; intros n d H; simpl in H; [lia|].
  destruct n; [reflexivity|]. simpl. f_equal. apply IH. lia.
Qed.

Lemma seg_mid : forall {A} (a m c : list A),
  firstn (length m) (skipn (length a) (a ++ m ++ c)) = m.
Proof.
  intros. rewrite skipn_app, skipn_all, Nat.sub_diag. simpl.
  rewrite firstn_app, firstn_all, Nat.sub_diag. simpl. apply app_nil_r.
Qed.

Lemma nth_index_cells : forall l k, 0 <= k < zlen l ->
  nthZ (index_cells l) k = VInt (Z.of_nat (nth (Z.to_nat k) l 0%nat)).
Proof.
  intros l k H. unfold nthZ, index_cells.
  rewrite (nth_indep _ dflt (VInt (Z.of_nat 0))) by (rewrite map_length; unfold zlen in H; lia).
  rewrite (map_nth (fun i => VInt (Z.of_nat i))). reflexivity.
Qed.

Lemma sum_index_cells : forall l, sum_int (index_cells l) = Z.of_nat (fold_right Nat.add 0%nat l).
Proof.
  induction l as [|x r IH]; [reflexivity|]. unfold index_cells in *. simpl map. rewrite sum_int_cons, IH.
  simpl. lia.
Qed.

Lemma idx_ok_cells : forall n l, idx_ok n (index_cells l) = true -> Forall (fun i => Z.of_nat i < n) l.
Proof.
  intros n l H. unfold idx_ok, index_cells in H. rewrite forallb_forall in H. apply Forall_forall.
  intros i Hi. specialize (H (VInt (Z.of_nat i))). 
  assert (In (VInt (Z.of_nat i)) (map (fun i0 : nat => VInt (Z.of_nat i0)) l)) as Hin by (apply (in_map (fun i0 : nat => VInt (Z.of_nat i0))); exact Hi).
  specialize (H Hin). cbn [to_int] in H. apply andb_prop in H. destruct H as [_ H]. apply Z.ltb_lt in H. exact H.
Qed.

Lemma gather_q : forall ts ix, idx_ok (zlen ts) (index_cells ix) = true ->
  gather (qcells ts) (index_cells ix) = qcells (select 0 ts ix).
Proof.
  intros ts ix H. apply idx_ok_cells in H. unfold gather, index_cells, qcells, select. rewrite !map_map.
  apply map_ext_in. intros i Hi. cbn [to_int]. eapply Forall_forall in H; [|exact Hi].
  unfold nthZ. rewrite Nat2Z.id. rewrite (nth_indep _ dflt (qcell 0)) by (rewrite map_length; unfold zlen in H; lia).
  apply (map_nth qcell).
Qed.

Lemma nb_cell : forall x b, 0 < b ->
  to_int (eval_unop ToInt (eval_unop Ceil (VFlt (fdiv (Some (qtick x)) (Some (qtick b)))))) = cdiv x b.
Proof.
  intros x b Hb. destruct (ceil_div_q x b Hb) as (q & E & C). rewrite E.
  cbn [eval_unop to_int]. rewrite qtrunc_qz. exact C.
Qed.

(* ---------- the model, indexed by positions ---------- *)
Definition ccell (p : Z * nat) : sval := VFlt (Some (qtick (centre_tick (fst p)))).
Definition ncell (p : Z * nat) : sval := VInt (Z.of_nat (snd p)).
Definition cf (p : Z * list Z) : Z * nat := let '(c, l) := p in (c, length l).

Section Model.
Variable ts : list Z.
Variable ep : iset.
Variable B : Z.
Hypothesis HB : 0 < B.

Notation sk := (Jitrestrict_func.sk ep).
Notation ek := (Jitrestrict_func.ek ep).

Definition SC : list (list nat) := restrict_scan ep 0%nat ts.
Definition Ss : list (list Z) := samples_per_interval ts ep.
Definition Gz : list Z := concat Ss.
Definition smp (k : Z) : list Z := nth (Z.to_nat k) Ss [].
Definition off (k : Z) : Z := Z.of_nat (length (concat (firstn (Z.to_nat k) Ss))).
Definition seg (a b : Z) : list Z := firstn (Z.to_nat (b - a)) (skipn (Z.to_nat a) Gz).
Definition nbz (k : Z) : Z := Z.of_nat (nb_bins (sk k) (ek k) B).
Definition per_interval (x : (Z * Z) * list Z) : list (Z * nat) :=
  let '((s, e), l) := x in map cf (bins_go (nb_bins s e B) s e B l).
Definition out (k : Z) : list (Z * nat) :=
  concat (map per_interval (firstn (Z.to_nat k) (combine ep Ss))).

Lemma Ss_length : length Ss = length ep.
Proof. unfold Ss, samples_per_interval. rewrite map_length. apply scan_length. Qed.

Lemma Gz_select : Gz = select 0 ts (restrict_idx ts ep).
Proof. unfold Gz, Ss, samples_per_interval, restrict_idx, select. rewrite concat_map. reflexivity. Qed.

Lemma smp_length : forall k, zlen (smp k) = Z.of_nat (nth (Z.to_nat k) (restrict_cnt ts ep) 0%nat).
Proof.
  intros k. unfold smp, Ss, samples_per_interval, restrict_cnt, zlen. f_equal.
  change (@nil Z) with (select 0 ts []). rewrite map_nth.
  change 0%nat with (length (@nil nat)). rewrite map_nth. unfold select. apply map_length.
Qed.

Lemma off_0 : off 0 = 0.
Proof. reflexivity. Qed.

Lemma off_succ : forall k, 0 <= k < zlen ep -> off (k + 1) = off k + zlen (smp k).
Proof.
  intros k H. unfold off, smp, zlen. replace (Z.to_nat (k + 1)) with (S (Z.to_nat k)) by lia.
  rewrite (firstn_snoc _ _ []) by (rewrite Ss_length; unfold zlen in H; lia).
  rewrite concat_app, app_length. simpl. rewrite app_nil_r. lia.
Qed.

Lemma off_nonneg : forall k, 0 <= off k.
Proof. intros; unfold off; lia. Qed.

Lemma off_all : forall k, zlen ep <= k -> off k = zlen Gz.
Proof.
  intros k H. unfold off, Gz, zlen. rewrite firstn_all2 by (rewrite Ss_length; unfold zlen in H; lia). reflexivity.
Qed.

Lemma off_mono : forall k, 0 <= k < zlen ep -> off (k + 1) <= zlen Gz.
Proof.
  intros k H. unfold off, Gz, zlen.
  rewrite <- (firstn_skipn (Z.to_nat (k + 1)) Ss) at 2. rewrite concat_app, app_length. lia.
Qed.

Lemma seg_smp : forall k, 0 <= k < zlen ep -> seg (off k) (off k + zlen (smp k)) = smp k.
Proof.
  intros k H. unfold seg, off, Gz, smp, zlen.
  replace (Z.to_nat (Z.of_nat (length (concat (firstn (Z.to_nat k) Ss))) + Z.of_nat (length (nth (Z.to_nat k) Ss []))
                     - Z.of_nat (length (concat (firstn (Z.to_nat k) Ss)))))
    with (length (nth (Z.to_nat k) Ss [])) by lia.
  rewrite Nat2Z.id.
  rewrite (split_nth Ss (Z.to_nat k) []) at 3 by (rewrite Ss_length; unfold zlen in H; lia).
  rewrite concat_app. simpl concat. apply seg_mid.
Qed.

Lemma seg_nil : forall a, seg a a = [].
Proof. intros. unfold seg. rewrite Z.sub_diag. reflexivity. Qed.

Lemma seg_cons : forall t m, 0 <= t < m -> t < zlen Gz -> seg t m = tk Gz t :: seg (t + 1) m.
Proof.
  intros t m H HG. unfold seg.
  rewrite (skipn_cons_nth Gz (Z.to_nat t)) by (unfold zlen in HG; lia).
  replace (Z.to_nat (m - t)) with (S (Z.to_nat (m - (t + 1)))) by lia.
  replace (Z.to_nat (t + 1)) with (S (Z.to_nat t)) by lia. reflexivity.
Qed.

Lemma out_0 : out 0 = [].
Proof. reflexivity. Qed.

Lemma nth_ep : forall k, 0 <= k < zlen ep -> nth (Z.to_nat k) ep (0, 0) = (sk k, ek k).
Proof.
  intros k H. unfold Jitrestrict_func.sk, Jitrestrict_func.ek, tk, firsts, seconds.
  rewrite (map_nth fst ep (0, 0) (Z.to_nat k) : nth _ (map fst ep) 0 = _).
  rewrite (map_nth snd ep (0, 0) (Z.to_nat k) : nth _ (map snd ep) 0 = _).
  destruct (nth (Z.to_nat k) ep (0, 0)); reflexivity.
Qed.

Lemma out_succ : forall k, 0 <= k < zlen ep ->
  out (k + 1) = (out k ++ map cf (bins_go (Z.to_nat (nbz k)) (sk k) (ek k) B (smp k)))%list.
Proof.
  intros k H. unfold out. replace (Z.to_nat (k + 1)) with (S (Z.to_nat k)) by lia.
  rewrite (firstn_snoc _ _ ((0, 0), [])) by (rewrite combine_length, Ss_length; unfold zlen in H; lia).
  rewrite map_app, concat_app. simpl. rewrite app_nil_r. f_equal.
  rewrite combine_nth by (symmetry; apply Ss_length). rewrite nth_ep by assumption.
  unfold per_interval, nbz, smp. rewrite Nat2Z.id. reflexivity.
Qed.

Lemma out_all : forall k, zlen ep <= k -> out k = count_binned ts ep B.
Proof.
  intros k H. unfold out, count_binned.
  rewrite firstn_all2 by (rewrite combine_length, Ss_length; unfold zlen in H; lia).
  reflexivity.
Qed.

(* number of bins *)
Lemma cdiv_pos : forall x, 0 < x -> 0 < cdiv x B.
Proof.
  intros x H. unfold cdiv. apply Z.div_str_pos. lia.
Qed.
Lemma nbz_gt : forall k, B < ek k - sk k -> nbz k = cdiv (ek k + B - sk k) B.
Proof.
  intros k H. unfold nbz, nb_bins.
  assert (E : (B <? ek k - sk k) = true) by (apply Z.ltb_lt; lia). rewrite E.
  pose proof (cdiv_pos (ek k + B - sk k) ltac:(lia)). lia.
Qed.
Lemma nbz_le : forall k, ek k - sk k <= B -> nbz k = 1.
Proof.
  intros k H. unfold nbz, nb_bins.
  assert (E : (B <? ek k - sk k) = false) by (apply Z.ltb_ge; lia). rewrite E. reflexivity.
Qed.

(* the callee's count array *)
Lemma nth_countin : forall k, 0 <= k < zlen ep ->
  to_int (nthZ (index_cells (restrict_cnt ts ep)) k) = zlen (smp k).
Proof.
  intros k H. rewrite nth_index_cells.
  - cbn [to_int]. symmetry. apply smp_length.
  - unfold restrict_cnt, zlen. rewrite map_length, scan_length. exact H.
Qed.

Lemma zlen_countin : zlen (index_cells (restrict_cnt ts ep)) = zlen ep.
Proof. unfold index_cells, restrict_cnt, zlen. rewrite !map_length, scan_length. reflexivity. Qed.

Lemma psum_countin : forall k, 0 <= k <= zlen ep -> psum (index_cells (restrict_cnt ts ep)) k = off k.
Proof.
  intros k H. rewrite <- (Z2Nat.id k) in * by lia. destruct H as [_ H].
  induction (Z.to_nat k) as [|n IH].
  - rewrite psum_0. reflexivity.
  - replace (Z.of_nat (S n)) with (Z.of_nat n + 1) in * by lia.
    rewrite psum_succ by (rewrite zlen_countin; lia).
    rewrite nth_countin by lia. rewrite off_succ by lia. rewrite IH by lia. reflexivity.
Qed.

(* ---------- representation of the output buffers and loop invariants ---------- *)
Definition Rep (bins cnt : list sval) (bi : Z) (L : list (Z * nat)) : Prop :=
  zlen L = bi /\ firstn (Z.to_nat bi) bins = map ccell L /\ firstn (Z.to_nat bi) cnt = map ncell L
  /\ ztail bi cnt.

(* loop 1: nb_bins[j] is the model's nb_bins of interval j *)
Definition Inv1 (k : Z) (nbA : list sval) : Prop :=
  forall j, 0 <= j < k -> nthZ nbA j = VInt (nbz j).
(* loop 3 (intervals): the first b cells of bins/cnt hold the model's output for the first k intervals *)
Definition Inv3 (k bi : Z) (bins cnt : list sval) : Prop := Rep bins cnt bi (out k).
(* loop 4 (bins of interval k, entered with b = b0): lbound is the tick [lbz]; what the buffers hold, followed by
   what the model still produces from the current left edge, fuel and remaining samples, is the output for the
   first k+1 intervals *)
Definition lbz (k b0 bi : Z) : Z := sk k + (bi - b0) * B.
Definition Inv4 (k b0 maxb maxt bi t : Z) (bins cnt : list sval) : Prop :=
  exists L, Rep bins cnt bi L
       /\ (L ++ map cf (bins_go (Z.to_nat (maxb - bi)) (lbz k b0 bi) (ek k) B (seg t maxt)))%list
          = out (k + 1).
(* loop 6 (samples of the bin, entered with t = t0 and cnt[b] = 0): cnt[b] = t - t0, and splitting the remaining
   samples at the right edge rb gives t - t0 fewer inside samples and the same rest as splitting from t0 *)
Definition Inv6 (rb bi t0 maxt : Z) (cnt0 : list sval) (t : Z) (cnt : list sval) : Prop :=
  cnt = updZ cnt0 bi (VInt (t - t0))
  /\ Z.of_nat (length (fst (span_lt rb (seg t maxt)))) + (t - t0)
     = Z.of_nat (length (fst (span_lt rb (seg t0 maxt))))
  /\ snd (span_lt rb (seg t maxt)) = snd (span_lt rb (seg t0 maxt)).

Lemma zlen_Gz : zlen Gz = zlen (index_cells (restrict_idx ts ep)).
Proof. rewrite Gz_select. unfold select, index_cells. rewrite !zlen_map. reflexivity. Qed.
Lemma gather_Gz : forall d0, d0 = index_cells (restrict_idx ts ep) -> idx_ok (zlen ts) d0 = true ->
  gather (qcells ts) d0 = qcells Gz.
Proof. intros d0 -> H. rewrite gather_q by exact H. rewrite Gz_select. reflexivity. Qed.
Lemma Inv1_nth : forall n d k, Inv1 n d -> 0 <= k < n -> to_int (nthZ d k) = nbz k.
Proof. intros n d k H Hk. rewrite (H k Hk). reflexivity. Qed.

(* loop 1 *)
Lemma T1_init : forall d, Inv1 0 d.
Proof. intros d j Hj. lia. Qed.
Lemma T1_step : forall k d v, Inv1 k d -> 0 <= k < zlen d -> v = nbz k -> Inv1 (k + 1) (updZ d k (VInt v)).
Proof.
  intros k d v H Hk -> j Hj. unfold nthZ, updZ. destruct (Z.eq_dec j k) as [->|Hne].
  - apply nth_upd_nth_same. unfold zlen in Hk. lia.
  - rewrite nth_upd_nth_other by lia. apply H. lia.
Qed.

(* loop 3 *)
Lemma T3_init : forall n v, Inv3 0 0 (zeros DFlt n v) (zeros DInt n (VInt 0)).
Proof.
  intros n v. unfold Inv3, Rep. rewrite out_0. repeat split.
  intros j _. unfold zeros. simpl coerce. destruct (Nat.lt_ge_cases j (Z.to_nat n)).
  - apply nth_repeat.
  - apply nth_overflow. rewrite repeat_length. lia.
Qed.

Lemma T4_init : forall k b0 t0 bins cnt nb c,
  Inv3 k b0 bins cnt -> 0 <= k < zlen ep -> nb = nbz k -> t0 = off k -> c = zlen (smp k) ->
  Inv4 k b0 (b0 + nb) (t0 + c) b0 t0 bins cnt.
Proof.
  intros k b0 t0 bins cnt nb c H Hk -> -> ->. exists (out k). split; [exact H|].
  rewrite out_succ by assumption. f_equal. f_equal.
  unfold lbz. replace (b0 + nbz k - b0) with (nbz k) by lia. replace (sk k + (b0 - b0) * B) with (sk k) by lia.
  rewrite seg_smp by assumption. reflexivity.
Qed.

(* the bin loop stops: on the break (doubled centre beyond the doubled end) or with no bin left *)
Lemma T3_break : forall k b0 maxb maxt bi t bins cnt,
  Inv4 k b0 maxb maxt bi t bins cnt -> 2 * ek k < 2 * lbz k b0 bi + B -> Inv3 (k + 1) bi bins cnt.
Proof.
  intros k b0 maxb maxt bi t bins cnt (L & R & E) Hlt. unfold Inv3. rewrite <- E.
  destruct (Z.to_nat (maxb - bi)) as [|f]; simpl.
  - rewrite app_nil_r. exact R.
  - assert (X : (2 * ek k <? 2 * lbz k b0 bi + B) = true) by (apply Z.ltb_lt; lia). rewrite X.
    simpl. rewrite app_nil_r. exact R.
Qed.
Lemma T3_done : forall k b0 maxb maxt bi t bins cnt,
  Inv4 k b0 maxb maxt bi t bins cnt -> maxb <= bi -> Inv3 (k + 1) bi bins cnt.
Proof.
  intros k b0 maxb maxt bi t bins cnt (L & R & E) Hle. unfold Inv3. rewrite <- E.
  replace (Z.to_nat (maxb - bi)) with 0%nat by lia. simpl. rewrite app_nil_r. exact R.
Qed.

(* loop 6 *)
Lemma T6_init : forall k b0 maxb maxt bi t bins cnt rb,
  Inv4 k b0 maxb maxt bi t bins cnt -> 0 <= bi < zlen cnt -> Inv6 rb bi t maxt cnt t cnt.
Proof.
  intros k b0 maxb maxt bi t bins cnt rb (L & (R1 & R2 & R3 & R4) & E) Hb. unfold Inv6. rewrite Z.sub_diag.
  repeat split; try lia.
  unfold updZ. rewrite <- (R4 (Z.to_nat bi)) by lia. symmetry. apply upd_nth_same.
Qed.

Lemma T6_step : forall rb bi t0 maxt cnt0 t cnt,
  Inv6 rb bi t0 maxt cnt0 t cnt -> t0 <= t < maxt -> 0 <= t < zlen Gz -> tk Gz t < rb -> 0 <= bi < zlen cnt0 ->
  Inv6 rb bi t0 maxt cnt0 (t + 1) (updZ cnt bi (VInt (to_int (nthZ cnt bi) + 1))).
Proof.
  intros rb bi t0 maxt cnt0 t cnt (-> & E1 & E2) Ht HG Hlt Hb.
  rewrite (seg_cons t maxt) in E1, E2 by lia. cbn [span_lt] in E1, E2.
  assert (X : (tk Gz t <? rb) = true) by (apply Z.ltb_lt; lia). rewrite X in E1, E2.
  unfold Inv6.
  destruct (span_lt rb (seg (t + 1) maxt)) as [a c] eqn:ES. cbn [fst snd length] in *.
  repeat split.
  - unfold updZ, nthZ. rewrite nth_upd_nth_same by (unfold zlen in Hb; lia). rewrite upd_nth_twice.
    cbn [to_int]. f_equal. f_equal. lia.
  - lia.
  - exact E2.
Qed.

(* one bin is closed *)
Lemma T4_step : forall k b0 maxb maxt bi t0 bins cnt0 t cnt,
  Inv4 k b0 maxb maxt bi t0 bins cnt0 -> b0 <= bi < maxb -> 2 * lbz k b0 bi + B <= 2 * ek k ->
  Inv6 (lbz k b0 bi + B) bi t0 maxt cnt0 t cnt -> t0 <= t <= maxt -> 0 <= t0 ->
  (t = maxt \/ (t < zlen Gz /\ lbz k b0 bi + B <= tk Gz t)) ->
  0 <= bi < zlen bins -> zlen cnt0 = zlen bins ->
  Inv4 k b0 maxb maxt (bi + 1) t (updZ bins bi (VFlt (Some (qtick (centre_tick (2 * lbz k b0 bi + B)))))) cnt.
Proof.
  intros k b0 maxb maxt bi t0 bins cnt0 t cnt (L & (R1 & R2 & R3 & R4) & E) Hb Hc (-> & E1 & E2) Ht H0 X Hbb Hz.
  assert (SP : span_lt (lbz k b0 bi + B) (seg t maxt) = ([], seg t maxt)).
  { destruct X as [->|[X1 X2]]; [rewrite seg_nil; reflexivity|].
    destruct (Z.eq_dec t maxt) as [->|Hne]; [rewrite seg_nil; reflexivity|].
    rewrite (seg_cons t maxt) by lia. simpl.
    assert (Y : (tk Gz t <? lbz k b0 bi + B) = false) by (apply Z.ltb_ge; lia). rewrite Y. reflexivity. }
  rewrite SP in E1, E2. simpl in E1, E2.
  replace (Z.to_nat (maxb - bi)) with (S (Z.to_nat (maxb - (bi + 1)))) in E by lia. simpl in E.
  assert (Y : (2 * ek k <? 2 * lbz k b0 bi + B) = false) by (apply Z.ltb_ge; lia). rewrite Y in E.
  destruct (span_lt (lbz k b0 bi + B) (seg t0 maxt)) as [a c] eqn:ES. simpl in E, E1, E2. subst c.
  exists (L ++ [(2 * lbz k b0 bi + B, length a)])%list. split.
  - unfold Rep. repeat split.
    + unfold zlen in *. rewrite app_length. simpl. lia.
    + rewrite firstn_updZ_snoc by lia. rewrite R2, map_app. reflexivity.
    + rewrite firstn_updZ_snoc by lia. rewrite R3, map_app. simpl. f_equal. unfold ncell. simpl.
      f_equal. f_equal. lia.
    + intros j Hj. unfold updZ. rewrite nth_upd_nth_other by lia. apply R4. lia.
  - rewrite <- E. rewrite <- app_assoc. simpl. f_equal. f_equal. f_equal.
    unfold lbz. f_equal. lia.
Qed.

Lemma T_final : forall k bi bins cnt, Inv3 k bi bins cnt -> zlen ep <= k -> 0 <= bi <= zlen bins -> bi <= zlen cnt ->
  [Ar (A1 DFlt (pyslice bins 0 bi)); Ar (A1 DInt (pyslice cnt 0 bi))]
  = [Ar (A1 DFlt (map ccell (count_binned ts ep B))); Ar (A1 DInt (map ncell (count_binned ts ep B)))].
Proof.
  intros k bi bins cnt (R1 & R2 & R3 & R4) Hk Hb Hc. rewrite !pyslice_0 by lia.
  rewrite R2, R3. rewrite out_all by assumption. reflexivity.
Qed.

End Model.

Local Open Scope string_scope.

Definition pre_q (ts : list Z) (ep : iset) (args : list value) : Prop := args = qrestrict_args ts ep.
Definition post_q (ts : list Z) (ep : iset) (args rs : list value) : Prop :=
  match rs with
  | [Ar (A1 _ ix); Ar (A1 _ cn)] =>
      ix = index_cells (restrict_idx ts ep) /\ cn = index_cells (restrict_cnt ts ep)
      /\ idx_ok (zlen ts) ix = true /\ zlen cn = zlen ep /\ cnt_inv cn (zlen ix)
  | _ => False
  end.

Definition ann_func (ts : list Z) (ep : iset) (B : Z) (l : nat) : annot :=
  match l with
  | 0%nat => ACall (pre_q ts ep) [RA1 DInt; RA1 DInt] (post_q ts ep)
  | 1%nat => ALoop [("k", KInt); ("nb_bins", KArr)]
                   (fun st0 st => nonneg_ints (getD st "nb_bins") /\ Inv1 ep B (getZ st "k") (getD st "nb_bins"))
  | 3%nat => ALoop [("k", KInt); ("t", KInt); ("b", KInt); ("maxb", KAny); ("maxt", KAny);
                    ("lbound", KAny); ("xpos", KAny); ("rbound", KAny); ("bins", KArr); ("cnt", KArr)]
                   (fun st0 st => 0 <= getZ st "k" <= getZ st0 "m"
                                  /\ getZ st "t" = psum (getD st0 "countin") (getZ st "k")
                                  /\ 0 <= getZ st "b" <= psum (getD st0 "nb_bins") (getZ st "k")
                                  /\ Inv3 ts ep B (getZ st "k") (getZ st "b") (getD st "bins") (getD st "cnt"))
  | 4%nat => ALoop [("b", KInt); ("t", KInt); ("lbound", KFlt); ("xpos", KAny); ("rbound", KAny);
                    ("bins", KArr); ("cnt", KArr)]
                   (fun st0 st => getZ st0 "b" <= getZ st "b" <= getZ st0 "maxb"
                                  /\ getZ st0 "t" <= getZ st "t" <= getZ st0 "maxt"
                                  /\ to_flt (getsc st "lbound")
                                     = Some (qtick (lbz ep B (getZ st0 "k") (getZ st0 "b") (getZ st "b")))
                                  /\ Inv4 ts ep B (getZ st0 "k") (getZ st0 "b") (getZ st0 "maxb") (getZ st0 "maxt")
                                          (getZ st "b") (getZ st "t") (getD st "bins") (getD st "cnt"))
  | 6%nat => ALoop [("t", KInt); ("cnt", KArr)]
                   (fun st0 st => getZ st0 "t" <= getZ st "t" <= getZ st0 "maxt"
                                  /\ Inv6 ts ep (tick_of (getsc st0 "rbound")) (getZ st0 "b") (getZ st0 "t")
                                          (getZ st0 "maxt") (getD st0 "cnt") (getZ st "t") (getD st "cnt"))
  | _ => ANone
  end.

Definition jitcount_args (ts : list Z) (ep : iset) (b : Z) : list value :=
  [Ar (A1 DFlt (qcells ts)); Ar (A1 DFlt (qcells (firsts ep))); Ar (A1 DFlt (qcells (seconds ep)));
   Sc (VFlt (Some (qtick b)))].
Definition count_result (R : list (Z * nat)) : list value :=
  [Ar (A1 DFlt (map ccell R)); Ar (A1 DInt (map ncell R))].

Lemma rwc_contract : forall ts ep, Forall (fun I => fst I <= snd I) ep ->
  callee_meets all_kernels k_jitrestrict_with_count (pre_q ts ep) [RA1 DInt; RA1 DInt] (post_q ts ep).
Proof.
  intros ts ep Hep fuel vs ->.
  pose proof (k_jitrestrict_with_count_computes_model_q ts ep fuel Hep) as F.
  assert (P : Pre_jitrestrict_with_count (qrestrict_args ts ep)).
  { unfold qrestrict_args. do 6 eexists. split; [reflexivity|]. autorewrite with zlen. reflexivity. }
  pose proof (k_jitrestrict_with_count_spec fuel _ P) as S.
  unfold run in *.
  destruct (Interp.run all_kernels fuel k_jitrestrict_with_count (qrestrict_args ts ep)); auto.
  subst vs. destruct S as [C S]. split; [exact C|].
  unfold post_q, index_array. unfold post_rwc, qrestrict_args in S. destruct S as (S1 & S2 & S3).
  autorewrite with zlen in *. split; [reflexivity|]. split; [reflexivity|]. split; [exact S1|]. split; [exact S2 | exact S3].
Qed.

#[local] Hint Rewrite fadd_q fsub_q fmul2_q fadd_q_half round9_q round9_half tick_of_q cmp_lt_q cmp_gt_q cmp_ge_q : qt.

(* facts about the cells and prefix sums of the two integer arrays (nb_bins, countin), with their
   side conditions discharged, so that the arithmetic goals are plain linear problems *)
Ltac sat_cell d k N :=
  lazymatch goal with
  | _ : psum d (k + 1) = psum d k + to_int (nthZ d k) |- _ => fail
  | _ => let R := fresh "R" in
         assert (R : 0 <= k < zlen d) by (autorewrite with zlen; lia);
         pose proof (nonneg_nth_int d k N); pose proof (psum_succ d k R); pose proof (psum_succ_le d k N R)
  end.
Ltac sat_psum d k N :=
  lazymatch goal with
  | _ : psum d k <= sum_int d |- _ => fail
  | _ => let R := fresh "R" in
         assert (R : 0 <= k <= zlen d) by (autorewrite with zlen; lia);
         pose proof (psum_nonneg d k N R); pose proof (psum_le d k N R)
  end.
Ltac saturate :=
  repeat match goal with
         | N : nonneg_ints ?d |- context [nthZ ?d ?k] => sat_cell d k N
         | N : nonneg_ints ?d, _ : context [nthZ ?d ?k] |- _ => sat_cell d k N
         | N : nonneg_ints ?d |- context [psum ?d ?k] => sat_psum d k N
         | N : nonneg_ints ?d, _ : context [psum ?d ?k] |- _ => sat_psum d k N
         end;
  repeat match goal with
         | N : nonneg_ints ?d |- _ =>
             lazymatch goal with
             | _ : psum d 0 = 0 |- _ => fail
             | _ => pose proof (psum_0 d); pose proof (psum_all d); pose proof (nonneg_sum d N)
             end
         end.

Theorem k_jitcount_computes_model : forall ts ep B fuel,
  Forall (fun I => fst I <= snd I) ep -> 0 < B ->
  match run fuel k_jitcount (jitcount_args ts ep B) with
  | Return rs => rs = count_result (count_binned ts ep B)
  | OutOfFuel => True
  | _ => False
  end.
Proof.
  intros ts ep B fuel Hep HB.
  pose proof (run_sound all_kernels (ann_func ts ep B) k_jitcount
                (fun rs => rs = count_result (count_binned ts ep B)) (jitcount_args ts ep B) fuel) as RS.
  unfold run.
  match type of RS with ?P -> _ => assert (W : P) end.
  2: { specialize (RS W). unfold Interp.run in *.
       destruct (exec all_kernels fuel (fbody k_jitcount) (init_store k_jitcount (jitcount_args ts ep B)));
         simpl in *; auto. }
  clear RS. unfold jitcount_args.
  wp_compute k_jitcount ann_func. rewrite find_rwc. wp_compute k_jitcount ann_func.
  lazy beta iota delta [post_q].
  vc k_jitcount ann_func.
  1: apply rwc_contract; assumption.
  all: try solve [arith].
  all: split_cnt_inv; fold_psum; autorewrite with zlen in *.
  all: try match goal with
         | H : _ <= psum (zeros DInt ?n (VInt 0)) _ |- _ => pose proof (nonneg_zeros n); pose proof (sum_int_zeros n)
         end.
  all: saturate; autorewrite with zlen in *.
  all: try match goal with
         | |- (_ < _)%Z => lia
         | |- (_ <= _ <= _)%Z => lia
         | |- 0 <= psum _ 0 => rewrite psum_0; lia
         | |- (_ <= _)%Z => lia
         | |- @eq Z _ _ => lia
         end.
  (* simple structural goals *)
  all: try match goal with
         | |- nonneg_ints (zeros DInt _ (VInt 0)) => apply nonneg_zeros
         | |- Inv1 _ _ 0 _ => apply T1_init
         | |- Inv3 _ _ _ 0 0 (zeros DFlt _ _) (zeros DInt _ (VInt 0)) => apply T3_init
         end.
  (* the gathered samples, the cells of the argument arrays, the float arithmetic on the tick lattice *)
  all: repeat match goal with Hq : ?q = Some (qtick _) |- _ => is_var q; subst q end.
  all: try rewrite fdiv2_half in *.
  all: try match goal with
         | H2 : ?d0 = index_cells (restrict_idx _ _), H3 : idx_ok (zlen _) ?d0 = true |- _ =>
             pose proof (zlen_Gz ts ep) as HGz; rewrite <- H2 in HGz;
             try rewrite (gather_Gz ts ep d0 H2 H3) in *
         end.
  all: repeat match goal with
         | Hc : context [to_flt (nthZ (qcells ?l) ?k)] |- _ =>
             rewrite (nth_qcells l k) in Hc by (autorewrite with zlen; lia)
         | |- context [to_flt (nthZ (qcells ?l) ?k)] =>
             rewrite (nth_qcells l k) by (autorewrite with zlen; lia)
         end.
  all: unfold binop_flt in *.
  all: repeat (progress (cbn [eval_unop eval_cmp to_flt is_flt orb] in *; autorewrite with qt in * )).
  all: repeat match goal with
         | Hc : (_ <? _)%Z = _ |- _ => b2p Hc
         | Hc : (_ <=? _)%Z = _ |- _ => b2p Hc
         end.
  all: try exact I.
  all: try match goal with
         | |- Some (qtick _) = Some (qtick _) => f_equal; f_equal; unfold lbz, Jitrestrict_func.sk; lia
         end.
  (* loop 1: the number of bins of interval k *)
  all: try rewrite nb_cell by lia.
  all: try match goal with
         | |- nonneg_ints (updZ _ _ (VInt 1)) => apply nonneg_updZ; [assumption | lia]
         | |- nonneg_ints (updZ _ _ (VInt (cdiv ?x _))) =>
             apply nonneg_updZ; [assumption | pose proof (cdiv_pos B HB x ltac:(lia)); lia]
         | |- Inv1 _ _ (_ + 1) (updZ _ _ (VInt 1)) =>
             apply T1_step; [assumption | lia | symmetry; apply nbz_le; unfold Jitrestrict_func.sk, Jitrestrict_func.ek; lia]
         | |- Inv1 _ _ (_ + 1) (updZ _ _ (VInt (cdiv _ _))) =>
             apply T1_step; [assumption | lia
                            | symmetry; apply (nbz_gt ep B HB); unfold Jitrestrict_func.sk, Jitrestrict_func.ek; lia]
         end.
  (* loop 3 / loop 4 *)
  all: try match goal with
         | I3 : Inv3 _ _ _ ?k ?b0 ?bins ?cnt, I1 : Inv1 _ _ (zlen _) ?d, H1 : ?d1 = index_cells (restrict_cnt _ _),
           Ht : ?t0 = psum ?d1 ?k
           |- Inv4 _ _ _ ?k ?b0 _ _ ?b0 ?t0 ?bins ?cnt =>
             apply (T4_init ts ep B k b0 t0 bins cnt _ _ I3);
             [ lia | apply (Inv1_nth ep B _ d k I1); lia
             | rewrite Ht, H1; apply psum_countin; lia
             | rewrite H1; apply nth_countin; lia ]
         | I4 : Inv4 _ _ _ ?k ?b0 ?maxb ?maxt ?bi ?t ?bins ?cnt, Hc : _ < 2 * lbz _ _ _ _ _ + _ |- Inv3 _ _ _ (?k + 1) ?bi ?bins ?cnt =>
             apply (T3_break ts ep B k b0 maxb maxt bi t bins cnt I4); unfold Jitrestrict_func.ek; lia
         | I4 : Inv4 _ _ _ ?k ?b0 ?maxb ?maxt ?bi ?t ?bins ?cnt |- Inv3 _ _ _ (?k + 1) ?bi ?bins ?cnt =>
             apply (T3_done ts ep B k b0 maxb maxt bi t bins cnt I4); lia
         end.
  (* loop 6 *)
  all: try match goal with
         | I4 : Inv4 _ _ _ ?k ?b0 ?maxb ?maxt ?bi ?t ?bins ?cnt |- Inv6 _ _ ?rb ?bi ?t ?maxt ?cnt ?t ?cnt =>
             apply (T6_init ts ep B k b0 maxb maxt bi t bins cnt rb I4); lia
         | I6 : Inv6 _ _ ?rb ?bi ?t0 ?maxt ?cnt0 ?t ?cnt |- Inv6 _ _ ?rb ?bi ?t0 ?maxt ?cnt0 (?t + 1) (updZ ?cnt ?bi _) =>
             apply (T6_step ts ep rb bi t0 maxt cnt0 t cnt I6); lia
         end.
  (* a bin is closed: the sample loop ended with t = maxt, or on a sample at or after the right edge *)
  all: try match goal with
         | I4 : Inv4 _ _ _ ?k ?b0 ?maxb ?maxt ?bi ?t0 ?bins ?cnt0, I6 : Inv6 _ _ _ ?bi ?t0 ?maxt ?cnt0 ?t ?cnt
           |- Inv4 _ _ _ ?k ?b0 ?maxb ?maxt (?bi + 1) ?t (updZ ?bins ?bi _) ?cnt =>
             apply (T4_step ts ep B k b0 maxb maxt bi t0 bins cnt0 t cnt I4);
             [ lia | unfold Jitrestrict_func.ek; lia | exact I6 | lia | lia
             | lazymatch goal with
               | _ : maxt <= t |- _ => left; lia
               | _ => right; split; lia
               end
             | lia | lia ]
         end.
  (* the result *)
  all: try match goal with
         | I3 : Inv3 _ _ _ ?k ?bi ?bins ?cnt |- _ = count_result _ =>
             unfold count_result; apply (T_final ts ep B k bi bins cnt I3); lia
         end.
Qed.

(* with the specification of the model (C05, Proofs/CountProofs.v): for sorted time stamps and a canonical
   interval set the translated kernel returns the bin grid and the per-bin counts the property states *)
Corollary k_jitcount_spec : forall ts ep b fuel, sortedZ ts -> canonical ep -> 0 < b ->
  match run fuel k_jitcount (jitcount_args ts ep b) with
  | Return rs => rs = count_result (count_spec ts ep b)
  | OutOfFuel => True
  | _ => False
  end.
Proof.
  intros ts ep b fuel Hs Hc Hb.
  pose proof (k_jitcount_computes_model ts ep b fuel (canonical_proper ep Hc) Hb) as H.
  rewrite (count_binned_spec ts ep b Hb Hs Hc) in H. exact H.
Qed.

(* for an even bin size every doubled centre of the model is even, and the reported centre is the exact
   float (c2 / 2) * 1e-9 = [qhalf c2] (the form in which the refinement was stated when it was proved for
   even bin sizes only) *)
Definition ccell_exact (p : Z * nat) : sval := VFlt (Some (qhalf (fst p))).
Definition count_result_exact (R : list (Z * nat)) : list value :=
  [Ar (A1 DFlt (map ccell_exact R)); Ar (A1 DInt (map ncell R))].

Lemma bins_go_centres : forall f lb e b l, Z.even b = true ->
  Forall (fun p => Z.even (fst p) = true) (bins_go f lb e b l).
Proof.
  induction f as [|f IH]; intros lb e b l Hb; simpl; [constructor|].
  destruct (2 * e <? 2 * lb + b)%Z; [constructor|].
  destruct (span_lt (lb + b)%Z l) as [a c]. constructor; [|apply IH; exact Hb].
  simpl. rewrite Z.even_add, Z.even_mul, Hb. reflexivity.
Qed.
Lemma count_binned_centres : forall ts ep b, Z.even b = true ->
  Forall (fun p => Z.even (fst p) = true) (count_binned ts ep b).
Proof.
  intros ts ep b Hb. unfold count_binned. apply Forall_concat. apply Forall_map. apply Forall_forall.
  intros [[s e] smp0] _. apply Forall_map.
  eapply Forall_impl; [|apply (bins_go_centres _ s e b smp0 Hb)]. intros [c l] H. exact H.
Qed.
Lemma count_result_even : forall R, Forall (fun p => Z.even (fst p) = true) R ->
  count_result R = count_result_exact R.
Proof.
  intros R H. unfold count_result, count_result_exact. do 3 f_equal.
  induction H as [|p r Hp _ IH]; [reflexivity|]. simpl. rewrite IH. f_equal.
  unfold ccell, ccell_exact. apply Z.even_spec in Hp. destruct Hp as [x ->].
  rewrite centre_tick_even, qhalf_even. reflexivity.
Qed.
Corollary k_jitcount_computes_model_even : forall ts ep b fuel,
  Forall (fun I => fst I <= snd I) ep -> 0 < b -> Z.even b = true ->
  match run fuel k_jitcount (jitcount_args ts ep b) with
  | Return rs => rs = count_result_exact (count_binned ts ep b)
  | OutOfFuel => True
  | _ => False
  end.
Proof.
  intros ts ep b fuel Hep Hb He.
  rewrite <- (count_result_even _ (count_binned_centres ts ep b He)).
  apply k_jitcount_computes_model; assumption.
Qed.

(* not vacuous: with enough fuel the kernel does return (termination: Inv/Jitcount_term.v) *)
Example k_jitcount_runs :
  run 200 k_jitcount (jitcount_args [0; 5; 9; 12] [(4, 6); (8, 20)] 4)
  = Return (count_result [(12, 1%nat); (20, 1%nat); (28, 1%nat); (36, 0%nat)]).
Proof. vm_compute. reflexivity. Qed.
(* an odd bin size (3 ticks, interval [4, 10]): bins [4,7) [7,10), doubled centres 11 and 17, reported on the
   even neighbours 6 and 8 of the half ticks 5.5 and 8.5; the third centre 11.5 lies beyond the end 10 *)
Example k_jitcount_runs_odd :
  run 200 k_jitcount (jitcount_args [0; 5; 9; 12] [(4, 10)] 3)
  = Return (count_result [(11, 1%nat); (17, 1%nat)])
  /\ count_result [(11, 1%nat); (17, 1%nat)]
     = [Ar (A1 DFlt [VFlt (Some (qtick 6)); VFlt (Some (qtick 8))]); Ar (A1 DInt [VInt 1; VInt 1])].
Proof. split; vm_compute; reflexivity. Qed.

(* HISTORY: the kernel text before the repair ([k_jitcount_before_fix], Inv/Findings.v: `xpos > ends[k]`, the
   centre ROUNDED to the nanosecond, half to even, compared with the end of the interval) and the model
   (which compares the exact centre) reported different bins for an odd bin size; the repaired text agrees with
   the model on the same input *)
Example odd_bin_size_differs :
  run 200 k_jitcount_before_fix (jitcount_args [0] [(0, 0)] 1)
  = Return [Ar (A1 DFlt [VFlt (Some 0%Q)]); Ar (A1 DInt [VInt 1])]
  /\ count_binned [0] [(0, 0)] 1 = [].
Proof. split; vm_compute; reflexivity. Qed.
Example odd_bin_size_repaired :
  run 200 k_jitcount (jitcount_args [0] [(0, 0)] 1) = Return (count_result (count_binned [0] [(0, 0)] 1))
  /\ count_result (count_binned [0] [(0, 0)] 1) = [Ar (A1 DFlt []); Ar (A1 DInt [])].
Proof. split; vm_compute; reflexivity. Qed.

Print Assumptions k_jitrestrict_with_count_computes_model_q.
Print Assumptions k_jitcount_computes_model.
Print Assumptions k_jitcount_spec.
Print Assumptions k_jitcount_computes_model_even.
