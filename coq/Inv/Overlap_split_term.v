(* Termination of the translated _overlap_split on every input of its safety precondition
   [Pre__overlap_split] (start <= end pairwise, 0 < interval_size, 0 <= overlap < 1): some fuel makes
   the checked interpreter return (no error, no fuel exhaustion).
   Jit/Total.v used as a termination-only calculus: the safety annotation of Inv/Overlap_split.v is
   reused VERBATIM.  Variants: len(start) - k for the outer loop; for the inner loop - whose progress
   is the FLOAT addition t += (1 - overlap) * interval_size - the number of rows of the output buffer
   still free, rows - n: the safety argument [rows_bound] (n windows of positive width fit in the
   total length) is exactly what bounds the number of iterations.
   Caveat of the idealisation (floats = exact rationals): with IEEE doubles the addition can be
   absorbed (t + step == t for |t| >= 2^53 * step), a case this model does not represent. *)
From Coq Require Import ZArith QArith Qround Lqa String List Bool Lia.
From Verif Require Import Jit.Lang Jit.Interp Jit.Safety Jit.Tactics Jit.ArrayFacts Jit.FloatFacts Jit.Total Gen.Kernels.
From Verif Require Import Inv.Overlap_split.
Import ListNotations.
Open Scope Z_scope.
Local Open Scope string_scope.

Definition vnt_term (l : nat) (st : store) : Z :=
  match l with
  | 0%nat => alen (getar st "start") - getZ st "k"
  | 1%nat => alen (getar st "slices") - getZ st "n"
  | _ => 0
  end.

Theorem k__overlap_split_returns : forall args, Pre__overlap_split args ->
  exists fuel rs, run fuel k__overlap_split args = Return rs.
Proof.
  intros args (ss & es & isz & ov & -> & Hlen & Hisz & Hov0 & Hov1 & Hle).
  unfold run.
  match goal with |- exists fuel rs, Interp.run _ fuel _ ?a = _ =>
    destruct (run_total all_kernels (ann__overlap_split ss es isz ov) vnt_term
                k__overlap_split (fun _ => True) a) as [fuel [rs [E _]]];
      [| exists fuel, rs; exact E]
  end.
  unfold fq.
  twp_compute k__overlap_split ann__overlap_split vnt_term.
  vc k__overlap_split ann__overlap_split.
  all: rewrite ?zlen_fqs in *.
  all: try solve [unfold zlen in *; lia].
  all: pose proof (step_pos isz ov Hisz Hov1) as Sp; pose proof (step_le isz ov Hisz Hov0) as Sl.
  all: repeat match goal with
         | Hx : exists qt : Q, _ |- _ =>
             let qt := fresh "qt" in let E := fresh "E" in let I1 := fresh "I" in let I2 := fresh "I" in
             destruct Hx as (qt & E & I1 & I2); try subst
         end.
  all: repeat match goal with
         | Hx : context [to_flt (nthZ (fqs ?l) ?k)] |- _ =>
             rewrite (nth_fqs l k) in Hx by (unfold zlen in *; lia)
         | Hx : cmp_flt Lt (fadd (Some _) (Some _)) (Some _) = true |- _ => apply cond_lt in Hx
         end.
  (* 1. entry of the outer loop *)
  1: { rewrite qpsum_0. set (S := ((1 - ov) * isz)%Q). assert (Ez : (inject_Z 0 == 0)%Q) by reflexivity.
       rewrite Ez. lra. }
  (* 2. entry of the inner loop: t = start[k] *)
  1: { rewrite nth_fqs by (unfold zlen in *; lia). eexists. split; [reflexivity|]. split.
       - set (S := ((1 - ov) * isz)%Q) in *. set (A := (inject_Z z0 * S)%Q) in *. lra.
       - apply qnth_le; [assumption | unfold zlen in *; lia]. }
  (* 3. the variant of the inner loop is non-negative when the body is entered: row n exists *)
  1: apply Z.le_0_sub, Z.lt_le_incl.
  (* 3, 4, 5. row n exists (variant, and the two stores) *)
  1-3: destruct (sum_flt_lens es ss Hlen) as (qs & Es & Eq); rewrite Es;
       change (binop_flt Div (Some qs) ?b) with (VFlt (fdiv (Some qs) b));
       unfold fmul, fsub, f2, qsome;
       apply rows_bound with (tot := qsum (lens ss es)) (stp := ((1 - ov) * isz)%Q);
       [ exact Sp | exact Eq | | apply step_model' ];
       pose proof (qpsum_succ ss es z Hlen ltac:(unfold zlen in *; lia)) as Q1;
       pose proof (qpsum_le_total ss es (z + 1) Hle) as Q2;
       set (S := ((1 - ov) * isz)%Q) in *; set (A := (inject_Z z1 * S)%Q) in *; lra.
  (* 6. one more window: t += step, n += 1 *)
  1: { unfold fmul, fsub, fadd, f2, qsome. eexists. split; [reflexivity|].
       pose proof (step_model isz ov) as Em.
       set (S' := Qred (Qred (qz 1 - ov) * isz)) in *.
       assert (E1 : (inject_Z (z1 + 1) * ((1 - ov) * isz) == inject_Z z1 * ((1 - ov) * isz) + (1 - ov) * isz)%Q)
         by (rewrite inject_Z_plus; ring).
       split.
       - rewrite E1, Qred_correct. set (S := ((1 - ov) * isz)%Q) in *.
         set (A := (inject_Z z1 * S)%Q) in *. lra.
       - rewrite Qred_correct. set (S := ((1 - ov) * isz)%Q) in *. lra. }
  (* 7. next epoch *)
  1: { rewrite qpsum_succ by (try assumption; unfold zlen in *; lia).
       set (S := ((1 - ov) * isz)%Q) in *. set (A := (inject_Z z1 * S)%Q) in *. lra. }
Qed.

Corollary k__overlap_split_terminates : forall args, Pre__overlap_split args ->
  exists fuel, run fuel k__overlap_split args <> OutOfFuel.
Proof.
  intros args HP. destruct (k__overlap_split_returns args HP) as [fuel [rs E]].
  exists fuel. rewrite E. discriminate.
Qed.

Print Assumptions k__overlap_split_returns.
