(* Termination of the translated _overlap_split: some fuel makes the checked interpreter return (no
   error, no fuel exhaustion), on every input of its safety precondition [Pre__overlap_split]
   (start <= end pairwise, 0 < interval_size, 0 <= overlap < 1) - and, since the repair of the
   library, on every input of [Pre__overlap_split_any] (start and end of equal length).
   Jit/Total.v used as a termination-only calculus: the safety annotation of Inv/Overlap_split.v is
   reused VERBATIM.  Variants: len(start) - k for the outer loop; for the inner loop the number of
   rows of the output buffer still free, rows - n with rows = max 0 (N + 1): the repaired loop
   `while t + interval_size < end[k] and n <= N` is entered only with n <= N, so the variant is
   positive there, and n += 1 decreases it.  This is an INTEGER variant: the progress of the float
   addition t += (1 - overlap) * interval_size is no longer used (before the repair the bound on
   the number of iterations was the exact-rational argument that n windows of positive width fit in
   the total length, and needed 0 < interval_size, overlap < 1).  In particular the absorption of
   the addition with IEEE doubles (t + step == t for |t| >= 2^53 * step), which the idealisation
   floats = exact rationals does not represent, no longer matters for this argument. *)
From Coq Require Import ZArith QArith String List Bool Lia.
From Verif Require Import Jit.Lang Jit.Interp Jit.Safety Jit.Tactics Jit.ArrayFacts Jit.FloatFacts Jit.Total Gen.Kernels.
From Verif Require Import Inv.Overlap_split.
Import ListNotations.
Open Scope Z_scope.
Local Open Scope string_scope.

Definition vnt_term (l : nat) (st : store) : Z :=
  match l with
  | 0%nat => alen (getar st "start") - getZ st "k"
  | 1%nat => alen (getar st "slices") - getZ st "n"
  | _ => 0
  end.

Theorem k__overlap_split_returns_any : forall args, Pre__overlap_split_any args ->
  exists fuel rs, run fuel k__overlap_split args = Return rs.
Proof.
  intros args (ss & es & isz & ov & -> & Hlen).
  unfold run.
  match goal with |- exists fuel rs, Interp.run _ fuel _ ?a = _ =>
    destruct (run_total all_kernels (ann__overlap_split ss) vnt_term
                k__overlap_split (fun _ => True) a) as [fuel [rs [E _]]];
      [| exists fuel, rs; exact E]
  end.
  unfold fq.
  twp_compute k__overlap_split ann__overlap_split vnt_term.
  vc k__overlap_split ann__overlap_split.
  all: rewrite ?zlen_fqs in *.
  all: try solve [unfold zlen in *; lia].
  (* 1. the variant of the inner loop is non-negative when the body is entered: row n is free *)
  1: apply Z.le_0_sub, Z.lt_le_incl.
  (* 1, 2, 3. row n exists (variant, and the two stores), by the guard n <= N *)
  all: apply guard_row; assumption.
Qed.

Theorem k__overlap_split_returns : forall args, Pre__overlap_split args ->
  exists fuel rs, run fuel k__overlap_split args = Return rs.
Proof. intros args H. apply k__overlap_split_returns_any, Pre__overlap_split_weaken, H. Qed.

Corollary k__overlap_split_terminates_any : forall args, Pre__overlap_split_any args ->
  exists fuel, run fuel k__overlap_split args <> OutOfFuel.
Proof.
  intros args HP. destruct (k__overlap_split_returns_any args HP) as [fuel [rs E]].
  exists fuel. rewrite E. discriminate.
Qed.

Corollary k__overlap_split_terminates : forall args, Pre__overlap_split args ->
  exists fuel, run fuel k__overlap_split args <> OutOfFuel.
Proof. intros args H. apply k__overlap_split_terminates_any, Pre__overlap_split_weaken, H. Qed.

Print Assumptions k__overlap_split_returns.
