(* Functional correctness of the TRANSLATED jitin_interval against the functional model
   [in_interval] of Model/Restrict.v, by proof (method of Inv/Jitrestrict_func.v, whose encodings of
   the arguments are reused):

     for every SORTED time array ts (integer ticks) and every interval list ep whose STARTS ARE SORTED
     (non-decreasing), running the translated kernel (Gen/Kernels.v) on the arrays of
     ts / starts ep / ends ep returns, whenever it returns, exactly the float array holding, for each
     sample, NaN where [find_interval] says None and the interval index k (as the float k) where it
     says Some k.

   Partial correctness (OutOfFuel allowed; any Err or any other Return excluded).
   Hypotheses: sortedZ ts and sortedZ (map fst ep).  Both are needed (examples at the end of the file:
   the kernel and the model disagree when either is dropped); nothing else is: neither start <= end,
   nor separation of the intervals, nor sortedness of the ends.  A canonical interval set has sorted
   starts (corollary).  The model [find_interval] returns the FIRST interval holding the sample; the
   kernel consumes the samples in order, so the two agree exactly when no sample can be claimed by an
   interval the scan has already left, which is what the two sortedness hypotheses give. *)
From Coq Require Import ZArith QArith String List Bool Lia.
From Verif Require Import Base.Prelude Model.Restrict Proofs.BaseLemmas Proofs.RestrictProofs.
From Verif Require Import Jit.Lang Jit.Interp Jit.Safety Jit.Tactics Jit.ArrayFacts Gen.Kernels.
From Verif Require Import Inv.Jitrestrict_func.
Import ListNotations.
Open Scope Z_scope.
#[local] Hint Rewrite zlen_tcells zlen_firsts zlen_seconds : zlen.

(* ---------- encoding of the result: NaN for None, the interval index as a float otherwise ---------- *)
Definition in_cell (o : option nat) : sval :=
  match o with None => VFlt None | Some k => VFlt (Some (inject_Z (Z.of_nat k))) end.
Definition in_cells (l : list (option nat)) : list sval := map in_cell l.
Definition in_array (l : list (option nat)) : value := Ar (A1 DFlt (in_cells l)).

(* ---------- sorted lists, pointwise ---------- *)
Lemma sorted_from_nth : forall l lo i j, sorted_from lo l -> (i <= j < length l)%nat ->
  lo <= nth i l 0 /\ nth i l 0 <= nth j l 0.
Proof.
  induction l as [|x r IH]; intros lo i j H Hij; simpl in Hij; [lia|].
  destruct H as [H1 H2]. destruct i, j; simpl; try lia.
  - destruct (IH x j j H2 ltac:(lia)). lia.
  - destruct (IH x i j H2 ltac:(lia)). lia.
Qed.
Lemma sortedZ_tk : forall l i j, sortedZ l -> 0 <= i <= j -> j < zlen l -> tk l i <= tk l j.
Proof.
  intros l i j H Hij Hj. unfold tk. destruct l as [|x r]; [unfold zlen in Hj; simpl in Hj; lia|].
  simpl in H. assert (S : sorted_from x (x :: r)) by (simpl; split; [lia | exact H]).
  apply (sorted_from_nth (x :: r) x (Z.to_nat i) (Z.to_nat j) S). unfold zlen in Hj. lia.
Qed.

(* ---------- find_interval, by positions ---------- *)
Definition ivl (ep : iset) (k : nat) : Z * Z := nth k ep (0, 0).
Lemma sk_ivl : forall ep k, sk ep k = fst (ivl ep (Z.to_nat k)).
Proof. intros. unfold sk, tk, firsts, ivl. exact (map_nth fst ep (0, 0) (Z.to_nat k)). Qed.
Lemma ek_ivl : forall ep k, ek ep k = snd (ivl ep (Z.to_nat k)).
Proof. intros. unfold ek, tk, seconds, ivl. exact (map_nth snd ep (0, 0) (Z.to_nat k)). Qed.

Lemma find_none : forall ep i x, (forall j, (j < length ep)%nat -> inb x (ivl ep j) = false) ->
  find_interval x i ep = None.
Proof.
  induction ep as [|iv r IH]; intros i x H; [reflexivity|]. simpl.
  pose proof (H 0%nat ltac:(simpl; lia)) as H0. unfold ivl in H0. simpl in H0. rewrite H0. apply IH. intros j Hj. apply (H (S j)). simpl. lia.
Qed.
Lemma find_some : forall ep i x k, (k < length ep)%nat -> inb x (ivl ep k) = true ->
  (forall j, (j < k)%nat -> inb x (ivl ep j) = false) -> find_interval x i ep = Some (i + k)%nat.
Proof.
  induction ep as [|iv r IH]; intros i x k Hk Hin H; simpl in Hk; [lia|]. simpl.
  destruct k.
  - unfold ivl in Hin. simpl in Hin. rewrite Hin. f_equal. lia.
  - pose proof (H 0%nat ltac:(lia)) as H0. unfold ivl in H0. simpl in H0. rewrite H0.
    rewrite (IH (S i) x k); [f_equal; lia | lia | exact Hin |].
    intros j Hj. apply (H (S j)). lia.
Qed.

Section Model.
Variable ts : list Z.
Variable ep : iset.
Hypothesis ts_sorted : sortedZ ts.
Hypothesis starts_sorted : sortedZ (firsts ep).

Definition fi (j : Z) : option nat := find_interval (tk ts j) 0%nat ep.

Lemma fi_none : forall x k, 0 <= k <= zlen ep -> (forall j, 0 <= j < k -> ek ep j < x) ->
  (k < zlen ep -> x < sk ep k) -> find_interval x 0%nat ep = None.
Proof.
  intros x k Hk Hlo Hhi. apply find_none. intros j Hj.
  destruct (Z_lt_ge_dec (Z.of_nat j) k) as [L|G].
  - specialize (Hlo (Z.of_nat j) ltac:(lia)). rewrite ek_ivl, Nat2Z.id in Hlo.
    unfold inb. apply andb_false_iff. right. apply Z.leb_gt. exact Hlo.
  - assert (Hk' : k < zlen ep) by (unfold zlen; lia). specialize (Hhi Hk').
    assert (S : sk ep k <= sk ep (Z.of_nat j)).
    { unfold sk. apply sortedZ_tk; [exact starts_sorted | lia | rewrite zlen_firsts; unfold zlen; lia]. }
    rewrite (sk_ivl ep (Z.of_nat j)), Nat2Z.id in S.
    unfold inb. apply andb_false_iff. left. apply Z.leb_gt. lia.
Qed.

Lemma fi_some : forall x k, 0 <= k < zlen ep -> (forall j, 0 <= j < k -> ek ep j < x) ->
  sk ep k <= x <= ek ep k -> find_interval x 0%nat ep = Some (Z.to_nat k).
Proof.
  intros x k Hk Hlo Hin. apply (find_some ep 0%nat x (Z.to_nat k)).
  - unfold zlen in Hk. lia.
  - rewrite sk_ivl, ek_ivl in Hin. unfold inb. apply andb_true_iff. split; apply Z.leb_le; lia.
  - intros j Hj. specialize (Hlo (Z.of_nat j) ltac:(lia)). rewrite ek_ivl, Nat2Z.id in Hlo.
    unfold inb. apply andb_false_iff. right. apply Z.leb_gt. exact Hlo.
Qed.

(* every interval before k ends before sample t (and hence, ts being sorted, before all later samples) *)
Definition Front (k t : Z) : Prop := t < zlen ts -> forall j, 0 <= j < k -> ek ep j < tk ts t.
(* sample t is not before the start of interval k *)
Definition Low (k t : Z) : Prop := t < zlen ts -> sk ep k <= tk ts t.
(* the cells before t hold the model's answer, the others are still NaN *)
Definition Good (t : Z) (d : list sval) : Prop :=
  zlen d = zlen ts
  /\ (forall j, 0 <= j < t -> nthZ d j = in_cell (fi j))
  /\ (forall j, t <= j < zlen ts -> nthZ d j = VFlt None).
Definition J (k t : Z) (d : list sval) : Prop := Good t d /\ Front k t.

Lemma front_mono : forall k t t', Front k t -> 0 <= t <= t' -> Front k t'.
Proof.
  unfold Front. intros k t t' H Ht Hn j Hj. specialize (H ltac:(lia) j Hj).
  pose proof (sortedZ_tk ts t t' ts_sorted Ht Hn). lia.
Qed.

Lemma T_front_0 : Front 0 0.
Proof. unfold Front. intros. lia. Qed.
Lemma T_front_skip : forall k t, Front k t -> ek ep k < tk ts t -> Front (k + 1) t.
Proof.
  unfold Front. intros k t H Hlt Hn j Hj. destruct (Z.eq_dec j k) as [->|N]; [exact Hlt|].
  apply H; lia.
Qed.

Lemma T_J_init : forall k n, n = zlen ts -> Front k 0 -> J k 0 (zeros DFlt n (VFlt None)).
Proof.
  intros k n -> F. split; [|exact F]. unfold Good. repeat split.
  - rewrite zlen_zeros. pose proof (zlen_nonneg ts). lia.
  - intros j Hj. lia.
  - intros j Hj. unfold nthZ, zeros. simpl coerce.
    rewrite (nth_indep _ dflt (VFlt None)) by (rewrite repeat_length; lia). apply nth_repeat.
Qed.

Lemma T_J_drop : forall k t d, J k t d -> 0 <= k < zlen ep -> 0 <= t < zlen ts -> tk ts t < sk ep k ->
  J k (t + 1) d.
Proof.
  intros k t d [(Hl & Hd & Hn) F] Hk Ht Hlt. split.
  - repeat split; [exact Hl | | intros j Hj; apply Hn; lia].
    intros j Hj. destruct (Z.eq_dec j t) as [->|N]; [|apply Hd; lia].
    rewrite Hn by lia. unfold fi. rewrite (fi_none (tk ts t) k); [reflexivity | lia | apply F; lia | intros; lia].
  - apply (front_mono k t); [exact F | lia].
Qed.

Lemma T_J_take : forall k t d, J k t d -> Low k t -> 0 <= k < zlen ep -> 0 <= t < zlen ts ->
  tk ts t <= ek ep k -> J k (t + 1) (updZ d t (VFlt (Some (inject_Z k)))).
Proof.
  intros k t d [(Hl & Hd & Hn) F] L Hk Ht Hle. split.
  - repeat split.
    + rewrite zlen_updZ. exact Hl.
    + intros j Hj. unfold nthZ, updZ. destruct (Z.eq_dec j t) as [->|N].
      * rewrite nth_upd_nth_same by (unfold zlen in *; lia).
        unfold fi. rewrite (fi_some (tk ts t) k); [| lia | apply F; lia | split; [apply L; lia | lia]].
        simpl. rewrite Z2Nat.id by lia. reflexivity.
      * assert (NE : Z.to_nat j <> Z.to_nat t) by lia.
        clear - Hd NE Hj N. fold (nthZ d j) in Hd.
        transitivity (nthZ d j); [| apply Hd; lia]. unfold nthZ.
        revert NE. generalize (Z.to_nat j) (Z.to_nat t). clear.
        induction d as [|x r IH]; intros a b NE; [destruct b; reflexivity|].
        destruct a, b; simpl; try reflexivity; try congruence. apply IH. congruence.
    + intros j Hj. unfold nthZ, updZ.
      transitivity (nthZ d j); [| apply Hn; lia]. unfold nthZ.
      assert (NE : Z.to_nat j <> Z.to_nat t) by lia. revert NE. generalize (Z.to_nat j) (Z.to_nat t). clear.
      induction d as [|x r IH]; intros a b NE; [destruct b; reflexivity|].
      destruct a, b; simpl; try reflexivity; try congruence. apply IH. congruence.
  - apply (front_mono k t); [exact F | lia].
Qed.

Lemma T_low_step : forall k t, Low k t -> 0 <= t -> Low k (t + 1).
Proof.
  unfold Low. intros k t H Ht Hn. specialize (H ltac:(lia)).
  pose proof (sortedZ_tk ts t (t + 1) ts_sorted ltac:(lia) Hn). lia.
Qed.

Lemma T_J_next : forall k t d, J k t d -> ek ep k < tk ts t -> J (k + 1) t d.
Proof. intros k t d [G F] H. split; [exact G | apply T_front_skip; assumption]. Qed.

Lemma T_final : forall k t d, J k t d -> 0 <= k -> 0 <= t <= zlen ts -> zlen ep <= k \/ zlen ts <= t ->
  d = in_cells (in_interval ts ep).
Proof.
  intros k t d [(Hl & Hd & Hn) F] Hk Ht X.
  assert (P : forall j, 0 <= j < zlen ts -> nthZ d j = in_cell (fi j)).
  { intros j Hj. destruct (Z_lt_ge_dec j t) as [L|G]; [apply Hd; lia|].
    rewrite Hn by lia. destruct X as [X|X]; [|lia].
    unfold fi. rewrite (fi_none (tk ts j) (zlen ep)); [reflexivity | pose proof (zlen_nonneg ep); lia | | lia].
    intros i Hi. apply (front_mono k t j F ltac:(lia)); lia. }
  unfold in_cells, in_interval. rewrite map_map.
  apply (nth_ext _ _ dflt (in_cell (find_interval 0 0%nat ep))).
  - rewrite map_length. unfold zlen in Hl. lia.
  - intros n Hn'. specialize (P (Z.of_nat n) ltac:(unfold zlen in *; lia)).
    unfold nthZ in P. rewrite Nat2Z.id in P. rewrite P. unfold fi, tk. rewrite Nat2Z.id.
    symmetry. exact (map_nth (fun t0 => in_cell (find_interval t0 0%nat ep)) ts 0 n).
Qed.

End Model.

Local Open Scope string_scope.

Definition ann_in (ts : list Z) (ep : iset) (l : nat) : annot :=
  match l with
  | 0%nat => ALoop [("k", KInt)]
                   (fun st0 st => 0 <= getZ st "k" <= zlen ep /\ Front ts ep (getZ st "k") 0)
  | 1%nat => ALoop [("k", KInt); ("t", KInt); ("data", KArr)]
                   (fun st0 st => 0 <= getZ st "k" <= zlen ep /\ 0 <= getZ st "t" <= zlen ts
                                  /\ J ts ep (getZ st "k") (getZ st "t") (getD st "data"))
  | 2%nat => ALoop [("t", KInt)]
                   (fun st0 st => getZ st0 "t" <= getZ st "t" <= zlen ts
                                  /\ J ts ep (getZ st0 "k") (getZ st "t") (getD st0 "data"))
  | 4%nat => ALoop [("k", KInt); ("t", KInt); ("data", KArr)]
                   (fun st0 st => getZ st "k" = getZ st0 "k"
                                  /\ getZ st0 "t" <= getZ st "t" <= zlen ts
                                  /\ J ts ep (getZ st0 "k") (getZ st "t") (getD st "data")
                                  /\ Low ts ep (getZ st0 "k") (getZ st "t"))
  | _ => ANone
  end.

Theorem k_jitin_interval_computes_model : forall ts ep fuel,
  sortedZ ts -> sortedZ (firsts ep) ->
  match run fuel k_jitin_interval (jitrestrict_args ts ep) with
  | Return rs => rs = [in_array (in_interval ts ep)]
  | OutOfFuel => True
  | _ => False
  end.
Proof.
  intros ts ep fuel Hts Hep.
  pose proof (run_sound all_kernels (ann_in ts ep) k_jitin_interval
                (fun rs => rs = [in_array (in_interval ts ep)]) (jitrestrict_args ts ep) fuel) as RS.
  unfold run.
  match type of RS with ?P -> _ => assert (W : P) end.
  2: { specialize (RS W). unfold Interp.run in *.
       destruct (exec all_kernels fuel (fbody k_jitin_interval)
                   (init_store k_jitin_interval (jitrestrict_args ts ep)));
         simpl in *; auto. }
  clear RS. unfold jitrestrict_args, in_array.
  wp_compute k_jitin_interval ann_in.
  vc k_jitin_interval ann_in.
  all: try solve [arith].
  all: repeat match goal with
         | Hc : context [to_flt (nthZ (tcells ?l) ?k)] |- _ =>
             rewrite (nth_tcells l k) in Hc by (autorewrite with zlen; lia)
         end.
  all: repeat match goal with
         | Hc : context [cmp_flt Lt (Some (inject_Z _)) (Some (inject_Z _))] |- _ => rewrite cmp_lt_inj in Hc
         | Hc : context [cmp_flt Gt (Some (inject_Z _)) (Some (inject_Z _))] |- _ => rewrite cmp_gt_inj in Hc
         | Hc : context [cmp_flt Ge (Some (inject_Z _)) (Some (inject_Z _))] |- _ => rewrite cmp_ge_inj in Hc
         end.
  all: repeat match goal with
         | Hc : (_ <? _)%Z = _ |- _ => b2p Hc
         | Hc : (_ <=? _)%Z = _ |- _ => b2p Hc
         end.
  all: autorewrite with zlen in *.
  all: repeat match goal with Hc : ?a = ?b |- _ => is_var a; is_var b; subst a end.
  all: try apply zlen_nonneg.
  all: try match goal with
         | |- Front _ _ 0 0 => apply T_front_0
         | |- Front _ _ (_ + 1) 0 => apply T_front_skip; [assumption | unfold ek; lia]
         | |- J _ _ _ 0 (zeros _ _ _) => apply T_J_init; [reflexivity | assumption]
         | H : J _ _ ?k ?t ?d |- J _ _ ?k ?t ?d => exact H
         | |- Low _ _ _ (_ + 1) => apply T_low_step; [assumption | assumption | lia]
         | |- Low _ _ _ _ => unfold Low, sk; intros; lia
         | |- J _ _ (_ + 1) _ _ => apply T_J_next; [assumption | unfold ek; lia]
         | |- J _ _ _ (_ + 1) (updZ _ _ (VFlt (Some (qz ?k)))) =>
             change (qz k) with (inject_Z k);
             apply T_J_take; [assumption | assumption | assumption | lia | lia | unfold ek; lia]
         | |- J _ _ _ (_ + 1) _ => apply T_J_drop; [assumption | assumption | assumption | lia | lia | unfold sk; lia]
         end.
  all: try (f_equal; f_equal; f_equal).
  all: try match goal with
         | Hj : J _ _ ?k ?t ?d |- ?d = _ =>
             first [ apply (T_final ts ep Hts Hep k t d Hj); [lia | lia | first [left; lia | right; lia]]
                   | apply (T_final ts ep Hts Hep (k + 1) t d);
                     [ apply T_J_next; [exact Hj | unfold ek; lia] | lia | lia | first [left; lia | right; lia] ] ]
         end.
Qed.

(* a canonical interval set has sorted starts *)
Lemma canon_sorted_starts : forall ep lo, canon lo ep -> sorted_from lo (firsts ep).
Proof.
  induction ep as [|[s e] r IH]; intros lo H; simpl; [exact I|].
  destruct H as (H1 & H2 & H3). split; [lia|]. apply IH. eapply canon_weaken; [|exact H3]. lia.
Qed.
Lemma canonical_sorted_starts : forall ep, canonical ep -> sortedZ (firsts ep).
Proof.
  intros ep H. destruct (canonical_canon ep H) as [lo Hlo].
  eapply sortedZ_from. apply canon_sorted_starts. exact Hlo.
Qed.

Corollary k_jitin_interval_canonical : forall ts ep fuel, sortedZ ts -> canonical ep ->
  match run fuel k_jitin_interval (jitrestrict_args ts ep) with
  | Return rs => rs = [in_array (in_interval ts ep)]
  | OutOfFuel => True
  | _ => False
  end.
Proof.
  intros ts ep fuel Hs Hc.
  exact (k_jitin_interval_computes_model ts ep fuel Hs (canonical_sorted_starts ep Hc)).
Qed.

(* not vacuous: with enough fuel the kernel does return (termination itself is not proved) *)
Example k_jitin_interval_runs :
  run 100 k_jitin_interval (jitrestrict_args [0; 5; 9; 12] [(4, 6); (8, 20)])
  = Return [in_array [None; Some 0%nat; Some 1%nat; Some 1%nat]]
  /\ in_interval [0; 5; 9; 12] [(4, 6); (8, 20)] = [None; Some 0%nat; Some 1%nat; Some 1%nat].
Proof. split; vm_compute; reflexivity. Qed.

(* the two hypotheses cannot be dropped: kernel and model disagree
   (a) on an unsorted time array (one interval), (b) on sorted samples with unsorted starts *)
Example k_jitin_interval_needs_sorted_ts :
  run 100 k_jitin_interval (jitrestrict_args [3; 1] [(0, 2)]) = Return [in_array [None; None]]
  /\ in_interval [3; 1] [(0, 2)] = [None; Some 0%nat].
Proof. split; vm_compute; reflexivity. Qed.
Example k_jitin_interval_needs_sorted_starts :
  run 100 k_jitin_interval (jitrestrict_args [1] [(5, 6); (0, 2)]) = Return [in_array [None]]
  /\ in_interval [1] [(5, 6); (0, 2)] = [Some 1%nat].
Proof. split; vm_compute; reflexivity. Qed.

Print Assumptions k_jitin_interval_computes_model.
Print Assumptions k_jitin_interval_canonical.
