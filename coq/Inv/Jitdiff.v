(* C15: jitdiff.  No sortedness is needed: 0 <= ct <= i + j holds at every point (each ct += 1 is
   paired with an i += 1 or a j += 1 that is not undone by the later j -= 1), writes happen with
   i < m and j <= n, and end2[j - 1] is only read after a j += 1 of the same outer iteration. *)
From Coq Require Import ZArith QArith String List Bool Lia.
From Verif Require Import Jit.Lang Jit.Interp Jit.Safety Jit.Tactics Gen.Kernels.
Import ListNotations.
Open Scope Z_scope.
Local Open Scope string_scope.

Definition Pre_jitdiff (args : list value) : Prop :=
  exists d1 d2 d3 d4 s1 e1 s2 e2,
    args = [Ar (A1 d1 s1); Ar (A1 d2 e1); Ar (A1 d3 s2); Ar (A1 d4 e2)]
    /\ zlen s1 = zlen e1 /\ zlen s2 = zlen e2.

Definition ann_jitdiff (l : nat) : annot :=
  match l with
  | 0%nat => ALoop [("i", KInt); ("j", KInt); ("ct", KInt);
                    ("newstart", KArr); ("newend", KArr); ("newmeta", KArr)]
                   (fun st0 st => 0 <= getZ st "i" /\ 0 <= getZ st "j" <= getZ st0 "n"
                                  /\ 0 <= getZ st "ct" <= getZ st "i" + getZ st "j")
  | 1%nat => ALoop [("j", KInt)]
                   (fun st0 st => getZ st0 "j" <= getZ st "j" <= getZ st0 "n")
  | 7%nat => ALoop [("j", KInt); ("ct", KInt);
                    ("newstart", KArr); ("newend", KArr); ("newmeta", KArr)]
                   (fun st0 st => getZ st0 "j" <= getZ st "j" <= getZ st0 "n"
                                  /\ 0 <= getZ st "ct" <= getZ st "i" + getZ st "j")
  | 10%nat => ALoop [("i", KInt); ("ct", KInt);
                    ("newstart", KArr); ("newend", KArr); ("newmeta", KArr)]
                   (fun st0 st => 0 <= getZ st "i"
                                  /\ 0 <= getZ st "ct" <= getZ st "i" + getZ st "j")
  | _ => ANone
  end.

Theorem k_jitdiff_safe : forall args, Pre_jitdiff args ->
  forall fuel, safe_outcome (run fuel k_jitdiff args).
Proof.
  intros args (d1 & d2 & d3 & d4 & s1 & e1 & s2 & e2 & -> & H1 & H2) fuel.
  safe_start k_jitdiff ann_jitdiff. vc k_jitdiff ann_jitdiff.
Qed.
