(* C15: jitremove_nan.  Public caller (dropna) returns early on an empty series, so n >= 1. *)
From Coq Require Import ZArith QArith String List Bool Lia.
From Verif Require Import Jit.Lang Jit.Interp Jit.Safety Jit.Tactics Gen.Kernels.
Import ListNotations.
Open Scope Z_scope.
Local Open Scope string_scope.

Definition Pre_jitremove_nan (args : list value) : Prop :=
  exists d1 d2 ta nan,
    args = [Ar (A1 d1 ta); Ar (A1 d2 nan)] /\ zlen nan = zlen ta /\ 1 <= zlen ta.

Definition ann_jitremove_nan (l : nat) : annot :=
  match l with
  | 1%nat => ALoop [("t", KInt); ("ix_start", KArr); ("ix_end", KArr)]
                   (fun st0 st => 1 <= getZ st "t")
  | _ => ANone
  end.

Theorem k_jitremove_nan_safe : forall args, Pre_jitremove_nan args ->
  forall fuel, safe_outcome (run fuel k_jitremove_nan args).
Proof.
  intros args (d1 & d2 & ta & nan & -> & H1 & H2) fuel.
  safe_start k_jitremove_nan ann_jitremove_nan. vc k_jitremove_nan ann_jitremove_nan.
Qed.
