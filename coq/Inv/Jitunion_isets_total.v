(* TOTAL correctness of the translated jitunion_isets: for every interval list l without two equal
   starts, or with start <= end throughout, there is a fuel with which the kernel text runs to
   completion, and it returns the arrays of the model [k_union_n l].

   Termination (Jit/Total.v used as a termination-only calculus) reuses the safety annotation
   [ann_jitunion_isets] of Inv/Jitunion_isets.v VERBATIM; the only new input is the variant n - i of
   the single while loop.  It holds for all pairs of arrays of equal length.  Combined with the
   partial-correctness theorems of Inv/Jitunion_isets_func.v by [total_of_partial_eq]. *)
From Coq Require Import ZArith QArith String List Bool Lia.
From Verif Require Import Base.Prelude Model.Iset.
From Verif Require Import Jit.Lang Jit.Interp Jit.Safety Jit.Tactics Jit.Total Gen.Kernels.
From Verif Require Import Inv.Jitunion_isets Inv.Jitrestrict_func Inv.Jitunion_isets_func.
Import ListNotations.
Open Scope Z_scope.
Local Open Scope string_scope.

Definition vnt_term (l : nat) (st : store) : Z :=
  match l with
  | 1%nat => getZ st "n" - getZ st "i"
  | _ => 0
  end.

Theorem k_jitunion_isets_terminates : forall args, Pre_jitunion_isets args ->
  exists fuel, run fuel k_jitunion_isets args <> OutOfFuel.
Proof.
  intros args (d1 & d2 & s & e & -> & H).
  unfold run. term_start k_jitunion_isets ann_jitunion_isets vnt_term.
  vc k_jitunion_isets ann_jitunion_isets.
  all: try (rewrite <- ?H; apply idx_ok_argsort).
Qed.

Lemma union_args_pre : forall l, Pre_jitunion_isets (union_args l).
Proof.
  intros l. unfold union_args, Pre_jitunion_isets. do 4 eexists. split; [reflexivity|].
  rewrite !zlen_tcells, zlen_firsts, zlen_seconds. reflexivity.
Qed.

(* the sorted form, without hypothesis *)
Theorem k_jitunion_isets_total_sorted : forall l,
  exists fuel, run fuel k_jitunion_isets (union_args l) = Return (iset_arrays (un (sort_r l))).
Proof.
  intros l. unfold run. apply total_of_partial_eq.
  - intros fuel. exact (k_jitunion_isets_computes_sorted l fuel).
  - apply k_jitunion_isets_terminates. apply union_args_pre.
Qed.

Theorem k_jitunion_isets_total : forall l,
  NoDup (firsts l) \/ Forall (fun I => fst I <= snd I) l ->
  exists fuel, run fuel k_jitunion_isets (union_args l) = Return (iset_arrays (k_union_n l)).
Proof.
  intros l Hl. unfold run. apply total_of_partial_eq.
  - intros fuel. exact (k_jitunion_isets_computes_model l fuel Hl).
  - apply k_jitunion_isets_terminates. apply union_args_pre.
Qed.

(* non-vacuity: on a concrete input the fuel is found by computation, and the value is the model's *)
Example k_jitunion_isets_total_ex :
  exists fuel, run fuel k_jitunion_isets (union_args [(7, 8); (1, 3); (2, 9); (20, 30); (15, 16); (0, 1)])
               = Return (iset_arrays (k_union_n [(7, 8); (1, 3); (2, 9); (20, 30); (15, 16); (0, 1)])).
Proof. exists 30%nat. vm_compute. reflexivity. Qed.

Print Assumptions k_jitunion_isets_terminates.
Print Assumptions k_jitunion_isets_total_sorted.
Print Assumptions k_jitunion_isets_total.
