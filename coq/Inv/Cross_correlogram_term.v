(* Termination of the translated _cross_correlogram on every input of its safety precondition [Pre__cross_correlogram]:
   some fuel makes the checked interpreter return (no error, no fuel exhaustion).
   Jit/Total.v used as a termination-only calculus: the safety annotation [ann__cross_correlogram] of
   Inv/Cross_correlogram.v is reused VERBATIM, the only new input is one variant per while loop. *)
From Coq Require Import ZArith QArith String List Bool Lia.
From Verif Require Import Jit.Lang Jit.Interp Jit.Safety Jit.Tactics Jit.ArrayFacts Jit.FloatFacts Jit.Total Gen.Kernels.
From Verif Require Import Inv.Cross_correlogram.
Import ListNotations.
Open Scope Z_scope.
Local Open Scope string_scope.

Definition vnt_term (l : nat) (st : store) : Z :=
  match l with
  | 2%nat => getZ st "nt2" - getZ st "i2"
  | 3%nat => getZ st "i2"
  | 5%nat => getZ st "nt2" - getZ st "leftb"
  | _ => 0
  end.

Theorem k__cross_correlogram_returns : forall args, Pre__cross_correlogram args ->
  exists fuel rs, run fuel k__cross_correlogram args = Return rs.
Proof.
  intros args (d1 & d2 & t1 & t2 & binsize & windowsize & ->).
  unfold run.
  match goal with |- exists fuel rs, Interp.run _ fuel _ ?a = _ =>
    destruct (run_total all_kernels ann__cross_correlogram vnt_term k__cross_correlogram (fun _ => True) a) as [fuel [rs [E _]]];
      [| exists fuel, rs; exact E]
  end.
  twp_compute k__cross_correlogram ann__cross_correlogram vnt_term.
  vc k__cross_correlogram ann__cross_correlogram.
Qed.

Corollary k__cross_correlogram_terminates : forall args, Pre__cross_correlogram args ->
  exists fuel, run fuel k__cross_correlogram args <> OutOfFuel.
Proof.
  intros args HP. destruct (k__cross_correlogram_returns args HP) as [fuel [rs E]]. exists fuel. rewrite E. discriminate.
Qed.

Print Assumptions k__cross_correlogram_returns.
