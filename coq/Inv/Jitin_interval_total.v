(* TOTAL correctness of the translated jitin_interval: for sorted ticks ts and intervals ep with
   sorted starts there is a fuel with which the kernel text runs to completion, and it returns the
   array of the model [in_interval ts ep].

   Termination (Jit/Total.v used as a termination-only calculus) needs NEITHER sortedness hypothesis:
   it holds for all arrays with starts and ends of equal length (arithmetic loop facts + one variant
   per while loop).  The sortedness hypotheses are those of the partial-correctness theorem of
   Inv/Jitin_interval_func.v, with which it is combined by [total_of_partial_eq]. *)
From Coq Require Import ZArith QArith String List Bool Lia.
From Verif Require Import Base.Prelude Model.Restrict.
From Verif Require Import Jit.Lang Jit.Interp Jit.Safety Jit.Tactics Jit.Total Gen.Kernels.
From Verif Require Import Inv.Jitin_interval Inv.Jitrestrict_func Inv.Jitin_interval_func.
Import ListNotations.
Open Scope Z_scope.
Local Open Scope string_scope.

Definition ann_term (l : nat) : annot :=
  match l with
  | 0%nat => ALoop [("k", KInt)] (fun st0 st => 0 <= getZ st "k")
  | 1%nat => ALoop [("k", KInt); ("t", KInt); ("data", KArr)]
                   (fun st0 st => 0 <= getZ st "k" /\ 0 <= getZ st "t" <= getZ st0 "n")
  | 2%nat => ALoop [("t", KInt)] (fun st0 st => getZ st0 "t" <= getZ st "t" <= getZ st0 "n")
  | 4%nat => ALoop [("k", KInt); ("t", KInt); ("data", KArr)]
                   (fun st0 st => getZ st "k" = getZ st0 "k" /\ 0 <= getZ st "t" <= getZ st0 "n")
  | _ => ANone
  end.

Definition vnt_term (l : nat) (st : store) : Z :=
  match l with
  | 0%nat | 1%nat => getZ st "m" - getZ st "k"
  | 2%nat | 4%nat => getZ st "n" - getZ st "t"
  | _ => 0
  end.

Theorem k_jitin_interval_terminates : forall args, Pre_jitin_interval args ->
  exists fuel, run fuel k_jitin_interval args <> OutOfFuel.
Proof.
  intros args (d1 & d2 & d3 & ta & s & e & -> & H).
  unfold run. term_start k_jitin_interval ann_term vnt_term.
  vc k_jitin_interval ann_term.
Qed.

Theorem k_jitin_interval_total : forall ts ep, sortedZ ts -> sortedZ (firsts ep) ->
  exists fuel, run fuel k_jitin_interval (jitrestrict_args ts ep) = Return [in_array (in_interval ts ep)].
Proof.
  intros ts ep Hts Hep. unfold run. apply total_of_partial_eq.
  - intros fuel. exact (k_jitin_interval_computes_model ts ep fuel Hts Hep).
  - apply k_jitin_interval_terminates. unfold jitrestrict_args, Pre_jitin_interval.
    do 6 eexists. split; [reflexivity|].
    rewrite !zlen_tcells, zlen_firsts, zlen_seconds. reflexivity.
Qed.

(* non-vacuity: on a concrete input the fuel is found by computation, and the value is the model's *)
Example k_jitin_interval_total_ex :
  exists fuel, run fuel k_jitin_interval (jitrestrict_args [0; 5; 9; 12] [(4, 6); (8, 20)])
               = Return [in_array (in_interval [0; 5; 9; 12] [(4, 6); (8, 20)])].
Proof. exists 20%nat. vm_compute. reflexivity. Qed.

Print Assumptions k_jitin_interval_terminates.
Print Assumptions k_jitin_interval_total.
