(* Termination of the translated jitintersect on every input of its safety precondition [Pre_jitintersect]:
   some fuel makes the checked interpreter return (no error, no fuel exhaustion).
   Jit/Total.v used as a termination-only calculus: the safety annotation [ann_jitintersect] of
   Inv/Jitintersect.v is reused VERBATIM, the only new input is one variant per while loop. *)
From Coq Require Import ZArith QArith String List Bool Lia.
From Verif Require Import Jit.Lang Jit.Interp Jit.Safety Jit.Tactics Jit.ArrayFacts Jit.Total Gen.Kernels.
From Verif Require Import Inv.Jitintersect.
Import ListNotations.
Open Scope Z_scope.
Local Open Scope string_scope.

Definition vnt_term (l : nat) (st : store) : Z :=
  match l with
  | 0%nat => (getZ st "m" - getZ st "i") + (getZ st "n" - getZ st "j")
  | 1%nat => getZ st "n" - getZ st "j"
  | _ => 0
  end.

Theorem k_jitintersect_returns : forall args, Pre_jitintersect args ->
  exists fuel rs, run fuel k_jitintersect args = Return rs.
Proof.
  intros args (d1 & d2 & d3 & d4 & s1 & e1 & s2 & e2 & -> & H1 & H2).
  unfold run.
  match goal with |- exists fuel rs, Interp.run _ fuel _ ?a = _ =>
    destruct (run_total all_kernels ann_jitintersect vnt_term k_jitintersect (fun _ => True) a) as [fuel [rs [E _]]];
      [| exists fuel, rs; exact E]
  end.
  twp_compute k_jitintersect ann_jitintersect vnt_term.
  vc k_jitintersect ann_jitintersect.
Qed.

Corollary k_jitintersect_terminates : forall args, Pre_jitintersect args ->
  exists fuel, run fuel k_jitintersect args <> OutOfFuel.
Proof.
  intros args HP. destruct (k_jitintersect_returns args HP) as [fuel [rs E]]. exists fuel. rewrite E. discriminate.
Qed.

Print Assumptions k_jitintersect_returns.
