(* C15: _overlap_split.  The number of rows of the output buffer is a float computation:
   N = ceil(sum(end - start) / (interval_size * (1 - overlap))), the buffer has N + 1 rows and the
   kernel writes one row per window.  Since the repair of the library the inner loop is
   `while t + interval_size < end[k] and n <= N`, so that a row is written only under the guard
   n <= N, i.e. inside the N + 1 rows of the buffer (and never when N + 1 <= 0: then the buffer is
   empty and 0 <= n <= N is impossible).  Safety is therefore an integer argument on the guard alone:
   no property of the float value N is used (before the repair the bound needed the exact-rational
   argument n * step <= time scanned so far, under 0 < interval_size and 0 <= overlap < 1 and
   start <= end).  It holds under [Pre__overlap_split_any] (arrays of equal length, any
   interval_size, any overlap); [Pre__overlap_split], the contract of the callers, is kept unchanged
   and implies it. *)
From Coq Require Import ZArith QArith String List Bool Lia.
From Verif Require Import Jit.Lang Jit.Interp Jit.Safety Jit.Tactics Jit.ArrayFacts Jit.FloatFacts
  Gen.Kernels.
Import ListNotations.
Open Scope Z_scope.
Local Open Scope string_scope.

Definition fq (q : Q) : sval := VFlt (Some q).
Definition fqs (l : list Q) : list sval := map fq l.

Lemma zlen_fqs : forall l, zlen (fqs l) = zlen l.
Proof. intros; unfold fqs; apply zlen_map. Qed.

(* the guard n <= N puts row n inside a buffer of max 0 (N + 1) rows, whatever the value N = int(x) *)
Lemma guard_row : forall (n : Z) (x : sval),
  eval_cmp Le (VInt n) (eval_unop ToInt x) = true ->
  n < Z.max 0 (to_int (eval_binop Add (eval_unop ToInt x) (VInt 1))).
Proof.
  intros n x H. change (eval_unop ToInt x) with (VInt (to_int x)) in *.
  change (eval_cmp Le (VInt n) (VInt (to_int x))) with (Z.leb n (to_int x)) in H.
  change (to_int (eval_binop Add (VInt (to_int x)) (VInt 1))) with (to_int x + 1).
  apply Z.leb_le in H. generalize dependent (to_int x). intros; lia.
Qed.

Definition Pre__overlap_split (args : list value) : Prop :=
  exists ss es isz ov,
    args = [Ar (A1 DFlt (fqs ss)); Ar (A1 DFlt (fqs es)); Sc (fq isz); Sc (fq ov)]
    /\ length ss = length es /\ (0 < isz)%Q /\ (0 <= ov)%Q /\ (ov < 1)%Q
    /\ Forall2 Qle ss es.

(* what safety and termination need since the repair: start and end of equal length *)
Definition Pre__overlap_split_any (args : list value) : Prop :=
  exists ss es isz ov,
    args = [Ar (A1 DFlt (fqs ss)); Ar (A1 DFlt (fqs es)); Sc (fq isz); Sc (fq ov)]
    /\ length ss = length es.

Lemma Pre__overlap_split_weaken : forall args, Pre__overlap_split args -> Pre__overlap_split_any args.
Proof. intros args (ss & es & isz & ov & E & Hlen & _). exists ss, es, isz, ov. split; assumption. Qed.

Definition ann__overlap_split (ss : list Q) (l : nat) : annot :=
  match l with
  | 0%nat => ALoop [("k", KInt); ("n", KInt); ("t", KAny); ("slices", KArr)]
                   (fun st0 st => 0 <= getZ st "k" <= zlen ss /\ 0 <= getZ st "n")
  | 1%nat => ALoop [("n", KInt); ("t", KFlt); ("slices", KArr)]
                   (fun st0 st => 0 <= getZ st "n")
  | _ => ANone
  end.

Theorem k__overlap_split_safe_any : forall args, Pre__overlap_split_any args ->
  forall fuel, safe_outcome (run fuel k__overlap_split args).
Proof.
  intros args (ss & es & isz & ov & -> & Hlen) fuel.
  unfold run. apply run_safe with (ann := ann__overlap_split ss) (R := fun _ : list value => True).
  unfold fq.
  wp_compute k__overlap_split ann__overlap_split.
  vc k__overlap_split ann__overlap_split.
  all: rewrite ?zlen_fqs in *.
  all: try solve [unfold zlen in *; lia].
  (* the two stores slices[n, 0], slices[n, 1]: row n exists, by the guard n <= N *)
  all: apply guard_row; assumption.
Qed.

Theorem k__overlap_split_safe : forall args, Pre__overlap_split args ->
  forall fuel, safe_outcome (run fuel k__overlap_split args).
Proof. intros args H. apply k__overlap_split_safe_any, Pre__overlap_split_weaken, H. Qed.
