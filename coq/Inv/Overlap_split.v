(* C15: _overlap_split.  The number of rows of the output buffer is a float computation:
   N = ceil(sum(end - start) / (interval_size * (1 - overlap))), and the kernel writes one row per
   window.  Safety therefore needs a real-arithmetic argument (on the idealised floats = exact
   rationals): n windows written so far cover n * step <= (time scanned so far), and a new window is
   only written when a whole interval_size still fits before the end of the current epoch. *)
From Coq Require Import ZArith QArith Qround Lqa String List Bool Lia.
From Verif Require Import Jit.Lang Jit.Interp Jit.Safety Jit.Tactics Jit.ArrayFacts Jit.FloatFacts
  Gen.Kernels.
Import ListNotations.
Open Scope Z_scope.
Local Open Scope string_scope.

Definition fq (q : Q) : sval := VFlt (Some q).
Definition qnth (l : list Q) (k : Z) : Q := nth (Z.to_nat k) l 0%Q.
Fixpoint qsum (l : list Q) : Q := match l with [] => 0%Q | x :: r => (x + qsum r)%Q end.
Definition lens (ss es : list Q) : list Q := map (fun p => (snd p - fst p)%Q) (combine ss es).
Definition qpsum (ss es : list Q) (k : Z) : Q := qsum (firstn (Z.to_nat k) (lens ss es)).

Definition fqs (l : list Q) : list sval := map fq l.

Lemma zlen_fqs : forall l, zlen (fqs l) = zlen l.
Proof. intros; unfold fqs; apply zlen_map. Qed.

Lemma nth_fqs : forall l k, 0 <= k < zlen l -> to_flt (nthZ (fqs l) k) = Some (qnth l k).
Proof.
  intros l k H. unfold nthZ, fqs, qnth.
  rewrite (nth_indep _ dflt (fq 0%Q)) by (rewrite map_length; unfold zlen in H; lia).
  rewrite map_nth. reflexivity.
Qed.

(* the model's sum of end - start is an exact rational equal to the sum of the lengths *)
Lemma sum_flt_acc : forall (es ss : list Q) (a : Q), length ss = length es ->
  exists q, fold_left (fun acc v => fadd acc (to_flt v))
                      (map2 (fun x y : sval => VFlt (fsub (to_flt x) (to_flt y))) (fqs es) (fqs ss))
                      (Some a) = Some q
            /\ (q == a + qsum (lens ss es))%Q.
Proof.
  induction es as [|e er IH]; intros ss a H; destruct ss as [|s sr]; simpl in H; try discriminate.
  - exists a. split; [reflexivity|]. unfold lens. simpl. ring.
  - injection H as H. unfold fqs, map2. simpl map. fold (@map2 sval sval sval).
    cbn [fold_left to_flt fq fsub fadd f2 qsome].
    specialize (IH sr (Qred (a + Qred (e - s))) H). destruct IH as [q [E1 E2]].
    exists q. split.
    + exact E1.
    + rewrite E2. rewrite Qred_correct. rewrite Qred_correct.
      unfold lens. cbn [combine map qsum fst snd]. ring.
Qed.

Lemma sum_flt_lens : forall es ss, length ss = length es ->
  exists q, sum_flt (map2 (fun x y : sval => VFlt (fsub (to_flt x) (to_flt y))) (fqs es) (fqs ss)) = Some q
            /\ (q == qsum (lens ss es))%Q.
Proof.
  intros es ss H. unfold sum_flt. destruct (sum_flt_acc es ss 0 H) as [q [E1 E2]].
  exists q. split; [exact E1|]. rewrite E2. ring.
Qed.

(* prefix sums of the lengths *)
Lemma lens_length : forall ss es, length ss = length es -> length (lens ss es) = length ss.
Proof. intros. unfold lens. rewrite map_length, combine_length. lia. Qed.

Lemma lens_nth : forall ss es k, length ss = length es -> (k < length ss)%nat ->
  nth k (lens ss es) 0%Q = (nth k es 0 - nth k ss 0)%Q.
Proof.
  intros ss es k H Hk. unfold lens.
  set (g := fun p : Q * Q => (snd p - fst p)%Q).
  rewrite (nth_indep _ 0%Q (g (0%Q, 0%Q))) by (rewrite map_length, combine_length; lia).
  rewrite map_nth, combine_nth by assumption. reflexivity.
Qed.

Lemma qsum_app : forall a b, (qsum (a ++ b)%list == qsum a + qsum b)%Q.
Proof. induction a as [|x r IH]; intros b; simpl; [ring|]. rewrite IH. ring. Qed.

Lemma qpsum_0 : forall ss es, (qpsum ss es 0 == 0)%Q.
Proof. intros. unfold qpsum. simpl. reflexivity. Qed.

Lemma firstn_snoc_q : forall (l : list Q) n, (n < length l)%nat ->
  firstn (S n) l = (firstn n l ++ [nth n l 0%Q])%list.
Proof.
  induction l as [|x r IH]; intros n H; simpl in H; [lia|].
  destruct n; [reflexivity|]. simpl. f_equal. apply IH. lia.
Qed.

Lemma qpsum_succ : forall ss es k, length ss = length es -> 0 <= k < zlen ss ->
  (qpsum ss es (k + 1) == qpsum ss es k + (qnth es k - qnth ss k))%Q.
Proof.
  intros ss es k H Hk. unfold qpsum, qnth.
  replace (Z.to_nat (k + 1)) with (S (Z.to_nat k)) by lia.
  rewrite firstn_snoc_q by (rewrite lens_length by assumption; unfold zlen in Hk; lia).
  rewrite qsum_app. simpl. rewrite lens_nth by (try assumption; unfold zlen in Hk; lia). ring.
Qed.

Lemma qsum_nonneg : forall l, Forall (fun x => (0 <= x)%Q) l -> (0 <= qsum l)%Q.
Proof. induction 1; simpl; [lra|lra]. Qed.

Lemma lens_nonneg : forall ss es, Forall2 Qle ss es -> Forall (fun x => (0 <= x)%Q) (lens ss es).
Proof.
  induction 1; unfold lens; simpl; constructor; [simpl; lra | exact IHForall2].
Qed.

Lemma qpsum_le_total : forall ss es k, Forall2 Qle ss es -> (qpsum ss es k <= qsum (lens ss es))%Q.
Proof.
  intros ss es k H. unfold qpsum.
  rewrite <- (firstn_skipn (Z.to_nat k) (lens ss es)) at 2. rewrite qsum_app.
  assert (0 <= qsum (skipn (Z.to_nat k) (lens ss es)))%Q.
  { apply qsum_nonneg. pose proof (lens_nonneg _ _ H) as F. apply Forall_forall. intros x Hx.
    eapply Forall_forall in F; [exact F|]. rewrite <- (firstn_skipn (Z.to_nat k)).
    apply in_or_app; right; exact Hx. }
  lra.
Qed.

Lemma qnth_le : forall ss es k, Forall2 Qle ss es -> 0 <= k < zlen ss -> (qnth ss k <= qnth es k)%Q.
Proof.
  intros ss es k H Hk.
  assert (Hn : (Z.to_nat k < length ss)%nat) by (unfold zlen in Hk; lia).
  unfold qnth. revert Hn. generalize (Z.to_nat k). clear Hk.
  induction H; intros n Hn; simpl in Hn; [lia|]. destruct n; simpl; [assumption|]. apply IHForall2. lia.
Qed.

(* the buffer bound: if n steps fit strictly inside the total length, row n exists *)
Lemma rows_bound : forall (tot stp : Q) (n : Z) (q : Q), (0 < stp)%Q -> (q == tot)%Q ->
  (inject_Z n * stp < tot)%Q -> forall stp', (stp' == stp)%Q ->
  n < Z.max 0 (to_int (eval_binop Add
                         (eval_unop ToInt (eval_unop Ceil (VFlt (fdiv (Some q) (Some stp')))))
                         (VInt 1))).
Proof.
  intros tot stp n q Hs Hq Hn stp' Hs'.
  unfold fdiv, f2. assert (Z0 : Qeq_bool stp' 0 = false).
  { destruct (Qeq_bool stp' 0) eqn:E; [|reflexivity]. apply Qeq_bool_eq in E. lra. }
  rewrite Z0. unfold qsome, eval_unop. cbn [to_int eval_binop is_flt orb binop_int]. rewrite qtrunc_qz.
  assert (inject_Z n < inject_Z (Qceiling (Qred (q / stp'))))%Q.
  { eapply Qlt_le_trans; [|apply Qle_ceiling]. rewrite Qred_correct.
    apply Qlt_shift_div_l; [lra|]. rewrite Hq, Hs'. exact Hn. }
  rewrite <- Zlt_Qlt in H. lia.
Qed.

Lemma cond_lt : forall a b c : Q, cmp_flt Lt (fadd (Some a) (Some b)) (Some c) = true -> (a + b < c)%Q.
Proof.
  intros a b c H. unfold fadd, f2, qsome, cmp_flt, cmp_q in H. apply negb_true_iff in H.
  assert (~ (c <= Qred (a + b))%Q) by (intro C; apply Qle_bool_iff in C; rewrite C in H; discriminate H).
  rewrite Qred_correct in H0. apply Qnot_le_lt. exact H0.
Qed.

Lemma step_pos : forall isz ov : Q, (0 < isz)%Q -> (ov < 1)%Q -> (0 < (1 - ov) * isz)%Q.
Proof. intros. apply Qmult_lt_0_compat; lra. Qed.
Lemma step_le : forall isz ov : Q, (0 < isz)%Q -> (0 <= ov)%Q -> ((1 - ov) * isz <= isz)%Q.
Proof.
  intros isz ov Hi Ho. assert (0 <= ov * isz)%Q by (apply Qmult_le_0_compat; lra).
  assert ((1 - ov) * isz == isz - ov * isz)%Q by ring. lra.
Qed.
Lemma step_model : forall isz ov : Q, (Qred (Qred (qz 1 - ov) * isz) == (1 - ov) * isz)%Q.
Proof. intros. rewrite Qred_correct. rewrite Qred_correct. unfold qz. simpl inject_Z. ring. Qed.
Lemma step_model' : forall isz ov : Q, (Qred (isz * Qred (qz 1 - ov)) == (1 - ov) * isz)%Q.
Proof. intros. rewrite Qred_correct. rewrite Qred_correct. unfold qz. simpl inject_Z. ring. Qed.

Definition Pre__overlap_split (args : list value) : Prop :=
  exists ss es isz ov,
    args = [Ar (A1 DFlt (fqs ss)); Ar (A1 DFlt (fqs es)); Sc (fq isz); Sc (fq ov)]
    /\ length ss = length es /\ (0 < isz)%Q /\ (0 <= ov)%Q /\ (ov < 1)%Q
    /\ Forall2 Qle ss es.

Definition ann__overlap_split (ss es : list Q) (isz ov : Q) (l : nat) : annot :=
  match l with
  | 0%nat => ALoop [("k", KInt); ("n", KInt); ("t", KAny); ("slices", KArr)]
                   (fun st0 st => 0 <= getZ st "k" <= zlen ss /\ 0 <= getZ st "n"
                                  /\ (inject_Z (getZ st "n") * ((1 - ov) * isz)
                                      <= qpsum ss es (getZ st "k"))%Q)
  | 1%nat => ALoop [("n", KInt); ("t", KFlt); ("slices", KArr)]
                   (fun st0 st => 0 <= getZ st "n"
                                  /\ exists qt, to_flt (getsc st "t") = Some qt
                                     /\ (inject_Z (getZ st "n") * ((1 - ov) * isz)
                                         <= qpsum ss es (getZ st0 "k") + (qt - qnth ss (getZ st0 "k")))%Q
                                     /\ (qt <= qnth es (getZ st0 "k"))%Q)
  | _ => ANone
  end.

Theorem k__overlap_split_safe : forall args, Pre__overlap_split args ->
  forall fuel, safe_outcome (run fuel k__overlap_split args).
Proof.
  intros args (ss & es & isz & ov & -> & Hlen & Hisz & Hov0 & Hov1 & Hle) fuel.
  unfold run. apply run_safe with (ann := ann__overlap_split ss es isz ov) (R := fun _ : list value => True).
  unfold fq.
  wp_compute k__overlap_split ann__overlap_split.
  vc k__overlap_split ann__overlap_split.
  all: rewrite ?zlen_fqs in *.
  all: try solve [unfold zlen in *; lia].
  all: pose proof (step_pos isz ov Hisz Hov1) as Sp; pose proof (step_le isz ov Hisz Hov0) as Sl.
  all: repeat match goal with
         | Hx : exists qt : Q, _ |- _ =>
             let qt := fresh "qt" in let E := fresh "E" in let I1 := fresh "I" in let I2 := fresh "I" in
             destruct Hx as (qt & E & I1 & I2); try subst
         end.
  all: repeat match goal with
         | Hx : context [to_flt (nthZ (fqs ?l) ?k)] |- _ =>
             rewrite (nth_fqs l k) in Hx by (unfold zlen in *; lia)
         | Hx : cmp_flt Lt (fadd (Some _) (Some _)) (Some _) = true |- _ => apply cond_lt in Hx
         end.
  (* 1. entry of the outer loop *)
  1: { rewrite qpsum_0. set (S := ((1 - ov) * isz)%Q). assert (Ez : (inject_Z 0 == 0)%Q) by reflexivity.
       rewrite Ez. lra. }
  (* 2. entry of the inner loop: t = start[k] *)
  1: { rewrite nth_fqs by (unfold zlen in *; lia). eexists. split; [reflexivity|]. split.
       - set (S := ((1 - ov) * isz)%Q) in *. set (A := (inject_Z z0 * S)%Q) in *. lra.
       - apply qnth_le; [assumption | unfold zlen in *; lia]. }
  (* 3, 4. the two stores: row n exists *)
  1,2: destruct (sum_flt_lens es ss Hlen) as (qs & Es & Eq); rewrite Es;
       change (binop_flt Div (Some qs) ?b) with (VFlt (fdiv (Some qs) b));
       unfold fmul, fsub, f2, qsome;
       apply rows_bound with (tot := qsum (lens ss es)) (stp := ((1 - ov) * isz)%Q);
       [ exact Sp | exact Eq | | apply step_model' ];
       pose proof (qpsum_succ ss es z Hlen ltac:(unfold zlen in *; lia)) as Q1;
       pose proof (qpsum_le_total ss es (z + 1) Hle) as Q2;
       set (S := ((1 - ov) * isz)%Q) in *; set (A := (inject_Z z1 * S)%Q) in *; lra.
  (* 5. one more window: t += step, n += 1 *)
  1: { unfold fmul, fsub, fadd, f2, qsome. eexists. split; [reflexivity|].
       pose proof (step_model isz ov) as Em.
       set (S' := Qred (Qred (qz 1 - ov) * isz)) in *.
       assert (E1 : (inject_Z (z1 + 1) * ((1 - ov) * isz) == inject_Z z1 * ((1 - ov) * isz) + (1 - ov) * isz)%Q)
         by (rewrite inject_Z_plus; ring).
       split.
       - rewrite E1, Qred_correct. set (S := ((1 - ov) * isz)%Q) in *.
         set (A := (inject_Z z1 * S)%Q) in *. lra.
       - rewrite Qred_correct. set (S := ((1 - ov) * isz)%Q) in *. lra. }
  (* 6. next epoch *)
  1: { rewrite qpsum_succ by (try assumption; unfold zlen in *; lia).
       set (S := ((1 - ov) * isz)%Q) in *. set (A := (inject_Z z1 * S)%Q) in *. lra. }
Qed.
