(* TOTAL correctness of the translated jitcount: for every time array ts, every interval list ep with
   start <= end and every bin size B > 0 ticks there is a fuel with which the kernel text (including
   its call of jitrestrict_with_count) runs to completion, and it returns the two arrays (bin centres,
   counts) of the model [count_binned ts ep B].

   Combination ([Jit.Total.total_of_partial_eq]) of
     - the partial refinement theorem [k_jitcount_computes_model] of Inv/Jitcount_func.v,
     - the termination theorem [k_jitcount_terminates] of Inv/Jitcount_term.v,
     - [jitcount_args_pre]: the encoded arguments satisfy the safety/termination precondition
       [Pre_jitcount] (starts and ends of equal length, bin size a float > 0).  The precondition needs
       0 < B only, which is a hypothesis of the partial theorem already; it does not need start <= end.
   Hypotheses: exactly those of the partial theorem. *)
From Coq Require Import ZArith QArith Qround String List Bool Lia.
From Verif Require Import Base.Prelude Model.Restrict Model.Count Proofs.BaseLemmas Proofs.RestrictProofs
  Proofs.CountProofs.
From Verif Require Import Jit.Lang Jit.Interp Jit.Safety Jit.Tactics Jit.ArrayFacts Jit.FloatFacts Jit.Total Gen.Kernels.
From Verif Require Import Inv.Jitfix_iset_func Inv.Jitrestrict_func.
From Verif Require Import Inv.Jitcount Inv.Jitcount_func Inv.Jitcount_term.
Import ListNotations.
Open Scope Z_scope.

Lemma qtick_pos : forall b, 0 < b -> (0 < qtick b)%Q.
Proof. intros b Hb. rewrite qtick_eq. unfold Qlt. simpl. lia. Qed.

Lemma jitcount_args_pre : forall ts ep B, 0 < B -> Pre_jitcount (jitcount_args ts ep B).
Proof.
  intros ts ep B HB. unfold jitcount_args, Pre_jitcount. do 5 eexists. split; [reflexivity|].
  split; [rewrite !zlen_qcells, zlen_firsts, zlen_seconds; reflexivity | apply qtick_pos; exact HB].
Qed.

Theorem k_jitcount_total : forall ts ep B,
  Forall (fun I => fst I <= snd I) ep -> 0 < B ->
  exists fuel, run fuel k_jitcount (jitcount_args ts ep B) = Return (count_result (count_binned ts ep B)).
Proof.
  intros ts ep B Hep HB. unfold run. apply total_of_partial_eq.
  - intros fuel. exact (k_jitcount_computes_model ts ep B fuel Hep HB).
  - apply k_jitcount_terminates. apply jitcount_args_pre. exact HB.
Qed.

(* with the specification theorem of the model (C05): sorted ts, canonical ep *)
Corollary k_jitcount_spec_total : forall ts ep b, sortedZ ts -> canonical ep -> 0 < b ->
  exists fuel, run fuel k_jitcount (jitcount_args ts ep b) = Return (count_result (count_spec ts ep b)).
Proof.
  intros ts ep b Hs Hc Hb. unfold run. apply total_of_partial_eq.
  - intros fuel. exact (k_jitcount_spec ts ep b fuel Hs Hc Hb).
  - apply k_jitcount_terminates. apply jitcount_args_pre. exact Hb.
Qed.

(* non-vacuity: on concrete inputs (an even and an odd bin size) the fuel is found by computation, and the
   value is the model's *)
Example k_jitcount_total_ex :
  exists fuel, run fuel k_jitcount (jitcount_args [0; 5; 9; 12] [(4, 6); (8, 20)] 4)
               = Return (count_result (count_binned [0; 5; 9; 12] [(4, 6); (8, 20)] 4)).
Proof. exists 200%nat. vm_compute. reflexivity. Qed.
Example k_jitcount_total_ex_odd :
  exists fuel, run fuel k_jitcount (jitcount_args [0; 5; 9; 12] [(4, 10)] 3)
               = Return (count_result (count_binned [0; 5; 9; 12] [(4, 10)] 3)).
Proof. exists 200%nat. vm_compute. reflexivity. Qed.

Print Assumptions k_jitcount_total.
Print Assumptions k_jitcount_spec_total.
