(* C12 — a TsGroup is a consistent keyed collection on one time support.
   Statements only; proofs in Proofs/GroupProofs.v; model in Model/Group.v.
   Vocabulary (Proofs/GroupProofs.v): incr = strictly increasing; WFg g = keys strictly increasing,
   support canonical, members sorted with canonical supports; Rg g = every member lies inside the
   group's support and carries it (or the empty support when it has no sample); restrict_entry s e =
   the entry e with its member restricted to s; supplied data sup es = es are the supplied members,
   keys converted to integers, in increasing key order, before any restriction; farl x l = x is
   farther than 1 us from every endpoint of the sets of l (only needed by the pre-repair statements).
   Where the statement's clause is false of the model because the library behaves so, an explicit
   _refuted witness stands next to the conditional theorem. *)
From Verif Require Import Base.Prelude Model.Restrict Model.Iset Model.Count Model.Slice Model.ValueFrom Model.Group
  Proofs.C02Top Proofs.GroupProofs.
From Coq Require Import Permutation.

(* ---- 1. keys: the integer values of the supplied keys, in increasing order ---- *)
Theorem C12_keys : forall data sup bypass ht g,
  mk_group data sup bypass ht = Some g ->
  exists vals, map key_value (map fst data) = map Some vals
               /\ NoDup vals /\ Permutation (g_keys g) vals /\ incr (g_keys g).
Proof. exact group_keys. Qed.
Print Assumptions C12_keys.

Theorem C12_keys_not_integer_rejected : forall data sup bypass ht,
  (exists k, In k (map fst data) /\ key_value k = None) -> mk_group data sup bypass ht = None.
Proof. exact group_keys_rejected. Qed.
Print Assumptions C12_keys_not_integer_rejected.

Theorem C12_keys_equal_value_rejected : forall data sup bypass ht vals,
  map key_value (map fst data) = map Some vals -> ~ NoDup vals -> mk_group data sup bypass ht = None.
Proof. exact group_keys_duplicate. Qed.
Print Assumptions C12_keys_equal_value_rejected.

Theorem C12_list_keys : forall l sup bypass ht g,
  mk_group_list l sup bypass ht = Some g ->
  g_keys g = map Z.of_nat (seq 0 (length l)) /\ map e_tag (g_entries g) = map fst l.
Proof. exact group_list_keys. Qed.
Print Assumptions C12_list_keys.

(* ---- 2. support: the one supplied, else the union of the members' supports ---- *)
Theorem C12_support_given : forall data s bypass ht g,
  mk_group data (Some s) bypass ht = Some g -> g_sup g = s.
Proof. exact group_support_given. Qed.
Print Assumptions C12_support_given.

(* the statement that was provable before the repair of _union_intervals (kept; C12_support_union_exact
   below is the clause as it reads) *)
Theorem C12_support_union : forall data bypass ht g,
  mk_group data None bypass ht = Some g ->
  Forall (fun d => raw_wf None (snd (snd d))) data ->
  exists es, supplied data None es
    /\ g_sup g = union_supports (map (fun e => m_sup (e_mem e)) es)
    /\ g_sup g <> [] /\ canonical (g_sup g)
    /\ (forall x, farl x (map (fun e => m_sup (e_mem e)) es) ->
                  mem x (g_sup g) = existsb (fun e => mem x (m_sup (e_mem e))) es)
    /\ ((3 <= length es)%nat -> forall x, mem x (g_sup g) = existsb (fun e => mem x (m_sup (e_mem e))) es).
Proof. exact group_support_union. Qed.
Print Assumptions C12_support_union.

(* EXACT: at every instant, for any number of members *)
Theorem C12_support_union_exact : forall data bypass ht g,
  mk_group data None bypass ht = Some g ->
  Forall (fun d => raw_wf None (snd (snd d))) data ->
  exists es, supplied data None es
    /\ g_sup g <> [] /\ canonical (g_sup g)
    /\ forall x, mem x (g_sup g) = existsb (fun e => mem x (m_sup (e_mem e))) es.
Proof. exact group_support_union_exact. Qed.
Print Assumptions C12_support_union_exact.

(* _union_intervals as it was (union_supports_orig: the pairwise kernel for exactly two members, which
   keeps touching supports apart, after which the constructor trims 1 us): the supports [0, 4 ms] and
   [4 ms, 8 ms] gave a group support without the instant 3.9995 ms, and a sample there was dropped from
   the first member.  Repaired in /repo ("TsGroup of exactly two members used the pairwise union kernel"). *)
Theorem C12_support_union_orig_refuted :
  exists a b x, canonical a /\ canonical b /\ mem x a = true
    /\ mem x (union_supports_orig [a; b]) = false /\ mem x (union_supports [a; b]) = true
    /\ m_t (ts_restrict ([x], a) (union_supports_orig [a; b])) = []
    /\ m_t (ts_restrict ([x], a) (union_supports [a; b])) = [x].
Proof. exact union_supports_orig_refuted. Qed.
Print Assumptions C12_support_union_orig_refuted.

Theorem C12_support_union_orig_elsewhere : forall l, length l <> 2%nat -> union_supports_orig l = union_supports l.
Proof. exact union_supports_orig_other. Qed.
Print Assumptions C12_support_union_orig_elsewhere.

(* ---- 3. members restricted to the support, unless the caller opts out ---- *)
Theorem C12_members : forall data sup bypass ht g,
  mk_group data sup bypass ht = Some g ->
  exists es, supplied data sup es /\ chosen_support sup es = Some (g_sup g)
    /\ g_entries g = if bypass then es else map (restrict_entry (g_sup g)) es.
Proof. exact group_members. Qed.
Print Assumptions C12_members.

Theorem C12_members_restricted : forall data sup ht g,
  mk_group data sup false ht = Some g ->
  Forall (fun d => raw_wf sup (snd (snd d))) data ->
  match sup with Some s => canonical s | None => True end ->
  exists es, supplied data sup es
    /\ g_entries g = map (restrict_entry (g_sup g)) es
    /\ Forall (fun e => m_t (e_mem (restrict_entry (g_sup g) e)) = filter (fun x => mem x (g_sup g)) (m_t (e_mem e))
                        /\ within (g_sup g) (e_mem (restrict_entry (g_sup g) e))) es.
Proof. exact group_members_restricted. Qed.
Print Assumptions C12_members_restricted.

Theorem C12_construction_invariants : forall data sup bypass ht g,
  mk_group data sup bypass ht = Some g ->
  Forall (fun d => raw_wf sup (snd (snd d))) data ->
  match sup with Some s => canonical s | None => True end ->
  WFg g /\ (bypass = false -> Rg g).
Proof. exact mk_group_invariants. Qed.
Print Assumptions C12_construction_invariants.

(* ---- 4. rate = len / total support duration (a rational: numerator, denominator in ticks) ---- *)
Theorem C12_rate : forall g e,
  canonical (g_sup g) -> Rg g -> In e (g_entries g) -> m_t (e_mem e) <> [] ->
  0 < tot_length (g_sup g)
  /\ rate (e_mem e) = Some (length (m_t (e_mem e)), tot_length (g_sup g)).
Proof. exact group_rate. Qed.
Print Assumptions C12_rate.

(* the rate clause carries no exemption in the statement, but it is FALSE of a group whose caller opted
   out of the restriction with members that do not carry the group's support (the rate is the
   member's own: len / duration of the member's support): member [0; 1 us; 2 us] on its own support
   [0, 2 us] in a group on [0, 10 us] has rate 3 / 2 us, not 3 / 10 us.  Reported by the harness as a
   known finding (part = rate, member_support_is_group_support = false). *)
Theorem C12_rate_optout_refuted :
  exists data s g e, mk_group data (Some s) true false = Some g /\ canonical s
    /\ Forall (fun d => raw_wf (Some s) (snd (snd d))) data
    /\ In e (g_entries g) /\ m_t (e_mem e) <> []
    /\ rate (e_mem e) = Some (3%nat, 2000)
    /\ rate (e_mem e) <> Some (length (m_t (e_mem e)), tot_length (g_sup g)).
Proof.
  exists [(RInt 0, (0, RObj ([0; 1000; 2000], [(0, 2000)])))], [(0, 10000)].
  eexists. eexists. split; [vm_compute; reflexivity|].
  split; [simpl; lia|].
  split; [repeat constructor; simpl; lia|].
  split; [left; reflexivity|]. split; [discriminate|]. split; [vm_compute; reflexivity|vm_compute; discriminate].
Qed.
Print Assumptions C12_rate_optout_refuted.

(* ---- 5. selection preserves each member under its key ---- *)
Theorem C12_select_keys : forall g keys g',
  WFg g -> select_keys g keys = Some g' ->
  WFg g' /\ Rg g' /\ g_sup g' = g_sup g /\ g_hastag g' = g_hastag g
  /\ NoDup keys /\ (forall k, In k keys -> In k (g_keys g))
  /\ (forall e', In e' (g_entries g') <->
                 exists e, In e (g_entries g) /\ In (e_key e) keys /\ e' = restrict_entry (g_sup g) e).
Proof. exact select_keys_spec. Qed.
Print Assumptions C12_select_keys.

Theorem C12_select_preserves : forall g keys g',
  WFg g -> Rg g -> select_keys g keys = Some g' ->
  incr (g_keys g') /\ g_sup g' = g_sup g
  /\ (forall e, In e (g_entries g') <-> In e (g_entries g) /\ In (e_key e) keys).
Proof. exact select_keys_preserves. Qed.
Print Assumptions C12_select_preserves.

Theorem C12_select_total : forall g keys,
  NoDup keys -> (forall k, In k keys -> In k (g_keys g)) -> exists g', select_keys g keys = Some g'.
Proof. exact select_keys_total. Qed.
Print Assumptions C12_select_total.

(* without Rg (a group whose caller opted out of the restriction, with a sample outside the group's
   support) selection does NOT preserve the member: it is restricted again.  Member [0; 5 us] in a group
   on [1 us, 9 us], built with the opt-out, comes back from g[[0]] as [5 us].  Reported by the harness as
   a known finding (bypass_group_member_outside_support = true). *)
Theorem C12_select_optout_refuted :
  exists data s g g', mk_group data (Some s) true false = Some g /\ WFg g
    /\ select_keys g [0] = Some g'
    /\ map (fun e => m_t (e_mem e)) (g_entries g) = [[0; 5000]]
    /\ map (fun e => m_t (e_mem e)) (g_entries g') = [[5000]].
Proof.
  exists [(RInt 0, (0, RObj ([0; 5000], [(0, 6000)])))], [(1000, 9000)].
  eexists. eexists. split; [vm_compute; reflexivity|].
  split; [unfold WFg; simpl; repeat split; try lia; repeat constructor; simpl; lia|].
  split; [vm_compute; reflexivity|]. split; reflexivity.
Qed.
Print Assumptions C12_select_optout_refuted.

Theorem C12_select_mask : forall g mask g',
  select_mask g mask = Some g' ->
  length mask = length (g_entries g) /\ select_keys g (mask_keys mask (g_entries g)) = Some g'.
Proof. exact select_mask_spec. Qed.
Print Assumptions C12_select_mask.

Theorem C12_mask_keys : forall mask es k,
  In k (mask_keys mask es) <-> exists i, nth_error mask i = Some true /\ nth_error (map e_key es) i = Some k.
Proof. exact mask_keys_In. Qed.
Print Assumptions C12_mask_keys.

Theorem C12_getby_threshold : forall g thr op g',
  WFg g -> getby_threshold g thr op = Some g' ->
  WFg g' /\ Rg g' /\ g_sup g' = g_sup g
  /\ (forall e', In e' (g_entries g') <->
                 exists e, In e (g_entries g) /\ thr_pred op thr (e_tag e) = true /\ e' = restrict_entry (g_sup g) e).
Proof. exact getby_threshold_spec. Qed.
Print Assumptions C12_getby_threshold.

Theorem C12_getby_category : forall g c g',
  WFg g -> getby_category g c = Some g' ->
  WFg g' /\ Rg g' /\ g_sup g' = g_sup g
  /\ (forall e', In e' (g_entries g') <->
                 exists e, In e (g_entries g) /\ e_tag e = c /\ e' = restrict_entry (g_sup g) e).
Proof. exact getby_category_spec. Qed.
Print Assumptions C12_getby_category.

Theorem C12_getby_intervals : forall g bins i r,
  In (i, r) (getby_intervals g bins) ->
  exists a b, nth_error (bin_pairs bins) i = Some (a, b)
              /\ r = select_pred g (fun x => (a <=? x) && (x <? b))
              /\ existsb (fun e => (a <=? e_tag e) && (e_tag e <? b)) (g_entries g) = true.
Proof. exact getby_intervals_spec. Qed.
Print Assumptions C12_getby_intervals.

Theorem C12_select_pred : forall g p g',
  WFg g -> select_pred g p = Some g' ->
  g_hastag g = true /\ WFg g' /\ Rg g' /\ g_sup g' = g_sup g /\ g_hastag g' = true
  /\ (forall e', In e' (g_entries g') <->
                 exists e, In e (g_entries g) /\ p (e_tag e) = true /\ e' = restrict_entry (g_sup g) e).
Proof. exact select_pred_spec. Qed.
Print Assumptions C12_select_pred.

(* ---- 6. restrict and get ---- *)
Theorem C12_restrict_preserves : forall g ep,
  WFg g -> canonical ep ->
  exists g', g_restrict g ep = Some g'
    /\ WFg g' /\ Rg g' /\ g_sup g' = ep /\ g_hastag g' = g_hastag g
    /\ g_entries g' = map (restrict_entry ep) (g_entries g)
    /\ Forall (fun e => m_t (e_mem (restrict_entry ep e)) = filter (fun x => mem x ep) (m_t (e_mem e))) (g_entries g).
Proof. exact g_restrict_spec. Qed.
Print Assumptions C12_restrict_preserves.

Theorem C12_get_preserves : forall g a b,
  WFg g -> Rg g -> (a <= b \/ g_entries g = []) ->
  exists g', g_get g a b = Some g'
    /\ WFg g' /\ Rg g' /\ g_sup g' = g_sup g /\ g_hastag g' = g_hastag g
    /\ g_entries g' = map_members (fun m => ts_get m a b) (g_entries g)
    /\ Forall (fun e => m_t (ts_get (e_mem e) a b) = filter (fun t => (a <=? t) && (t <=? b)) (m_t (e_mem e))) (g_entries g).
Proof. exact g_get_spec. Qed.
Print Assumptions C12_get_preserves.

(* ---- 7. merge_group ---- *)
Theorem C12_merge : forall gs ri rs im g',
  (2 <= length gs)%nat -> Forall WFg gs -> merge_group gs ri rs im = Some g' ->
  WFg g' /\ Rg g'
  /\ (rs = false -> g_sup g' = g_sup (hd g' gs))
  /\ (rs = true -> g_sup g' = union_supports (map (fun e => m_sup (e_mem e)) (sort_entries (merge_items gs ri))) /\ g_sup g' <> [])
  /\ (forall e', In e' (g_entries g') <-> exists e, In e (merge_items gs ri) /\ e' = restrict_entry (g_sup g') e)
  /\ (ri = true -> g_keys g' = map Z.of_nat (seq 0 (length (flat_map g_entries gs)))).
Proof. exact merge_group_spec. Qed.
Print Assumptions C12_merge.

Theorem C12_merge_preserves : forall gs im g',
  (2 <= length gs)%nat -> Forall WFg gs -> Forall Rg gs ->
  Forall (fun g => g_sup g = g_sup (hd g' gs)) gs ->
  merge_group gs false false im = Some g' ->
  incr (g_keys g') /\ g_sup g' = g_sup (hd g' gs)
  /\ (forall e, In e (g_entries g') <-> exists g, In g gs /\ In e (g_entries g)).
Proof. exact merge_group_preserves. Qed.
Print Assumptions C12_merge_preserves.

(* EXACT, support kept: no hypothesis on the supports - merge_group (as repaired) accepts only groups
   that carry the same support *)
Theorem C12_merge_preserves_exact : forall gs im g',
  (2 <= length gs)%nat -> Forall WFg gs -> Forall Rg gs ->
  merge_group gs false false im = Some g' ->
  incr (g_keys g') /\ Forall (fun g => g_sup g = g_sup g') gs
  /\ (forall e, In e (g_entries g') <-> exists g, In g gs /\ In e (g_entries g)).
Proof. exact merge_group_preserves_exact. Qed.
Print Assumptions C12_merge_preserves_exact.

(* EXACT, support reset: the new support is the union of the members' supports at every instant, and
   every member keeps all its timestamps under its key (renumbered when the index is reset) *)
Theorem C12_merge_reset_preserves : forall gs ri im g',
  (2 <= length gs)%nat -> Forall WFg gs -> Forall Rg gs ->
  merge_group gs ri true im = Some g' ->
  (forall x, mem x (g_sup g') = existsb (fun e => mem x (m_sup (e_mem e))) (merge_items gs ri))
  /\ (forall e', In e' (g_entries g') <->
                 exists e, In e (merge_items gs ri) /\ e' = restrict_entry (g_sup g') e)
  /\ (forall e, In e (merge_items gs ri) -> m_t (e_mem (restrict_entry (g_sup g') e)) = m_t (e_mem e)).
Proof. exact merge_group_reset_preserves. Qed.
Print Assumptions C12_merge_reset_preserves.

(* merge_group before its second repair (merge_group_lax): an empty support compared equal to a
   one-interval support (np.allclose broadcast), and the first group's empty support emptied every
   member.  Repaired in /repo ("merge_group accepted an empty time support against a one-interval support"). *)
Theorem C12_merge_lax_refuted :
  exists g1 g2, WFg g1 /\ Rg g1 /\ WFg g2 /\ Rg g2 /\ g_sup g1 <> g_sup g2
    /\ (exists e, In e (g_entries g2) /\ m_t (e_mem e) <> [])
    /\ (exists g', merge_group_lax [g1; g2] false false true = Some g'
                   /\ g_keys g' = [0; 1] /\ Forall (fun e => m_t (e_mem e) = []) (g_entries g'))
    /\ merge_group [g1; g2] false false true = None.
Proof. exact merge_lax_refuted. Qed.
Print Assumptions C12_merge_lax_refuted.

Theorem C12_merge_defined : forall g1 g2 im,
  WFg g1 -> WFg g2 -> (im = true \/ g_hastag g1 = g_hastag g2) -> g_sup g1 = g_sup g2 ->
  NoDup (g_keys g1 ++ g_keys g2) ->
  exists g', merge_group [g1; g2] false false im = Some g'.
Proof. exact merge_two_defined. Qed.
Print Assumptions C12_merge_defined.

(* merge_group before its first repair (merge_group_orig): with the metadata kept (the default)
   and the index not reset it FAILED when the concatenated keys were not already increasing: keys {5}
   merged with keys {0}, same support, disjoint keys -> ValueError; the other order worked.  Repaired
   in /repo ("merge_group failed on interleaved keys"); the repaired model accepts the witness, and
   everything the original accepted is returned unchanged. *)
Theorem C12_merge_orig_total_refuted :
  exists g1 g2, WFg g1 /\ Rg g1 /\ WFg g2 /\ Rg g2 /\ g_sup g1 = g_sup g2
    /\ (forall k, In k (g_keys g1) -> ~ In k (g_keys g2))
    /\ merge_group_orig [g1; g2] false false false = None
    /\ merge_group_orig [g2; g1] false false false <> None
    /\ merge_group_orig [g1; g2] false false true <> None
    /\ merge_group [g1; g2] false false false <> None.
Proof. exact merge_orig_total_refuted. Qed.
Print Assumptions C12_merge_orig_total_refuted.

Theorem C12_merge_orig_sub : forall gs ri rs im g',
  merge_group_orig gs ri rs im = Some g' -> merge_group gs ri rs im = Some g'.
Proof. exact merge_group_orig_sub. Qed.
Print Assumptions C12_merge_orig_sub.

(* ---- 8. to_tsd -> to_tsgroup: the members with samples come back under their keys ---- *)
Theorem C12_tsd_roundtrip : forall g,
  WFg g -> Rg g ->
  exists g', roundtrip g = Some g' /\ WFg g' /\ Rg g' /\ g_hastag g' = false
    /\ (forall e', In e' (g_entries g') <->
                   exists e, In e (g_entries g) /\ m_t (e_mem e) <> [] /\ e' = (e_key e, (0, e_mem e)))
    /\ ((exists e, In e (g_entries g) /\ m_t (e_mem e) <> []) -> g_sup g' = g_sup g).
Proof. exact roundtrip_spec. Qed.
Print Assumptions C12_tsd_roundtrip.

(* ---- 9. all sequences of operations ---- *)
Theorem C12_histories : forall ops g, WFg g -> Rg g -> Forall op_ok ops ->
  Forall (fun r => match r with Some g' => WFg g' /\ Rg g' | None => True end) (trace g ops)
  /\ WFg (run g ops) /\ Rg (run g ops).
Proof. intros ops g W R H. split; [exact (trace_invariant ops g W R H)|exact (run_invariant ops g W R H)]. Qed.
Print Assumptions C12_histories.

Theorem C12_invariants_meaning : forall g, WFg g -> Rg g ->
  incr (g_keys g) /\ canonical (g_sup g)
  /\ (forall e, In e (g_entries g) ->
        sortedZ (m_t (e_mem e)) /\ Forall (fun x => mem x (g_sup g) = true) (m_t (e_mem e))
        /\ (m_t (e_mem e) <> [] -> rate (e_mem e) = Some (length (m_t (e_mem e)), tot_length (g_sup g)) /\ 0 < tot_length (g_sup g))).
Proof. exact invariants_meaning. Qed.
Print Assumptions C12_invariants_meaning.

(* provenance along histories of selections / restrict / get / round trip / merges of two selections:
   each member of the final group is the member of the same key of the initial group, thinned *)
Theorem C12_histories_provenance : forall ops g, WFg g -> Rg g -> Forall simple_op ops ->
  forall e', In e' (g_entries (run g ops)) ->
    exists e P, In e (g_entries g) /\ e_key e' = e_key e /\ m_t (e_mem e') = filter P (m_t (e_mem e)).
Proof. exact run_derives. Qed.
Print Assumptions C12_histories_provenance.

(* ---- 10. group-level count / trial_count / value_from = the members' own (C05, C08, C06) ---- *)
Theorem C12_group_count_col : forall g ep b, WFg g -> 0 < b -> canonical ep ->
  g_count g ep b = map (fun e => (e_key e, count_spec (m_t (e_mem e)) ep b)) (g_entries g).
Proof. exact group_count_col. Qed.
Print Assumptions C12_group_count_col.

Theorem C12_group_count_per_epoch : forall g ep, WFg g -> canonical ep ->
  g_count_ep g ep = map (fun e => (e_key e, map (fun iv => count_if (fun x => inb x iv) (m_t (e_mem e))) ep)) (g_entries g).
Proof. exact group_count_ep_col. Qed.
Print Assumptions C12_group_count_per_epoch.

Theorem C12_group_trial_count_member : forall g ep b, WFg g -> 0 < b -> canonical ep ->
  g_trial_count g ep b
  = map (fun e => (e_key e, map (fun '(s, e') => map snd (count_spec_interval (m_t (e_mem e)) s e' b)) ep)) (g_entries g).
Proof. exact group_trial_count_member. Qed.
Print Assumptions C12_group_trial_count_member.

Theorem C12_group_value_from_member : forall g mode src ep, WFg g -> canonical ep ->
  g_value_from g mode src ep
  = map (fun e => (e_key e, (filter (fun x => mem x ep) (m_t (e_mem e)), value_from mode (m_t (e_mem e)) src ep))) (g_entries g).
Proof. exact group_value_from_member. Qed.
Print Assumptions C12_group_value_from_member.

(* a concrete non-trivial state: keys "7", 2.0, 5 given unsorted, overlapping supports, no support
   supplied; then a history (restrict, mask, round trip) keeps the invariants *)
Example C12_nonvacuous :
  let data := [(RStr 7, (1, RObj ([0; 2000; 4000], [(0, 4000)])));
               (RFlt 2 false, (2, RObj ([3000; 5000], [(2000, 6000)])));
               (RInt 5, (3, RObj ([10000; 12000], [(10000, 12000)])))] in
  exists g, mk_group data None false true = Some g
    /\ g_keys g = [2; 5; 7] /\ g_sup g = [(0, 6000); (10000, 12000)]
    /\ map (fun e => rate (e_mem e)) (g_entries g) = [Some (2%nat, 8000); Some (2%nat, 8000); Some (3%nat, 8000)]
    /\ option_map g_keys (step (run g [ORestrict [(1000, 11000)]; OSelMask [true; true; false]]) ORoundTrip) = Some [2; 5]
    /\ canonicalb (g_sup g) = true.
Proof. vm_compute. eexists. repeat split. Qed.
