(* C02, tie of the Python GLUE by PROOF: IntervalSet.union / intersect / set_diff (which columns go to which kernel in
   which order, which results re-enter the constructor), time_span, tot_length, drop_short_intervals,
   drop_long_intervals, merge_close_intervals and the ndarray branch of __getitem__, translated by tools/py2glue.py
   (Gen/Glue.v, regenerated from /repo on every run), compute exactly the hand models iset_union / iset_inter /
   iset_diff (Model/Iset.v), merge_close and the filter forms of Model/Store.v.  First form: for EVERY kernel
   environment K answering the calls the routine makes with the kernel models; second form (`_with_kernel_text`): with
   the environment that RUNS THE TRANSLATED KERNEL TEXT (Glue/Compose.v, using the total-correctness theorems stated
   in Properties/C02b.v and C01b.v).  No hypothesis on the operands (canonicity is not needed for the refinement).
   Declared assumptions and skipped statements: coq/Gen/glue.json.  Proofs: Glue/Ref_*.v, Glue/Compose.v. *)
From Coq Require Import ZArith QArith String List.
From Verif Require Import Base.Prelude Model.Iset Model.Store Jit.Lang Glue.Lang Glue.Interp Glue.Kenv Glue.Facts Gen.Glue.
From Verif Require Inv.Jitrestrict_func.
From Verif Require Glue.Ref_union Glue.Ref_intersect Glue.Ref_set_diff Glue.Ref_time_span Glue.Ref_tot_length
  Glue.Ref_getitem Glue.Ref_drop_intervals Glue.Ref_merge_close Glue.KenvText Glue.Compose.
Import ListNotations.
Open Scope Z_scope.
Notation firsts := Jitrestrict_func.firsts.
Notation seconds := Jitrestrict_func.seconds.

Theorem C02_glue_union : forall K A B,
  K_union_at K A B -> K_ctor_at K (firsts (k_union A B)) (seconds (k_union A B)) ->
  grun K g_IntervalSet_union [iset_val A; iset_val B] = GOk (iset_val (iset_union A B)).
Proof. exact Ref_union.ref_union. Qed.
Print Assumptions C02_glue_union.
Theorem C02_glue_union_with_kernel_text : forall A B,
  exists fuel, grun (KenvText.kenv_text fuel) g_IntervalSet_union [iset_val A; iset_val B] = GOk (iset_val (iset_union A B)).
Proof. exact Compose.union_text_to_model. Qed.
Print Assumptions C02_glue_union_with_kernel_text.

Theorem C02_glue_intersect : forall K A B,
  K_intersect_at K A B -> K_ctor_at K (starts (k_inter A B)) (ends (k_inter A B)) ->
  grun K g_IntervalSet_intersect [iset_val A; iset_val B] = GOk (iset_val (iset_inter A B)).
Proof. exact Ref_intersect.ref_intersect. Qed.
Print Assumptions C02_glue_intersect.
Theorem C02_glue_intersect_with_kernel_text : forall A B,
  exists fuel, grun (KenvText.kenv_text fuel) g_IntervalSet_intersect [iset_val A; iset_val B] = GOk (iset_val (iset_inter A B)).
Proof. exact Compose.intersect_text_to_model. Qed.
Print Assumptions C02_glue_intersect_with_kernel_text.

Theorem C02_glue_set_diff : forall K A B,
  K_diff_at K A B -> K_ctor_at K (starts (k_diff A B)) (ends (k_diff A B)) ->
  grun K g_IntervalSet_set_diff [iset_val A; iset_val B] = GOk (iset_val (iset_diff A B)).
Proof. exact Ref_set_diff.ref_set_diff. Qed.
Print Assumptions C02_glue_set_diff.
Theorem C02_glue_set_diff_with_kernel_text : forall A B,
  exists fuel, grun (KenvText.kenv_text fuel) g_IntervalSet_set_diff [iset_val A; iset_val B] = GOk (iset_val (iset_diff A B)).
Proof. exact Compose.set_diff_text_to_model. Qed.
Print Assumptions C02_glue_set_diff_with_kernel_text.

(* time_span: on the empty set the source raises IndexError (values[0, 0] of a 0 x 2 array) *)
Theorem C02_glue_time_span : forall K A,
  match A with [] => True | (s, _) :: _ => K_ctor_at K [s] [snd (last A (0, 0))] end ->
  grun K g_IntervalSet_time_span [iset_val A]
  = match A with
    | [] => GErr EIndex
    | (s, _) :: _ => GOk (iset_val (mk_iset [s] [snd (last A (0, 0))]))
    end.
Proof. exact Ref_time_span.ref_time_span. Qed.
Print Assumptions C02_glue_time_span.
Theorem C02_glue_time_span_with_kernel_text : forall s e A,
  exists fuel, grun (KenvText.kenv_text fuel) g_IntervalSet_time_span [iset_val ((s, e) :: A)]
               = GOk (iset_val (mk_iset [s] [snd (last ((s, e) :: A) (0, 0))])).
Proof. exact Compose.time_span_text_to_model. Qed.
Print Assumptions C02_glue_time_span_with_kernel_text.

(* tot_length calls no kernel: any environment *)
Theorem C02_glue_tot_length : forall K A,
  grun K g_IntervalSet_tot_length [iset_val A] = GOk (tsc (tot_length A)).
Proof. exact Ref_tot_length.ref_tot_length. Qed.
Print Assumptions C02_glue_tot_length.

Theorem C02_glue_getitem_mask : forall K (f : Z * Z -> bool) A,
  K_ctor_at K (firsts (filter f A)) (seconds (filter f A)) ->
  grun K g_IntervalSet___getitem__ [iset_val A; GArr (A1 DBool (bcells (map f A)))]
  = GOk (iset_val (mk_iset_pairs (filter f A))).
Proof. exact Ref_getitem.ref_getitem. Qed.
Print Assumptions C02_glue_getitem_mask.

Theorem C02_glue_drop_short_intervals : forall K A thr,
  K_ctor_at K (firsts (Ref_drop_intervals.kept_short thr A)) (seconds (Ref_drop_intervals.kept_short thr A)) ->
  grun K g_IntervalSet_drop_short_intervals [iset_val A; tsc thr]
  = GOk (iset_val (mk_iset_pairs (filter (fun '(s, e) => thr <? e - s) A))).
Proof. exact Ref_drop_intervals.ref_drop_short. Qed.
Print Assumptions C02_glue_drop_short_intervals.
Theorem C02_glue_drop_short_intervals_with_kernel_text : forall A thr,
  exists fuel, grun (KenvText.kenv_text fuel) g_IntervalSet_drop_short_intervals [iset_val A; tsc thr]
               = GOk (iset_val (mk_iset_pairs (filter (fun '(s, e) => thr <? e - s) A))).
Proof. exact Compose.drop_short_text_to_model. Qed.
Print Assumptions C02_glue_drop_short_intervals_with_kernel_text.

Theorem C02_glue_drop_long_intervals : forall K A thr,
  K_ctor_at K (firsts (Ref_drop_intervals.kept_long thr A)) (seconds (Ref_drop_intervals.kept_long thr A)) ->
  grun K g_IntervalSet_drop_long_intervals [iset_val A; tsc thr]
  = GOk (iset_val (mk_iset_pairs (filter (fun '(s, e) => e - s <? thr) A))).
Proof. exact Ref_drop_intervals.ref_drop_long. Qed.
Print Assumptions C02_glue_drop_long_intervals.
Theorem C02_glue_drop_long_intervals_with_kernel_text : forall A thr,
  exists fuel, grun (KenvText.kenv_text fuel) g_IntervalSet_drop_long_intervals [iset_val A; tsc thr]
               = GOk (iset_val (mk_iset_pairs (filter (fun '(s, e) => e - s <? thr) A))).
Proof. exact Compose.drop_long_text_to_model. Qed.
Print Assumptions C02_glue_drop_long_intervals_with_kernel_text.

Theorem C02_glue_merge_close_intervals : forall K A thr,
  K_ctor_at K (firsts (merge_close A thr)) (seconds (merge_close A thr)) ->
  grun K g_IntervalSet_merge_close_intervals [iset_val A; tsc thr]
  = GOk (iset_val (mk_iset_pairs (merge_close A thr))).
Proof. exact Ref_merge_close.ref_merge_close. Qed.
Print Assumptions C02_glue_merge_close_intervals.
Theorem C02_glue_merge_close_intervals_with_kernel_text : forall A thr,
  exists fuel, grun (KenvText.kenv_text fuel) g_IntervalSet_merge_close_intervals [iset_val A; tsc thr]
               = GOk (iset_val (mk_iset_pairs (merge_close A thr))).
Proof. exact Compose.merge_close_text_to_model. Qed.
Print Assumptions C02_glue_merge_close_intervals_with_kernel_text.

(* non-vacuity: each routine on a concrete input, in the model environment (which meets every contract) *)
Example C02_glue_nonvacuous :
  grun kenv_model_g1 g_IntervalSet_union [iset_val [(0, 10000); (20000, 30000)]; iset_val [(5000, 20000); (40000, 50000)]]
    = GOk (iset_val [(0, 30000); (40000, 50000)])
  /\ grun kenv_model_g1 g_IntervalSet_intersect [iset_val [(0, 10000); (20000, 30000)]; iset_val [(5000, 25000)]]
    = GOk (iset_val [(5000, 10000); (20000, 25000)])
  /\ grun kenv_model_g1 g_IntervalSet_set_diff [iset_val [(0, 10000); (20000, 30000)]; iset_val [(5000, 25000)]]
    = GOk (iset_val [(0, 5000); (25000, 30000)])
  /\ grun kenv_model_g1 g_IntervalSet_time_span [iset_val [(-5, 10); (20, 30); (40, 55)]] = GOk (iset_val [(-5, 55)])
  /\ grun kenv_model_g1 g_IntervalSet_tot_length [iset_val [(-5, 10); (20, 30)]] = GOk (tsc 25)
  /\ grun kenv_model_g1 g_IntervalSet_drop_short_intervals [iset_val [(0, 10); (20, 40); (50, 55)]; tsc 10] = GOk (iset_val [(20, 40)])
  /\ grun kenv_model_g1 g_IntervalSet_drop_long_intervals [iset_val [(0, 10); (20, 40); (50, 55)]; tsc 10] = GOk (iset_val [(50, 55)])
  /\ grun kenv_model_g1 g_IntervalSet_merge_close_intervals
       [iset_val [(0, 10000); (10005, 20000); (20010, 30000); (30011, 40000)]; tsc 10]
    = GOk (iset_val [(0, 30000); (30011, 40000)])
  /\ K_union kenv_model_g1 /\ K_intersect kenv_model_g1 /\ K_diff kenv_model_g1 /\ K_fix_iset kenv_model_g1.
Proof.
  repeat split; try (vm_compute; reflexivity).
  - exact model_union.
  - exact model_intersect.
  - exact model_diff.
  - exact model_fix_iset.
Qed.
