(* C05, tie by PROOF: the kernel TEXTS of jitcount and _jitbin_array (Gen/Kernels.v, regenerated from /repo's source on
   every run) compute exactly the functional models count_binned / bin_sum_cnt of Model/Count.v used by the C05
   theorems - bin centres as half-tick rationals, counts, and per-bin means (NaN for an empty bin) - for every series
   (sorted or not) and every interval list, for every EVEN positive bin size in ticks, whenever the interpreter terminates
   within its fuel (termination: Properties/C15b.v).
   Evenness is sharp: for an odd number of nanoseconds the bin centre l + b/2 falls on a half tick, the kernel compares the
   centre ROUNDED to a whole tick (np.round(., 9), half to even) with the interval end while the model and the statement
   compare the exact centre; C05_odd_bin_size_refuted is the computed witness (ts = [0], ep = [(0,0)], b = 1 ns: the kernel
   reports one bin, the statement none) - a recorded finding of C05.
   Proofs in Inv/Jitcount_func.v and Inv/Jitbin_array_func.v. *)
From Coq Require Import ZArith QArith List.
From Verif Require Import Base.Prelude Model.Restrict Model.Count Jit.Lang Jit.Interp Gen.Kernels.
From Verif Require Import Inv.Jitrestrict_func Inv.Jitcount_func Inv.Jitbin_array_func.
Import ListNotations.
Open Scope Z_scope.

Theorem C05_count_kernel_text_computes_model : forall ts ep b fuel,
  Forall (fun I => fst I <= snd I) ep -> 0 < b -> Z.even b = true ->
  match run fuel k_jitcount (jitcount_args ts ep b) with
  | Return rs => rs = count_result (count_binned ts ep b)
  | OutOfFuel => True
  | _ => False
  end.
Proof. exact k_jitcount_computes_model. Qed.
Print Assumptions C05_count_kernel_text_computes_model.

Theorem C05_count_kernel_text_spec : forall ts ep b fuel, sortedZ ts -> canonical ep -> 0 < b -> Z.even b = true ->
  match run fuel k_jitcount (jitcount_args ts ep b) with
  | Return rs => rs = count_result (count_spec ts ep b)
  | OutOfFuel => True
  | _ => False
  end.
Proof. exact k_jitcount_spec. Qed.
Print Assumptions C05_count_kernel_text_spec.

Theorem C05_bin_array_kernel_text_computes_model : forall ts vs ep b fuel,
  0 < b -> Z.even b = true ->
  match run fuel k__jitbin_array (bin_array_args ts vs ep b) with
  | Return rs => rs = bin_array_result (bin_sum_cnt ts vs ep b)
  | OutOfFuel => True
  | _ => False
  end.
Proof. exact k__jitbin_array_computes_model. Qed.
Print Assumptions C05_bin_array_kernel_text_computes_model.

Theorem C05_odd_bin_size_refuted :
  run 200 k_jitcount (jitcount_args [0] [(0, 0)] 1) = Return [Ar (A1 DFlt [VFlt (Some 0%Q)]); Ar (A1 DInt [VInt 1])]
  /\ count_binned [0] [(0, 0)] 1 = [].
Proof. exact odd_bin_size_differs. Qed.
Print Assumptions C05_odd_bin_size_refuted.
