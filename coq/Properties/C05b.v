(* C05, tie by PROOF: the kernel TEXTS of jitcount and _jitbin_array (Gen/Kernels.v, regenerated from /repo's source on
   every run) compute exactly the functional models count_binned / bin_sum_cnt of Model/Count.v used by the C05
   theorems - the bin grid, counts, and per-bin means (NaN for an empty bin) - for every series (sorted or not), every
   interval list and EVERY positive bin size in ticks (even or odd), whenever the interpreter terminates within its
   fuel (termination: Properties/C15b.v).  A doubled centre c2 of the model is reported as the tick [centre_tick c2] =
   np.round(c2 / 2 * 1e-9, 9): c2 / 2 when c2 is even (always, for an even bin size: the *_even theorems restate the
   result with the exact centre [qhalf c2]), the even neighbour of the half tick c2 / 2 otherwise.
   HISTORY: until the kernels were repaired (the report test is now np.round(2 * lbound + bin_size, 9) > 2 * ends[k],
   the exact doubled centre against the doubled end) the refinement held for even bin sizes only: for an odd number of
   nanoseconds the bin centre l + b/2 falls on a half tick, the old kernel compared the centre ROUNDED to a whole tick
   (np.round(., 9), half to even) with the interval end while the model and the statement compare the exact centre.
   C05_odd_bin_size_refuted is the computed witness on the frozen translation of the old text
   (k_jitcount_before_fix / k__jitbin_array_before_fix, Inv/Findings.v; ts = [0], ep = [(0,0)], b = 1 ns: the old
   kernel reports one bin, the statement none), C05_odd_bin_size_repaired the same input on the current text.
   Proofs in Inv/Jitcount_func.v and Inv/Jitbin_array_func.v. *)
From Coq Require Import ZArith QArith List.
From Verif Require Import Base.Prelude Model.Restrict Model.Count Jit.Lang Jit.Interp Gen.Kernels.
From Verif Require Import Inv.Jitrestrict_func Inv.Jitcount_func Inv.Jitbin_array_func Inv.Findings.
Import ListNotations.
Open Scope Z_scope.

Theorem C05_count_kernel_text_computes_model : forall ts ep b fuel,
  Forall (fun I => fst I <= snd I) ep -> 0 < b ->
  match run fuel k_jitcount (jitcount_args ts ep b) with
  | Return rs => rs = count_result (count_binned ts ep b)
  | OutOfFuel => True
  | _ => False
  end.
Proof. exact k_jitcount_computes_model. Qed.
Print Assumptions C05_count_kernel_text_computes_model.

Theorem C05_count_kernel_text_spec : forall ts ep b fuel, sortedZ ts -> canonical ep -> 0 < b ->
  match run fuel k_jitcount (jitcount_args ts ep b) with
  | Return rs => rs = count_result (count_spec ts ep b)
  | OutOfFuel => True
  | _ => False
  end.
Proof. exact k_jitcount_spec. Qed.
Print Assumptions C05_count_kernel_text_spec.

Theorem C05_bin_array_kernel_text_computes_model : forall ts vs ep b fuel,
  0 < b ->
  match run fuel k__jitbin_array (bin_array_args ts vs ep b) with
  | Return rs => rs = bin_array_result (bin_sum_cnt ts vs ep b)
  | OutOfFuel => True
  | _ => False
  end.
Proof. exact k__jitbin_array_computes_model. Qed.
Print Assumptions C05_bin_array_kernel_text_computes_model.

(* the reported centre: within half a tick of the exact centre c2 / 2, and exactly c2 / 2 when that is a tick *)
Theorem C05_reported_centre : forall c2,
  Z.abs (2 * centre_tick c2 - c2) <= 1 /\ (Z.even c2 = true -> 2 * centre_tick c2 = c2).
Proof.
  intros c2. split; [apply centre_tick_near|].
  intros H. apply Z.even_spec in H. destruct H as [x ->]. rewrite centre_tick_even. reflexivity.
Qed.
Print Assumptions C05_reported_centre.

(* even bin sizes, with the exact centres (the statements as they were when the refinement needed evenness) *)
Theorem C05_count_kernel_text_computes_model_even : forall ts ep b fuel,
  Forall (fun I => fst I <= snd I) ep -> 0 < b -> Z.even b = true ->
  match run fuel k_jitcount (jitcount_args ts ep b) with
  | Return rs => rs = [Ar (A1 DFlt (map (fun p => VFlt (Some (qhalf (fst p)))) (count_binned ts ep b)));
                       Ar (A1 DInt (map ncell (count_binned ts ep b)))]
  | OutOfFuel => True
  | _ => False
  end.
Proof. exact k_jitcount_computes_model_even. Qed.
Print Assumptions C05_count_kernel_text_computes_model_even.

Theorem C05_bin_array_kernel_text_computes_model_even : forall ts vs ep b fuel,
  0 < b -> Z.even b = true ->
  match run fuel k__jitbin_array (bin_array_args ts vs ep b) with
  | Return rs => rs = [Ar (A1 DFlt (map (fun p => VFlt (Some (qhalf (fst p)))) (bin_sum_cnt ts vs ep b)));
                       Ar (A1 DFlt (map mean_cell (bin_sum_cnt ts vs ep b)))]
  | OutOfFuel => True
  | _ => False
  end.
Proof. exact k__jitbin_array_computes_model_even. Qed.
Print Assumptions C05_bin_array_kernel_text_computes_model_even.

(* HISTORY: the kernel texts before the repair, frozen in Inv/Findings.v *)
Theorem C05_odd_bin_size_refuted :
  run 200 k_jitcount_before_fix (jitcount_args [0] [(0, 0)] 1)
  = Return [Ar (A1 DFlt [VFlt (Some 0%Q)]); Ar (A1 DInt [VInt 1])]
  /\ run 300 k__jitbin_array_before_fix (bin_array_args [0] [9] [(0, 0)] 1)
     = Return [Ar (A1 DFlt [VFlt (Some 0%Q)]); Ar (A1 DFlt [VFlt (Some 9%Q)])]
  /\ count_binned [0] [(0, 0)] 1 = [] /\ bin_sum_cnt [0] [9] [(0, 0)] 1 = [].
Proof.
  destruct odd_bin_size_differs as [A B]. destruct odd_bin_size_differs_bin_array as [C D].
  repeat split; assumption.
Qed.
Print Assumptions C05_odd_bin_size_refuted.

Theorem C05_odd_bin_size_repaired :
  run 200 k_jitcount (jitcount_args [0] [(0, 0)] 1) = Return [Ar (A1 DFlt []); Ar (A1 DInt [])]
  /\ run 300 k__jitbin_array (bin_array_args [0] [9] [(0, 0)] 1) = Return [Ar (A1 DFlt []); Ar (A1 DFlt [])].
Proof.
  split; [|exact odd_bin_size_repaired_bin_array].
  destruct odd_bin_size_repaired as [A B]. rewrite A, B. reflexivity.
Qed.
Print Assumptions C05_odd_bin_size_repaired.

(* TOTAL correctness (Inv/Jitcount_functotal.v, Inv/Jitbin_array_functotal.v): the kernel texts terminate and return the model's value. *)
From Verif Require Inv.Jitcount_functotal Inv.Jitbin_array_functotal.
Theorem C05_count_kernel_text_total : forall ts ep B,
  Forall (fun I => fst I <= snd I) ep -> 0 < B ->
  exists fuel, run fuel k_jitcount (jitcount_args ts ep B) = Return (count_result (count_binned ts ep B)).
Proof. exact Jitcount_functotal.k_jitcount_total. Qed.
Print Assumptions C05_count_kernel_text_total.

Theorem C05_bin_array_kernel_text_total : forall ts vs ep B, 0 < B ->
  exists fuel, run fuel k__jitbin_array (bin_array_args ts vs ep B) = Return (bin_array_result (bin_sum_cnt ts vs ep B)).
Proof. exact Jitbin_array_functotal.k__jitbin_array_total. Qed.
Print Assumptions C05_bin_array_kernel_text_total.
