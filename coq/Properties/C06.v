(* C06 — value_from and interpolate pick the right neighbour and never cross an epoch.
   Statements only; proofs in Proofs/ValueFromProofs.v.  mode: 0 before, 1 closest, 2 after; None = NaN.
   interpolate is PARTIAL: np.interp is NumPy's; what is proved is that the per-interval lists handed to
   it are exactly the samples of that interval (value_from_structure / sources_concat); the slicing by
   get(start,end) that interpolate uses is C08's theorem. *)
From Verif Require Import Base.Prelude Model.Restrict Model.ValueFrom Proofs.ValueFromProofs.

(* 1. the kernel's cursor machine returns, for every query of an interval, a source sample of that
      interval which is latest-at-or-before / nearest / earliest-at-or-after, and NaN iff none exists *)
Theorem C06_answers : forall mode qs src,
  (mode = 0 \/ mode = 1 \/ mode = 2) -> src <> [] -> sortedZ src -> sortedZ qs ->
  Forall2 (fun x r => vf_spec mode x src r) qs (vf_interval mode qs src 0%nat).
Proof. exact vf_interval_spec. Qed.
Print Assumptions C06_answers.

(* 2. no epoch crossing: the queries of interval k are answered from the sources of interval k only *)
Theorem C06_no_cross : forall mode qs src ep, sortedZ qs -> sortedZ src -> canonical ep ->
  value_from mode qs src ep =
  vf_all mode (map (fun iv => filter (fun x => inb x iv) qs) ep)
              (map (fun iv => filter (fun y => inb y iv) src) ep) 0%nat.
Proof. exact value_from_structure. Qed.
Print Assumptions C06_no_cross.

(* 3. one answer per query sample lying in ep *)
Theorem C06_length : forall mode qs src ep, sortedZ qs -> sortedZ src -> canonical ep ->
  length (value_from mode qs src ep) = length (restrict_idx qs ep).
Proof. exact value_from_length. Qed.
Print Assumptions C06_length.

(* 4. answers are positions in the restricted source array, block k within block k's range *)
Theorem C06_offsets : forall src ep, sortedZ src -> canonical ep ->
  concat (map (fun iv => filter (fun y => inb y iv) src) ep) = restrict_ts src ep.
Proof. exact sources_concat. Qed.
Print Assumptions C06_offsets.

Theorem C06_block_range : forall mode qs src off,
  length (vf_block mode qs src off) = length qs /\
  Forall (in_range off (off + length src)) (vf_block mode qs src off).
Proof. exact vf_block_in_range. Qed.
Print Assumptions C06_block_range.

Theorem C06_in_range : forall mode qs src ep,
  Forall (in_range 0 (length (restrict_ts src ep))) (value_from mode qs src ep).
Proof. exact value_from_in_range. Qed.
Print Assumptions C06_in_range.

Example C06_nonvacuous :
  sortedZ [1; 1; 3; 5] /\ sortedZ [0; 1; 2; 6] /\
  vf_interval 0 [0; 1; 2; 6] [1; 1; 3; 5] 0%nat = [None; Some 0%nat; Some 1%nat; Some 3%nat] /\
  vf_interval 1 [0; 1; 2; 6] [1; 1; 3; 5] 0%nat = [Some 1%nat; Some 1%nat; Some 2%nat; Some 3%nat] /\
  vf_interval 2 [0; 1; 2; 6] [1; 1; 3; 5] 0%nat = [Some 0%nat; Some 0%nat; Some 2%nat; None].
Proof. vm_compute. intuition congruence. Qed.
