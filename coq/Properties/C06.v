(* C06 — value_from and interpolate pick the right neighbour and never cross an epoch.
   Statements only; proofs in Proofs/ValueFromProofs.v.  mode: 0 before, 1 closest, 2 after; None = NaN.
   interpolate is PARTIAL: np.interp is NumPy's; what is proved is that the per-interval lists handed to
   it are exactly the samples of that interval (value_from_structure / sources_concat); the slicing by
   get(start,end) that interpolate uses is C08's theorem.
   Audit round: C06_end_to_end / C06_result_times compose theorems 1-4 into the statement's sentence (proofs below, they
   use only the theorems of Proofs/ValueFromProofs.v); C06_interp_slices / _nan_iff_no_source / _times state interpolate's
   per-interval slicing over an abstract np.interp (proofs below, from C08's get_times_spec / get_rows_spec). *)
From Verif Require Import Base.Prelude Model.Restrict Model.ValueFrom Model.Count Model.Slice.
From Verif Require Import Proofs.RestrictProofs Proofs.ValueFromProofs Proofs.SliceProofs.

(* 1. the kernel's cursor machine returns, for every query of an interval, a source sample of that
      interval which is latest-at-or-before / nearest / earliest-at-or-after, and NaN iff none exists *)
Theorem C06_answers : forall mode qs src,
  (mode = 0 \/ mode = 1 \/ mode = 2) -> src <> [] -> sortedZ src -> sortedZ qs ->
  Forall2 (fun x r => vf_spec mode x src r) qs (vf_interval mode qs src 0%nat).
Proof. exact vf_interval_spec. Qed.
Print Assumptions C06_answers.

(* 2. no epoch crossing: the queries of interval k are answered from the sources of interval k only *)
Theorem C06_no_cross : forall mode qs src ep, sortedZ qs -> sortedZ src -> canonical ep ->
  value_from mode qs src ep =
  vf_all mode (map (fun iv => filter (fun x => inb x iv) qs) ep)
              (map (fun iv => filter (fun y => inb y iv) src) ep) 0%nat.
Proof. exact value_from_structure. Qed.
Print Assumptions C06_no_cross.

(* 3. one answer per query sample lying in ep *)
Theorem C06_length : forall mode qs src ep, sortedZ qs -> sortedZ src -> canonical ep ->
  length (value_from mode qs src ep) = length (restrict_idx qs ep).
Proof. exact value_from_length. Qed.
Print Assumptions C06_length.

(* 4. answers are positions in the restricted source array, block k within block k's range *)
Theorem C06_offsets : forall src ep, sortedZ src -> canonical ep ->
  concat (map (fun iv => filter (fun y => inb y iv) src) ep) = restrict_ts src ep.
Proof. exact sources_concat. Qed.
Print Assumptions C06_offsets.

Theorem C06_block_range : forall mode qs src off,
  length (vf_block mode qs src off) = length qs /\
  Forall (in_range off (off + length src)) (vf_block mode qs src off).
Proof. exact vf_block_in_range. Qed.
Print Assumptions C06_block_range.

Theorem C06_in_range : forall mode qs src ep,
  Forall (in_range 0 (length (restrict_ts src ep))) (value_from mode qs src ep).
Proof. exact value_from_in_range. Qed.
Print Assumptions C06_in_range.

Example C06_nonvacuous :
  sortedZ [1; 1; 3; 5] /\ sortedZ [0; 1; 2; 6] /\
  vf_interval 0 [0; 1; 2; 6] [1; 1; 3; 5] 0%nat = [None; Some 0%nat; Some 1%nat; Some 3%nat] /\
  vf_interval 1 [0; 1; 2; 6] [1; 1; 3; 5] 0%nat = [Some 1%nat; Some 1%nat; Some 2%nat; Some 3%nat] /\
  vf_interval 2 [0; 1; 2; 6] [1; 1; 3; 5] 0%nat = [Some 0%nat; Some 0%nat; Some 2%nat; None].
Proof. vm_compute. intuition congruence. Qed.

(* ---------------- additions (audit round): the statement END TO END ---------------- *)
(* C06_answers, C06_no_cross, C06_length and C06_offsets composed into the sentence the property states:
   one answer per query lying in ep, in the order of the restricted query array (C06_result_times); the answer to a query x of
   interval iv, read in the restricted source array (the array _value_from indexes with the kernel's output, whole rows), is a
   source sample OF iv that is latest-at-or-before / nearest / earliest-at-or-after x among the source samples of iv, and it is
   NaN exactly when iv holds no such sample. *)
Definition nearest_spec (mode x : Z) (cand : list Z) (r : option Z) : Prop :=
  match r with
  | Some y => In y cand /\
      (if mode =? 0 then y <= x /\ Forall (fun z => z <= x -> z <= y) cand
       else if mode =? 1 then Forall (fun z => Z.abs (y - x) <= Z.abs (z - x)) cand
       else x <= y /\ Forall (fun z => x <= z -> y <= z) cand)
  | None => if mode =? 0 then Forall (fun z => x < z) cand
            else if mode =? 1 then cand = []
            else Forall (fun z => z < x) cand
  end.

Definition queries_by_interval (qs : list Z) (ep : iset) : list (Z * (Z * Z)) :=
  flat_map (fun iv => map (fun x => (x, iv)) (filter (fun x => inb x iv) qs)) ep.

Lemma Forall2_map_r {A B C} (P : A -> C -> Prop) (f : B -> C) l l' :
  Forall2 (fun a b => P a (f b)) l l' -> Forall2 P l (map f l').
Proof. induction 1; cbn; constructor; assumption. Qed.

Lemma Forall2_map_l {A B C} (P : B -> C -> Prop) (f : A -> B) l l' :
  Forall2 (fun a c => P (f a) c) l l' -> Forall2 P (map f l) l'.
Proof. induction 1; cbn; constructor; assumption. Qed.

Lemma Forall2_impl' {A B} (P Q : A -> B -> Prop) l l' :
  (forall a b, P a b -> Q a b) -> Forall2 P l l' -> Forall2 Q l l'.
Proof. intros H. induction 1; constructor; auto. Qed.

Lemma nearest_spec_nil mode x : (mode = 0 \/ mode = 1 \/ mode = 2) -> nearest_spec mode x [] None.
Proof. intros [-> | [-> | ->]]; cbn; constructor. Qed.

Lemma vf_spec_nearest mode x src pre post r :
  (mode = 0 \/ mode = 1 \/ mode = 2) -> vf_spec mode x src r ->
  nearest_spec mode x src (option_map (fun j => nth j (pre ++ src ++ post) 0) (option_map (fun j => (length pre + j)%nat) r)).
Proof.
  intros Hm H.
  assert (Hn : forall j, (j < length src)%nat -> nth (length pre + j) (pre ++ src ++ post) 0 = nth j src 0).
  { intros j Hj. rewrite app_nth2_plus. apply app_nth1. exact Hj. }
  destruct Hm as [-> | [-> | ->]]; unfold vf_spec in H; cbn in H; destruct r as [j|]; cbn [option_map nearest_spec Z.eqb Pos.eqb].
  - destruct H as (Hj & Hle & Hall). rewrite (Hn j Hj). split; [apply nth_In; exact Hj|]. split; assumption.
  - exact H.
  - destruct H as (Hj & Hall). rewrite (Hn j Hj). split; [apply nth_In; exact Hj|]. exact Hall.
  - destruct H.
  - destruct H as (Hj & Hle & Hall). rewrite (Hn j Hj). split; [apply nth_In; exact Hj|]. split; assumption.
  - exact H.
Qed.

Lemma vf_all_end_to_end mode qs src : (mode = 0 \/ mode = 1 \/ mode = 2) -> sortedZ qs -> sortedZ src ->
  forall ep pre,
  Forall2 (fun (xi : Z * (Z * Z)) r =>
             nearest_spec mode (fst xi) (filter (fun y => inb y (snd xi)) src)
               (option_map (fun j => nth j (pre ++ concat (map (fun iv => filter (fun y => inb y iv) src) ep)) 0) r))
          (queries_by_interval qs ep)
          (vf_all mode (map (fun iv => filter (fun x => inb x iv) qs) ep)
                       (map (fun iv => filter (fun y => inb y iv) src) ep) (length pre)).
Proof.
  intros Hm Hq Hs. induction ep as [|iv ep IH]; intros pre; [constructor|].
  unfold queries_by_interval. cbn [flat_map map vf_all concat].
  apply Forall2_app.
  - remember (filter (fun y => inb y iv) src) as sv eqn:Esv.
    remember (filter (fun x => inb x iv) qs) as qv eqn:Eqv.
    assert (Hsv : sortedZ sv) by (rewrite Esv; apply filter_sortedZ; exact Hs).
    assert (Hqv : sortedZ qv) by (rewrite Eqv; apply filter_sortedZ; exact Hq).
    destruct sv as [|y0 sr].
    + apply Forall2_map_l, Forall2_map_r. cbn [fst snd option_map]. rewrite <- Esv.
      clear - Hm. induction qv as [|x qv IHq]; [constructor|].
      constructor; [apply nearest_spec_nil; exact Hm|exact IHq].
    + apply Forall2_map_l, Forall2_map_r. cbn [fst snd]. rewrite <- Esv.
      assert (Hne : y0 :: sr <> []) by discriminate.
      pose proof (vf_interval_spec mode qv (y0 :: sr) Hm Hne Hsv Hqv) as H.
      eapply Forall2_impl'; [|exact H]. intros x r Hr. cbn beta.
      apply vf_spec_nearest; assumption.
  - specialize (IH (pre ++ filter (fun y => inb y iv) src)).
    rewrite app_length in IH. rewrite <- app_assoc in IH. exact IH.
Qed.

Theorem C06_end_to_end : forall mode qs src ep,
  (mode = 0 \/ mode = 1 \/ mode = 2) -> sortedZ qs -> sortedZ src -> canonical ep ->
  Forall2 (fun (xi : Z * (Z * Z)) r =>
             nearest_spec mode (fst xi) (filter (fun y => inb y (snd xi)) src)
               (option_map (fun j => nth j (restrict_ts src ep) 0) r))
          (queries_by_interval qs ep) (value_from mode qs src ep).
Proof.
  intros mode qs src ep Hm Hq Hs Hc.
  rewrite (value_from_structure mode qs src ep Hq Hs Hc), <- (sources_concat src ep Hs Hc).
  exact (vf_all_end_to_end mode qs src Hm Hq Hs ep []).
Qed.
Print Assumptions C06_end_to_end.

(* the queries answered are exactly, and in the order of, the restricted query array (the timestamps of the result) *)
Theorem C06_result_times : forall qs ep, sortedZ qs -> canonical ep ->
  map fst (queries_by_interval qs ep) = restrict_ts qs ep.
Proof.
  intros qs ep Hq Hc. rewrite <- (sources_concat qs ep Hq Hc). unfold queries_by_interval.
  induction ep as [|iv ep IH]; [reflexivity|]. cbn [flat_map map concat].
  rewrite map_app, map_map. cbn [fst]. rewrite map_id.
  destruct ep as [|iv2 ep2]; [cbn; reflexivity|].
  f_equal. apply IH. destruct iv as [s e]. cbn in Hc. tauto.
Qed.
Print Assumptions C06_result_times.

Example C06_end_to_end_nonvacuous :
  value_from 1 [0; 1; 2; 6; 9] [1; 1; 3; 5; 8] [(0, 4); (5, 9)] = [Some 1%nat; Some 1%nat; Some 2%nat; Some 3%nat; Some 4%nat]
  /\ queries_by_interval [0; 1; 2; 6; 9] [(0, 4); (5, 9)] = [(0, (0, 4)); (1, (0, 4)); (2, (0, 4)); (6, (5, 9)); (9, (5, 9))]
  /\ value_from 0 [0; 6] [1; 3] [(0, 4); (5, 9)] = [None; None].
Proof. vm_compute. intuition congruence. Qed.

(* ---------------- interpolate (partial: the numeric interpolation is NumPy's) ---------------- *)
(* _BaseTsd.interpolate transcribed: the result is NaN-initialised over ts.restrict(ep); for each interval (s, e) of ep, in order,
   t = ts.get(s, e), tmp = self.get(s, e), and when both are non-empty np.interp(t, tmp.t, tmp.values) fills the next len(t)
   cells.  np.interp is the section variable [interp] (queries, (time, value) samples) -> one value per query; None = NaN. *)
Section Interpolate.
  Variable V : Type.
  Variable interp : list Z -> list (Z * V) -> list (option V).

  Definition interp_block (t : list Z) (tmp : list (Z * V)) : list (option V) :=
    match t, tmp with
    | [], _ => []
    | _, [] => map (fun _ => None) t
    | _, _ => interp t tmp
    end.

  Definition interpolate_model (qs src : list Z) (rows : list V) (ep : iset) : list (option V) :=
    flat_map (fun iv : Z * Z =>
                let '(i0, i1) := get_range (fst iv) (snd iv) src in
                interp_block (get_times (fst iv) (snd iv) qs) (combine (slice i0 i1 src) (slice i0 i1 rows))) ep.
  Definition interpolate_times (qs : list Z) (ep : iset) : list Z :=
    flat_map (fun iv : Z * Z => get_times (fst iv) (snd iv) qs) ep.

  (* what the statement says about WHICH samples each value is computed from: the queries of interval iv are interpolated through
     the samples of b lying in iv and no others (never across intervals); an interval holding no sample of b gives NaN *)
  Theorem C06_interp_slices : forall qs src rows ep, sortedZ qs -> sortedZ src -> length rows = length src ->
    interpolate_model qs src rows ep =
    flat_map (fun iv => interp_block (filter (fun x => inb x iv) qs) (filter (fun tr => inb (fst tr) iv) (combine src rows))) ep.
  Proof.
    intros qs src rows ep Hq Hs Hl. unfold interpolate_model.
    induction ep as [|[s e] ep IH]; [reflexivity|]. cbn [flat_map fst snd]. rewrite IH. f_equal.
    pose proof (get_rows_spec V s e src rows Hs Hl) as Hr.
    destruct (get_range s e src) as [i0 i1]. rewrite Hr, (get_times_spec s e qs Hq). reflexivity.
  Qed.

  Theorem C06_interp_nan_iff_no_source : forall qs src rows iv, sortedZ qs -> sortedZ src -> length rows = length src ->
    filter (fun y => inb y iv) src = [] ->
    interpolate_model qs src rows [iv] = map (fun _ => None) (filter (fun x => inb x iv) qs).
  Proof.
    intros qs src rows iv Hq Hs Hl He. rewrite (C06_interp_slices qs src rows [iv] Hq Hs Hl). cbn [flat_map]. rewrite app_nil_r.
    assert (Hc : filter (fun tr : Z * V => inb (fst tr) iv) (combine src rows) = []).
    { clear - He. revert rows. induction src as [|y r IH]; intros rows; [reflexivity|]. destruct rows as [|v rows]; [reflexivity|].
      cbn [combine filter fst]. cbn [filter] in He. destruct (inb y iv); [discriminate|]. apply IH. exact He. }
    rewrite Hc. unfold interp_block. destruct (filter (fun x => inb x iv) qs); reflexivity.
  Qed.

  (* the timestamps of the result: the queries lying in ep, in the order of the restricted query array *)
  Theorem C06_interp_times : forall qs ep, sortedZ qs -> canonical ep -> interpolate_times qs ep = restrict_ts qs ep.
  Proof.
    intros qs ep Hq Hc. rewrite <- (sources_concat qs ep Hq Hc). unfold interpolate_times.
    clear Hc. induction ep as [|[s e] ep IH]; [reflexivity|]. cbn [flat_map map concat fst snd].
    rewrite IH, (get_times_spec s e qs Hq). reflexivity.
  Qed.
End Interpolate.
Print Assumptions C06_interp_slices.
Print Assumptions C06_interp_nan_iff_no_source.
Print Assumptions C06_interp_times.

(* ====================================================================================================
   Self lookup: a query instant that IS a source timestamp gets the source sample at exactly that instant, in
   every mode (before / closest / after) - x.value_from(x) returns x's own values, and a feature sampled at the
   instants of a subset of its own timestamps is read back unchanged. *)
Lemma vf_spec_hit mode x src r : (mode = 0 \/ mode = 1 \/ mode = 2) -> In x src -> vf_spec mode x src r ->
  exists j, r = Some j /\ (j < length src)%nat /\ nth j src 0 = x.
Proof.
  intros Hm Hin Hs. unfold vf_spec in Hs.
  destruct Hm as [->|[->| ->]]; cbn in Hs.
  - destruct r as [j|]; cbn in Hs.
    + destruct Hs as (Hj & Hle & Hall). exists j. split; [reflexivity|split; [exact Hj|]].
      rewrite Forall_forall in Hall. specialize (Hall x Hin). lia.
    + rewrite Forall_forall in Hs. specialize (Hs x Hin). lia.
  - destruct r as [j|]; cbn in Hs; [|contradiction].
    destruct Hs as (Hj & Hall). exists j. split; [reflexivity|split; [exact Hj|]].
    rewrite Forall_forall in Hall. specialize (Hall x Hin). lia.
  - destruct r as [j|]; cbn in Hs.
    + destruct Hs as (Hj & Hle & Hall). exists j. split; [reflexivity|split; [exact Hj|]].
      rewrite Forall_forall in Hall. specialize (Hall x Hin). lia.
    + rewrite Forall_forall in Hs. specialize (Hs x Hin). lia.
Qed.

Lemma Forall2_impl_in {A B} (P Q : A -> B -> Prop) l l' :
  (forall a b, In a l -> P a b -> Q a b) -> Forall2 P l l' -> Forall2 Q l l'.
Proof.
  intros H F. induction F as [|a b l l' Hab F IH]; constructor.
  - apply H; [left; reflexivity|exact Hab].
  - apply IH. intros a' b' Hin. apply H. right. exact Hin.
Qed.

Theorem C06_self_lookup : forall mode qs src,
  (mode = 0 \/ mode = 1 \/ mode = 2) -> src <> [] -> sortedZ src -> sortedZ qs ->
  (forall x, In x qs -> In x src) ->
  Forall2 (fun x r => exists j, r = Some j /\ (j < length src)%nat /\ nth j src 0 = x) qs (vf_interval mode qs src 0%nat).
Proof.
  intros mode qs src Hm Hne Hs Hq Hsub.
  eapply Forall2_impl_in; [|exact (C06_answers mode qs src Hm Hne Hs Hq)].
  intros x r Hin Hspec. cbv beta in *. apply (vf_spec_hit mode x src r Hm (Hsub x Hin) Hspec).
Qed.
Print Assumptions C06_self_lookup.

Example C06_self_lookup_nonvacuous :
  vf_interval 0 [10; 30] [10; 20; 30] 0%nat = [Some 0%nat; Some 2%nat]
  /\ vf_interval 1 [10; 30] [10; 20; 30] 0%nat = [Some 0%nat; Some 2%nat]
  /\ vf_interval 2 [10; 30] [10; 20; 30] 0%nat = [Some 0%nat; Some 2%nat].
Proof. vm_compute. repeat split; reflexivity. Qed.
