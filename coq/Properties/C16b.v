(* C16, tie by PROOF: the kernel TEXT of _cross_correlogram (Gen/Kernels.v, regenerated from /repo's source on every run)
   computes exactly the functional model of Model/Correlogram.v used by the C16 theorems: the per-bin rates
   count / (n_ref * binsize) of xcorr_counts and the bin centres (half-tick rationals), for every pair of trains (sorted or
   not) and every bin size b > 0 and window w with  round9_exact b w  - in particular for EVERY bin size below 2 s -
   whenever the interpreter terminates within its fuel (termination: Properties/C15b.v).
   The hypothesis is sharp: the kernel takes  nbins = floor(np.round(2w/b, 9)), so when 2w/b lies within 0.5e-9 below an
   integer (possible on nanosecond ticks only for b >= 2 s: b = 4 s, w = 3.999999999 s) it uses two more bins than the
   window admits; C16_kernel_text_round9_refuted records the computed witness (known finding of C16).
   Proof in Inv/Cross_correlogram_func.v. *)
From Coq Require Import ZArith List.
From Verif Require Import Base.Prelude Model.Correlogram Jit.Lang Jit.Interp Gen.Kernels.
From Verif Require Import Inv.Jitrestrict_func Inv.Jitfix_iset_func Inv.Cross_correlogram_func.
Import ListNotations.

Theorem C16_kernel_text_computes_model : forall t1 t2 b w fuel, 0 < b -> round9_exact b w ->
  match run fuel k__cross_correlogram (xcorr_args t1 t2 b w) with
  | Return rs => rs = xcorr_result t1 t2 b w
  | OutOfFuel => True
  | _ => False
  end.
Proof. exact k__cross_correlogram_computes_model. Qed.
Print Assumptions C16_kernel_text_computes_model.

Theorem C16_kernel_text_computes_model_bins_below_2s : forall t1 t2 b w fuel, 0 < b < 2000000000 ->
  match run fuel k__cross_correlogram (xcorr_args t1 t2 b w) with
  | Return rs => rs = xcorr_result t1 t2 b w
  | OutOfFuel => True
  | _ => False
  end.
Proof. exact k__cross_correlogram_computes_model_small_bins. Qed.
Print Assumptions C16_kernel_text_computes_model_bins_below_2s.

Theorem C16_kernel_text_spec : forall t1 t2 b w fuel,
  0 < b -> 0 <= w -> round9_exact b w -> sortedZ t1 -> sortedZ t2 ->
  match run fuel k__cross_correlogram (xcorr_args t1 t2 b w) with
  | Return rs => rs = [Ar (A1 DFlt (rate_cells (length t1) b (xcorr_spec t1 t2 b w)));
                       Ar (A1 DFlt (hcells (xcorr_centres2 b w)))]
  | OutOfFuel => True
  | _ => False
  end.
Proof. exact k__cross_correlogram_spec. Qed.
Print Assumptions C16_kernel_text_spec.

Theorem C16_kernel_text_round9_refuted :
  let t1 := [1000000000; 5000000000] in let t2 := [0; 2000000000; 4999999999; 9000000000] in
  let b := 4000000000 in let w := 3999999999 in
  0 < b /\ 0 <= w /\ ~ round9_exact b w /\ length (xcorr_counts t1 t2 b w) = 1%nat /\
  exists c0 c1 c2 B, run 5000 k__cross_correlogram (xcorr_args t1 t2 b w)
                     = Return [Ar (A1 DFlt [c0; c1; c2]); Ar (A1 DFlt B)].
Proof. exact round9_hypothesis_is_needed. Qed.
Print Assumptions C16_kernel_text_round9_refuted.

(* TOTAL correctness (Inv/Cross_correlogram_functotal.v). *)
From Verif Require Inv.Cross_correlogram_functotal.
Theorem C16_kernel_text_total : forall t1 t2 b w, 0 < b -> round9_exact b w ->
  exists fuel, run fuel k__cross_correlogram (xcorr_args t1 t2 b w) = Return (xcorr_result t1 t2 b w).
Proof. exact Cross_correlogram_functotal.k__cross_correlogram_total. Qed.
Print Assumptions C16_kernel_text_total.

(* _jitcontinuous_perievent (the kernel behind compute_perievent_continuous): its TEXT computes pc_kernel of Model/Perievent.v - for every
   reference event the window (start, stop, first row) in the restricted sample array - together with the restriction indices, for raw
   (unsorted allowed) arrays and every interval list with start <= end (needed: computed counter-example in the proof file); TOTAL
   correctness.  The two calls to jitrestrict_with_count inside the kernel are discharged with that kernel's functional contract.
   Proof in Inv/Jitcontinuous_perievent_func.v. *)
From Verif Require Import Model.Restrict Model.Perievent.
From Verif Require Import Inv.Jitcontinuous_perievent_func.
Theorem C16_continuous_kernel_text_computes_model : forall ts tref ep n0 n1 fuel,
  Forall (fun I => fst I <= snd I) ep ->
  match run fuel k__jitcontinuous_perievent (pc_args ts tref ep n0 n1) with
  | Return rs => rs = pc_result (restrict_idx ts ep) (pc_kernel ts tref ep n0 n1)
  | OutOfFuel => True
  | _ => False
  end.
Proof. exact k__jitcontinuous_perievent_computes_model. Qed.
Print Assumptions C16_continuous_kernel_text_computes_model.

Theorem C16_continuous_kernel_text_total : forall ts tref ep n0 n1,
  Forall (fun I => fst I <= snd I) ep ->
  exists fuel, run fuel k__jitcontinuous_perievent (pc_args ts tref ep n0 n1)
               = Return (pc_result (restrict_idx ts ep) (pc_kernel ts tref ep n0 n1)).
Proof. exact k__jitcontinuous_perievent_total. Qed.
Print Assumptions C16_continuous_kernel_text_total.
