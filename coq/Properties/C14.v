(* C14 — NumPy functions on time series compute what NumPy computes, time axis intact.   PARTIAL.
   Statements only; proofs in Proofs/NpWrapProofs.v; model in Model/NpWrap.v.
   What NumPy computes is a PARAMETER f of every wrapper theorem (a universally quantified function
   arr -> npres with the single visible law "an array result fills its shape"); the numerical commuting
   diagram is therefore a theorem about pynapple's wrapper only, tied to /repo by the correspondence check.
   WF x = sorted timestamps inside a canonical support (empty series: empty support), cells fill the
   shape, axis 0 = number of timestamps, class given by the rank, one label per column.
   Clauses of the statement that are FALSE of the faithful model carry a `_refuted` witness (each replays
   on /repo; recorded as known findings).  Follows /repo as repaired (0-d results, multi-output ufuncs,
   np.array_split).  Not modelled: in-place operators / out= holding the series (the code recurses), metadata. *)
From Verif Require Import Base.Prelude Model.Restrict Model.Iset Model.Count Model.Slice Model.NpWrap
  Proofs.C02Top Proofs.NpWrapProofs.
From Coq Require Import Sorting.Sorted.

(* 1. the wrapper never touches the numbers: whatever comes back (time series, raw array, scalar/tuple) holds
      exactly f applied to x's raw array *)
Theorem C14_wrap_values : forall (V W : Type) (f : arr V -> npres V W),
  (forall a b, f a = NArr b -> wf_arr b) ->
  forall (x : ts V) (r : npres V W), WF x -> as_npres (wrap f x) = Some r -> r = f (dat x).
Proof. exact @wrap_values. Qed.
Print Assumptions C14_wrap_values.

(* 2. a result that is a time series carries x's timestamps and time support unchanged *)
Theorem C14_wrap_time : forall (V W : Type) (f : arr V -> npres V W),
  (forall a b, f a = NArr b -> wf_arr b) ->
  forall x r : ts V, WF x -> wrap f x = OTs r -> t_of r = t_of x /\ sup_of r = sup_of x.
Proof. exact @wrap_time. Qed.
Print Assumptions C14_wrap_time.

(* 3. for ALL functions and ALL shapes: time is re-attached iff the result's axis 0 has the length of the
      index - including the ambiguous square shapes - and otherwise the raw array is returned *)
Theorem C14_wrap_ts_iff : forall (V W : Type) (f : arr V -> npres V W),
  (forall a b, f a = NArr b -> wf_arr b) ->
  forall (x : ts V) (a : arr V) (n0 : nat) (s : list nat),
  WF x -> f (dat x) = NArr a -> shape a = n0 :: s ->
  ((exists r, wrap f x = OTs r) <-> n0 = length (t_of x))
  /\ (n0 <> length (t_of x) -> wrap f x = OArr a).
Proof. exact @wrap_ts_iff. Qed.
Print Assumptions C14_wrap_ts_iff.

Theorem C14_wrap_scalar_passthrough : forall (V W : Type) (f : arr V -> npres V W) (x : ts V) (o : W),
  f (dat x) = NOther o -> wrap f x = OOther o.
Proof. exact @wrap_other. Qed.
Print Assumptions C14_wrap_scalar_passthrough.

(* a 0-d array result (np.squeeze on a series of length 1) is returned as it is *)
Theorem C14_zero_dim_passthrough : forall (V W : Type) (f : arr V -> npres V W) (x : ts V) (a : arr V),
  f (dat x) = NArr a -> shape a = [] -> wrap f x = OArr a.
Proof. exact @wrap_zero_dim. Qed.
Print Assumptions C14_zero_dim_passthrough.

(* 4. class by rank; column labels kept iff TsdFrame -> TsdFrame with the same number of columns *)
Theorem C14_wrap_class_columns : forall (V W : Type) (f : arr V -> npres V W),
  (forall a b, f a = NArr b -> wf_arr b) ->
  forall x r : ts V, WF x -> wrap f x = OTs r ->
  kls r = get_class (dat r)
  /\ (kls r = CFrame ->
      cols r = if match kls x with CFrame => (ncols (dat r) =? ncols (dat x))%nat | _ => false end
               then cols x else default_cols (ncols (dat r))).
Proof. exact @wrap_class_cols. Qed.
Print Assumptions C14_wrap_class_columns.

(* 5. element-wise (shape-preserving) operations ALWAYS return a time series of x's class with x's
      timestamps, support and column labels *)
Theorem C14_elementwise_returns_ts : forall (V W : Type) (f : arr V -> npres V W),
  (forall a b, f a = NArr b -> wf_arr b) ->
  forall (x : ts V) (b : arr V), WF x -> f (dat x) = NArr b -> shape b = shape (dat x) ->
  exists r, wrap f x = OTs r /\ kls r = kls x /\ t_of r = t_of x /\ sup_of r = sup_of x /\ dat r = b
            /\ (kls x = CFrame -> cols r = cols x).
Proof. exact @elementwise_returns_ts. Qed.
Print Assumptions C14_elementwise_returns_ts.

(* 6. reductions / cumulative / reshaping functions by their shape law: axis 0 kept => a time series;
      axis 0 removed => a time series exactly when the next axis happens to have the length of the index *)
Theorem C14_keeps_axis0 : forall (V W : Type) (f : arr V -> npres V W),
  (forall a b, f a = NArr b -> wf_arr b) ->
  forall (x : ts V) (b : arr V) (s' : list nat), WF x -> f (dat x) = NArr b -> shape b = length (t_of x) :: s' ->
  exists r, wrap f x = OTs r /\ t_of r = t_of x /\ sup_of r = sup_of x /\ dat r = b.
Proof. exact @keeps_axis0_ts. Qed.
Print Assumptions C14_keeps_axis0.

Theorem C14_drops_axis0_square_ambiguity : forall (V W : Type) (f : arr V -> npres V W),
  (forall a b, f a = NArr b -> wf_arr b) ->
  forall (x : ts V) (b : arr V) (m : nat) (s' : list nat), WF x -> f (dat x) = NArr b -> shape b = m :: s' ->
  ((exists r, wrap f x = OTs r) <-> m = length (t_of x)).
Proof. exact @drops_axis0_ts_iff_square. Qed.
Print Assumptions C14_drops_axis0_square_ambiguity.

(* 7. the ufunc protocol is the same wrapper; two operands of x's own class, ufunc methods other than
      __call__, the sort family and np.fft are refused; a method x.f(..) is np.f(x, ..) *)
Theorem C14_ufunc_protocol : forall (V W : Type) (f : arr V -> npres V W) (x : ts V),
  (array_ufunc x true 1 f = wrap f x /\ array_ufunc x true 0 f = wrap f x)
  /\ (forall n, (2 <= n)%nat -> array_ufunc x true n f = ORefused)
  /\ (forall n, array_ufunc x false n f = ORefused)
  /\ (array_function x FExcluded f = ORefused /\ array_function x FFft f = ORefused)
  /\ (forall k, method_call x k f = array_function x k f).
Proof.
  intros V W f x. split; [apply ufunc_is_wrap|]. split; [apply ufunc_same_class_refused|].
  split; [apply ufunc_method_refused|]. split; [apply excluded_refused|apply method_is_function].
Qed.
Print Assumptions C14_ufunc_protocol.

(* 7b. ufuncs with several outputs (np.modf, np.frexp, np.divmod): every output goes through the wrapper of
       clauses 1-6 on its own; element-wise outputs all come back as time series of x's class on x's time axis *)
Theorem C14_ufunc_multi_output : forall (V W : Type) (x : ts V) (n : nat) (f : arr V -> list (npres V W)),
  ((n <= 1)%nat -> array_ufunc_multi x true n f = Some (map (fun r => wrap (fun _ => r) x) (f (dat x))))
  /\ array_ufunc_multi x false n f = None /\ ((2 <= n)%nat -> array_ufunc_multi x true n f = None).
Proof. intros V W x n f. split; [apply ufunc_multi_is_wrap|apply ufunc_multi_refused]. Qed.
Print Assumptions C14_ufunc_multi_output.

Theorem C14_ufunc_multi_elementwise : forall (V W : Type) (x : ts V) (n : nat) (f : arr V -> list (npres V W)),
  WF x -> (n <= 1)%nat ->
  Forall (fun r => exists b, r = NArr b /\ wf_arr b /\ shape b = shape (dat x)) (f (dat x)) ->
  exists ys, array_ufunc_multi x true n f = Some (map OTs ys) /\ Forall2 (ew_output x) (f (dat x)) ys.
Proof. exact @ufunc_multi_elementwise. Qed.
Print Assumptions C14_ufunc_multi_elementwise.

(* 8. operands of two different classes: the numbers are NumPy's, the time axis is the outer operand's *)
Theorem C14_mixed_values : forall (V W : Type) (g : arr V -> arr V -> npres V W),
  (forall a b c, g a b = NArr c -> wf_arr c) ->
  forall (xo xi : ts V) (r : npres V W), WF xo -> WF xi ->
  as_npres (mixed_ufunc xo xi g) = Some r -> r = g (dat xo) (dat xi).
Proof. exact @mixed_values. Qed.
Print Assumptions C14_mixed_values.

Theorem C14_mixed_time : forall (V W : Type) (g : arr V -> arr V -> npres V W),
  (forall a b c, g a b = NArr c -> wf_arr c) ->
  forall xo xi r : ts V, WF xo -> WF xi -> mixed_ufunc xo xi g = OTs r ->
  t_of r = t_of xo /\ sup_of r = sup_of xo.
Proof. exact @mixed_time. Qed.
Print Assumptions C14_mixed_time.

(* 9. concatenation along time (operands all time series of one class and row shape, some operand after the
      first holds a sample; NumPy's row-major concatenate = cat0): it succeeds ONLY IF the timestamps strictly
      increase across the operands (every earlier one before every later one: no overlap); and IF they do
      - and lie in the union of the supports - the result has time = append, support = the folded
      IntervalSet.union, rows = append, the first operand's column labels *)
Theorem C14_concat_time : forall (V W : Type) (x0 : ts V) (rest : list (ts V)) (k : cls) (s : list nat),
  let xs := x0 :: rest in
  let ti := concat (map t_of xs) in
  let U := fold_left iset_union (map sup_of rest) (sup_of x0) in
  Forall WF xs -> Forall (same_kind k s) xs -> (length (t_of x0) < length ti)%nat ->
  ((exists r : ts V, @concat_tsd V W (map inl xs) (cat0 (map dat xs)) = OTs r) -> StronglySorted Z.lt ti)
  /\ (StronglySorted Z.lt ti -> all_in ti U ->
      exists r : ts V, @concat_tsd V W (map inl xs) (cat0 (map dat xs)) = OTs r
        /\ kls r = k /\ t_of r = ti /\ sup_of r = U
        /\ shape (dat r) = length ti :: s /\ cells (dat r) = concat (map (fun x => cells (dat x)) xs)
        /\ (k = CFrame -> cols r = cols x0)).
Proof. exact @concat_time_rows. Qed.
Print Assumptions C14_concat_time.

Theorem C14_concat_order_is_no_overlap : forall l1 l2 : list Z,
  StronglySorted Z.lt (l1 ++ l2) <->
  StronglySorted Z.lt l1 /\ StronglySorted Z.lt l2 /\ (forall a b, In a l1 -> In b l2 -> a < b).
Proof. exact StronglySorted_app_iff. Qed.
Print Assumptions C14_concat_order_is_no_overlap.

(* the support hypothesis, discharged for two operands whose timestamps are farther than 1 us from every
   endpoint of the two supports (IntervalSet.union trims touching intervals by 1 us: C01/C02) *)
Theorem C14_concat_support_two : forall (V : Type) (x y : ts V), WF x -> WF y ->
  Forall (fun t => far t (sup_of x) (sup_of y)) (t_of x ++ t_of y) ->
  all_in (concat (map t_of [x; y])) (fold_left iset_union (map sup_of [y]) (sup_of x)).
Proof. exact @all_in_union2. Qed.
Print Assumptions C14_concat_support_two.

(* ... and for ANY number of operands, under a hypothesis on the STARTS only: no timestamp lies in the closed microsecond
   [p - 1 us, p] before a start p of an operand's support (the only place where the constructor behind IntervalSet.union
   trims).  Not the exact statement either - a timestamp AT a start is excluded although it is kept - but it needs
   nothing about ends and covers every operand list of the harness whose timestamps stay clear of the starts *)
Theorem C14_concat_support_all : forall (V : Type) (x0 : ts V) (rest : list (ts V)),
  Forall WF (x0 :: rest) ->
  Forall (fun t => Forall (fun x => clear_of_starts t (sup_of x)) (x0 :: rest)) (concat (map t_of (x0 :: rest))) ->
  all_in (concat (map t_of (x0 :: rest))) (fold_left iset_union (map sup_of rest) (sup_of x0)).
Proof. exact @all_in_union_all. Qed.
Print Assumptions C14_concat_support_all.

(* 10. splitting along time (np.split / np.array_split / np.vsplit) at sorted indices, into N equal sections,
       or - np.array_split - into ANY number N > 0 of sections: every piece is a time series of x's class with
       x's support and labels, holding exactly the timestamps AND the rows of its positions; the pieces
       partition the timestamps together with the data.  np.split into sections that do not divide the length
       is rejected (as NumPy rejects it) *)
Theorem C14_split_sections : forall (V W : Type) (x : ts V) (array_split : bool) (N : nat),
  WF x -> (0 < N)%nat -> (array_split = true \/ (length (t_of x) mod N = 0)%nat) ->
  exists pts rs, np_div_points (negb array_split) (inl N) (length (t_of x)) = Some (0%nat :: pts)
    /\ @split_tsd V W x array_split (inl N) = inl (map OTs rs)
    /\ Forall2 (piece_ok x) (bounds (0%nat :: pts)) rs
    /\ concat (map t_of rs) = t_of x
    /\ concat (map (fun r => cells (dat r)) rs) = cells (dat x)
    /\ concat (map (fun r => combine (t_of r) (rows (dat r))) rs) = combine (t_of x) (rows (dat x)).
Proof. exact @split_sections_partition. Qed.
Print Assumptions C14_split_sections.

Theorem C14_split_uneven_rejected : forall (V W : Type) (x : ts V) (N : nat),
  (0 < N)%nat -> (length (t_of x) mod N <> 0)%nat -> @split_tsd V W x false (inl N) = inr EValueSplit.
Proof. exact @split_uneven_rejected. Qed.
Print Assumptions C14_split_uneven_rejected.

Theorem C14_split_indices : forall (V W : Type) (x : ts V) (array_split : bool) (ix : list nat),
  WF x -> nd_le (length (t_of x)) 0 ix ->
  exists rs, @split_tsd V W x array_split (inr ix) = inl (map OTs rs)
    /\ Forall2 (piece_ok x) (bounds (0%nat :: ix ++ [length (t_of x)])) rs
    /\ concat (map t_of rs) = t_of x
    /\ concat (map (fun r => cells (dat r)) rs) = cells (dat x)
    /\ concat (map (fun r => combine (t_of r) (rows (dat r))) rs) = combine (t_of x) (rows (dat x)).
Proof. exact @split_indices_partition. Qed.
Print Assumptions C14_split_indices.

(* np.hsplit / np.dsplit: every piece goes through the wrapper of clauses 1-6 with x's whole index *)
Theorem C14_split_other_axis : forall (V W : Type) (x : ts V) (pcs : list (arr V)),
  @split_other V W x pcs = map (fun d => wrap (fun _ => NArr d) x) pcs.
Proof. exact @split_other_is_wrap. Qed.
Print Assumptions C14_split_other_axis.

(* ---- clauses that are false of the faithful model: witnesses (candidate findings, replayed on /repo) ---- *)
Theorem C14_hsplit_1d_refuted :
  exists (x : ts Z) (p1 p2 : arr Z),
    WF x /\ cells p1 ++ cells p2 = cells (dat x) /\ @split_other Z unit x [p1; p2] = [OArr p1; OArr p2].
Proof. exact hsplit_1d_witness. Qed.
Print Assumptions C14_hsplit_1d_refuted.

(* the time axis spelled as a negative axis: _split_tsd tests `axis == 0` literally (axis 0 itself is split_tsd) *)
Theorem C14_split_axis0_is_split : forall (V W : Type) (x : ts V) (b : bool) (ios : nat + list nat) (pcs : list (arr V)),
  @split_tsd_axis V W x b ios 0 pcs = split_tsd x b ios.
Proof. exact @split_axis0. Qed.
Print Assumptions C14_split_axis0_is_split.

Theorem C14_split_negative_axis_refuted :
  exists (x : ts Z) (r1 r2 : ts Z),
    WF x /\ ndim (dat x) = 1%nat
    /\ @split_tsd Z unit x false (inl 2%nat) = inl [OTs r1; OTs r2] /\ t_of r1 ++ t_of r2 = t_of x
    /\ @split_tsd_axis Z unit x false (inl 2%nat) (-1) [dat r1; dat r2] = inl [OArr (dat r1); OArr (dat r2)].
Proof. exact split_negative_axis_witness. Qed.
Print Assumptions C14_split_negative_axis_refuted.

(* "carries x's timestamps": stacking along another axis two frames whose time axes differ by 1 ns returns a frame on the
   first operand's timestamps *)
Theorem C14_concat_time_equal_1ns_refuted :
  exists (x y r : ts Z) (outp : arr Z),
    WF x /\ WF y /\ sup_of y = sup_of x /\ t_of y <> t_of x /\ shape outp = [2; 4]%nat /\ wf_arr outp
    /\ @concat_tsd Z unit [inl x; inl y] outp = OTs r /\ t_of r = t_of x /\ t_of r <> t_of y.
Proof. exact concat_time_1ns_witness. Qed.
Print Assumptions C14_concat_time_equal_1ns_refuted.

(* "unions the supports" for three operands: the pairwise fold leaves a gap the union does not have *)
Theorem C14_concat_fold_union_refuted :
  exists (x y z r : ts Z) (t0 : Z),
    WF x /\ WF y /\ WF z /\ strictly_incb (t_of x ++ t_of y ++ t_of z) = true
    /\ (forall t, In t (t_of x ++ t_of y ++ t_of z) -> mem t (sup_of x) || mem t (sup_of y) || mem t (sup_of z) = true)
    /\ (forall t, -1000 <= t <= 9000 -> mem t (sup_of x) || mem t (sup_of y) || mem t (sup_of z) = true)
    /\ @concat_tsd Z unit [inl x; inl y; inl z] (cat0 [dat x; dat y; dat z]) = OTs r
    /\ In t0 (t_of x) /\ ~ In t0 (t_of r) /\ mem t0 (sup_of r) = false.
Proof. exact concat_fold_union_witness. Qed.
Print Assumptions C14_concat_fold_union_refuted.

Theorem C14_concat_empty_operand_refuted :
  exists x e : ts Z, WF x /\ WF e /\ strictly_incb (t_of x ++ t_of e) = true
    /\ @concat_tsd Z unit [inl x; inl e] (cat0 [dat x; dat e]) = OErr EValueBroadcast.
Proof. exact concat_empty_operand_witness. Qed.
Print Assumptions C14_concat_empty_operand_refuted.

Theorem C14_concat_rank_changes_refuted :
  exists (x y : ts Z) (outp : arr Z), WF x /\ WF y /\ shape outp = [2; 2]%nat /\ wf_arr outp
    /\ @concat_tsd Z unit [inl x; inl y] outp = OErr EAssertDim
    /\ exists (y' z' : ts Z) (outp' : arr Z), WF y' /\ WF z' /\ shape outp' = [3; 2]%nat /\ wf_arr outp'
         /\ strictly_incb (t_of x ++ t_of y' ++ t_of z') = true
         /\ @concat_tsd Z unit [inl x; inl y'; inl z'] outp' = OErr EAssertLen.
Proof. exact concat_rank_witness. Qed.
Print Assumptions C14_concat_rank_changes_refuted.

Theorem C14_mixed_class_columns_refuted :
  exists (xo xi : ts Z) (g : arr Z -> arr Z -> npres Z unit) (r : ts Z),
    WF xo /\ WF xi /\ kls xi = CFrame /\ mixed_ufunc xo xi g = OTs r /\ kls r = CFrame
    /\ ncols (dat r) = ncols (dat xi) /\ cols xi = [10; 11] /\ cols r = [0; 1].
Proof. exact mixed_columns_witness. Qed.
Print Assumptions C14_mixed_class_columns_refuted.

(* non-vacuity: a well-formed 2 x 2 TsdFrame (square: axis 1 as long as time); a reduction over axis 0
   comes back as a Tsd on x's time axis, a reduction over everything as a scalar; two such frames in
   sequence concatenate, the same frame twice does not *)
Example C14_nonvacuous :
  let x := mkTs CFrame [0; 10] [(-1, 11)] (mkArr [2; 2]%nat [1; 2; 3; 4]) [7; 8] in
  let y := mkTs CFrame [20; 30] [(15, 31)] (mkArr [2; 2]%nat [5; 6; 7; 8]) [9; 9] in
  (sortedZ (t_of x) /\ canonical (sup_of x) /\ all_in (t_of x) (sup_of x) /\ wf_arr (dat x))
  /\ @wrap Z unit (fun a => NArr (mkArr [2%nat] [4; 6])) x = OTs (mkTs CTsd [0; 10] [(-1, 11)] (mkArr [2%nat] [4; 6]) [])
  /\ @wrap Z unit (fun a => NOther tt) x = OOther tt
  /\ @concat_tsd Z unit [inl x; inl y] (cat0 [dat x; dat y])
     = OTs (mkTs CFrame [0; 10; 20; 30] [(-1, 11); (15, 31)] (mkArr [4; 2]%nat [1; 2; 3; 4; 5; 6; 7; 8]) [7; 8])
  /\ @concat_tsd Z unit [inl x; inl x] (cat0 [dat x; dat x]) = OErr ERuntimeOrder.
Proof. vm_compute. repeat split; try (intro; discriminate); try lia; repeat constructor. Qed.
