(* C18 — convolution and filtering act per epoch, linearly, and keep the time axis.
   Statements only; proofs in Proofs/ConvolveProofs.v.  Values are integers (every identity below is a
   commutative-ring identity; a rational kernel is an integer kernel over a common denominator u).
   np.searchsorted left/right = ss_left/ss_right (counts, C08).  [lin a b x y] = a*x + b*y.
   PARTIAL for Butterworth: scipy's sosfiltfilt is an unknown function F of the epoch's slice; the
   premises [len_pres F] (and [lin_op F] for linearity) are visible in the closed statements.
   Not modelled: scipy's choice between direct and FFT convolution, the gaussian / sinc coefficient values
   (kernels are universally quantified), float rounding of real-valued kernels. *)
From Verif Require Import Base.Prelude Model.Restrict Model.Count Model.Slice Model.Convolve
  Proofs.ConvolveProofs.

(* 1. the model's [conv] is NumPy's full convolution: length n + k - 1, entry n = sum_i x[i] k[n-i] *)
Theorem C18_conv_is_numpy_full : forall x k, x <> [] ->
  length (conv x k) = (length x + length k - 1)%nat
  /\ forall n, (n < length x + length k - 1)%nat -> nth n (conv x k) 0 = conv_sum x k n.
Proof. exact conv_full_spec. Qed.
Print Assumptions C18_conv_is_numpy_full.

(* 2. bilinear *)
Theorem C18_conv_linear_in_signal : forall a b x y k, length x = length y ->
  conv (lin a b x y) k = lin a b (conv x k) (conv y k).
Proof. exact conv_linear_signal. Qed.
Print Assumptions C18_conv_linear_in_signal.

Theorem C18_conv_linear_in_kernel : forall a b x k1 k2, length k1 = length k2 ->
  conv x (lin a b k1 k2) = lin a b (conv x k1) (conv x k2).
Proof. exact conv_linear_kernel. Qed.
Print Assumptions C18_conv_linear_in_kernel.

(* 3. the trim indices of _convolve: 'left' drops the first k-1 entries, 'right' the last k-1,
      'both' the first c and the last k-1-c with c = (k-1)//2 (k = 2c+1 or 2c+2); always t entries remain *)
Theorem C18_cut_indices : forall k t, (1 <= k)%nat ->
  cut TLeft k t = ((k - 1)%nat, (k - 1 + t)%nat) /\ cut TRight k t = (0%nat, t)
  /\ (exists c, cut TBoth k t = (c, (c + t)%nat) /\ (k = 2 * c + 1 \/ k = 2 * c + 2)%nat).
Proof. exact cut_spec. Qed.
Print Assumptions C18_cut_indices.

Theorem C18_trim_length : forall m kern w, kern <> [] -> length (conv_window m kern w) = length w.
Proof. exact conv_window_length. Qed.
Print Assumptions C18_trim_length.

(* 4. within an interval: output sample i = entry (offset + i) of NumPy's full convolution of that
      interval's samples with the kernel (also for intervals shorter than the kernel) *)
Theorem C18_window_is_trimmed_full : forall m kern w i, kern <> [] -> (i < length w)%nat ->
  nth i (conv_window m kern w) 0 = conv_sum w kern (fst (cut m (length kern) (length w)) + i).
Proof. exact conv_window_is_trimmed_full. Qed.
Print Assumptions C18_window_is_trimmed_full.

(* 5. time axis kept: one output row per input timestamp (timestamps and support are passed through) *)
Theorem C18_time_axis_kept : forall ts col ep kern m, kern <> [] -> length col = length ts -> canonical ep ->
  length (convolve_epochs ts col ep kern m) = length ts.
Proof. exact convolve_epochs_length. Qed.
Print Assumptions C18_time_axis_kept.

(* convolve(array, ep=ep): timestamps = the input's timestamps inside ep, one output row each *)
Theorem C18_time_axis_ep_argument : forall ts col ep kern m, sortedZ ts -> canonical ep -> kern <> [] ->
  length col = length ts ->
  fst (convolve_arg ts col ep kern m) = filter (fun t => mem t ep) ts
  /\ sortedZ (fst (convolve_arg ts col ep kern m))
  /\ length (snd (convolve_arg ts col ep kern m)) = length (fst (convolve_arg ts col ep kern m)).
Proof. exact convolve_arg_time_axis. Qed.
Print Assumptions C18_time_axis_ep_argument.

(* ... and through the time support (which holds every sample): EXACTLY the input's timestamps, one output row each *)
Theorem C18_time_axis_support_route : forall ts col ep kern m, sortedZ ts -> canonical ep -> kern <> [] ->
  length col = length ts -> Forall (fun t => mem t ep = true) ts ->
  fst (convolve_arg ts col ep kern m) = ts
  /\ length (snd (convolve_arg ts col ep kern m)) = length ts.
Proof. exact convolve_support_route_time_axis. Qed.
Print Assumptions C18_time_axis_support_route.

(* 6. per epoch: the rows of interval (s,e) are the trimmed full convolution of that interval's rows *)
Theorem C18_epoch_window : forall ts col pre s e post kern m, kern <> [] -> length col = length ts ->
  canonical (pre ++ (s, e) :: post) ->
  slice (ss_left s ts) (ss_right e ts) (convolve_epochs ts col (pre ++ (s, e) :: post) kern m)
  = conv_window m kern (slice (ss_left s ts) (ss_right e ts) col).
Proof. exact convolve_epochs_window. Qed.
Print Assumptions C18_epoch_window.

(* ... where the interval's rows are exactly the samples with s <= t <= e *)
Theorem C18_window_is_epoch_samples : forall ts col s e, sortedZ ts -> length col = length ts ->
  slice (ss_left s ts) (ss_right e ts) col
  = map snd (filter (fun tr : Z * Z => (s <=? fst tr) && (fst tr <=? e)) (combine ts col)).
Proof. exact window_is_epoch_samples. Qed.
Print Assumptions C18_window_is_epoch_samples.

(* 7. independence: two signals that agree on an interval have outputs that agree on that interval,
      whatever they hold in the other intervals *)
Theorem C18_epoch_independent : forall ts col col' pre s e post kern m, kern <> [] ->
  length col = length ts -> length col' = length ts -> canonical (pre ++ (s, e) :: post) ->
  slice (ss_left s ts) (ss_right e ts) col = slice (ss_left s ts) (ss_right e ts) col' ->
  slice (ss_left s ts) (ss_right e ts) (convolve_epochs ts col (pre ++ (s, e) :: post) kern m)
  = slice (ss_left s ts) (ss_right e ts) (convolve_epochs ts col' (pre ++ (s, e) :: post) kern m).
Proof. exact convolve_epochs_independent. Qed.
Print Assumptions C18_epoch_independent.

(* an interval of the support holding no sample is left alone: the result is what it is without that interval
   (the code: `if t == 0: continue`, cf7fba4) *)
Theorem C18_empty_epoch_left_alone : forall ts col pre s e post kern m, kern <> [] ->
  ss_left s ts = ss_right e ts ->
  convolve_epochs ts col (pre ++ (s, e) :: post) kern m = convolve_epochs ts col (pre ++ post) kern m.
Proof. exact convolve_epochs_empty_epoch. Qed.
Print Assumptions C18_empty_epoch_left_alone.

(* 8. linear in the signal (and in the kernel) over any set of epochs *)
Theorem C18_linear_in_signal : forall ts a b x y ep kern m, kern <> [] -> length x = length y ->
  convolve_epochs ts (lin a b x y) ep kern m
  = lin a b (convolve_epochs ts x ep kern m) (convolve_epochs ts y ep kern m).
Proof. exact convolve_epochs_linear. Qed.
Print Assumptions C18_linear_in_signal.

Theorem C18_linear_in_kernel : forall ts col ep a b k1 k2 m, length k1 = length k2 ->
  convolve_epochs ts col ep (lin a b k1 k2) m
  = lin a b (convolve_epochs ts col ep k1 m) (convolve_epochs ts col ep k2 m).
Proof. exact convolve_epochs_linear_kernel. Qed.
Print Assumptions C18_linear_in_kernel.

(* 9. 1-D / 2-D kernels, Tsd / TsdFrame / TsdTensor (columns flattened): entry (i, j) of the result is data
      column i convolved with kernel column j - so columns keep their position (labels) - and the shape is
      (rows, data columns, kernel columns) *)
Theorem C18_frame_shape : forall ts cols ep kerns m,
  Forall (fun c => length c = length ts) cols -> Forall (fun k => k <> []) kerns -> canonical ep ->
  length (convolve_frame ts cols ep kerns m) = length cols
  /\ Forall (fun row => length row = length kerns /\ Forall (fun c => length c = length ts) row)
            (convolve_frame ts cols ep kerns m).
Proof. exact convolve_frame_shape. Qed.
Print Assumptions C18_frame_shape.

Theorem C18_frame_entry : forall ts cols ep kerns m i j,
  nth j (nth i (convolve_frame ts cols ep kerns m) []) []
  = if ((i <? length cols) && (j <? length kerns))%nat
    then convolve_epochs ts (nth i cols []) ep (nth j kerns []) m else [].
Proof. exact convolve_frame_entry. Qed.
Print Assumptions C18_frame_entry.

(* 10. windowed-sinc: high-pass = spectral inversion of low-pass; on every interval low-pass + high-pass
       outputs sum to (u times) the input, for EVERY kernel of odd length (the sinc coefficients are irrelevant) *)
Theorem C18_lowpass_plus_highpass : forall ts col pre s e post u kern c, length kern = (2 * c + 1)%nat ->
  length col = length ts -> canonical (pre ++ (s, e) :: post) ->
  vadd (slice (ss_left s ts) (ss_right e ts) (sinc_filter ts col (pre ++ (s, e) :: post) kern))
       (slice (ss_left s ts) (ss_right e ts) (sinc_filter ts col (pre ++ (s, e) :: post) (sinc_highpass u kern)))
  = vscale u (slice (ss_left s ts) (ss_right e ts) col).
Proof. exact sinc_complementary. Qed.
Print Assumptions C18_lowpass_plus_highpass.

Theorem C18_bandpass_plus_bandstop : forall ts col pre s e post u lp0 lp1 c,
  length lp0 = (2 * c + 1)%nat -> length lp1 = (2 * c + 1)%nat ->
  length col = length ts -> canonical (pre ++ (s, e) :: post) ->
  vadd (slice (ss_left s ts) (ss_right e ts) (sinc_filter ts col (pre ++ (s, e) :: post) (sinc_bandstop u lp0 lp1)))
       (slice (ss_left s ts) (ss_right e ts) (sinc_filter ts col (pre ++ (s, e) :: post) (sinc_bandpass u lp0 lp1)))
  = vscale u (slice (ss_left s ts) (ss_right e ts) col).
Proof. exact sinc_band_complementary. Qed.
Print Assumptions C18_bandpass_plus_bandstop.

(* ... and over the whole signal when the support holds every sample (always the case for a time series) *)
Theorem C18_lowpass_plus_highpass_whole : forall ts col ep u kern c, length kern = (2 * c + 1)%nat ->
  sortedZ ts -> length col = length ts -> canonical ep -> Forall (fun t => mem t ep = true) ts ->
  vadd (sinc_filter ts col ep kern) (sinc_filter ts col ep (sinc_highpass u kern)) = vscale u col.
Proof. exact sinc_complementary_whole. Qed.
Print Assumptions C18_lowpass_plus_highpass_whole.

Theorem C18_bandpass_plus_bandstop_whole : forall ts col ep u lp0 lp1 c,
  length lp0 = (2 * c + 1)%nat -> length lp1 = (2 * c + 1)%nat ->
  sortedZ ts -> length col = length ts -> canonical ep -> Forall (fun t => mem t ep = true) ts ->
  vadd (sinc_filter ts col ep (sinc_bandstop u lp0 lp1)) (sinc_filter ts col ep (sinc_bandpass u lp0 lp1)) = vscale u col.
Proof. exact sinc_band_complementary_whole. Qed.
Print Assumptions C18_bandpass_plus_bandstop_whole.

(* smooth = convolve with the (gaussian) window, 'both' trim: per epoch, independent, linear, same rows *)
Theorem C18_smooth_epoch_window : forall ts col pre s e post window, window <> [] -> length col = length ts ->
  canonical (pre ++ (s, e) :: post) ->
  slice (ss_left s ts) (ss_right e ts) (smooth_epochs ts col (pre ++ (s, e) :: post) window)
  = conv_window TBoth window (slice (ss_left s ts) (ss_right e ts) col).
Proof. exact smooth_window. Qed.
Print Assumptions C18_smooth_epoch_window.

Theorem C18_smooth_independent : forall ts col col' pre s e post window, window <> [] ->
  length col = length ts -> length col' = length ts -> canonical (pre ++ (s, e) :: post) ->
  slice (ss_left s ts) (ss_right e ts) col = slice (ss_left s ts) (ss_right e ts) col' ->
  slice (ss_left s ts) (ss_right e ts) (smooth_epochs ts col (pre ++ (s, e) :: post) window)
  = slice (ss_left s ts) (ss_right e ts) (smooth_epochs ts col' (pre ++ (s, e) :: post) window).
Proof. exact smooth_independent. Qed.
Print Assumptions C18_smooth_independent.

Theorem C18_smooth_linear_time_axis : forall ts a b x y ep window, window <> [] -> length x = length ts -> length y = length ts ->
  canonical ep ->
  smooth_epochs ts (lin a b x y) ep window = lin a b (smooth_epochs ts x ep window) (smooth_epochs ts y ep window)
  /\ length (smooth_epochs ts x ep window) = length ts.
Proof. exact smooth_linear_length. Qed.
Print Assumptions C18_smooth_linear_time_axis.

(* 11. Butterworth (PARTIAL): for ANY length-preserving per-slice routine F, the result has one row per
       timestamp, the rows of an interval are F of that interval's rows alone (independence), and the
       whole is linear if F is *)
Theorem C18_butter_time_axis_partial : forall F, len_pres F -> forall ts col ep,
  length col = length ts -> canonical ep -> length (butter_epochs F ts col ep) = length ts.
Proof. exact butter_length. Qed.
Print Assumptions C18_butter_time_axis_partial.

Theorem C18_butter_epoch_window_partial : forall F, len_pres F -> forall ts col pre s e post,
  length col = length ts -> canonical (pre ++ (s, e) :: post) ->
  slice (ss_left s ts) (ss_right e ts) (butter_epochs F ts col (pre ++ (s, e) :: post))
  = F (slice (ss_left s ts) (ss_right e ts) col).
Proof. exact butter_window. Qed.
Print Assumptions C18_butter_epoch_window_partial.

Theorem C18_butter_independent_partial : forall F, len_pres F -> forall ts col col' pre s e post,
  length col = length ts -> length col' = length ts -> canonical (pre ++ (s, e) :: post) ->
  slice (ss_left s ts) (ss_right e ts) col = slice (ss_left s ts) (ss_right e ts) col' ->
  slice (ss_left s ts) (ss_right e ts) (butter_epochs F ts col (pre ++ (s, e) :: post))
  = slice (ss_left s ts) (ss_right e ts) (butter_epochs F ts col' (pre ++ (s, e) :: post)).
Proof. exact butter_independent. Qed.
Print Assumptions C18_butter_independent_partial.

(* an interval holding no sample contributes nothing - for a TOTAL length-preserving F.  scipy's sosfiltfilt is not
   total: it raises on a slice of at most padlen samples (the empty slice included), and the code calls it on every
   interval, so ONE empty or short interval makes the whole call raise; the harness reports that
   (keys empty_epoch=True / short_epoch=True) - the premise [len_pres F] is where the model idealises *)
Theorem C18_butter_empty_epoch_partial : forall F, len_pres F -> forall ts col pre s e post,
  ss_left s ts = ss_right e ts ->
  butter_epochs F ts col (pre ++ (s, e) :: post) = butter_epochs F ts col (pre ++ post).
Proof. exact butter_empty_epoch. Qed.
Print Assumptions C18_butter_empty_epoch_partial.

Theorem C18_butter_linear_partial : forall F, len_pres F -> lin_op F -> forall ts a b x y ep,
  length x = length y ->
  butter_epochs F ts (lin a b x y) ep = lin a b (butter_epochs F ts x ep) (butter_epochs F ts y ep).
Proof. exact butter_linear. Qed.
Print Assumptions C18_butter_linear_partial.

(* three epochs of 4, 2 and 1 samples (the last two shorter than the even kernel), 'both' trim;
   low-pass + high-pass of an odd kernel on the same support; a non-trivial F for the partial part *)
Example C18_nonvacuous :
  canonical [(0, 3); (10, 11); (20, 20 + 1)] /\ sortedZ [0; 1; 2; 3; 10; 11; 20]
  /\ convolve_epochs [0; 1; 2; 3; 10; 11; 20] [1; 2; 3; 4; 5; 6; 7] [(0, 3); (10, 11); (20, 21)] [1; 10; 100; 1000] TBoth
     = [12; 123; 1234; 2340; 56; 560; 70]
  /\ convolve_epochs [0; 1; 2; 3; 10; 11; 20] [1; 2; 3; 4; 5; 6; 7] [(0, 3); (10, 11); (20, 21)] [1; 10; 100; 1000] TLeft
     = [1234; 2340; 3400; 4000; 5600; 6000; 7000]
  /\ vadd (sinc_filter [0; 1; 2; 3; 10; 11; 20] [1; 2; 3; 4; 5; 6; 7] [(0, 3); (10, 11); (20, 21)] [1; 2; 1])
          (sinc_filter [0; 1; 2; 3; 10; 11; 20] [1; 2; 3; 4; 5; 6; 7] [(0, 3); (10, 11); (20, 21)] (sinc_highpass 4 [1; 2; 1]))
     = vscale 4 [1; 2; 3; 4; 5; 6; 7]
  /\ len_pres (@rev Z) /\ butter_epochs (@rev Z) [0; 1; 2; 3; 10; 11; 20] [1; 2; 3; 4; 5; 6; 7] [(0, 3); (10, 11); (20, 21)]
     = [4; 3; 2; 1; 6; 5; 7].
Proof.
  split; [vm_compute; intuition congruence|]. split; [vm_compute; intuition congruence|].
  split; [vm_compute; reflexivity|]. split; [vm_compute; reflexivity|]. split; [vm_compute; reflexivity|].
  split; [intros w; apply rev_length|vm_compute; reflexivity].
Qed.
