(* C19, tie by PROOF: the kernel TEXT of _overlap_split (Gen/Kernels.v, regenerated from /repo's source on every run) computes
   exactly the functional model overlap_split of Model/Spectrum.v used by the C19 theorems about the segments of
   compute_mean_power_spectral_density: for every epoch list with start <= end, interval size L and step st = (1 - overlap) L
   with 0 < st <= L (i.e. 0 <= overlap < 1) it returns the rows (s + j st, s + j st + L) that fit strictly inside their epoch -
   whenever the interpreter terminates within its fuel (termination: Properties/C15b.v).  In particular the bound n <= N that the
   repair d86eb2b added to the loop NEVER fires in exact arithmetic (guard_never_fires: N = ceil(total duration / step) rows suffice),
   so the repair left the exact-arithmetic behaviour unchanged.  Both hypotheses are shown necessary by computed examples in
   Inv/Overlap_split_func.v.  Floats are exact rationals: rounding in `t += step` is outside this statement. *)
From Coq Require Import ZArith QArith List.
From Verif Require Import Base.Prelude Model.Spectrum Jit.Lang Jit.Interp Gen.Kernels.
From Verif Require Import Inv.Jitrestrict_func Inv.Jitfix_iset_func Inv.Overlap_split_func.
Import ListNotations.
Open Scope Z_scope.

Theorem C19_overlap_split_kernel_text_computes_model : forall ep L st ov fuel,
  Forall (fun I => fst I <= snd I) ep -> 0 < st <= L -> step_ok L st ov ->
  match run fuel k__overlap_split (split_args ep L ov) with
  | Return rs => rs = [seg_array (overlap_split ep L st)]
  | OutOfFuel => True
  | _ => False
  end.
Proof. exact k__overlap_split_computes_model. Qed.
Print Assumptions C19_overlap_split_kernel_text_computes_model.
