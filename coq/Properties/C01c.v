(* C01, tie of the Python GLUE by PROOF: the numeric core of IntervalSet.__init__ (pynapple/core/interval_set.py: the two
   independent `if not (np.diff(x) > 0).all(): x = np.sort(x)` decisions and the call of _jitfix_iset), translated by
   tools/py2glue.py into the term g_IntervalSet___init__ (Gen/Glue.v, regenerated from /repo on every run), computes
   exactly the hand model [mk_iset] of Model/Iset.v that the C01 theorems are about.
   First form: for EVERY kernel environment K that answers the one _jitfix_iset call with the kernel model [fix_iset].
   Second form: with the environment that RUNS THE TRANSLATED KERNEL TEXT (Glue/Compose.v; the step kernel text ->
   kernel model is C01_kernel_text_total of Properties/C01b.v): glue text + kernel text compute mk_iset.
   Declared (coq/Gen/glue.json): time_units = "s" on already-rounded input; the isinstance dispatch before the core is
   summarised by the prologue PToArr; `self.values = data` is the constructed object; warnings / metadata / object
   bookkeeping are skipped after a def-use check.  Proofs: Glue/Ref_init.v, Glue/Compose.v. *)
From Coq Require Import ZArith QArith String List.
From Verif Require Import Base.Prelude Model.Iset Jit.Lang Glue.Lang Glue.Interp Glue.Kenv Gen.Glue.
From Verif Require Glue.KenvText Glue.Ref_init Glue.Compose.
Import ListNotations.
Open Scope Z_scope.

Theorem C01_glue_constructor : forall K ss es, K_ctor_at K ss es -> length ss = length es ->
  grun K g_IntervalSet___init__ [tarr ss; tarr es] = GOk (iset_val (mk_iset ss es)).
Proof. exact Ref_init.ref_init. Qed.
Print Assumptions C01_glue_constructor.

Theorem C01_glue_constructor_with_kernel_text : forall ss es, length ss = length es ->
  exists fuel, grun (KenvText.kenv_text fuel) g_IntervalSet___init__ [tarr ss; tarr es] = GOk (iset_val (mk_iset ss es)).
Proof. exact Compose.init_text_to_model. Qed.
Print Assumptions C01_glue_constructor_with_kernel_text.

(* the length hypothesis is the source's own assertion *)
Theorem C01_glue_constructor_length_needed :
  grun kenv_model_g1 g_IntervalSet___init__ [tarr [0]; tarr []] = GErr (ERaise "AssertionError").
Proof. exact Ref_init.init_length_needed. Qed.
Print Assumptions C01_glue_constructor_length_needed.

(* non-vacuity: unsorted starts and ends, a touching pair (trimmed by 1 us), an improper pair (dropped) *)
Example C01_glue_nonvacuous :
  grun kenv_model_g1 g_IntervalSet___init__ [tarr [5000; 0; 20000]; tarr [9000; 5000; 20000]]
  = GOk (iset_val [(0, 4000); (5000, 9000)])
  /\ K_ctor_at kenv_model_g1 [5000; 0; 20000] [9000; 5000; 20000].
Proof. split; [exact Ref_init.init_example | apply K_ctor_of_all; [exact model_fix_iset|reflexivity]]. Qed.
