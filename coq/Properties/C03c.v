(* C03, tie of the Python GLUE by PROOF: IntervalSet.in_interval (pynapple/core/interval_set.py), translated by
   tools/py2glue.py (Gen/Glue.v, regenerated from /repo on every run): the time index of the series and the two columns
   of the set are passed to jitin_interval as (times, starts, ends) and the kernel's answer is returned unchanged -
   the hand model [in_interval] of Model/Restrict.v.  With the translated kernel TEXT as environment the statement needs
   the hypotheses of the kernel's own refinement theorem (sorted samples, sorted starts: Properties/C03b.v).
   Proofs: Glue/Ref_in_interval.v, Glue/Compose.v. *)
From Coq Require Import ZArith QArith String List.
From Verif Require Import Base.Prelude Model.Restrict Jit.Lang Glue.Lang Glue.Interp Glue.Kenv Gen.Glue.
From Verif Require Inv.Jitrestrict_func Inv.Jitin_interval_func.
From Verif Require Glue.KenvText Glue.Ref_in_interval Glue.Compose.
Import ListNotations.
Open Scope Z_scope.

Theorem C03_glue_in_interval : forall K ep ts, K_in_interval_at K ts ep ->
  grun K g_IntervalSet_in_interval [iset_val ep; ts_val ts]
  = GOk (of_jit (Jitin_interval_func.in_array (in_interval ts ep))).
Proof. exact Ref_in_interval.ref_in_interval. Qed.
Print Assumptions C03_glue_in_interval.

Theorem C03_glue_in_interval_with_kernel_text : forall ep ts, sortedZ ts -> sortedZ (Jitrestrict_func.firsts ep) ->
  exists fuel, grun (KenvText.kenv_text fuel) g_IntervalSet_in_interval [iset_val ep; ts_val ts]
               = GOk (of_jit (Jitin_interval_func.in_array (in_interval ts ep))).
Proof. exact Compose.in_interval_text_to_model. Qed.
Print Assumptions C03_glue_in_interval_with_kernel_text.

Example C03_glue_nonvacuous :
  grun kenv_model_g1 g_IntervalSet_in_interval [iset_val [(0, 10); (20, 30)]; ts_val [0; 5; 10; 15; 20; 31]]
  = GOk (of_jit (Jitin_interval_func.in_array [Some 0%nat; Some 0%nat; Some 0%nat; None; Some 1%nat; None]))
  /\ K_in_interval kenv_model_g1.
Proof. split; [vm_compute; reflexivity | exact model_in_interval]. Qed.

(* _restrict (pynapple/core/_core_functions.py): (time_array, starts, ends) go to jitrestrict in that order and its index
   array is returned unchanged.  Proof: Glue/Ref__restrict.v. *)
From Verif Require Glue.Ref__restrict.

Theorem C03_glue_restrict : forall K ts ep, K_restrict_at K ts ep ->
  grun K g__restrict [tarr ts; tarr (Jitrestrict_func.firsts ep); tarr (Jitrestrict_func.seconds ep)]
  = GOk (of_jit (Jitrestrict_func.index_array (restrict_idx ts ep))).
Proof. exact Ref__restrict.ref_restrict. Qed.
Print Assumptions C03_glue_restrict.

Theorem C03_glue_restrict_with_kernel_text : forall ts ep, Forall (fun I => fst I <= snd I) ep ->
  exists fuel, grun (KenvText.kenv_text fuel) g__restrict
                 [tarr ts; tarr (Jitrestrict_func.firsts ep); tarr (Jitrestrict_func.seconds ep)]
               = GOk (of_jit (Jitrestrict_func.index_array (restrict_idx ts ep))).
Proof. exact Ref__restrict.restrict_text_to_model. Qed.
Print Assumptions C03_glue_restrict_with_kernel_text.

Example C03_glue_restrict_nonvacuous :
  grun kenv_model_g1 g__restrict [tarr [0; 5; 10; 15; 20; 31]; tarr [0; 20]; tarr [10; 30]]
  = GOk (of_jit (Jitrestrict_func.index_array [0; 1; 2; 4]%nat)).
Proof. exact Ref__restrict.restrict_example. Qed.

(* ---- G3: the body of the public method _Base.restrict (pynapple/core/base_class.py) ---------------------------------------
   The type check of the argument, the attribute reads, idx = _restrict(time_array, starts, ends), the re-indexing
   time_array[idx] and self.values[idx] (None for a Ts) and the constructor call self._define_instance(time_array[idx], iset,
   values=data).  The constructor is left abstract (an entry of the environment K): the theorem states which arrays reach
   it in which order - the arguments of Model/Store.v's OpRestrict: mk_ts_sup (restrict_ts ts ep) ep.
   Proofs: Glue/Ref_base_restrict.v. *)
From Verif Require Glue.Ref_base_restrict.

Theorem C03_glue_method_restrict : forall K cls ts vals sup ep,
  K_restrict_at K ts ep -> Ref_base_restrict.vals_ok ts vals ->
  grun K g__Base_restrict [Ref_base_restrict.series_val cls ts vals sup; iset_val ep]
  = of_opt (K "_define_instance"%string
              [Ref_base_restrict.series_val cls ts vals sup; tarr (restrict_ts ts ep); iset_val ep;
               Ref_base_restrict.restricted_vals ts vals ep])
           (EKernelErr "_define_instance").
Proof. exact Ref_base_restrict.ref_base_restrict. Qed.
Print Assumptions C03_glue_method_restrict.

Theorem C03_glue_method_restrict_with_kernel_text : forall (C : kenv) cls ts vals sup ep,
  Forall (fun I => fst I <= snd I) ep -> Ref_base_restrict.vals_ok ts vals ->
  exists fuel, grun (Ref_base_restrict.kenv_text_with C fuel) g__Base_restrict
                 [Ref_base_restrict.series_val cls ts vals sup; iset_val ep]
               = of_opt (C "_define_instance"%string
                           [Ref_base_restrict.series_val cls ts vals sup; tarr (restrict_ts ts ep); iset_val ep;
                            Ref_base_restrict.restricted_vals ts vals ep])
                        (EKernelErr "_define_instance").
Proof. exact Ref_base_restrict.base_restrict_text_to_model. Qed.
Print Assumptions C03_glue_method_restrict_with_kernel_text.

Theorem C03_glue_method_restrict_type_error : forall K self x, (forall cls fs, x <> GObj cls fs) ->
  grun K g__Base_restrict [self; x] = GErr (ERaise "TypeError").
Proof. exact Ref_base_restrict.ref_base_restrict_type_error. Qed.
Print Assumptions C03_glue_method_restrict_type_error.
