(* C09 — seconds, milliseconds and microseconds denote the same instants everywhere.
   Three layers (DESIGN.md 5 C09):
   (1) float layer: Model/FloatTime.v is a bit-level model of format_timestamps, compared bit-exactly with the
       implementation on every run; the lattice theorem (Proofs/FloatTimeProofs.v, Flocq) is stated in C09float.v
       when that development is present;
   (2) call-site table regenerated from the source: every time-valued argument of every unit-accepting function
       meets the unit variable (converted by format_timestamps, passed on together with the unit, or returned
       through return_timestamps), every such function is reviewed, no other use of the unit variable;
   (3) the suppress_* configuration flags only guard warnings. *)
From Coq Require Import String List Bool.
From Verif Require Import Gen.Sites Proofs.SitesChecks.
Import ListNotations.
Open Scope string_scope.

Theorem C09_unit_sites : forall r, In r unit_table -> unit_row_ok r = true.
Proof. exact unit_sites_forall. Qed.
Print Assumptions C09_unit_sites.

Theorem C09_unit_sites_complete : unit_sites_ok = true.
Proof. exact unit_sites_checked. Qed.
Print Assumptions C09_unit_sites_complete.

Theorem C09_config_flags_only_guard_warnings : config_ok = true.
Proof. exact config_checked. Qed.
Print Assumptions C09_config_flags_only_guard_warnings.

(* non-vacuity: the generated table is not empty and contains the entry points the property names *)
Example C09_nonvacuous :
  (40 <= length unit_table)%nat
  /\ lookup "pynapple/core/base_class.py:_Base.count" unit_table = Some ([("bin_size", 1)], 0)%nat
  /\ lookup "pynapple/core/interval_set.py:IntervalSet.__init__" unit_table = Some ([("start", 1); ("end", 1)], 0)%nat.
Proof. vm_compute. repeat split; try reflexivity. repeat constructor. Qed.

(* ---- float layer: the three unit forms of an instant on the microsecond lattice within 1e5 s store the SAME
        double, namely the correctly rounded (1000 k) / 1e9 (bit-level statement; Flocq) ---- *)
From Coq Require Import ZArith PrimFloat.
From Verif Require Import Model.FloatTime Proofs.FloatTimeProofs.
Theorem C09_fmt_lattice : forall k : Z, (0 <= k <= 100000000000)%Z ->
  fmt 2 (fz k) = canon_of k
  /\ fmt 1 (Coq.Floats.PrimFloat.div (fz k) 1e3%float) = canon_of k
  /\ fmt 0 (Coq.Floats.PrimFloat.div (fz k) 1e6%float) = canon_of k.
Proof. exact fmt_lattice. Qed.
Print Assumptions C09_fmt_lattice.

(* negative instants (the property's range is +/- 1e5 s), and the round trip through times(units) *)
From Verif Require Import Proofs.FloatTimeNeg Proofs.FloatTimeRoundTrip.
Theorem C09_fmt_lattice_signed : forall k : Z, (-100000000000 <= k <= 100000000000)%Z ->
  fmt 2 (fzs k) = canon_s k
  /\ fmt 1 (Coq.Floats.PrimFloat.div (fzs k) 1e3%float) = canon_s k
  /\ fmt 0 (Coq.Floats.PrimFloat.div (fzs k) 1e6%float) = canon_s k.
Proof. exact fmt_lattice_signed. Qed.
Print Assumptions C09_fmt_lattice_signed.

(* a stored lattice instant exported with times(units) and re-imported with the same unit is the same double *)
Theorem C09_unit_roundtrip : forall k : Z, (-100000000000 <= k <= 100000000000)%Z ->
  fmt 2 (ret 2 (canon_s k)) = canon_s k /\ fmt 1 (ret 1 (canon_s k)) = canon_s k /\ fmt 0 (ret 0 (canon_s k)) = canon_s k.
Proof. exact unit_roundtrip_signed. Qed.
Print Assumptions C09_unit_roundtrip.

(* ---- clause "times(units), as_units, start_time/end_time(units) return the stored seconds multiplied by that factor" ----
   C09_unit_roundtrip above only says that re-importing the exported value gives the stored double back (fmt (ret x) = x);
   it would also hold for a `ret` that used a wrong but invertible factor together with a matching `fmt`.  The direct statement:
   for a stored lattice instant of k microseconds, the value returned in seconds IS the stored double, and the values
   returned in ms / us are finite doubles within 0.3 ns of the exact k/1e3 ms, k us (FR = the real value of a double;
   the left-hand sides are written in nanoseconds).  The harness compares the implementation with the exact instant
   under the same 0.3 ns bound. *)
From Coq Require Import Reals.
Theorem C09_output_is_stored_times_factor : forall k : Z, (1 <= Z.abs k <= 100000000000)%Z ->
  ret 0 (canon_s k) = canon_s k
  /\ (fin (ret 1 (canon_s k)) /\ (Rabs (FR (ret 1 (canon_s k)) * 1000000 - IZR (1000 * k)) <= 3 / 10)%R)
  /\ (fin (ret 2 (canon_s k)) /\ (Rabs (FR (ret 2 (canon_s k)) * 1000 - IZR (1000 * k)) <= 3 / 10)%R).
Proof. intros k Hk. split; [exact (ret0_canon k Hk) | split; [exact (ret1_near k Hk) | exact (ret2_near k Hk)]]. Qed.
Print Assumptions C09_output_is_stored_times_factor.

(* the value in microseconds is NOT always the exact integer k: the exactness one might read into the statement is false of
   the float model (and of the implementation); hence the bound above.  99000.415632 s: stored * 1e6 = 99000415631.99998... *)
Example C09_output_us_exact_refuted :
  PrimFloat.eqb (ret 2 (canon_s 99000415632)) (fzs 99000415632) = false.
Proof. vm_compute. reflexivity. Qed.

Example C09_output_zero : ret 0 (canon_s 0) = canon_s 0 /\ ret 1 (canon_s 0) = canon_s 0 /\ ret 2 (canon_s 0) = canon_s 0.
Proof. vm_compute. repeat split; reflexivity. Qed.
