(* C10 — operations never modify their arguments; containers reject in-place writes.
   (1) heap frame theorems (Model/Heap.v, Proofs/HeapProofs.v): if every operation writes only what it
       allocated itself, then at every point of every history every live object is intact, whatever aliasing
       earlier results introduced; item assignment changes only the addressed location.
       The effect summaries are VALIDATED on every run by deep snapshots around every call (harness) - the
       theorem is relative to them.
   (2) tables regenerated from the source (Gen/Sites.v): the guards of __setattr__/__setitem__, and every
       in-place array update with the provenance of its target. *)
From Coq Require Import String List Bool.
From Verif Require Import Model.Heap Proofs.HeapProofs Gen.Sites Proofs.SitesChecks.
Import ListNotations.

Theorem C10_frame_histories : forall (V : Type) (ops : list (opn V)) (h : heap V) (x : object),
  Forall (admissible V) ops -> live V h x -> snapshot V (run_ops V ops h) x = snapshot V h x.
Proof. exact snapshot_unchanged. Qed.
Print Assumptions C10_frame_histories.

Theorem C10_frame_at_every_point : forall (V : Type) (pre post : list (opn V)) (h : heap V) (x : object),
  Forall (admissible V) (pre ++ post) -> live V h x ->
  snapshot V (run_ops V pre h) x = snapshot V h x /\ snapshot V (run_ops V (pre ++ post) h) x = snapshot V h x.
Proof. exact snapshot_unchanged_at_every_point. Qed.
Print Assumptions C10_frame_at_every_point.

Theorem C10_setitem_local : forall (V : Type) (l0 : loc) (v : V) (h : heap V) (x : object),
  ~ In l0 x -> snapshot V (exec V (setitem V l0 v) h) x = snapshot V h x.
Proof. exact setitem_visible_iff_aliased. Qed.
Print Assumptions C10_setitem_local.

Theorem C10_frame_with_setitems : forall (V : Type) (ops : list (opn V)) (h : heap V) (x : object),
  Forall (harmless_for V x) ops -> live V h x -> snapshot V (run_ops V ops h) x = snapshot V h x.
Proof. exact frame_with_setitems. Qed.
Print Assumptions C10_frame_with_setitems.

(* tables from the source *)
Theorem C10_guards : guards_ok = true.
Proof. exact guards_checked. Qed.
Print Assumptions C10_guards.

Theorem C10_inplace_sites_fresh : inplace_ok = true.
Proof. exact inplace_checked. Qed.
Print Assumptions C10_inplace_sites_fresh.

(* C10_inplace_sites_fresh accepts a write into self.values / self._metadata (provenance 3 / 4) in any function; the statement
   allows them only in the sanctioned mutators.  Pinned by name: every in-place site is a fresh local, the reviewed
   parameter writer (_compute_spectral_inversion, whose callers pass fresh arrays), or exactly one of
   Tsd/TsdFrame/TsdTensor.__setitem__ (values), set_info (metadata), TsGroup.__setitem__ (metadata). *)
Theorem C10_inplace_sites_pinned : inplace_pinned_ok = true.
Proof. exact inplace_pinned_checked. Qed.
Print Assumptions C10_inplace_sites_pinned.

Example C10_nonvacuous :
  (50 <= length inplace_table)%nat /\ (4 <= length inplace_callers)%nat /\ (6 <= length guard_table)%nat
  /\ let h : heap nat := fun l => if Nat.eqb l 0 then Some 7 else None in
     let alloc1 : opn nat := {| exec := fun h l => if Nat.eqb l 1 then Some 9 else h l; writes := fun _ => [1] |} in
     run_ops nat [alloc1] h 0 = Some 7 /\ run_ops nat [alloc1] h 1 = Some 9.
Proof. vm_compute. repeat split; try reflexivity; repeat constructor. Qed.
