(* C06, tie of the Python GLUE by PROOF: _value_from (pynapple/core/_core_functions.py), translated by tools/py2glue.py
   (Gen/Glue.v, regenerated from /repo on every run): both time arrays are restricted with jitrestrict_with_count on the
   same (starts, ends); the mode string is decoded to 1 / 0 / 2; jitvaluefrom receives (time_array[idx_t],
   time_target_array[idx_target], count, count_target, starts, mode) in that order; the time array is re-indexed by idx_t
   and the data is the DOUBLE gather data_target_array[idx_target][idx[idx2].astype(int)] scattered at the non-NaN
   positions of idx into a NaN-filled buffer.  Hand model: [value_from] (Model/ValueFrom.v) and restrict_idx / restrict_ts
   (Model/Restrict.v).  Declared (glue.json): 1-D float data.  Hypotheses: float data cells of the target's length (each
   shown necessary by a computed counter-example in Glue/Ref__value_from.v); with the kernel TEXT also start <= end (the
   hypothesis of jitrestrict_with_count).  Proofs: Glue/Ref__value_from.v, Glue/Compose__value_from.v. *)
From Coq Require Import ZArith QArith String List.
From Verif Require Import Base.Prelude Model.Restrict Model.ValueFrom Jit.Lang Glue.Lang Glue.Interp Glue.Kenv Gen.Glue.
From Verif Require Inv.Jitrestrict_func Glue.KenvText Glue.Ref__value_from Glue.Compose__value_from.
Import ListNotations.
Open Scope Z_scope.
Notation firsts := Jitrestrict_func.firsts.
Notation seconds := Jitrestrict_func.seconds.

Theorem C06_glue_value_from : forall K m qs sr0 dcells ep,
  0 <= m <= 2 -> Ref__value_from.float_cells dcells -> length dcells = length sr0 ->
  Ref__value_from.vf_K_rwc_at K qs ep -> Ref__value_from.vf_K_rwc_at K sr0 ep ->
  Ref__value_from.vf_K_valuefrom_at K m qs sr0 ep ->
  grun K g__value_from [tarr qs; tarr sr0; GArr (A1 DFlt dcells); tarr (firsts ep); tarr (seconds ep);
                        GStr (Ref__value_from.vf_mode_string m)]
  = GOk (GTup [tarr (restrict_ts qs ep); GArr (A1 DFlt (Ref__value_from.vf_data m qs sr0 dcells ep))]).
Proof. exact Ref__value_from.ref_value_from. Qed.
Print Assumptions C06_glue_value_from.

Theorem C06_glue_value_from_with_kernel_text : forall m qs sr0 dcells ep,
  0 <= m <= 2 -> Ref__value_from.float_cells dcells -> length dcells = length sr0 ->
  Forall (fun I => fst I <= snd I) ep ->
  exists fuel, grun (KenvText.kenv_text fuel) g__value_from
      [tarr qs; tarr sr0; GArr (A1 DFlt dcells); tarr (firsts ep); tarr (seconds ep); GStr (Ref__value_from.vf_mode_string m)]
    = GOk (GTup [tarr (restrict_ts qs ep); GArr (A1 DFlt (Ref__value_from.vf_data m qs sr0 dcells ep))]).
Proof. exact Compose__value_from.value_from_text_to_model. Qed.
Print Assumptions C06_glue_value_from_with_kernel_text.

(* the mode strings *)
Theorem C06_glue_mode_strings :
  Ref__value_from.vf_mode_string 1 = "closest"%string /\ Ref__value_from.vf_mode_string 0 = "before"%string
  /\ Ref__value_from.vf_mode_string 2 = "after"%string.
Proof. repeat split. Qed.

Example C06_glue_nonvacuous :
  grun KenvText.kenv_exec g__value_from
    [tarr [0; 2; 5; 30]; tarr [1; 3; 40]; GArr (A1 DFlt [VFlt (Some 7%Q); VFlt (Some 8%Q); VFlt (Some 9%Q)]);
     tarr [0; 20]; tarr [10; 35]; GStr "closest"]
  = GOk (GTup [tarr [0; 2; 5; 30]; GArr (A1 DFlt [VFlt (Some 7%Q); VFlt (Some 8%Q); VFlt (Some 8%Q); VFlt None])]).
Proof. vm_compute. reflexivity. Qed.

(* ---- G3: the body of the public method _Base.value_from (pynapple/core/base_class.py) -------------------------------------
   Argument checks, `ep = data.time_support` when ep is None, the attribute reads, the call of _value_from, the
   re-construction `IntervalSet(start=starts, end=ends)` and the constructor call `data._define_instance(time_index=t,
   time_support=.., values=d)` - whose receiver is DATA, not self.  The constructor is left abstract (an entry of the
   environment K): the theorem states exactly which arrays reach it, in which order - for a canonical ep these are the
   arguments of Model/Store.v's OpValueFrom: mk_ts_sup (restrict_ts qs ep) ep.  Proofs: Glue/Ref_base_value_from.v. *)
From Verif Require Glue.Ref_base_value_from.

Theorem C06_glue_method_value_from : forall K m scls svals ssup qs sr0 dcells dsup ep,
  canonical ep ->
  0 <= m <= 2 -> Ref__value_from.float_cells dcells -> length dcells = length sr0 ->
  Ref__value_from.vf_K_rwc_at K qs ep -> Ref__value_from.vf_K_rwc_at K sr0 ep ->
  Ref__value_from.vf_K_valuefrom_at K m qs sr0 ep -> K_ctor_at K (firsts ep) (seconds ep) ->
  grun K g__Base_value_from
    [Ref_base_value_from.series_val scls qs svals ssup; Ref_base_value_from.series_val "Tsd" sr0 (Some dcells) dsup;
     iset_val ep; GStr (Ref__value_from.vf_mode_string m)]
  = of_opt (K "_define_instance"%string
              [Ref_base_value_from.series_val "Tsd" sr0 (Some dcells) dsup; tarr (restrict_ts qs ep); iset_val ep;
               GArr (A1 DFlt (Ref__value_from.vf_data m qs sr0 dcells ep))])
           (EKernelErr "_define_instance").
Proof. exact Ref_base_value_from.ref_base_value_from_canonical. Qed.
Print Assumptions C06_glue_method_value_from.

Theorem C06_glue_method_value_from_with_kernel_text : forall (C : kenv) m scls svals ssup qs sr0 dcells dsup ep,
  0 <= m <= 2 -> Ref__value_from.float_cells dcells -> length dcells = length sr0 -> Forall (fun I => fst I <= snd I) ep ->
  exists fuel, grun (Ref_base_value_from.bvf_kenv C fuel) g__Base_value_from
      [Ref_base_value_from.series_val scls qs svals ssup; Ref_base_value_from.series_val "Tsd" sr0 (Some dcells) dsup;
       iset_val ep; GStr (Ref__value_from.vf_mode_string m)]
    = of_opt (C "_define_instance"%string
                [Ref_base_value_from.series_val "Tsd" sr0 (Some dcells) dsup; tarr (restrict_ts qs ep);
                 iset_val (Iset.mk_iset (firsts ep) (seconds ep));
                 GArr (A1 DFlt (Ref__value_from.vf_data m qs sr0 dcells ep))])
             (EKernelErr "_define_instance").
Proof. exact Ref_base_value_from.base_value_from_text_to_model. Qed.
Print Assumptions C06_glue_method_value_from_with_kernel_text.

Theorem C06_glue_method_value_from_bad_mode : forall K self sr0 dcells dsup ep eparg s,
  (eparg = iset_val ep \/ eparg = GNone) -> s <> "closest"%string -> s <> "before"%string -> s <> "after"%string ->
  grun K g__Base_value_from [self; Ref_base_value_from.series_val "Tsd" sr0 (Some dcells) dsup; eparg; GStr s]
  = GErr (ERaise "ValueError").
Proof. exact Ref_base_value_from.base_value_from_bad_mode. Qed.
Print Assumptions C06_glue_method_value_from_bad_mode.
