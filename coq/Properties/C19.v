(* C19 — spectral estimates are the DFT of the epoch's samples and conserve power.   PARTIAL.
   Statements only; proofs in Proofs/SpectrumIndexProofs.v, SpectrumFieldProofs.v, SpectrumProofs.v, SpectrumExample.v.

   What is proved is pynapple's OWN bookkeeping around np.fft.fft: restriction to the epoch, crop/zero-pad to n,
   the fftfreq index, the sort, the division by n, the PSD scale 1/(fs n), the one-sided selection and doubling
   mask, _overlap_split, the per-segment slicing, truncation to N points, windowing and averaging.
   NOT proved: the FFT itself.  np.fft.fft is the parameter [dft] of the model; its laws appear as HYPOTHESES of the
   closed statements below, each at the single signal it is used for:
       length_law K dft              : length (dft x) = length x
       parseval_at K dft x           : sum_k |X_k|^2 = n * sum_j x_j^2
       hermitian_at K dft x          : |X_{n-k}|^2 = |X_k|^2   (0 < k < n)     (real input)
   scipy.signal.windows.hamming is the parameter [window] (only its length is used).
   Values live in an abstract field K (hypotheses: field_theory with Leibniz equality, characteristic 0); the real
   numbers with the true DFT are an instance, and C19_nonvacuous exhibits a computable one (Qc, exact 4-point DFT).
   Frequencies are carried as the integer multiplier k of fs/n (C19_freq_order: for fs > 0 they order like k);
   times are integer nanosecond ticks; the step st = (1-overlap)*L of _overlap_split is a whole number of ticks. *)
From Coq Require Import QArith Qcanon Permutation Field_theory Lia.
From Verif Require Import Base.Prelude Model.Restrict Model.Count Model.Slice Model.Spectrum
  Proofs.SpectrumIndexProofs Proofs.SpectrumFieldProofs Proofs.SpectrumProofs Proofs.SpectrumExample.
Open Scope Z_scope.

(* ---- 1. the frequency index ---- *)
(* np.fft.fftfreq(n, 1/fs)[i] = k_i * fs/n with k_i = i for 2i < n and i - n otherwise *)
Theorem C19_fftfreq_layout : forall n i, (i < n)%nat ->
  nth i (fftfreq_idx n) 0 = if (2 * i <? n)%nat then Z.of_nat i else Z.of_nat i - Z.of_nat n.
Proof. exact fftfreq_idx_nth. Qed.
Print Assumptions C19_fftfreq_layout.

(* sort_index: the rows are a permutation of (frequency, coefficient) pairs ... *)
Theorem C19_freq_index_perm : forall (V : Type) n (X : list V),
  Permutation (fft_table n X) (combine (fftfreq_idx n) X).
Proof. exact @fft_table_perm. Qed.
Print Assumptions C19_freq_index_perm.

(* ... sorted: the keys are the consecutive integers -(n//2) .. ceil(n/2)-1 *)
Theorem C19_freq_index_sorted : forall (V : Type) n (X : list V), length X = n ->
  map fst (fft_table n X) = zrange (- Z.of_nat (n / 2)) n.
Proof. exact @fft_table_keys. Qed.
Print Assumptions C19_freq_index_sorted.

(* the order (and sign) of the frequencies k*fs/n is the order (and sign) of k *)
Theorem C19_freq_order : forall fs n k k', (0 < fs)%Q -> (0 < n)%nat ->
  (k < k' <-> (freq fs n k < freq fs n k')%Q).
Proof. exact freq_mono. Qed.
Print Assumptions C19_freq_order.
Theorem C19_freq_sign : forall fs n k, (0 < fs)%Q -> (0 < n)%nat -> (0 <= k <-> (0 <= freq fs n k)%Q).
Proof. exact freq_nonneg. Qed.
Print Assumptions C19_freq_sign.

(* n smaller / equal / larger than the length: the first n samples, then zeros *)
Theorem C19_crop_pad : forall (A : Type) (z : A) n x,
  length (crop_pad z n x) = n /\ forall i, (i < n)%nat -> nth i (crop_pad z n x) z = nth i x z.
Proof. exact (fun A z n x => conj (crop_pad_length z n x) (crop_pad_nth z n x)). Qed.
Print Assumptions C19_crop_pad.

(* ---- 2. compute_fft ---- *)
(* the row of frequency k*fs/n holds DFT coefficient (k mod n) of the n-point signal made of EXACTLY the samples
   inside the closed epoch [s,e] (own values), divided by n when norm; rows by increasing frequency, all of them
   (full_range) or the non-negative ones *)
Theorem C19_compute_fft : forall (K : Field) (dft : list K -> list (cplx K)) ts (vs : list K) s e full norm n,
  length_law K dft -> sortedZ ts -> s < e -> length vs = length ts ->
  let x := inside ts vs s e in
  let n' := resolve_n K n x in
  let X := dft (crop_pad (f0 K) n' x) in
  compute_fft K dft ts vs s e full norm n
  = map (fun k => (k, if norm then cdivn K n' (coef K n' X k) else coef K n' X k)) (krange full n').
Proof. exact compute_fft_spec. Qed.
Print Assumptions C19_compute_fft.

(* ---- 3. compute_power_spectral_density ---- *)
(* the one-sided mask (repaired tree: doubled_freqs = index > 0): a row is doubled iff its k is strictly positive ... *)
Theorem C19_onesided_mask_exact : forall k, doubled k = true <-> 0 < k.
Proof. exact doubled_iff. Qed.
Print Assumptions C19_onesided_mask_exact.
(* ... and every row present in the one-sided form (k = 0 .. ceil(n/2)-1) lies strictly below Nyquist (2k < n):
   np.fft.fftfreq puts the Nyquist frequency of even n at the negative end.  So "doubled" = strictly positive and
   non-Nyquist, for every sampling rate and every n *)
Theorem C19_onesided_rows_below_nyquist : forall n k, In k (krange false n) -> 0 <= k /\ 2 * k < Z.of_nat n.
Proof. exact onesided_rows_below_nyquist. Qed.
Print Assumptions C19_onesided_rows_below_nyquist.

(* the convention this implies, stated outright (recorded, not a clause of the property): for even n = 2m > 0 the Nyquist multiplier
   is listed by the full-range form (as -m, where np.fft.fftfreq files it) and under NEITHER sign by the one-sided form - the
   one-sided FFT / PSD of an even-length signal has no Nyquist row (its total is the full total minus that bin: C19_onesided_sum_even
   below; the one-sided PSD of [1,-1,1,-1] is identically 0).  The harness oracle accepts both this form and one that appends the
   Nyquist row at +fs/2 undoubled. *)
Theorem C19_onesided_drops_nyquist : forall m : nat, (0 < m)%nat ->
  In (- Z.of_nat m) (krange true (2 * m)) /\ ~ In (Z.of_nat m) (krange false (2 * m)) /\ ~ In (- Z.of_nat m) (krange false (2 * m)).
Proof.
  intros m Hm. unfold krange.
  assert (E1 : ((2 * m) / 2 = m)%nat) by (rewrite Nat.mul_comm; apply Nat.div_mul; lia).
  assert (E2 : ((2 * m + 1) / 2 = m)%nat).
  { rewrite (Nat.mul_comm 2 m), Nat.div_add_l by lia. cbn. lia. }
  rewrite E1, E2, !zrange_In. lia.
Qed.
Print Assumptions C19_onesided_drops_nyquist.

(* HISTORY (pre-repair guard, Model.mask_orig = (index != 0) & (index < fs/2 - 1e-6), not used by the model any more):
   it was exact only when the frequency step exceeds 2e-6 ... *)
Theorem C19_mask_orig_exact : forall fs n k, (0 < fs)%Q -> (0 < n)%nat ->
  (eps6 < fs / inject_Z (2 * Z.of_nat n))%Q ->
  (mask_orig fs n k = true <-> k <> 0 /\ 2 * k < Z.of_nat n).
Proof. exact mask_orig_exact. Qed.
Print Assumptions C19_mask_orig_exact.
(* ... where it agrees with the repaired mask on every one-sided row ... *)
Theorem C19_mask_orig_agrees : forall fs n k, (0 < fs)%Q -> (0 < n)%nat ->
  (eps6 < fs / inject_Z (2 * Z.of_nat n))%Q -> In k (krange false n) -> mask_orig fs n k = doubled k.
Proof. exact mask_orig_agrees. Qed.
Print Assumptions C19_mask_orig_agrees.
(* ... and wrong below: fs = 2^-20 Hz, n = 3, k = 1 is a strictly positive non-Nyquist bin it did not double.  This
   witness replayed on the pre-repair /repo was the finding (fixed: `doubled_freqs = index > 0`); the same input is now
   a positive case of the harness (regime fs/(2n)<=1e-6). *)
Theorem C19_mask_orig_low_rate_refuted :
  exists fs n k, (0 < fs)%Q /\ (0 < n)%nat /\ 0 < k /\ 2 * k < Z.of_nat n /\ mask_orig fs n k = false.
Proof. exact mask_orig_low_rate_refuted. Qed.
Print Assumptions C19_mask_orig_low_rate_refuted.

(* PSD rows: |X_k|^2 / (fs n); the one-sided form keeps k = 0 .. ceil(n/2)-1 and doubles exactly the rows k > 0
   (all strictly positive and below Nyquist) — unconditionally in fs and n *)
Theorem C19_psd_rows : forall (K : Field) (dft : list K -> list (cplx K)) ts (vs : list K) s e fs full n,
  length_law K dft -> sortedZ ts -> s < e -> length vs = length ts ->
  let x := inside ts vs s e in
  let n' := resolve_n K n x in
  let X := dft (crop_pad (f0 K) n' x) in
  psd K dft ts vs s e fs full n
  = map (fun k => (k, let p := fmul K (psd_scale K fs n') (norm2 K (coef K n' X k)) in
                      if full then p else if k =? 0 then p else fmul K (two K) p)) (krange full n').
Proof. exact psd_spec. Qed.
Print Assumptions C19_psd_rows.

(* Parseval: full-range PSD summed times the frequency step fs/n = mean square of the n-point signal *)
Theorem C19_psd_parseval : forall K : Field,
  field_theory (f0 K) (f1 K) (fadd K) (fmul K) (fsub K) (fopp K) (fdiv K) (finv K) eq ->
  (forall n : nat, ofnat K (S n) <> f0 K) ->
  forall (dft : list K -> list (cplx K)) ts (vs : list K) s e fs n,
  length_law K dft -> sortedZ ts -> s < e -> length vs = length ts ->
  let x := inside ts vs s e in
  let n' := resolve_n K n x in
  parseval_at K dft (crop_pad (f0 K) n' x) -> (0 < fs)%Q -> (0 < n')%nat ->
  fsum K (map (fun kv => fmul K (snd kv) (fdiv K (ofQ K fs) (ofnat K n'))) (psd K dft ts vs s e fs true n))
  = fdiv K (fsum K (map (sq K) (crop_pad (f0 K) n' x))) (ofnat K n').
Proof. exact psd_parseval. Qed.
Print Assumptions C19_psd_parseval.

(* one-sided total: equals the full total for odd n; for even n it is the full total MINUS the Nyquist bin
   (fftfreq puts Nyquist at -fs/2, which index >= 0 discards) — recorded behaviour *)
Theorem C19_onesided_sum_odd : forall K : Field,
  field_theory (f0 K) (f1 K) (fadd K) (fmul K) (fsub K) (fopp K) (fdiv K) (finv K) eq ->
  (forall n : nat, ofnat K (S n) <> f0 K) ->
  forall (dft : list K -> list (cplx K)) ts (vs : list K) s e fs n m,
  length_law K dft -> sortedZ ts -> s < e -> length vs = length ts ->
  let x := inside ts vs s e in
  let n' := resolve_n K n x in
  hermitian_at K dft (crop_pad (f0 K) n' x) -> n' = (2 * m + 1)%nat ->
  fsum K (map snd (psd K dft ts vs s e fs false n)) = fsum K (map snd (psd K dft ts vs s e fs true n)).
Proof. exact onesided_sum_odd. Qed.
Print Assumptions C19_onesided_sum_odd.

Theorem C19_onesided_sum_even : forall K : Field,
  field_theory (f0 K) (f1 K) (fadd K) (fmul K) (fsub K) (fopp K) (fdiv K) (finv K) eq ->
  (forall n : nat, ofnat K (S n) <> f0 K) ->
  forall (dft : list K -> list (cplx K)) ts (vs : list K) s e fs n m,
  length_law K dft -> sortedZ ts -> s < e -> length vs = length ts ->
  let x := inside ts vs s e in
  let n' := resolve_n K n x in
  let X := dft (crop_pad (f0 K) n' x) in
  hermitian_at K dft (crop_pad (f0 K) n' x) -> n' = (2 * m)%nat -> (0 < m)%nat ->
  fsum K (map snd (psd K dft ts vs s e fs false n))
  = fsub K (fsum K (map snd (psd K dft ts vs s e fs true n))) (fmul K (psd_scale K fs n') (norm2 K (nth m X (c0 K)))).
Proof. exact onesided_sum_even. Qed.
Print Assumptions C19_onesided_sum_even.

(* ---- 4. _overlap_split ---- *)
(* per epoch [s,e]: the equal-length windows [s + j st, s + j st + L], j = 0, 1, ..., exactly those that end
   STRICTLY before e; consecutive windows overlap by L - st = overlap * L *)
Theorem C19_overlap_split_spec : forall ep L st, 0 < st -> 0 < L ->
  overlap_split ep L st
  = concat (map (fun se => map (fun j => (fst se + Z.of_nat j * st, fst se + Z.of_nat j * st + L))
                               (seq 0 (seg_count (fst se) (snd se) L st))) ep).
Proof. exact overlap_split_spec. Qed.
Print Assumptions C19_overlap_split_spec.
Theorem C19_overlap_split_count : forall s e L st j, 0 < st ->
  ((j < seg_count s e L st)%nat <-> s + Z.of_nat j * st + L < e).
Proof. exact seg_count_iff. Qed.
Print Assumptions C19_overlap_split_count.
Theorem C19_overlap_split_inside : forall ep L st a b, 0 < st -> 0 < L -> In (a, b) (overlap_split ep L st) ->
  b = a + L /\ exists s e j, In (s, e) ep /\ a = s + Z.of_nat j * st /\ s <= a /\ b < e.
Proof. exact overlap_split_inside. Qed.
Print Assumptions C19_overlap_split_inside.
(* the kernel's preallocated N + 1 rows are never exceeded when 0 <= overlap (st <= L) *)
Theorem C19_overlap_split_bound : forall ep L st, 0 < st <= L -> canonical ep ->
  Z.of_nat (length (overlap_split ep L st)) < alloc_rows ep st.
Proof. exact overlap_split_bound. Qed.
Print Assumptions C19_overlap_split_bound.

(* ---- 5. compute_mean_power_spectral_density ---- *)
(* when it returns: N = the smallest sample count of a segment (> 0); the row of frequency k*fs/N is the average
   over ALL segments of the periodogram |dft(first N samples * window N)|^2 / (fs N) at bin k mod N; rows sorted,
   one-sided form keeps k >= 0 and doubles k > 0 *)
Theorem C19_mean_psd_is_average : forall K : Field,
  field_theory (f0 K) (f1 K) (fadd K) (fmul K) (fsub K) (fopp K) (fdiv K) (finv K) eq ->
  (forall n : nat, ofnat K (S n) <> f0 K) ->
  forall (dft : list K -> list (cplx K)) (window : nat -> list K) ts (vs : list K) ep L st fs full rows,
  length_law K dft -> (forall N : nat, length (window N) = N) -> sortedZ ts -> length vs = length ts ->
  mean_psd K dft window ts vs ep L st fs full = Some rows ->
  let ch := chunks K ts vs ep L st in
  exists N : nat,
    ch <> [] /\ (0 < N)%nat /\ Forall (fun c => (N <= length c)%nat) ch /\ (exists c, In c ch /\ length c = N) /\
    (rows = map (fun k => (k,
               let avg := fdiv K (fsum K (map (fun c => nth (Z.to_nat (k mod Z.of_nat N)) (periodogram K dft window fs N c) (f0 K)) ch))
                                 (ofnat K (length ch)) in
               if full then avg else if k =? 0 then avg else fmul K (two K) avg)) (krange full N)).
Proof. exact mean_psd_spec. Qed.
Print Assumptions C19_mean_psd_is_average.

(* it raises exactly when no segment fits strictly inside an epoch or some segment holds no sample *)
Theorem C19_mean_psd_raises : forall (K : Field) (dft : list K -> list (cplx K)) (window : nat -> list K) ts (vs : list K) ep L st fs full,
  sortedZ ts -> length vs = length ts ->
  (mean_psd K dft window ts vs ep L st fs full = None
   <-> (chunks K ts vs ep L st = [] \/ exists c, In c (chunks K ts vs ep L st) /\ c = [])).
Proof. exact mean_psd_none. Qed.
Print Assumptions C19_mean_psd_raises.

(* ---- non-vacuity: the hypotheses above are met by a concrete computable instance ---- *)
Example C19_nonvacuous :
  field_theory (f0 QcF) (f1 QcF) (fadd QcF) (fmul QcF) (fsub QcF) (fopp QcF) (fdiv QcF) (finv QcF) eq
  /\ (forall n, ofnat QcF (S n) <> f0 QcF)
  /\ length_law QcF dft4
  /\ sortedZ ex_ts /\ 1 < 4 /\ length ex_vs = length ex_ts
  /\ inside ex_ts ex_vs 1 4 = map (fun z => Q2Qc (inject_Z z)) [3; 1; 4; 1]
  /\ parseval_at QcF dft4 (crop_pad (f0 QcF) 4 (inside ex_ts ex_vs 1 4))
  /\ hermitian_at QcF dft4 (crop_pad (f0 QcF) 4 (inside ex_ts ex_vs 1 4))
  /\ (0 < 512 # 1)%Q /\ map doubled (krange false 4) = [false; true]
  /\ psd QcF dft4 ex_ts ex_vs 1 4 (512 # 1) false None = [(0, Q2Qc (81 # 2048)); (1, Q2Qc (2 # 2048))]
  /\ overlap_split [(0, 8); (10, 30)] 4 2
     = [(0, 4); (2, 6); (10, 14); (12, 16); (14, 18); (16, 20); (18, 22); (20, 24); (22, 26); (24, 28)]
  /\ mean_plan [0; 1; 2; 3; 4; 5; 6; 7; 8; 9] [(0, 9)] 4 2 = Some (5%nat, [(0%nat, 5%nat); (2%nat, 7%nat); (4%nat, 9%nat)]).
Proof. exact spectrum_nonvacuous. Qed.
Print Assumptions C19_nonvacuous.
