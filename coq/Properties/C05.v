(* C05 — count and bin_average attribute each sample to exactly its own bin.
   Statements only; proofs in Proofs/CountProofs.v and Proofs/RestrictProofs.v.
   Ticks; bin centres are reported doubled (2*centre = 2*l + b). *)
From Verif Require Import Base.Prelude Model.Restrict Model.Count Proofs.RestrictProofs Proofs.CountProofs.

(* 1. without a bin size: per-interval counts over the closed intervals; they sum to len(restrict) *)
Theorem C05_count_ep : forall ts ep, sortedZ ts -> canonical ep ->
  restrict_cnt ts ep = map (fun iv => count_if (fun x => inb x iv) ts) ep.
Proof. exact restrict_cnt_spec. Qed.
Print Assumptions C05_count_ep.

Theorem C05_count_ep_sum : forall ts ep,
  fold_right Nat.add 0%nat (restrict_cnt ts ep) = length (restrict_idx ts ep).
Proof. exact restrict_cnt_sum. Qed.
Print Assumptions C05_count_ep_sum.

(* 2. with a bin size b: for each interval [s,e] the bins [s+jb, s+(j+1)b), j = 0,1,..., reported iff the
      centre does not exceed e; the value is the number of that interval's samples inside the bin *)
Theorem C05_count_binned : forall ts ep b, 0 < b -> sortedZ ts -> canonical ep ->
  count_binned ts ep b = count_spec ts ep b.
Proof. exact count_binned_spec. Qed.
Print Assumptions C05_count_binned.

(* 3. bin_average: the same grid; per bin the count and the sum of the values (mean = sum/count, NaN iff count = 0) *)
Theorem C05_bin_average : forall ts vs ep b, 0 < b -> sortedZ ts -> canonical ep -> length vs = length ts ->
  bin_sum_cnt ts vs ep b =
  concat (map (fun '(s, e) =>
     map (fun j => let l := s + Z.of_nat j * b in
            (2 * l + b, (count_if (fun t => inb t (s, e) && in_bin l b t) ts,
                         sumZ (map snd (filter (fun tv => inb (fst tv) (s, e) && in_bin l b (fst tv)) (combine ts vs))))))
         (seq 0 (n_reported s e b))) ep).
Proof. exact bin_sum_cnt_spec. Qed.
Print Assumptions C05_bin_average.

(* 4. no sample is counted twice or in a neighbouring bin *)
Theorem C05_bins_disjoint : forall s b j j' t, 0 < b -> j <> j' ->
  in_bin (s + Z.of_nat j * b) b t && in_bin (s + Z.of_nat j' * b) b t = false.
Proof. exact bins_disjoint. Qed.
Print Assumptions C05_bins_disjoint.

(* 5. every reported centre lies inside its own interval (so the result fits the support ep) *)
Theorem C05_centres_in_interval : forall s e b j, 0 < b -> (j < n_reported s e b)%nat ->
  2 * s <= 2 * (s + Z.of_nat j * b) + b <= 2 * e.
Proof. exact centres_in_interval. Qed.
Print Assumptions C05_centres_in_interval.

(* 6. a sample of the interval is left out only if it lies beyond the last reported bin *)
Theorem C05_counted_iff : forall s e b t, 0 < b -> s <= t <= e ->
  ((exists j, (j < n_reported s e b)%nat /\ in_bin (s + Z.of_nat j * b) b t = true)
   <-> t < s + Z.of_nat (n_reported s e b) * b).
Proof. exact counted_iff. Qed.
Print Assumptions C05_counted_iff.

Example C05_nonvacuous :
  sortedZ [0; 1; 2; 3; 4; 5; 6; 7; 8; 9; 10] /\ canonical [(0, 3); (5, 10)]
  /\ count_binned [0; 1; 2; 3; 4; 5; 6; 7; 8; 9; 10] [(0, 3); (5, 10)] 2
     = [(2, 2%nat); (6, 2%nat); (12, 2%nat); (16, 2%nat); (20, 2%nat)].
Proof. vm_compute. intuition congruence. Qed.
