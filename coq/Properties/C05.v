(* C05 — count and bin_average attribute each sample to exactly its own bin.
   Statements only; proofs in Proofs/CountProofs.v and Proofs/RestrictProofs.v.
   Ticks; bin centres are reported doubled (2*centre = 2*l + b). *)
From Coq Require Import QArith.
From Verif Require Import Base.Prelude Model.Restrict Model.Count Proofs.RestrictProofs Proofs.CountProofs.

(* 1. without a bin size: per-interval counts over the closed intervals; they sum to len(restrict) *)
Theorem C05_count_ep : forall ts ep, sortedZ ts -> canonical ep ->
  restrict_cnt ts ep = map (fun iv => count_if (fun x => inb x iv) ts) ep.
Proof. exact restrict_cnt_spec. Qed.
Print Assumptions C05_count_ep.

Theorem C05_count_ep_sum : forall ts ep,
  fold_right Nat.add 0%nat (restrict_cnt ts ep) = length (restrict_idx ts ep).
Proof. exact restrict_cnt_sum. Qed.
Print Assumptions C05_count_ep_sum.

(* 2. with a bin size b: for each interval [s,e] the bins [s+jb, s+(j+1)b), j = 0,1,..., reported iff the
      centre does not exceed e; the value is the number of that interval's samples inside the bin *)
Theorem C05_count_binned : forall ts ep b, 0 < b -> sortedZ ts -> canonical ep ->
  count_binned ts ep b = count_spec ts ep b.
Proof. exact count_binned_spec. Qed.
Print Assumptions C05_count_binned.

(* 3. bin_average: the same grid; per bin the count and the sum of the values (mean = sum/count, NaN iff count = 0) *)
Theorem C05_bin_average : forall ts vs ep b, 0 < b -> sortedZ ts -> canonical ep -> length vs = length ts ->
  bin_sum_cnt ts vs ep b =
  concat (map (fun '(s, e) =>
     map (fun j => let l := s + Z.of_nat j * b in
            (2 * l + b, (count_if (fun t => inb t (s, e) && in_bin l b t) ts,
                         sumZ (map snd (filter (fun tv => inb (fst tv) (s, e) && in_bin l b (fst tv)) (combine ts vs))))))
         (seq 0 (n_reported s e b))) ep).
Proof. exact bin_sum_cnt_spec. Qed.
Print Assumptions C05_bin_average.

(* 3b. the division and the NaN made explicit: what bin_average REPORTS per bin is the exact rational mean sum/count of the
       values of that interval's samples with l <= t < l+b, and NaN (None) iff there is none.  [mean_of] is the last line of
       _jitbin_array (average[0:b] / cnt[0:b]: 0/0 = NaN) on the model's (count, sum) pairs. *)
Definition mean_of (n : nat) (sm : Z) : option Q :=
  match n with O => None | S _ => Some (sm # Pos.of_nat n) end.
Definition bin_average_model (ts vs : list Z) (ep : iset) (b : Z) : list (Z * option Q) :=
  map (fun '(c, (n, sm)) => (c, mean_of n sm)) (bin_sum_cnt ts vs ep b).
Definition bin_values (ts vs : list Z) (s e l b : Z) : list Z :=
  map snd (filter (fun tv => inb (fst tv) (s, e) && in_bin l b (fst tv)) (combine ts vs)).

Theorem C05_bin_average_mean : forall ts vs ep b, 0 < b -> sortedZ ts -> canonical ep -> length vs = length ts ->
  bin_average_model ts vs ep b =
  concat (map (fun '(s, e) =>
     map (fun j => let l := s + Z.of_nat j * b in
            (2 * l + b, mean_of (length (bin_values ts vs s e l b)) (sumZ (bin_values ts vs s e l b))))
         (seq 0 (n_reported s e b))) ep).
Proof.
  intros ts vs ep b Hb Hs Hc Hl. unfold bin_average_model.
  rewrite (bin_sum_cnt_spec ts vs ep b Hb Hs Hc Hl).
  rewrite concat_map, map_map. f_equal.
  apply map_ext. intros [s e]. rewrite map_map. apply map_ext. intros j. cbv zeta.
  unfold bin_values. rewrite map_length.
  rewrite (filter_combine_count (fun t => inb t (s, e) && in_bin (s + Z.of_nat j * b) b t) ts vs Hl). reflexivity.
Qed.
Print Assumptions C05_bin_average_mean.

(* NaN iff no sample; otherwise mean * count = sum, exactly *)
Theorem C05_mean_nan_iff_empty : forall vals : list Z, mean_of (length vals) (sumZ vals) = None <-> vals = [].
Proof. intros vals. destruct vals; simpl; split; intros H; congruence. Qed.
Print Assumptions C05_mean_nan_iff_empty.

Theorem C05_mean_times_count : forall (vals : list Z) (q : Q), mean_of (length vals) (sumZ vals) = Some q ->
  Qeq (Qmult q (inject_Z (Z.of_nat (length vals)))) (inject_Z (sumZ vals)).
Proof.
  intros vals q H. destruct vals as [|v r]; [discriminate|].
  remember (length (v :: r)) as n. destruct n as [|n]; [discriminate|].
  simpl in H. injection H as <-. unfold Qeq, Qmult, inject_Z. cbn [Qnum Qden].
  rewrite !Z.mul_1_r, Pos.mul_1_r.
  replace (Z.of_nat (S n)) with (Z.pos (Pos.of_nat (S n))) by (rewrite <- Znat.positive_nat_Z, Nat2Pos.id by discriminate; reflexivity).
  reflexivity.
Qed.
Print Assumptions C05_mean_times_count.

(* 4. no sample is counted twice or in a neighbouring bin *)
Theorem C05_bins_disjoint : forall s b j j' t, 0 < b -> j <> j' ->
  in_bin (s + Z.of_nat j * b) b t && in_bin (s + Z.of_nat j' * b) b t = false.
Proof. exact bins_disjoint. Qed.
Print Assumptions C05_bins_disjoint.

(* 5. every reported centre lies inside its own interval (so the result fits the support ep) *)
Theorem C05_centres_in_interval : forall s e b j, 0 < b -> (j < n_reported s e b)%nat ->
  2 * s <= 2 * (s + Z.of_nat j * b) + b <= 2 * e.
Proof. exact centres_in_interval. Qed.
Print Assumptions C05_centres_in_interval.

(* 6. a sample of the interval is left out only if it lies beyond the last reported bin *)
Theorem C05_counted_iff : forall s e b t, 0 < b -> s <= t <= e ->
  ((exists j, (j < n_reported s e b)%nat /\ in_bin (s + Z.of_nat j * b) b t = true)
   <-> t < s + Z.of_nat (n_reported s e b) * b).
Proof. exact counted_iff. Qed.
Print Assumptions C05_counted_iff.

Example C05_nonvacuous :
  sortedZ [0; 1; 2; 3; 4; 5; 6; 7; 8; 9; 10] /\ canonical [(0, 3); (5, 10)]
  /\ count_binned [0; 1; 2; 3; 4; 5; 6; 7; 8; 9; 10] [(0, 3); (5, 10)] 2
     = [(2, 2%nat); (6, 2%nat); (12, 2%nat); (16, 2%nat); (20, 2%nat)].
Proof. vm_compute. intuition congruence. Qed.

(* The centre test is the EXACT one (doubled, on half-ticks), also when the bin size is an odd number of ticks: a bin whose centre lies
   half a tick beyond the end is not reported (pynapple up to d86eb2b rounds the centre to a tick first and reports it: harness
   finding centre_rounded_to_ns), one whose centre lies half a tick before the end is. *)
Example C05_half_tick_beyond_end_not_reported :
  count_binned [0] [(0, 500)] 1001 = [] /\ count_binned [0] [(0, 2)] 1 = [(1, 1%nat); (3, 0%nat)]
  /\ count_binned [0] [(0, 7)] 3 = [(3, 1%nat); (9, 0%nat)] /\ count_binned [0] [(0, 501)] 1001 = [(1001, 1%nat)].
Proof. vm_compute. intuition congruence. Qed.

(* ====================================================================================================
   Conservation: the counts of the reported bins of one interval add up to the number of samples of that
   interval lying before the end of the last reported bin - no sample is counted twice or dropped between bins. *)
Lemma count_if_split {A} (p q r : A -> bool) l :
  (forall x, p x = q x || r x) -> (forall x, q x && r x = false) ->
  count_if p l = (count_if q l + count_if r l)%nat.
Proof.
  intros H1 H2. induction l as [|x t IH]; [reflexivity|]. simpl.
  pose proof (H1 x) as E1. pose proof (H2 x) as E2.
  destruct (p x), (q x), (r x); simpl in *; try discriminate; lia.
Qed.

Lemma bins_sum_prefix ts s e b : 0 < b -> forall k,
  fold_right Nat.add 0%nat (map (fun j => count_if (fun t => inb t (s, e) && in_bin (s + Z.of_nat j * b) b t) ts) (seq 0 k))
  = count_if (fun t => inb t (s, e) && (t <? s + Z.of_nat k * b)) ts.
Proof.
  intros Hb. induction k as [|k IH].
  - simpl. induction ts as [|t r IHr]; [reflexivity|]. simpl. rewrite <- IHr.
    unfold inb. cbn [fst snd]. destruct (Z.leb_spec s t), (Z.leb_spec t e), (Z.ltb_spec t (s + 0)); simpl; try reflexivity; lia.
  - rewrite seq_S, map_app. cbn [map Nat.add].
    assert (Hs : forall (l1 : list nat) (x : nat), fold_right Nat.add 0%nat (l1 ++ [x]) = (fold_right Nat.add 0%nat l1 + x)%nat).
    { intros l1 x. induction l1 as [|y l1 IH1]; simpl; lia. }
    rewrite Hs, IH. symmetry. apply count_if_split; intros t; unfold in_bin, inb; cbn [fst snd];
      destruct (Z.leb_spec s t), (Z.leb_spec t e), (Z.ltb_spec t (s + Z.of_nat k * b)), (Z.ltb_spec t (s + Z.of_nat (S k) * b)),
               (Z.leb_spec (s + Z.of_nat k * b) t), (Z.ltb_spec t (s + Z.of_nat k * b + b)); simpl; try reflexivity; lia.
Qed.

Theorem C05_counts_conserved : forall ts s e b, 0 < b ->
  fold_right Nat.add 0%nat (map snd (count_spec_interval ts s e b))
  = count_if (fun t => inb t (s, e) && (t <? s + Z.of_nat (n_reported s e b) * b)) ts.
Proof.
  intros ts s e b Hb. unfold count_spec_interval. rewrite map_map. cbn [snd].
  apply (bins_sum_prefix ts s e b Hb).
Qed.
Print Assumptions C05_counts_conserved.

Example C05_counts_conserved_nonvacuous :
  map snd (count_spec_interval [0; 1; 4; 5; 9; 10] 0 10 4) = [2; 2; 2]%nat /\ n_reported 0 10 4 = 3%nat.
Proof. vm_compute. split; reflexivity. Qed.
