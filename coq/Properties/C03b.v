(* C03, tie by PROOF: the kernel TEXT of jitrestrict (Gen/Kernels.v, regenerated from /repo's source on every run)
   computes exactly the functional model restrict_idx used by the C03 theorems, for every series and every
   interval list with start <= end, whenever the interpreter terminates within its fuel (partial correctness);
   hence, for a sorted series and a canonical IntervalSet, it returns the positions of the samples inside the
   closed intervals.  Proof in Inv/Jitrestrict_func.v through the sound wp calculus (Jit/Safety.v). *)
From Coq Require Import ZArith List.
From Verif Require Import Base.Prelude Model.Restrict Jit.Lang Jit.Interp Gen.Kernels Inv.Jitrestrict_func.
Import ListNotations.

Theorem C03_kernel_text_computes_model : forall ts ep fuel,
  Forall (fun I => fst I <= snd I) ep ->
  match run fuel k_jitrestrict (jitrestrict_args ts ep) with
  | Return rs => rs = [index_array (restrict_idx ts ep)]
  | OutOfFuel => True
  | _ => False
  end.
Proof. exact k_jitrestrict_computes_restrict_idx. Qed.
Print Assumptions C03_kernel_text_computes_model.

Theorem C03_kernel_text_spec : forall ts ep fuel, sortedZ ts -> canonical ep ->
  match run fuel k_jitrestrict (jitrestrict_args ts ep) with
  | Return rs => rs = [index_array (filter_idx (fun x => mem x ep) 0%nat ts)]
  | OutOfFuel => True
  | _ => False
  end.
Proof. exact k_jitrestrict_spec. Qed.
Print Assumptions C03_kernel_text_spec.

(* The same for jitrestrict_with_count (positions and per-interval counts) and jitin_interval (interval number of
   each sample, NaN when in none).  jitin_interval needs sorted samples and sorted starts: Inv/Jitin_interval_func.v
   records, by computation, an unsorted input on which kernel and model differ for each hypothesis. *)
From Verif Require Import Inv.Jitrestrict_with_count_func Inv.Jitin_interval_func.

Theorem C03_with_count_kernel_text_computes_model : forall ts ep fuel,
  Forall (fun I => fst I <= snd I) ep ->
  match run fuel k_jitrestrict_with_count (jitrestrict_args ts ep) with
  | Return rs => rs = [index_array (restrict_idx ts ep); index_array (restrict_cnt ts ep)]
  | OutOfFuel => True
  | _ => False
  end.
Proof. exact k_jitrestrict_with_count_computes_model. Qed.
Print Assumptions C03_with_count_kernel_text_computes_model.

Theorem C03_with_count_kernel_text_spec : forall ts ep fuel, sortedZ ts -> canonical ep ->
  match run fuel k_jitrestrict_with_count (jitrestrict_args ts ep) with
  | Return rs => rs = [index_array (filter_idx (fun x => mem x ep) 0%nat ts);
                       index_array (map (fun iv => count_if (fun x => inb x iv) ts) ep)]
  | OutOfFuel => True
  | _ => False
  end.
Proof. exact k_jitrestrict_with_count_spec_func. Qed.
Print Assumptions C03_with_count_kernel_text_spec.

Theorem C03_in_interval_kernel_text_computes_model : forall ts ep fuel,
  sortedZ ts -> sortedZ (firsts ep) ->
  match run fuel k_jitin_interval (jitrestrict_args ts ep) with
  | Return rs => rs = [in_array (in_interval ts ep)]
  | OutOfFuel => True
  | _ => False
  end.
Proof. exact k_jitin_interval_computes_model. Qed.
Print Assumptions C03_in_interval_kernel_text_computes_model.

(* TOTAL correctness (Jit/Total.v): the three kernel texts terminate and return the model's value. *)
From Verif Require Import Inv.Jitrestrict_total Inv.Jitrestrict_with_count_total Inv.Jitin_interval_total.
Theorem C03_kernel_text_total : forall ts ep, Forall (fun I => fst I <= snd I) ep ->
  exists fuel, run fuel k_jitrestrict (jitrestrict_args ts ep) = Return [index_array (restrict_idx ts ep)].
Proof. exact k_jitrestrict_total. Qed.
Print Assumptions C03_kernel_text_total.

Theorem C03_with_count_kernel_text_total : forall ts ep, Forall (fun I => fst I <= snd I) ep ->
  exists fuel, run fuel k_jitrestrict_with_count (jitrestrict_args ts ep)
               = Return [index_array (restrict_idx ts ep); index_array (restrict_cnt ts ep)].
Proof. exact k_jitrestrict_with_count_total. Qed.
Print Assumptions C03_with_count_kernel_text_total.

Theorem C03_in_interval_kernel_text_total : forall ts ep, sortedZ ts -> sortedZ (firsts ep) ->
  exists fuel, run fuel k_jitin_interval (jitrestrict_args ts ep) = Return [in_array (in_interval ts ep)].
Proof. exact k_jitin_interval_total. Qed.
Print Assumptions C03_in_interval_kernel_text_total.
