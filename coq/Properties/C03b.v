(* C03, tie by PROOF: the kernel TEXT of jitrestrict (Gen/Kernels.v, regenerated from /repo's source on every run)
   computes exactly the functional model restrict_idx used by the C03 theorems, for every series and every
   interval list with start <= end, whenever the interpreter terminates within its fuel (partial correctness);
   hence, for a sorted series and a canonical IntervalSet, it returns the positions of the samples inside the
   closed intervals.  Proof in Inv/Jitrestrict_func.v through the sound wp calculus (Jit/Safety.v). *)
From Coq Require Import ZArith List.
From Verif Require Import Base.Prelude Model.Restrict Jit.Lang Jit.Interp Gen.Kernels Inv.Jitrestrict_func.
Import ListNotations.

Theorem C03_kernel_text_computes_model : forall ts ep fuel,
  Forall (fun I => fst I <= snd I) ep ->
  match run fuel k_jitrestrict (jitrestrict_args ts ep) with
  | Return rs => rs = [index_array (restrict_idx ts ep)]
  | OutOfFuel => True
  | _ => False
  end.
Proof. exact k_jitrestrict_computes_restrict_idx. Qed.
Print Assumptions C03_kernel_text_computes_model.

Theorem C03_kernel_text_spec : forall ts ep fuel, sortedZ ts -> canonical ep ->
  match run fuel k_jitrestrict (jitrestrict_args ts ep) with
  | Return rs => rs = [index_array (filter_idx (fun x => mem x ep) 0%nat ts)]
  | OutOfFuel => True
  | _ => False
  end.
Proof. exact k_jitrestrict_spec. Qed.
Print Assumptions C03_kernel_text_spec.
