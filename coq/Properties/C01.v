(* C01 — every IntervalSet is canonical and covers the union of its inputs.
   Statements only; proofs in Proofs/FixIsetProofs.v, FixIsetCover.v, SortInvariance.v, C01Top.v.
   Times are integer nanosecond ticks; us = 1000. *)
From Verif Require Import Base.Prelude Model.Iset Proofs.FixIsetProofs Proofs.C01Top Proofs.C01Exact.

(* 1. canonical for ALL inputs (unsorted, duplicated, nested, overlapping, touching, zero-length, inverted) *)
Theorem C01_canonical : forall ss es, length ss = length es -> canonical (mk_iset ss es).
Proof. exact mk_iset_canonical. Qed.
Print Assumptions C01_canonical.

(* 2. when every input pair has start <= end: nothing outside the union is covered *)
Theorem C01_cover_sound : forall ss es x,
  length ss = length es -> pairs_ordered ss es ->
  mem x (mk_iset ss es) = true -> mem x (combine ss es) = true.
Proof. exact mk_iset_cover_sound. Qed.
Print Assumptions C01_cover_sound.

(* 3. ... and every point of the union is covered, except within 1 us before some input start
      (the trimmed microsecond of a touching neighbour; a vanishing zero-length input) *)
Theorem C01_cover_complete : forall ss es x,
  length ss = length es -> pairs_ordered ss es ->
  mem x (combine ss es) = true ->
  mem x (mk_iset ss es) = true \/ exists p, In p ss /\ p - us <= x <= p.
Proof. exact mk_iset_cover_complete. Qed.
Print Assumptions C01_cover_complete.

(* 3'. EXACT form of 3, as the property states it: when no input is zero-length (start < end for every pair), the ONLY
       points of the union that may be missing are the trimmed microsecond [p - 1us, p) before a GENUINE touching point p:
       p ends one input and starts another, and no input straddles p. *)
Theorem C01_cover_exact : forall ss es x,
  length ss = length es -> proper_pairs ss es ->
  mem x (combine ss es) = true ->
  mem x (mk_iset ss es) = true \/ exists p, touching_point p (combine ss es) /\ p - us <= x < p.
Proof. exact mk_iset_cover_exact. Qed.
Print Assumptions C01_cover_exact.

(* 3''. ... and with a zero-length input the exact form FAILS (the recorded finding: IntervalSet(start=[0,5], end=[10,5])
        loses (4.999999, 5) although 5 is straddled by [0,10]); statement 3 above is what remains true there. *)
Theorem C01_cover_exact_zero_length_refuted :
  ~ (forall ss es x, length ss = length es -> pairs_ordered ss es ->
       mem x (combine ss es) = true ->
       mem x (mk_iset ss es) = true \/ exists p, touching_point p (combine ss es) /\ p - us <= x < p).
Proof. exact mk_iset_cover_exact_needs_proper. Qed.
Print Assumptions C01_cover_exact_zero_length_refuted.

(* 4. a canonical set is a fixed point of the constructor (so re-entering it changes nothing) *)
Theorem C01_fixed_point : forall A, canonical A -> mk_iset_pairs A = A.
Proof. exact mk_iset_canonical_id. Qed.
Print Assumptions C01_fixed_point.

(* 5. results of the set operations are canonical whatever the kernels return *)
Theorem C01_ops_canonical : forall A B,
  canonical (iset_inter A B) /\ canonical (iset_union A B) /\ canonical (iset_diff A B).
Proof. exact ops_canonical. Qed.
Print Assumptions C01_ops_canonical.

(* 6. the kernel as it stood at the pinned commit did NOT satisfy 1 (the two recorded findings) *)
Theorem C01_original_kernel_refuted :
  (exists ss es, length ss = length es /\ ~ canonical (fix_iset_orig (combine (sortZ ss) (sortZ es))))
  /\ ~ canonical (fix_iset_orig (combine (sortZ [0; 500]) (sortZ [500; 1000000000]))).
Proof. exact fix_iset_orig_refuted. Qed.
Print Assumptions C01_original_kernel_refuted.

Example C01_nonvacuous :
  mk_iset [5000; 0; 2000; 9000; 9000] [9000; 2000; 3000; 9000; 12000] = [(0, 1000); (2000, 3000); (5000, 8000); (9000, 12000)]
  /\ pairs_ordered [5000; 0; 2000; 9000; 9000] [9000; 2000; 3000; 9000; 12000].
Proof. split; [vm_compute; reflexivity|]. unfold pairs_ordered; simpl. repeat constructor; simpl; lia. Qed.

(* ====================================================================================================
   The constructor is idempotent: building an IntervalSet from the start / end columns of an IntervalSet (what
   IntervalSet(ep), ep[:] , save + load and every set operation's re-entry do) returns the same intervals; in
   particular the public results of union / intersect / set_diff are fixed points of the constructor. *)
Theorem C01_idempotent : forall ss es, length ss = length es ->
  mk_iset_pairs (mk_iset ss es) = mk_iset ss es.
Proof. intros ss es Hl. apply mk_iset_canonical_id. apply mk_iset_canonical. exact Hl. Qed.
Print Assumptions C01_idempotent.

Theorem C01_ops_fixed_points : forall A B,
  mk_iset_pairs (iset_inter A B) = iset_inter A B
  /\ mk_iset_pairs (iset_union A B) = iset_union A B
  /\ mk_iset_pairs (iset_diff A B) = iset_diff A B.
Proof.
  intros A B. destruct (ops_canonical A B) as (H1 & H2 & H3).
  repeat split; apply mk_iset_canonical_id; assumption.
Qed.
Print Assumptions C01_ops_fixed_points.

Example C01_idempotent_nonvacuous :
  mk_iset [0; 5000; 20000] [10000; 15000; 20000] = [(0, 15000)]
  /\ mk_iset_pairs (mk_iset [0; 5000; 20000] [10000; 15000; 20000]) = [(0, 15000)].
Proof. vm_compute. split; reflexivity. Qed.
