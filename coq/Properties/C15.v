(* C15 — compiled kernels stay inside their arrays and read only assigned variables.
   The kernels are the terms of Gen/Kernels.v, REGENERATED from /repo's source on every run by tools/py2jit.py.
   `run fuel k args` is the checked interpreter (Jit/Interp.v): every array access is bounds-checked and every
   variable read is checked for assignment; safe_outcome o := o is not an error.  Each theorem holds for ALL
   array sizes and contents satisfying the public-call precondition Pre_<kernel> (Inv/<kernel>.v), and all fuel.
   Statements only; proofs in Inv/*.v through the proved-sound safety calculus Jit/Safety.v. *)
From Coq Require Import ZArith List.
From Verif Require Import Jit.Lang Jit.Interp Jit.Safety Gen.Kernels.
From Verif Require Import Inv.Jitrestrict Inv.Jitrestrict_with_count Inv.Jitin_interval Inv.Jitunion_isets Inv.Jitfix_iset
  Inv.Jitintersect Inv.Jitunion Inv.Jitdiff Inv.Jitremove_nan Inv.Jitthreshold Inv.Jitcount Inv.Jitbin_array Inv.Jitvaluefrom
  Inv.Cross_correlogram Inv.Jitcontinuous_perievent Inv.Jitperievent_trigger_average Inv.Overlap_split.

Theorem C15_jitrestrict : forall args, Pre_jitrestrict args -> forall fuel, safe_outcome (run fuel k_jitrestrict args).
Proof. exact k_jitrestrict_safe. Qed.
Print Assumptions C15_jitrestrict.
Theorem C15_jitrestrict_with_count : forall args, Pre_jitrestrict_with_count args -> forall fuel, safe_outcome (run fuel k_jitrestrict_with_count args).
Proof. exact k_jitrestrict_with_count_safe. Qed.
Print Assumptions C15_jitrestrict_with_count.
Theorem C15_jitin_interval : forall args, Pre_jitin_interval args -> forall fuel, safe_outcome (run fuel k_jitin_interval args).
Proof. exact k_jitin_interval_safe. Qed.
Print Assumptions C15_jitin_interval.
Theorem C15_jitunion_isets : forall args, Pre_jitunion_isets args -> forall fuel, safe_outcome (run fuel k_jitunion_isets args).
Proof. exact k_jitunion_isets_safe. Qed.
Print Assumptions C15_jitunion_isets.
Theorem C15_jitfix_iset : forall args, Pre__jitfix_iset args -> forall fuel, safe_outcome (run fuel k__jitfix_iset args).
Proof. exact k__jitfix_iset_safe. Qed.
Print Assumptions C15_jitfix_iset.
Theorem C15_jitintersect : forall args, Pre_jitintersect args -> forall fuel, safe_outcome (run fuel k_jitintersect args).
Proof. exact k_jitintersect_safe. Qed.
Print Assumptions C15_jitintersect.
Theorem C15_jitunion : forall args, Pre_jitunion args -> forall fuel, safe_outcome (run fuel k_jitunion args).
Proof. exact k_jitunion_safe. Qed.
Print Assumptions C15_jitunion.
Theorem C15_jitdiff : forall args, Pre_jitdiff args -> forall fuel, safe_outcome (run fuel k_jitdiff args).
Proof. exact k_jitdiff_safe. Qed.
Print Assumptions C15_jitdiff.
Theorem C15_jitremove_nan : forall args, Pre_jitremove_nan args -> forall fuel, safe_outcome (run fuel k_jitremove_nan args).
Proof. exact k_jitremove_nan_safe. Qed.
Print Assumptions C15_jitremove_nan.
Theorem C15_jitthreshold : forall args, Pre_jitthreshold args -> forall fuel, safe_outcome (run fuel k_jitthreshold args).
Proof. exact k_jitthreshold_safe. Qed.
Print Assumptions C15_jitthreshold.
Theorem C15_jitcount : forall args, Pre_jitcount args -> forall fuel, safe_outcome (run fuel k_jitcount args).
Proof. exact k_jitcount_safe. Qed.
Print Assumptions C15_jitcount.
Theorem C15_jitbin_array : forall args, Pre__jitbin_array args -> forall fuel, safe_outcome (run fuel k__jitbin_array args).
Proof. exact k__jitbin_array_safe. Qed.
Print Assumptions C15_jitbin_array.
Theorem C15_jitvaluefrom : forall args, Pre_jitvaluefrom args -> forall fuel, safe_outcome (run fuel k_jitvaluefrom args).
Proof. exact k_jitvaluefrom_safe. Qed.
Print Assumptions C15_jitvaluefrom.
Theorem C15_cross_correlogram : forall args, Pre__cross_correlogram args -> forall fuel, safe_outcome (run fuel k__cross_correlogram args).
Proof. exact k__cross_correlogram_safe. Qed.
Print Assumptions C15_cross_correlogram.
Theorem C15_jitcontinuous_perievent : forall args, Pre__jitcontinuous_perievent args -> forall fuel, safe_outcome (run fuel k__jitcontinuous_perievent args).
Proof. exact k__jitcontinuous_perievent_safe. Qed.
Print Assumptions C15_jitcontinuous_perievent.

Theorem C15_jitperievent_trigger_average : forall args, Pre__jitperievent_trigger_average args -> forall fuel, safe_outcome (run fuel k__jitperievent_trigger_average args).
Proof. exact k__jitperievent_trigger_average_safe. Qed.
Print Assumptions C15_jitperievent_trigger_average.
(* floats are exact rationals in the interpreter: the rounding of N = ceil(sum / (interval_size (1 - overlap))) in float64 is not
   covered; the kernel's own N + 1 slack absorbs it *)
Theorem C15_overlap_split : forall args, Pre__overlap_split args -> forall fuel, safe_outcome (run fuel k__overlap_split args).
Proof. exact k__overlap_split_safe. Qed.
Print Assumptions C15_overlap_split.

(* the calculus itself *)
Theorem C15_wp_sound : forall (env : list func) (ann : nat -> annot) (c : stmt) (Q : post) (st : store) (fuel : nat),
  wp env ann c Q st -> post_holds (exec env fuel c st) Q.
Proof. exact wp_sound. Qed.
Print Assumptions C15_wp_sound.
