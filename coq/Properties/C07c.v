(* C07, tie of the Python GLUE by PROOF: _threshold and _dropna (pynapple/core/_core_functions.py), translated by
   tools/py2glue.py (Gen/Glue.v, regenerated from /repo on every run).
   _threshold (numpy backend declared): (time_array, data_array[:], starts, ends, thr, method) go to jitthreshold in that
   order and its four results are returned unchanged - kept times, kept data, and the new support's starts / ends as exact
   half ticks, i.e. [thr_go] of Model/Threshold.v (which counts doubled ticks).  With the translated kernel TEXT as
   environment the hypotheses are those of the kernel's own theorem (Properties/C07b.v).
   Proofs: Glue/Ref__threshold.v (and Glue/Ref__dropna.v for the second part of this file). *)
From Coq Require Import ZArith QArith String List.
From Verif Require Import Base.Prelude Model.Threshold Jit.Lang Glue.Lang Glue.Interp Glue.Kenv Gen.Glue.
From Verif Require Inv.Jitrestrict_func Glue.KenvText Glue.Ref__threshold.
Import ListNotations.
Open Scope Z_scope.
Notation firsts := Jitrestrict_func.firsts.
Notation seconds := Jitrestrict_func.seconds.

Theorem C07_glue_threshold : forall K ts dd data ep thr m, Ref__threshold.K_threshold_at K ts dd data ep thr m ->
  grun K g__threshold [tarr ts; GArr (A1 dd data); tarr (firsts ep); tarr (seconds ep); GSc thr;
                       GStr (Ref__threshold.method_string m)]
  = GOk (Ref__threshold.threshold_out ts dd data ep thr m).
Proof. exact Ref__threshold.ref_threshold. Qed.
Print Assumptions C07_glue_threshold.

Theorem C07_glue_threshold_with_kernel_text : forall ts dd data ep thr m,
  length data = length ts -> 0 <= m <= 3 -> (ep = [] -> ts = []) ->
  exists fuel, grun (KenvText.kenv_text fuel) g__threshold
                 [tarr ts; GArr (A1 dd data); tarr (firsts ep); tarr (seconds ep); GSc thr;
                  GStr (Ref__threshold.method_string m)]
               = GOk (Ref__threshold.threshold_out ts dd data ep thr m).
Proof. exact Ref__threshold.threshold_text_to_model. Qed.
Print Assumptions C07_glue_threshold_with_kernel_text.

(* samples 0,10,20,30 with data 1,5,5,1 above 2: kept 10,20; new support from the midpoint 5 to the midpoint 25 *)
Example C07_glue_threshold_nonvacuous :
  grun KenvText.kenv_exec g__threshold
    [tarr [0; 10; 20; 30]; GArr (A1 DFlt [VFlt (Some 1%Q); VFlt (Some 5%Q); VFlt (Some 5%Q); VFlt (Some 1%Q)]);
     tarr [0]; tarr [30]; GSc (VInt 2); GStr "above"]
  = GOk (GTup [tarr [10; 20]; GArr (A1 DFlt [VFlt (Some 5%Q); VFlt (Some 5%Q)]);
               GArr (A1 DFlt [VFlt (Some 5%Q)]); GArr (A1 DFlt [VFlt (Some 25%Q)])]).
Proof. vm_compute. reflexivity. Qed.

(* _dropna (1-D data declared): the NaN mask, the three branches, tokeep = np.where(~mask)[0], the call of jitremove_nan
   on (time_array, mask) and the singleton widening `ends[to_fix] += 1e-6` (exactly 1000 ticks) compute [dropna_spec]:
   all rows NaN (the EMPTY series included: np.all of an empty mask is True) -> (empty, empty, None | starts, None | ends);
   no NaN -> the arguments unchanged; otherwise the kept times / kept data and, when update_time_support, the columns of
   [dropna_support] of Model/Threshold.v (runs of kept rows, a singleton run widened by us).
   Note: on the EMPTY series with update_time_support the routine answers starts = ends = None, whereas the hand model
   of the public operation (Model/Store.v, OpDropna) keeps the support - Ref__dropna.dropna_spec_empty records it.
   Proofs: Glue/Ref__dropna.v, Glue/Compose__dropna.v. *)
From Verif Require Glue.Ref__dropna Glue.Compose__dropna.

Theorem C07_glue_dropna : forall K ts data st en b,
  length data = length ts ->
  (b = true -> forallb negb (Ref__dropna.kp_of data) = false -> forallb (fun b => b) (Ref__dropna.kp_of data) = false ->
   Ref__dropna.K_remove_nan_at K ts (Ref__dropna.kp_of data)) ->
  grun K g__dropna [tarr ts; Ref__dropna.farr data; st; en; GSc (VBool b)]
  = GOk (Ref__dropna.dropna_spec ts data st en b).
Proof. exact Ref__dropna.ref_dropna. Qed.
Print Assumptions C07_glue_dropna.

Theorem C07_glue_dropna_support : forall K ts data st en,
  length data = length ts ->
  forallb negb (Ref__dropna.kp_of data) = false -> forallb (fun b => b) (Ref__dropna.kp_of data) = false ->
  Ref__dropna.K_remove_nan_at K ts (Ref__dropna.kp_of data) ->
  grun K g__dropna [tarr ts; Ref__dropna.farr data; st; en; GSc (VBool true)]
  = GOk (GTup [tarr (kept_times (combine ts (Ref__dropna.kp_of data))); Ref__dropna.farr (Ref__dropna.kept_cells data);
               tarr (firsts (dropna_support (combine ts (Ref__dropna.kp_of data))));
               tarr (seconds (dropna_support (combine ts (Ref__dropna.kp_of data))))]).
Proof. exact Ref__dropna.ref_dropna_some_update. Qed.
Print Assumptions C07_glue_dropna_support.

Theorem C07_glue_dropna_with_kernel_text : forall ts data st en b, length data = length ts ->
  exists fuel, grun (KenvText.kenv_text fuel) g__dropna [tarr ts; Ref__dropna.farr data; st; en; GSc (VBool b)]
               = GOk (Ref__dropna.dropna_spec ts data st en b).
Proof. exact Compose__dropna.dropna_text_to_spec. Qed.
Print Assumptions C07_glue_dropna_with_kernel_text.

(* the length hypothesis is needed: a data array longer than the time array makes time_array[tokeep] raise IndexError *)
Theorem C07_glue_dropna_length_needed :
  exists ts data, length data <> length ts
    /\ grun KenvText.kenv_exec g__dropna [tarr ts; Ref__dropna.farr data; tarr []; tarr []; GSc (VBool false)] = GErr EIndex.
Proof.
  exists [0; 10], [VFlt (Some (1 # 7)%Q); VFlt None; VFlt (Some (3 # 7)%Q)]. split; [discriminate|vm_compute; reflexivity].
Qed.
Print Assumptions C07_glue_dropna_length_needed.

(* runs [0,10], [30], [50]: each singleton is widened by exactly 1000 ticks (1 us) *)
Example C07_glue_dropna_nonvacuous :
  grun KenvText.kenv_exec g__dropna
    [tarr [0; 10; 20; 30; 40; 50];
     Ref__dropna.farr [VFlt (Some 1%Q); VFlt (Some 2%Q); VFlt None; VFlt (Some 3%Q); VFlt None; VFlt (Some 4%Q)];
     tarr [-5]; tarr [100]; GSc (VBool true)]
  = GOk (GTup [tarr [0; 10; 30; 50]; Ref__dropna.farr [VFlt (Some 1%Q); VFlt (Some 2%Q); VFlt (Some 3%Q); VFlt (Some 4%Q)];
               tarr [0; 30; 50]; tarr [10; 1030; 1050]]).
Proof. vm_compute. reflexivity. Qed.

(* ---- G3: the bodies of the public methods _BaseTsd.dropna and Tsd.threshold (pynapple/core/time_series.py) --------------------
   dropna: the bool check, the call of _dropna on (t, values, support.start, support.end, update_time_support), then
   ep = IntervalSet(starts, ends) | None | self.time_support and _initialize_tsd_output(self, d, time_index=t, time_support=ep).
   [dropna_ctor_args] spells out what reaches the constructor in each of the four branches; for mixed rows it is
   (kept data, kept times, mk_iset_pairs (dropna_support l)): the arguments of Model/Store.v's OpDropna.
   threshold: the method check, _threshold, IntervalSet(start=ns, end=ne), Tsd(t=t, d=d, time_support=..).  The midpoints are
   exact half ticks; the IntervalSet constructor was translated under the declared identity of format_timestamps on
   already-rounded input, so the theorem is stated when every doubled tick of thr_go is EVEN - exactly when Store.v's
   halve_iset (integer division) is exact; then the constructor receives OpThreshold's arguments.
   Proofs: Glue/Ref_tsd_dropna.v, Glue/Ref_tsd_threshold.v. *)
From Verif Require Model.Store Glue.Ref_tsd_dropna Glue.Ref_tsd_threshold.

Theorem C07_glue_method_dropna : forall K ts data sup b,
  length data = length ts ->
  (b = true -> forallb negb (Ref__dropna.kp_of data) = false -> forallb (fun b => b) (Ref__dropna.kp_of data) = false ->
   Ref__dropna.K_remove_nan_at K ts (Ref__dropna.kp_of data)
   /\ K_ctor_at K (firsts (dropna_support (combine ts (Ref__dropna.kp_of data))))
                  (seconds (dropna_support (combine ts (Ref__dropna.kp_of data))))) ->
  (b = true -> forallb negb (Ref__dropna.kp_of data) = false -> forallb (fun b => b) (Ref__dropna.kp_of data) = true ->
   K_ctor_at K (firsts sup) (seconds sup)) ->
  grun K g__BaseTsd_dropna [Ref_tsd_dropna.series_val "Tsd" ts (Some data) sup; GSc (VBool b)]
  = of_opt (K "_initialize_tsd_output"%string (Ref_tsd_dropna.dropna_ctor_args ts data sup b))
           (EKernelErr "_initialize_tsd_output").
Proof. exact Ref_tsd_dropna.ref_tsd_dropna. Qed.
Print Assumptions C07_glue_method_dropna.

Theorem C07_glue_method_dropna_with_kernel_text : forall (C : kenv) ts data sup b, length data = length ts ->
  exists fuel, grun (Ref_tsd_dropna.kenv_with fuel C) g__BaseTsd_dropna
                 [Ref_tsd_dropna.series_val "Tsd" ts (Some data) sup; GSc (VBool b)]
               = of_opt (C "_initialize_tsd_output"%string (Ref_tsd_dropna.dropna_ctor_args ts data sup b))
                        (EKernelErr "_initialize_tsd_output").
Proof. exact Ref_tsd_dropna.tsd_dropna_text_to_model. Qed.
Print Assumptions C07_glue_method_dropna_with_kernel_text.

Theorem C07_glue_method_dropna_type_error : forall K self v, (forall b, v <> GSc (VBool b)) ->
  grun K g__BaseTsd_dropna [self; v] = GErr (ERaise "TypeError").
Proof. exact Ref_tsd_dropna.tsd_dropna_type_error. Qed.
Print Assumptions C07_glue_method_dropna_type_error.

Theorem C07_glue_method_threshold : forall K ts data sup thr m,
  0 <= m <= 3 ->
  Ref__threshold.K_threshold_at K ts DFlt data sup thr m ->
  let l := combine ts (Jitthreshold_func.keptl m thr data) in
  let SS := fst (thr_go None sup l) in
  let EE := snd (thr_go None sup l) in
  Ref_tsd_threshold.all_even SS -> Ref_tsd_threshold.all_even EE -> length SS = length EE ->
  K_ctor_at K (Ref_tsd_threshold.halves SS) (Ref_tsd_threshold.halves EE) ->
  grun K g_Tsd_threshold [Ref_tsd_dropna.series_val "Tsd" ts (Some data) sup; GSc thr; GStr (Ref__threshold.method_string m)]
  = of_opt (K "Tsd"%string
              [tarr (kept_times l);
               GArr (A1 DFlt (map fst (filter snd (combine data (Jitthreshold_func.keptl m thr data)))));
               iset_val (Iset.mk_iset_pairs (Store.halve_iset (threshold_support sup l)))])
           (EKernelErr "Tsd").
Proof. exact Ref_tsd_threshold.ref_tsd_threshold. Qed.
Print Assumptions C07_glue_method_threshold.

Theorem C07_glue_method_threshold_value_error : forall K self thr s,
  s <> "above"%string -> s <> "below"%string -> s <> "aboveequal"%string -> s <> "belowequal"%string ->
  grun K g_Tsd_threshold [self; thr; GStr s] = GErr (ERaise "ValueError").
Proof. exact Ref_tsd_threshold.tsd_threshold_value_error. Qed.
Print Assumptions C07_glue_method_threshold_value_error.
