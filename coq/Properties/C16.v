(* C16 — correlograms and peri-event alignment report true lags to the reference events.
   Statements only; proofs in Proofs/CorrelogramProofs.v, PerieventProofs.v, PerieventNearestProofs.v,
   PerieventContProofs.v, C16Top.v.  Ticks; every bound of the correlogram is carried doubled (the window
   half-width nbins*b/2 is a half-tick quantity); NaN is None.  np.searchsorted / np.unique / np.arange are
   characterised by their NumPy contracts in the models (Model/Slice.v, Model/Perievent.v). *)
From Coq Require Import QArith.
From Verif Require Import Base.Prelude Model.Restrict Model.Count Model.Slice Model.Correlogram Model.Perievent
  Proofs.CorrelogramProofs Proofs.PerieventProofs Proofs.PerieventNearestProofs Proofs.PerieventContProofs Proofs.C16Top.
Open Scope Z_scope.

(* ---------------- correlograms ---------------- *)
(* 1. number of bins: int((2w)//b) made odd = 2*floor(w/b) + 1 *)
Theorem C16_nbins : forall b w, 0 < b -> 0 <= w -> xc_nbins b w = 2 * (w / b) + 1.
Proof. exact xc_nbins_odd. Qed.
Print Assumptions C16_nbins.

(* 2. the kernel's output (counts before scaling, doubled centres) IS the histogram of all pairwise lags
      target - reference in half-open bins [c - b/2, c + b/2) centred on the multiples c = k*b, |c| <= w *)
Theorem C16_xcorr_histogram : forall t1 t2 b w, 0 < b -> 0 <= w -> sortedZ t1 -> sortedZ t2 ->
  map (fun cb => 2 * fst cb) (xcorr_hist t1 t2 b w) = xcorr_centres2 b w
  /\ map snd (xcorr_hist t1 t2 b w) = xcorr_counts t1 t2 b w.
Proof. exact xcorr_hist_spec. Qed.
Print Assumptions C16_xcorr_histogram.

(* 2'. the same in edge form: C[j] = #{(i1, i2) | -W + j*b <= t2[i2] - t1[i1] < -W + (j+1)*b}, 2W = nbins*b *)
Theorem C16_xcorr_edges : forall t1 t2 b w, 0 < b -> 0 <= w -> sortedZ t1 -> sortedZ t2 ->
  xcorr_counts t1 t2 b w = xcorr_spec t1 t2 b w.
Proof. exact xcorr_counts_spec. Qed.
Print Assumptions C16_xcorr_edges.

(* 3. the reported centres are exactly the multiples of the bin size inside the requested window *)
Theorem C16_centres_in_window : forall b w k, 0 < b -> 0 <= w -> (- w <= k * b <= w <-> - (w / b) <= k <= w / b).
Proof. exact centres_in_window. Qed.
Print Assumptions C16_centres_in_window.

(* 4. the bins tile [-W, W): no pair is counted twice, none inside is lost *)
Theorem C16_no_double_count : forall t1 t2 b w, 0 < b -> 0 <= w ->
  fold_right Nat.add 0%nat (xcorr_spec t1 t2 b w) = lag_count t1 t2 (- (xc_nbins b w * b)) (xc_nbins b w * b).
Proof. exact xcorr_total. Qed.
Print Assumptions C16_no_double_count.

(* 5. autocorrelogram: the row of lag 0 is zero, every other row is the histogram of the train against itself *)
Theorem C16_autocorr_zero_lag : forall t b w, 0 < b -> 0 <= w -> sortedZ t ->
  autocorr_counts t b w = zero_at 0%nat (Z.to_nat (w / b)) (xcorr_spec t t b w)
  /\ nth (Z.to_nat (w / b)) (autocorr_counts t b w) 0%nat = 0%nat
  /\ nth (Z.to_nat (w / b)) (xcorr_centres2 b w) 1 = 0.
Proof. exact autocorr_counts_spec. Qed.
Print Assumptions C16_autocorr_zero_lag.

(* 6. normalisation (rationals): value * (n_ref * binsize[s]) is the pair count; norm=True divides by the target's rate *)
Theorem C16_rate : forall c n1 b, (0 < n1)%nat -> 0 < b ->
  (xc_rate c n1 b * ((inject_Z (Z.of_nat n1) * inject_Z b) / inject_Z ticks_per_s) == inject_Z (Z.of_nat c))%Q.
Proof. exact xc_rate_spec. Qed.
Print Assumptions C16_rate.

Theorem C16_norm : forall c n1 b n2 tot, (0 < n2)%nat -> 0 < tot ->
  (xc_norm c n1 b n2 tot * ts_rate n2 tot == xc_rate c n1 b)%Q.
Proof. exact xc_norm_spec. Qed.
Print Assumptions C16_norm.

(* ---------------- compute_perievent ---------------- *)
(* 7. member i = the lags t - r_i (with their rows) of exactly the samples with r_i - w0 <= t < r_i + w1
      (left edge in, right edge out), in order, tagged r_i *)
Theorem C16_perievent : forall (A : Type) w0 w1 ts (rows : list A) tref,
  0 <= w0 -> 0 <= w1 -> sortedZ ts -> length rows = length ts ->
  align_tsd w0 w1 ts rows tref = perievent_spec w0 w1 ts rows tref.
Proof. exact align_tsd_spec. Qed.
Print Assumptions C16_perievent.

Theorem C16_perievent_ref_times : forall (A : Type) w0 w1 ts (rows : list A) tref,
  map fst (align_tsd w0 w1 ts rows tref) = tref.
Proof. exact align_tsd_tags. Qed.
Print Assumptions C16_perievent_ref_times.

(* every lag lies inside the new time support, so the constructor's restriction removes nothing *)
Theorem C16_perievent_in_support : forall (A : Type) w0 w1 ts (rows : list A) r l v,
  0 <= w0 -> 0 <= w1 -> sortedZ ts -> length rows = length ts ->
  In (l, v) (align_one w0 w1 ts rows r) -> - w0 <= l < w1.
Proof. exact align_lags_in_support. Qed.
Print Assumptions C16_perievent_in_support.

Theorem C16_perievent_sorted : forall (A : Type) w0 w1 ts (rows : list A) r,
  0 <= w0 -> 0 <= w1 -> sortedZ ts -> length rows = length ts ->
  sortedZ (map fst (align_one w0 w1 ts rows r)).
Proof. exact align_lags_sorted. Qed.
Print Assumptions C16_perievent_sorted.

(* ---------------- compute_perievent_continuous ---------------- *)
(* 8. argmin_last x es is a sample of the epoch nearest to x (the later one on ties) ... *)
Theorem C16_nearest_sample : forall x es, es <> [] -> nearest_last es x (argmin_last x es).
Proof. exact argmin_last_spec. Qed.
Print Assumptions C16_nearest_sample.

(* ... and the kernel's greedy search with its cursor carried from one event to the next finds it *)
Theorem C16_nearest_search : forall es xs, es <> [] -> sortedZ es -> sortedZ xs ->
  pc_epoch_pos es xs 0%nat = map (fun x => argmin_last x es) xs.
Proof. exact pc_epoch_pos_spec. Qed.
Print Assumptions C16_nearest_search.

(* 9. kernel + scatter: one column per event inside the epochs (epoch by epoch, in order); the column of an event x of
      epoch iv is the window around the nearest sample of THAT epoch ... *)
Theorem C16_continuous_columns : forall (A : Type) (d : A) ts rows tref ep n0 n1,
  sortedZ ts -> sortedZ tref -> canonical ep -> length rows = length ts ->
  pc_columns d ts rows tref ep n0 n1 = pc_spec ts rows tref ep n0 n1.
Proof. exact pc_columns_spec. Qed.
Print Assumptions C16_continuous_columns.

(* ... whose row rho holds the sample rho - n0 steps from the nearest one, None (NaN) iff that position leaves the epoch *)
Theorem C16_window_entry : forall (A : Type) n0 n1 (vals : list A) p rho, (rho < n0 + n1 + 1)%nat ->
  nth rho (window_spec n0 n1 vals p) None
  = if ((n0 <=? p + rho) && (p + rho - n0 <? length vals))%nat then nth_error vals (p + rho - n0) else None.
Proof. exact window_spec_nth. Qed.
Print Assumptions C16_window_entry.

(* 10. the scatter grouped by (size, offset) gives every column its own window at its own offset *)
Theorem C16_scatter_by_size_and_offset : forall (A : Type) total (data : list A) wins,
  Forall (fun w => (pc_wstart w + pc_wsize w <= total)%nat) wins ->
  scatter total data wins
  = map (fun w => write_rows (repeat None total) (pc_wstart w) (slice (fst (fst w)) (snd (fst w)) data)) wins.
Proof. exact scatter_columns. Qed.
Print Assumptions C16_scatter_by_size_and_offset.

(* the statement is FALSE of the scatter as it was before commit fc9f7b0 (grouped by size only):
   compute_perievent_continuous(Tsd(arange(20)), Ts([1, 18]), 2) gave [[0,0,1,2,3],[16,16,17,18,19]] *)
Theorem C16_scatter_size_only_refuted :
  exists (total : nat) (data : list Z) (wins : list (nat * nat * nat)),
    Forall (fun w => (pc_wstart w + pc_wsize w <= total)%nat) wins
    /\ scatter_size_only total data wins
       <> map (fun w => write_rows (repeat None total) (pc_wstart w) (slice (fst (fst w)) (snd (fst w)) data)) wins
    /\ scatter_size_only total data wins
       = [[Some 0; Some 0; Some 1; Some 2; Some 3]; [Some 16; Some 16; Some 17; Some 18; Some 19]].
Proof. exact scatter_size_only_refuted. Qed.
Print Assumptions C16_scatter_size_only_refuted.

(* 11. public wrapper: ceil(w/bs) rows each side, then the restriction of the row times to [-w0, w1]:
       exactly the offsets o with -w0 <= o*bs <= w1, each column as in 9 *)
Theorem C16_continuous_public : forall (A : Type) (d : A) ts rows tref ep w0 w1,
  0 < nth 1 ts 0 - nth 0 ts 0 -> 0 <= w0 -> 0 <= w1 ->
  sortedZ ts -> sortedZ tref -> canonical ep -> length rows = length ts ->
  pc_public d ts rows tref ep w0 w1 = pc_public_spec ts rows tref ep w0 w1.
Proof. exact pc_public_spec_thm. Qed.
Print Assumptions C16_continuous_public.

(* 11'. EXACT form of 11 with the sampling step dt named: the hypothesis of 11 is really "the first two samples are one sampling
        step apart".  Then the rows are the offsets o with -w0 <= o*dt <= w1 ... *)
Theorem C16_continuous_public_step : forall (A : Type) (d : A) ts rows tref ep w0 w1 dt,
  nth 1 ts 0 - nth 0 ts 0 = dt -> 0 < dt -> 0 <= w0 -> 0 <= w1 ->
  sortedZ ts -> sortedZ tref -> canonical ep -> length rows = length ts ->
  pc_public d ts rows tref ep w0 w1 = pc_public_spec_step dt ts rows tref ep w0 w1.
Proof. exact pc_public_step_thm. Qed.
Print Assumptions C16_continuous_public_step.

(* ... and the statement is FALSE of the model (= of `bin_size = time_array[1] - time_array[0]`) when a gap separates the first
   two samples of a series that is regular (step dt) inside its epochs: samples 0 | 10..14 in the epochs [0,1], [9,15], event 12,
   window 2+2 -> one row (0, value 3) instead of the five samples at -2..2.  Reported by the harness under
   {op: compute_perievent_continuous, part: rows, first_step: gap} *)
Theorem C16_continuous_first_step_refuted :
  exists (ts rows tref : list Z) (ep : iset) (w0 w1 dt : Z),
    sortedZ ts /\ sortedZ tref /\ canonical ep /\ length rows = length ts /\ 0 < dt /\ 0 <= w0 /\ 0 <= w1
    /\ regular_in_epochsb dt ts ep = true
    /\ nth 1 ts 0 - nth 0 ts 0 <> dt
    /\ pc_public 0 ts rows tref ep w0 w1 = ([0], [[Some 3]])
    /\ pc_public_spec_step dt ts rows tref ep w0 w1
       = ([-2; -1; 0; 1; 2], [[Some 1; Some 2; Some 3; Some 4; Some 5]]).
Proof. exact pc_public_first_step_refuted. Qed.
Print Assumptions C16_continuous_first_step_refuted.

(* non-vacuity: lags exactly on bin edges (12 - 0 = 12 = 16 - b/2 is counted in the bin centred on 16), coincident
   targets, an event nearer to each epoch edge than the window, two epochs *)
Example C16_nonvacuous :
  sortedZ [0; 8; 16; 40] /\ sortedZ [8; 12; 12; 24]
  /\ xcorr_counts [0; 8; 16; 40] [8; 12; 12; 24] 8 16 = [1; 1; 3; 4; 3]%nat
  /\ xcorr_centres2 8 16 = [-32; -16; 0; 16; 32]
  /\ autocorr_counts [0; 8; 16; 40] 8 16 = [1; 2; 0; 2; 1]%nat
  /\ align_tsd 2 2 [0; 2; 4; 4; 6; 10] [100; 101; 102; 103; 104; 105] [4; 8]
     = [(4, [(-2, 101); (0, 102); (0, 103)]); (8, [(-2, 104)])]
  /\ canonical [(0, 10); (20, 38)]
  /\ pc_public 0 (map (fun i => 2 * Z.of_nat i) (seq 0 20)) (map Z.of_nat (seq 0 20)) [8; 15; 22] [(0, 10); (20, 38)] 4 4
     = ([-4; -2; 0; 2; 4], [[Some 2; Some 3; Some 4; Some 5; None]; [None; Some 10; Some 11; Some 12; Some 13]]).
Proof. vm_compute. intuition congruence. Qed.
