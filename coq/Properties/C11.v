(* C11 — save followed by load_file returns an equal object.
   Statements only; proofs in Proofs/NpzProofs.v.  The model (Model/Npz.v) writes and reads the key strings listed in
   the GENERATED tables Gen/SitesC11.v (np.savez keywords / dicttosave stores; file[...] reads and `in file` tests of the
   three readers and of NPZFile.__init__), so the statements below are about the keys the source uses now.
   Not modelled: the zip container (np.savez / np.load), pandas' to_dict / from_dict beyond "column -> Python dict
   {index label -> cell}" (a repeated label keeps its first position and its last cell), float formatting of times
   (times are ns ticks).
   PARTIAL: the TsGroup theorems assume NumPy's contract for np.argsort (visible premises: the result is a permutation
   of the positions, and it sorts); C11_argsort_contract_satisfiable shows the premises are consistent. *)
From Coq Require Import String Sorting.Sorted Sorting.Permutation.
From Verif Require Import Base.Prelude Model.Restrict Model.Iset Gen.SitesC11 Model.Npz Proofs.NpzProofs.
Local Open Scope string_scope.
Local Open Scope list_scope.
Local Open Scope Z_scope.

(* 1. generated tables: every key a reader gets is written (unguarded reads: by every class using that reader,
      unconditionally; reads guarded by `key in file`: by at least one of them) *)
Theorem C11_keys_cover : forall r slot k guarded,
  In r ["_Base"; "IntervalSet"; "TsGroup"] ->
  In (slot, ("get", (k, guarded))) (rtable_of r) ->
  if guarded then exists c, In c (classes_of r) /\ In k (wkeys c)
  else forall c, In c (classes_of r) -> In k (wkeys_uncond c).
Proof. exact keys_cover. Qed.
Print Assumptions C11_keys_cover.

(* every class writes, unconditionally and under the key the detection reads, an array holding its own class name,
   and that name is one NPZFile accepts *)
Theorem C11_type_key_cover : forall c, In c (map fst reader_of) ->
  exists kt e, slot_key r_detect "type_" "get" = Some kt /\ lookup (table_of c) kt = Some (e, "")
               /\ (e = type_expr c \/ e = "np.array([self.nap_class], dtype=np.str_)")
               /\ In c (map fst expected_entries).
Proof. exact type_key_cover. Qed.
Print Assumptions C11_type_key_cover.

(* the shared reader passes every non-excluded key as a keyword argument: each is a constructor parameter of the
   class, and every required parameter is written *)
Theorem C11_kwargs_accepted : forall c params kw, In c (classes_of "_Base") -> params_of c = Some (params, kw) ->
  (forall k, In k (wkeys c) -> In k r_base_excluded \/ In k (map fst params))
  /\ (forall p, In (p, true) params -> In p (wkeys_uncond c)).
Proof. exact kwargs_accepted. Qed.
Print Assumptions C11_kwargs_accepted.

(* nothing TsGroup.save writes is taken for a per-key metadata array by the reader's legacy loop *)
Theorem C11_group_keys_known : forall k, In k (wkeys "TsGroup") -> In k r_TsGroup_not_info.
Proof. exact group_keys_known. Qed.
Print Assumptions C11_group_keys_known.

(* 2. type dispatch: a saved object is detected as its own class *)
Theorem C11_type_dispatch : forall argsort x, detect (save argsort x) = Some (class_name x).
Proof. exact detect_save. Qed.
Print Assumptions C11_type_dispatch.

(* 3. round trips: same class, equal timestamps, rows, dtype tag, shape, support, columns, metadata *)
Theorem C11_roundtrip_ts : forall argsort x, WF_ts x -> load (save argsort (OTs x)) = Some (OTs x).
Proof. exact roundtrip_ts. Qed.
Print Assumptions C11_roundtrip_ts.

Theorem C11_roundtrip_tsd : forall argsort x, WF_tsd x -> load (save argsort (OTsd x)) = Some (OTsd x).
Proof. exact roundtrip_tsd. Qed.
Print Assumptions C11_roundtrip_tsd.

Theorem C11_roundtrip_tsdtensor : forall argsort x, WF_tensor x -> load (save argsort (OTensor x)) = Some (OTensor x).
Proof. exact roundtrip_tensor. Qed.
Print Assumptions C11_roundtrip_tsdtensor.

(* TsdFrame: the model of `_metadata.to_dict()` is a Python dict (one entry per DISTINCT index label), so the round trip
   needs: no column label occurs twice, or the frame has no metadata column.  The remaining case is refuted below
   (C11_tsdframe_duplicate_labels_refuted): the hypothesis cannot be dropped. *)
Theorem C11_roundtrip_tsdframe : forall argsort x, WF_frame x -> unique_labels_or_no_meta x ->
  load (save argsort (OFrame x)) = Some (OFrame x).
Proof. exact roundtrip_frame. Qed.
Print Assumptions C11_roundtrip_tsdframe.

Theorem C11_roundtrip_intervalset : forall argsort x, WF_iset x -> load (save argsort (OIset x)) = Some (OIset x).
Proof. exact roundtrip_iset. Qed.
Print Assumptions C11_roundtrip_intervalset.

(* TsGroup of Ts: keys (members without samples included), member timestamps, support, metadata *)
Theorem C11_roundtrip_tsgroup_ts_partial : forall argsort,
  (forall l, Permutation (argsort l) (seq 0 (length l))) ->
  (forall l, StronglySorted Z.le (select 0 l (argsort l))) ->
  forall g, WF_group_base g -> all_ts g -> load (save argsort (OGroup g)) = Some (OGroup g).
Proof. exact roundtrip_group_ts. Qed.
Print Assumptions C11_roundtrip_tsgroup_ts_partial.

(* TsGroup of Tsd with finite data (at least one sample in the group), no timestamp repeated inside a member *)
Theorem C11_roundtrip_tsgroup_tsd_partial : forall argsort,
  (forall l, Permutation (argsort l) (seq 0 (length l))) ->
  (forall l, StronglySorted Z.le (select 0 l (argsort l))) ->
  forall g, WF_group_base g -> all_tsd g -> distinct_times g -> load (save argsort (OGroup g)) = Some (OGroup g).
Proof. exact roundtrip_group_tsd. Qed.
Print Assumptions C11_roundtrip_tsgroup_tsd_partial.

Theorem C11_argsort_contract_satisfiable :
  (forall l, Permutation (stable_argsort l) (seq 0 (length l)))
  /\ (forall l, StronglySorted Z.le (select 0 l (stable_argsort l))).
Proof. exact stable_argsort_contract. Qed.
Print Assumptions C11_argsort_contract_satisfiable.

(* with a STABLE argsort (np.argsort(times, kind="stable"): the suggested repair) the Tsd-group round trip needs no
   condition on repeated timestamps - no premise about argsort left *)
Theorem C11_roundtrip_tsgroup_tsd_stable : forall g, WF_group_base g -> all_tsd g ->
  load (save stable_argsort (OGroup g)) = Some (OGroup g).
Proof. exact roundtrip_group_tsd_stable. Qed.
Print Assumptions C11_roundtrip_tsgroup_tsd_stable.

(* 4. where the statement is FALSE of the faithful model (each witness is a finding to replay on /repo) *)
(* a Tsd member with a repeated timestamp: a legal argsort (ties reversed) brings its rows back permuted *)
Theorem C11_tsgroup_duplicate_times_refuted :
  exists argsort g,
    (forall l, Permutation (argsort l) (seq 0 (length l)))
    /\ (forall l, StronglySorted Z.le (select 0 l (argsort l)))
    /\ WF_group_base g /\ all_tsd g
    /\ load (save argsort (OGroup g)) = Some (OGroup {| g_mem := [(4, MTsd [(0, Some 2); (0, Some 1)])]; g_sup := [(0, 5)]; g_meta := [] |})
    /\ load (save argsort (OGroup g)) <> Some (OGroup g).
Proof. exact tsgroup_duplicate_times_refuted. Qed.
Print Assumptions C11_tsgroup_duplicate_times_refuted.

(* a group of Tsd members none of which has a sample comes back as a group of Ts *)
Theorem C11_tsgroup_all_empty_tsd_refuted :
  WF_group_base empty_tsd_group
  /\ Forall (fun km => finite_tsd (snd km)) (g_mem empty_tsd_group)
  /\ load (save stable_argsort (OGroup empty_tsd_group))
     = Some (OGroup {| g_mem := [(2, MTs []); (7, MTs [])]; g_sup := [(0, 5)]; g_meta := [] |})
  /\ load (save stable_argsort (OGroup empty_tsd_group)) <> Some (OGroup empty_tsd_group).
Proof. exact tsgroup_all_empty_tsd_refuted. Qed.
Print Assumptions C11_tsgroup_all_empty_tsd_refuted.

(* a TsdFrame whose column labels repeat and which carries a metadata column cannot be loaded back: the saved dict has
   one entry per distinct label and set_info rejects the shorter index (the implementation raises ValueError) *)
Theorem C11_tsdframe_duplicate_labels_refuted :
  WF_frame dup_label_frame
  /\ to_dict (f_cols dup_label_frame) (f_meta dup_label_frame) = [("m", [(LStr "a", MInt 2)])]
  /\ forall argsort, load (save argsort (OFrame dup_label_frame)) = None.
Proof. exact frame_duplicate_labels_refuted. Qed.
Print Assumptions C11_tsdframe_duplicate_labels_refuted.

(* "for every Ts, Tsd, ..." is false for the series the constructors build with an EMPTY default support around
   coinciding timestamps (nap.Ts([5.]), nap.Tsd([3.,3.,3.], ...)): they meet every invariant of WF_series except
   `in_sup`, and load (save x) has no sample left.  So `in_sup` in WF_ts / WF_tsd / WF_tensor / WF_frame is needed. *)
Theorem C11_zero_span_default_support_refuted :
  (sortedZ (ts_t zero_span_ts) /\ canonical (ts_sup zero_span_ts) /\ ts_t zero_span_ts <> []
   /\ forall argsort, load (save argsort (OTs zero_span_ts)) = Some (OTs {| ts_t := []; ts_sup := [] |}))
  /\ (sortedZ (d_t zero_span_tsd) /\ canonical (d_sup zero_span_tsd) /\ length (d_v zero_span_tsd) = length (d_t zero_span_tsd)
      /\ forall argsort, load (save argsort (OTsd zero_span_tsd))
                         = Some (OTsd {| d_t := []; d_v := []; d_shape := []; d_dt := DFloat; d_sup := [] |})).
Proof. exact zero_span_default_support_refuted. Qed.
Print Assumptions C11_zero_span_default_support_refuted.

(* non-vacuity: a concrete group of Tsd with unsorted-looking keys 2 < 5 < 30, an empty member, a two-interval support
   and numeric + string metadata meets the hypotheses and round-trips; a frame with string labels too *)
Definition nv_group : group :=
  {| g_mem := [(2, MTsd [(3, Some 8); (11, Some 9)]); (5, MTsd []); (30, MTsd [(1, Some 5); (2, Some 6); (12, Some 7)])];
     g_sup := [(0, 5); (10, 20)];
     g_meta := [("a", [MInt 1; MInt 2; MInt 3]); ("s", [MStr "x"; MStr "y"; MStr "z"])] |}.
Example C11_nonvacuous :
  canonicalb (g_sup nv_group) = true
  /\ all_tsd nv_group /\ distinct_times nv_group
  /\ load (save stable_argsort (OGroup nv_group)) = Some (OGroup nv_group)
  /\ lookup (save stable_argsort (OGroup nv_group)) "index" = Some (FInt1 [30; 30; 2; 2; 30])
  /\ load (save stable_argsort (OFrame {| f_t := [1; 2; 12]; f_v := [[1; 2]; [3; 4]; [5; 6]]; f_dt := DInt; f_sup := [(0, 5); (10, 20)];
                                          f_cols := [LStr "a"; LStr "b"]; f_meta := [("m", [MFlt 1; MFlt 2])] |}))
     = Some (OFrame {| f_t := [1; 2; 12]; f_v := [[1; 2]; [3; 4]; [5; 6]]; f_dt := DInt; f_sup := [(0, 5); (10, 20)];
                       f_cols := [LStr "a"; LStr "b"]; f_meta := [("m", [MFlt 1; MFlt 2])] |}).
Proof.
  split; [vm_compute; reflexivity|]. split.
  - unfold all_tsd, nv_group. simpl. split; [repeat constructor|discriminate].
  - split; [unfold distinct_times, nv_group; simpl; repeat constructor; lia|].
    split; [vm_compute; reflexivity|]. split; vm_compute; reflexivity.
Qed.
