(* C15, companion: TERMINATION.  Every one of the 17 translated kernel texts, started on arguments satisfying the same
   precondition Pre_<kernel> under which Properties/C15.v proves it safe, runs to completion: some fuel gives an outcome
   other than OutOfFuel (and by the safety theorem that outcome is not an error).  Proved with the total-correctness
   calculus of Jit/Total.v (a variant for every while loop; the invariants are those of the safety proofs).  This is what
   makes "every public result is a deterministic function of the arguments" a statement about a RESULT: a kernel that spins
   (Inv/Total_sanity.v: jitrestrict with one cursor increment deleted is still provably SAFE, and provably never returns)
   has no such proof.  Floats are exact rationals here.  _overlap_split used to advance by a float addition alone; its termination proof held over
   rationals while IEEE doubles absorbed a small step (segmentation fault, repaired in /repo d86eb2b): the loop is now also bounded
   by its buffer, and both its safety and its termination proofs are integer arguments that no longer depend on float progress. *)
From Coq Require Import ZArith List.
From Verif Require Import Jit.Lang Jit.Interp Gen.Kernels.
From Verif Require Import Inv.Jitrestrict Inv.Jitrestrict_with_count Inv.Jitin_interval Inv.Jitunion_isets Inv.Jitfix_iset Inv.Jitunion Inv.Cross_correlogram Inv.Jitbin_array Inv.Jitcontinuous_perievent Inv.Jitcount Inv.Jitdiff Inv.Jitintersect Inv.Jitperievent_trigger_average Inv.Jitremove_nan Inv.Jitthreshold Inv.Jitvaluefrom Inv.Overlap_split.
From Verif Require Inv.Cross_correlogram_term Inv.Jitbin_array_term Inv.Jitcontinuous_perievent_term Inv.Jitcount_term Inv.Jitdiff_term Inv.Jitfix_iset_total Inv.Jitin_interval_total Inv.Jitintersect_term Inv.Jitperievent_trigger_average_term Inv.Jitremove_nan_term Inv.Jitrestrict_total Inv.Jitrestrict_with_count_total Inv.Jitthreshold_term Inv.Jitunion_isets_total Inv.Jitunion_total Inv.Jitvaluefrom_term Inv.Overlap_split_term Inv.Total_sanity.

Theorem C15_jitrestrict_terminates : forall args, Pre_jitrestrict args -> exists fuel, run fuel k_jitrestrict args <> OutOfFuel.
Proof. exact Jitrestrict_total.k_jitrestrict_terminates. Qed.
Print Assumptions C15_jitrestrict_terminates.

Theorem C15_jitrestrict_with_count_terminates : forall args, Pre_jitrestrict_with_count args -> exists fuel, run fuel k_jitrestrict_with_count args <> OutOfFuel.
Proof. exact Jitrestrict_with_count_total.k_jitrestrict_with_count_terminates. Qed.
Print Assumptions C15_jitrestrict_with_count_terminates.

Theorem C15_jitin_interval_terminates : forall args, Pre_jitin_interval args -> exists fuel, run fuel k_jitin_interval args <> OutOfFuel.
Proof. exact Jitin_interval_total.k_jitin_interval_terminates. Qed.
Print Assumptions C15_jitin_interval_terminates.

Theorem C15_jitunion_isets_terminates : forall args, Pre_jitunion_isets args -> exists fuel, run fuel k_jitunion_isets args <> OutOfFuel.
Proof. exact Jitunion_isets_total.k_jitunion_isets_terminates. Qed.
Print Assumptions C15_jitunion_isets_terminates.

Theorem C15_jitfix_iset_terminates : forall args, Pre__jitfix_iset args -> exists fuel, run fuel k__jitfix_iset args <> OutOfFuel.
Proof. exact Jitfix_iset_total.k__jitfix_iset_terminates. Qed.
Print Assumptions C15_jitfix_iset_terminates.

Theorem C15_jitunion_terminates : forall args, Pre_jitunion args -> exists fuel, run fuel k_jitunion args <> OutOfFuel.
Proof. exact Jitunion_total.k_jitunion_terminates. Qed.
Print Assumptions C15_jitunion_terminates.

Theorem C15_cross_correlogram_terminates : forall args, Pre__cross_correlogram args -> exists fuel, run fuel k__cross_correlogram args <> OutOfFuel.
Proof. exact Cross_correlogram_term.k__cross_correlogram_terminates. Qed.
Print Assumptions C15_cross_correlogram_terminates.

Theorem C15_jitbin_array_terminates : forall args, Pre__jitbin_array args -> exists fuel, run fuel k__jitbin_array args <> OutOfFuel.
Proof. exact Jitbin_array_term.k__jitbin_array_terminates. Qed.
Print Assumptions C15_jitbin_array_terminates.

Theorem C15_jitcontinuous_perievent_terminates : forall args, Pre__jitcontinuous_perievent args -> exists fuel, run fuel k__jitcontinuous_perievent args <> OutOfFuel.
Proof. exact Jitcontinuous_perievent_term.k__jitcontinuous_perievent_terminates. Qed.
Print Assumptions C15_jitcontinuous_perievent_terminates.

Theorem C15_jitcount_terminates : forall args, Pre_jitcount args -> exists fuel, run fuel k_jitcount args <> OutOfFuel.
Proof. exact Jitcount_term.k_jitcount_terminates. Qed.
Print Assumptions C15_jitcount_terminates.

Theorem C15_jitdiff_terminates : forall args, Pre_jitdiff args -> exists fuel, run fuel k_jitdiff args <> OutOfFuel.
Proof. exact Jitdiff_term.k_jitdiff_terminates. Qed.
Print Assumptions C15_jitdiff_terminates.

Theorem C15_jitintersect_terminates : forall args, Pre_jitintersect args -> exists fuel, run fuel k_jitintersect args <> OutOfFuel.
Proof. exact Jitintersect_term.k_jitintersect_terminates. Qed.
Print Assumptions C15_jitintersect_terminates.

Theorem C15_jitperievent_trigger_average_terminates : forall args, Pre__jitperievent_trigger_average args -> exists fuel, run fuel k__jitperievent_trigger_average args <> OutOfFuel.
Proof. exact Jitperievent_trigger_average_term.k__jitperievent_trigger_average_terminates. Qed.
Print Assumptions C15_jitperievent_trigger_average_terminates.

Theorem C15_jitremove_nan_terminates : forall args, Pre_jitremove_nan args -> exists fuel, run fuel k_jitremove_nan args <> OutOfFuel.
Proof. exact Jitremove_nan_term.k_jitremove_nan_terminates. Qed.
Print Assumptions C15_jitremove_nan_terminates.

Theorem C15_jitthreshold_terminates : forall args, Pre_jitthreshold args -> exists fuel, run fuel k_jitthreshold args <> OutOfFuel.
Proof. exact Jitthreshold_term.k_jitthreshold_terminates. Qed.
Print Assumptions C15_jitthreshold_terminates.

Theorem C15_jitvaluefrom_terminates : forall args, Pre_jitvaluefrom args -> exists fuel, run fuel k_jitvaluefrom args <> OutOfFuel.
Proof. exact Jitvaluefrom_term.k_jitvaluefrom_terminates. Qed.
Print Assumptions C15_jitvaluefrom_terminates.

Theorem C15_overlap_split_terminates : forall args, Pre__overlap_split args -> exists fuel, run fuel k__overlap_split args <> OutOfFuel.
Proof. exact Overlap_split_term.k__overlap_split_terminates. Qed.
Print Assumptions C15_overlap_split_terminates.

