(* C06, tie by PROOF: the kernel TEXT of jitvaluefrom (Gen/Kernels.v, regenerated from /repo's source on every
   run), called as _value_from calls it (the two restricted time arrays, their per-interval counts, the starts,
   the mode), computes exactly the functional model value_from used by the C06 theorems -- for EVERY mode, series
   and interval list, no sortedness or canonicity needed -- whenever the interpreter terminates within its fuel
   (partial correctness).  Hence (second theorem) on sorted series and a canonical support the answer of each
   query is searched among the source samples of the query's own interval only.
   Proof in Inv/Jitvaluefrom_func.v. *)
From Coq Require Import ZArith List.
From Verif Require Import Base.Prelude Model.Restrict Model.ValueFrom Jit.Lang Jit.Interp Gen.Kernels.
From Verif Require Import Inv.Jitvaluefrom_func.
Import ListNotations.

Theorem C06_kernel_text_computes_model : forall mode qs sr0 ep fuel,
  match run fuel k_jitvaluefrom (jitvaluefrom_args mode qs sr0 ep) with
  | Return rs => rs = [vf_result (value_from mode qs sr0 ep)]
  | OutOfFuel => True
  | _ => False
  end.
Proof. exact k_jitvaluefrom_computes_model. Qed.
Print Assumptions C06_kernel_text_computes_model.

Theorem C06_kernel_text_never_crosses_an_epoch : forall mode qs sr0 ep fuel,
  sortedZ qs -> sortedZ sr0 -> canonical ep ->
  match run fuel k_jitvaluefrom (jitvaluefrom_args mode qs sr0 ep) with
  | Return rs => rs = [vf_result (vf_all mode (map (fun iv => filter (fun x => inb x iv) qs) ep)
                                         (map (fun iv => filter (fun y => inb y iv) sr0) ep) 0%nat)]
  | OutOfFuel => True
  | _ => False
  end.
Proof. exact k_jitvaluefrom_no_cross. Qed.
Print Assumptions C06_kernel_text_never_crosses_an_epoch.

(* TOTAL correctness (Inv/Jitvaluefrom_functotal.v): no hypothesis at all. *)
From Verif Require Inv.Jitvaluefrom_functotal.
Theorem C06_kernel_text_total : forall mode qs sr0 ep,
  exists fuel, run fuel k_jitvaluefrom (jitvaluefrom_args mode qs sr0 ep) = Return [vf_result (value_from mode qs sr0 ep)].
Proof. exact Jitvaluefrom_functotal.k_jitvaluefrom_total. Qed.
Print Assumptions C06_kernel_text_total.
