(* C01, tie by PROOF: the kernel TEXT of _jitfix_iset (Gen/Kernels.v, regenerated from /repo's source on every
   run) computes exactly the functional model fix_iset used by the C01 theorems, for EVERY list of (start,end)
   pairs -- no ordering or start<=end hypothesis -- whenever the interpreter terminates within its fuel (partial
   correctness).  Ticks are the rationals t*1e-9, so the kernel's literal 1.0e-6 is exactly us = 1000 ticks.
   The content of the to_warn flags is not specified (only its length).  Proof in Inv/Jitfix_iset_func.v. *)
From Coq Require Import ZArith List.
From Verif Require Import Base.Prelude Model.Iset Jit.Lang Jit.Interp Gen.Kernels Inv.Jitfix_iset_func.
Import ListNotations.

Theorem C01_kernel_text_computes_model : forall l fuel,
  match run fuel k__jitfix_iset (fix_args l) with
  | Return rs => fix_post (fix_iset l) rs
  | OutOfFuel => True
  | _ => False
  end.
Proof. exact k__jitfix_iset_computes_model. Qed.
Print Assumptions C01_kernel_text_computes_model.

Theorem C01_kernel_text_computes_constructor : forall ss es fuel, length ss = length es ->
  match run fuel k__jitfix_iset [Ar (A1 DFlt (qcells (sortZ ss))); Ar (A1 DFlt (qcells (sortZ es)))] with
  | Return rs => fix_post (mk_iset ss es) rs
  | OutOfFuel => True
  | _ => False
  end.
Proof. exact k__jitfix_iset_computes_mk_iset. Qed.
Print Assumptions C01_kernel_text_computes_constructor.

(* TOTAL correctness: the translated kernel text terminates (Jit/Total.v: variants for every while loop) and returns the
   model's value.  Proof in Inv/Jitfix_iset_total.v. *)
From Verif Require Import Inv.Jitfix_iset_total.
Theorem C01_kernel_text_total : forall l,
  exists fuel rs, run fuel k__jitfix_iset (fix_args l) = Return rs /\ fix_post (fix_iset l) rs.
Proof. exact k__jitfix_iset_total. Qed.
Print Assumptions C01_kernel_text_total.
