(* C20 — surrogate generators conserve what they promise to conserve, for EVERY draw of the generator.
   Statements only; proofs in Proofs/RandomizeProofs.v; model in Model/Randomize.v (shift as repaired by
   541335c).  The random draws (sigma, ds, us, perm) are universally quantified arguments; ticks.
   [inside s e x] = s <= x <= e.  Not modelled: how NumPy produces the draws (only their range / being a
   permutation is used, as hypotheses).  FALSE of the faithful model, hence stated as _refuted: member counts of
   a TsGroup whose support is RECOMPUTED (jitter keep_tsupport=False, shuffle) when a member has a single
   distinct timestamp (all members so: the call raises).  A pair of members whose recomputed supports touch was a
   second exception until 6917604 (TsGroup's _union_intervals: pairwise jitunion + 1 us trim); the model follows the
   repaired code (n-ary union for two members too) and the old behaviour is kept as an _orig_refuted witness. *)
From Verif Require Import Base.Prelude Model.Restrict Model.Iset Model.Randomize Proofs.RandomizeProofs.
From Coq Require Import Permutation.

(* 1. shift_timestamps(Ts): for every shift (inside [min, max] or not) as many timestamps as given, all inside
      the support [s, e) , support kept, sorted, and exactly the wrapped input stamps (nothing discarded) *)
Theorem C20_shift : forall s e sigma ts, s < e ->
  length (fst (shift_ts s e sigma ts)) = length ts
  /\ Forall (fun x => s <= x < e) (fst (shift_ts s e sigma ts))
  /\ (ts <> [] -> snd (shift_ts s e sigma ts) = [(s, e)])
  /\ sortedZ (fst (shift_ts s e sigma ts))
  /\ Permutation (map (wrap s e sigma) ts) (fst (shift_ts s e sigma ts)).
Proof. exact shift_ts_spec. Qed.
Print Assumptions C20_shift.

Theorem C20_shift_is_a_shift : forall s e sigma t, s < e -> exists k, wrap s e sigma t = t + sigma - k * (e - s).
Proof. exact wrap_congruent. Qed.
Print Assumptions C20_shift_is_a_shift.

(* the code before 541335c (wrap-around relative to 0): a support not starting at 0 loses timestamps *)
Theorem C20_shift_orig_refuted :
  exists s e sigma ts, s < e /\ Forall (inside s e) ts /\ 0 <= sigma <= e - s
    /\ (length (fst (shift_ts_orig s e sigma ts)) < length ts)%nat.
Proof. exact shift_ts_orig_refuted. Qed.
Print Assumptions C20_shift_orig_refuted.

(* 2. resample_timestamps(Ts): the draws come from [first stamp, last stamp]; count, in-support, support kept *)
Theorem C20_resample : forall s e ts us, s < e -> ts <> [] -> Forall (inside s e) ts ->
  length us = length ts -> Forall (fun u => hd 0 ts <= u <= last ts 0) us ->
  length (fst (resample_ts s e us)) = length ts
  /\ Forall (inside s e) (fst (resample_ts s e us))
  /\ snd (resample_ts s e us) = [(s, e)].
Proof. exact resample_ts_of_ts. Qed.
Print Assumptions C20_resample.

(* draws anywhere inside the support (the TsGroup form draws from [s, e]): the result IS the sorted draws *)
Theorem C20_resample_draws_kept : forall s e us, s < e -> Forall (inside s e) us ->
  fst (resample_ts s e us) = sortZ us
  /\ length (fst (resample_ts s e us)) = length us
  /\ Forall (inside s e) (fst (resample_ts s e us))
  /\ (us <> [] -> snd (resample_ts s e us) = [(s, e)]).
Proof. exact resample_ts_spec. Qed.
Print Assumptions C20_resample_draws_kept.

(* 3. shuffle_ts_intervals(Ts): first timestamp kept, count kept, the inter-event intervals of the result are
      the input's rearranged by the drawn permutation (hence the same multiset), result sorted *)
Theorem C20_shuffle : forall t0 r perm, sortedZ (t0 :: r) -> Permutation perm (seq 0 (length r)) ->
  exists out sup, shuffle_ts (t0 :: r) perm = Some (out, sup)
    /\ hd 0 out = t0
    /\ length out = length (t0 :: r)
    /\ diffs out = permute perm (diffs (t0 :: r))
    /\ Permutation (diffs out) (diffs (t0 :: r))
    /\ sortedZ out.
Proof. exact shuffle_ts_spec. Qed.
Print Assumptions C20_shuffle.

(* 4. jitter_timestamps(Ts, keep_tsupport=False): count kept; the k-th timestamp in sorted order moves by at most
      max_jitter (rearrangement lemma) *)
Theorem C20_jitter : forall J s e ts ds,
  sortedZ ts -> length ds = length ts -> Forall (fun d => Z.abs d <= J) ds ->
  length (fst (jitter_ts false s e ts ds)) = length ts
  /\ sortedZ (fst (jitter_ts false s e ts ds))
  /\ forall k, (k < length ts)%nat -> Z.abs (nth k (fst (jitter_ts false s e ts ds)) 0 - nth k ts 0) <= J.
Proof. exact jitter_free_spec. Qed.
Print Assumptions C20_jitter.

Theorem C20_rearrangement : forall J xs ys ys',
  sortedZ xs -> sortedZ ys' -> Permutation ys ys' ->
  Forall2 (fun x y => Z.abs (y - x) <= J) xs ys ->
  forall k, (k < length xs)%nat -> Z.abs (nth k ys' 0 - nth k xs 0) <= J.
Proof. exact rearrangement. Qed.
Print Assumptions C20_rearrangement.

(* jitter_timestamps(Ts, keep_tsupport=True): support kept; the result is exactly the part of the freely
   jittered series lying inside it *)
Theorem C20_jitter_keep_support : forall s e ts ds, s < e ->
  fst (jitter_ts true s e ts ds) = filter (insideb s e) (fst (jitter_ts false s e ts ds))
  /\ Forall (inside s e) (fst (jitter_ts true s e ts ds))
  /\ (length (fst (jitter_ts true s e ts ds)) <= length (fst (jitter_ts false s e ts ds)))%nat
  /\ sortedZ (fst (jitter_ts true s e ts ds))
  /\ (add_draws ts ds <> [] -> snd (jitter_ts true s e ts ds) = [(s, e)]).
Proof. exact jitter_keep_spec. Qed.
Print Assumptions C20_jitter_keep_support.

(* ... exactly, as a multiset: the stamps t_k + d_k that fall inside [s, e]; hence every returned stamp is an input stamp
   moved by its own draw (at most J), and a stamp that NO move of at most J can take out of [s, e] is never lost *)
Theorem C20_jitter_keep_exact : forall s e ts ds, s < e ->
  Permutation (filter (insideb s e) (add_draws ts ds)) (fst (jitter_ts true s e ts ds)).
Proof. exact jitter_keep_exact. Qed.
Print Assumptions C20_jitter_keep_exact.

Theorem C20_jitter_keep_members : forall J s e ts ds, s < e -> length ds = length ts -> Forall (fun d => Z.abs d <= J) ds ->
  (forall x, In x (fst (jitter_ts true s e ts ds)) ->
     exists k, (k < length ts)%nat /\ x = nth k ts 0 + nth k ds 0 /\ Z.abs (x - nth k ts 0) <= J /\ inside s e x)
  /\ (forall k, (k < length ts)%nat -> s + J <= nth k ts 0 <= e - J ->
        In (nth k ts 0 + nth k ds 0) (fst (jitter_ts true s e ts ds))).
Proof. exact jitter_keep_members. Qed.
Print Assumptions C20_jitter_keep_members.

(* 5. TsGroup, support passed on (shift, resample, jitter keep_tsupport=True): the group result is, member by
      member, the Ts generator applied with that member's own draw; the group support is kept; keys kept *)
Theorem C20_group_shift : forall s e g sigmas,
  shift_group s e g sigmas =
  Some (map (fun p : (Z * list Z) * Z => (fst (fst p), fst (shift_ts s e (snd p) (snd (fst p))))) (combine g sigmas),
        [(s, e)]).
Proof. exact shift_group_memberwise. Qed.
Print Assumptions C20_group_shift.

Theorem C20_group_resample : forall s e g uss,
  resample_group s e g uss =
  Some (map (fun p : (Z * list Z) * list Z => (fst (fst p), fst (resample_ts s e (snd p)))) (combine g uss),
        [(s, e)]).
Proof. exact resample_group_memberwise. Qed.
Print Assumptions C20_group_resample.

Theorem C20_group_jitter_keep_support : forall s e g dss,
  jitter_group true s e g dss =
  Some (map (fun p : (Z * list Z) * list Z => (fst (fst p), fst (jitter_ts true s e (snd (fst p)) (snd p)))) (combine g dss),
        [(s, e)]).
Proof. exact jitter_group_keep_memberwise. Qed.
Print Assumptions C20_group_jitter_keep_support.

Theorem C20_group_keys : forall (B C : Type) (g : list (Z * list Z)) (xs : list B) (f : (Z * list Z) * B -> C),
  length xs = length g ->
  map fst (map (fun p => (fst (fst p), f p)) (combine g xs)) = map fst g.
Proof. exact @group_keys_kept. Qed.
Print Assumptions C20_group_keys.

(* 6. TsGroup, support RECOMPUTED (jitter keep_tsupport=False, shuffle): keys kept; every member with at least two
      distinct result timestamps is exactly its Ts result (count, bound / first stamp, intervals) - for groups of any
      size, touching member supports included (since 6917604) *)
Theorem C20_group_jitter : forall s e g dss out G,
  jitter_group false s e g dss = Some (out, G) ->
  map fst out = map (fun p : (Z * list Z) * list Z => fst (fst p)) (combine g dss)
  /\ Forall2 (fun (p : (Z * list Z) * list Z) (o : Z * list Z) =>
                fst o = fst (fst p)
                /\ (nondegenerate (jittered p) -> snd o = fst (jitter_ts false s e (snd (fst p)) (snd p))))
             (combine g dss) out.
Proof. exact jitter_group_free_spec. Qed.
Print Assumptions C20_group_jitter.

(* (special case kept from the time a pair of members was an exception) *)
Theorem C20_group_jitter_not_a_pair : forall s e g dss out G,
  length dss = length g -> length g <> 2%nat ->
  jitter_group false s e g dss = Some (out, G) ->
  map fst out = map fst g
  /\ Forall2 (fun (p : (Z * list Z) * list Z) (o : Z * list Z) =>
                fst o = fst (fst p)
                /\ (nondegenerate (jittered p) -> snd o = fst (jitter_ts false s e (snd (fst p)) (snd p))))
             (combine g dss) out.
Proof. exact jitter_group_free_not2. Qed.
Print Assumptions C20_group_jitter_not_a_pair.

Theorem C20_group_shuffle : forall g perms out G,
  Forall2 valid_shuffle_input g perms ->
  shuffle_group g perms = Some (out, G) ->
  map fst out = map fst g
  /\ Forall2 (fun (kt : Z * list Z) (o : Z * list Z) =>
                fst o = fst kt
                /\ (nondegenerate (snd kt) ->
                    hd 0 (snd o) = hd 0 (snd kt)
                    /\ length (snd o) = length (snd kt)
                    /\ Permutation (diffs (snd o)) (diffs (snd kt)))) g out.
Proof. exact shuffle_group_spec. Qed.
Print Assumptions C20_group_shuffle.

Theorem C20_group_shuffle_not_a_pair : forall g perms out G,
  Forall2 valid_shuffle_input g perms -> length g <> 2%nat ->
  shuffle_group g perms = Some (out, G) ->
  map fst out = map fst g
  /\ Forall2 (fun (kt : Z * list Z) (o : Z * list Z) =>
                fst o = fst kt
                /\ (nondegenerate (snd kt) ->
                    hd 0 (snd o) = hd 0 (snd kt)
                    /\ length (snd o) = length (snd kt)
                    /\ Permutation (diffs (snd o)) (diffs (snd kt)))) g out.
Proof. exact shuffle_group_not2. Qed.
Print Assumptions C20_group_shuffle_not_a_pair.

(* 7. what the statement promises and the faithful model (and the code) does NOT deliver *)
Theorem C20_group_recomputed_support_single_refuted :
  exists s e g dss out G,
    s < e /\ Forall (fun kt => Forall (inside s e) (snd kt) /\ sortedZ (snd kt)) g
    /\ Forall2 (fun kt ds => length ds = length (snd kt) /\ Forall (fun d => d = 0) ds) g dss
    /\ jitter_group false s e g dss = Some (out, G)
    /\ exists k ts ts', In (k, ts) g /\ In (k, ts') out /\ (length ts' < length ts)%nat.
Proof. exact group_recomputed_support_refuted_single. Qed.
Print Assumptions C20_group_recomputed_support_single_refuted.

(* two members whose recomputed supports touch: the code BEFORE 6917604 lost a timestamp there ... *)
Theorem C20_group_recomputed_support_touching_orig_refuted :
  exists g perms out G,
    Forall2 valid_shuffle_input g perms /\ Forall (fun kt => nondegenerate (snd kt)) g
    /\ shuffle_group_orig g perms = Some (out, G)
    /\ exists k ts ts', In (k, ts) g /\ In (k, ts') out /\ (length ts' < length ts)%nat.
Proof. exact group_recomputed_support_touching_orig_refuted. Qed.
Print Assumptions C20_group_recomputed_support_touching_orig_refuted.

(* ... the same input now: the two supports [0, 1000000] and [1000000, 2000000] merge, every timestamp is kept *)
Theorem C20_group_recomputed_support_touching_kept :
  shuffle_group [(0, [0; 999500; 1000000]); (1, [1000000; 2000000])] [[0%nat; 1%nat]; [0%nat]]
  = Some ([(0, [0; 999500; 1000000]); (1, [1000000; 2000000])], [(0, 2000000)]).
Proof. exact group_recomputed_support_touching_kept. Qed.
Print Assumptions C20_group_recomputed_support_touching_kept.

Theorem C20_group_recomputed_support_raises_refuted :
  shuffle_group [(0, [10]); (1, [20; 20])] [[]; [0%nat]] = None
  /\ jitter_group false 0 100 [(0, [10]); (1, [20; 21])] [[0]; [1; 0]] = None.
Proof. exact group_recomputed_support_raises. Qed.
Print Assumptions C20_group_recomputed_support_raises_refuted.

(* 8. an empty series / empty member is returned unchanged by shuffle (repaired by 9bcff6e; it raised IndexError) *)
Theorem C20_shuffle_empty : forall perm, shuffle_ts [] perm = Some ([], []).
Proof. exact shuffle_ts_empty. Qed.
Print Assumptions C20_shuffle_empty.

(* the EMPTY Ts (pynapple gives it an empty support): every generator returns it unchanged - nothing in, nothing out.
   The model says so; shift_timestamps and resample_timestamps of the code RAISE on it (harness part G, key empty_input=True) *)
Theorem C20_empty_ts : forall s e sigma keep ds perm,
  shift_ts s e sigma [] = ([], []) /\ resample_ts s e [] = ([], [])
  /\ jitter_ts keep s e [] ds = ([], []) /\ shuffle_ts [] perm = Some ([], []).
Proof. exact empty_ts_spec. Qed.
Print Assumptions C20_empty_ts.

Theorem C20_group_shuffle_empty_member :
  shuffle_group [(0, [10; 20; 50]); (1, [])] [[1%nat; 0%nat]; []] = Some ([(0, [10; 40; 50]); (1, [])], [(10, 50)]).
Proof. exact shuffle_group_empty_member_ok. Qed.
Print Assumptions C20_group_shuffle_empty_member.

(* a support starting at 100 s, three stamps (one on each support end), every generator changes the series:
   shift by 3U wraps e onto s + 3U and s + U onto s *)
Example C20_nonvacuous :
  let s := 100000000000 in let e := 100007812500 in let U := 1953125 in
  let ts := [s; s + U; e] in
  (s < e /\ sortedZ ts /\ Forall (inside s e) ts /\ nondegenerate ts)
  /\ (fst (shift_ts s e (3 * U) ts) = [s; s + 3 * U; s + 3 * U]
      /\ fst (jitter_ts false s e ts [U; - U; - U]) = [s; s + U; s + 3 * U]
      /\ fst (jitter_ts true s e ts [- U; 0; U]) = [s + U]
      /\ shuffle_ts ts [1%nat; 0%nat] = Some ([s; s + 3 * U; e], [(s, e)])
      /\ fst (resample_ts s e [e; s; s + 2 * U]) = [s; s + 2 * U; e])
  /\ Permutation [1%nat; 0%nat] (seq 0 2).
Proof.
  cbv zeta. split; [|split].
  - split; [lia|]. split; [simpl; lia|]. split; [repeat apply Forall_cons; try apply Forall_nil; unfold inside; lia|].
    unfold nondegenerate. simpl. lia.
  - vm_compute. repeat split.
  - apply perm_swap.
Qed.
