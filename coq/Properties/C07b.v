(* C07, tie by PROOF: the kernel TEXTS of jitthreshold and jitremove_nan (Gen/Kernels.v, regenerated from /repo's
   source on every run) compute exactly the functional models of Model/Threshold.v used by the C07 theorems,
   whenever the interpreter terminates within its fuel (partial correctness).
   jitthreshold: kept samples (times and data) and the new support's starts/ends in doubled ticks (thr_go), for any
   series, data of any dtype, any of the four comparison methods; hypothesis: an empty support comes with an empty
   series (on a non-empty series with an empty support - a zero-span series - kernel and model differ; that input
   is outside the C07 theorems' domain, where every sample lies inside the support).
   jitremove_nan: the raw runs of kept samples; the singleton widening of _dropna (ends[starts == ends] += 1e-6) is
   the separate, proved, step widen1.  Hypothesis: non-empty series (the Python caller returns before the kernel).
   Proofs in Inv/Jitthreshold_func.v and Inv/Jitremove_nan_func.v. *)
From Coq Require Import ZArith List.
From Verif Require Import Base.Prelude Model.Threshold Jit.Lang Jit.Interp Gen.Kernels.
From Verif Require Import Inv.Jitrestrict_func Inv.Jitfix_iset_func Inv.Jitremove_nan_func Inv.Jitthreshold_func.
Import ListNotations.

Theorem C07_threshold_kernel_text_computes_model : forall ts dd data ep thr method fuel,
  length data = length ts -> 0 <= method <= 3 -> (ep = [] -> ts = []) ->
  match run fuel k_jitthreshold (threshold_args ts dd data ep thr method) with
  | Return rs =>
      let kp := keptl method thr data in
      let l := combine ts kp in
      rs = [Ar (A1 DFlt (qcells (kept_times l)));
            Ar (A1 dd (map fst (filter snd (combine data kp))));
            Ar (A1 DFlt (hcells (fst (thr_go None ep l))));
            Ar (A1 DFlt (hcells (snd (thr_go None ep l))))]
      /\ threshold_support ep l = combine (fst (thr_go None ep l)) (snd (thr_go None ep l))
  | OutOfFuel => True
  | _ => False
  end.
Proof. exact k_jitthreshold_computes_model. Qed.
Print Assumptions C07_threshold_kernel_text_computes_model.

Theorem C07_threshold_kernel_text_support : forall ts dd data ep thr method fuel,
  length data = length ts -> 0 <= method <= 3 ->
  canonical ep -> strictly_increasing ts -> Forall (fun x => mem x ep = true) ts ->
  match run fuel k_jitthreshold (threshold_args ts dd data ep thr method) with
  | Return rs =>
      let kp := keptl method thr data in
      let l := combine ts kp in
      rs = [Ar (A1 DFlt (qcells (kept_times l)));
            Ar (A1 dd (map fst (filter snd (combine data kp))));
            Ar (A1 DFlt (hcells (firsts (threshold_support ep l))));
            Ar (A1 DFlt (hcells (seconds (threshold_support ep l))))]
  | OutOfFuel => True
  | _ => False
  end.
Proof. exact k_jitthreshold_support. Qed.
Print Assumptions C07_threshold_kernel_text_support.

Theorem C07_remove_nan_kernel_text_computes_model : forall ts kp fuel,
  length kp = length ts -> ts <> [] ->
  match run fuel k_jitremove_nan (remove_nan_qargs ts kp) with
  | Return rs =>
      let R := raw_runs (combine ts kp) in
      rs = [Ar (A1 DFlt (qcells (firsts R))); Ar (A1 DFlt (qcells (seconds R)))]
      /\ dropna_support (combine ts kp) = map widen1 R
  | OutOfFuel => True
  | _ => False
  end.
Proof. exact k_jitremove_nan_computes_model. Qed.
Print Assumptions C07_remove_nan_kernel_text_computes_model.
