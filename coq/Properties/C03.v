(* C03 — restrict keeps exactly the samples inside the closed intervals, rows intact.
   Only statements and `exact`; the proofs are in Proofs/RestrictProofs.v. *)
From Verif Require Import Base.Prelude Model.Restrict Model.Iset Proofs.RestrictProofs Proofs.C02Top Proofs.C03Compose Model.Store.

(* 1. the scan selects exactly the positions whose timestamp lies in some closed interval,
      in the original order (duplicates kept) *)
Theorem C03_restrict_spec : forall ts ep, sortedZ ts -> canonical ep ->
  restrict_idx ts ep = filter_idx (fun x => mem x ep) 0%nat ts.
Proof. exact restrict_idx_spec. Qed.
Print Assumptions C03_restrict_spec.

(* 2. every kept sample keeps its own data row *)
Theorem C03_rows_spec : forall (A : Type) (d : A) ts rows ep,
  sortedZ ts -> canonical ep -> length rows = length ts ->
  combine (select 0 ts (restrict_idx ts ep)) (select d rows (restrict_idx ts ep))
  = filter (fun tr => mem (fst tr) ep) (combine ts rows).
Proof. exact @restrict_rows_spec. Qed.
Print Assumptions C03_rows_spec.

(* 3. idempotence; composition = restriction by the (pointwise) intersection *)
Theorem C03_idempotent : forall ts ep, sortedZ ts -> canonical ep ->
  restrict_ts (restrict_ts ts ep) ep = restrict_ts ts ep.
Proof. exact restrict_idem. Qed.
Print Assumptions C03_idempotent.

Theorem C03_compose : forall ts a b, sortedZ ts -> canonical a -> canonical b ->
  restrict_ts (restrict_ts ts a) b = filter (fun x => mem x a && mem x b) ts.
Proof. exact restrict_restrict. Qed.
Print Assumptions C03_compose.

(* 3b. ... and that is restriction by a.intersect(b) for samples farther than 1 us from every endpoint *)
Theorem C03_compose_intersect : forall ts a b, sortedZ ts -> canonical a -> canonical b ->
  Forall (fun x => far x a b) ts ->
  restrict_ts (restrict_ts ts a) b = restrict_ts ts (iset_inter a b).
Proof. exact restrict_restrict_intersect. Qed.
Print Assumptions C03_compose_intersect.

(* 3c. the statement's own, per-sample form (C03_compose_intersect needs EVERY sample of the series to be far from the
       endpoints): a sample x farther than 1 us from every endpoint of a and b is selected by restrict(a).restrict(b) exactly as
       often as by restrict(a.intersect(b)), whatever the other samples of the series are *)
Theorem C03_compose_intersect_sample : forall ts a b x, sortedZ ts -> canonical a -> canonical b -> far x a b ->
  count_occ Z.eq_dec (restrict_ts (restrict_ts ts a) b) x = count_occ Z.eq_dec (restrict_ts ts (iset_inter a b)) x.
Proof. exact restrict_restrict_intersect_sample. Qed.
Print Assumptions C03_compose_intersect_sample.

(* 4. the result is sorted and inside the new support *)
Theorem C03_in_support : forall ts ep, sortedZ ts -> canonical ep ->
  Forall (fun x => mem x ep = true) (restrict_ts ts ep) /\ sortedZ (restrict_ts ts ep).
Proof. exact restrict_in_support. Qed.
Print Assumptions C03_in_support.

(* 4b. the time support of x.restrict(ep) (the constructor call of _Base.restrict, Model/Store.v) is ep, or empty when no
       sample survives; the timestamps it holds are the restricted ones (C04_restrict_keeps) *)
Theorem C03_support : forall t ep,
  sup_ (mk_ts_sup (restrict_ts t ep) ep) = match restrict_ts t ep with [] => [] | _ => ep end.
Proof. exact restrict_support. Qed.
Print Assumptions C03_support.

(* 4c. constructing with time_support = ep selects the same samples as constructing without and then restricting, for any
       (also unsorted) timestamps spanning a positive duration *)
Theorem C03_constructor : forall t ep, canonical ep ->
  match sortZ t with
  | [] => True
  | x :: _ => x < last (sortZ t) x ->
      t_ (mk_ts_sup t ep) = t_ (mk_ts_sup (restrict_ts (t_ (mk_ts t)) ep) ep)
  end.
Proof. exact ctor_support_is_ctor_then_restrict. Qed.
Print Assumptions C03_constructor.

(* 5. per-interval counts (jitrestrict_with_count) and their sum *)
Theorem C03_counts : forall ts ep, sortedZ ts -> canonical ep ->
  restrict_cnt ts ep = map (fun iv => count_if (fun x => inb x iv) ts) ep.
Proof. exact restrict_cnt_spec. Qed.
Print Assumptions C03_counts.

Theorem C03_counts_sum : forall ts ep,
  fold_right Nat.add 0%nat (restrict_cnt ts ep) = length (restrict_idx ts ep).
Proof. exact restrict_cnt_sum. Qed.
Print Assumptions C03_counts_sum.

(* non-vacuity: a concrete non-trivial state meeting the hypotheses *)
Example C03_nonvacuous :
  sortedZ [1; 2; 2; 5; 9] /\ canonical [(2, 3); (5, 9)]
  /\ restrict_idx [1; 2; 2; 5; 9] [(2, 3); (5, 9)] = [1; 2; 3; 4]%nat.
Proof. vm_compute. intuition congruence. Qed.
From Verif Require Import Proofs.BaseLemmas Proofs.C01Top.

(* ====================================================================================================
   restrict against the three set operations (public results), for series whose samples are farther than
   1 us from every endpoint of a and b (the exception C02 itself makes), and the order-independence of two
   successive restricts (no exception). *)

Lemma restrict_commute ts a b : sortedZ ts -> canonical a -> canonical b ->
  restrict_ts (restrict_ts ts a) b = restrict_ts (restrict_ts ts b) a.
Proof.
  intros Hs Ha Hb. rewrite (restrict_restrict ts a b Hs Ha Hb), (restrict_restrict ts b a Hs Hb Ha).
  apply filter_ext_Forall. apply Forall_forall. intros x _. apply Bool.andb_comm.
Qed.

Lemma restrict_union_filter ts a b : sortedZ ts -> canonical a -> canonical b -> Forall (fun x => far x a b) ts ->
  restrict_ts ts (iset_union a b) = filter (fun x => mem x a || mem x b) ts.
Proof.
  intros Hs Ha Hb Hfar. rewrite (restrict_ts_spec ts (iset_union a b) Hs) by (apply (ops_canonical a b)).
  apply filter_ext_Forall. eapply Forall_impl'; [|exact Hfar]. intros x Hx. cbv beta in *.
  apply wrapper_union_mem; assumption.
Qed.

Lemma restrict_diff_filter ts a b : sortedZ ts -> canonical a -> canonical b -> Forall (fun x => far x a b) ts ->
  restrict_ts ts (iset_diff a b) = filter (fun x => mem x a && negb (mem x b)) ts.
Proof.
  intros Hs Ha Hb Hfar. rewrite (restrict_ts_spec ts (iset_diff a b) Hs) by (apply (ops_canonical a b)).
  apply filter_ext_Forall. eapply Forall_impl'; [|exact Hfar]. intros x Hx. cbv beta in *.
  apply wrapper_diff_mem; assumption.
Qed.

Lemma restrict_inter_filter ts a b : sortedZ ts -> canonical a -> canonical b -> Forall (fun x => far x a b) ts ->
  restrict_ts ts (iset_inter a b) = filter (fun x => mem x a && mem x b) ts.
Proof.
  intros Hs Ha Hb Hfar. rewrite <- (restrict_restrict ts a b Hs Ha Hb). symmetry. apply restrict_restrict_intersect; assumption.
Qed.

Lemma filter_split_length (p q r : Z -> bool) l : (forall x, In x l -> p x = q x || r x) -> (forall x, In x l -> q x && r x = false) ->
  length (filter p l) = (length (filter q l) + length (filter r l))%nat.
Proof.
  induction l as [|x t IH]; intros H1 H2; [reflexivity|]. simpl.
  specialize (IH (fun y Hy => H1 y (or_intror Hy)) (fun y Hy => H2 y (or_intror Hy))).
  pose proof (H1 x (or_introl eq_refl)) as E1. pose proof (H2 x (or_introl eq_refl)) as E2.
  destruct (p x), (q x), (r x); simpl in *; try discriminate; lia.
Qed.

(* the samples of ts inside a are split, without loss or duplication, between a.intersect(b) and a.set_diff(b) *)
Lemma restrict_partition ts a b : sortedZ ts -> canonical a -> canonical b -> Forall (fun x => far x a b) ts ->
  length (restrict_ts ts a) = (length (restrict_ts ts (iset_inter a b)) + length (restrict_ts ts (iset_diff a b)))%nat.
Proof.
  intros Hs Ha Hb Hfar.
  rewrite (restrict_inter_filter ts a b), (restrict_diff_filter ts a b), (restrict_ts_spec ts a) by assumption.
  apply filter_split_length; intros x _; destruct (mem x a), (mem x b); reflexivity.
Qed.

(* inclusion-exclusion on sample counts *)
Lemma restrict_incl_excl ts a b : sortedZ ts -> canonical a -> canonical b -> Forall (fun x => far x a b) ts ->
  (length (restrict_ts ts (iset_union a b)) + length (restrict_ts ts (iset_inter a b)) = length (restrict_ts ts a) + length (restrict_ts ts b))%nat.
Proof.
  intros Hs Ha Hb Hfar.
  rewrite (restrict_inter_filter ts a b), (restrict_union_filter ts a b), (restrict_ts_spec ts a), (restrict_ts_spec ts b) by assumption.
  clear. induction ts as [|x t IH]; [reflexivity|]. simpl.
  destruct (mem x a), (mem x b); simpl; lia.
Qed.

Theorem C03_commute : forall ts a b, sortedZ ts -> canonical a -> canonical b ->
  restrict_ts (restrict_ts ts a) b = restrict_ts (restrict_ts ts b) a.
Proof. exact restrict_commute. Qed.
Print Assumptions C03_commute.

Theorem C03_restrict_union : forall ts a b, sortedZ ts -> canonical a -> canonical b -> Forall (fun x => far x a b) ts ->
  restrict_ts ts (iset_union a b) = filter (fun x => mem x a || mem x b) ts.
Proof. exact restrict_union_filter. Qed.
Print Assumptions C03_restrict_union.

Theorem C03_restrict_set_diff : forall ts a b, sortedZ ts -> canonical a -> canonical b -> Forall (fun x => far x a b) ts ->
  restrict_ts ts (iset_diff a b) = filter (fun x => mem x a && negb (mem x b)) ts.
Proof. exact restrict_diff_filter. Qed.
Print Assumptions C03_restrict_set_diff.

Theorem C03_partition : forall ts a b, sortedZ ts -> canonical a -> canonical b -> Forall (fun x => far x a b) ts ->
  length (restrict_ts ts a) = (length (restrict_ts ts (iset_inter a b)) + length (restrict_ts ts (iset_diff a b)))%nat.
Proof. exact restrict_partition. Qed.
Print Assumptions C03_partition.

Theorem C03_inclusion_exclusion : forall ts a b, sortedZ ts -> canonical a -> canonical b -> Forall (fun x => far x a b) ts ->
  (length (restrict_ts ts (iset_union a b)) + length (restrict_ts ts (iset_inter a b)) = length (restrict_ts ts a) + length (restrict_ts ts b))%nat.
Proof. exact restrict_incl_excl. Qed.
Print Assumptions C03_inclusion_exclusion.

Example C03_algebra_nonvacuous :
  restrict_ts [2000; 7000; 12000; 22000; 27000] (iset_union [(0, 10000); (20000, 30000)] [(5000, 25000)]) = [2000; 7000; 12000; 22000; 27000]
  /\ restrict_ts [2000; 7000; 12000; 22000; 27000] (iset_diff [(0, 10000); (20000, 30000)] [(5000, 25000)]) = [2000; 27000]
  /\ restrict_ts [2000; 7000; 12000; 22000; 27000] (iset_inter [(0, 10000); (20000, 30000)] [(5000, 25000)]) = [7000; 22000].
Proof. vm_compute. repeat split; reflexivity. Qed.
