(* C04 — every time series reachable through the API is well formed.
   Statements only; proofs in Proofs/StoreProofs.v.  The model (Model/Store.v) is a state machine over a
   store of live objects; every operation returns through a constructor (mk_ts / mk_ts_sup / mk_iset), as the
   wrappers of pynapple do.  Data values are abstracted (threshold / dropna take the kept mask). *)
From Verif Require Import Base.Prelude Model.Restrict Model.Iset Model.Threshold Model.Slice Model.Store Proofs.StoreProofs.

(* 1. one step: whatever the operation and its arguments, the object it produces is well formed *)
Theorem C04_step : forall st o, Forall WF_obj st -> WF_obj (step st o).
Proof. exact step_WF. Qed.
Print Assumptions C04_step.

(* 2. every object reachable by any finite sequence of operations is well formed:
      sorted timestamps, every timestamp inside the closed intervals of its support, canonical support *)
Theorem C04_reachable : forall ops, Forall WF_obj (run ops).
Proof. exact run_WF. Qed.
Print Assumptions C04_reachable.

(* 3. the constructors *)
Theorem C04_ctor : forall t, WF_ts (mk_ts t).
Proof. exact mk_ts_WF. Qed.
Print Assumptions C04_ctor.

Theorem C04_ctor_support : forall t ep, canonical ep -> WF_ts (mk_ts_sup t ep).
Proof. exact mk_ts_sup_WF. Qed.
Print Assumptions C04_ctor_support.

(* 4. the invariant is not bought by dropping samples: the constructor's final restriction loses nothing *)
Theorem C04_positive_span_keeps_all : forall t,
  match sortZ t with [] => True | x :: _ => x < last (sortZ t) x -> t_ (mk_ts t) = sortZ t end.
Proof. exact mk_ts_keeps. Qed.
Print Assumptions C04_positive_span_keeps_all.

Theorem C04_restrict_keeps : forall t ep, sortedZ t -> canonical ep ->
  t_ (mk_ts_sup (restrict_ts t ep) ep) = restrict_ts t ep.
Proof. exact restrict_keeps. Qed.
Print Assumptions C04_restrict_keeps.

Theorem C04_get_keeps : forall x a b, WF_ts x ->
  t_ (mk_ts_sup (get_times a b (t_ x)) (sup_ x)) = get_times a b (t_ x).
Proof. exact get_keeps. Qed.
Print Assumptions C04_get_keeps.

Theorem C04_threshold_keeps : forall st i mask, Forall WF_obj st ->
  strictly_increasing (t_ (get_ts st i)) -> Forall (fun v => v mod 2 = 0) (t_ (get_ts st i)) ->
  length mask = length (t_ (get_ts st i)) ->
  exists y, step st (OpThreshold i mask) = OTs y /\ t_ y = kept_times (combine (t_ (get_ts st i)) mask).
Proof. exact threshold_step_keeps. Qed.
Print Assumptions C04_threshold_keeps.

(* 5. the hypothesis "timestamps span a positive duration" is needed: a zero-span series gets an EMPTY default
      support, and every re-construction under that support loses its samples (recorded as a known finding under
      C06 / C08 where the statement does not exclude it).  mk_ts applies that re-construction at once; the
      library's constructor itself keeps the samples under the empty support: see section 6 for the constructor
      as built and for the exact role of the hypothesis *)
Theorem C04_zero_span_loses_samples : forall x n, t_ (mk_ts (repeat x (S n))) = [].
Proof. exact mk_ts_zero_span. Qed.
Print Assumptions C04_zero_span_loses_samples.

Example C04_nonvacuous :
  run [OpMkTs [10; 2; 6; 4; 8]; OpThreshold 0 [true; true; false; true; true]; OpMkEp [3; 1] [7; 9]; OpRestrict 0 2]
  = [OTs {| t_ := [2; 4; 6; 8; 10]; sup_ := [(2, 10)] |};
     OTs {| t_ := [2; 4; 8; 10]; sup_ := [(2, 5); (7, 10)] |};
     OEp [(1, 9)]; OTs {| t_ := [2; 4; 6; 8]; sup_ := [(1, 9)] |}].
Proof. vm_compute. reflexivity. Qed.

(* ------------------------------------------------------------------------------------------------------
   Additions of the oracle / theorem audit (DESIGN 10.10): the clauses of the statement that sections 1-5 do
   not state, and the exact reading of the constructor on zero-span input. *)
From Verif Require Model.Group Proofs.GroupProofs.

(* 6. the constructor WITHOUT the model's final restriction.  _Base.__init__ restricts only to a support that the
      caller passes; the default support IntervalSet(t0, t_last) is attached and nothing is dropped.  mk_ts of
      Model/Store.v restricts to the default support as well: on input spanning a positive duration (the property's
      hypothesis) the two coincide (C04_ctor_as_built_agrees), so sections 1-4 are statements about the constructor
      as built.  On zero-span input they differ: the constructor as built keeps the samples under the EMPTY support,
      which is NOT well formed (C04_ctor_as_built_zero_span_refuted: the hypothesis of the property is necessary;
      this is the object nap.Ts([5., 5.]) - and what jitter_timestamps / shuffle_ts_intervals return on a series
      reduced to one instant, the known finding of this property), and it is mk_ts that C04_zero_span_loses_samples
      describes, i.e. what every LATER re-construction with that empty support does. *)
Definition mk_ts_as_built (t : list Z) : ts :=
  let s := sortZ t in
  match s with
  | [] => {| t_ := []; sup_ := [] |}
  | x :: _ => {| t_ := s; sup_ := mk_iset [x] [last s x] |}
  end.

Theorem C04_ctor_as_built_agrees : forall t,
  match sortZ t with [] => mk_ts_as_built t = mk_ts t | x :: _ => x < last (sortZ t) x -> mk_ts_as_built t = mk_ts t end.
Proof.
  intros t. pose proof (mk_ts_keeps t) as K. unfold mk_ts_as_built, mk_ts in *.
  destruct (sortZ t) as [|x r] eqn:E; [reflexivity|].
  intros Hlt. specialize (K Hlt). cbn [t_ mk_ts_sup] in K.
  unfold mk_ts_sup. f_equal. symmetry. exact K.
Qed.
Print Assumptions C04_ctor_as_built_agrees.

Theorem C04_ctor_as_built_WF : forall t,
  match sortZ t with [] => True | x :: _ => x < last (sortZ t) x end -> WF_ts (mk_ts_as_built t).
Proof.
  intros t H. pose proof (C04_ctor_as_built_agrees t) as A.
  destruct (sortZ t) as [|x r] eqn:E; [rewrite A|rewrite (A H)]; apply mk_ts_WF.
Qed.
Print Assumptions C04_ctor_as_built_WF.

Theorem C04_ctor_as_built_zero_span_refuted :
  mk_ts_as_built [5; 5] = {| t_ := [5; 5]; sup_ := [] |} /\ ~ WF_ts (mk_ts_as_built [5; 5]).
Proof.
  split; [vm_compute; reflexivity|].
  intros (_ & H & _). vm_compute in H. inversion H as [|? ? H1 _]. discriminate H1.
Qed.
Print Assumptions C04_ctor_as_built_zero_span_refuted.

(* the same for histories: with the constructor as built in place of mk_ts, every history whose constructor calls
   span a positive duration (or are empty) produces exactly the objects of `run`, hence well-formed ones - this is
   the statement's quantifier made explicit -, and the hypothesis cannot be dropped *)
Definition step_as_built (st : list obj) (o : op) : obj :=
  match o with OpMkTs t => OTs (mk_ts_as_built t) | _ => step st o end.
Definition run_as_built (ops : list op) : list obj := fold_left (fun st o => st ++ [step_as_built st o]) ops [].
Definition positive_span_op (o : op) : Prop :=
  match o with
  | OpMkTs t => match sortZ t with [] => True | x :: _ => x < last (sortZ t) x end
  | _ => True
  end.

Lemma step_as_built_agrees st o : positive_span_op o -> step_as_built st o = step st o.
Proof.
  destruct o; try reflexivity. cbn [positive_span_op step_as_built step]. intros H. f_equal.
  pose proof (C04_ctor_as_built_agrees t) as A. destruct (sortZ t); [exact A|exact (A H)].
Qed.

Theorem C04_reachable_as_built : forall ops, Forall positive_span_op ops ->
  run_as_built ops = run ops /\ Forall WF_obj (run_as_built ops).
Proof.
  intros ops H.
  assert (G : forall st, fold_left (fun st o => st ++ [step_as_built st o]) ops st = fold_left (fun st o => st ++ [step st o]) ops st).
  { induction H as [|o r Ho Hr IH]; intros st; [reflexivity|].
    cbn [fold_left]. rewrite (step_as_built_agrees st o Ho). apply IH. }
  assert (E : run_as_built ops = run ops) by apply G.
  split; [exact E|]. rewrite E. apply C04_reachable.
Qed.
Print Assumptions C04_reachable_as_built.

Theorem C04_reachable_as_built_zero_span_refuted : ~ Forall WF_obj (run_as_built [OpMkTs [5; 5]]).
Proof.
  intros H. vm_compute in H. inversion H as [|? ? W _]. destruct W as (_ & Hin & _).
  inversion Hin as [|? ? Hv _]. discriminate Hv.
Qed.
Print Assumptions C04_reachable_as_built_zero_span_refuted.

(* 7. rate: a non-empty well-formed series has a support of positive total duration, so that its rate
      n / tot_length(support) is a finite number (the rate inf of the zero-span objects is exactly the failure of
      this); rate itself is not a field of the model (it is recomputed by the constructor from n and the support:
      the equality rate = n / duration is enforced on the implementation by the oracle) *)
Theorem C04_rate_defined : forall x, WF_ts x -> t_ x <> [] -> 0 < tot_length (sup_ x).
Proof.
  intros x (_ & Hin & Hc) Hne. apply GroupProofs.tot_length_pos; [exact Hc|].
  intros E. destruct (t_ x) as [|v r]; [congruence|]. inversion Hin as [|? ? Hv _]. rewrite E in Hv. discriminate Hv.
Qed.
Print Assumptions C04_rate_defined.

Corollary C04_reachable_rate_defined : forall ops x, In (OTs x) (run ops) -> t_ x <> [] -> 0 < tot_length (sup_ x).
Proof.
  intros ops x Hin. apply C04_rate_defined. pose proof (C04_reachable ops) as H. rewrite Forall_forall in H. exact (H _ Hin).
Qed.
Print Assumptions C04_reachable_rate_defined.

(* 8. TsGroup members (model Model/Group.v, proofs shared with C12): every member of every group reachable from a
      constructed group (members restricted, i.e. bypass_check = False) by selections, restrict, get, the round
      trip through to_tsd / to_tsgroup and merges is well formed, non-empty members carry the group's support, and
      their rate is n / total duration of that support *)
Theorem C04_group_members : forall data sup ht g ops,
  Group.mk_group data sup false ht = Some g ->
  Forall (fun d => GroupProofs.raw_wf sup (snd (snd d))) data ->
  match sup with Some s => canonical s | None => True end ->
  Forall GroupProofs.op_ok ops ->
  let g' := Group.run g ops in
  canonical (Group.g_sup g')
  /\ forall e, In e (Group.g_entries g') ->
       let m := Group.e_mem e in
       sortedZ (Group.m_t m)
       /\ Forall (fun v => mem v (Group.m_sup m) = true) (Group.m_t m)
       /\ canonical (Group.m_sup m)
       /\ (Group.m_t m <> [] ->
             Group.m_sup m = Group.g_sup g'
             /\ 0 < tot_length (Group.m_sup m)
             /\ Group.rate m = Some (length (Group.m_t m), tot_length (Group.m_sup m))).
Proof.
  intros data sup ht g ops Hg Hd Hs Hok g'.
  destruct (GroupProofs.mk_group_invariants data sup false ht g Hg Hd Hs) as [W R]. specialize (R eq_refl).
  destruct (GroupProofs.run_invariant ops g W R Hok) as [W' R']. fold g' in W', R'.
  destruct (GroupProofs.invariants_meaning g' W' R') as (_ & Hc & Hm).
  split; [exact Hc|]. intros e He m.
  destruct (Hm e He) as (Hsorted & Hin & Hrate).
  destruct W' as (_ & _ & Hwf). rewrite Forall_forall in Hwf. destruct (Hwf e He) as [_ Hcm].
  unfold GroupProofs.Rg in R'. rewrite Forall_forall in R'. destruct (R' e He) as [_ Hn].
  unfold GroupProofs.normal in Hn. fold m in Hsorted, Hin, Hrate, Hcm, Hn.
  split; [exact Hsorted|]. split.
  - destruct (Group.m_t m) as [|v r] eqn:E; [constructor|]. rewrite Hn. exact Hin.
  - split; [exact Hcm|]. intros Hne.
    assert (Hms : Group.m_sup m = Group.g_sup g') by (destruct (Group.m_t m); [congruence|exact Hn]).
    destruct (Hrate Hne) as [Hr Hp]. rewrite Hms. auto.
Qed.
Print Assumptions C04_group_members.
