(* C04 — every time series reachable through the API is well formed.
   Statements only; proofs in Proofs/StoreProofs.v.  The model (Model/Store.v) is a state machine over a
   store of live objects; every operation returns through a constructor (mk_ts / mk_ts_sup / mk_iset), as the
   wrappers of pynapple do.  Data values are abstracted (threshold / dropna take the kept mask). *)
From Verif Require Import Base.Prelude Model.Restrict Model.Iset Model.Threshold Model.Slice Model.Store Proofs.StoreProofs.

(* 1. one step: whatever the operation and its arguments, the object it produces is well formed *)
Theorem C04_step : forall st o, Forall WF_obj st -> WF_obj (step st o).
Proof. exact step_WF. Qed.
Print Assumptions C04_step.

(* 2. every object reachable by any finite sequence of operations is well formed:
      sorted timestamps, every timestamp inside the closed intervals of its support, canonical support *)
Theorem C04_reachable : forall ops, Forall WF_obj (run ops).
Proof. exact run_WF. Qed.
Print Assumptions C04_reachable.

(* 3. the constructors *)
Theorem C04_ctor : forall t, WF_ts (mk_ts t).
Proof. exact mk_ts_WF. Qed.
Print Assumptions C04_ctor.

Theorem C04_ctor_support : forall t ep, canonical ep -> WF_ts (mk_ts_sup t ep).
Proof. exact mk_ts_sup_WF. Qed.
Print Assumptions C04_ctor_support.

(* 4. the invariant is not bought by dropping samples: the constructor's final restriction loses nothing *)
Theorem C04_positive_span_keeps_all : forall t,
  match sortZ t with [] => True | x :: _ => x < last (sortZ t) x -> t_ (mk_ts t) = sortZ t end.
Proof. exact mk_ts_keeps. Qed.
Print Assumptions C04_positive_span_keeps_all.

Theorem C04_restrict_keeps : forall t ep, sortedZ t -> canonical ep ->
  t_ (mk_ts_sup (restrict_ts t ep) ep) = restrict_ts t ep.
Proof. exact restrict_keeps. Qed.
Print Assumptions C04_restrict_keeps.

Theorem C04_get_keeps : forall x a b, WF_ts x ->
  t_ (mk_ts_sup (get_times a b (t_ x)) (sup_ x)) = get_times a b (t_ x).
Proof. exact get_keeps. Qed.
Print Assumptions C04_get_keeps.

Theorem C04_threshold_keeps : forall st i mask, Forall WF_obj st ->
  strictly_increasing (t_ (get_ts st i)) -> Forall (fun v => v mod 2 = 0) (t_ (get_ts st i)) ->
  length mask = length (t_ (get_ts st i)) ->
  exists y, step st (OpThreshold i mask) = OTs y /\ t_ y = kept_times (combine (t_ (get_ts st i)) mask).
Proof. exact threshold_step_keeps. Qed.
Print Assumptions C04_threshold_keeps.

(* 5. the hypothesis "timestamps span a positive duration" is needed: a zero-span series gets an EMPTY default
      support and loses its samples (the library's behaviour, reproduced by the model; recorded as a known
      finding under C06 / C08 where the statement does not exclude it) *)
Theorem C04_zero_span_loses_samples : forall x n, t_ (mk_ts (repeat x (S n))) = [].
Proof. exact mk_ts_zero_span. Qed.
Print Assumptions C04_zero_span_loses_samples.

Example C04_nonvacuous :
  run [OpMkTs [10; 2; 6; 4; 8]; OpThreshold 0 [true; true; false; true; true]; OpMkEp [3; 1] [7; 9]; OpRestrict 0 2]
  = [OTs {| t_ := [2; 4; 6; 8; 10]; sup_ := [(2, 10)] |};
     OTs {| t_ := [2; 4; 8; 10]; sup_ := [(2, 5); (7, 10)] |};
     OEp [(1, 9)]; OTs {| t_ := [2; 4; 6; 8]; sup_ := [(1, 9)] |}].
Proof. vm_compute. reflexivity. Qed.
