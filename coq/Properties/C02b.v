(* C02, tie by PROOF: the kernel TEXTS of jitunion and jitunion_isets (Gen/Kernels.v, regenerated from /repo's
   source on every run) compute exactly the functional models k_union / k_union_n used by the C02 theorems,
   whenever the interpreter terminates within its fuel (partial correctness).  jitunion: no hypothesis at all.
   jitunion_isets: the interpreter's argsort breaks ties in the opposite order to the model's stable sort, which
   matters only when two intervals share a start and one of them has end < start; hence the hypothesis
   (distinct starts or every start <= end), which every IntervalSet satisfies.
   Proofs in Inv/Jitunion_func.v and Inv/Jitunion_isets_func.v. *)
From Coq Require Import ZArith List Bool.
From Verif Require Import Base.Prelude Model.Iset Proofs.UnionProofs Jit.Lang Jit.Interp Gen.Kernels.
From Verif Require Import Inv.Jitrestrict_func.
From Verif Require Inv.Jitunion_func Inv.Jitunion_isets_func.
Import ListNotations.

Theorem C02_union_kernel_text_computes_model : forall A B fuel,
  match run fuel k_jitunion (Jitunion_func.jitunion_args A B) with
  | Return rs => rs = Jitunion_func.iset_arrays (k_union A B)
  | OutOfFuel => True
  | _ => False
  end.
Proof. exact Jitunion_func.k_jitunion_computes_model. Qed.
Print Assumptions C02_union_kernel_text_computes_model.

Theorem C02_union_kernel_text_spec : forall A B fuel, canonical A -> canonical B ->
  match run fuel k_jitunion (Jitunion_func.jitunion_args A B) with
  | Return rs => exists l, rs = Jitunion_func.iset_arrays l /\ weakly_canonical l
                           /\ forall x, mem x l = mem x A || mem x B
  | OutOfFuel => True
  | _ => False
  end.
Proof. exact Jitunion_func.k_jitunion_spec. Qed.
Print Assumptions C02_union_kernel_text_spec.

Theorem C02_union_isets_kernel_text_computes_model : forall l fuel,
  NoDup (firsts l) \/ Forall (fun I => fst I <= snd I) l ->
  match run fuel k_jitunion_isets (Jitunion_isets_func.union_args l) with
  | Return rs => rs = Jitunion_isets_func.iset_arrays (k_union_n l)
  | OutOfFuel => True
  | _ => False
  end.
Proof. exact Jitunion_isets_func.k_jitunion_isets_computes_model. Qed.
Print Assumptions C02_union_isets_kernel_text_computes_model.

(* jitintersect and jitdiff (with their parent-index columns, which IntervalSet.intersect / set_diff use to carry
   metadata): no hypothesis at all.  Proofs in Inv/Jitintersect_func.v and Inv/Jitdiff_func.v. *)
From Verif Require Inv.Jitintersect_func Inv.Jitdiff_func.

Theorem C02_intersect_kernel_text_computes_model : forall A B fuel,
  match run fuel k_jitintersect (Jitintersect_func.iset_args A B) with
  | Return rs => rs = Jitintersect_func.inter_result (k_inter_meta A B)
  | OutOfFuel => True
  | _ => False
  end.
Proof. exact Jitintersect_func.k_jitintersect_computes_model. Qed.
Print Assumptions C02_intersect_kernel_text_computes_model.

Theorem C02_diff_kernel_text_computes_model : forall A B fuel,
  match run fuel k_jitdiff (Jitintersect_func.iset_args A B) with
  | Return rs => rs = Jitdiff_func.diff_result (k_diff_meta A B)
  | OutOfFuel => True
  | _ => False
  end.
Proof. exact Jitdiff_func.k_jitdiff_computes_model. Qed.
Print Assumptions C02_diff_kernel_text_computes_model.

(* TOTAL correctness of jitunion and jitunion_isets (Inv/Jitunion_total.v, Inv/Jitunion_isets_total.v); jitintersect and
   jitdiff terminate on every input of their safety precondition (stated in Properties/C15b.v), which with the partial
   statements above gives the same. *)
From Verif Require Inv.Jitunion_total Inv.Jitunion_isets_total.
Theorem C02_union_kernel_text_total : forall A B,
  exists fuel, run fuel k_jitunion (Jitunion_func.jitunion_args A B) = Return (Jitunion_func.iset_arrays (k_union A B)).
Proof. exact Jitunion_total.k_jitunion_total. Qed.
Print Assumptions C02_union_kernel_text_total.

Theorem C02_union_isets_kernel_text_total : forall l,
  NoDup (firsts l) \/ Forall (fun I => fst I <= snd I) l ->
  exists fuel, run fuel k_jitunion_isets (Jitunion_isets_func.union_args l) = Return (Jitunion_isets_func.iset_arrays (k_union_n l)).
Proof. exact Jitunion_isets_total.k_jitunion_isets_total. Qed.
Print Assumptions C02_union_isets_kernel_text_total.

(* TOTAL correctness of jitintersect and jitdiff (Inv/Jitintersect_functotal.v, Inv/Jitdiff_functotal.v). *)
From Verif Require Inv.Jitintersect_functotal Inv.Jitdiff_functotal.
Theorem C02_intersect_kernel_text_total : forall A B,
  exists fuel, run fuel k_jitintersect (Jitintersect_func.iset_args A B) = Return (Jitintersect_func.inter_result (k_inter_meta A B)).
Proof. exact Jitintersect_functotal.k_jitintersect_total. Qed.
Print Assumptions C02_intersect_kernel_text_total.

Theorem C02_diff_kernel_text_total : forall A B,
  exists fuel, run fuel k_jitdiff (Jitintersect_func.iset_args A B) = Return (Jitdiff_func.diff_result (k_diff_meta A B)).
Proof. exact Jitdiff_functotal.k_jitdiff_total. Qed.
Print Assumptions C02_diff_kernel_text_total.
