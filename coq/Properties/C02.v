(* C02 — union / intersect / set_diff are the Boolean set operations on the time line.
   Statements first (proofs in Proofs/InterDiffProofs.v, UnionProofs.v, C02Top.v, MeasureProofs.v); the public-result forms at the end of
   the file come with their lemmas (Proofs/*.v are shared with other properties and were left untouched). *)
From Verif Require Import Base.Prelude Model.Iset Proofs.BaseLemmas Proofs.InterDiffProofs Proofs.UnionProofs Proofs.FixIsetProofs Proofs.C02Top Proofs.MeasureProofs.

(* --- the property's own quantifier: public results (kernel + constructor), every instant farther
       than 1 us from every endpoint of A and B --- *)
Theorem C02_union : forall A B x, canonical A -> canonical B -> far x A B ->
  mem x (iset_union A B) = mem x A || mem x B.
Proof. exact wrapper_union_mem. Qed.
Print Assumptions C02_union.

Theorem C02_intersect : forall A B x, canonical A -> canonical B -> far x A B ->
  mem x (iset_inter A B) = mem x A && mem x B.
Proof. exact wrapper_inter_mem. Qed.
Print Assumptions C02_intersect.

Theorem C02_set_diff : forall A B x, canonical A -> canonical B -> far x A B ->
  mem x (iset_diff A B) = mem x A && negb (mem x B).
Proof. exact wrapper_diff_mem. Qed.
Print Assumptions C02_set_diff.

(* --- sharper kernel-level statements: exact for all x but the named exceptions --- *)
Theorem C02_union_kernel_exact : forall A B x, canonical A -> canonical B ->
  mem x (k_union A B) = mem x A || mem x B.
Proof. exact union_mem. Qed.
Print Assumptions C02_union_kernel_exact.

Theorem C02_intersect_kernel : forall A B x, canonical A -> canonical B -> ~ touch_point x A B ->
  mem x (k_inter A B) = mem x A && mem x B.
Proof. exact inter_mem. Qed.
Print Assumptions C02_intersect_kernel.

Theorem C02_diff_kernel : forall A B x, canonical A -> canonical B -> ~ InterDiffProofs.endpoint x B ->
  mem x (k_diff A B) = mem x A && negb (mem x B).
Proof. exact diff_mem. Qed.
Print Assumptions C02_diff_kernel.

(* --- every endpoint of a result is an endpoint of an operand --- *)
Theorem C02_endpoints_union : forall A B, canonical A -> canonical B ->
  Forall (fun I => (In (fst I) (starts A) \/ In (fst I) (starts B))
                   /\ (In (snd I) (ends A) \/ In (snd I) (ends B))) (k_union A B).
Proof. exact union_starts_ends. Qed.
Print Assumptions C02_endpoints_union.

Theorem C02_endpoints_inter : forall A B,
  Forall (fun I => InterDiffProofs.endpoint (fst I) A \/ InterDiffProofs.endpoint (fst I) B) (k_inter A B)
  /\ Forall (fun I => InterDiffProofs.endpoint (snd I) A \/ InterDiffProofs.endpoint (snd I) B) (k_inter A B).
Proof. exact inter_endpoints. Qed.
Print Assumptions C02_endpoints_inter.

Theorem C02_endpoints_diff : forall A B,
  Forall (fun I => InterDiffProofs.endpoint (fst I) A \/ InterDiffProofs.endpoint (fst I) B) (k_diff A B)
  /\ Forall (fun I => InterDiffProofs.endpoint (snd I) A \/ InterDiffProofs.endpoint (snd I) B) (k_diff A B).
Proof. exact diff_endpoints. Qed.
Print Assumptions C02_endpoints_diff.

(* --- raw kernel outputs are well formed, so the constructor only trims at touches --- *)
Theorem C02_raw_wf : forall A B, canonical A -> canonical B ->
  canonical (k_inter A B) /\ canonical (k_diff A B) /\ weakly_canonical (k_union A B).
Proof. intros A B Ha Hb. split; [exact (inter_raw_canonical A B Ha Hb)|split; [exact (diff_raw_canonical A B Ha Hb)|exact (union_raw_wf A B Ha Hb)]]. Qed.
Print Assumptions C02_raw_wf.

(* --- algebra on membership; n-ary union (TsGroup supports) --- *)
Theorem C02_union_comm : forall A B x, canonical A -> canonical B -> mem x (k_union A B) = mem x (k_union B A).
Proof. exact union_comm_mem. Qed.
Print Assumptions C02_union_comm.

Theorem C02_union_idem : forall A x, canonical A -> mem x (k_union A A) = mem x A.
Proof. exact union_idem_mem. Qed.
Print Assumptions C02_union_idem.

Theorem C02_union_n : forall l x, Forall (fun I => fst I < snd I) l -> mem x (k_union_n l) = mem x l.
Proof. exact union_n_mem. Qed.
Print Assumptions C02_union_n.

Theorem C02_union_n_canonical : forall l, Forall (fun I => fst I < snd I) l -> canonical (k_union_n l).
Proof. exact union_n_canonical. Qed.
Print Assumptions C02_union_n_canonical.

(* --- durations (exact on the raw kernels; the constructor then removes at most 1 us per touch) --- *)
Theorem C02_union_measure : forall A B, canonical A -> canonical B ->
  tot_length (k_union A B) + tot_length (k_inter A B) = tot_length A + tot_length B.
Proof. exact union_measure. Qed.
Print Assumptions C02_union_measure.

Theorem C02_diff_measure : forall A B, canonical A -> canonical B ->
  tot_length (k_diff A B) = tot_length A - tot_length (k_inter A B).
Proof. exact diff_measure. Qed.
Print Assumptions C02_diff_measure.

(* --- list-level algebra --- *)
Theorem C02_inter_comm : forall A B, canonical A -> canonical B -> k_inter A B = k_inter B A.
Proof. exact inter_comm. Qed.
Print Assumptions C02_inter_comm.

Theorem C02_idempotent_absorbing : forall A, canonical A ->
  k_inter A A = A /\ k_union A A = A /\ k_diff A A = [] /\ k_diff A [] = A /\ k_union A [] = A /\ k_union [] A = A.
Proof.
  intros A Ha. repeat split; [exact (inter_idem A Ha)|exact (union_idem A Ha)|exact (diff_self A Ha)|exact (diff_empty_r A)
                             |exact (proj1 (union_empty A))|exact (proj2 (union_empty A))].
Qed.
Print Assumptions C02_idempotent_absorbing.

(* ====================================================================================================
   The same clauses on the PUBLIC results (kernel output re-entering the constructor), and the list-level
   commutativity of the union.  The lemmas are proved here (Proofs/*.v are shared with other properties). *)

(* ---- list-level commutativity of the union kernel ---- *)
Lemma canonical_tl A : canonical A -> canonical (tl A).
Proof. destruct A as [|[s e] r]; simpl; tauto. Qed.

Ltac dand := repeat match goal with H : _ /\ _ |- _ => destruct H end.
Ltac cmp := repeat match goal with |- context [Z.ltb ?a ?b] => destruct (Z.ltb_spec a b) | |- context [Z.leb ?a ?b] => destruct (Z.leb_spec a b) end.

Lemma union_go_comm : forall fuel chain A B, canonical A -> canonical B ->
  union_go fuel chain A B = union_go fuel chain B A.
Proof.
  induction fuel as [|f IH]; intros chain A B HA HB; [reflexivity|].
  destruct chain as [ns|]; cbn [union_go].
  - destruct A as [|[s1 e1] A']; destruct B as [|[s2 e2] B']; try reflexivity.
    rewrite (Z.max_comm e2 e1).
    destruct A' as [|[s1' e1'] A'']; destruct B' as [|[s2' e2'] B'']; simpl in HA, HB; dand;
      cmp; try lia; cbn [tl]; try reflexivity; try (f_equal; apply IH; simpl; tauto); try (apply IH; simpl; tauto).
  - destruct A as [|[s1 e1] A']; destruct B as [|[s2 e2] B']; try reflexivity.
    simpl in HA, HB. dand. rewrite (Z.min_comm s2 s1).
    cmp; try lia; try (f_equal; apply IH; simpl; tauto); try (apply IH; simpl; tauto).
Qed.

Lemma union_comm A B : canonical A -> canonical B -> k_union A B = k_union B A.
Proof. intros HA HB. unfold k_union. rewrite (Nat.add_comm (length B) (length A)). apply union_go_comm; assumption. Qed.

(* ---- the constructor on a raw union output: it only trims at touches ---- *)
Fixpoint trim_go (ns ne : Z) (W : iset) : iset :=
  match W with
  | [] => close_pending ns ne None
  | (s, e) :: r => close_pending ns ne (Some s) ++ trim_go s e r
  end.
Definition trim_touches (W : iset) : iset := match W with [] => [] | (s, e) :: r => trim_go s e r end.

Lemma fix_go_trim : forall r ns ne, weakly_canonical ((ns, ne) :: r) ->
  fix_go (Some (ns, ne, ne)) r = trim_go ns ne r.
Proof.
  induction r as [|[s e] r IH]; intros ns ne H; [reflexivity|].
  simpl in H. destruct H as (H1 & H2 & H3). cbn [fix_go trim_go].
  destruct (Z.ltb_spec s ne); [lia|].
  assert (s < e) by (simpl in H3; tauto).
  destruct (Z.leb_spec e s); [lia|]. f_equal. apply IH. exact H3.
Qed.

Lemma fix_iset_trim W : weakly_canonical W -> fix_iset W = trim_touches W.
Proof.
  destruct W as [|[s e] r]; [reflexivity|]. intros H. unfold fix_iset. cbn [fix_go trim_touches].
  assert (s < e) by (simpl in H; tauto). destruct (Z.leb_spec e s); [lia|]. apply fix_go_trim. exact H.
Qed.

Lemma iset_union_trim A B : canonical A -> canonical B -> iset_union A B = trim_touches (k_union A B).
Proof.
  intros Ha Hb. pose proof (union_raw_wf A B Ha Hb) as Hw.
  destruct (weakly_canonical_sorted _ Hw) as (S1 & S2 & S3).
  unfold iset_union, mk_iset_pairs, mk_iset.
  rewrite (sortedZ_sortZ_id _ S1), (sortedZ_sortZ_id _ S2), combine_map_fst_snd.
  apply fix_iset_trim. exact Hw.
Qed.

Lemma iset_inter_raw A B : canonical A -> canonical B -> iset_inter A B = k_inter A B.
Proof. intros Ha Hb. unfold iset_inter. apply mk_iset_canonical_id. apply inter_raw_canonical; assumption. Qed.

Lemma iset_diff_raw A B : canonical A -> canonical B -> iset_diff A B = k_diff A B.
Proof. intros Ha Hb. unfold iset_diff. apply mk_iset_canonical_id. apply diff_raw_canonical; assumption. Qed.

(* endpoints of the trimmed list: starts are starts; an end is an end, or an end that is also the next start, minus 1 us *)
Lemma trim_go_endpoints : forall W ns ne,
  Forall (fun I => In (fst I) (ns :: starts W)
                   /\ (In (snd I) (ne :: ends W)
                       \/ (In (snd I + us) (ne :: ends W) /\ In (snd I + us) (starts W)))) (trim_go ns ne W).
Proof.
  induction W as [|[s e] r IH]; intros ns ne; cbn [trim_go].
  - unfold close_pending. destruct (ns <? ne); constructor; [|constructor]. simpl. auto.
  - apply Forall_app. split.
    + unfold close_pending. destruct (Z.eqb_spec ne s) as [->|N].
      * destruct (ns <? s - us); constructor; [|constructor]. cbn [fst snd starts ends map].
        split; [left; reflexivity|]. right. replace (s - us + us) with s by lia. split; left; reflexivity.
      * destruct (ns <? ne); constructor; [|constructor]. simpl. auto.
    + eapply Forall_impl; [|apply IH]. cbv beta. intros I (H1 & H2). cbn [starts ends map] in *. split.
      * right. exact H1.
      * destruct H2 as [H2|(H2 & H3)]; [left; right; exact H2|right]. split; [right; exact H2|right; exact H3].
Qed.

Lemma canon_after lo A p : canon lo A -> (In p (starts A) \/ In p (ends A)) -> lo < p.
Proof.
  revert lo. induction A as [|[s e] r IH]; intros lo H Hp; simpl in *; [tauto|].
  destruct H as (H1 & H2 & H3).
  destruct Hp as [[Hp|Hp]|[Hp|Hp]]; try lia; (assert (e < p) by (apply IH; auto); lia).
Qed.

Lemma canon_end_not_start lo A p : canon lo A -> In p (ends A) -> In p (starts A) -> False.
Proof.
  revert lo. induction A as [|[s e] r IH]; intros lo H He Hs; simpl in *; [tauto|].
  destruct H as (H1 & H2 & H3).
  destruct He as [He|He]; destruct Hs as [Hs|Hs].
  - lia.
  - assert (e < p) by (eapply canon_after; eauto). lia.
  - assert (e < p) by (eapply canon_after; eauto). lia.
  - eapply IH; eauto.
Qed.

Lemma wrapper_union_endpoints A B : canonical A -> canonical B ->
  Forall (fun I => (In (fst I) (starts A) \/ In (fst I) (starts B))
                   /\ ((In (snd I) (ends A) \/ In (snd I) (ends B)) \/ touch_point (snd I + us) A B)) (iset_union A B).
Proof.
  intros Ha Hb. rewrite (iset_union_trim A B Ha Hb).
  pose proof (union_starts_ends A B Ha Hb) as HS. rewrite Forall_forall in HS.
  destruct (canonical_canon A Ha) as [la Hca]. destruct (canonical_canon B Hb) as [lb Hcb].
  assert (HSs : forall p, In p (starts (k_union A B)) -> In p (starts A) \/ In p (starts B)).
  { intros p Hp. apply in_map_iff in Hp. destruct Hp as (I & <- & HI). apply (HS I HI). }
  assert (HSe : forall p, In p (ends (k_union A B)) -> In p (ends A) \/ In p (ends B)).
  { intros p Hp. apply in_map_iff in Hp. destruct Hp as (I & <- & HI). apply (HS I HI). }
  destruct (k_union A B) as [|[s e] r] eqn:E; [constructor|]. cbn [trim_touches].
  eapply Forall_impl; [|apply trim_go_endpoints]. cbv beta. intros I (H1 & H2).
  split; [apply HSs; exact H1|].
  destruct H2 as [H2|(H2 & H3)]; [left; apply HSe; exact H2|right].
  assert (K1 : In (snd I + us) (ends A) \/ In (snd I + us) (ends B)) by (apply HSe; exact H2).
  assert (K2 : In (snd I + us) (starts A) \/ In (snd I + us) (starts B)) by (apply HSs; right; exact H3).
  unfold touch_point. destruct K1 as [K1|K1]; destruct K2 as [K2|K2].
  - exfalso. exact (canon_end_not_start la A _ Hca K1 K2).
  - left. split; assumption.
  - right. split; assumption.
  - exfalso. exact (canon_end_not_start lb B _ Hcb K1 K2).
Qed.

(* ---- durations through the wrappers: at most 1 us is lost per junction ---- *)
Fixpoint touch_list (ne : Z) (W : iset) : list Z :=
  match W with
  | [] => []
  | (s, e) :: r => (if ne =? s then [s] else []) ++ touch_list e r
  end.

(* the junctions of A and B: the instants where an interval of one ends exactly where an interval of the other starts *)
Definition junction_list (A B : iset) : list Z :=
  filter (fun p => existsb (Z.eqb p) (starts B)) (ends A) ++ filter (fun p => existsb (Z.eqb p) (starts A)) (ends B).

Lemma touch_point_junction p A B : touch_point p A B -> In p (junction_list A B).
Proof.
  unfold touch_point, junction_list. intros [(H1 & H2)|(H1 & H2)]; apply in_or_app; [left|right];
    apply filter_In; (split; [exact H1|]); apply existsb_exists; exists p; (split; [exact H2|apply Z.eqb_refl]).
Qed.

Lemma trim_go_measure : forall W ns ne, weakly_canonical ((ns, ne) :: W) ->
  (ne - ns) + tot_length W - us * Z.of_nat (length (touch_list ne W)) <= tot_length (trim_go ns ne W)
  /\ tot_length (trim_go ns ne W) <= (ne - ns) + tot_length W.
Proof.
  induction W as [|[s e] r IH]; intros ns ne H.
  - simpl in H. cbn [trim_go touch_list tot_length length]. unfold close_pending.
    destruct (Z.ltb_spec ns ne); simpl; lia.
  - assert (H' := H). simpl in H'. destruct H' as (H1 & H2 & H3).
    specialize (IH s e H3). cbn [trim_go touch_list tot_length]. rewrite tot_length_app, app_length.
    unfold close_pending. unfold us in *. destruct (Z.eqb_spec ne s) as [E|N]; cbn [length].
    + destruct (Z.ltb_spec ns (ne - 1000)); simpl tot_length; lia.
    + destruct (Z.ltb_spec ns ne); simpl tot_length; lia.
Qed.

Lemma touch_list_ge : forall W ns ne, weakly_canonical ((ns, ne) :: W) -> Forall (fun p => ne <= p) (touch_list ne W).
Proof.
  induction W as [|[s e] r IH]; intros ns ne H; [constructor|].
  assert (H' := H). simpl in H'. destruct H' as (H1 & H2 & H3). cbn [touch_list].
  assert (s < e) by (simpl in H3; tauto).
  apply Forall_app. split.
  - destruct (ne =? s); constructor; [lia|constructor].
  - eapply Forall_impl; [|apply (IH s e H3)]. cbv beta. intros; lia.
Qed.

Lemma touch_list_NoDup : forall W ns ne, weakly_canonical ((ns, ne) :: W) -> NoDup (touch_list ne W).
Proof.
  induction W as [|[s e] r IH]; intros ns ne H; [constructor|].
  assert (H' := H). simpl in H'. destruct H' as (H1 & H2 & H3). cbn [touch_list].
  assert (s < e) by (simpl in H3; tauto).
  pose proof (touch_list_ge r s e H3) as G. rewrite Forall_forall in G.
  destruct (ne =? s); cbn [app]; [|apply (IH s e H3)].
  constructor; [|apply (IH s e H3)]. intros Hin. specialize (G _ Hin). lia.
Qed.

Lemma touch_list_in : forall W ne p, In p (touch_list ne W) -> In p (ne :: ends W) /\ In p (starts W).
Proof.
  induction W as [|[s e] r IH]; intros ne p H; [destruct H|].
  cbn [touch_list] in H. apply in_app_or in H. cbn [starts ends map]. destruct H as [H|H].
  - destruct (Z.eqb_spec ne s) as [E|N]; [|destruct H]. destruct H as [<-|[]]. split; left; auto.
  - destruct (IH e p H) as (K1 & K2). split; right; [exact K1|exact K2].
Qed.

Lemma wrapper_union_measure A B : canonical A -> canonical B ->
  tot_length A + tot_length B - us * Z.of_nat (length (junction_list A B))
    <= tot_length (iset_union A B) + tot_length (iset_inter A B)
  /\ tot_length (iset_union A B) + tot_length (iset_inter A B) <= tot_length A + tot_length B.
Proof.
  intros Ha Hb. rewrite (iset_union_trim A B Ha Hb), (iset_inter_raw A B Ha Hb).
  pose proof (union_measure A B Ha Hb) as M.
  pose proof (union_raw_wf A B Ha Hb) as Hw.
  pose proof (union_starts_ends A B Ha Hb) as HS. rewrite Forall_forall in HS.
  destruct (canonical_canon A Ha) as [la Hca]. destruct (canonical_canon B Hb) as [lb Hcb].
  assert (HSs : forall p, In p (starts (k_union A B)) -> In p (starts A) \/ In p (starts B)).
  { intros p Hp. apply in_map_iff in Hp. destruct Hp as (I & <- & HI). apply (HS I HI). }
  assert (HSe : forall p, In p (ends (k_union A B)) -> In p (ends A) \/ In p (ends B)).
  { intros p Hp. apply in_map_iff in Hp. destruct Hp as (I & <- & HI). apply (HS I HI). }
  destruct (k_union A B) as [|[s e] r] eqn:E.
  - cbn [trim_touches tot_length] in *. assert (0 <= Z.of_nat (length (junction_list A B))) by lia. unfold us. lia.
  - cbn [trim_touches]. destruct (trim_go_measure r s e Hw) as (L1 & L2). cbn [tot_length] in M.
    assert (Hlen : (length (touch_list e r) <= length (junction_list A B))%nat).
    { apply NoDup_incl_length; [apply (touch_list_NoDup r s e Hw)|].
      intros p Hp. apply touch_point_junction. destruct (touch_list_in r e p Hp) as (K1 & K2).
      assert (K1' : In p (ends A) \/ In p (ends B)) by (apply HSe; exact K1).
      assert (K2' : In p (starts A) \/ In p (starts B)) by (apply HSs; right; exact K2).
      unfold touch_point. destruct K1' as [K1'|K1']; destruct K2' as [K2'|K2'].
      - exfalso. exact (canon_end_not_start la A _ Hca K1' K2').
      - left. split; assumption.
      - right. split; assumption.
      - exfalso. exact (canon_end_not_start lb B _ Hcb K1' K2'). }
    unfold us in *. nia.
Qed.

Lemma wrapper_diff_measure A B : canonical A -> canonical B ->
  tot_length (iset_diff A B) = tot_length A - tot_length (iset_inter A B).
Proof. intros Ha Hb. rewrite (iset_diff_raw A B Ha Hb), (iset_inter_raw A B Ha Hb). apply diff_measure; assumption. Qed.

(* --- what the constructor does to the three raw outputs: nothing to intersect / set_diff, a trim at the touches of union --- *)
Theorem C02_wrappers_raw : forall A B, canonical A -> canonical B ->
  iset_inter A B = k_inter A B /\ iset_diff A B = k_diff A B /\ iset_union A B = trim_touches (k_union A B).
Proof. intros A B Ha Hb. repeat split; [apply iset_inter_raw|apply iset_diff_raw|apply iset_union_trim]; assumption. Qed.
Print Assumptions C02_wrappers_raw.

(* --- endpoints of the public results: every start is a start of an operand; every end is an end of an operand or,
       for union only, a junction (end of one operand = start of the other) minus 1 us --- *)
Theorem C02_endpoints_union_wrapper : forall A B, canonical A -> canonical B ->
  Forall (fun I => (In (fst I) (starts A) \/ In (fst I) (starts B))
                   /\ ((In (snd I) (ends A) \/ In (snd I) (ends B)) \/ touch_point (snd I + us) A B)) (iset_union A B).
Proof. exact wrapper_union_endpoints. Qed.
Print Assumptions C02_endpoints_union_wrapper.

Theorem C02_endpoints_inter_diff_wrappers : forall A B, canonical A -> canonical B ->
  Forall (fun I => (InterDiffProofs.endpoint (fst I) A \/ InterDiffProofs.endpoint (fst I) B)
                   /\ (InterDiffProofs.endpoint (snd I) A \/ InterDiffProofs.endpoint (snd I) B)) (iset_inter A B)
  /\ Forall (fun I => (InterDiffProofs.endpoint (fst I) A \/ InterDiffProofs.endpoint (fst I) B)
                      /\ (InterDiffProofs.endpoint (snd I) A \/ InterDiffProofs.endpoint (snd I) B)) (iset_diff A B).
Proof.
  intros A B Ha Hb. rewrite (iset_inter_raw A B Ha Hb), (iset_diff_raw A B Ha Hb).
  destruct (inter_endpoints A B) as [I1 I2]. destruct (diff_endpoints A B) as [D1 D2].
  rewrite Forall_forall in I1, I2, D1, D2.
  split; apply Forall_forall; intros I HI; split; auto.
Qed.
Print Assumptions C02_endpoints_inter_diff_wrappers.

(* --- commutativity at list level: kernel and public results --- *)
Theorem C02_union_comm_list : forall A B, canonical A -> canonical B -> k_union A B = k_union B A.
Proof. exact union_comm. Qed.
Print Assumptions C02_union_comm_list.

Theorem C02_wrappers_comm : forall A B, canonical A -> canonical B ->
  iset_union A B = iset_union B A /\ iset_inter A B = iset_inter B A.
Proof.
  intros A B Ha Hb. unfold iset_union, iset_inter.
  rewrite (union_comm A B Ha Hb), (inter_comm A B Ha Hb). split; reflexivity.
Qed.
Print Assumptions C02_wrappers_comm.

(* --- idempotent / absorbing, public results, both operand orders --- *)
Theorem C02_wrappers_idempotent_absorbing : forall A, canonical A ->
  iset_inter A A = A /\ iset_union A A = A /\ iset_diff A A = []
  /\ iset_union A [] = A /\ iset_union [] A = A /\ iset_inter A [] = [] /\ iset_inter [] A = []
  /\ iset_diff A [] = A /\ iset_diff [] A = [].
Proof.
  intros A Ha. unfold iset_inter, iset_union, iset_diff.
  rewrite (inter_idem A Ha), (union_idem A Ha), (diff_self A Ha), (diff_empty_r A),
          (proj1 (union_empty A)), (proj2 (union_empty A)), (proj1 (inter_empty A)), (proj2 (inter_empty A)), (diff_empty A).
  rewrite (mk_iset_canonical_id A Ha). repeat split; reflexivity.
Qed.
Print Assumptions C02_wrappers_idempotent_absorbing.

(* --- durations of the public results: exact for set_diff; for union at most 1 us is lost per junction of A and B
       (junction_list: the ends of one operand that are starts of the other) and nothing is gained --- *)
Theorem C02_union_measure_wrapper : forall A B, canonical A -> canonical B ->
  tot_length A + tot_length B - us * Z.of_nat (length (junction_list A B))
    <= tot_length (iset_union A B) + tot_length (iset_inter A B)
  /\ tot_length (iset_union A B) + tot_length (iset_inter A B) <= tot_length A + tot_length B.
Proof. exact wrapper_union_measure. Qed.
Print Assumptions C02_union_measure_wrapper.

Theorem C02_diff_measure_wrapper : forall A B, canonical A -> canonical B ->
  tot_length (iset_diff A B) = tot_length A - tot_length (iset_inter A B).
Proof. exact wrapper_diff_measure. Qed.
Print Assumptions C02_diff_measure_wrapper.

(* the 1 us per junction is really lost: two touching operands *)
Example C02_union_measure_wrapper_tight :
  iset_union [(0, 5000)] [(5000, 9000)] = [(0, 4000); (5000, 9000)] /\ junction_list [(0, 5000)] [(5000, 9000)] = [5000].
Proof. vm_compute. split; reflexivity. Qed.

Example C02_nonvacuous :
  canonical [(0, 10); (20, 30)] /\ canonical [(5, 25); (30, 40)]
  /\ k_union [(0, 10); (20, 30)] [(5, 25); (30, 40)] = [(0, 40)]
  /\ k_inter [(0, 10); (20, 30)] [(5, 25); (30, 40)] = [(5, 10); (20, 25)]
  /\ k_diff [(0, 10); (20, 30)] [(5, 25); (30, 40)] = [(0, 5); (25, 30)].
Proof. vm_compute. intuition congruence. Qed.


(* ====================================================================================================
   Boolean-algebra laws of the COMPOSED kernels (one kernel's raw output re-entering another), pointwise,
   for every instant that is not an endpoint of an operand.  Each is a corollary of the three membership
   theorems and of the canonicity of the raw intersect / set_diff outputs; they are what a user relies on
   when chaining set operations (epochs.intersect(a).set_diff(b) ...). *)

Definition no_endpoint (x : Z) (A : iset) : Prop := ~ InterDiffProofs.endpoint x A.

Lemma touch_endpoint_l x A B : touch_point x A B -> InterDiffProofs.endpoint x A.
Proof. unfold touch_point, InterDiffProofs.endpoint. tauto. Qed.
Lemma touch_endpoint_r x A B : touch_point x A B -> InterDiffProofs.endpoint x B.
Proof. unfold touch_point, InterDiffProofs.endpoint. tauto. Qed.

Lemma alg_partition A B x : canonical A -> canonical B -> no_endpoint x B ->
  mem x (k_inter A B) || mem x (k_diff A B) = mem x A
  /\ mem x (k_inter A B) && mem x (k_diff A B) = false.
Proof.
  intros Ha Hb Hx.
  rewrite (inter_mem A B x Ha Hb) by (intro T; apply Hx; eapply touch_endpoint_r; exact T).
  rewrite (diff_mem A B x Ha Hb Hx).
  destruct (mem x A), (mem x B); split; reflexivity.
Qed.

Lemma alg_inter_assoc A B C x : canonical A -> canonical B -> canonical C ->
  no_endpoint x A -> no_endpoint x B -> no_endpoint x C ->
  mem x (k_inter (k_inter A B) C) = mem x (k_inter A (k_inter B C))
  /\ mem x (k_inter (k_inter A B) C) = mem x A && mem x B && mem x C.
Proof.
  intros Ha Hb Hc Xa Xb Xc.
  pose proof (inter_raw_canonical A B Ha Hb) as Hab. pose proof (inter_raw_canonical B C Hb Hc) as Hbc.
  rewrite (inter_mem (k_inter A B) C x Hab Hc) by (intro T; apply Xc; eapply touch_endpoint_r; exact T).
  rewrite (inter_mem A (k_inter B C) x Ha Hbc) by (intro T; apply Xa; eapply touch_endpoint_l; exact T).
  rewrite (inter_mem A B x Ha Hb) by (intro T; apply Xa; eapply touch_endpoint_l; exact T).
  rewrite (inter_mem B C x Hb Hc) by (intro T; apply Xb; eapply touch_endpoint_l; exact T).
  destruct (mem x A), (mem x B), (mem x C); split; reflexivity.
Qed.

Lemma alg_diff_diff A B C x : canonical A -> canonical B -> canonical C ->
  no_endpoint x B -> no_endpoint x C ->
  mem x (k_diff (k_diff A B) C) = mem x A && negb (mem x B || mem x C)
  /\ mem x (k_diff (k_diff A B) C) = mem x (k_diff (k_diff A C) B).
Proof.
  intros Ha Hb Hc Xb Xc.
  pose proof (diff_raw_canonical A B Ha Hb) as Hab. pose proof (diff_raw_canonical A C Ha Hc) as Hac.
  rewrite (diff_mem (k_diff A B) C x Hab Hc Xc), (diff_mem A B x Ha Hb Xb).
  rewrite (diff_mem (k_diff A C) B x Hac Hb Xb), (diff_mem A C x Ha Hc Xc).
  destruct (mem x A), (mem x B), (mem x C); split; reflexivity.
Qed.

Lemma alg_distrib A B C x : canonical A -> canonical B -> canonical C ->
  no_endpoint x A -> no_endpoint x B -> no_endpoint x C ->
  mem x (k_union (k_inter A B) (k_inter A C)) = mem x A && (mem x B || mem x C).
Proof.
  intros Ha Hb Hc Xa Xb Xc.
  rewrite (union_mem _ _ x (inter_raw_canonical A B Ha Hb) (inter_raw_canonical A C Ha Hc)).
  rewrite (inter_mem A B x Ha Hb) by (intro T; apply Xa; eapply touch_endpoint_l; exact T).
  rewrite (inter_mem A C x Ha Hc) by (intro T; apply Xa; eapply touch_endpoint_l; exact T).
  destruct (mem x A), (mem x B), (mem x C); reflexivity.
Qed.

Lemma alg_union_diff A B x : canonical A -> canonical B -> no_endpoint x A ->
  mem x (k_union A (k_diff B A)) = mem x A || mem x B.
Proof.
  intros Ha Hb Xa.
  rewrite (union_mem _ _ x Ha (diff_raw_canonical B A Hb Ha)), (diff_mem B A x Hb Ha Xa).
  destruct (mem x A), (mem x B); reflexivity.
Qed.

Lemma alg_symdiff A B x : canonical A -> canonical B -> no_endpoint x A -> no_endpoint x B ->
  mem x (k_union (k_diff A B) (k_diff B A)) = xorb (mem x A) (mem x B).
Proof.
  intros Ha Hb Xa Xb.
  rewrite (union_mem _ _ x (diff_raw_canonical A B Ha Hb) (diff_raw_canonical B A Hb Ha)).
  rewrite (diff_mem A B x Ha Hb Xb), (diff_mem B A x Hb Ha Xa).
  destruct (mem x A), (mem x B); reflexivity.
Qed.

Lemma alg_diff_inter_disjoint A B x : canonical A -> canonical B -> no_endpoint x B ->
  mem x (k_inter (k_diff A B) B) = false /\ mem x (k_diff (k_inter A B) B) = false.
Proof.
  intros Ha Hb Xb. split.
  - rewrite (inter_mem _ B x (diff_raw_canonical A B Ha Hb) Hb) by (intro T; apply Xb; eapply touch_endpoint_r; exact T).
    rewrite (diff_mem A B x Ha Hb Xb). destruct (mem x A), (mem x B); reflexivity.
  - rewrite (diff_mem _ B x (inter_raw_canonical A B Ha Hb) Hb Xb).
    rewrite (inter_mem A B x Ha Hb) by (intro T; apply Xb; eapply touch_endpoint_r; exact T).
    destruct (mem x A), (mem x B); reflexivity.
Qed.

Lemma alg_absorption A B x : canonical A -> canonical B -> no_endpoint x A ->
  mem x (k_union A (k_inter A B)) = mem x A.
Proof.
  intros Ha Hb Xa.
  rewrite (union_mem _ _ x Ha (inter_raw_canonical A B Ha Hb)).
  rewrite (inter_mem A B x Ha Hb) by (intro T; apply Xa; eapply touch_endpoint_l; exact T).
  destruct (mem x A), (mem x B); reflexivity.
Qed.

Example alg_nonvacuous :
  canonical [(0, 10); (20, 30)] /\ canonical [(5, 25)] /\ canonical [(8, 22)]
  /\ no_endpoint 9 [(0, 10); (20, 30)] /\ no_endpoint 9 [(5, 25)] /\ no_endpoint 9 [(8, 22)]
  /\ k_inter (k_inter [(0, 10); (20, 30)] [(5, 25)]) [(8, 22)] = [(8, 10); (20, 22)]
  /\ k_diff (k_diff [(0, 10); (20, 30)] [(8, 22)]) [(5, 25)] = [(0, 5); (25, 30)]
  /\ k_union (k_diff [(0, 10); (20, 30)] [(5, 25)]) (k_diff [(5, 25)] [(0, 10); (20, 30)]) = [(0, 5); (10, 20); (25, 30)].
Proof.
  vm_compute. repeat split; try reflexivity; try tauto; intros [H|H]; simpl in H; intuition congruence.
Qed.

(* --- the composed-kernel laws as property theorems --- *)
Theorem C02_alg_partition : forall A B x, canonical A -> canonical B -> no_endpoint x B ->
  mem x (k_inter A B) || mem x (k_diff A B) = mem x A /\ mem x (k_inter A B) && mem x (k_diff A B) = false.
Proof. exact alg_partition. Qed.
Print Assumptions C02_alg_partition.

Theorem C02_alg_inter_assoc : forall A B C x, canonical A -> canonical B -> canonical C ->
  no_endpoint x A -> no_endpoint x B -> no_endpoint x C ->
  mem x (k_inter (k_inter A B) C) = mem x (k_inter A (k_inter B C))
  /\ mem x (k_inter (k_inter A B) C) = mem x A && mem x B && mem x C.
Proof. exact alg_inter_assoc. Qed.
Print Assumptions C02_alg_inter_assoc.

Theorem C02_alg_diff_diff : forall A B C x, canonical A -> canonical B -> canonical C -> no_endpoint x B -> no_endpoint x C ->
  mem x (k_diff (k_diff A B) C) = mem x A && negb (mem x B || mem x C)
  /\ mem x (k_diff (k_diff A B) C) = mem x (k_diff (k_diff A C) B).
Proof. exact alg_diff_diff. Qed.
Print Assumptions C02_alg_diff_diff.

Theorem C02_alg_distrib : forall A B C x, canonical A -> canonical B -> canonical C ->
  no_endpoint x A -> no_endpoint x B -> no_endpoint x C ->
  mem x (k_union (k_inter A B) (k_inter A C)) = mem x A && (mem x B || mem x C).
Proof. exact alg_distrib. Qed.
Print Assumptions C02_alg_distrib.

Theorem C02_alg_union_diff : forall A B x, canonical A -> canonical B -> no_endpoint x A ->
  mem x (k_union A (k_diff B A)) = mem x A || mem x B.
Proof. exact alg_union_diff. Qed.
Print Assumptions C02_alg_union_diff.

Theorem C02_alg_symdiff : forall A B x, canonical A -> canonical B -> no_endpoint x A -> no_endpoint x B ->
  mem x (k_union (k_diff A B) (k_diff B A)) = xorb (mem x A) (mem x B).
Proof. exact alg_symdiff. Qed.
Print Assumptions C02_alg_symdiff.

Theorem C02_alg_diff_inter_disjoint : forall A B x, canonical A -> canonical B -> no_endpoint x B ->
  mem x (k_inter (k_diff A B) B) = false /\ mem x (k_diff (k_inter A B) B) = false.
Proof. exact alg_diff_inter_disjoint. Qed.
Print Assumptions C02_alg_diff_inter_disjoint.

Theorem C02_alg_absorption : forall A B x, canonical A -> canonical B -> no_endpoint x A ->
  mem x (k_union A (k_inter A B)) = mem x A.
Proof. exact alg_absorption. Qed.
Print Assumptions C02_alg_absorption.
