(* C02 — union / intersect / set_diff are the Boolean set operations on the time line.
   Statements only; proofs in Proofs/InterDiffProofs.v, UnionProofs.v, C02Top.v. *)
From Verif Require Import Base.Prelude Model.Iset Proofs.InterDiffProofs Proofs.UnionProofs Proofs.C02Top Proofs.MeasureProofs.

(* --- the property's own quantifier: public results (kernel + constructor), every instant farther
       than 1 us from every endpoint of A and B --- *)
Theorem C02_union : forall A B x, canonical A -> canonical B -> far x A B ->
  mem x (iset_union A B) = mem x A || mem x B.
Proof. exact wrapper_union_mem. Qed.
Print Assumptions C02_union.

Theorem C02_intersect : forall A B x, canonical A -> canonical B -> far x A B ->
  mem x (iset_inter A B) = mem x A && mem x B.
Proof. exact wrapper_inter_mem. Qed.
Print Assumptions C02_intersect.

Theorem C02_set_diff : forall A B x, canonical A -> canonical B -> far x A B ->
  mem x (iset_diff A B) = mem x A && negb (mem x B).
Proof. exact wrapper_diff_mem. Qed.
Print Assumptions C02_set_diff.

(* --- sharper kernel-level statements: exact for all x but the named exceptions --- *)
Theorem C02_union_kernel_exact : forall A B x, canonical A -> canonical B ->
  mem x (k_union A B) = mem x A || mem x B.
Proof. exact union_mem. Qed.
Print Assumptions C02_union_kernel_exact.

Theorem C02_intersect_kernel : forall A B x, canonical A -> canonical B -> ~ touch_point x A B ->
  mem x (k_inter A B) = mem x A && mem x B.
Proof. exact inter_mem. Qed.
Print Assumptions C02_intersect_kernel.

Theorem C02_diff_kernel : forall A B x, canonical A -> canonical B -> ~ InterDiffProofs.endpoint x B ->
  mem x (k_diff A B) = mem x A && negb (mem x B).
Proof. exact diff_mem. Qed.
Print Assumptions C02_diff_kernel.

(* --- every endpoint of a result is an endpoint of an operand --- *)
Theorem C02_endpoints_union : forall A B, canonical A -> canonical B ->
  Forall (fun I => (In (fst I) (starts A) \/ In (fst I) (starts B))
                   /\ (In (snd I) (ends A) \/ In (snd I) (ends B))) (k_union A B).
Proof. exact union_starts_ends. Qed.
Print Assumptions C02_endpoints_union.

Theorem C02_endpoints_inter : forall A B,
  Forall (fun I => InterDiffProofs.endpoint (fst I) A \/ InterDiffProofs.endpoint (fst I) B) (k_inter A B)
  /\ Forall (fun I => InterDiffProofs.endpoint (snd I) A \/ InterDiffProofs.endpoint (snd I) B) (k_inter A B).
Proof. exact inter_endpoints. Qed.
Print Assumptions C02_endpoints_inter.

Theorem C02_endpoints_diff : forall A B,
  Forall (fun I => InterDiffProofs.endpoint (fst I) A \/ InterDiffProofs.endpoint (fst I) B) (k_diff A B)
  /\ Forall (fun I => InterDiffProofs.endpoint (snd I) A \/ InterDiffProofs.endpoint (snd I) B) (k_diff A B).
Proof. exact diff_endpoints. Qed.
Print Assumptions C02_endpoints_diff.

(* --- raw kernel outputs are well formed, so the constructor only trims at touches --- *)
Theorem C02_raw_wf : forall A B, canonical A -> canonical B ->
  canonical (k_inter A B) /\ canonical (k_diff A B) /\ weakly_canonical (k_union A B).
Proof. intros A B Ha Hb. split; [exact (inter_raw_canonical A B Ha Hb)|split; [exact (diff_raw_canonical A B Ha Hb)|exact (union_raw_wf A B Ha Hb)]]. Qed.
Print Assumptions C02_raw_wf.

(* --- algebra on membership; n-ary union (TsGroup supports) --- *)
Theorem C02_union_comm : forall A B x, canonical A -> canonical B -> mem x (k_union A B) = mem x (k_union B A).
Proof. exact union_comm_mem. Qed.
Print Assumptions C02_union_comm.

Theorem C02_union_idem : forall A x, canonical A -> mem x (k_union A A) = mem x A.
Proof. exact union_idem_mem. Qed.
Print Assumptions C02_union_idem.

Theorem C02_union_n : forall l x, Forall (fun I => fst I < snd I) l -> mem x (k_union_n l) = mem x l.
Proof. exact union_n_mem. Qed.
Print Assumptions C02_union_n.

Theorem C02_union_n_canonical : forall l, Forall (fun I => fst I < snd I) l -> canonical (k_union_n l).
Proof. exact union_n_canonical. Qed.
Print Assumptions C02_union_n_canonical.

(* --- durations (exact on the raw kernels; the constructor then removes at most 1 us per touch) --- *)
Theorem C02_union_measure : forall A B, canonical A -> canonical B ->
  tot_length (k_union A B) + tot_length (k_inter A B) = tot_length A + tot_length B.
Proof. exact union_measure. Qed.
Print Assumptions C02_union_measure.

Theorem C02_diff_measure : forall A B, canonical A -> canonical B ->
  tot_length (k_diff A B) = tot_length A - tot_length (k_inter A B).
Proof. exact diff_measure. Qed.
Print Assumptions C02_diff_measure.

(* --- list-level algebra --- *)
Theorem C02_inter_comm : forall A B, canonical A -> canonical B -> k_inter A B = k_inter B A.
Proof. exact inter_comm. Qed.
Print Assumptions C02_inter_comm.

Theorem C02_idempotent_absorbing : forall A, canonical A ->
  k_inter A A = A /\ k_union A A = A /\ k_diff A A = [] /\ k_diff A [] = A /\ k_union A [] = A /\ k_union [] A = A.
Proof.
  intros A Ha. repeat split; [exact (inter_idem A Ha)|exact (union_idem A Ha)|exact (diff_self A Ha)|exact (diff_empty_r A)
                             |exact (proj1 (union_empty A))|exact (proj2 (union_empty A))].
Qed.
Print Assumptions C02_idempotent_absorbing.

Example C02_nonvacuous :
  canonical [(0, 10); (20, 30)] /\ canonical [(5, 25); (30, 40)]
  /\ k_union [(0, 10); (20, 30)] [(5, 25); (30, 40)] = [(0, 40)]
  /\ k_inter [(0, 10); (20, 30)] [(5, 25); (30, 40)] = [(5, 10); (20, 25)]
  /\ k_diff [(0, 10); (20, 30)] [(5, 25); (30, 40)] = [(0, 5); (25, 30)].
Proof. vm_compute. intuition congruence. Qed.
