(* C07 — threshold and dropna keep the right samples and a support that separates them.
   Statements only; proofs in Proofs/ThresholdProofs.v.  A series is a list of (time, kept?) pairs;
   threshold_support is in DOUBLED ticks (a midpoint (x+y)/2 is stored as x+y).
   Hypotheses: the old support is canonical, timestamps strictly increase, every sample lies in its support.
   Sections 1-6: statements only.  Sections 7-9 (added by the audit of the hypotheses) carry their proofs, because
   Proofs/ThresholdProofs.v is shared with C04:
     7. what happens WITHOUT `strictly increasing` (duplicate timestamps): refutation witnesses;
     8. what happens to a boundary on a half tick (neighbours 1 tick apart) when it is rounded to a whole tick: refutation witness;
     9. dropna under the EXACT hypothesis (only a lone kept row needs more than 1 us to the next row), and its converse. *)
From Verif Require Import Base.Prelude Model.Threshold Proofs.BaseLemmas Proofs.ThresholdProofs.
From Coq Require Import ZifyBool.

Definition H (ep : iset) (l : list (Z * bool)) : Prop :=
  canonical ep /\ strictly_increasing (map fst l) /\ Forall (fun x => mem x ep = true) (map fst l).

(* 1. the new support contains every kept sample and no rejected sample ... *)
Theorem C07_contains_kept : forall ep l, H ep l ->
  Forall (fun x => mem (2 * x) (threshold_support ep l) = true) (kept_times l).
Proof. intros ep l (H1 & H2 & H3). exact (thr_contains_kept ep l H1 H2 H3). Qed.
Print Assumptions C07_contains_kept.

Theorem C07_excludes_rejected : forall ep l, H ep l ->
  Forall (fun p => snd p = false -> mem (2 * fst p) (threshold_support ep l) = false) l.
Proof. intros ep l (H1 & H2 & H3). exact (thr_excludes_rejected ep l H1 H2 H3). Qed.
Print Assumptions C07_excludes_rejected.

(* 2. ... so restricting the original series to it reproduces the result *)
Theorem C07_restrict_reproduces : forall ep l, H ep l ->
  filter (fun x => mem (2 * x) (threshold_support ep l)) (map fst l) = kept_times l.
Proof. intros ep l (H1 & H2 & H3). exact (thr_restrict_reproduces ep l H1 H2 H3). Qed.
Print Assumptions C07_restrict_reproduces.

(* 3. the new support is canonical and lies inside the old one: no interval extends beyond, or
      bridges the gap between, intervals of the original support *)
Theorem C07_canonical : forall ep l, H ep l -> canonical (threshold_support ep l).
Proof. intros ep l (H1 & H2 & H3). exact (thr_support_canonical ep l H1 H2 H3). Qed.
Print Assumptions C07_canonical.

Theorem C07_inside_old : forall ep l, H ep l ->
  Forall (fun iv => exists old, In old ep /\ 2 * fst old <= fst iv /\ snd iv <= 2 * snd old) (threshold_support ep l).
Proof. intros ep l (H1 & H2 & H3). exact (thr_inside_old ep l H1 H2 H3). Qed.
Print Assumptions C07_inside_old.

(* 4. a boundary between a kept and a rejected neighbour of the same interval is their midpoint *)
Theorem C07_midpoint_end : forall ep l, H ep l ->
  forall pre x y post, l = pre ++ (x, true) :: (y, false) :: post ->
  (exists iv, In iv ep /\ inb x iv = true /\ inb y iv = true) ->
  In (x + y) (map snd (threshold_support ep l)).
Proof. intros ep l (H1 & H2 & H3). exact (thr_midpoint_end ep l H1 H2 H3). Qed.
Print Assumptions C07_midpoint_end.

Theorem C07_midpoint_start : forall ep l, H ep l ->
  forall pre x y post, l = pre ++ (x, false) :: (y, true) :: post ->
  (exists iv, In iv ep /\ inb x iv = true /\ inb y iv = true) ->
  In (x + y) (map fst (threshold_support ep l)).
Proof. intros ep l (H1 & H2 & H3). exact (thr_midpoint_start ep l H1 H2 H3). Qed.
Print Assumptions C07_midpoint_start.

(* 5. dropna: when consecutive samples are more than 1 us apart the support of the result contains
      every kept row and no rejected row, and is canonical *)
Theorem C07_dropna : forall l, spaced (map fst l) ->
  Forall (fun x => mem x (dropna_support l) = true) (kept_times l)
  /\ Forall (fun p => snd p = false -> mem (fst p) (dropna_support l) = false) l
  /\ canonical (dropna_support l).
Proof. intros l Hs. repeat split; [exact (dropna_contains_kept l Hs)|exact (dropna_excludes_rejected l Hs)|exact (dropna_canonical l Hs)]. Qed.
Print Assumptions C07_dropna.

(* 6. without the spacing hypothesis the dropna claim is FALSE of the faithful model (known finding):
      a kept singleton is widened by 1 us and swallows a rejected sample closer than that *)
Theorem C07_dropna_refuted_when_close :
  exists l, strictly_increasing (map fst l) /\
    ~ Forall (fun p => snd p = false -> mem (fst p) (dropna_support l) = false) l.
Proof. exact dropna_refuted_when_close. Qed.
Print Assumptions C07_dropna_refuted_when_close.

Example C07_nonvacuous :
  H [(0, 100); (200, 300); (400, 500)] [(5, true); (210, false); (250, true); (260, true); (270, false); (410, false); (420, true)]
  /\ threshold_support [(0, 100); (200, 300); (400, 500)]
       [(5, true); (210, false); (250, true); (260, true); (270, false); (410, false); (420, true)]
     = [(0, 200); (460, 530); (830, 840)].
Proof. split; [|vm_compute; reflexivity]. unfold H. split; [simpl; lia|]. split; [simpl; lia|]. repeat constructor. Qed.

(* ------------------------------------------------------------------------------------------------------------------ *)
(* 7. H asks for STRICTLY increasing timestamps; a Tsd may repeat a timestamp.  With sorted-but-repeated timestamps the
      claims 1 and 3 are false of the faithful model:
      (a) kept samples that all share one timestamp and are alone in their interval give the zero-length raw interval
          [t, t]; the result is not canonical, the IntervalSet constructor drops the interval and the kept samples are lost
          (harness key all_samples_of_interval_coincide; repaired by the proposed kernel patch);
      (b) a kept and a rejected sample at one timestamp: the support contains the rejected one - and no support at all can
          separate them (C07_shared_time_inseparable), so the statement itself cannot hold there
          (harness key within_1us_of_time_shared_by_kept_and_rejected). *)
Fixpoint nondecreasing (l : list Z) : Prop :=
  match l with [] => True | x :: r => match r with [] => True | y :: _ => x <= y end /\ nondecreasing r end.
Definition Hdup (ep : iset) (l : list (Z * bool)) : Prop :=
  canonical ep /\ nondecreasing (map fst l) /\ Forall (fun x => mem x ep = true) (map fst l).

Theorem C07_contains_kept_refuted_with_duplicates :
  exists ep l, Hdup ep l /\ Forall (fun p => snd p = true) l /\
    threshold_support ep l = [(10, 10)] /\ ~ canonical (threshold_support ep l).
Proof.
  exists [(0, 10)], [(5, true); (5, true)]. split; [|split; [|split]].
  - unfold Hdup. split; [simpl; lia|]. split; [simpl; lia|]. repeat constructor.
  - repeat constructor.
  - vm_compute. reflexivity.
  - replace (threshold_support [(0, 10)] [(5, true); (5, true)]) with [(10, 10)] by (vm_compute; reflexivity).
    simpl. lia.
Qed.
Print Assumptions C07_contains_kept_refuted_with_duplicates.

Theorem C07_excludes_rejected_refuted_with_shared_time :
  exists ep l, Hdup ep l /\
    ~ Forall (fun p => snd p = false -> mem (2 * fst p) (threshold_support ep l) = false) l.
Proof.
  exists [(0, 3)], [(0, false); (1, true); (1, false); (2, true)]. split.
  - unfold Hdup. split; [simpl; lia|]. split; [simpl; lia|]. repeat constructor.
  - intros HF. inversion HF as [|? ? _ H2]; subst. inversion H2 as [|? ? _ H3]; subst.
    inversion H3 as [|? ? H4 _]; subst. specialize (H4 eq_refl). vm_compute in H4. discriminate.
Qed.
Print Assumptions C07_excludes_rejected_refuted_with_shared_time.

Theorem C07_shared_time_inseparable : forall (S : iset) (x : Z),
  ~ (mem x S = true /\ mem x S = false).
Proof. intros S x [H1 H2]. rewrite H1 in H2. discriminate. Qed.
Print Assumptions C07_shared_time_inseparable.

(* 8. The model works in doubled ticks; the IntervalSet constructor rounds every bound to a whole tick (1 ns).  Under H a
      boundary between neighbours 1 tick apart sits on a half tick next to both samples: however it is rounded, the interval
      either has zero length (the kept sample is lost) or contains the rejected sample
      (harness key within_1us_of_kept_rejected_pair_1ns_apart). *)
Theorem C07_one_tick_neighbours_refuted :
  exists ep l, canonical ep /\ strictly_increasing (map fst l) /\ Forall (fun x => mem x ep = true) (map fst l) /\
    threshold_support ep l = [(0, 1)] /\
    forall s e, Z.abs (2 * s - 0) <= 1 -> Z.abs (2 * e - 1) <= 1 ->
      ~ (s < e /\ (s <= 0 <= e) /\ ~ (s <= 1 <= e)).
Proof.
  exists [(0, 10)], [(0, true); (1, false)]. split; [simpl; lia|]. split; [simpl; lia|].
  split; [repeat constructor|]. split; [vm_compute; reflexivity|]. intros s e Hs He. lia.
Qed.
Print Assumptions C07_one_tick_neighbours_refuted.

(* 9. dropna under the exact hypothesis.  `spaced` (section 5) asks EVERY pair of consecutive rows to be more than 1 us apart;
      what is needed - and, by the converse, necessary - is only that a kept row standing alone between rejected rows (the
      only kind of run that is widened by 1 us) is more than 1 us before the next row. *)
(* a kept row that stands alone (the row before it, if any, and the row after it are rejected) is more than 1 us before the next row *)
Fixpoint lone_ok (pk : bool) (l : list (Z * bool)) : Prop :=
  match l with
  | [] => True
  | (x, kx) :: r =>
      match r with
      | (y, ky) :: _ => kx = true -> pk = false -> ky = false -> x + us < y
      | [] => True
      end /\ lone_ok kx r
  end.

Definition isSome {A} (o : option A) : bool := match o with Some _ => true | None => false end.

Definition cur_ok2 (cur : option (Z * Z)) (l : list (Z * bool)) : Prop :=
  match cur with
  | None => True
  | Some (a, b) => a <= b /\ match l with [] => True | (x, kx) :: _ => b < x /\ (a = b -> kx = false -> b + us < x) end
  end.

Lemma si_cons x kx (r : list (Z * bool)) : strictly_increasing (map fst ((x, kx) :: r)) ->
  match r with [] => True | (y, _) :: _ => x < y end /\ strictly_increasing (map fst r).
Proof. cbn [map fst]. intros [H1 H2]. split; [|exact H2]. destruct r as [|[y ky] r']; [exact I|exact H1]. Qed.

Lemma step_kept cur x (r : list (Z * bool)) :
  match r with [] => True | (y, _) :: _ => x < y end ->
  lone_ok (isSome cur) ((x, true) :: r) -> cur_ok2 cur ((x, true) :: r) ->
  let a' := match cur with Some (a, _) => a | None => x end in
  a' <= x /\ cur_ok2 (Some (a', x)) r /\ lone_ok true r.
Proof.
  intros Hxy [Hl1 Hl2] Hc a'. assert (Ha : a' <= x /\ (a' = x -> cur = None)).
  { subst a'. destruct cur as [[a b]|]; [|split; [lia|reflexivity]]. destruct Hc as [Hab [Hb _]]. split; [lia|intros; lia]. }
  destruct Ha as [Ha Hn]. split; [exact Ha|]. split; [|exact Hl2].
  simpl. split; [exact Ha|]. destruct r as [|[y ky] r']; [exact I|]. split; [exact Hxy|].
  intros E Hk. rewrite (Hn E) in Hl1. apply Hl1; auto.
Qed.

Lemma closed_below a b x (r : list (Z * bool)) : cur_ok2 (Some (a, b)) ((x, false) :: r) -> a < widen a b /\ widen a b < x.
Proof.
  intros [Hab [Hb Hs]]. pose proof (widen_bounds a b Hab) as Hw. split; [lia|].
  unfold widen in *. destruct (a =? b) eqn:E; [|lia]. apply Hs; [lia|reflexivity].
Qed.

Lemma runs_canon2 l : forall cur lo,
  strictly_increasing (map fst l) -> lone_ok (isSome cur) l -> cur_ok2 cur l ->
  match cur with
  | Some (a, _) => lo < a
  | None => match l with [] => True | (x, _) :: _ => lo < x end
  end ->
  canon lo (runs_go cur l).
Proof.
  induction l as [|[x kx] r IH]; intros cur lo Hs Hl Hc Hlo.
  - rewrite runs_go_nil. destruct cur as [[a b]|]; simpl; [|auto].
    destruct Hc as [Hab _]. pose proof (widen_bounds a b Hab). lia.
  - rewrite runs_go_cons. destruct (si_cons _ _ _ Hs) as [Hxy Hs']. destruct kx.
    + destruct (step_kept cur x r Hxy Hl Hc) as (Ha & Hc' & Hl').
      apply IH; [assumption|exact Hl'|exact Hc'|]. destruct cur as [[a b]|]; exact Hlo.
    + destruct Hl as [_ Hl']. destruct cur as [[a b]|].
      * destruct (closed_below a b x r Hc) as [Hw1 Hw2]. simpl. split; [exact Hlo|]. split; [exact Hw1|].
        apply IH; [assumption|exact Hl'|exact I|]. destruct r as [|[y ky] r']; [exact I|]. lia.
      * apply IH; [assumption|exact Hl'|exact I|]. destruct r as [|[y ky] r']; [exact I|]. lia.
Qed.

Lemma runs_contains_kept2 l : forall cur,
  strictly_increasing (map fst l) -> lone_ok (isSome cur) l -> cur_ok2 cur l ->
  Forall (fun x => mem x (runs_go cur l) = true) (kept_times l).
Proof.
  unfold kept_times.
  induction l as [|[x kx] r IH]; intros cur Hs Hl Hc; [constructor|].
  rewrite runs_go_cons. destruct (si_cons _ _ _ Hs) as [Hxy Hs'].
  cbn [filter snd]. destruct kx; cbn [map fst].
  - destruct (step_kept cur x r Hxy Hl Hc) as (Ha & Hc' & Hl'). constructor.
    + apply runs_mem_open; [assumption| |lia]. destruct r as [|[y ky] r']; [exact I|exact Hxy].
    + apply IH; assumption.
  - destruct Hl as [_ Hl']. destruct cur as [[a b]|].
    + eapply Forall_impl'; [|apply (IH None Hs' Hl' I)].
      intros z Hz. rewrite mem_cons, Hz. apply orb_true_r.
    + apply IH; [assumption|exact Hl'|exact I].
Qed.

Lemma runs_excludes_rejected2 l : forall cur,
  strictly_increasing (map fst l) -> lone_ok (isSome cur) l -> cur_ok2 cur l ->
  Forall (fun p => snd p = false -> mem (fst p) (runs_go cur l) = false) l.
Proof.
  induction l as [|[x kx] r IH]; intros cur Hs Hl Hc; [constructor|].
  rewrite runs_go_cons. destruct (si_cons _ _ _ Hs) as [Hxy Hs'].
  pose proof (si_Forall _ _ Hs) as Hall.
  destruct kx.
  - destruct (step_kept cur x r Hxy Hl Hc) as (Ha & Hc' & Hl').
    constructor; [simpl; discriminate|]. apply IH; assumption.
  - destruct Hl as [_ Hl'].
    assert (Hcanon : canon x (runs_go None r)).
    { apply runs_canon2; [assumption|exact Hl'|exact I|]. destruct r as [|[y ky] r']; [exact I|exact Hxy]. }
    destruct cur as [[a b]|].
    + destruct (closed_below a b x r Hc) as [Hw1 Hw2].
      constructor.
      * intros _. cbn [fst]. rewrite mem_cons.
        rewrite (mem_below _ x x Hcanon) by lia. unfold inb; simpl. lia.
      * pose proof (IH None Hs' Hl' I) as HI.
        rewrite Forall_forall in HI |- *. intros [z kz] Hin Hk.
        rewrite mem_cons, (HI _ Hin Hk). cbn [fst].
        rewrite Forall_forall in Hall.
        assert (x < z) by (apply Hall; apply in_map_iff; exists (z, kz); auto).
        unfold inb; simpl. lia.
    + constructor.
      * intros _. cbn [fst]. apply (mem_below _ x x Hcanon). lia.
      * apply IH; [assumption|exact Hl'|exact I].
Qed.

Theorem C07_dropna_exact : forall l, strictly_increasing (map fst l) -> lone_ok false l ->
  Forall (fun x => mem x (dropna_support l) = true) (kept_times l)
  /\ Forall (fun p => snd p = false -> mem (fst p) (dropna_support l) = false) l
  /\ canonical (dropna_support l).
Proof.
  intros l Hs Hl. split; [|split].
  - apply runs_contains_kept2; [assumption|exact Hl|exact I].
  - apply runs_excludes_rejected2; [assumption|exact Hl|exact I].
  - destruct l as [|[x kx] r]; [exact I|].
    apply (canon_canonical _ (x - 1)). apply runs_canon2; [assumption|exact Hl|exact I|lia].
Qed.
Print Assumptions C07_dropna_exact.

(* ... and the hypothesis is necessary: if the support excludes every rejected row, every lone kept row is more than 1 us before the next row *)
Lemma runs_excludes_needs_lone_ok l : forall cur,
  strictly_increasing (map fst l) ->
  match cur with None => True | Some (a, b) => a <= b /\ match l with [] => True | (x, _) :: _ => b < x end end ->
  Forall (fun p => snd p = false -> mem (fst p) (runs_go cur l) = false) l ->
  lone_ok (isSome cur) l /\
  match cur, l with Some (a, b), (x, false) :: _ => a = b -> b + us < x | _, _ => True end.
Proof.
  induction l as [|[x kx] r IH]; intros cur Hs Hc HF.
  - split; [exact I|]. destruct cur as [[a b]|]; exact I.
  - rewrite runs_go_cons in HF. destruct (si_cons _ _ _ Hs) as [Hxy Hs']. destruct kx.
    + inversion HF as [|? ? _ HF']; subst.
      set (a' := match cur with Some (a, _) => a | None => x end) in *.
      assert (Ha : a' <= x /\ (cur = None -> a' = x)).
      { subst a'. destruct cur as [[a b]|]; [|split; [lia|reflexivity]]. destruct Hc as [Hab Hb]. split; [lia|discriminate]. }
      destruct Ha as [Ha Hn].
      destruct (IH (Some (a', x)) Hs') as [Hl Hd]; [|exact HF'|].
      { split; [exact Ha|]. destruct r as [|[y ky] r']; [exact I|exact Hxy]. }
      split; [|destruct cur as [[a b]|]; exact I]. split; [|exact Hl].
      destruct r as [|[y ky] r']; [exact I|]. intros _ Hp Hk. subst ky.
      apply Hd. apply Hn. destruct cur; [discriminate|reflexivity].
    + destruct cur as [[a b]|].
      * destruct Hc as [Hab Hb]. inversion HF as [|? ? Hx HF']; subst. specialize (Hx eq_refl). cbn [fst] in Hx.
        rewrite mem_cons in Hx. apply orb_false_iff in Hx. destruct Hx as [Hx _].
        assert (HF'' : Forall (fun p => snd p = false -> mem (fst p) (runs_go None r) = false) r).
        { eapply Forall_impl'; [|exact HF']. intros p Hp Hk. specialize (Hp Hk). rewrite mem_cons in Hp.
          apply orb_false_iff in Hp. tauto. }
        destruct (IH None Hs' I HF'') as [Hl _].
        split.
        -- split; [|exact Hl]. destruct r as [|[y ky] r']; [exact I|]. discriminate.
        -- intros E. unfold inb, widen in Hx. simpl in Hx. destruct (a =? b) eqn:E'; lia.
      * inversion HF as [|? ? _ HF']; subst. destruct (IH None Hs' I HF') as [Hl _].
        split; [|exact I]. split; [|exact Hl]. destruct r as [|[y ky] r']; [exact I|]. discriminate.
Qed.

Theorem C07_dropna_exact_converse : forall l, strictly_increasing (map fst l) ->
  Forall (fun p => snd p = false -> mem (fst p) (dropna_support l) = false) l -> lone_ok false l.
Proof. intros l Hs HF. exact (proj1 (runs_excludes_needs_lone_ok l None Hs I HF)). Qed.
Print Assumptions C07_dropna_exact_converse.

Lemma spaced_lone_ok l : forall pk, spaced (map fst l) -> lone_ok pk l.
Proof.
  induction l as [|[x kx] r IH]; intros pk Hs; [exact I|]. cbn [map fst] in Hs. destruct Hs as [H1 H2].
  split; [|apply IH; exact H2]. destruct r as [|[y ky] r']; [exact I|]. intros _ _ _. exact H1.
Qed.

(* the raw runs of a kept row 1 us before the next kept run touch: the constructor trims the first by 1 us to nothing and the
   kept row is LOST (harness key kept_singleton_exactly_1us_before_next_kept_run; repaired by the proposed dropna patch) *)
Theorem C07_dropna_canonical_refuted_when_close :
  exists l, strictly_increasing (map fst l) /\ dropna_support l = [(0, 1000); (1000, 2000)] /\ ~ canonical (dropna_support l).
Proof.
  exists [(0, true); (500, false); (1000, true)]. split; [simpl; lia|]. split; [vm_compute; reflexivity|].
  replace (dropna_support [(0, true); (500, false); (1000, true)]) with [(0, 1000); (1000, 2000)] by (vm_compute; reflexivity).
  simpl. lia.
Qed.
Print Assumptions C07_dropna_canonical_refuted_when_close.

Example C07_dropna_exact_nonvacuous :
  let l := [(0, true); (500, true); (600, false); (2000, true); (4000, false)] in
  strictly_increasing (map fst l) /\ lone_ok false l /\ ~ spaced (map fst l) /\ dropna_support l = [(0, 500); (2000, 3000)].
Proof. cbv zeta. split; [simpl; lia|]. split; [simpl; unfold us; intuition lia|]. split; [simpl; unfold us; lia|vm_compute; reflexivity]. Qed.

(* ====================================================================================================
   10. complementary thresholds (above / belowequal, below / aboveequal: the masks are each other's negation):
       every sample lies in exactly one of the two new supports - the two results split the series. *)
Definition flip (l : list (Z * bool)) : list (Z * bool) := map (fun p => (fst p, negb (snd p))) l.

Lemma flip_fst l : map fst (flip l) = map fst l.
Proof. unfold flip. rewrite map_map. apply map_ext. intros [x b]; reflexivity. Qed.

Lemma H_flip ep l : H ep l -> H ep (flip l).
Proof. unfold H. rewrite flip_fst. tauto. Qed.

Lemma in_kept_times x l : In (x, true) l -> In x (kept_times l).
Proof. intros Hin. unfold kept_times. apply in_map_iff. exists (x, true). split; [reflexivity|]. apply filter_In. split; [exact Hin|reflexivity]. Qed.

Lemma complementary_split ep l : H ep l ->
  Forall (fun p => mem (2 * fst p) (threshold_support ep l) = snd p
                   /\ mem (2 * fst p) (threshold_support ep (flip l)) = negb (snd p)) l.
Proof.
  intros Hl. pose proof (H_flip ep l Hl) as Hf.
  pose proof (C07_contains_kept ep l Hl) as K1. pose proof (C07_excludes_rejected ep l Hl) as R1.
  pose proof (C07_contains_kept ep (flip l) Hf) as K2. pose proof (C07_excludes_rejected ep (flip l) Hf) as R2.
  rewrite Forall_forall in K1, R1, K2, R2. apply Forall_forall. intros [x b] Hin. cbn [fst snd].
  assert (Hinf : In (x, negb b) (flip l)).
  { unfold flip. apply in_map_iff. exists (x, b). split; [reflexivity|exact Hin]. }
  destruct b; cbn [negb] in *.
  - split; [apply K1; apply in_kept_times; exact Hin|apply (R2 (x, false) Hinf); reflexivity].
  - split; [apply (R1 (x, false) Hin); reflexivity|apply K2; apply in_kept_times; exact Hinf].
Qed.

Theorem C07_complementary_split : forall ep l, H ep l ->
  Forall (fun p => mem (2 * fst p) (threshold_support ep l) = snd p
                   /\ mem (2 * fst p) (threshold_support ep (flip l)) = negb (snd p)) l.
Proof. exact complementary_split. Qed.
Print Assumptions C07_complementary_split.

Example C07_complementary_nonvacuous :
  H [(0, 100)] [(10, true); (20, false); (30, true)]
  /\ threshold_support [(0, 100)] [(10, true); (20, false); (30, true)] = [(20, 30); (50, 60)]
  /\ threshold_support [(0, 100)] (flip [(10, true); (20, false); (30, true)]) = [(30, 50)].
Proof. split; [|vm_compute; split; reflexivity]. unfold H. split; [simpl; lia|]. split; [simpl; lia|]. repeat constructor. Qed.
