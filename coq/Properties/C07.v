(* C07 — threshold and dropna keep the right samples and a support that separates them.
   Statements only; proofs in Proofs/ThresholdProofs.v.  A series is a list of (time, kept?) pairs;
   threshold_support is in DOUBLED ticks (a midpoint (x+y)/2 is stored as x+y).
   Hypotheses: the old support is canonical, timestamps strictly increase, every sample lies in its support. *)
From Verif Require Import Base.Prelude Model.Threshold Proofs.ThresholdProofs.

Definition H (ep : iset) (l : list (Z * bool)) : Prop :=
  canonical ep /\ strictly_increasing (map fst l) /\ Forall (fun x => mem x ep = true) (map fst l).

(* 1. the new support contains every kept sample and no rejected sample ... *)
Theorem C07_contains_kept : forall ep l, H ep l ->
  Forall (fun x => mem (2 * x) (threshold_support ep l) = true) (kept_times l).
Proof. intros ep l (H1 & H2 & H3). exact (thr_contains_kept ep l H1 H2 H3). Qed.
Print Assumptions C07_contains_kept.

Theorem C07_excludes_rejected : forall ep l, H ep l ->
  Forall (fun p => snd p = false -> mem (2 * fst p) (threshold_support ep l) = false) l.
Proof. intros ep l (H1 & H2 & H3). exact (thr_excludes_rejected ep l H1 H2 H3). Qed.
Print Assumptions C07_excludes_rejected.

(* 2. ... so restricting the original series to it reproduces the result *)
Theorem C07_restrict_reproduces : forall ep l, H ep l ->
  filter (fun x => mem (2 * x) (threshold_support ep l)) (map fst l) = kept_times l.
Proof. intros ep l (H1 & H2 & H3). exact (thr_restrict_reproduces ep l H1 H2 H3). Qed.
Print Assumptions C07_restrict_reproduces.

(* 3. the new support is canonical and lies inside the old one: no interval extends beyond, or
      bridges the gap between, intervals of the original support *)
Theorem C07_canonical : forall ep l, H ep l -> canonical (threshold_support ep l).
Proof. intros ep l (H1 & H2 & H3). exact (thr_support_canonical ep l H1 H2 H3). Qed.
Print Assumptions C07_canonical.

Theorem C07_inside_old : forall ep l, H ep l ->
  Forall (fun iv => exists old, In old ep /\ 2 * fst old <= fst iv /\ snd iv <= 2 * snd old) (threshold_support ep l).
Proof. intros ep l (H1 & H2 & H3). exact (thr_inside_old ep l H1 H2 H3). Qed.
Print Assumptions C07_inside_old.

(* 4. a boundary between a kept and a rejected neighbour of the same interval is their midpoint *)
Theorem C07_midpoint_end : forall ep l, H ep l ->
  forall pre x y post, l = pre ++ (x, true) :: (y, false) :: post ->
  (exists iv, In iv ep /\ inb x iv = true /\ inb y iv = true) ->
  In (x + y) (map snd (threshold_support ep l)).
Proof. intros ep l (H1 & H2 & H3). exact (thr_midpoint_end ep l H1 H2 H3). Qed.
Print Assumptions C07_midpoint_end.

Theorem C07_midpoint_start : forall ep l, H ep l ->
  forall pre x y post, l = pre ++ (x, false) :: (y, true) :: post ->
  (exists iv, In iv ep /\ inb x iv = true /\ inb y iv = true) ->
  In (x + y) (map fst (threshold_support ep l)).
Proof. intros ep l (H1 & H2 & H3). exact (thr_midpoint_start ep l H1 H2 H3). Qed.
Print Assumptions C07_midpoint_start.

(* 5. dropna: when consecutive samples are more than 1 us apart the support of the result contains
      every kept row and no rejected row, and is canonical *)
Theorem C07_dropna : forall l, spaced (map fst l) ->
  Forall (fun x => mem x (dropna_support l) = true) (kept_times l)
  /\ Forall (fun p => snd p = false -> mem (fst p) (dropna_support l) = false) l
  /\ canonical (dropna_support l).
Proof. intros l Hs. repeat split; [exact (dropna_contains_kept l Hs)|exact (dropna_excludes_rejected l Hs)|exact (dropna_canonical l Hs)]. Qed.
Print Assumptions C07_dropna.

(* 6. without the spacing hypothesis the dropna claim is FALSE of the faithful model (known finding):
      a kept singleton is widened by 1 us and swallows a rejected sample closer than that *)
Theorem C07_dropna_refuted_when_close :
  exists l, strictly_increasing (map fst l) /\
    ~ Forall (fun p => snd p = false -> mem (fst p) (dropna_support l) = false) l.
Proof. exact dropna_refuted_when_close. Qed.
Print Assumptions C07_dropna_refuted_when_close.

Example C07_nonvacuous :
  H [(0, 100); (200, 300); (400, 500)] [(5, true); (210, false); (250, true); (260, true); (270, false); (410, false); (420, true)]
  /\ threshold_support [(0, 100); (200, 300); (400, 500)]
       [(5, true); (210, false); (250, true); (260, true); (270, false); (410, false); (420, true)]
     = [(0, 200); (460, 530); (830, 840)].
Proof. split; [|vm_compute; reflexivity]. unfold H. split; [simpl; lia|]. split; [simpl; lia|]. repeat constructor. Qed.
