(* C08, tie of the Python GLUE by PROOF: _Base.get_slice and _Base._get_slice (pynapple/core/base_class.py; n_points = None
   and time_unit = "s" declared), translated by tools/py2glue.py (Gen/Glue.v, regenerated from /repo on every run), against
   the hand model of Model/Slice.v: np.searchsorted(t, v, side) is the count ss_left / ss_right, get_slice(start, end) is
   the positional slice [get_range start end ts), get_slice(start) the sample [get_closest start ts].  No kernel is called:
   the theorems hold for every environment K and - for the range form - for EVERY series, sorted or not.
   Finding recorded here: on an UNSORTED series the wrap-around t[-1] at index 0 can win the closest_t comparison; the text
   then returns slice(0, 0) where get_closest answers index 0 (C08_glue_get_closest_unsorted_differs); sortedness, which
   every series has, excludes it.  Proofs: Glue/Ref_base_get_slice.v. *)
From Coq Require Import ZArith QArith String List.
From Verif Require Import Base.Prelude Model.Slice Jit.Lang Glue.Lang Glue.Interp Glue.Kenv Gen.Glue.
From Verif Require Glue.KenvText Glue.Ref_base_get_slice.
Import ListNotations.
Open Scope Z_scope.

Theorem C08_glue_get_slice_range : forall K cls fs ts a b,
  assoc fs "t" = Some (tarr ts) -> a <= b ->
  grun K g__Base_get_slice [GObj cls fs; tsc a; tsc b]
  = GOk (Ref_base_get_slice.slice_val (Z.of_nat (ss_left a ts)) (Z.of_nat (ss_right b ts))).
Proof. exact Ref_base_get_slice.ref_get_slice_range. Qed.
Print Assumptions C08_glue_get_slice_range.

Theorem C08_glue_get_slice_range_order : forall K cls fs ts a b,
  assoc fs "t" = Some (tarr ts) -> b < a ->
  grun K g__Base_get_slice [GObj cls fs; tsc a; tsc b] = GErr (ERaise "ValueError").
Proof. exact Ref_base_get_slice.ref_get_slice_range_order. Qed.
Print Assumptions C08_glue_get_slice_range_order.

Theorem C08_glue_get_slice_closest : forall K cls fs ts a,
  assoc fs "t" = Some (tarr ts) -> ts <> [] -> sortedZ ts ->
  grun K g__Base_get_slice [GObj cls fs; tsc a; GNone]
  = GOk (Ref_base_get_slice.slice_val (Z.of_nat (get_closest a ts)) (Z.of_nat (get_closest a ts) + 1)).
Proof. exact Ref_base_get_slice.ref_get_slice_closest_sorted. Qed.
Print Assumptions C08_glue_get_slice_closest.

Theorem C08_glue_get_slice_closest_any_order : forall K cls fs ts a,
  assoc fs "t" = Some (tarr ts) -> ts <> [] ->
  grun K g__Base_get_slice [GObj cls fs; tsc a; GNone]
  = GOk (if Ref_base_get_slice.closest_underflow a ts then Ref_base_get_slice.slice_val 0 0
         else Ref_base_get_slice.slice_val (Z.of_nat (get_closest a ts)) (Z.of_nat (get_closest a ts) + 1)).
Proof. exact Ref_base_get_slice.ref_get_slice_closest. Qed.
Print Assumptions C08_glue_get_slice_closest_any_order.

Theorem C08_glue_get_slice_closest_empty : forall K cls fs a,
  assoc fs "t" = Some (tarr []) -> grun K g__Base_get_slice [GObj cls fs; tsc a; GNone] = GErr EIndex.
Proof. exact Ref_base_get_slice.ref_get_slice_closest_empty. Qed.
Print Assumptions C08_glue_get_slice_closest_empty.

(* sortedness is needed for the clean closest statement *)
Theorem C08_glue_get_closest_unsorted_differs :
  grun KenvText.kenv_exec g__Base_get_slice [GObj "Ts" [("t"%string, tarr [5; 3])]; tsc 0; GNone]
  = GOk (Ref_base_get_slice.slice_val 0 0)
  /\ get_closest 0 [5; 3] = 0%nat.
Proof. split; vm_compute; reflexivity. Qed.
Print Assumptions C08_glue_get_closest_unsorted_differs.

(* duplicates equal to `end` are included (side = "right"); equidistant neighbours: the later sample wins (strict test) *)
Example C08_glue_nonvacuous :
  grun KenvText.kenv_exec g__Base_get_slice [GObj "Ts" [("t"%string, tarr [0; 10; 20; 20; 20; 30])]; tsc 5; tsc 20]
    = GOk (Ref_base_get_slice.slice_val 1 5)
  /\ grun KenvText.kenv_exec g__Base_get_slice [GObj "Ts" [("t"%string, tarr [0; 10; 20])]; tsc 15; GNone]
    = GOk (Ref_base_get_slice.slice_val 2 3).
Proof. split; vm_compute; reflexivity. Qed.
