(* C08 — time-window slicing and trial tensors select exactly the windowed samples.
   Statements only; proofs in Proofs/SliceProofs.v.  np.searchsorted is characterised as a count
   (NumPy's contract on a sorted array).  warp_tensor: equal bins exactly when num_bins divides
   the trial duration in ticks (C08_warp_equal_bins_when_divides); refuted otherwise (C08_warp_*_refuted).
   "time support unchanged": holds when the window selects something, refuted for an empty selection. *)
From Verif Require Import Base.Prelude Model.Restrict Model.Count Model.Slice Proofs.SliceProofs.

(* 1. get(start, end) / get_slice(start, end): exactly the samples with start <= t <= end
      (duplicates at both edges included), each with its own row *)
Theorem C08_window : forall a b ts, sortedZ ts ->
  get_times a b ts = filter (fun t => (a <=? t) && (t <=? b)) ts.
Proof. exact get_times_spec. Qed.
Print Assumptions C08_window.

Theorem C08_window_positions : forall a b ts i, sortedZ ts ->
  let '(i0, i1) := get_range a b ts in
  ((i0 <= i < i1)%nat <-> ((i < length ts)%nat /\ a <= nth i ts 0 <= b)).
Proof. exact get_range_positions. Qed.
Print Assumptions C08_window_positions.

Theorem C08_window_rows : forall (A : Type) a b ts (rows : list A), sortedZ ts -> length rows = length ts ->
  let '(i0, i1) := get_range a b ts in
  combine (slice i0 i1 ts) (slice i0 i1 rows)
  = filter (fun tr => (a <=? fst tr) && (fst tr <=? b)) (combine ts rows).
Proof. exact get_rows_spec. Qed.
Print Assumptions C08_window_rows.

(* 2. get(start): a sample nearest to start *)
Theorem C08_closest : forall a ts, ts <> [] -> sortedZ ts ->
  (get_closest a ts < length ts)%nat
  /\ Forall (fun y => Z.abs (nth (get_closest a ts) ts 0 - a) <= Z.abs (y - a)) ts.
Proof. exact get_closest_spec. Qed.
Print Assumptions C08_closest.

(* 3. trial tensors: row i holds exactly trial i's samples, in time order, aligned and padded *)
Theorem C08_trial_rows : forall (A : Type) ts (rows : list A) ep, sortedZ ts -> length rows = length ts ->
  trial_rows ts rows ep
  = map (fun '(s, e) => map snd (filter (fun tr => (s <=? fst tr) && (fst tr <=? e)) (combine ts rows))) ep.
Proof. exact trial_rows_spec. Qed.
Print Assumptions C08_trial_rows.

Theorem C08_pad_start : forall (A : Type) n (pad : A) row, (length row <= n)%nat ->
  length (pad_start n pad row) = n
  /\ (forall j d, (j < length row)%nat -> nth j (pad_start n pad row) d = nth j row d)
  /\ (forall j d, (length row <= j < n)%nat -> nth j (pad_start n pad row) d = pad).
Proof. exact pad_start_spec. Qed.
Print Assumptions C08_pad_start.

Theorem C08_pad_end : forall (A : Type) n (pad : A) row, (length row <= n)%nat ->
  length (pad_end n pad row) = n
  /\ (forall j d, (j < length row)%nat -> nth (n - length row + j) (pad_end n pad row) d = nth j row d)
  /\ (forall j d, (j < n - length row)%nat -> nth j (pad_end n pad row) d = pad).
Proof. exact pad_end_spec. Qed.
Print Assumptions C08_pad_end.

(* 4. trial_count: row i is exactly the binned count of trial i (as given by count, C05) *)
Theorem C08_trial_count : forall ts ep b, 0 < b -> sortedZ ts -> canonical ep ->
  trial_count_rows ts ep b = map (fun '(s, e) => map snd (count_spec_interval ts s e b)) ep.
Proof. exact trial_count_rows_spec. Qed.
Print Assumptions C08_trial_count.

(* 5. warp_tensor of timestamps (partial): when num_bins divides the trial duration, counting with
      b = duration / num_bins reports exactly num_bins bins *)
Theorem C08_warp_equal_bins_partial : forall s e b k, 0 < b -> (0 < k)%nat -> e - s = Z.of_nat k * b -> n_reported s e b = k.
Proof. exact warp_equal_bins. Qed.
Print Assumptions C08_warp_equal_bins_partial.

Example C08_nonvacuous :
  sortedZ [0; 1; 1; 2; 3; 3; 4] /\ get_range 1 3 [0; 1; 1; 2; 3; 3; 4] = (1%nat, 6%nat)
  /\ get_closest 5 [0; 1; 1; 2; 3; 3; 4] = 6%nat.
Proof. vm_compute. intuition congruence. Qed.

(* ---------------- additions (audit round): the clauses the theorems above did not state ---------------- *)

(* 1b. "(time support unchanged)".  get(start, end) is self[slice]; the new object is built by _Base.__init__ with the
       parent's time support passed explicitly, and that constructor keeps an explicit support only when at least one
       timestamp is left (base_class.py: `if len(self.index): ... else: self.time_support = IntervalSet([], [])`);
       C03's statement reads that as intended for restrict ("or empty when no sample survives"), C08's does not for get. *)
Definition base_support (ts : list Z) (sup : iset) : iset := match ts with [] => [] | _ => sup end.
Definition get_support (a b : Z) (ts : list Z) (sup : iset) : iset := base_support (get_times a b ts) sup.

Theorem C08_support_unchanged_nonempty : forall a b ts sup, get_times a b ts <> [] -> get_support a b ts sup = sup.
Proof. intros a b ts sup H. unfold get_support, base_support. destruct (get_times a b ts); congruence. Qed.
Print Assumptions C08_support_unchanged_nonempty.

(* the clause as the statement has it (for every window) is FALSE of this constructor: a window selecting nothing *)
Theorem C08_support_unchanged_refuted : exists a b ts sup,
  sortedZ ts /\ ts <> [] /\ a <= b /\ get_support a b ts sup <> sup.
Proof. exists 4, 5, [0; 1; 2; 3], [(-5, 10)]. vm_compute. intuition congruence. Qed.
Print Assumptions C08_support_unchanged_refuted.

(* 5b. warp_tensor of timestamps, exactly.  The statement: counting in num_bins EQUAL bins per trial, i.e. bin j of
       trial [s, e] holds the samples t of the trial with  s + j(e-s)/k <= t < s + (j+1)(e-s)/k  (count's half-open bins),
       stated without division: *)
Definition warp_bin_of (s e : Z) (k j : nat) (t : Z) : bool :=
  (Z.of_nat j * (e - s) <=? Z.of_nat k * (t - s)) && (Z.of_nat k * (t - s) <? (Z.of_nat j + 1) * (e - s)).
Definition warp_spec (ts : list Z) (s e : Z) (k : nat) : list nat :=
  map (fun j => count_if (fun t => inb t (s, e) && warp_bin_of s e k j t) ts) (seq 0 k).
(* the code: count(bin_size = (e - s) / num_bins, ep = [s, e]) where count rounds the bin size to a whole tick *)
Definition warp_bin_size (s e : Z) (k : nat) : Z := (2 * (e - s) + Z.of_nat k) / (2 * Z.of_nat k).
Definition warp_model (ts : list Z) (s e : Z) (k : nat) : list nat :=
  map snd (count_spec_interval ts s e (warp_bin_size s e k)).

Lemma count_if_ext_all {A} (p q : A -> bool) l : (forall x, p x = q x) -> count_if p l = count_if q l.
Proof. intros H. induction l as [|x r IH]; [reflexivity|]. cbn [count_if]. rewrite H, IH. reflexivity. Qed.

Lemma warp_bin_size_divides s e b k : (0 < k)%nat -> e - s = Z.of_nat k * b -> warp_bin_size s e k = b.
Proof.
  intros Hk Hd. unfold warp_bin_size. rewrite Hd.
  replace (2 * (Z.of_nat k * b) + Z.of_nat k) with (Z.of_nat k + b * (2 * Z.of_nat k)) by ring.
  rewrite Z.div_add by lia. rewrite Z.div_small by lia. lia.
Qed.

Theorem C08_warp_equal_bins_when_divides : forall ts s e b k, 0 < b -> (0 < k)%nat -> e - s = Z.of_nat k * b ->
  warp_model ts s e k = warp_spec ts s e k.
Proof.
  intros ts s e b k Hb Hk Hd. unfold warp_model, warp_spec.
  rewrite (warp_bin_size_divides s e b k Hk Hd).
  unfold count_spec_interval. rewrite (warp_equal_bins s e b k Hb Hk Hd).
  rewrite map_map. cbn [snd]. apply map_ext_in. intros j Hj. apply in_seq in Hj.
  apply count_if_ext_all. intros t. f_equal.
  unfold in_bin, warp_bin_of. rewrite Hd.
  assert (H1 : (s + Z.of_nat j * b <=? t) = (Z.of_nat j * (Z.of_nat k * b) <=? Z.of_nat k * (t - s))).
  { apply Bool.eq_true_iff_eq. rewrite !Z.leb_le. nia. }
  assert (H2 : (t <? s + Z.of_nat j * b + b) = (Z.of_nat k * (t - s) <? (Z.of_nat j + 1) * (Z.of_nat k * b))).
  { apply Bool.eq_true_iff_eq. rewrite !Z.ltb_lt. nia. }
  rewrite H1, H2. reflexivity.
Qed.
Print Assumptions C08_warp_equal_bins_when_divides.

(* ... and FALSE without the divisibility hypothesis: the rounded bin, accumulated, is not (e-s)/k *)
Theorem C08_warp_equal_bins_refuted : exists ts s e k, sortedZ ts /\ s < e /\ (0 < k)%nat /\
  length (warp_model ts s e k) = k /\ warp_model ts s e k <> warp_spec ts s e k.
Proof.
  exists [20], 0, 20, 3%nat. split; [|split; [|split; [|split]]]; try lia.
  - vm_compute. intuition congruence.
  - vm_compute. reflexivity.
  - vm_compute. congruence.
Qed.
Print Assumptions C08_warp_equal_bins_refuted.

Theorem C08_warp_number_of_bins_refuted : exists s e k, s < e /\ (0 < k)%nat /\ length (warp_model [] s e k) <> k.
Proof. exists 0, 10, 4%nat. split; [lia|split; [lia|]]. vm_compute. congruence. Qed.
Print Assumptions C08_warp_number_of_bins_refuted.
From Verif Require Import Proofs.BaseLemmas Proofs.RestrictProofs.
From Coq Require Import ZifyBool.

(* ====================================================================================================
   Composition laws of get(start, end): two successive windows are the window of the intersection of the two
   ranges; a window is the restrict by the one-interval set (the bridge between C08 and C03); every trial of a
   trial tensor is a window of the series. *)

Lemma filter_ext_in' {A} (p q : A -> bool) l : (forall x, p x = q x) -> filter p l = filter q l.
Proof. intros E. induction l as [|x r IH]; simpl; [reflexivity|]. rewrite E, IH. reflexivity. Qed.

Lemma get_get a b c d ts : sortedZ ts ->
  get_times c d (get_times a b ts) = get_times (Z.max a c) (Z.min b d) ts.
Proof.
  intros Hs. rewrite (get_times_spec a b ts Hs).
  rewrite get_times_spec by (apply filter_sortedZ; exact Hs).
  rewrite (get_times_spec (Z.max a c) (Z.min b d) ts Hs).
  rewrite filter_filter. apply filter_ext_in'. intros x.
  destruct (Z.leb_spec a x), (Z.leb_spec x b), (Z.leb_spec c x), (Z.leb_spec x d),
           (Z.leb_spec (Z.max a c) x), (Z.leb_spec x (Z.min b d)); simpl; try reflexivity; lia.
Qed.

Lemma get_commute a b c d ts : sortedZ ts ->
  get_times c d (get_times a b ts) = get_times a b (get_times c d ts).
Proof. intros Hs. rewrite (get_get a b c d ts Hs), (get_get c d a b ts Hs), Z.max_comm, Z.min_comm. reflexivity. Qed.

Lemma get_idem a b ts : sortedZ ts -> get_times a b (get_times a b ts) = get_times a b ts.
Proof. intros Hs. rewrite (get_get a b a b ts Hs), Z.max_id, Z.min_id. reflexivity. Qed.

Lemma get_is_restrict a b ts : sortedZ ts -> a < b -> get_times a b ts = restrict_ts ts [(a, b)].
Proof.
  intros Hs Hab. rewrite (get_times_spec a b ts Hs).
  rewrite (restrict_ts_spec ts [(a, b)] Hs) by (simpl; tauto).
  apply filter_ext_in'. intros x. unfold mem, inb. simpl. rewrite Bool.orb_false_r. reflexivity.
Qed.

Theorem C08_get_get : forall a b c d ts, sortedZ ts ->
  get_times c d (get_times a b ts) = get_times (Z.max a c) (Z.min b d) ts.
Proof. exact get_get. Qed.
Print Assumptions C08_get_get.

Theorem C08_get_commute_idempotent : forall a b c d ts, sortedZ ts ->
  get_times c d (get_times a b ts) = get_times a b (get_times c d ts)
  /\ get_times a b (get_times a b ts) = get_times a b ts.
Proof. intros a b c d ts Hs. split; [apply get_commute|apply get_idem]; exact Hs. Qed.
Print Assumptions C08_get_commute_idempotent.

Theorem C08_get_is_restrict : forall a b ts, sortedZ ts -> a < b -> get_times a b ts = restrict_ts ts [(a, b)].
Proof. exact get_is_restrict. Qed.
Print Assumptions C08_get_is_restrict.

Example C08_get_get_nonvacuous :
  get_times 2 9 (get_times 0 5 [0; 1; 2; 2; 4; 5; 5; 7; 9]) = [2; 2; 4; 5; 5]
  /\ get_times 2 5 [0; 1; 2; 2; 4; 5; 5; 7; 9] = [2; 2; 4; 5; 5]
  /\ restrict_ts [0; 1; 2; 2; 4; 5; 5; 7; 9] [(2, 5)] = [2; 2; 4; 5; 5].
Proof. vm_compute. repeat split; reflexivity. Qed.
