(* C08 — time-window slicing and trial tensors select exactly the windowed samples.
   Statements only; proofs in Proofs/SliceProofs.v.  np.searchsorted is characterised as a count
   (NumPy's contract on a sorted array).  warp_tensor is PARTIAL: equal bins when num_bins divides
   the trial duration in ticks. *)
From Verif Require Import Base.Prelude Model.Restrict Model.Count Model.Slice Proofs.SliceProofs.

(* 1. get(start, end) / get_slice(start, end): exactly the samples with start <= t <= end
      (duplicates at both edges included), each with its own row *)
Theorem C08_window : forall a b ts, sortedZ ts ->
  get_times a b ts = filter (fun t => (a <=? t) && (t <=? b)) ts.
Proof. exact get_times_spec. Qed.
Print Assumptions C08_window.

Theorem C08_window_positions : forall a b ts i, sortedZ ts ->
  let '(i0, i1) := get_range a b ts in
  ((i0 <= i < i1)%nat <-> ((i < length ts)%nat /\ a <= nth i ts 0 <= b)).
Proof. exact get_range_positions. Qed.
Print Assumptions C08_window_positions.

Theorem C08_window_rows : forall (A : Type) a b ts (rows : list A), sortedZ ts -> length rows = length ts ->
  let '(i0, i1) := get_range a b ts in
  combine (slice i0 i1 ts) (slice i0 i1 rows)
  = filter (fun tr => (a <=? fst tr) && (fst tr <=? b)) (combine ts rows).
Proof. exact get_rows_spec. Qed.
Print Assumptions C08_window_rows.

(* 2. get(start): a sample nearest to start *)
Theorem C08_closest : forall a ts, ts <> [] -> sortedZ ts ->
  (get_closest a ts < length ts)%nat
  /\ Forall (fun y => Z.abs (nth (get_closest a ts) ts 0 - a) <= Z.abs (y - a)) ts.
Proof. exact get_closest_spec. Qed.
Print Assumptions C08_closest.

(* 3. trial tensors: row i holds exactly trial i's samples, in time order, aligned and padded *)
Theorem C08_trial_rows : forall (A : Type) ts (rows : list A) ep, sortedZ ts -> length rows = length ts ->
  trial_rows ts rows ep
  = map (fun '(s, e) => map snd (filter (fun tr => (s <=? fst tr) && (fst tr <=? e)) (combine ts rows))) ep.
Proof. exact trial_rows_spec. Qed.
Print Assumptions C08_trial_rows.

Theorem C08_pad_start : forall (A : Type) n (pad : A) row, (length row <= n)%nat ->
  length (pad_start n pad row) = n
  /\ (forall j d, (j < length row)%nat -> nth j (pad_start n pad row) d = nth j row d)
  /\ (forall j d, (length row <= j < n)%nat -> nth j (pad_start n pad row) d = pad).
Proof. exact pad_start_spec. Qed.
Print Assumptions C08_pad_start.

Theorem C08_pad_end : forall (A : Type) n (pad : A) row, (length row <= n)%nat ->
  length (pad_end n pad row) = n
  /\ (forall j d, (j < length row)%nat -> nth (n - length row + j) (pad_end n pad row) d = nth j row d)
  /\ (forall j d, (j < n - length row)%nat -> nth j (pad_end n pad row) d = pad).
Proof. exact pad_end_spec. Qed.
Print Assumptions C08_pad_end.

(* 4. trial_count: row i is exactly the binned count of trial i (as given by count, C05) *)
Theorem C08_trial_count : forall ts ep b, 0 < b -> sortedZ ts -> canonical ep ->
  trial_count_rows ts ep b = map (fun '(s, e) => map snd (count_spec_interval ts s e b)) ep.
Proof. exact trial_count_rows_spec. Qed.
Print Assumptions C08_trial_count.

(* 5. warp_tensor of timestamps (partial): when num_bins divides the trial duration, counting with
      b = duration / num_bins reports exactly num_bins bins *)
Theorem C08_warp_equal_bins_partial : forall s e b k, 0 < b -> (0 < k)%nat -> e - s = Z.of_nat k * b -> n_reported s e b = k.
Proof. exact warp_equal_bins. Qed.
Print Assumptions C08_warp_equal_bins_partial.

Example C08_nonvacuous :
  sortedZ [0; 1; 1; 2; 3; 3; 4] /\ get_range 1 3 [0; 1; 1; 2; 3; 3; 4] = (1%nat, 6%nat)
  /\ get_closest 5 [0; 1; 1; 2; 3; 3; 4] = 6%nat.
Proof. vm_compute. intuition congruence. Qed.
