(* C13 — metadata and labels stay attached to the element they describe.
   Statements only; proofs in Proofs/MetaProofs.v (and Proofs/InterDiffProofs.v for the parents of
   intersect / set_diff).  Model: Model/Meta.v.  A metadata DataFrame is an association list
   label -> row with pandas' two access disciplines loc (by label) and iloc / sel (by position);
   every operation is modelled with the discipline the source uses at that line.
   Kept iv m = result carries metadata m; Dropped iv = result carries none; Err = exception.
   wf_tiset o = canonical intervals with the default 0..n-1 metadata index.
   triples o = the (label, data, metadata row found under that label) of each column / member.
   The model follows /repo AS REPAIRED (pandas keys of IntervalSet.__getitem__ are positional; merge_group
   sorts the concatenated metadata by key); the forms as they were before the repairs are kept as
   iset_get_labels_orig / iset_get_bseries_orig / group_merge_orig with what was right and wrong about them.
   NOT MODELLED (exercised by the harness only): save/load; ep[rows, column name(s)] (the model has no column
   axis: the harness holds it to the rows of ep[rows, 'start']); NumPy functions permuting the columns of a TsdFrame
   (np.flip / np.roll / np.take along axis 1: labels and metadata stay, the data moves - a known finding);
   merge_group of more than two groups; in-place corruption of operands cannot be
   expressed in this functional model (the harness re-checks the operands after every merge). *)
From Verif Require Import Base.Prelude Model.Iset Model.Meta Proofs.InterDiffProofs Proofs.MetaProofs.
From Coq Require Import Permutation.

(* ---- constructor: metadata is attached only when output interval i IS input interval i ---- *)
Theorem C13_ctor_keeps_only_identity : forall (T : Type) (l : list (Z * Z)) (m : frame T) out m',
  mk_miset l m = Kept out m' ->
  m' = m /\ out = trim_touch l /\ labels m = rangeZ (length l).
Proof. exact @mk_miset_kept. Qed.
Print Assumptions C13_ctor_keeps_only_identity.

Theorem C13_trim_touch_is_identity_up_to_1us : forall l,
  Forall2 (fun o i => fst o = fst i /\ (snd o = snd i \/ snd o = snd i - us)) (trim_touch l) l.
Proof. exact trim_touch_spec. Qed.
Print Assumptions C13_trim_touch_is_identity_up_to_1us.

(* exactly which ends: an end is given back 1 us earlier iff it EQUALS the next start (touching), no other end moves *)
Theorem C13_trim_touch_exact : forall l i s e, nth_error l i = Some (s, e) ->
  nth_error (trim_touch l) i
  = Some (s, match nth_error l (S i) with
             | Some (s', _) => if e =? s' then e - us else e
             | None => e
             end).
Proof. exact trim_touch_exact. Qed.
Print Assumptions C13_trim_touch_exact.

Theorem C13_ctor_drops_unsorted_or_repaired : forall (T : Type) (l : list (Z * Z)) (m : frame T),
  strict_incb (map fst l) = false \/ strict_incb (map snd l) = false
  \/ fix_warn (combine (sortZ (map fst l)) (sortZ (map snd l))) = true ->
  exists out, mk_miset l m = Dropped out.
Proof. exact @mk_miset_drops. Qed.
Print Assumptions C13_ctor_drops_unsorted_or_repaired.

Theorem C13_ctor_canonical_kept : forall (T : Type) (A : iset) (m : frame T),
  canonical A -> labels m = rangeZ (length A) -> mk_miset A m = Kept A m.
Proof. exact @mk_miset_canonical. Qed.
Print Assumptions C13_ctor_canonical_kept.

Theorem C13_ctor_dataframe : forall (T : Type) (l : list (Z * Z * T)) out m,
  mk_miset_df l = Kept out m ->
  exists l1, Permutation l l1 /\ out = trim_touch (map fst l1) /\ m = range_frame (map snd l1).
Proof. exact @mk_miset_df_kept. Qed.
Print Assumptions C13_ctor_dataframe.

(* ---- IntervalSet.__getitem__: every key form ---- *)
(* positional keys (int, slice with any step, list / array in any order, boolean ndarray, ep[key, :]):
   output interval i is input interval ps[i] and carries the row that input interval had *)
Theorem C13_iset_index_attach : forall (T : Type) (o : tiset T) ps out m,
  iset_get_pos o ps = Kept out m ->
  forall i s e', nth_error out i = Some (s, e') ->
    exists p e t, nth_error ps i = Some p /\ nth_error (fst o) p = Some (s, e) /\ (e' = e \/ e' = e - us)
                  /\ nth_error (rows (snd o)) p = Some t /\ loc1 m (Z.of_nat i) = Some t.
Proof. exact @iset_get_pos_pointwise. Qed.
Print Assumptions C13_iset_index_attach.

(* order-preserving keys never lose the metadata and return the selected intervals unchanged *)
Theorem C13_iset_index_order_preserving : forall (T : Type) (o : tiset T) ps iv,
  wf_tiset o -> inc_from 0 ps -> sel (fst o) ps = Some iv ->
  exists tags, sel (rows (snd o)) ps = Some tags /\ iset_get_pos o ps = Kept iv (range_frame tags).
Proof. exact @iset_get_pos_increasing. Qed.
Print Assumptions C13_iset_index_order_preserving.

(* pd.Index / integer pd.Series keys (np.asarray(key), negative integers wrap): positional, like lists *)
Theorem C13_iset_index_pandas_int_keys : forall (T : Type) (o : tiset T) ks out m,
  iset_get_labels o ks = Kept out m ->
  exists ps, wrap_all (length (fst o)) ks = Some ps /\
  forall i s e', nth_error out i = Some (s, e') ->
    exists p e t, nth_error ps i = Some p /\ nth_error (fst o) p = Some (s, e) /\ (e' = e \/ e' = e - us)
                  /\ nth_error (rows (snd o)) p = Some t /\ loc1 m (Z.of_nat i) = Some t.
Proof. exact @iset_get_labels_pointwise. Qed.
Print Assumptions C13_iset_index_pandas_int_keys.

(* boolean pd.Series, its index in ANY order: exactly the intervals at the True positions, unchanged,
   each with the row it had; never dropped *)
Theorem C13_iset_index_bool_series : forall (T : Type) (o : tiset T) mask,
  wf_tiset o -> length mask = length (fst o) ->
  iset_get_bseries o mask
  = Kept (map snd (filter fst (combine (map snd mask) (fst o))))
         (range_frame (map snd (filter fst (combine (map snd mask) (rows (snd o)))))).
Proof. exact @iset_get_bseries_total. Qed.
Print Assumptions C13_iset_index_bool_series.

Theorem C13_iset_index_bool_series_index_irrelevant : forall (T : Type) (o : tiset T) mask mask',
  map snd mask = map snd mask' -> iset_get_bseries o mask = iset_get_bseries o mask'.
Proof. exact @iset_get_bseries_index_irrelevant. Qed.
Print Assumptions C13_iset_index_bool_series_index_irrelevant.

(* the forms BEFORE the repair (metadata by .loc): right on the aligned index, wrong on a re-ordered one *)
Theorem C13_iset_index_labels_orig : forall (T : Type) (o : tiset T) ks,
  wf_tiset o -> Forall (fun k => 0 <= k) ks -> iset_get_labels_orig o ks = iset_get_pos o (map Z.to_nat ks).
Proof. exact @iset_get_labels_orig_eq_pos. Qed.
Print Assumptions C13_iset_index_labels_orig.

Theorem C13_iset_index_bool_series_orig_aligned : forall (T : Type) (o : tiset T) mask,
  wf_tiset o -> map fst mask = rangeZ (length (fst o)) ->
  iset_get_bseries_orig o mask = iset_get_pos o (mask_pos (map snd mask)).
Proof. exact @iset_get_bseries_orig_aligned. Qed.
Print Assumptions C13_iset_index_bool_series_orig_aligned.

Theorem C13_iset_index_bool_series_orig_refuted :
  exists (o : tiset Z) mask out m,
    wf_tiset o /\ Permutation (map fst mask) (rangeZ (length (fst o)))
    /\ iset_get_bseries_orig o mask = Kept out m
    /\ exists s e t p, nth_error out 0 = Some (s, e) /\ loc1 m 0 = Some t
                       /\ nth_error (fst o) p = Some (s, e) /\ nth_error (rows (snd o)) p <> Some t.
Proof. exact iset_get_bseries_orig_refuted. Qed.
Print Assumptions C13_iset_index_bool_series_orig_refuted.

(* the tuple form ep[boolean pd.Series, :] BEFORE its repair took the intervals by position and the metadata by
   .iloc[Series], which pandas aligns on the labels: the same misattachment as the bare form had.  As repaired
   (key[0] = np.asarray(key[0])) the tuple forms ep[pd.Index / pd.Series, :] ARE iset_get_labels / iset_get_bseries,
   so C13_iset_index_pandas_int_keys / C13_iset_index_bool_series state them; the harness compares both forms
   with the same model function. *)
Theorem C13_iset_index_tuple_bool_series_orig_refuted :
  exists (o : tiset Z) mask out m,
    wf_tiset o /\ Permutation (map fst mask) (rangeZ (length (fst o)))
    /\ iset_get_bseries_tuple_orig o mask = Kept out m
    /\ exists s e t p, nth_error out 0 = Some (s, e) /\ loc1 m 0 = Some t
                       /\ nth_error (fst o) p = Some (s, e) /\ nth_error (rows (snd o)) p <> Some t.
Proof. exact iset_get_bseries_tuple_orig_refuted. Qed.
Print Assumptions C13_iset_index_tuple_bool_series_orig_refuted.

(* groupby(by, get_group = v) (p = "the row's value of `by` is v"): never drops the metadata, returns exactly
   the intervals whose own row is in the group, unchanged and in order, each with that row.
   (ep.loc[list] is ep[list]: C13_iset_index_attach.) *)
Theorem C13_iset_groupby_attach : forall (T : Type) (o : tiset T) (p : T -> bool),
  wf_tiset o ->
  iset_get_group o p
  = Kept (map snd (filter (fun x => p (fst x)) (combine (rows (snd o)) (fst o))))
         (range_frame (filter p (rows (snd o)))).
Proof. exact @iset_get_group_total. Qed.
Print Assumptions C13_iset_groupby_attach.

Theorem C13_iset_groupby_pointwise : forall (T : Type) (o : tiset T) (p : T -> bool) out m,
  iset_get_group o p = Kept out m ->
  forall i s e', nth_error out i = Some (s, e') ->
    exists q e t, nth_error (fst o) q = Some (s, e) /\ (e' = e \/ e' = e - us)
                  /\ nth_error (rows (snd o)) q = Some t /\ loc1 m (Z.of_nat i) = Some t.
Proof. exact @iset_get_group_pointwise. Qed.
Print Assumptions C13_iset_groupby_pointwise.

(* ---- intersect / set_diff / split: each output interval lies in the parent(s) whose row it carries ---- *)
Theorem C13_intersect_parents : forall (T U : Type) (a : tiset T) (b : tiset U),
  wf_tiset a -> wf_tiset b ->
  exists m, iset_intersect a b = Kept (k_inter (fst a) (fst b)) m
    /\ forall k s e, nth_error (k_inter (fst a) (fst b)) k = Some (s, e) ->
         exists i j s1 e1 s2 e2 t u,
           nth_error (fst a) i = Some (s1, e1) /\ nth_error (fst b) j = Some (s2, e2)
           /\ s = Z.max s1 s2 /\ e = Z.min e1 e2 /\ s < e
           /\ nth_error (rows (snd a)) i = Some t /\ nth_error (rows (snd b)) j = Some u
           /\ loc1 m (Z.of_nat k) = Some (t, u).
Proof. exact @iset_intersect_parents. Qed.
Print Assumptions C13_intersect_parents.

Theorem C13_set_diff_parents : forall (T : Type) (a : tiset T) (B : iset),
  wf_tiset a -> canonical B ->
  exists m, iset_set_diff a B = Kept (k_diff (fst a) B) m
    /\ forall k s e, nth_error (k_diff (fst a) B) k = Some (s, e) ->
         exists i s1 e1 t,
           nth_error (fst a) i = Some (s1, e1) /\ s1 <= s /\ e <= e1 /\ s < e
           /\ nth_error (rows (snd a)) i = Some t /\ loc1 m (Z.of_nat k) = Some t.
Proof. exact @iset_set_diff_parents. Qed.
Print Assumptions C13_set_diff_parents.

Theorem C13_split_parents : forall (T : Type) (a : tiset T) b,
  wf_tiset a -> us < b -> fst a <> [] ->
  exists m, iset_split a b = Kept (map fst (split_meta (fst a) b)) m
    /\ forall k s e, nth_error (map fst (split_meta (fst a) b)) k = Some (s, e) ->
         exists i s1 e1 t,
           nth_error (fst a) i = Some (s1, e1) /\ s1 <= s /\ e + us <= e1 /\ s < e
           /\ nth_error (rows (snd a)) i = Some t /\ loc1 m (Z.of_nat k) = Some t.
Proof. exact @iset_split_parents. Qed.
Print Assumptions C13_split_parents.

(* ---- union / time_span / merge_close_intervals return NO metadata ---- *)
Theorem C13_drops_not_misattaches : forall (T U : Type) (a : tiset T) (b : tiset U) thr,
  (exists iv, iset_union_meta a b = Dropped iv)
  /\ (forall iv m, iset_time_span a <> Kept iv m)
  /\ (exists iv, iset_merge_close a thr = Dropped iv).
Proof. exact @drops_not_misattaches. Qed.
Print Assumptions C13_drops_not_misattaches.

(* ---- TsdFrame: labels and metadata rows follow the selected columns ---- *)
(* positional column keys in any order (lists, slices, masks): column i of the result is column
   ps[i] of the input: same label, same data, same metadata row *)
Theorem C13_frame_cols_attach : forall (D T : Type) (o o' : tframe D T) ps,
  frame_get_pos o ps = Some o' ->
  sel (triples o) ps = Some (triples o') /\ labels (snd o') = map fst (fst o').
Proof. exact @frame_get_pos_attach. Qed.
Print Assumptions C13_frame_cols_attach.

(* with distinct labels, the row found under a column's label is the row at the column's position *)
Theorem C13_frame_positional_meaning : forall (D T : Type) (o : tframe D T), wf_tframe o ->
  forall p l d, nth_error (fst o) p = Some (l, d) ->
    exists t, nth_error (snd o) p = Some (l, t) /\ nth_error (triples o) p = Some (l, d, Some t).
Proof. exact @triples_positional. Qed.
Print Assumptions C13_frame_positional_meaning.

Theorem C13_frame_labels_attach : forall (D T : Type) (o o' : tframe D T) ks,
  frame_get_labels o ks = Some o' ->
  map fst (fst o') = ks /\ incl (triples o') (triples o) /\ labels (snd o') = ks.
Proof. exact @frame_get_labels_attach. Qed.
Print Assumptions C13_frame_labels_attach.

Theorem C13_frame_mask_attach : forall (D T : Type) (o o' : tframe D T) mask,
  frame_get_mask o mask = Some o' -> sel (triples o) (mask_pos mask) = Some (triples o').
Proof. exact @frame_get_mask_attach. Qed.
Print Assumptions C13_frame_mask_attach.

Theorem C13_frame_groupby_attach : forall (D T : Type) (o o' : tframe D T) (p : T -> bool),
  wf_tframe o -> frame_get_group o p = Some o' ->
  map fst (fst o') = map fst (filter (fun r => p (snd r)) (snd o))
  /\ incl (triples o') (triples o)
  /\ Forall (fun t => exists v, snd t = Some v /\ p v = true) (triples o').
Proof. exact @frame_get_group_attach. Qed.
Print Assumptions C13_frame_groupby_attach.

(* restrict, get, row slicing, arithmetic, ufuncs: columns transformed one by one, labels and rows kept *)
Theorem C13_frame_same_columns : forall (D T : Type) (f : D -> D) (o : tframe D T),
  labels (snd o) = map fst (fst o) ->
  exists o', frame_map f o = Some o'
    /\ triples o' = map (fun t => (fst (fst t), f (snd (fst t)), snd t)) (triples o).
Proof. exact @frame_map_attach. Qed.
Print Assumptions C13_frame_same_columns.

(* ---- TsGroup: members and rows follow the key ---- *)
Theorem C13_group_keys_attach : forall (M T : Type) (o o' : tgroup M T) ks,
  group_get_keys o ks = Some o' ->
  map fst (fst o') = sortZ ks /\ incl (triples o') (triples o) /\ wf_group o'.
Proof. exact @group_get_keys_attach. Qed.
Print Assumptions C13_group_keys_attach.

Theorem C13_group_mask_attach : forall (M T : Type) (o o' : tgroup M T) mask,
  group_get_mask o mask = Some o' ->
  exists ks, sel (map fst (fst o)) (mask_pos mask) = Some ks
             /\ map fst (fst o') = sortZ ks /\ incl (triples o') (triples o).
Proof. exact @group_get_mask_attach. Qed.
Print Assumptions C13_group_mask_attach.

Theorem C13_group_members_ops : forall (M T : Type) (f : M -> M) (o : tgroup M T),
  wf_group o ->
  exists o', group_map f o = Some o'
    /\ triples o' = map (fun t => (fst (fst t), f (snd (fst t)), snd t)) (triples o).
Proof. exact @group_map_attach. Qed.
Print Assumptions C13_group_members_ops.

Theorem C13_group_merge_attach : forall (M T : Type) (a b o' : tgroup M T),
  labels (snd a) = map fst (fst a) -> labels (snd b) = map fst (fst b) ->
  group_merge false a b = Some o' ->
  map fst (fst o') = sortZ (map fst (fst a) ++ map fst (fst b))
  /\ (forall x, In x (triples o') -> In x (triples a) \/ In x (triples b))
  /\ wf_group o'.
Proof. exact @group_merge_attach. Qed.
Print Assumptions C13_group_merge_attach.

(* merge_group ALWAYS returns for well-formed groups with disjoint keys (interleaved or not); with
   C13_group_merge_attach: the merged group holds every key with its own member and its own row *)
Theorem C13_group_merge_total : forall (M T : Type) (a b : tgroup M T),
  wf_group a -> wf_group b -> (forall k, In k (map fst (fst a)) -> ~ In k (map fst (fst b))) ->
  exists o', group_merge false a b = Some o'.
Proof. exact @group_merge_total. Qed.
Print Assumptions C13_group_merge_total.

(* merge_group(reset_index=True): always returns (no disjointness needed), the keys are 0..n-1, and the sequence of
   (member, metadata row found under the member's key) pairs is that of a followed by that of b: every member keeps
   its own row under its new key *)
Theorem C13_group_merge_reset_attach : forall (M T : Type) (a b : tgroup M T),
  wf_group a -> wf_group b ->
  exists o', group_merge true a b = Some o'
    /\ map fst (fst o') = rangeZ (length (fst a) + length (fst b))
    /\ map (fun t => (snd (fst t), snd t)) (triples o')
       = map (fun t => (snd (fst t), snd t)) (triples a ++ triples b)
    /\ wf_group o'.
Proof. exact @group_merge_reset_attach. Qed.
Print Assumptions C13_group_merge_reset_attach.

(* before the repair (metadata concatenated, not sorted) interleaved keys made merge_group raise *)
Theorem C13_group_merge_orig_interleaved_refuted :
  exists (a b : tgroup Z Z), wf_group a /\ wf_group b
    /\ (forall k, In k (map fst (fst a)) -> ~ In k (map fst (fst b)))
    /\ group_merge_orig a b = None.
Proof. exact group_merge_orig_interleaved_refuted. Qed.
Print Assumptions C13_group_merge_orig_interleaved_refuted.

Example C13_nonvacuous :
  wf_tiset ([(0, 10); (20, 30); (40, 50)], range_frame [100; 200; 300])
  /\ iset_get_pos ([(0, 10); (20, 30); (40, 50)], range_frame [100; 200; 300]) [0; 2]%nat
     = Kept [(0, 10); (40, 50)] [(0, 100); (1, 300)]
  /\ iset_get_pos ([(0, 10); (20, 30); (40, 50)], range_frame [100; 200; 300]) [2; 0]%nat
     = Dropped [(0, 10); (40, 50)]
  /\ iset_set_diff ([(0, 10); (20, 30); (40, 50)], range_frame [100; 200; 300]) [(5, 25)]
     = Kept [(0, 5); (25, 30); (40, 50)] [(0, 100); (1, 200); (2, 300)]
  /\ frame_get_labels ([(7, 70); (3, 30); (5, 50)], [(7, 700); (3, 300); (5, 500)]) [5; 7]
     = Some ([(5, 50); (7, 70)], [(5, 500); (7, 700)])
  /\ group_get_keys ([(1, 10); (4, 40); (9, 90)], [(1, 100); (4, 400); (9, 900)]) [9; 1]
     = Some ([(1, 10); (9, 90)], [(1, 100); (9, 900)])
  /\ group_merge false ([(1, 10); (5, 50)], [(1, 100); (5, 500)]) ([(2, 20); (3, 30)], [(2, 200); (3, 300)])
     = Some ([(1, 10); (2, 20); (3, 30); (5, 50)], [(1, 100); (2, 200); (3, 300); (5, 500)])
  /\ iset_get_bseries ([(0, 10); (20, 30)], range_frame [100; 200]) [(1, true); (0, false)]
     = Kept [(0, 10)] [(0, 100)]
  /\ iset_get_group ([(0, 10); (20, 30); (40, 50)], range_frame [100; 200; 300]) (fun t => negb (t =? 200))
     = Kept [(0, 10); (40, 50)] [(0, 100); (1, 300)]
  /\ iset_get_bseries_tuple_orig ([(0, 10); (20, 30)], range_frame [100; 200]) [(1, true); (0, false)]
     = Kept [(0, 10)] [(0, 200)].
Proof. vm_compute. repeat split; try reflexivity; lia. Qed.
