(* C17 — tuning curves are spikes per occupancy; decoding is their Bayes posterior.   PARTIAL.
   Statements only; proofs in Proofs/TuningProofs.v and Proofs/DecodingProofs.v; models in Model/Tuning.v
   (over Model/Restrict.v, Model/ValueFrom.v [value_from mode 1 = closest], Model/Count.v [count grid]).
   Times are ticks; feature values are integers and bin edges np.linspace(lo,hi,nb+1) are scaled by nb.
   PARTIAL because the numerics are NumPy's: np.histogram (H), np.histogram2d (H2), np.digitize - 1 (D) and
   exp (E) are universally quantified functions whose assumed laws are printed as premises of the closed
   theorems:  H = hist, H2 = hist2d (half-open bins, last bin closed),  D = dig (all bins half-open),
   E positive (and, for one theorem, respecting ==).  The executable hist/hist2d/dig are compared with NumPy
   by the correspondence check on a complete small space.  tcval: TNaN = 0/0, TInf = x/0, TVal q. *)
From Coq Require Import QArith.
From Verif Require Import Base.Prelude Model.Restrict Model.Count Model.ValueFrom Model.Tuning
                          Proofs.TuningProofs Proofs.DecodingProofs.
Local Open Scope Z_scope.

(* ------------------------------------------------------------------------------------------------ *)
(* 1. compute_discrete_tuning_curves: spikes inside the epoch set / its total duration              *)
Theorem C17_discrete_count : forall sp ep, sortedZ sp -> canonical ep ->
  discrete_count sp ep = count_if (fun t => mem t ep) sp.
Proof. exact discrete_count_spec. Qed.
Print Assumptions C17_discrete_count.

(* rate [Hz] x duration [s] = count *)
Theorem C17_discrete_rate : forall sp ep, 0 < tot_length ep ->
  (discrete_tc sp ep * Qmake (tot_length ep) 1000000000 == inject_Z (Z.of_nat (discrete_count sp ep)))%Q.
Proof. exact discrete_tc_spec. Qed.
Print Assumptions C17_discrete_rate.

Theorem C17_discrete_duration_pos : forall ep, canonical ep -> ep <> [] -> 0 < tot_length ep.
Proof. exact tot_length_pos. Qed.
Print Assumptions C17_discrete_duration_pos.

(* ------------------------------------------------------------------------------------------------ *)
(* 2. the histogram rule: every value of [first edge, last edge] lies in exactly one bin             *)
Theorem C17_hist_bin_unique : forall edges x k, increasing edges ->
  (bin_of edges x = Some k <-> (k < nbins edges)%nat /\ hbin edges k x = true).
Proof. exact hist_bin_of. Qed.
Print Assumptions C17_hist_bin_unique.

Theorem C17_hist_conservation : forall edges xs, increasing edges -> (2 <= length edges)%nat ->
  sum_nat (hist edges xs) = count_if (fun x => (hd 0 edges <=? x) && (x <=? last edges 0)) xs.
Proof. exact hist_conservation. Qed.
Print Assumptions C17_hist_conservation.

Theorem C17_linspace : forall lo hi nb, lo < hi -> (0 < nb)%nat ->
  increasing (lin_edges lo hi nb) /\ length (lin_edges lo hi nb) = S nb /\
  hd 0 (lin_edges lo hi nb) = lo * Z.of_nat nb /\ last (lin_edges lo hi nb) 0 = hi * Z.of_nat nb /\
  (forall k, (k <= nb)%nat -> nth k (lin_edges lo hi nb) 0 = lo * Z.of_nat nb + Z.of_nat k * (hi - lo)).
Proof. exact lin_edges_spec. Qed.
Print Assumptions C17_linspace.

(* ------------------------------------------------------------------------------------------------ *)
(* 3. attribution: a spike in ep gets the value of the feature sample nearest in time within ITS epoch
      (C06, mode closest), NaN iff that epoch holds no feature sample; spikes outside ep get nothing  *)
Theorem C17_attribution_per_epoch : forall sp ft fv ep,
  sortedZ sp -> sortedZ ft -> canonical ep -> length fv = length ft ->
  attributed sp ft fv ep =
  concat (map (fun iv => attr_block (filter (fun x => inb x iv) sp)
                                    (filter (fun r => inb (fst r) iv) (combine ft fv))) ep).
Proof. exact attributed_structure. Qed.
Print Assumptions C17_attribution_per_epoch.

Theorem C17_attribution_nearest : forall qs rows, rows <> [] -> sortedZ (map fst rows) -> sortedZ qs ->
  Forall2 (fun x o => nearest x rows o) qs (attr_block qs rows).
Proof. exact attr_block_nearest. Qed.
Print Assumptions C17_attribution_nearest.

Theorem C17_attribution_empty_epoch : forall qs, attr_block qs [] = map (fun _ => None) qs.
Proof. exact attr_block_empty. Qed.
Print Assumptions C17_attribution_empty_epoch.

Theorem C17_attribution_one_per_spike_in_ep : forall sp ft fv ep,
  length (attributed sp ft fv ep) = length (restrict_idx sp ep).
Proof. exact attributed_length. Qed.
Print Assumptions C17_attribution_one_per_spike_in_ep.

(* ------------------------------------------------------------------------------------------------ *)
(* 4. compute_1d_tuning_curves (np.histogram = H)                                                    *)
(* the count of bin k = number of spikes in ep whose attributed feature value lies in bin k *)
Theorem C17_tc1d_count : forall H : list Z -> list Z -> list nat,
  (forall edges xs, H edges xs = hist edges xs) ->
  forall edges sp ft fv ep,
  tc1d_count H edges sp ft fv ep =
  map (fun k => count_if (in_hbin edges k) (attributed sp ft fv ep)) (seq 0 (nbins edges)).
Proof. exact tc1d_count_spec. Qed.
Print Assumptions C17_tc1d_count.

(* conservation: spikes in = sum over bins *)
Theorem C17_tc1d_conservation : forall H : list Z -> list Z -> list nat,
  (forall edges xs, H edges xs = hist edges xs) ->
  forall edges sp ft fv ep, increasing edges -> (2 <= length edges)%nat ->
  sum_nat (tc1d_count H edges sp ft fv ep) = count_if (in_range_o edges) (attributed sp ft fv ep).
Proof. exact tc1d_conservation. Qed.
Print Assumptions C17_tc1d_conservation.

(* value: tc_k * occupancy_k = count_k * rate when the bin is visited; NaN (0/0) when it is not; never x/0 *)
Theorem C17_tc1d_value : forall H : list Z -> list Z -> list nat,
  (forall edges xs, H edges xs = hist edges xs) ->
  forall rate edges sp ft fv ep k, (k < nbins edges)%nat ->
  let c := nth k (tc1d_count H edges sp ft fv ep) 0%nat in
  let o := nth k (tc1d_occ H edges ft fv ep) 0%nat in
  (o = 0%nat -> nth k (tc1d H rate edges sp ft fv ep) TInf = TNaN) /\
  (o <> 0%nat -> exists q, nth k (tc1d H rate edges sp ft fv ep) TInf = TVal q /\
                 (q * inject_Z (Z.of_nat o) == inject_Z (Z.of_nat c) * rate)%Q).
Proof. exact tc1d_value. Qed.
Print Assumptions C17_tc1d_value.

(* "times the feature sampling rate": in C17_tc1d_value the rate is a free variable.  The statement's rate is the
   feature's own: number of its samples / total duration [s] of ITS time support (pynapple's .rate), NOT that of
   the feature restricted to ep; the harness oracle accepts this reading only (for the 1-d and the 2-d function). *)
Definition feature_rate (ft : list Z) (fsup : iset) : Q :=
  (inject_Z (Z.of_nat (length ft)) / Qmake (tot_length fsup) 1000000000)%Q.

Theorem C17_tc1d_value_feature_rate : forall H : list Z -> list Z -> list nat,
  (forall edges xs, H edges xs = hist edges xs) ->
  forall fsup edges sp ft fv ep k, (k < nbins edges)%nat ->
  let c := nth k (tc1d_count H edges sp ft fv ep) 0%nat in
  let o := nth k (tc1d_occ H edges ft fv ep) 0%nat in
  o <> 0%nat -> exists q, nth k (tc1d H (feature_rate ft fsup) edges sp ft fv ep) TInf = TVal q /\
                 (q * inject_Z (Z.of_nat o) == inject_Z (Z.of_nat c) * feature_rate ft fsup)%Q.
Proof. intros H HH fsup edges sp ft fv ep k Hk. exact (proj2 (tc1d_value H HH (feature_rate ft fsup) edges sp ft fv ep k Hk)). Qed.
Print Assumptions C17_tc1d_value_feature_rate.

(* the two readings differ as soon as ep cuts the feature: 11 samples on [0,10] s, ep = [0,5] s holds 6 of them:
   11/10 Hz against 6/5 Hz (audit input: compute_1d gives 2/6 x 11/10, compute_2d 2/6 x 6/5 on the same data) *)
Theorem C17_rate_readings_differ :
  let ft := map (fun k => k * 1000000000) [0; 1; 2; 3; 4; 5; 6; 7; 8; 9; 10] in
  let ep := [(0, 5000000000)] in let fsup := [(0, 10000000000)] in
  feature_rate ft fsup == 11 # 10 /\ feature_rate (select 0 ft (restrict_idx ft ep)) ep == 6 # 5.
Proof. vm_compute. split; reflexivity. Qed.
Print Assumptions C17_rate_readings_differ.

Theorem C17_tc1d_unvisited_has_no_spike : forall H : list Z -> list Z -> list nat,
  (forall edges xs, H edges xs = hist edges xs) ->
  forall edges sp ft fv ep k,
  nth k (tc1d_occ H edges ft fv ep) 0%nat = 0%nat -> nth k (tc1d_count H edges sp ft fv ep) 0%nat = 0%nat.
Proof. exact tc1d_visited. Qed.
Print Assumptions C17_tc1d_unvisited_has_no_spike.

Theorem C17_tc1d_never_inf : forall H : list Z -> list Z -> list nat,
  (forall edges xs, H edges xs = hist edges xs) ->
  forall rate edges sp ft fv ep, Forall (fun v => v <> TInf) (tc1d H rate edges sp ft fv ep).
Proof. exact tc1d_never_inf. Qed.
Print Assumptions C17_tc1d_never_inf.

(* ------------------------------------------------------------------------------------------------ *)
(* 5. compute_2d_tuning_curves (np.histogram2d = H2): both coordinates come from the same sample      *)
Theorem C17_tc2d_same_sample : forall sp ft fx fy ep,
  map (option_map fst) (attributed2 sp ft fx fy ep) = attributed sp ft fx ep /\
  map (option_map snd) (attributed2 sp ft fx fy ep) = attributed sp ft fy ep.
Proof. intros. split; [apply attributed2_fst | apply attributed2_snd]. Qed.
Print Assumptions C17_tc2d_same_sample.

Theorem C17_tc2d_count : forall H2 : list Z -> list Z -> list (Z * Z) -> list (list nat),
  (forall ex ey pts, H2 ex ey pts = hist2d ex ey pts) ->
  forall ex ey sp ft fx fy ep,
  tc2d_count H2 ex ey sp ft fx fy ep =
  map (fun i => map (fun j => count_if (in_hbin2 ex ey i j) (attributed2 sp ft fx fy ep)) (seq 0 (nbins ey)))
      (seq 0 (nbins ex)).
Proof. exact tc2d_count_spec. Qed.
Print Assumptions C17_tc2d_count.

Theorem C17_tc2d_conservation : forall H2 : list Z -> list Z -> list (Z * Z) -> list (list nat),
  (forall ex ey pts, H2 ex ey pts = hist2d ex ey pts) ->
  forall ex ey sp ft fx fy ep,
  increasing ex -> increasing ey -> (2 <= length ex)%nat -> (2 <= length ey)%nat ->
  sum_nat (map sum_nat (tc2d_count H2 ex ey sp ft fx fy ep)) =
  count_if (fun o => match o with
                     | Some (x, y) => (hd 0 ex <=? x) && (x <=? last ex 0) && (hd 0 ey <=? y) && (y <=? last ey 0)
                     | None => false end) (attributed2 sp ft fx fy ep).
Proof. exact tc2d_conservation. Qed.
Print Assumptions C17_tc2d_conservation.

Theorem C17_tc2d_never_inf : forall H2 : list Z -> list Z -> list (Z * Z) -> list (list nat),
  (forall ex ey pts, H2 ex ey pts = hist2d ex ey pts) ->
  forall rate ex ey sp ft fx fy ep,
  Forall (Forall (fun v => v <> TInf)) (tc2d H2 rate ex ey sp ft fx fy ep).
Proof. exact tc2d_never_inf. Qed.
Print Assumptions C17_tc2d_never_inf.

(* ------------------------------------------------------------------------------------------------ *)
(* 6. continuous variants (np.digitize - 1 = D): per visited bin (n, sum) of the signal samples whose
      attributed feature value lies in the bin AND differs from the last edge; NaN for unvisited bins *)
Theorem C17_cont_spec : forall (H : list Z -> list Z -> list nat) (D : list Z -> Z -> option nat),
  (forall edges x, D edges x = dig edges x) ->
  forall edges st sv ft fv ep, increasing edges ->
  cont_tc D H edges st sv ft fv ep =
  map (fun ko =>
         if (snd ko =? 0)%nat then None
         else let vals := map snd (filter (fun r => match fst r with
                                                    | Some x => hbin edges (fst ko) x && negb (x =? last edges 0)
                                                    | None => false end)
                                          (cont_rows st sv ft fv ep)) in
              Some (length vals, sumZ vals))
      (combine (seq 0 (nbins edges)) (tc1d_occ H edges ft fv ep)).
Proof. exact cont_spec. Qed.
Print Assumptions C17_cont_spec.

Theorem C17_cont_unvisited_nan : forall H : list Z -> list Z -> list nat,
  (forall edges xs, H edges xs = hist edges xs) ->
  forall (D : list Z -> Z -> option nat) edges st sv ft fv ep k, (k < nbins edges)%nat ->
  nth k (tc1d_occ H edges ft fv ep) 0%nat = 0%nat ->
  nth k (cont_tc D H edges st sv ft fv ep) (Some (0%nat, 0)) = None.
Proof. exact cont_unvisited_nan. Qed.
Print Assumptions C17_cont_unvisited_nan.

(* digitize and histogram agree except ON the last edge, which histogram puts in the last bin and digitize drops *)
Theorem C17_digitize_vs_histogram : forall edges x, increasing edges -> x <> last edges 0 ->
  dig edges x = bin_of edges x.
Proof. exact dig_bin_of. Qed.
Print Assumptions C17_digitize_vs_histogram.

Theorem C17_digitize_drops_last_edge : forall edges, increasing edges -> (2 <= length edges)%nat ->
  dig edges (last edges 0) = None /\ bin_of edges (last edges 0) = Some (nbins edges - 1)%nat.
Proof. exact dig_last. Qed.
Print Assumptions C17_digitize_drops_last_edge.

(* REFUTED clause: "the mean signal over samples whose feature falls in the bin" fails for samples whose
   feature value equals the LAST edge (always present with an inferred minmax): feature 0,1,2,3 and signal
   10,20,30,40 at the same times, 2 bins over [0,3]: the code's last bin holds (1 sample, sum 30), the bin by
   the histogram rule holds the signal values 30 and 40.  Replayed on /repo: [15, 30] instead of [15, 35]. *)
Theorem C17_cont_last_edge_refuted :
  exists edges st sv ft fv ep k, increasing edges /\
    nth k (cont_tc dig hist edges st sv ft fv ep) None = Some (1%nat, 30) /\
    map snd (filter (fun r => in_hbin edges k (fst r)) (cont_rows st sv ft fv ep)) = [30; 40].
Proof.
  exists (lin_edges 0 3 2), [0; 1000; 2000; 3000], [10; 20; 30; 40], [0; 1000; 2000; 3000],
         (scale 2 [0; 1; 2; 3]), [(0, 3000)], 1%nat.
  split; [apply (lin_edges_spec 0 3 2); [reflexivity | apply Nat.lt_0_succ] | exact cont_last_edge_refuted].
Qed.
Print Assumptions C17_cont_last_edge_refuted.

(* REFUTED reading "a visited bin that holds no signal sample has no mean, hence NaN": the model (as the code) returns
   a VALUE for every visited bin, with n = 0 samples and sum 0 - the code writes 0.0 (tc[np.isnan(tc)] = 0.0), which
   cannot be told from a genuine zero mean.  Feature 0,1,2 at 0,1,2 s, signal 5,7 at 0 and 2 s, 3 bins over [0,3]:
   bin 1 is visited (occupancy 1), no signal sample is attributed to it.  Replayed on /repo: [5.0, 0.0, 7.0]. *)
Theorem C17_cont_empty_visited_bin_refuted :
  exists edges st sv ft fv ep k, increasing edges /\ (k < nbins edges)%nat /\
    nth k (tc1d_occ hist edges ft fv ep) 0%nat = 1%nat /\
    filter (fun r => in_hbin edges k (fst r)) (cont_rows st sv ft fv ep) = [] /\
    nth k (cont_tc dig hist edges st sv ft fv ep) None = Some (0%nat, 0).
Proof.
  exists (lin_edges 0 3 3), [0; 2000], [5; 7], [0; 1000; 2000], (scale 3 [0; 1; 2]), [(0, 2000)], 1%nat.
  split; [apply (lin_edges_spec 0 3 3); [reflexivity | apply Nat.lt_0_succ] | vm_compute; repeat split; auto with arith].
Qed.
Print Assumptions C17_cont_empty_visited_bin_refuted.

(* ------------------------------------------------------------------------------------------------ *)
(* 7. decoding (exp = E, positive)                                                                    *)
Local Open Scope Q_scope.

(* p1*p2*p3 of the code, bin by bin: E(-bin_size * sum_j r_ij) * occ_i/sum(occ) * prod_j r_ij^c_j *)
Theorem C17_posterior_terms : forall (E : Q -> Q) b occ tc cnt,
  weights E b occ tc cnt =
  map (fun pr => E (- (b * Qsum (snd pr))) * fst pr *
                 Qprod (map (fun rc => Qpow (fst rc) (snd rc)) (combine (snd pr) cnt)))
      (combine (prior occ) tc).
Proof. exact weights_shape. Qed.
Print Assumptions C17_posterior_terms.

Theorem C17_posterior_shape : forall (E : Q -> Q) b occ tc cnt i,
  nth i (posterior E b occ tc cnt) 0 == nth i (weights E b occ tc cnt) 0 / Qsum (weights E b occ tc cnt).
Proof. exact posterior_shape. Qed.
Print Assumptions C17_posterior_shape.

Theorem C17_posterior_proportional : forall (E : Q -> Q) b occ tc cnt i k,
  ~ Qsum (weights E b occ tc cnt) == 0 ->
  nth i (posterior E b occ tc cnt) 0 * nth k (weights E b occ tc cnt) 0 ==
  nth k (posterior E b occ tc cnt) 0 * nth i (weights E b occ tc cnt) 0.
Proof. exact posterior_proportional. Qed.
Print Assumptions C17_posterior_proportional.

(* positive tuning curves and a prior positive somewhere: the posterior sums to 1 *)
Theorem C17_posterior_normalised : forall E : Q -> Q, (forall x, 0 < E x) ->
  forall b occ tc cnt,
  Forall (fun o => 0 <= o) occ -> (exists o, In o occ /\ 0 < o) -> length tc = length occ ->
  Forall (Forall (fun r => 0 < r)) tc ->
  Qsum (posterior E b occ tc cnt) == 1.
Proof. exact posterior_normalised. Qed.
Print Assumptions C17_posterior_normalised.

(* the decoded value is a bin centre, the one at the FIRST maximum of the posterior (= of the weights) *)
Theorem C17_decoded_is_argmax_centre : forall E : Q -> Q, (forall x, 0 < E x) ->
  forall b occ tc cnt centres,
  Forall (fun o => 0 <= o) occ -> (exists o, In o occ /\ 0 < o) -> length tc = length occ ->
  Forall (Forall (fun r => 0 < r)) tc -> length centres = length occ -> occ <> [] ->
  let p := posterior E b occ tc cnt in
  decoded centres p = nth (argmax (weights E b occ tc cnt)) centres 0 /\
  In (decoded centres p) centres /\
  Forall (fun x => x <= nth (argmax p) p 0) p /\
  (forall k, (k < argmax p)%nat -> nth k p 0 < nth (argmax p) p 0).
Proof. exact decoded_is_argmax_centre. Qed.
Print Assumptions C17_decoded_is_argmax_centre.

(* equal summed rates: the exponential cancels and the argmax is that of occ_i * prod r^c (exact in Q) *)
Theorem C17_argmax_exp_cancels : forall E : Q -> Q, (forall x, 0 < E x) ->
  forall b occ tc cnt s,
  Forall (fun row => Qsum row == s) tc -> (forall x y, x == y -> E x == E y) ->
  argmax (weights E b occ tc cnt) = argmax (wls occ tc cnt).
Proof. exact argmax_exp_cancels. Qed.
Print Assumptions C17_argmax_exp_cancels.

(* "product of rate^count": unit j's rate goes with unit j's OWN count.  The model pairs column j of the tuning curve
   with entry j of the count vector (C17_posterior_terms: combine (snd pr) cnt); which unit sits at position j on either
   side (the keys) is not modelled.  The pairing is not immaterial: tuning-curve columns [unit 5; unit 3] = rows [10;1],
   [1;10] (equal summed rates, so exp cancels), unit 5 fired 4 times and unit 3 never.  Paired by key the counts are [4;0]
   and bin 0 wins; a group passed as dict is re-sorted by key (counts [0;4] for keys [3;5]) and, paired by POSITION with the
   unsorted columns, bin 1 wins.  Replayed on /repo: decode_1d(tc[[5,3]], {5:a,3:b}, ...) decodes the wrong bin silently;
   the harness pairs by key (input class keys=tc_permuted). *)
Theorem C17_decode_pairing_by_position_refuted :
  let tc := [[10; 1]; [1; 10]] in let occ := [1; 1] in let E := fun _ : Q => 1 in
  argmax (posterior E (bin_size_s 1000000000) occ tc [4%nat; 0%nat]) = 0%nat /\
  argmax (posterior E (bin_size_s 1000000000) occ tc [0%nat; 4%nat]) = 1%nat.
Proof. vm_compute. split; reflexivity. Qed.
Print Assumptions C17_decode_pairing_by_position_refuted.

Local Open Scope Z_scope.
(* time bins of decode = the grid of count(bin_size, ep) (C05), one count per unit *)
Theorem C17_decode_time_bins : forall units ep b, 0 < b -> Forall sortedZ units -> canonical ep ->
  count_rows units ep b =
  map (fun t => (nth t (map fst (count_spec [] ep b)) 0,
                 map (fun sp => nth t (map snd (count_spec sp ep b)) 0%nat) units))
      (seq 0 (length (count_spec [] ep b))).
Proof. exact count_rows_spec. Qed.
Print Assumptions C17_decode_time_bins.

(* pre-binned TsdFrame: exactly the rows lying in ep are decoded (decode_1d; decode_2d below) *)
Theorem C17_decode_prebinned_rows : forall (E : Q -> Q) occ tc centres rows ep b,
  map fst (decode_binned E occ tc centres rows ep b) = filter (fun t => mem t ep) (map fst rows).
Proof. exact decode_binned_times. Qed.
Print Assumptions C17_decode_prebinned_rows.

(* decode_2d on a pre-binned TsdFrame (repaired tree, count = newgroup): the posterior ARRAY has exactly one row per
   decoded time bin, these are the rows lying in ep, and each decoded (x, y) is the pair of centres at
   unravel_index(argmax of that row, (nx, ny)) over the row-major flattened cells *)
Theorem C17_decode2d_prebinned_rows : forall (E : Q -> Q) occ tc cx cy rows ep b,
  length (decode2d_post E occ tc rows ep b) = length (decode2d_decoded E occ tc cx cy rows ep b) /\
  map fst (decode2d_decoded E occ tc cx cy rows ep b) = filter (fun t => mem t ep) (map fst rows).
Proof. exact decode2d_rows_aligned. Qed.
Print Assumptions C17_decode2d_prebinned_rows.

Theorem C17_decode2d_decoded_cell : forall (E : Q -> Q) occ tc cx cy rows ep b,
  Forall2 (fun p d => snd d = (nth (argmax p / length cy) cx 0%Q, nth (argmax p mod length cy) cy 0%Q))
          (decode2d_post E occ tc rows ep b) (decode2d_decoded E occ tc cx cy rows ep b).
Proof. exact decode2d_row_spec. Qed.
Print Assumptions C17_decode2d_decoded_cell.

Theorem C17_unravel : forall ny i j, (j < ny)%nat -> unravel ny (i * ny + j) = (i, j).
Proof. exact unravel_spec. Qed.
Print Assumptions C17_unravel.

(* occupancy prior: the edges rebuilt from >= 2 equally spaced bin centres are the original edges,
   so the prior is the histogram of the feature over the tuning curve's own bins *)
Theorem C17_decode_occupancy : forall H : list Z -> list Z -> list nat,
  (forall edges xs, H edges xs = hist edges xs) ->
  forall lo hi nb fv, (2 <= nb)%nat ->
  decode_occ H (centres2 (lin_edges lo hi nb)) fv = Some (hist (lin_edges lo hi nb) fv).
Proof. exact decode_occ_spec. Qed.
Print Assumptions C17_decode_occupancy.

(* REFUTED for "all bin numbers": with ONE feature bin and an occupancy prior the code indexes an empty
   array (np.diff of a single centre): no posterior is returned.  Replayed on /repo: IndexError. *)
Theorem C17_decode_one_bin_prior_refuted : forall (H : list Z -> list Z -> list nat) lo hi fv,
  decode_occ H (centres2 (lin_edges lo hi 1)) fv = None.
Proof. exact decode_occ_one_bin_refuted. Qed.
Print Assumptions C17_decode_one_bin_prior_refuted.

(* ------------------------------------------------------------------------------------------------ *)
(* a concrete non-trivial state: 2 epochs, a spike midway between two samples (the kernel takes the later),
   one outside ep, an epoch without feature sample;
   3 bins over [0,3] (scaled by 3), the last bin visited only through the closed last edge *)
Example C17_nonvacuous :
  sortedZ [100; 1500; 2000; 5000; 9000] /\ sortedZ [0; 1000; 2000; 3000] /\ canonical [(0, 3000); (8000, 9500)] /\
  increasing (lin_edges 0 3 3) /\
  attributed [100; 1500; 2000; 5000; 9000] [0; 1000; 2000; 3000] (scale 3 [0; 1; 3; 3]) [(0, 3000); (8000, 9500)]
    = [Some 0; Some 9; Some 9; None] /\
  tc1d_count hist (lin_edges 0 3 3) [100; 1500; 2000; 5000; 9000] [0; 1000; 2000; 3000] (scale 3 [0; 1; 3; 3]) [(0, 3000); (8000, 9500)]
    = [1%nat; 0%nat; 2%nat] /\
  tc1d_occ hist (lin_edges 0 3 3) [0; 1000; 2000; 3000] (scale 3 [0; 1; 3; 3]) [(0, 3000); (8000, 9500)]
    = [1%nat; 1%nat; 2%nat] /\
  (Qsum (posterior (fun _ => 1%Q) (bin_size_s 1000000) (occ_q [1%nat; 1%nat; 2%nat])
                   [[1%Q; 2%Q]; [2%Q; 1%Q]; [3%Q; 3%Q]] [1%nat; 2%nat]) == 1)%Q /\
  argmax (posterior (fun _ => 1%Q) (bin_size_s 1000000) (occ_q [1%nat; 1%nat; 2%nat])
                    [[1%Q; 2%Q]; [2%Q; 1%Q]; [3%Q; 3%Q]] [1%nat; 2%nat]) = 2%nat.
Proof. vm_compute. repeat split; intuition congruence. Qed.
