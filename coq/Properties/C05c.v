(* C05, tie of the Python GLUE by PROOF: _count, _bin_average (pynapple/core/_core_functions.py) and the plain-Python
   wrapper jitbin_array (pynapple/core/_jitted_functions.py), translated by tools/py2glue.py (Gen/Glue.v, regenerated from
   /repo on every run), against the hand models count_binned / bin_sum_cnt (Model/Count.v) and restrict_cnt
   (Model/Restrict.v).
     _count with a bin size: (time_array, starts, ends, bin_size) go to jitcount; its (centres, counts) are returned.
     _count without (None): the counts are the SECOND result of jitrestrict_with_count and the times are
        starts + (ends - starts) / 2, the exact midpoints (a half tick when start + end is odd).
     jitbin_array / _bin_average (numpy backend declared): idx, countin = jitrestrict_with_count(t, s, e), then
        _jitbin_array(countin, t[idx], d[idx], s, e, bin_size): both arrays re-indexed by idx, countin first.
   First form: any kernel environment meeting the pointwise contracts; second form: the translated kernel TEXT
   (hypotheses = the kernels' own: start <= end, 0 < bin size; each shown necessary by a computed counter-example in
   Glue/Ref__count.v / Glue/Ref__bin_average.v).  Proofs: Glue/Facts_c05.v, Glue/Ref__count.v, Glue/Ref__bin_average.v. *)
From Coq Require Import ZArith QArith String List.
From Verif Require Import Base.Prelude Model.Restrict Model.Count Jit.Lang Glue.Lang Glue.Interp Glue.Kenv Gen.Glue.
From Verif Require Inv.Jitrestrict_func Glue.KenvText Glue.Facts_c05 Glue.Ref__count Glue.Ref__bin_average.
Import ListNotations.
Open Scope Z_scope.
Notation firsts := Jitrestrict_func.firsts.
Notation seconds := Jitrestrict_func.seconds.

Theorem C05_glue_count : forall K ts ep b, Ref__count.K_count_at K ts ep b ->
  grun K g__count [tarr ts; tarr (firsts ep); tarr (seconds ep); tsc b]
  = GOk (Ref__count.count_val (count_binned ts ep b)).
Proof. exact Ref__count.ref_count. Qed.
Print Assumptions C05_glue_count.
Theorem C05_glue_count_with_kernel_text : forall ts ep b, Forall (fun I => fst I <= snd I) ep -> 0 < b ->
  exists fuel, grun (KenvText.kenv_text fuel) g__count [tarr ts; tarr (firsts ep); tarr (seconds ep); tsc b]
               = GOk (Ref__count.count_val (count_binned ts ep b)).
Proof. exact Ref__count.count_text_to_model. Qed.
Print Assumptions C05_glue_count_with_kernel_text.

Theorem C05_glue_count_per_epoch : forall K ts ep, Facts_c05.K_rwc_at K ts ep ->
  grun K g__count [tarr ts; tarr (firsts ep); tarr (seconds ep); GNone]
  = GOk (GTup [GArr (A1 DFlt (map (fun I => VFlt (Some (Qred ((fst I + snd I) # 2)))) ep));
               Facts_c05.iarr (restrict_cnt ts ep)]).
Proof. exact Ref__count.ref_count_nobin. Qed.
Print Assumptions C05_glue_count_per_epoch.
Theorem C05_glue_count_per_epoch_with_kernel_text : forall ts ep, Forall (fun I => fst I <= snd I) ep ->
  exists fuel, grun (KenvText.kenv_text fuel) g__count [tarr ts; tarr (firsts ep); tarr (seconds ep); GNone]
               = GOk (Ref__count.count_nobin_val ts ep).
Proof. exact Ref__count.count_nobin_text_to_model. Qed.
Print Assumptions C05_glue_count_per_epoch_with_kernel_text.

Theorem C05_glue_jitbin_array : forall K ts vs ep b, length vs = length ts ->
  Facts_c05.K_rwc_at K ts ep -> Ref__bin_average.K_bin_array_at K ts vs ep b ->
  grun K g_jitbin_array [tarr ts; Ref__bin_average.varr vs; tarr (firsts ep); tarr (seconds ep); tsc b]
  = GOk (Ref__bin_average.bin_val (bin_sum_cnt ts vs ep b)).
Proof. exact Ref__bin_average.ref_jitbin_array. Qed.
Print Assumptions C05_glue_jitbin_array.
Theorem C05_glue_bin_average : forall K ts vs ep b, length vs = length ts ->
  Facts_c05.K_rwc_at K ts ep -> Ref__bin_average.K_bin_array_at K ts vs ep b ->
  grun K g__bin_average [tarr ts; Ref__bin_average.varr vs; tarr (firsts ep); tarr (seconds ep); tsc b]
  = GOk (Ref__bin_average.bin_val (bin_sum_cnt ts vs ep b)).
Proof. exact Ref__bin_average.ref_bin_average. Qed.
Print Assumptions C05_glue_bin_average.
Theorem C05_glue_bin_average_with_kernel_text : forall ts vs ep b,
  length vs = length ts -> Forall (fun I => fst I <= snd I) ep -> 0 < b ->
  exists fuel, grun (KenvText.kenv_text fuel) g__bin_average
                 [tarr ts; Ref__bin_average.varr vs; tarr (firsts ep); tarr (seconds ep); tsc b]
               = GOk (Ref__bin_average.bin_val (bin_sum_cnt ts vs ep b)).
Proof. exact Ref__bin_average.bin_average_text_to_model. Qed.
Print Assumptions C05_glue_bin_average_with_kernel_text.

(* non-vacuity: samples exactly on bin edges (4, 8), an odd start + end (20 + 31: midpoint 51/2), an empty bin (NaN mean) *)
Example C05_glue_nonvacuous :
  grun KenvText.kenv_exec g__count [tarr [0; 3; 4; 8; 10; 15; 20; 24; 31]; tarr [0; 20]; tarr [10; 31]; tsc 4]
    = GOk (Ref__count.count_val [(4, 2%nat); (12, 1%nat); (20, 2%nat); (44, 1%nat); (52, 1%nat); (60, 1%nat)])
  /\ grun KenvText.kenv_exec g__count [tarr [0; 3; 4; 8; 10; 15; 20; 24; 31]; tarr [0; 20]; tarr [10; 31]; GNone]
    = GOk (GTup [GArr (A1 DFlt [VFlt (Some (5 # 1)%Q); VFlt (Some (51 # 2)%Q)]); GArr (A1 DInt [VInt 5; VInt 3])])
  /\ grun KenvText.kenv_exec g__bin_average
       [tarr [0; 3; 4; 8; 10; 15; 20; 24; 31]; Ref__bin_average.varr [1; 2; 3; 4; 5; 6; 7; 8; 9]; tarr [0; 20]; tarr [10; 31]; tsc 3]
    = GOk (Ref__bin_average.bin_val [(3, (1%nat, 1)); (9, (2%nat, 5)); (15, (1%nat, 4)); (43, (1%nat, 7)); (49, (1%nat, 8));
                                     (55, (0%nat, 0)); (61, (1%nat, 9))]).
Proof. repeat split; vm_compute; reflexivity. Qed.

(* ---- G3: the body of the public method _Base.count (pynapple/core/base_class.py) ------------------------------------------
   (time_units = "s", dtype = None declared.)  The checks of bin_size (int -> float, not a number -> TypeError, <= 0 ->
   ValueError), ep = self.time_support when None, the call of _count and self._define_instance(t, ep, values=d).  The
   constructor is left abstract (an entry of K): the theorem states which arrays reach it - the arguments of Model/Store.v's
   OpCount (for the even bin sizes 2b of OpCount the centres are exactly its list: Ref_base_count.base_count_centres_even).
   Proofs: Glue/Ref_base_count.v. *)
From Verif Require Glue.Ref_base_restrict Glue.Ref_base_count.

Theorem C05_glue_method_count : forall K cls ts vals sup o b bv,
  Ref_base_count.bin_arg b bv -> 0 < b -> Ref__count.K_count_at K ts (Ref_base_count.ep_eff sup o) b ->
  grun K g__Base_count [Ref_base_restrict.series_val cls ts vals sup; bv; Ref_base_count.ep_arg o]
  = of_opt (K "_define_instance"%string
              [Ref_base_restrict.series_val cls ts vals sup;
               Ref_base_count.centres_arr (count_binned ts (Ref_base_count.ep_eff sup o) b);
               iset_val (Ref_base_count.ep_eff sup o);
               Ref_base_count.counts_arr (count_binned ts (Ref_base_count.ep_eff sup o) b)])
           (EKernelErr "_define_instance").
Proof. exact Ref_base_count.ref_base_count. Qed.
Print Assumptions C05_glue_method_count.

Theorem C05_glue_method_count_per_epoch : forall K cls ts vals sup o,
  Facts_c05.K_rwc_at K ts (Ref_base_count.ep_eff sup o) ->
  grun K g__Base_count [Ref_base_restrict.series_val cls ts vals sup; GNone; Ref_base_count.ep_arg o]
  = of_opt (K "_define_instance"%string
              [Ref_base_restrict.series_val cls ts vals sup; Ref_base_count.midpoints_arr (Ref_base_count.ep_eff sup o);
               iset_val (Ref_base_count.ep_eff sup o); Facts_c05.iarr (restrict_cnt ts (Ref_base_count.ep_eff sup o))])
           (EKernelErr "_define_instance").
Proof. exact Ref_base_count.ref_base_count_nobin. Qed.
Print Assumptions C05_glue_method_count_per_epoch.

Theorem C05_glue_method_count_with_kernel_text : forall (C : kenv) cls ts vals sup o b bv,
  Ref_base_count.bin_arg b bv -> 0 < b -> Forall (fun I => fst I <= snd I) (Ref_base_count.ep_eff sup o) ->
  exists fuel, grun (Ref_base_restrict.kenv_text_with C fuel) g__Base_count
                 [Ref_base_restrict.series_val cls ts vals sup; bv; Ref_base_count.ep_arg o]
               = of_opt (C "_define_instance"%string
                           [Ref_base_restrict.series_val cls ts vals sup;
                            Ref_base_count.centres_arr (count_binned ts (Ref_base_count.ep_eff sup o) b);
                            iset_val (Ref_base_count.ep_eff sup o);
                            Ref_base_count.counts_arr (count_binned ts (Ref_base_count.ep_eff sup o) b)])
                        (EKernelErr "_define_instance").
Proof. exact Ref_base_count.base_count_text_to_model. Qed.
Print Assumptions C05_glue_method_count_with_kernel_text.

Theorem C05_glue_method_count_value_error : forall K self e b bv,
  Ref_base_count.bin_arg b bv -> b <= 0 -> grun K g__Base_count [self; bv; e] = GErr (ERaise "ValueError").
Proof. exact Ref_base_count.ref_base_count_value_error. Qed.
Print Assumptions C05_glue_method_count_value_error.

(* ---- G3: the body of the public method _BaseTsd.bin_average (pynapple/core/time_series.py) ----------------------------------
   ep = self.time_support when ep is not an IntervalSet, `not bin_size > 0` -> ValueError, the call of _bin_average and
   _initialize_tsd_output(self, d, time_index=t, time_support=ep): the MEANS go in as values, the CENTRES as time index.
   Proofs: Glue/Ref_tsd_bin_average.v. *)
From Verif Require Glue.Ref_tsd_dropna Glue.Ref_tsd_bin_average.

Theorem C05_glue_method_bin_average : forall K ts vs sup ep b, length vs = length ts -> 0 < b ->
  Facts_c05.K_rwc_at K ts ep -> Ref__bin_average.K_bin_array_at K ts vs ep b ->
  grun K g__BaseTsd_bin_average [Ref_tsd_bin_average.tsd_val ts vs sup; tsc b; iset_val ep]
  = of_opt (K "_initialize_tsd_output"%string
              [Ref_tsd_bin_average.tsd_val ts vs sup; Ref_tsd_bin_average.bin_means (bin_sum_cnt ts vs ep b);
               Ref_tsd_bin_average.bin_centres (bin_sum_cnt ts vs ep b); iset_val ep])
           (EKernelErr "_initialize_tsd_output").
Proof. exact Ref_tsd_bin_average.ref_tsd_bin_average. Qed.
Print Assumptions C05_glue_method_bin_average.

Theorem C05_glue_method_bin_average_with_kernel_text : forall (C : kenv) ts vs sup ep b, length vs = length ts ->
  Forall (fun I => fst I <= snd I) ep -> 0 < b ->
  exists fuel, grun (Ref_tsd_dropna.kenv_with fuel C) g__BaseTsd_bin_average [Ref_tsd_bin_average.tsd_val ts vs sup; tsc b; iset_val ep]
    = of_opt (C "_initialize_tsd_output"%string
                [Ref_tsd_bin_average.tsd_val ts vs sup; Ref_tsd_bin_average.bin_means (bin_sum_cnt ts vs ep b);
                 Ref_tsd_bin_average.bin_centres (bin_sum_cnt ts vs ep b); iset_val ep])
             (EKernelErr "_initialize_tsd_output").
Proof. exact Ref_tsd_bin_average.tsd_bin_average_text_to_model. Qed.
Print Assumptions C05_glue_method_bin_average_with_kernel_text.

Theorem C05_glue_method_bin_average_value_error : forall K self ep b, b <= 0 ->
  grun K g__BaseTsd_bin_average [self; tsc b; iset_val ep] = GErr (ERaise "ValueError").
Proof. exact Ref_tsd_bin_average.tsd_bin_average_value_error. Qed.
Print Assumptions C05_glue_method_bin_average_value_error.
