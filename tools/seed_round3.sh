#!/bin/bash
# usage: tools/seed_round3.sh Cxx   -- confirm the two round-3 seeds of /tmp/mut3_Cxx_out as seeded/Cxx-5, -6 and run the property's check on each
cd "$(dirname "$0")/.."
P=$1; O=/tmp/mut3_${P}_out
for i in 1 2; do
  N=$P-$((4+i))
  [ -f $O/patch$i.diff ] || { echo "$N: no patch"; continue; }
  tools/confirm_seed.sh $O/patch$i.diff $O/demo$i.py $N $P $O/notes$i.md 2>&1 | tail -2
  if [ -d seeded/$N ]; then
    echo "$N :: $(tools/try_patch.sh seeded/$N/patch.diff $P 2>&1 | grep -v '^KNOWN' | tail -2 | tr '\n' ' ')"
  fi
done
