#!/bin/bash
# usage: tools/integrate_widen.sh Cxx  -- take the widened harness of /tmp/wd_Cxx_out, re-append the glue block, run the check with seeds 0..3
cd "$(dirname "$0")/.."
P=$1; l=$(echo $P | tr 'A-Z' 'a-z'); O=/tmp/wd_${P}_out
cp $O/harness/props/$l.py harness/props/$l.py || exit 1
[ -f $O/harness/history.py ] && cp $O/harness/history.py harness/history.py
G=/tmp/glue_int_$P; rm -rf $G; /venv/bin/python /tmp/glue_out/integrate.py /verif $G >/dev/null && [ -f $G/harness/props/$l.py ] && cp $G/harness/props/$l.py harness/props/$l.py; rm -rf $G
for s in 0 1 2 3; do VERIF_SEED=$s ./check $P 2>&1 | grep -v "^KNOWN" | tail -2 | cut -c1-400; done
