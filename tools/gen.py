#!/venv/bin/python
"""Regenerate coq/Gen/Kernels.v and coq/Gen/kernels.json from the pynapple sources as they are now.

Files are rewritten only when their content changes, so that `make` stays incremental.
Exit status 2 (and nothing written) when the translator meets a construct outside its tables.
"""
import json
import os
import sys

sys.dont_write_bytecode = True
sys.path.insert(0, os.path.dirname(os.path.abspath(__file__)))
import py2jit  # noqa: E402

ROOT = os.path.dirname(os.path.dirname(os.path.abspath(__file__)))
GEN = os.path.join(ROOT, "coq", "Gen")


def write_if_changed(path, text):
    try:
        with open(path) as fh:
            if fh.read() == text:
                return False
    except FileNotFoundError:
        pass
    tmp = path + ".tmp"
    with open(tmp, "w") as fh:
        fh.write(text)
    os.replace(tmp, path)
    return True


def main():
    try:
        ks = py2jit.translate_all()
        untranslated = []
        fns = {}
        import ast
        for rel, name in py2jit.UNTRANSLATED:
            with open(f"{py2jit.REPO}/{rel}") as fh:
                tree = ast.parse(fh.read())
            f = [n for n in ast.walk(tree) if isinstance(n, ast.FunctionDef) and n.name == name]
            if len(f) != 1:
                raise py2jit.Unsupported(f"kernel {name} not found exactly once in {rel}")
            untranslated.append({"name": name, "file": rel, "line": f[0].lineno,
                                 "hash": py2jit.normalised_hash(f[0]), "translated": False})
    except py2jit.Unsupported as e:
        sys.stderr.write(f"gen: {e}\n")
        return 2
    os.makedirs(GEN, exist_ok=True)
    text = py2jit.render(ks)
    meta = {
        "string_tags": py2jit.STRING_TAGS,
        "kernels": [{"name": k.name, "file": k.rel, "line": k.line, "hash": k.hash,
                     "sites": k.site, "loops_and_calls": k.label, "params": k.params,
                     "callees": k.callees, "translated": True} for k in ks] + untranslated,
    }
    c1 = write_if_changed(os.path.join(GEN, "Kernels.v"), text)
    c2 = write_if_changed(os.path.join(GEN, "kernels.json"), json.dumps(meta, indent=1, sort_keys=True) + "\n")
    print(f"gen: Kernels.v {'written' if c1 else 'unchanged'}, kernels.json {'written' if c2 else 'unchanged'}, "
          f"{len(ks)} kernels translated, {len(untranslated)} listed only")
    return 0


if __name__ == "__main__":
    sys.exit(main())
