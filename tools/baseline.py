"""Run /repo's test suite as BASELINE.json does and compare with its stable_pass list."""
import json, os, subprocess, sys, xml.etree.ElementTree as ET
out = "/verif/.cache/baseline.junit.xml"
os.makedirs("/verif/.cache", exist_ok=True)
env = dict(os.environ, NUMBA_CACHE_DIR="/verif/.cache/numba-tests", PYTHONDONTWRITEBYTECODE="1")
env.pop("PYTHONPATH", None)
subprocess.run(f"cd /repo && /venv/bin/python -m pytest -ra -q -p no:cacheprovider --timeout=900 --continue-on-collection-errors --junitxml={out}",
               shell=True, env=env, stdout=subprocess.DEVNULL, stderr=subprocess.DEVNULL)
base = set(json.load(open("/root/.vp/BASELINE.json"))["stable_pass"])
passed = set()
for tc in ET.parse(out).getroot().iter("testcase"):
    if not any(ch.tag in ("failure", "error", "skipped") for ch in tc):
        passed.add(tc.get("classname") + "::" + tc.get("name"))
missing = sorted(base - passed)
print(f"baseline={len(base)} passed_now={len(passed)} missing={len(missing)}")
for m in missing[:20]:
    print("  MISSING", m)
sys.exit(1 if missing else 0)
