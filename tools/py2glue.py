#!/venv/bin/python
"""py2glue: translate the pure-Python GLUE between pynapple's public API and its numba kernels into Glue.Lang terms.

Fail-closed: an explicit whitelist of routines (ROUTINES); any syntax, call, attribute or literal outside the tables
below raises Unsupported and the command line exits with status 2 naming the construct and its source line.

Decisions made here (part of the trusted reading; every instance is listed per routine in coq/Gen/glue.json):
  * NumPy backend: a test listed in a routine's `assume` table (e.g. `get_backend() == 'jax'` -> False, or the
    isinstance dispatch of IntervalSet.__getitem__) is not evaluated: only the declared branch is translated.
  * time_units == "s" and already-rounded inputs: `TsIndex.format_timestamps(x, time_units)` and
    `TsIndex.return_timestamps(x, time_units)` are the identity; the parameter `time_units` is dropped.
  * a FLOAT LITERAL is a time in seconds and becomes an exact number of nanosecond ticks; a literal that is not a
    whole number of ns is refused.
  * statements that cannot influence the numeric result are SKIPPED only when they match the whitelist
    (docstring, warnings.warn(...), assert on types, object bookkeeping of a constructor, message text, metadata
    bookkeeping), and a def-use check proves that no name (or self attribute) they define is read by a translated
    statement; a `metadata=` keyword of a constructor call is a metadata sink and is dropped.
  * an in-place masked update `x[m] op= e` is accepted only when x was bound, in the same straight-line block, to a
    fresh array (the result of a call) and has not been aliased since.
  * local variables are numbered in order of first occurrence (parameters first): renaming a local does not change
    the term.
"""
import ast
import hashlib
import os
import sys
from fractions import Fraction

sys.dont_write_bytecode = True
sys.path.insert(0, os.path.dirname(os.path.abspath(__file__)))

REPO = os.environ.get("VERIF_REPO", "/repo")

JITF = "pynapple/core/_jitted_functions.py"
ISET = "pynapple/core/interval_set.py"
CORE = "pynapple/core/_core_functions.py"
BASE = "pynapple/core/base_class.py"
TSER = "pynapple/core/time_series.py"
SERIES_CLASSES = ["Ts", "Tsd", "TsdFrame", "TsdTensor"]
# constructor-like calls interpreted by the kernel / constructor environment: name -> parameters (in order)
CONSTRUCTORS = {
    "_define_instance": ["<receiver>", "time_index", "time_support", "values"],
    "_initialize_tsd_output": ["input_object", "values", "time_index", "time_support"],
    "Tsd": ["t", "d", "time_support"],
}

# kernels callable from glue: name used in the glue source -> (kernel name in the kernel environment, positional parameters)
KERNEL_SIGS = {
    "jitrestrict": ("jitrestrict", ["time_array", "starts", "ends"]),
    "jitrestrict_with_count": ("jitrestrict_with_count", ["time_array", "starts", "ends"]),
    "jitvaluefrom": ("jitvaluefrom", ["time_array", "time_target_array", "count", "count_target", "starts", "mode"]),
    "jitcount": ("jitcount", ["time_array", "starts", "ends", "bin_size"]),
    "jitin_interval": ("jitin_interval", ["time_array", "starts", "ends"]),
    "jitremove_nan": ("jitremove_nan", ["time_array", "index_nan"]),
    "jitthreshold": ("jitthreshold", ["time_array", "data_array", "starts", "ends", "thr", "method"]),
    "_jitbin_array": ("_jitbin_array", ["countin", "time_array", "data_array", "starts", "ends", "bin_size"]),
    "jitintersect": ("jitintersect", ["start1", "end1", "start2", "end2"]),
    "jitunion": ("jitunion", ["start1", "end1", "start2", "end2"]),
    "jitdiff": ("jitdiff", ["start1", "end1", "start2", "end2"]),
    "_jitfix_iset": ("_jitfix_iset", ["start", "end"]),
}
KERNEL_DROPPED_PARAMS = {"dtype"}      # compile-time constant (int64), as in py2jit

BACKEND = {"get_backend() == 'jax'": False}

# The whitelist.  params: the parameters kept, in order (all others must be listed in `dropped` with the reason).
ROUTINES = [
    dict(name="IntervalSet.__init__", file=ISET, cls="IntervalSet", func="__init__",
         params=["start", "end"],
         dropped={"self": "the object under construction", "time_units": "assumed 's' (identity)",
                  "metadata": "metadata sink"},
         region=("start = TsIndex.format_timestamps(start, time_units)", "data, to_warn = _jitfix_iset(start, end)"),
         constructor=True),
    dict(name="IntervalSet.__getitem__", file=ISET, cls="IntervalSet", func="__getitem__",
         params=["self", "key"], dropped={},
         assume={"isinstance(key, str)": False,
                 "isinstance(key, list) and all((isinstance(x, str) for x in key))": False,
                 "isinstance(key, Number)": False,
                 "isinstance(key, (slice, list, np.ndarray))": True},
         note="key is a NumPy boolean or integer array (the branch taken by self[mask])"),
    dict(name="IntervalSet.union", file=ISET, cls="IntervalSet", func="union", params=["self", "a"], dropped={}),
    dict(name="IntervalSet.intersect", file=ISET, cls="IntervalSet", func="intersect", params=["self", "a"], dropped={}),
    dict(name="IntervalSet.set_diff", file=ISET, cls="IntervalSet", func="set_diff", params=["self", "a"], dropped={}),
    dict(name="IntervalSet.in_interval", file=ISET, cls="IntervalSet", func="in_interval", params=["self", "tsd"], dropped={}),
    dict(name="IntervalSet.time_span", file=ISET, cls="IntervalSet", func="time_span", params=["self"], dropped={}),
    dict(name="IntervalSet.tot_length", file=ISET, cls="IntervalSet", func="tot_length", params=["self"],
         dropped={"time_units": "assumed 's' (identity)"}),
    dict(name="IntervalSet.drop_short_intervals", file=ISET, cls="IntervalSet", func="drop_short_intervals",
         params=["self", "threshold"], dropped={"time_units": "assumed 's' (identity)"}),
    dict(name="IntervalSet.drop_long_intervals", file=ISET, cls="IntervalSet", func="drop_long_intervals",
         params=["self", "threshold"], dropped={"time_units": "assumed 's' (identity)"}),
    dict(name="IntervalSet.merge_close_intervals", file=ISET, cls="IntervalSet", func="merge_close_intervals",
         params=["self", "threshold"], dropped={"time_units": "assumed 's' (identity)"}),
    # ---- G2: pynapple/core/_core_functions.py
    dict(name="_restrict", file=CORE, cls=None, func="_restrict", params=["time_array", "starts", "ends"], dropped={}),
    dict(name="_count", file=CORE, cls=None, func="_count", params=["time_array", "starts", "ends", "bin_size"],
         dropped={"dtype": "compile-time constant (int64), as in py2jit"}),
    dict(name="jitbin_array", file=JITF, cls=None, func="jitbin_array",
         params=["time_array", "data_array", "starts", "ends", "bin_size"], dropped={}),
    dict(name="_bin_average", file=CORE, cls=None, func="_bin_average",
         params=["time_array", "data_array", "starts", "ends", "bin_size"], dropped={}, assume=BACKEND),
    dict(name="_threshold", file=CORE, cls=None, func="_threshold",
         params=["time_array", "data_array", "starts", "ends", "thr", "method"], dropped={}, assume=BACKEND),
    dict(name="_dropna", file=CORE, cls=None, func="_dropna",
         params=["time_array", "data_array", "starts", "ends", "update_time_support"],
         dropped={"ndim": "assumed 1 (1-D data): np.any(x, axis=tuple(range(1, ndim))) is x"},
         ndim1=True),
    dict(name="_value_from", file=CORE, cls=None, func="_value_from",
         params=["time_array", "time_target_array", "data_target_array", "starts", "ends", "mode"], dropped={},
         assume={"not np.issubdtype(use_type, np.floating)": False}, ndim1=True, float_data=True,
         note="data_target_array is a 1-D float array: the output buffer is np.full(n, nan)"),
    # ---- G3: the public methods (bodies) of pynapple/core/base_class.py and time_series.py
    dict(name="_Base.restrict", file=BASE, cls="_Base", func="restrict", params=["self", "iset"], dropped={}),
    dict(name="_Base.count", file=BASE, cls="_Base", func="count", params=["self", "bin_size", "ep"],
         dropped={"time_units": "assumed 's' (identity)", "dtype": "assumed None (int64 counts)"},
         assume={"not isinstance(time_units, str) or time_units not in ['s', 'ms', 'us']": False, "dtype is None": True}),
    dict(name="_Base.value_from", file=BASE, cls="_Base", func="value_from", params=["self", "data", "ep", "mode"], dropped={}),
    dict(name="_Base._get_slice", file=BASE, cls="_Base", func="_get_slice", params=["self", "start", "end", "mode"],
         dropped={"n_points": "assumed None", "time_unit": "assumed 's' (identity)"},
         assume={"n_points is not None and (not isinstance(n_points, int))": False, "end is None and n_points": False,
                 "mode == 'restrict' and n_points": False, "n_points": False}),
    dict(name="_Base.get_slice", file=BASE, cls="_Base", func="get_slice", params=["self", "start", "end"],
         dropped={"time_unit": "assumed 's' (identity)"}),
    dict(name="_BaseTsd.bin_average", file=TSER, cls="_BaseTsd", func="bin_average", params=["self", "bin_size", "ep"],
         dropped={"time_units": "assumed 's' (identity)"}),
    dict(name="_BaseTsd.dropna", file=TSER, cls="_BaseTsd", func="dropna", params=["self", "update_time_support"], dropped={}),
    dict(name="Tsd.threshold", file=TSER, cls="Tsd", func="threshold", params=["self", "thr", "method"], dropped={}),
]

# names whose value is metadata / message bookkeeping: they may only be defined and used by skipped statements
METADATA_SOURCES = {"_metadata", "metadata_columns", "metadata"}
SELF_BOOKKEEPING_ATTRS = {"index", "columns", "nap_class", "_class_attributes", "_initialized"}
SKIP_EXPR_CALLS = {"warnings.warn", "_MetadataMixin.__init__", "self._class_attributes.append", "self.set_info"}
DTYPE_NAMES = {"use_type", "dtype"}
PURE_CALLS_IN_SKIPPED = {"dtype", "issubdtype", "any", "reset_index", "drop", "join", "intersect1d", "len", "__dir__", "arange", "array", "format"}

BINOPS = {ast.Add: "Add", ast.Sub: "Sub", ast.Mult: "Mul", ast.Div: "Div", ast.FloorDiv: "FloorDiv", ast.Mod: "Mod"}
CMPOPS = {ast.Lt: "Lt", ast.LtE: "Le", ast.Gt: "Gt", ast.GtE: "Ge", ast.Eq: "Eq", ast.NotEq: "Ne"}


class Unsupported(Exception):
    def __init__(self, what, node=None):
        line = getattr(node, "lineno", "?")
        super().__init__(f"unsupported construct: {what} (line {line})")


def coq_str(s):
    if '"' in s:
        raise Unsupported(f"string with a double quote: {s!r}")
    return '"' + s + '"'


def coq_z(n):
    return f"({n})%Z"


def strip_doc(body):
    if body and isinstance(body[0], ast.Expr) and isinstance(body[0].value, ast.Constant) \
            and isinstance(body[0].value.value, str):
        return body[1:]
    return body


def normalised_hash(fn):
    clone = ast.FunctionDef(name=fn.name, args=fn.args, body=strip_doc(list(fn.body)), decorator_list=[],
                            returns=None, type_comment=None)
    return hashlib.sha256(ast.dump(clone, include_attributes=False).encode()).hexdigest()


def walk_numeric(node):
    """ast.walk that does not descend into the `metadata=` keyword of an IntervalSet(...) call (a metadata sink)"""
    todo = [node]
    while todo:
        n = todo.pop()
        yield n
        for c in ast.iter_child_nodes(n):
            if isinstance(n, ast.Call) and isinstance(n.func, ast.Name) and n.func.id == "IntervalSet" \
                    and isinstance(c, ast.keyword) and c.arg == "metadata":
                continue
            if isinstance(n, ast.Call) and isinstance(c, ast.keyword) and c.arg == "dtype":
                continue        # dtype keywords are compile-time bookkeeping (checked where the call is translated)
            todo.append(c)


def names_read(node):
    """names (and `self.attr` pseudo-names) read anywhere inside node (metadata sinks excluded)"""
    out = set()
    for n in walk_numeric(node):
        if isinstance(n, ast.Name) and isinstance(n.ctx, ast.Load):
            out.add(n.id)
        if isinstance(n, ast.Attribute) and isinstance(n.ctx, ast.Load) and isinstance(n.value, ast.Name) \
                and n.value.id == "self":
            out.add("self." + n.attr)
    return out


def names_written(stmt):
    out = set()
    for n in ast.walk(stmt):
        if isinstance(n, ast.Name) and isinstance(n.ctx, ast.Store):
            out.add(n.id)
        if isinstance(n, ast.Attribute) and isinstance(n.ctx, ast.Store) and isinstance(n.value, ast.Name) \
                and n.value.id == "self":
            out.add("self." + n.attr)
    return out


def call_text(f):
    try:
        return ast.unparse(f)
    except Exception:
        return "?"


class Routine:
    def __init__(self, spec, fn):
        self.spec = spec
        self.fn = fn
        self.name = spec["name"]
        self.params = list(spec["params"])
        self.vars = list(self.params)
        self.skipped = []          # dicts {line, text, why}
        self.assumed = []          # dicts {line, test, value}
        self.declared = []         # free-text declarations (identities, prologue, ...)
        self.callees = []
        self.kernels = []
        self.translated_reads = set()
        self.check_signature()
        body = strip_doc(list(fn.body))
        if spec.get("region"):
            self.body = self.region_body(body)
        else:
            self.body = self.block(body)
        self.defuse_check()

    # ------------------------------------------------------------ signature
    def check_signature(self):
        a = self.fn.args
        if a.vararg or a.kwarg or a.kwonlyargs or a.posonlyargs:
            raise Unsupported("parameter form", self.fn)
        declared = [p.arg for p in a.args]
        for p in declared:
            if p not in self.spec["params"] and p not in self.spec["dropped"]:
                raise Unsupported(f"parameter {p} of {self.name} is neither kept nor declared dropped", self.fn)
        for p in self.spec["params"]:
            if p not in declared:
                raise Unsupported(f"parameter {p} of {self.name} not found in the source", self.fn)
        kept = [p for p in declared if p in self.spec["params"]]
        if kept != self.spec["params"]:
            raise Unsupported(f"parameter order of {self.name} changed: {kept}", self.fn)
        # defaults of dropped parameters must be what the declaration assumes
        defaults = dict(zip(declared[len(declared) - len(a.defaults):], a.defaults))
        for tu in ("time_units", "time_unit"):
            if tu in self.spec["dropped"]:
                d = defaults.get(tu)
                if not (isinstance(d, ast.Constant) and d.value == "s"):
                    raise Unsupported(f"default of {tu} is not 's'", self.fn)
        if "n_points" in self.spec["dropped"]:
            d = defaults.get("n_points")
            if not (isinstance(d, ast.Constant) and d.value is None):
                raise Unsupported("default of n_points is not None", self.fn)
        for p, why in self.spec["dropped"].items():
            self.declared.append(f"parameter {p} dropped: {why}")

    # ------------------------------------------------------------ variables
    def var(self, name, node=None, define=False):
        if name in self.spec["dropped"]:
            raise Unsupported(f"dropped parameter {name} used in a translated expression", node)
        if name not in self.vars:
            if not define:
                raise Unsupported(f"name {name} read before any assignment in program order", node)
            self.vars.append(name)
        return self.vars.index(name)

    def is_self_iset(self, node):
        return isinstance(node, ast.Name) and node.id == "self" and self.spec.get("cls") == "IntervalSet"

    # ------------------------------------------------------------ expressions
    def const(self, node):
        v = node.value
        if v is None:
            return "EConst GNone"
        if isinstance(v, bool):
            return f"EConst (GSc (VBool {'true' if v else 'false'}))"
        if isinstance(v, int):
            return f"EConst (GSc (VInt {coq_z(v)}))"
        if isinstance(v, float):
            return f"EConst (GSc (VFlt (Some ({self.ticks(v, node)} # 1)%Q)))"
        if isinstance(v, str):
            return f"EConst (GStr {coq_str(v)})"
        raise Unsupported(f"constant {v!r}", node)

    def ticks(self, v, node):
        t = Fraction(repr(v)) * 10**9
        if t.denominator != 1:
            raise Unsupported(f"float literal {v!r} is not a whole number of nanoseconds", node)
        self.declared.append(f"float literal {v!r} (line {getattr(node, 'lineno', '?')}) read as a time: {t.numerator} ticks")
        return int(t.numerator)

    def prim(self, p, args):
        return f"EPrim ({p}) [{'; '.join(args)}]"

    def int_lit(self, node):
        if isinstance(node, ast.Constant) and isinstance(node.value, int) and not isinstance(node.value, bool):
            return node.value
        if isinstance(node, ast.UnaryOp) and isinstance(node.op, ast.USub) and isinstance(node.operand, ast.Constant) \
                and isinstance(node.operand.value, int) and not isinstance(node.operand.value, bool):
            return -node.operand.value
        return None

    def full_slice(self, n):
        return isinstance(n, ast.Slice) and n.lower is None and n.upper is None and n.step is None

    def expr(self, node):
        self.translated_reads |= names_read(node)
        return self.expr_(node)

    def expr_(self, node):
        E = self.expr_
        if isinstance(node, ast.Constant):
            return self.const(node)
        if isinstance(node, ast.Name):
            return f"EVar {self.var(node.id, node)}%nat"
        if isinstance(node, ast.Tuple):
            return f"ETuple [{'; '.join(E(e) for e in node.elts)}]"
        if isinstance(node, ast.List):
            if not node.elts:
                return self.prim("PEmptyF", [])
            raise Unsupported("list display", node)
        if isinstance(node, ast.Attribute) and ast.unparse(node) == "np.nan":
            return "EConst (GSc (VFlt None))"
        if isinstance(node, ast.Attribute):
            return self.attribute(node)
        if isinstance(node, ast.Subscript):
            return self.subscript(node)
        if isinstance(node, ast.BinOp):
            op = BINOPS.get(type(node.op))
            if op is None:
                raise Unsupported(f"binary operator {type(node.op).__name__}", node)
            return self.prim(f"PBin {op}", [E(node.left), E(node.right)])
        if isinstance(node, ast.UnaryOp):
            if isinstance(node.op, ast.Not):
                return self.prim("PNot", [E(node.operand)])
            if isinstance(node.op, ast.Invert):
                return self.prim("PInvert", [E(node.operand)])
            if isinstance(node.op, ast.USub):
                k = self.int_lit(node)
                if k is not None:
                    return f"EConst (GSc (VInt {coq_z(k)}))"
                if isinstance(node.operand, ast.Constant) and isinstance(node.operand.value, float):
                    return f"EConst (GSc (VFlt (Some ({-self.ticks(node.operand.value, node)} # 1)%Q)))"
                return self.prim("PNeg", [E(node.operand)])
            raise Unsupported(f"unary operator {type(node.op).__name__}", node)
        if isinstance(node, ast.BoolOp):
            c = "EAnd" if isinstance(node.op, ast.And) else "EOr"
            parts = [E(v) for v in node.values]
            acc = parts[-1]
            for p in reversed(parts[:-1]):
                acc = f"{c} ({p}) ({acc})"
            return acc
        if isinstance(node, ast.Compare):
            if len(node.ops) != 1:
                raise Unsupported("chained comparison", node)
            o, r = node.ops[0], node.comparators[0]
            if isinstance(o, (ast.Is, ast.IsNot)) and isinstance(r, ast.Constant) and r.value is None:
                e = self.prim("PIsNone", [E(node.left)])
                return e if isinstance(o, ast.Is) else self.prim("PNot", [e])
            if isinstance(o, (ast.In, ast.NotIn)) and isinstance(r, (ast.List, ast.Tuple)) \
                    and all(isinstance(e, ast.Constant) and isinstance(e.value, str) for e in r.elts):
                e = self.prim("PInStrs [" + "; ".join(coq_str(x.value) for x in r.elts) + "]", [E(node.left)])
                return e if isinstance(o, ast.In) else self.prim("PNot", [e])
            op = CMPOPS.get(type(o))
            if op is None:
                raise Unsupported(f"comparison {type(o).__name__}", node)
            return self.prim(f"PCmp {op}", [E(node.left), E(r)])
        if isinstance(node, ast.IfExp):
            return f"EIfExp ({E(node.test)}) ({E(node.body)}) ({E(node.orelse)})"
        if isinstance(node, ast.Call):
            return self.call(node)
        raise Unsupported(f"expression {type(node).__name__}", node)

    ATTRS = {"values": "values", "start": "start", "end": "end", "time_support": "time_support", "t": "t"}

    def attribute(self, node):
        # x.index.values / x.index  -> the time array
        if node.attr == "values" and isinstance(node.value, ast.Attribute) and node.value.attr == "index":
            return self.prim('PAttr "t"', [self.expr_(node.value.value)])
        if node.attr in self.ATTRS:
            if isinstance(node.value, ast.Name) and node.value.id in ("np", "pd", "warnings"):
                raise Unsupported(f"module attribute {ast.unparse(node)}", node)
            return self.prim(f"PAttr {coq_str(self.ATTRS[node.attr])}", [self.expr_(node.value)])
        raise Unsupported(f"attribute .{node.attr}", node)

    def subscript(self, node):
        E = self.expr_
        base, sl = node.value, node.slice
        # np.where(m)[0]
        if isinstance(base, ast.Call) and call_text(base.func) == "np.where" and len(base.args) == 1 \
                and not base.keywords and self.int_lit(sl) == 0:
            return self.prim("PWhere0", [E(base.args[0])])
        # x.shape[0]
        if isinstance(base, ast.Attribute) and base.attr == "shape" and self.int_lit(sl) == 0:
            return self.prim("PLen", [E(base.value)])
        if isinstance(sl, ast.Tuple):
            if len(sl.elts) == 2 and self.full_slice(sl.elts[0]) and self.int_lit(sl.elts[1]) is not None:
                return self.prim(f"PCol {coq_z(self.int_lit(sl.elts[1]))}", [E(base)])
            if len(sl.elts) == 2 and not any(isinstance(e, ast.Slice) for e in sl.elts):
                return self.prim("PIndex2", [E(base), E(sl.elts[0]), E(sl.elts[1])])
            raise Unsupported("tuple subscript", node)
        if isinstance(sl, ast.Slice):
            if sl.step is not None:
                raise Unsupported("slice step", node)
            if self.full_slice(sl):
                self.declared.append(f"line {node.lineno}: x[:] read as x (a view of the same cells)")
                return self.prim("PIdent", [E(base)])
            lo = None if sl.lower is None else self.int_lit(sl.lower)
            hi = None if sl.upper is None else self.int_lit(sl.upper)
            if (sl.lower is not None and lo is None) or (sl.upper is not None and hi is None):
                raise Unsupported("slice bound that is not an integer literal", node)
            f = lambda b: "None" if b is None else f"(Some {coq_z(b)})"
            return self.prim(f"PSlice {f(lo)} {f(hi)}", [E(base)])
        if self.is_self_iset(base):
            self.note_callee("IntervalSet.__getitem__", node)
            return f"ECall \"IntervalSet.__getitem__\" [{E(base)}; {E(sl)}]"
        return self.prim("PIndex", [E(base), E(sl)])

    def note_callee(self, name, node):
        if name not in [r["name"] for r in ROUTINES]:
            raise Unsupported(f"call of {name}, which is not a whitelisted routine", node)
        if name == self.name:
            raise Unsupported("recursive call", node)
        if name not in self.callees:
            self.callees.append(name)

    def units_arg_ok(self, args, keywords, node):
        """second argument of format_/return_timestamps: absent, the dropped parameter time_units, or 's'"""
        rest = list(args[1:]) + [k.value for k in keywords]
        if len(rest) > 1:
            raise Unsupported("timestamp conversion arguments", node)
        for r in rest:
            if isinstance(r, ast.Name) and r.id in self.spec["dropped"] and self.spec["dropped"][r.id].startswith("assumed 's'"):
                continue
            if isinstance(r, ast.Constant) and r.value == "s":
                continue
            raise Unsupported("timestamp conversion with a unit that is not the assumed 's'", node)

    def call(self, node):
        E = self.expr_
        f, args, kws = node.func, node.args, node.keywords
        txt = call_text(f)
        if txt == "len" and len(args) == 1 and not kws:
            return self.prim("PLen", [E(args[0])])
        if txt in ("TsIndex.format_timestamps", "TsIndex.return_timestamps") and len(args) >= 1:
            self.units_arg_ok(args, kws, node)
            self.declared.append(f"line {node.lineno}: {txt}(x, 's') read as the identity (units 's', input already on the ns lattice)")
            return self.prim("PIdent", [E(args[0])])
        if txt == "isinstance" and len(args) == 2 and ast.unparse(args[1]) in ("(float, int)", "(int, float)", "Number"):
            return self.prim("PIsNumber", [E(args[0])])
        if txt == "isinstance" and len(args) == 2 and not kws:
            c = ast.unparse(args[1])
            if c == "IntervalSet":
                return self.prim('PIsInstance ["IntervalSet"]', [E(args[0])])
            if c == "_Base":
                return self.prim("PIsInstance [" + "; ".join(coq_str(x) for x in SERIES_CLASSES) + "]", [E(args[0])])
            if c in ("int", "float", "bool", "str"):
                return self.prim(f"PIsKind {coq_str(c)}", [E(args[0])])
            raise Unsupported(f"isinstance(_, {c})", node)
        if txt == "hasattr" and len(args) == 2 and not kws and isinstance(args[1], ast.Constant) and isinstance(args[1].value, str):
            return self.prim(f"PHasAttr {coq_str(self.ATTRS.get(args[1].value, args[1].value))}", [E(args[0])])
        if txt == "float" and len(args) == 1 and not kws:
            return self.prim("PAsFloat", [E(args[0])])
        if txt == "int" and len(args) == 1 and not kws:
            return self.prim("PAsInt", [E(args[0])])
        if txt in ("np.abs", "abs") and len(args) == 1 and not kws:
            return self.prim("PAbs", [E(args[0])])
        if txt == "max" and len(args) == 1 and not kws and isinstance(args[0], ast.List) and len(args[0].elts) == 2:
            return self.prim("PBin Max", [E(args[0].elts[0]), E(args[0].elts[1])])
        if txt == "slice" and 2 <= len(args) <= 3 and not kws:
            return self.prim("PSliceObj", [E(a) for a in args] + (["EConst GNone"] if len(args) == 2 else []))
        if isinstance(f, ast.Attribute) and isinstance(f.value, ast.Name) and f.value.id == "self" and self.spec.get("cls") \
                and (self.spec["cls"] + "." + f.attr) in [r["name"] for r in ROUTINES]:
            return self.self_method_call(self.spec["cls"] + "." + f.attr, node)
        if txt == "is_array_like" and len(args) == 1 and not kws:
            return self.prim('PIsKind "array"', [E(args[0])])
        if (isinstance(f, ast.Name) and f.id in CONSTRUCTORS and f.id != "_define_instance") or \
                (isinstance(f, ast.Attribute) and f.attr == "_define_instance"):
            return self.ctor_env_call(node)
        if isinstance(f, ast.Attribute) and isinstance(f.value, ast.Name) and f.value.id == "np":
            return self.np_call(f.attr, node)
        if isinstance(f, ast.Name) and f.id in KERNEL_SIGS:
            return self.kernel_call(f.id, node)
        if isinstance(f, ast.Name) and f.id == "IntervalSet":
            return self.constructor_call(node)
        if isinstance(f, ast.Name) and f.id in [r["name"] for r in ROUTINES if r.get("cls") is None]:
            spec = next(r for r in ROUTINES if r["name"] == f.id)
            sig = [p.arg for p in load(spec).args.args]
            vals = dict(zip(sig, args))
            if len(args) > len(sig):
                raise Unsupported(f"call of glue routine {f.id}: too many arguments", node)
            for k in kws:
                if k.arg is None or k.arg in vals or k.arg not in sig:
                    raise Unsupported(f"call of glue routine {f.id}: keyword {k.arg}", node)
                vals[k.arg] = k.value
            for p in vals:
                if p in spec["dropped"]:
                    self.declared.append(f"line {node.lineno}: argument {p}={ast.unparse(vals[p])} of {f.id} dropped ({spec['dropped'][p]})")
            if any(p not in vals for p in spec["params"]):
                raise Unsupported(f"call of glue routine {f.id}: an argument is missing (defaults are not modelled)", node)
            self.note_callee(f.id, node)
            return f"ECall {coq_str(f.id)} [{'; '.join(E(vals[p]) for p in spec['params'])}]"
        if isinstance(f, ast.Attribute):
            m = f.attr
            if m in ("all", "any") and not args and not kws:
                return self.prim("PAll" if m == "all" else "PAny", [E(f.value)])
            if m == "astype" and len(args) == 1 and not kws:
                t = ast.unparse(args[0])
                if t in ("np.float64", "float"):
                    return self.prim("PAsFloat", [E(f.value)])
                if t in ("int", "np.int64"):
                    return self.prim("PAsInt", [E(f.value)])
                raise Unsupported(f"astype({t})", node)
            if m == "ravel" and not args and not kws:
                self.declared.append(f"line {node.lineno}: .ravel() of a 1-D array read as the identity")
                return self.prim("PIdent", [E(f.value)])
            if m == "__getitem__" and len(args) == 1 and not kws:
                return self.prim("PIndex", [E(f.value), E(args[0])])
        raise Unsupported(f"call of {txt}", node)

    def np_call(self, n, node):
        E = self.expr_
        args, kws = node.args, node.keywords
        simple = {"sort": "PSort", "diff": "PDiff", "all": "PAll", "isnan": "PIsNan", "sum": "PSum"}
        if n in simple and len(args) == 1 and not kws:
            return self.prim(simple[n], [E(args[0])])
        if n == "any" and len(args) == 1:
            if not kws:
                return self.prim("PAny", [E(args[0])])
            if len(kws) == 1 and kws[0].arg == "axis" and ast.unparse(kws[0].value) == "tuple(range(1, ndim))" \
                    and self.spec.get("ndim1"):
                self.declared.append(f"line {node.lineno}: np.any(x, axis=tuple(range(1, ndim))) with ndim == 1 read as x")
                return self.prim("PIdent", [E(args[0])])
        if n == "asarray" and len(args) == 1 and not kws:
            return self.prim("PIdent", [E(args[0])])
        if n == "hstack" and len(args) == 1 and not kws and isinstance(args[0], ast.Tuple):
            return self.prim("PHstack", [E(e) for e in args[0].elts])
        if n == "searchsorted" and len(args) >= 2:
            side = "left"
            extra = list(args[2:]) + [k.value for k in kws if k.arg == "side"]
            if len(extra) > 1 or any(k.arg != "side" for k in kws):
                raise Unsupported("searchsorted arguments", node)
            if extra:
                if not (isinstance(extra[0], ast.Constant) and extra[0].value in ("left", "right")):
                    raise Unsupported("searchsorted side", node)
                side = extra[0].value
            return self.prim("PSearch " + ("SLeft" if side == "left" else "SRight"), [E(args[0]), E(args[1])])
        if n == "array" and len(args) == 1:
            for k in kws:
                if not (k.arg == "dtype" and ast.unparse(k.value) in ("np.float64", "float")):
                    raise Unsupported("np.array keyword", node)
            a = args[0]
            if isinstance(a, (ast.List, ast.Tuple)) and len(a.elts) == 0:
                return self.prim("PEmptyF", [])
            if isinstance(a, (ast.List, ast.Tuple)) and len(a.elts) == 1:
                return self.prim("PArr1", [E(a.elts[0])])
        if n == "full" and self.spec.get("float_data") and len(args) == 2 and isinstance(args[0], ast.Tuple) \
                and len(args[0].elts) == 2 and isinstance(args[0].elts[1], ast.Starred) \
                and ast.unparse(args[0].elts[1]).endswith(".shape[1:]") \
                and isinstance(args[0].elts[0], ast.Call) and call_text(args[0].elts[0].func) == "len" \
                and all(k.arg == "dtype" for k in kws):
            self.declared.append(f"line {node.lineno}: np.full((len(x), *data.shape[1:]), v, dtype=float type) with 1-D float data read as np.full(len(x), v)")
            return self.prim("PFullLike", [E(args[0].elts[0].args[0]), E(args[1])])
        if n == "empty" and self.spec.get("ndim1") and len(args) == 1 \
                and ast.unparse(args[0]) == "tuple([0] + [d for d in data_array.shape[1:]])":
            self.declared.append(f"line {node.lineno}: np.empty((0, *data_array.shape[1:])) with 1-D data read as the empty float array")
            return self.prim("PEmptyF", [])
        raise Unsupported(f"np.{n} call form", node)

    def kernel_call(self, name, node):
        kname, sig = KERNEL_SIGS[name]
        vals = {}
        pos = [a for a in node.args]
        full = list(sig)
        # positional arguments may include the dropped dtype parameter of the real signature
        real_sig = self.real_kernel_sig(name)
        if len(pos) > len(real_sig):
            raise Unsupported(f"too many arguments for {name}", node)
        for p, a in zip(real_sig, pos):
            vals[p] = a
        for k in node.keywords:
            if k.arg is None or k.arg in vals or k.arg not in real_sig:
                raise Unsupported(f"keyword {k.arg} of {name}", node)
            vals[k.arg] = k.value
        out = []
        for p in full:
            if p not in vals:
                raise Unsupported(f"argument {p} of {name} missing (defaults are not modelled)", node)
            out.append(self.expr_(vals[p]))
        for p in vals:
            if p not in full and p not in KERNEL_DROPPED_PARAMS:
                raise Unsupported(f"argument {p} of {name} has no counterpart in the kernel model", node)
        if kname not in self.kernels:
            self.kernels.append(kname)
        return f"EKernel {coq_str(kname)} [{'; '.join(out)}]"

    _ksig_cache = {}

    def real_kernel_sig(self, name):
        if not Routine._ksig_cache:
            with open(f"{REPO}/pynapple/core/_jitted_functions.py") as fh:
                tree = ast.parse(fh.read())
            for n in tree.body:
                if isinstance(n, ast.FunctionDef):
                    Routine._ksig_cache[n.name] = [p.arg for p in n.args.args]
        if name not in Routine._ksig_cache:
            raise Unsupported(f"kernel {name} not found in _jitted_functions.py")
        sig = Routine._ksig_cache[name]
        want = KERNEL_SIGS[name][1]
        if [p for p in sig if p not in KERNEL_DROPPED_PARAMS] != want:
            raise Unsupported(f"signature of kernel {name} changed: {sig}")
        return sig

    def self_method_call(self, name, node):
        """self.<method>(...) where <class>.<method> is a whitelisted routine: arguments mapped by the callee's signature;
        an argument for a parameter the callee declares dropped must be that parameter's assumed value"""
        spec = next(r for r in ROUTINES if r["name"] == name)
        sig = [p.arg for p in load(spec).args.args][1:]
        vals = dict(zip(sig, node.args))
        if len(node.args) > len(sig):
            raise Unsupported(f"call of {name}: too many arguments", node)
        for k in node.keywords:
            if k.arg is None or k.arg in vals or k.arg not in sig:
                raise Unsupported(f"call of {name}: keyword {k.arg}", node)
            vals[k.arg] = k.value
        for p, v in vals.items():
            if p in spec["dropped"]:
                why = spec["dropped"][p]
                ok = (why.startswith("assumed None") and isinstance(v, ast.Constant) and v.value is None) or \
                     (why.startswith("assumed 's'") and ((isinstance(v, ast.Constant) and v.value == "s") or
                      (isinstance(v, ast.Name) and v.id in self.spec["dropped"] and self.spec["dropped"][v.id].startswith("assumed 's'"))))
                if not ok:
                    raise Unsupported(f"call of {name}: argument {p}={ast.unparse(v)} contradicts the callee's declaration ({why})", node)
        kept = [p for p in spec["params"] if p != "self"]
        if any(p not in vals for p in kept):
            raise Unsupported(f"call of {name}: an argument is missing (defaults are not modelled)", node)
        self.note_callee(name, node)
        return f"ECall {coq_str(name)} [{'; '.join([self.expr_(node.func.value)] + [self.expr_(vals[p]) for p in kept])}]"

    def ctor_env_call(self, node):
        """X._define_instance(...), _initialize_tsd_output(...), Tsd(...): calls interpreted by the constructor environment"""
        f = node.func
        name = f.attr if isinstance(f, ast.Attribute) else f.id
        sig = CONSTRUCTORS[name]
        vals = {}
        rest = list(sig)
        if sig[0] == "<receiver>":
            vals["<receiver>"] = f.value
            rest = sig[1:]
        if len(node.args) > len(rest):
            raise Unsupported(f"{name}(...): too many arguments", node)
        for p, a in zip(rest, node.args):
            vals[p] = a
        for k in node.keywords:
            if k.arg is None or k.arg in vals or k.arg not in rest:
                raise Unsupported(f"{name}(...): keyword {k.arg}", node)
            vals[k.arg] = k.value
        out = [self.expr_(vals[p]) if p in vals else "EConst GNone" for p in sig]
        if name not in self.kernels:
            self.kernels.append(name)
        return f"EKernel {coq_str(name)} [{'; '.join(out)}]"

    def constructor_call(self, node):
        spec = next(r for r in ROUTINES if r["name"] == "IntervalSet.__init__")
        sig = ["start", "end", "time_units", "metadata"]
        vals = {}
        for p, a in zip(sig, node.args):
            vals[p] = a
        if len(node.args) > len(sig):
            raise Unsupported("IntervalSet(...) arguments", node)
        for k in node.keywords:
            if k.arg is None or k.arg in vals or k.arg not in sig:
                raise Unsupported(f"IntervalSet(...) keyword {k.arg}", node)
            vals[k.arg] = k.value
        if "time_units" in vals:
            raise Unsupported("IntervalSet(...) with explicit time_units", node)
        if "metadata" in vals:
            self.skipped.append({"line": node.lineno, "text": "metadata=" + ast.unparse(vals["metadata"]),
                                 "why": "metadata sink: keyword of the constructor, dropped"})
        if "start" not in vals or "end" not in vals:
            raise Unsupported("IntervalSet(...) without both start and end", node)
        self.note_callee("IntervalSet.__init__", node)
        return f"ECall \"IntervalSet.__init__\" [{self.expr_(vals['start'])}; {self.expr_(vals['end'])}]"

    # ------------------------------------------------------------ statements
    def seq(self, items):
        if not items:
            return "SSkip"
        return "gseq [" + ";\n    ".join(items) + "]"

    def block(self, stmts, outer=()):
        out = []
        for i, s in enumerate(stmts):
            out.extend(self.stmt(s, list(outer) + list(stmts[:i])))
        return out

    def skip(self, s, why):
        self.skipped.append({"line": s.lineno, "text": ast.unparse(s).split("\n")[0][:120], "why": why,
                             "defines": sorted(names_written(s))})
        return []

    def mentions_metadata(self, node):
        for n in ast.walk(node):
            if isinstance(n, ast.Attribute) and n.attr in METADATA_SOURCES:
                return True
            if isinstance(n, ast.Name) and n.id in self.meta_names:
                return True
        return False

    meta_names = None

    def pure_for_skip(self, node):
        """every call inside a skipped statement must be on the pure whitelist"""
        for n in ast.walk(node):
            if isinstance(n, ast.Call):
                f = n.func
                nm = f.attr if isinstance(f, ast.Attribute) else (f.id if isinstance(f, ast.Name) else None)
                if call_text(f) in SKIP_EXPR_CALLS:
                    continue
                if nm not in PURE_CALLS_IN_SKIPPED:
                    return False
        return True

    def is_message_text(self, v):
        """string constants, their concatenations, '\\n'.join(all_warnings[...])"""
        if isinstance(v, ast.Constant) and isinstance(v.value, str):
            return True
        if isinstance(v, ast.BinOp) and isinstance(v.op, ast.Add):
            return self.is_message_text(v.left) and self.is_message_text(v.right)
        if isinstance(v, ast.Name) and v.id in self.msg_names:
            return True
        if isinstance(v, ast.Call) and isinstance(v.func, ast.Attribute) and v.func.attr == "join" \
                and isinstance(v.func.value, ast.Constant):
            return True
        return False

    msg_names = None

    def skippable(self, s):
        """returns the reason when statement s matches the skip whitelist, else None"""
        if self.meta_names is None:
            self.meta_names = {"metadata", "drop_meta"} if "metadata" in self.spec["dropped"] else set()
            self.msg_names = set()
        if isinstance(s, ast.Expr) and isinstance(s.value, ast.Constant) and isinstance(s.value.value, str):
            return "docstring"
        if isinstance(s, ast.Expr) and isinstance(s.value, ast.Call) and call_text(s.value.func) in SKIP_EXPR_CALLS:
            t = call_text(s.value.func)
            return "warnings.warn(...)" if t == "warnings.warn" else f"object bookkeeping: {t}(...)"
        if isinstance(s, ast.Assert) and isinstance(s.test, ast.Call) and call_text(s.test.func) == "isinstance":
            return "assert on types"
        if isinstance(s, ast.Assign) and len(s.targets) == 1:
            t, v = s.targets[0], s.value
            if isinstance(t, ast.Attribute) and isinstance(t.value, ast.Name) and t.value.id == "self" \
                    and t.attr in SELF_BOOKKEEPING_ATTRS and self.spec.get("constructor") and self.pure_for_skip(v):
                return f"object bookkeeping: self.{t.attr}"
            if isinstance(t, ast.Name):
                if self.is_message_text(v):
                    self.msg_names.add(t.id)
                    return "message text"
                if t.id in DTYPE_NAMES and (self.spec.get("float_data") or t.id in self.spec["dropped"]) and self.pure_for_skip(v):
                    return "dtype bookkeeping (float data declared)" if self.spec.get("float_data") else "dtype bookkeeping (declared default dtype)"
                if (self.mentions_metadata(v) or t.id in self.meta_names) and self.pure_for_skip(v) \
                        and (self.mentions_metadata(v) or (isinstance(v, ast.Constant) and isinstance(v.value, bool))):
                    self.meta_names.add(t.id)
                    return "metadata bookkeeping"
        if isinstance(s, ast.If):
            inner = [self.skippable(x) for x in s.body + s.orelse]
            if all(r is not None for r in inner) and self.pure_for_skip(s.test):
                return "if whose branches contain only skipped statements (" + ", ".join(sorted(set(inner))) + ")"
        return None

    def assumed_value(self, test):
        txt = ast.unparse(test)
        table = self.spec.get("assume") or {}
        if txt in table:
            return txt, table[txt]
        return txt, None

    def stmt(self, s, before):
        why = self.skippable(s)
        if why is not None:
            return self.skip(s, why)
        if isinstance(s, ast.Assign):
            if len(s.targets) != 1:
                raise Unsupported("multiple assignment targets", s)
            t = s.targets[0]
            if isinstance(t, ast.Name):
                e = self.expr(s.value)
                return [f"SAssign {self.var(t.id, s, define=True)}%nat ({e})"]
            if isinstance(t, ast.Tuple) and all(isinstance(x, ast.Name) for x in t.elts):
                e = self.expr(s.value)
                xs = [f"{self.var(x.id, s, define=True)}%nat" for x in t.elts]
                return [f"SUnpack [{'; '.join(xs)}] ({e})"]
            if isinstance(t, ast.Subscript) and isinstance(t.value, ast.Name):
                self.fresh_check(t.value.id, s, before)
                self.translated_reads.add(t.value.id)
                return [f"SStoreIdx {self.var(t.value.id, s)}%nat ({self.expr(t.slice)}) ({self.expr(s.value)})"]
            raise Unsupported(f"assignment target {type(t).__name__}", s)
        if isinstance(s, ast.AugAssign):
            op = BINOPS.get(type(s.op))
            t = s.target
            if op and isinstance(t, ast.Subscript) and isinstance(t.value, ast.Name):
                self.fresh_check(t.value.id, s, before)
                self.translated_reads.add(t.value.id)
                return [f"SAugIdx {self.var(t.value.id, s)}%nat ({self.expr(t.slice)}) {op} ({self.expr(s.value)})"]
            if op and isinstance(t, ast.Name):
                x = self.var(t.id, s)
                self.translated_reads.add(t.id)
                return [f"SAssign {x}%nat (EPrim (PBin {op}) [EVar {x}%nat; {self.expr(s.value)}])"]
            raise Unsupported("augmented assignment form", s)
        if isinstance(s, ast.If):
            txt, val = self.assumed_value(s.test)
            if val is not None:
                self.assumed.append({"line": s.lineno, "test": txt, "value": val})
                return self.block(s.body if val else s.orelse, before)
            c = self.expr(s.test)
            a = self.block(s.body, before)
            b = self.block(s.orelse, before)
            return [f"SIf ({c})\n    ({self.seq(a)})\n    ({self.seq(b)})"]
        if isinstance(s, ast.Return):
            if s.value is None:
                return ["SReturn (EConst GNone)"]
            return [f"SReturn ({self.expr(s.value)})"]
        if isinstance(s, ast.Raise):
            exc = s.exc
            if isinstance(exc, ast.Call):
                exc = exc.func
            if isinstance(exc, ast.Name):
                return [f"SRaise {coq_str(exc.id)}"]
            raise Unsupported("raise form", s)
        if isinstance(s, ast.Assert):
            c = self.expr(s.test)
            return [f"SIf ({c}) (SSkip) (SRaise \"AssertionError\")"]
        if isinstance(s, ast.Pass):
            return []
        raise Unsupported(f"statement {type(s).__name__}: {ast.unparse(s)[:60]}", s)

    def fresh_check(self, x, s, before):
        """x[...] is mutated in place by statement s: the nearest preceding statement of the same block that binds x
        must bind it to the result of a call (a fresh array), and no statement in between may alias it."""
        flat = []
        for prev in before:          # an `if` with a declared (assumed) test is its taken branch, inline
            if isinstance(prev, ast.If) and self.assumed_value(prev.test)[1] is not None:
                flat.extend(prev.body if self.assumed_value(prev.test)[1] else prev.orelse)
            else:
                flat.append(prev)
        for prev in reversed(flat):
            w = names_written(prev)
            if x in w:
                v = prev.value if isinstance(prev, ast.Assign) else None
                if isinstance(prev, ast.Assign) and isinstance(v, ast.Call):
                    return
                raise Unsupported(f"in-place update of {x}, which is not bound to a fresh array in this block", s)
            if isinstance(prev, ast.Assign) and isinstance(prev.value, ast.Name) and prev.value.id == x:
                raise Unsupported(f"in-place update of {x} after it was aliased", s)
            if isinstance(prev, (ast.If, ast.For, ast.While)):
                if x in names_written(prev) or any(isinstance(n, ast.Assign) and isinstance(n.value, ast.Name)
                                                   and n.value.id == x for n in ast.walk(prev)):
                    raise Unsupported(f"in-place update of {x} after a compound statement touching it", s)
        raise Unsupported(f"in-place update of {x}, which is not bound in this block (it may be the caller's array)", s)

    # ------------------------------------------------------------ the constructor's numeric core
    def region_body(self, body):
        a, b = self.spec["region"]
        texts = [ast.unparse(s) for s in body]
        if texts.count(a) != 1 or texts.count(b) != 1:
            raise Unsupported(f"region markers of {self.name} not found exactly once")
        i, j = texts.index(a), texts.index(b)
        if not i < j:
            raise Unsupported("region markers out of order")
        # prologue (lines before the region): the isinstance dispatch that turns the arguments into 1-D arrays.
        pre_src = "\n".join(texts[:i])
        for needed in ("np.array([data])", "assert len(start) == len(end)", "np.ravel(np.array(data))"):
            if needed not in pre_src:
                raise Unsupported(f"constructor prologue no longer contains `{needed}`")
        self.declared.append(
            f"lines {body[0].lineno}-{body[i].lineno - 1} (argument dispatch of the constructor) are summarised by the declared prologue: "
            "a Number becomes a 1-element float array, an array / list its 1-D float array (PToArr); "
            "assert len(start) == len(end)")
        s0, e0 = self.var("start"), self.var("end")
        out = [f"SAssign {s0}%nat (EPrim PToArr [EVar {s0}%nat])",
               f"SAssign {e0}%nat (EPrim PToArr [EVar {e0}%nat])",
               f"SIf (EPrim (PCmp Eq) [EPrim PLen [EVar {s0}%nat]; EPrim PLen [EVar {e0}%nat]]) (SSkip) (SRaise \"AssertionError\")"]
        out += self.block(body[i:j + 1])
        # epilogue: `self.values = data` exactly once, everything else must be skippable
        tail = body[j + 1:]
        seen = 0
        for s in tail:
            if ast.unparse(s) == "self.values = data":
                seen += 1
                continue
            why = self.skippable(s)
            if why is None:
                raise Unsupported(f"constructor epilogue statement outside the skip whitelist: {ast.unparse(s)[:60]}", s)
            self.skip(s, why)
        if seen != 1:
            raise Unsupported("constructor epilogue: `self.values = data` not found exactly once")
        self.translated_reads.add("data")
        self.declared.append("`self.values = data` read as: the constructed object is the IntervalSet whose values are `data`")
        out.append(f"SReturn (EPrim PMkIset [EVar {self.var('data')}%nat])")
        return out

    # ------------------------------------------------------------ def-use check of the skipped statements
    def defuse_check(self):
        for sk in self.skipped:
            for d in sk.get("defines", []):
                if d in self.translated_reads:
                    raise Unsupported(f"{self.name}: skipped statement at line {sk['line']} ({sk['why']}) defines `{d}`, "
                                      f"which a translated statement reads")
        for n in (self.meta_names or set()) | (self.msg_names or set()):
            if n in self.translated_reads and n not in self.spec["params"]:
                raise Unsupported(f"{self.name}: metadata / message name `{n}` flows into a translated expression")

    # ------------------------------------------------------------ output
    def coq_name(self):
        return "g_" + self.name.replace(".", "_")

    def coq(self):
        return (f"Definition {self.coq_name()} : gfunc :=\n  mkG {coq_str(self.name)} {len(self.params)}%nat {len(self.vars)}%nat\n"
                f"   ({self.seq(self.body)}).\n")

    def term_hash(self):
        return hashlib.sha256(self.coq().encode()).hexdigest()


def load(spec):
    with open(f"{REPO}/{spec['file']}") as fh:
        tree = ast.parse(fh.read())
    scope = tree.body
    if spec.get("cls"):
        cl = [n for n in tree.body if isinstance(n, ast.ClassDef) and n.name == spec["cls"]]
        if len(cl) != 1:
            raise Unsupported(f"class {spec['cls']} not found exactly once in {spec['file']}")
        scope = cl[0].body
    fns = [n for n in scope if isinstance(n, ast.FunctionDef) and n.name == spec["func"]]
    if len(fns) != 1:
        raise Unsupported(f"routine {spec['name']} not found exactly once in {spec['file']}")
    return fns[0]


def translate_all(only=None):
    out = []
    for spec in ROUTINES:
        if only is not None and spec["name"] not in only:
            continue
        fn = load(spec)
        try:
            r = Routine(spec, fn)
        except Unsupported as e:
            raise Unsupported(f"{spec['name']}: {e}") from None
        r.rel = spec["file"]
        r.line = fn.lineno
        r.hash = normalised_hash(fn)
        out.append(r)
    return out


HEADER = """(* GENERATED by tools/py2glue.py from the pynapple sources -- do not edit.
   One Glue.Lang term per whitelisted glue routine; regenerate with: /venv/bin/python tools/gen_glue.py *)
From Coq Require Import ZArith QArith String List.
From Verif Require Import Jit.Lang Glue.Lang Glue.Interp.
Import ListNotations.
Local Open Scope string_scope.

"""


def render(rs):
    out = [HEADER]
    for r in rs:
        out.append(f"(* {r.name}: {r.rel}:{r.line}  sha256(normalised ast) = {r.hash}\n"
                   f"   variables: {' '.join(f'{i}={v}' for i, v in enumerate(r.vars))}\n"
                   f"   skipped statements: {len(r.skipped)}  assumed tests: {len(r.assumed)} *)\n")
        out.append(r.coq())
        out.append("\n")
    out.append("Definition all_glue : list gfunc :=\n  [" + ";\n   ".join(r.coq_name() for r in rs) + "].\n\n"
               "(* a public call of routine [g]: calls between routines are resolved in [all_glue] *)\n"
               "Definition grun (K : kenv) (g : gfunc) (args : list gval) : gres gval :=\n"
               "  grun_env K all_glue g args.\n")
    return "".join(out)


def main():
    try:
        rs = translate_all()
    except Unsupported as e:
        sys.stderr.write(f"py2glue: {e}\n")
        return 2
    sys.stdout.write(render(rs))
    return 0


if __name__ == "__main__":
    sys.exit(main())
