"""usage: tools/merge_known.py <known_entries.json>  -- merges proposed known-finding entries (handles "replaces")"""
import json, sys
p = '/verif/known_findings.json'
d = json.load(open(p))
new = json.load(open(sys.argv[1]))
for e in new:
    rep = e.pop("replaces", None)
    if rep is not None:
        before = len(d['findings'])
        d['findings'] = [f for f in d['findings'] if not (f.get('kind') == 'known' and f.get('property') == e['property'] and f.get('match') == rep)]
        print("replaced" if len(d['findings']) < before else "REPLACE TARGET NOT FOUND", e['property'], rep)
    if any(f.get('kind') == 'known' and f.get('property') == e['property'] and f.get('match') == e['match'] for f in d['findings']):
        print("already present", e['match']); continue
    d['findings'].append(e)
    print("added", e['property'], e['match'])
json.dump(d, open(p, 'w'), indent=1)
