#!/bin/bash
# usage: tools/confirm_seed.sh <patch> <demo.py> <seed-name> <property> <notes.md>
# Confirms in a scratch worktree of /repo HEAD: demo exits 0 unchanged, !=0 with patch, baseline tests still pass with patch.
PATCH="$1"; DEMO="$2"; NAME="$3"; PID="$4"; NOTES="$5"
WT=/tmp/confirm_$NAME
git -C /repo worktree add -q --detach $WT HEAD || exit 2
export PYTHONDONTWRITEBYTECODE=1 NUMBA_CACHE_DIR=$WT/.nbcache
cd $WT
PYTHONPATH=$WT timeout 900 /venv/bin/python "$DEMO" >/dev/null 2>&1; R0=$?
git apply "$PATCH" || { echo "patch fails"; git -C /repo worktree remove --force $WT; exit 2; }
PYTHONPATH=$WT timeout 900 /venv/bin/python "$DEMO" > $WT/demo_out.txt 2>&1; R1=$?
PYTHONPATH=$WT timeout 1800 /venv/bin/python -m pytest -q -p no:cacheprovider --timeout=900 --continue-on-collection-errors --junitxml=$WT/junit.xml >/dev/null 2>&1
MISSING=$(/venv/bin/python - <<PY
import json, xml.etree.ElementTree as ET
base=set(json.load(open("/root/.vp/BASELINE.json"))["stable_pass"])
ok=set()
for tc in ET.parse("$WT/junit.xml").getroot().iter("testcase"):
    if not any(ch.tag in ("failure","error","skipped") for ch in tc): ok.add(tc.get("classname")+"::"+tc.get("name"))
print(len(base-ok))
PY
)
echo "$NAME: demo unchanged rc=$R0, with patch rc=$R1, baseline tests missing with patch=$MISSING"
if [ "$R0" = "0" ] && [ "$R1" != "0" ] && [ "$MISSING" = "0" ]; then
  D=/verif/seeded/$NAME; mkdir -p $D
  cp "$PATCH" $D/patch.diff; cp "$DEMO" $D/demo.py; [ -f "$NOTES" ] && cp "$NOTES" $D/notes.md
  head -c 1500 $WT/demo_out.txt > $D/demo_output_with_patch.txt
  cat > $D/meta.json <<JSON
{"property": "$PID", "seed": "$NAME", "confirmed": {"demo_rc_unchanged": $R0, "demo_rc_with_patch": $R1, "baseline_tests_missing_with_patch": $MISSING},
 "ran": ["PYTHONPATH=<worktree> /venv/bin/python demo.py (unchanged and patched)", "pytest baseline command in the patched worktree, compared with BASELINE.json stable_pass"],
 "needs": "see notes.md", "caught_by": "TO-FILL"}
JSON
  echo "KEPT $NAME"
else
  echo "REJECTED $NAME"
fi
cd /; git -C /repo worktree remove --force $WT
