#!/bin/bash
# seed regression: every kept seed must still be caught by its property's check on the current tree
cd "$(dirname "$0")/.."
run() {
  s=$1; p=${s%%-*}
  out=$(tools/try_patch.sh seeded/$s/patch.diff $p 2>&1 | grep -v "^KNOWN" | tail -2 | tr '\n' ' ')
  echo "$s :: $out"
}
export -f run
ls seeded | xargs -P 6 -I{} bash -c 'run {}'
