#!/bin/bash
# usage: tools/seed_round4.sh Cxx   -- confirm the two round-4 seeds of /tmp/mut4_Cxx_out as seeded/Cxx-7, -8 and run the property's check on each
cd "$(dirname "$0")/.."
P=$1; O=/tmp/mut4_${P}_out
for i in 1 2; do
  N=$P-$((6+i))
  [ -f $O/patch$i.diff ] || { echo "$N: no patch"; continue; }
  tools/confirm_seed.sh $O/patch$i.diff $O/demo$i.py $N $P $O/notes$i.md 2>&1 | tail -2
  if [ -d seeded/$N ]; then
    echo "$N :: $(tools/try_patch.sh seeded/$N/patch.diff $P 2>&1 | grep -v '^KNOWN' | tail -2 | tr '\n' ' ')"
  fi
done
