import os
#!/venv/bin/python
"""py2jit: translate the numba kernels of pynapple into Jit.Lang terms (Coq).

Fail-closed: any syntax or intrinsic that is not in the tables below raises Unsupported, and the
command line exits with status 2 naming the construct and its source line.

Modelling decisions made here (they are part of the trusted reading of the model):
  * `dtype` parameters are compile-time constants (int64): they are dropped from the parameter
    list and `np.zeros(n, dtype=dtype)` builds an integer array.
  * string parameters (`method`) are integer tags; `method == "above"` becomes a comparison with
    the tag of "above" (STRING_TAGS, also exported to kernels.json).
  * trailing axes of N-d data (`f = data_array.shape[1:]`, `np.zeros((nb, *f))`) are collapsed:
    the array is modelled by its axis 0 with scalar cells (the instance f == ()).  Axis 0 is the
    only axis these kernels index, and it is bounds-checked.
  * a literal negative index `a[-1]` is translated as `a[len(a) - 1]`; every other index that
    evaluates negative is an out-of-bounds error in the model.
  * `a[i] op= e` is the read `a[i]` (its own site) followed by the store (another site).
  * `a[i] = [x, y]` / `a[i] = (x, y)` on a 2-D array is `a[i,0] = x; a[i,1] = y`.
"""
import ast
import hashlib
import sys
from fractions import Fraction

REPO = os.environ.get("VERIF_REPO", "/repo")
KERNELS = [
    ("pynapple/core/_jitted_functions.py", "jitrestrict"),
    ("pynapple/core/_jitted_functions.py", "jitrestrict_with_count"),
    ("pynapple/core/_jitted_functions.py", "jitvaluefrom"),
    ("pynapple/core/_jitted_functions.py", "jitcount"),
    ("pynapple/core/_jitted_functions.py", "jitin_interval"),
    ("pynapple/core/_jitted_functions.py", "jitremove_nan"),
    ("pynapple/core/_jitted_functions.py", "jitthreshold"),
    ("pynapple/core/_jitted_functions.py", "_jitbin_array"),
    ("pynapple/core/_jitted_functions.py", "jitintersect"),
    ("pynapple/core/_jitted_functions.py", "jitunion"),
    ("pynapple/core/_jitted_functions.py", "jitdiff"),
    ("pynapple/core/_jitted_functions.py", "jitunion_isets"),
    ("pynapple/core/_jitted_functions.py", "_jitfix_iset"),
    ("pynapple/process/_process_functions.py", "_jitcontinuous_perievent"),
    ("pynapple/process/_process_functions.py", "_jitperievent_trigger_average"),
    ("pynapple/process/correlograms.py", "_cross_correlogram"),
    ("pynapple/process/spectrum.py", "_overlap_split"),
]

# kernels whose source is hashed and listed, but which are outside Jit.Lang (N-d hankel arrays)
UNTRANSLATED = []

STRING_TAGS = {"above": 0, "below": 1, "aboveequal": 2, "belowequal": 3}

DTYPES = {"int64": "DInt", "int32": "DInt", "bool_": "DBool", "float64": "DFlt"}


class Unsupported(Exception):
    def __init__(self, what, node=None):
        line = getattr(node, "lineno", "?")
        super().__init__(f"unsupported construct: {what} (line {line})")


def coq_str(s):
    return '"' + s + '"'


def coq_z(n):
    return f"({n})%Z"


def coq_q(fr):
    return f"({fr.numerator} # {fr.denominator})%Q"


def normalised_hash(fn):
    """sha256 of the AST dump of the function without docstring and decorators."""
    body = list(fn.body)
    if body and isinstance(body[0], ast.Expr) and isinstance(body[0].value, ast.Constant) \
            and isinstance(body[0].value.value, str):
        body = body[1:]
    clone = ast.FunctionDef(name=fn.name, args=fn.args, body=body, decorator_list=[],
                            returns=None, type_comment=None)
    return hashlib.sha256(ast.dump(clone, include_attributes=False).encode()).hexdigest()


def is_np(node, name):
    return (isinstance(node, ast.Attribute) and isinstance(node.value, ast.Name)
            and node.value.id == "np" and node.attr == name)


def np_name(node):
    if isinstance(node, ast.Attribute) and isinstance(node.value, ast.Name) and node.value.id == "np":
        return node.attr
    return None


class Kernel:
    """Translation of one function.  `kinds` maps a name to
       'sc' | ('arr', dims, elem) with dims in {1, 2} and elem in {'int','flt','bool','?'} | 'rowshape'."""

    def __init__(self, fn, src_lines, results):
        self.fn = fn
        self.name = fn.name
        self.results = results          # already translated kernels: name -> Kernel (for calls)
        self.site = 0
        self.label = 0
        self.labels = []
        self.tmp = 0
        self.kinds = {}
        self.params = []
        self.assigned = []
        self.ret_kinds = None
        self.callees = []
        self.classify_params()
        self.body = self.block(self.strip_doc(fn.body))
        self.locals = [x for x in self.assigned if x not in self.params]

    # ---------- helpers ----------
    def strip_doc(self, body):
        if body and isinstance(body[0], ast.Expr) and isinstance(body[0].value, ast.Constant) \
                and isinstance(body[0].value.value, str):
            return body[1:]
        return body

    def new_site(self):
        s = self.site
        self.site += 1
        return f"{s}%nat"

    def new_label(self, what="?", node=None):
        s = self.label
        self.label += 1
        self.labels.append(f"{s}={what}@{getattr(node, 'lineno', '?')}")
        return f"{s}%nat"

    def new_tmp(self, kind):
        t = f"_t{self.tmp}"
        self.tmp += 1
        self.note_assign(t, kind)
        return t

    def note_assign(self, x, kind):
        old = self.kinds.get(x)
        if old is not None and old != kind:
            oa = isinstance(old, tuple)
            na = isinstance(kind, tuple)
            if oa != na:
                raise Unsupported(f"name {x} used both as array and scalar")
            if oa and old[1] != kind[1]:
                raise Unsupported(f"name {x} rebound to an array of another rank")
            if oa and old[2] != kind[2]:
                kind = ("arr", kind[1], kind[2] if old[2] == "?" else (old[2] if kind[2] == "?" else kind[2]))
        self.kinds[x] = kind
        if x not in self.assigned:
            self.assigned.append(x)

    def classify_params(self):
        """A parameter is an array iff it is subscripted, measured (len/.shape) or passed to an array
        intrinsic somewhere in the body; 2-D iff subscripted with two indices or .shape[1] is read."""
        arr1, arr2 = set(), set()
        for node in ast.walk(self.fn):
            if isinstance(node, ast.Subscript) and isinstance(node.value, ast.Name):
                arr1.add(node.value.id)
                if isinstance(node.slice, ast.Tuple) and len(node.slice.elts) == 2:
                    arr2.add(node.value.id)
            if isinstance(node, ast.Attribute) and node.attr in ("shape", "sum") and isinstance(node.value, ast.Name):
                arr1.add(node.value.id)
            if isinstance(node, ast.Subscript) and isinstance(node.value, ast.Attribute) \
                    and node.value.attr == "shape" and isinstance(node.value.value, ast.Name) \
                    and isinstance(node.slice, ast.Constant) and node.slice.value == 1:
                arr2.add(node.value.value.id)
            if isinstance(node, ast.Call):
                f = node.func
                if (isinstance(f, ast.Name) and f.id == "len") or np_name(f) in ("sum", "argsort", "cumsum"):
                    for a in node.args[:1]:
                        if isinstance(a, ast.Name):
                            arr1.add(a.id)
                        if isinstance(a, ast.BinOp):
                            for b in (a.left, a.right):
                                if isinstance(b, ast.Name):
                                    arr1.add(b.id)
                if self.callee_name(f) is not None:
                    for a in node.args:
                        if isinstance(a, ast.Name):
                            arr1.add(a.id)   # all kernel-to-kernel arguments here are arrays
            if isinstance(node, ast.Compare) and isinstance(node.left, ast.Name) and \
                    isinstance(node.comparators[0], ast.Name):
                pass
        a = self.fn.args
        if a.vararg or a.kwarg or a.kwonlyargs or a.posonlyargs:
            raise Unsupported("parameter form", self.fn)
        for p in a.args:
            x = p.arg
            if x == "dtype":
                continue                       # compile-time constant, see module docstring
            self.params.append(x)
            if x in arr2:
                self.kinds[x] = ("arr", 2, "?")
            elif x in arr1:
                self.kinds[x] = ("arr", 1, "?")
            else:
                self.kinds[x] = "sc"
        # `ix = data_array > thr`: the left operand of an array comparison is an array parameter
        for node in ast.walk(self.fn):
            if isinstance(node, ast.Assign) and isinstance(node.value, ast.Compare):
                pass

    def callee_name(self, f):
        n = None
        if isinstance(f, ast.Name):
            n = f.id
        elif isinstance(f, ast.Attribute):
            n = f.attr
        if n in self.results and n != self.name:
            # nap._jitted_functions.jitrestrict_with_count or a bare name
            return n
        return None

    def is_arr(self, node, dims=None):
        if isinstance(node, ast.Name):
            k = self.kinds.get(node.id)
            if isinstance(k, tuple) and (dims is None or k[1] == dims):
                return True
        return False

    def arr_name(self, node, what):
        if not self.is_arr(node):
            raise Unsupported(f"{what}: expected an array name, got {ast.dump(node)[:60]}", node)
        return node.id

    def dtype_of(self, call, default="DFlt"):
        for kw in call.keywords:
            if kw.arg == "dtype":
                v = kw.value
                if isinstance(v, ast.Name) and v.id == "dtype":
                    return "DInt"
                n = np_name(v)
                if n in DTYPES:
                    return DTYPES[n]
                raise Unsupported(f"dtype {ast.dump(v)}", call)
            else:
                raise Unsupported(f"keyword {kw.arg}", call)
        return default

    # ---------- expressions ----------
    def const(self, node):
        v = node.value
        if isinstance(v, bool):
            return f"EBool {'true' if v else 'false'}"
        if isinstance(v, int):
            return f"EInt {coq_z(v)}"
        if isinstance(v, float):
            return f"EFlt {coq_q(Fraction(repr(v)))}"
        if isinstance(v, str):
            if v in STRING_TAGS:
                return f"EInt {coq_z(STRING_TAGS[v])}"
            raise Unsupported(f"string constant {v!r}", node)
        raise Unsupported(f"constant {v!r}", node)

    def neg_literal(self, node):
        return (isinstance(node, ast.UnaryOp) and isinstance(node.op, ast.USub)
                and isinstance(node.operand, ast.Constant) and isinstance(node.operand.value, int)
                and not isinstance(node.operand.value, bool) and node.operand.value > 0)

    def index(self, a, node):
        """an index expression on axis 0 of array a; literal negatives are len(a) - k"""
        if self.neg_literal(node):
            return f"EBin Sub (ELen {coq_str(a)}) (EInt {coq_z(node.operand.value)})"
        return self.expr(node)

    BINOPS = {ast.Add: "Add", ast.Sub: "Sub", ast.Mult: "Mul", ast.Div: "Div",
              ast.FloorDiv: "FloorDiv", ast.Mod: "Mod"}
    CMPOPS = {ast.Lt: "Lt", ast.LtE: "Le", ast.Gt: "Gt", ast.GtE: "Ge", ast.Eq: "Eq", ast.NotEq: "Ne"}

    def slice_bounds(self, a, sl):
        if sl.step is not None:
            raise Unsupported("slice step", sl)
        lo = "EInt (0)%Z" if sl.lower is None else self.expr(sl.lower)
        hi = f"ELen {coq_str(a)}" if sl.upper is None else self.expr(sl.upper)
        return lo, hi

    def expr(self, node):
        if isinstance(node, ast.Constant):
            return self.const(node)
        if isinstance(node, ast.Name):
            k = self.kinds.get(node.id)
            if k is None:
                # read of a name never assigned before in program order: still a scalar variable
                # (the interpreter will report Uninit); but it must not be a global
                raise Unsupported(f"name {node.id} read before any assignment in program order", node)
            if k != "sc":
                raise Unsupported(f"array/row-shape name {node.id} used as a scalar", node)
            return f"EVar {coq_str(node.id)}"
        if is_np(node, "nan"):
            return "ENan"
        if isinstance(node, ast.BinOp):
            op = self.BINOPS.get(type(node.op))
            if op is None:
                raise Unsupported(f"binary operator {type(node.op).__name__}", node)
            return f"EBin {op} ({self.expr(node.left)}) ({self.expr(node.right)})"
        if isinstance(node, ast.UnaryOp):
            if isinstance(node.op, ast.Not):
                return f"ENot ({self.expr(node.operand)})"
            if isinstance(node.op, ast.USub):
                if isinstance(node.operand, ast.Constant) and isinstance(node.operand.value, (int, float)) \
                        and not isinstance(node.operand.value, bool):
                    v = node.operand.value
                    if isinstance(v, int):
                        return f"EInt {coq_z(-v)}"
                    return f"EFlt {coq_q(-Fraction(repr(v)))}"
                return f"EUn Neg ({self.expr(node.operand)})"
            raise Unsupported(f"unary operator {type(node.op).__name__}", node)
        if isinstance(node, ast.BoolOp):
            c = "EAnd" if isinstance(node.op, ast.And) else "EOr"
            parts = [self.expr(v) for v in node.values]
            acc = parts[-1]
            for p in reversed(parts[:-1]):
                acc = f"{c} ({p}) ({acc})"
            return acc
        if isinstance(node, ast.Compare):
            if len(node.ops) != 1:
                raise Unsupported("chained comparison", node)
            op = self.CMPOPS.get(type(node.ops[0]))
            if op is None:
                raise Unsupported(f"comparison {type(node.ops[0]).__name__}", node)
            return f"ECmp {op} ({self.expr(node.left)}) ({self.expr(node.comparators[0])})"
        if isinstance(node, ast.IfExp):
            return f"EIf ({self.expr(node.test)}) ({self.expr(node.body)}) ({self.expr(node.orelse)})"
        if isinstance(node, ast.Subscript):
            return self.subscript_read(node)
        if isinstance(node, ast.Call):
            return self.call_expr(node)
        raise Unsupported(f"expression {type(node).__name__}", node)

    def subscript_read(self, node):
        base = node.value
        # a.shape[0] / a.shape[1]
        if isinstance(base, ast.Attribute) and base.attr == "shape" and self.is_arr(base.value):
            if isinstance(node.slice, ast.Constant) and node.slice.value == 0:
                return f"ELen {coq_str(base.value.id)}"
            if isinstance(node.slice, ast.Constant) and node.slice.value == 1 and self.is_arr(base.value, 2):
                return f"ECols {coq_str(base.value.id)}"
            raise Unsupported("shape subscript", node)
        a = self.arr_name(base, "subscript")
        dims = self.kinds[a][1]
        sl = node.slice
        if isinstance(sl, ast.Slice):
            raise Unsupported("slice used as a scalar expression", node)
        if isinstance(sl, ast.Tuple):
            if dims != 2 or len(sl.elts) != 2 or any(isinstance(e, ast.Slice) for e in sl.elts):
                raise Unsupported("tuple subscript", node)
            return f"ERead2 {self.new_site()} {coq_str(a)} ({self.index(a, sl.elts[0])}) ({self.expr(sl.elts[1])})"
        if dims != 1:
            raise Unsupported(f"row read of 2-D array {a}", node)
        return f"ERead1 {self.new_site()} {coq_str(a)} ({self.index(a, sl)})"

    def call_expr(self, node):
        f = node.func
        args = node.args
        if isinstance(f, ast.Name):
            if node.keywords:
                raise Unsupported(f"keywords in {f.id}()", node)
            if f.id == "len" and len(args) == 1:
                return f"ELen {coq_str(self.arr_name(args[0], 'len'))}"
            if f.id == "int" and len(args) == 1:
                return f"EUn ToInt ({self.expr(args[0])})"
            if f.id == "float" and len(args) == 1:
                return f"EUn ToFlt ({self.expr(args[0])})"
            if f.id == "abs" and len(args) == 1:
                return f"EUn Abs ({self.expr(args[0])})"
            if f.id in ("max", "min") and len(args) == 2:
                op = "Max" if f.id == "max" else "Min"
                return f"EBin {op} ({self.expr(args[0])}) ({self.expr(args[1])})"
            raise Unsupported(f"call to {f.id}", node)
        if isinstance(f, ast.Attribute) and f.attr == "sum" and self.is_arr(f.value) and not args \
                and not node.keywords:
            return f"ESumAll {coq_str(f.value.id)}"
        n = np_name(f)
        if n is not None:
            if n in ("ceil", "floor", "isnan") and len(args) == 1 and not node.keywords:
                op = {"ceil": "Ceil", "floor": "Floor", "isnan": "IsNan"}[n]
                return f"EUn {op} ({self.expr(args[0])})"
            if n == "round" and len(args) == 2 and isinstance(args[1], ast.Constant) and args[1].value == 9:
                return f"EUn Round9 ({self.expr(args[0])})"
            if n in ("minimum", "maximum") and len(args) == 2:
                op = "Max" if n == "maximum" else "Min"
                return f"EBin {op} ({self.expr(args[0])}) ({self.expr(args[1])})"
            if n == "sum" and len(args) == 1 and not node.keywords:
                if isinstance(args[0], ast.Name) and self.kinds.get(args[0].id) == "sc":
                    return self.expr(args[0])      # np.sum of a collapsed row is the cell itself
                return self.np_sum(args[0], node)
            if n == "sum" and len(args) == 2 and not node.keywords and isinstance(args[1], ast.Constant) \
                    and args[1].value == 0 and isinstance(args[0], ast.Subscript) \
                    and self.is_arr(args[0].value, 1) and isinstance(args[0].slice, ast.Slice):
                return self.np_sum(args[0], node)  # sum over axis 0 of a slice of rows (rows collapsed)
            if n == "any" and len(args) == 1:
                return self.np_any(args[0], node)
            raise Unsupported(f"np.{n} in an expression", node)
        raise Unsupported(f"call {ast.dump(f)[:80]}", node)

    def const_col(self, node):
        if isinstance(node, ast.Constant) and isinstance(node.value, int) and node.value >= 0:
            return node.value
        raise Unsupported("column index must be a non-negative literal", node)

    def np_sum(self, x, node):
        if self.is_arr(x):
            return f"ESumAll {coq_str(x.id)}"
        if isinstance(x, ast.BinOp) and isinstance(x.op, ast.Sub) and self.is_arr(x.left, 1) and self.is_arr(x.right, 1):
            return f"ESumDiff {self.new_site()} {coq_str(x.left.id)} {coq_str(x.right.id)}"
        if isinstance(x, ast.Subscript) and self.is_arr(x.value):
            a = x.value.id
            sl = x.slice
            if isinstance(sl, ast.Slice) and self.kinds[a][1] == 1:
                lo, hi = self.slice_bounds(a, sl)
                return f"ESum {coq_str(a)} ({lo}) ({hi})"
            if isinstance(sl, ast.Tuple) and len(sl.elts) == 2 and isinstance(sl.elts[0], ast.Slice) \
                    and self.kinds[a][1] == 2:
                lo, hi = self.slice_bounds(a, sl.elts[0])
                j = self.const_col(sl.elts[1])
                return f"ESumCol {self.new_site()} {coq_str(a)} ({lo}) ({hi}) {coq_z(j)}"
        raise Unsupported("np.sum argument", node)

    def np_any(self, x, node):
        # np.any((a[:, j1] * a[:, j2]) > 0)
        def col(n):
            if isinstance(n, ast.Subscript) and self.is_arr(n.value, 2) and isinstance(n.slice, ast.Tuple) \
                    and len(n.slice.elts) == 2 and isinstance(n.slice.elts[0], ast.Slice) \
                    and n.slice.elts[0].lower is None and n.slice.elts[0].upper is None \
                    and n.slice.elts[0].step is None:
                return n.value.id, self.const_col(n.slice.elts[1])
            return None
        if isinstance(x, ast.Compare) and len(x.ops) == 1 and isinstance(x.ops[0], ast.Gt) \
                and isinstance(x.comparators[0], ast.Constant) and x.comparators[0].value == 0 \
                and isinstance(x.left, ast.BinOp) and isinstance(x.left.op, ast.Mult):
            c1, c2 = col(x.left.left), col(x.left.right)
            if c1 and c2 and c1[0] == c2[0]:
                return f"EAnyColProdPos {self.new_site()} {coq_str(c1[0])} {coq_z(c1[1])} {coq_z(c2[1])}"
        raise Unsupported("np.any argument", node)

    # ---------- statements ----------
    def block(self, stmts):
        out = []
        for s in stmts:
            out.extend(self.stmt(s))
        return out

    def seq(self, items):
        if not items:
            return "SSkip"
        return "seq [" + ";\n".join(items) + "]"

    def stmt(self, s):
        if isinstance(s, ast.Expr) and isinstance(s.value, ast.Constant) and isinstance(s.value.value, str):
            return []
        if isinstance(s, ast.Assign):
            if len(s.targets) != 1:
                raise Unsupported("multiple assignment targets", s)
            return self.assign(s.targets[0], s.value, s)
        if isinstance(s, ast.AugAssign):
            return self.augassign(s)
        if isinstance(s, ast.If):
            lab = self.new_label("if", s)
            c = self.expr(s.test)
            # kinds flow through both branches in program order
            a = self.block(s.body)
            b = self.block(s.orelse)
            return [f"SIf {lab} ({c})\n ({self.seq(a)})\n ({self.seq(b)})"]
        if isinstance(s, ast.While):
            if s.orelse:
                raise Unsupported("while/else", s)
            lab = self.new_label("while", s)
            c = self.expr(s.test)
            b = self.block(s.body)
            return [f"SWhile {lab} ({c})\n ({self.seq(b)})"]
        if isinstance(s, ast.For):
            if s.orelse or not isinstance(s.target, ast.Name):
                raise Unsupported("for form", s)
            it = s.iter
            if not (isinstance(it, ast.Call) and isinstance(it.func, ast.Name) and it.func.id == "range"
                    and 1 <= len(it.args) <= 2 and not it.keywords):
                raise Unsupported("for iterator (only range(n) / range(a, b))", s)
            lab = self.new_label("for", s)
            if len(it.args) == 1:
                lo, hi = "EInt (0)%Z", self.expr(it.args[0])
            else:
                lo, hi = self.expr(it.args[0]), self.expr(it.args[1])
            self.note_assign(s.target.id, "sc")
            b = self.block(s.body)
            return [f"SFor {lab} {coq_str(s.target.id)} ({lo}) ({hi})\n ({self.seq(b)})"]
        if isinstance(s, ast.Break):
            return ["SBreak"]
        if isinstance(s, ast.Return):
            return self.ret(s)
        if isinstance(s, ast.Pass):
            return []
        raise Unsupported(f"statement {type(s).__name__}", s)

    def shape_tuple(self, node):
        """(r, c) literal shape; a starred row-shape name is dropped (collapsed trailing axes)."""
        if not isinstance(node, ast.Tuple):
            return None
        dims = []
        for e in node.elts:
            if isinstance(e, ast.Starred):
                if isinstance(e.value, ast.Name) and self.kinds.get(e.value.id) == "rowshape":
                    continue
                v = e.value
                if isinstance(v, ast.Subscript) and isinstance(v.value, ast.Attribute) and v.value.attr == "shape" \
                        and self.is_arr(v.value.value) and isinstance(v.slice, ast.Slice) \
                        and isinstance(v.slice.lower, ast.Constant) and v.slice.lower.value == 1 \
                        and v.slice.upper is None and v.slice.step is None:
                    continue
                raise Unsupported("starred shape component", node)
            dims.append(e)
        return dims

    def new_array(self, x, v, s):
        """x = np.zeros(...) | np.full(...) | np.ones(...) * np.nan; returns statements or None"""
        fill = None
        call = None
        if isinstance(v, ast.Call) and np_name(v.func) == "zeros":
            call, fill = v, "EInt (0)%Z"
            shape_args = v.args
        elif isinstance(v, ast.Call) and np_name(v.func) == "full" and len(v.args) == 2:
            call, fill = v, self.expr(v.args[1])
            shape_args = v.args[:1]
        elif isinstance(v, ast.BinOp) and isinstance(v.op, ast.Mult) and isinstance(v.left, ast.Call) \
                and np_name(v.left.func) == "ones" and is_np(v.right, "nan"):
            call, fill = v.left, "ENan"
            shape_args = v.left.args
        else:
            return None
        if len(shape_args) != 1:
            raise Unsupported("array constructor arguments", s)
        dt = self.dtype_of(call)
        elem = {"DInt": "int", "DFlt": "flt", "DBool": "bool"}[dt]
        dims = self.shape_tuple(shape_args[0])
        if dims is None:
            dims = [shape_args[0]]
        if len(dims) == 1:
            self.note_assign(x, ("arr", 1, elem))
            return [f"SNew1 {coq_str(x)} {dt} ({self.expr(dims[0])}) ({fill})"]
        if len(dims) == 2:
            self.note_assign(x, ("arr", 2, elem))
            return [f"SNew2 {coq_str(x)} {dt} ({self.expr(dims[0])}) ({self.expr(dims[1])}) ({fill})"]
        raise Unsupported("array of rank > 2", s)

    def assign(self, t, v, s):
        # tuple target from a kernel call
        if isinstance(t, ast.Tuple):
            if isinstance(v, ast.Call) and self.callee_name(v.func):
                return self.call_stmt(t.elts, v, s)
            raise Unsupported("tuple assignment", s)
        if isinstance(t, ast.Name):
            x = t.id
            # f = data_array.shape[1:]
            if isinstance(v, ast.Subscript) and isinstance(v.value, ast.Attribute) and v.value.attr == "shape" \
                    and isinstance(v.slice, ast.Slice) and isinstance(v.slice.lower, ast.Constant) \
                    and v.slice.lower.value == 1 and v.slice.upper is None and self.is_arr(v.value.value):
                self.kinds[x] = "rowshape"
                return []
            r = self.new_array(x, v, s)
            if r is not None:
                return r
            if isinstance(v, ast.Call) and self.callee_name(v.func):
                return self.call_stmt([t], v, s)
            if isinstance(v, ast.Call) and np_name(v.func) in ("argsort", "cumsum") and len(v.args) == 1 \
                    and not v.keywords:
                b = self.arr_name(v.args[0], "np." + np_name(v.func))
                if np_name(v.func) == "argsort":
                    self.note_assign(x, ("arr", 1, "int"))
                    return [f"SArgsort {coq_str(x)} {coq_str(b)}"]
                self.note_assign(x, ("arr", 1, self.kinds[b][2]))
                return [f"SCumsum {coq_str(x)} {coq_str(b)}"]
            if isinstance(v, ast.Call) and np_name(v.func) == "sum" and len(v.args) == 2 and not v.keywords \
                    and self.is_arr(v.args[0], 2) and isinstance(v.args[1], ast.Constant) and v.args[1].value == 0:
                self.note_assign(x, ("arr", 1, self.kinds[v.args[0].id][2]))
                return [f"SColSums {coq_str(x)} {coq_str(v.args[0].id)}"]
            if isinstance(v, ast.Subscript) and self.is_arr(v.value):
                b = v.value.id
                sl = v.slice
                if isinstance(sl, ast.Slice):
                    lo, hi = self.slice_bounds(b, sl)
                    self.note_assign(x, self.kinds[b])
                    return [f"SSlice {coq_str(x)} {coq_str(b)} ({lo}) ({hi})"]
                if self.is_arr(sl, 1):
                    ik = self.kinds[sl.id][2]
                    if self.kinds[b][1] != 1:
                        raise Unsupported("index array on a 2-D array", s)
                    kb = self.kinds[b]
                    if ik == "bool":
                        self.note_assign(x, kb)
                        return [f"SMask {self.new_site()} {coq_str(x)} {coq_str(b)} {coq_str(sl.id)}"]
                    if ik == "int":
                        self.note_assign(x, kb)
                        return [f"SGather {self.new_site()} {coq_str(x)} {coq_str(b)} {coq_str(sl.id)}"]
                    raise Unsupported(f"index array {sl.id} of unknown element type", s)
            if isinstance(v, ast.Compare) and len(v.ops) == 1 and self.is_arr(v.left, 1):
                op = self.CMPOPS.get(type(v.ops[0]))
                if op is None:
                    raise Unsupported("array comparison operator", s)
                e = self.expr(v.comparators[0])
                self.note_assign(x, ("arr", 1, "bool"))
                return [f"SCmpArr {coq_str(x)} {op} {coq_str(v.left.id)} ({e})"]
            if isinstance(v, ast.BinOp) and isinstance(v.op, ast.Div):
                # array / array (slices allowed, via temporaries) and array / scalar
                def as_arr(n):
                    if self.is_arr(n):
                        return [], n.id
                    if isinstance(n, ast.Subscript) and self.is_arr(n.value) and isinstance(n.slice, ast.Slice):
                        b = n.value.id
                        lo, hi = self.slice_bounds(b, n.slice)
                        tmp = self.new_tmp(self.kinds[b])
                        return [f"SSlice {coq_str(tmp)} {coq_str(b)} ({lo}) ({hi})"], tmp
                    return None
                la = as_arr(v.left)
                if la is not None:
                    ra = as_arr(v.right)
                    if ra is not None:
                        self.note_assign(x, ("arr", self.kinds[la[1]][1], "flt"))
                        return la[0] + ra[0] + [f"SArrDiv {self.new_site()} {coq_str(x)} {coq_str(la[1])} {coq_str(ra[1])}"]
                    e = self.expr(v.right)
                    self.note_assign(x, ("arr", self.kinds[la[1]][1], "flt"))
                    return la[0] + [f"SArrDivSc {coq_str(x)} {coq_str(la[1])} ({e})"]
            # plain scalar assignment
            e = self.expr(v)
            self.note_assign(x, "sc")
            return [f"SAssign {coq_str(x)} ({e})"]
        if isinstance(t, ast.Subscript):
            return self.store(t, v, s, None)
        raise Unsupported(f"assignment target {type(t).__name__}", s)

    def full_slice(self, n):
        return isinstance(n, ast.Slice) and n.lower is None and n.upper is None and n.step is None

    def store(self, t, v, s, augop):
        a = self.arr_name(t.value, "store")
        dims = self.kinds[a][1]
        sl = t.slice
        if isinstance(sl, ast.Slice):
            # a[0:-1] = a[1:]
            def lit(n, val):
                return (isinstance(n, ast.Constant) and n.value == val) or \
                       (val < 0 and self.neg_literal(n) and n.operand.value == -val)
            if augop is None and dims == 1 and sl.step is None and lit(sl.lower, 0) and lit(sl.upper, -1) \
                    and isinstance(v, ast.Subscript) and isinstance(v.value, ast.Name) and v.value.id == a \
                    and isinstance(v.slice, ast.Slice) and lit(v.slice.lower, 1) and v.slice.upper is None \
                    and v.slice.step is None:
                return [f"SShiftLeft {coq_str(a)}"]
            raise Unsupported("slice store", s)
        if isinstance(sl, ast.Tuple) and dims == 2 and len(sl.elts) == 2 and self.full_slice(sl.elts[0]) \
                and not isinstance(sl.elts[1], ast.Slice) and augop is not None:
            # a[:, j] op= h * e   |   a[:, j] op= e
            j = self.expr(sl.elts[1])
            if isinstance(v, ast.BinOp) and isinstance(v.op, ast.Mult) and self.is_arr(v.left, 1):
                h, e = f"(Some {coq_str(v.left.id)})", self.expr(v.right)
            else:
                h, e = "None", self.expr(v)
            return [f"SColUpd {self.new_site()} {coq_str(a)} ({j}) {augop} {h} ({e})"]
        if isinstance(sl, ast.Tuple):
            if dims != 2 or len(sl.elts) != 2 or any(isinstance(e, ast.Slice) for e in sl.elts):
                raise Unsupported("tuple subscript store", s)
            i, j = self.index(a, sl.elts[0]), self.expr(sl.elts[1])
            if augop:
                e = f"EBin {augop} (ERead2 {self.new_site()} {coq_str(a)} ({i}) ({j})) ({self.expr(v)})"
            else:
                e = self.expr(v)
            return [f"SStore2 {self.new_site()} {coq_str(a)} ({i}) ({j}) ({e})"]
        i = self.index(a, sl)
        if dims == 2:
            if augop or not isinstance(v, (ast.List, ast.Tuple)) or len(v.elts) != 2:
                raise Unsupported("row store on a 2-D array must be a literal pair", s)
            return [f"SStore2 {self.new_site()} {coq_str(a)} ({i}) (EInt {coq_z(c)}) ({self.expr(e)})"
                    for c, e in enumerate(v.elts)]
        if augop:
            e = f"EBin {augop} (ERead1 {self.new_site()} {coq_str(a)} ({i})) ({self.expr(v)})"
        else:
            e = self.expr(v)
        return [f"SStore1 {self.new_site()} {coq_str(a)} ({i}) ({e})"]

    def augassign(self, s):
        op = self.BINOPS.get(type(s.op))
        if op is None:
            raise Unsupported(f"augmented operator {type(s.op).__name__}", s)
        t = s.target
        if isinstance(t, ast.Name) and self.is_arr(t) and op == "Mul":
            return [f"SArrScale {coq_str(t.id)} ({self.expr(s.value)})"]
        if isinstance(t, ast.Name):
            if self.kinds.get(t.id) != "sc":
                raise Unsupported(f"augmented assignment to non-scalar {t.id}", s)
            return [f"SAssign {coq_str(t.id)} (EBin {op} (EVar {coq_str(t.id)}) ({self.expr(s.value)}))"]
        if isinstance(t, ast.Subscript):
            return self.store(t, s.value, s, op)
        raise Unsupported("augmented assignment target", s)

    def call_stmt(self, targets, call, s):
        name = self.callee_name(call.func)
        callee = self.results[name]
        if callee is None:
            raise Unsupported(f"call of {name} before its translation", s)
        if call.keywords:
            raise Unsupported("keywords in kernel call", s)
        if len(call.args) != len(callee.params):
            raise Unsupported(f"call of {name} with {len(call.args)} arguments for {len(callee.params)} parameters", s)
        args = []
        for a in call.args:
            if isinstance(a, ast.Name) and a.id in self.kinds and self.kinds[a.id] != "rowshape":
                args.append(f"AVar {coq_str(a.id)}")
            else:
                args.append(f"AExp ({self.expr(a)})")
        rk = callee.ret_kinds
        if rk is None or len(rk) != len(targets):
            raise Unsupported(f"call of {name}: {len(targets)} targets for its return arity", s)
        ts = []
        for t, k in zip(targets, rk):
            if isinstance(t, ast.Name):
                self.note_assign(t.id, k)
                ts.append(f"TVar {coq_str(t.id)}")
            elif isinstance(t, ast.Subscript) and self.is_arr(t.value, 2) and isinstance(t.slice, ast.Tuple) \
                    and len(t.slice.elts) == 2 and isinstance(t.slice.elts[0], ast.Slice) \
                    and t.slice.elts[0].lower is None and t.slice.elts[0].upper is None \
                    and t.slice.elts[0].step is None and isinstance(k, tuple) and k[1] == 1:
                ts.append(f"TCol {self.new_site()} {coq_str(t.value.id)} {coq_z(self.const_col(t.slice.elts[1]))}")
            else:
                raise Unsupported("call target", s)
        if name not in self.callees:
            self.callees.append(name)
        return [f"SCall {self.new_label('call', s)} [{'; '.join(ts)}] {coq_str(name)} [{'; '.join(args)}]"]

    def ret(self, s):
        v = s.value
        if v is None:
            raise Unsupported("bare return", s)
        elts = v.elts if isinstance(v, ast.Tuple) else [v]
        pre, rs, kinds = [], [], []
        for e in elts:
            if isinstance(e, ast.Name) and e.id in self.kinds and self.kinds[e.id] != "rowshape":
                rs.append(f"AVar {coq_str(e.id)}")
                kinds.append(self.kinds[e.id])
            elif isinstance(e, ast.Subscript) and self.is_arr(e.value) and isinstance(e.slice, ast.Slice):
                b = e.value.id
                lo, hi = self.slice_bounds(b, e.slice)
                tmp = self.new_tmp(self.kinds[b])
                pre.append(f"SSlice {coq_str(tmp)} {coq_str(b)} ({lo}) ({hi})")
                rs.append(f"AVar {coq_str(tmp)}")
                kinds.append(self.kinds[b])
            else:
                rs.append(f"AExp ({self.expr(e)})")
                kinds.append("sc")
        if self.ret_kinds is None:
            self.ret_kinds = kinds
        elif len(self.ret_kinds) != len(kinds) or any(
                isinstance(a, tuple) != isinstance(b, tuple) for a, b in zip(self.ret_kinds, kinds)):
            raise Unsupported("return statements of different shapes", s)
        return pre + [f"SReturn [{'; '.join(rs)}]"]

    # ---------- output ----------
    def coq(self):
        ps = "; ".join(coq_str(p) for p in self.params)
        ls = "; ".join(coq_str(p) for p in self.locals)
        return (f"Definition k_{self.name} : func :=\n"
                f"  mkFunc {coq_str(self.name)}\n  [{ps}]\n  [{ls}]\n  ({self.seq(self.body)}).\n")


def load_functions():
    """name -> (relative file, FunctionDef)"""
    out = {}
    cache = {}
    for rel, name in KERNELS:
        if rel not in cache:
            with open(f"{REPO}/{rel}") as fh:
                cache[rel] = ast.parse(fh.read())
        fns = [n for n in ast.walk(cache[rel]) if isinstance(n, ast.FunctionDef) and n.name == name]
        if len(fns) != 1:
            raise Unsupported(f"kernel {name} not found exactly once in {rel}")
        out[name] = (rel, fns[0])
    return out


def translate_all():
    fns = load_functions()
    order = [n for _, n in KERNELS]
    # callees first
    order.sort(key=lambda n: 0 if n == "jitrestrict_with_count" else 1)
    results = {n: None for n in order}
    done = {}
    for n in order:
        rel, fn = fns[n]
        try:
            k = Kernel(fn, None, {m: done.get(m) for m in results})
        except Unsupported as e:
            raise Unsupported(f"{n}: {e}") from None
        k.rel = rel
        k.hash = normalised_hash(fn)
        k.line = fn.lineno
        done[n] = k
    return [done[n] for _, n in KERNELS]


HEADER = """(* GENERATED by tools/py2jit.py from the pynapple sources under /repo -- do not edit.
   One Jit.Lang term per numba kernel; regenerate with: /venv/bin/python /verif/tools/gen.py *)
From Coq Require Import ZArith QArith String List.
From Verif Require Import Jit.Lang Jit.Interp.
Import ListNotations.
Local Open Scope string_scope.

"""


def render(kernels):
    out = [HEADER]
    for k in kernels:
        out.append(f"(* {k.name}: {k.rel}:{k.line}  sha256(normalised ast) = {k.hash}  sites = {k.site}\n   labels (statement@source line): {' '.join(k.labels)} *)\n")
        out.append(k.coq())
        out.append("\n")
    out.append("Definition all_kernels : list func :=\n  [" +
               ";\n   ".join(f"k_{k.name}" for k in kernels) + "].\n\n"
               "(* a public call of kernel [k]: calls between kernels are resolved in [all_kernels] *)\n"
               "Definition run (fuel : nat) (k : func) (args : list value) : outcome :=\n"
               "  Interp.run all_kernels fuel k args.\n")
    return "".join(out)


def main():
    try:
        ks = translate_all()
    except Unsupported as e:
        sys.stderr.write(f"py2jit: {e}\n")
        return 2
    sys.stdout.write(render(ks))
    return 0


if __name__ == "__main__":
    sys.exit(main())
