"""Translator for the syntactic tables of C09 / C10 (DESIGN.md tier S).
Reads /repo/pynapple/{core,process}/*.py with `ast` and writes /verif/coq/Gen/Sites.v (only if changed):
  unit_table    : per function that has a unit parameter, for each OTHER parameter how it meets the unit
                  (1 = reassigned from TsIndex.format_timestamps(.. p .., unit) before any other use,
                   2 = passed, together with the unit variable, to another callable,
                   0 = never meets the unit) and "<return>" = 3 when the function returns
                  TsIndex.return_timestamps(.., unit); plus the number of unit-variable uses that are
                  none of: conversion call, pass-through, validation test.
  config_table  : every use of a nap_config.suppress_* flag outside config.py with its kind
                  (1 = only in the test of an `if` whose body does nothing but warn, 2 = handed to the jax
                   conversion helper, 0 = anything else).
  guard_table   : shape of __setattr__/__setitem__ of the container classes.
  inplace_table : every in-place array update (augmented assignment, `out=`, slice store, .__setitem__)
                  outside the numba kernels with the provenance of its target (1 = fresh local,
                  2 = parameter or view of one, 3 = self.values item assignment, 4 = self._metadata (set_info): the two documented mutable parts);
  inplace_callers : for every function that updates a PARAMETER in place, the provenance of the argument at each call site.
Fail-closed: a construct it does not understand is reported as kind 0 / provenance 2."""
import ast
import os
import sys

REPO = os.environ.get("VERIF_REPO", "/repo")
OUT = os.path.join(os.path.dirname(os.path.dirname(os.path.abspath(__file__))), "coq", "Gen", "Sites.v")
FILES = sorted(
    os.path.join(d, f)
    for d in ("pynapple/core", "pynapple/process")
    for f in os.listdir(os.path.join(REPO, d))
    if f.endswith(".py")
)
UNIT_NAMES = ("time_units", "time_unit", "units")
SKIP_FUNCS = {"format_timestamps", "return_timestamps"}


def qual(stack, name):
    return ".".join(stack + [name])


def names_in(node):
    return {n.id for n in ast.walk(node) if isinstance(n, ast.Name)}


def is_call_to(node, attr):
    return isinstance(node, ast.Call) and (
        (isinstance(node.func, ast.Attribute) and node.func.attr == attr) or (isinstance(node.func, ast.Name) and node.func.id == attr)
    )


def analyse_units(path, tree, rows):
    def visit(node, stack):
        for ch in ast.iter_child_nodes(node):
            if isinstance(ch, ast.ClassDef):
                visit(ch, stack + [ch.name])
            elif isinstance(ch, (ast.FunctionDef, ast.AsyncFunctionDef)):
                handle(ch, stack)
                visit(ch, stack + [ch.name])

    def handle(fn, stack):
        if fn.name in SKIP_FUNCS:
            return
        params = [a.arg for a in fn.args.args + fn.args.kwonlyargs]
        unit = [p for p in params if p in UNIT_NAMES]
        if not unit:
            return
        u = unit[0]
        others = [p for p in params if p not in ("self", "cls", u)]
        status = {p: 0 for p in others}
        conv_line = {}
        other_unit_uses = 0
        returns_conv = 0
        parents = {}
        for n in ast.walk(fn):
            for c in ast.iter_child_nodes(n):
                parents[c] = n
        for n in ast.walk(fn):
            if isinstance(n, ast.Name) and n.id == u and isinstance(n.ctx, ast.Load):
                par = parents.get(n)
                # find the enclosing call where u is an argument
                call = par if isinstance(par, ast.Call) else (parents.get(par) if isinstance(par, ast.keyword) and isinstance(parents.get(par), ast.Call) else None)
                if call is not None and (is_call_to(call, "format_timestamps") or is_call_to(call, "TsIndex")):
                    # which parameters occur in the first argument; is the result assigned back to the same name?
                    src = names_in(call.args[0]) if call.args else set()
                    hit = False
                    for p in others:
                        if p in src:
                            status[p] = 1
                            hit = True
                    if not hit:
                        # a local derived from a parameter (e.g. t = t.astype(...)) : accept when the local's name is a parameter name
                        other_unit_uses += 1
                elif call is not None and is_call_to(call, "return_timestamps"):
                    returns_conv = 3
                elif call is not None:
                    # pass-through: every parameter passed in the same call meets the unit there
                    passed = set()
                    for a in call.args:
                        passed |= names_in(a)
                    for k in call.keywords:
                        passed |= names_in(k.value)
                    for p in others:
                        if p in passed and status[p] == 0:
                            status[p] = 2
                    if is_call_to(call, "times") or is_call_to(call, "in_units") or is_call_to(call, "as_units"):
                        returns_conv = 3
                else:
                    # validation tests: `u not in [...]`, isinstance(u, str)
                    ok = False
                    q = par
                    for _ in range(3):
                        if isinstance(q, ast.Compare) or (isinstance(q, ast.Call) and isinstance(q.func, ast.Name) and q.func.id == "isinstance"):
                            ok = True
                            break
                        q = parents.get(q)
                    if not ok:
                        other_unit_uses += 1
        entry = [(p, status[p]) for p in others if status[p] != 0]
        if returns_conv:
            entry.append(("<return>", 3))
        rows.append(("%s:%s" % (path, qual(stack, fn.name)), entry, other_unit_uses))

    visit(tree, [])


def analyse_config(path, tree, rows):
    if path.endswith("config.py"):
        return
    parents = {}
    for n in ast.walk(tree):
        for c in ast.iter_child_nodes(n):
            parents[c] = n

    def only_warns(body):
        for st in body:
            if isinstance(st, ast.Assign):
                # building the message
                continue
            if isinstance(st, ast.Expr) and isinstance(st.value, ast.Call):
                f = st.value.func
                nm = f.attr if isinstance(f, ast.Attribute) else getattr(f, "id", "")
                if nm in ("warn",):
                    continue
            return False
        return True

    k = 0
    for n in ast.walk(tree):
        if isinstance(n, ast.Attribute) and n.attr.startswith("suppress_"):
            kind = 0
            q = n
            while q is not None and not isinstance(q, ast.stmt):
                par = parents.get(q)
                if isinstance(par, ast.If) and q is par.test:
                    kind = 1 if only_warns(par.body) and not par.orelse else 0
                    break
                if isinstance(par, ast.Call) and q in par.args and isinstance(par.func, ast.Name) and par.func.id == "convert_to_jax_array":
                    kind = 2
                    break
                q = par
            rows.append(("%s:%s#%d" % (path, n.attr, k), kind))
            k += 1


def analyse_guards(path, tree, rows):
    for cls in [n for n in ast.walk(tree) if isinstance(n, ast.ClassDef)]:
        for fn in [n for n in cls.body if isinstance(n, ast.FunctionDef) and n.name in ("__setattr__", "__setitem__")]:
            body = [s for s in fn.body if not (isinstance(s, ast.Expr) and isinstance(getattr(s, "value", None), ast.Constant))]
            kind = 0
            src = ast.dump(ast.Module(body=body, type_ignores=[]))
            has_raise = any(isinstance(n, ast.Raise) for st in body for n in ast.walk(st))
            tests_init = "_initialized" in src
            writes_values = "values" in src and "__setitem__" in src
            delegates = "_MetadataMixin" in src or "super" in src or "object" in src
            if len(body) == 1 and isinstance(body[0], ast.Raise):
                kind = 1  # raises always
            elif has_raise and tests_init and not writes_values:
                first = body[0]
                if isinstance(first, ast.If) and "_initialized" in ast.dump(first.test):
                    inner = first.body
                    kind = 2 if (len(inner) == 1 and isinstance(inner[0], ast.Raise)) else 3  # 2 raise when initialised, 3 raise for reserved names else metadata
            elif writes_values:
                kind = 4  # item assignment on the data values (documented mutable part), metadata for str keys
            elif has_raise and delegates:
                kind = 5  # raises for reserved keys, else metadata
            elif delegates:
                kind = 6
            rows.append(("%s:%s.%s" % (path, cls.name, fn.name), kind))


FRESH_CALLS = {"zeros", "ones", "full", "empty", "copy", "array", "asarray", "arange", "linspace", "round", "around", "sort", "flatten", "sum", "concatenate",
               "hstack", "vstack", "stack", "zeros_like", "ones_like", "full_like", "empty_like", "astype", "reshape", "ravel", "unique", "diff", "where",
               "jitremove_nan", "jitthreshold", "sosfiltfilt", "convolve", "DataFrame", "get_window", "sinc", "exp", "log", "abs", "cumsum", "histogram", "digitize", "meshgrid",
               "dict", "list", "tuple", "set", "float", "int", "len", "Series", "to_dict", "drop", "reset_index", "max", "min", "mean", "std", "isnan", "any", "all", "nanmax", "nanmin"}


def analyse_inplace(path, tree, rows):
    if path.endswith("_jitted_functions.py"):
        return
    for fn in [n for n in ast.walk(tree) if isinstance(n, ast.FunctionDef)]:
        jitted = any("jit" in ast.dump(d) for d in fn.decorator_list)
        if jitted:
            continue
        params = {a.arg for a in fn.args.args + fn.args.kwonlyargs} - {"self", "cls"}
        fresh = {}

        def prov(name, line):
            """1 fresh, 2 param"""
            best = None
            for (nm, ln), v in fresh.items():
                if nm == name and ln < line and (best is None or ln > best[0]):
                    best = (ln, v)
            if best is not None:
                return best[1]
            return 2 if name in params else 1

        # record assignments  name = <expr>  as fresh (call/binop/compare/subscript-of-fresh) or alias of a param
        for st in ast.walk(fn):
            if isinstance(st, ast.Assign):
                for t in st.targets:
                    tn = [t] if isinstance(t, ast.Name) else ([e for e in t.elts if isinstance(e, ast.Name)] if isinstance(t, ast.Tuple) else [])
                    for tname in tn:
                        v = st.value
                        kind = 1
                        if isinstance(v, ast.Name) and v.id in params:
                            kind = 2
                        elif isinstance(v, ast.Subscript) and isinstance(v.value, ast.Name) and v.value.id in params and isinstance(v.slice, ast.Slice):
                            kind = 2  # basic slice of a parameter is a view
                        elif isinstance(v, ast.Attribute) and isinstance(v.value, ast.Name) and v.value.id in params:
                            kind = 2  # attribute of a parameter (e.g. x.values)
                        fresh[(tname.id, st.lineno)] = kind
        for st in ast.walk(fn):
            tgt = None
            what = None
            if isinstance(st, ast.AugAssign):
                tgt, what = st.target, "aug"
            elif isinstance(st, ast.Assign) and any(isinstance(t, ast.Subscript) for t in st.targets):
                tgt, what = [t for t in st.targets if isinstance(t, ast.Subscript)][0], "store"
            elif isinstance(st, ast.Call) and any(k.arg == "out" for k in st.keywords):
                tgt, what = [k.value for k in st.keywords if k.arg == "out"][0], "out="
            elif isinstance(st, ast.Call) and isinstance(st.func, ast.Attribute) and st.func.attr == "__setitem__" and not (isinstance(st.func.value, ast.Name) and st.func.value.id.startswith("_Meta")):
                tgt, what = st.func.value, "setitem"
            if tgt is None:
                continue
            base = tgt
            while isinstance(base, (ast.Subscript, ast.Attribute)):
                base = base.value
            if isinstance(tgt, ast.Name) and isinstance(st, ast.AugAssign) and not isinstance(st.value, ast.AST):
                continue
            if not isinstance(base, ast.Name):
                continue
            # scalar counters (i += 1) are not array updates: skip Names never subscripted and assigned from numbers
            if isinstance(tgt, ast.Name) and what == "aug":
                is_counter = all(not (isinstance(n, ast.Subscript) and isinstance(n.value, ast.Name) and n.value.id == tgt.id) for n in ast.walk(fn)) and tgt.id not in params
                if is_counter:
                    continue
            if base.id == "self":
                dumped = ast.dump(tgt)
                p = 3 if "values" in dumped or "__dict__" in dumped else (4 if "_metadata" in dumped else 2)
                # stores to self.<attr> inside __init__ / before _initialized are construction, not mutation of an argument
                if fn.name in ("__init__", "__new__", "__setattr__", "__setstate__") or "__dict__" in dumped:
                    continue
            else:
                p = prov(base.id, st.lineno)
            rows.append(("%s:%s:%s:%s" % (path, fn.name, what, base.id), p))


def analyse_callers(trees, targets, rows):
    """targets: set of function names that write to a parameter in place"""
    for path, tree in trees:
        for fn in [n for n in ast.walk(tree) if isinstance(n, ast.FunctionDef)]:
            params = {a.arg for a in fn.args.args + fn.args.kwonlyargs} - {"self", "cls"}
            k = 0
            for call in [n for n in ast.walk(fn) if isinstance(n, ast.Call)]:
                nm = call.func.attr if isinstance(call.func, ast.Attribute) else getattr(call.func, "id", None)
                if nm in targets and call.args:
                    a = call.args[0]
                    base = a
                    while isinstance(base, (ast.Subscript, ast.Attribute)):
                        base = base.value
                    if isinstance(a, ast.Call):
                        prov = 1  # result of a call (copy / reduction): fresh
                    elif isinstance(base, ast.Name) and base.id not in params:
                        prov = 1  # a local of the caller
                    else:
                        prov = 2
                    rows.append(("%s:%s->%s#%d" % (path, fn.name, nm, k), prov))
                    k += 1


def coq_str(s):
    return '"' + s.replace('"', "'") + '"'


def main():
    unit_rows, cfg_rows, guard_rows, inplace_rows, caller_rows, trees = [], [], [], [], [], []
    for rel in FILES:
        src = open(os.path.join(REPO, rel)).read()
        tree = ast.parse(src)
        trees.append((rel, tree))
        analyse_units(rel, tree, unit_rows)
        analyse_config(rel, tree, cfg_rows)
        analyse_guards(rel, tree, guard_rows)
        analyse_inplace(rel, tree, inplace_rows)
    # merge duplicate inplace rows (same site key) keeping the worst provenance and a count
    merged = {}
    for k, p in inplace_rows:
        merged[k] = max(merged.get(k, 0), p)
    targets = {k.split(":")[1] for k, p in merged.items() if p == 2}
    analyse_callers(trees, targets, caller_rows)
    out = []
    out.append("(* GENERATED by tools/gen_sites.py from /repo's working tree. Do not edit. *)")
    out.append("From Coq Require Import String List.\nImport ListNotations.\nOpen Scope string_scope.\n")
    out.append("Definition unit_table : list (string * (list (string * nat) * nat)) := [")
    out.append(";\n".join("  (%s, ([%s], %d))" % (coq_str(f), "; ".join("(%s, %d)" % (coq_str(p), s) for p, s in e), o) for f, e, o in sorted(unit_rows)))
    out.append("].\n")
    out.append("Definition config_table : list (string * nat) := [")
    out.append(";\n".join("  (%s, %d)" % (coq_str(k), v) for k, v in sorted(cfg_rows)))
    out.append("].\n")
    out.append("Definition guard_table : list (string * nat) := [")
    out.append(";\n".join("  (%s, %d)" % (coq_str(k), v) for k, v in sorted(guard_rows)))
    out.append("].\n")
    out.append("Definition inplace_table : list (string * nat) := [")
    out.append(";\n".join("  (%s, %d)" % (coq_str(k), v) for k, v in sorted(merged.items())))
    out.append("].\n")
    out.append("Definition inplace_callers : list (string * nat) := [")
    out.append(";\n".join("  (%s, %d)" % (coq_str(k), v) for k, v in sorted(caller_rows)))
    out.append("].\n")
    text = "\n".join(out)
    os.makedirs(os.path.dirname(OUT), exist_ok=True)
    old = open(OUT).read() if os.path.exists(OUT) else None
    if old != text:
        with open(OUT, "w") as f:
            f.write(text)
    print("sites: %d unit functions, %d config uses, %d guards, %d in-place sites%s" % (len(unit_rows), len(cfg_rows), len(guard_rows), len(merged), "" if old == text else " (rewritten)"))


if __name__ == "__main__":
    try:
        main()
    except Exception as ex:  # fail closed
        print("gen_sites failed:", repr(ex))
        sys.exit(1)
