#!/venv/bin/python
"""gen_c11: read the npz key tables of pynapple's save / load code out of the SOURCE (Python `ast`, no import of
pynapple) and write them as Gallina lists to coq/Gen/SitesC11.v  (tier S of DESIGN.md, property C11).

What is extracted (all of it syntactic):
  * writers, per class: the keyword names of the single `np.savez(...)` call of `<Class>.save` with the (unparsed)
    value expression of each; for `np.savez(filename, **d)` the entries of `d = {...}` and every `d["k"] = expr` store,
    with the (unparsed) enclosing `if` test when the store is conditional;
  * readers: every `file["k"]` read and every `"k" in file` / `"k" in file.keys()` test of `_Base._from_npz_reader`,
    `IntervalSet._from_npz_reader`, `TsGroup._from_npz_reader` and `NPZFile.__init__` (type detection), each with the
    SLOT it feeds (keyword / positional argument of the enclosing call, or assigned variable, or `if`) and whether the
    read is lexically guarded by a membership test of the same key (or a try/except KeyError);
  * the key list excluded from `**kwargs` in the base reader, `not_info_keys` of the TsGroup reader, EXPECTED_ENTRIES,
    the constructor parameter lists of the six classes, and which reader each class resolves to.

Fail-closed: exit status 2 (nothing written) when the source does not have the expected shape.
The file is rewritten only when its content changes.   --check : write nothing; exit 0 if up to date, 1 if stale.
--json : print the tables as JSON (used by the harness to cross-check real .npz files against the tables).
"""
import ast
import hashlib
import json
import os
import sys

sys.dont_write_bytecode = True
REPO = os.environ.get("VERIF_REPO", "/repo")
ROOT = os.path.dirname(os.path.dirname(os.path.abspath(__file__)))
OUT = os.path.join(ROOT, "coq", "Gen", "SitesC11.v")

FILES = {
    "time_series": "pynapple/core/time_series.py",
    "ts_group": "pynapple/core/ts_group.py",
    "interval_set": "pynapple/core/interval_set.py",
    "base_class": "pynapple/core/base_class.py",
    "interface_npz": "pynapple/io/interface_npz.py",
}
CLASSES = [("Ts", "time_series"), ("Tsd", "time_series"), ("TsdFrame", "time_series"), ("TsdTensor", "time_series"),
           ("TsGroup", "ts_group"), ("IntervalSet", "interval_set")]


class Bad(Exception):
    pass


def parse(rel):
    with open(os.path.join(REPO, rel)) as fh:
        return ast.parse(fh.read())


def set_parents(tree):
    for n in ast.walk(tree):
        for c in ast.iter_child_nodes(n):
            c._parent = n


def find_class(tree, name):
    cs = [n for n in tree.body if isinstance(n, ast.ClassDef) and n.name == name]
    if len(cs) != 1:
        raise Bad(f"class {name} not found exactly once")
    return cs[0]


def find_method(cls, name, required=True):
    fs = [n for n in cls.body if isinstance(n, ast.FunctionDef) and n.name == name]
    if len(fs) > 1 or (required and not fs):
        raise Bad(f"method {cls.name}.{name} not found exactly once")
    return fs[0] if fs else None


def nhash(fn):
    body = list(fn.body)
    if body and isinstance(body[0], ast.Expr) and isinstance(body[0].value, ast.Constant) and isinstance(body[0].value.value, str):
        body = body[1:]
    clone = ast.FunctionDef(name=fn.name, args=fn.args, body=body, decorator_list=[], returns=None, type_comment=None)
    return hashlib.sha256(ast.dump(clone, include_attributes=False).encode()).hexdigest()[:16]


def enclosing_conditions(node, stop):
    """unparsed tests of the `if` statements that enclose `node` (inside function `stop`); else-branches are refused"""
    conds = []
    cur = node
    while cur is not stop:
        par = cur._parent
        if isinstance(par, ast.If):
            if cur in par.body:
                conds.append(ast.unparse(par.test))
            elif cur in par.orelse:
                raise Bad(f"store in an else-branch (line {node.lineno})")
        elif isinstance(par, (ast.For, ast.While, ast.Try, ast.With)):
            raise Bad(f"store to the saved dictionary inside a loop/try/with (line {node.lineno})")
        cur = par
    return " and ".join(reversed(conds))


# ------------------------------------------------------------------------------------------------ writers
def writer_table(cls):
    fn = find_method(cls, "save")
    set_parents(fn)
    calls = [n for n in ast.walk(fn) if isinstance(n, ast.Call) and ast.unparse(n.func) == "np.savez"]
    if len(calls) != 1:
        raise Bad(f"{cls.name}.save: expected exactly one np.savez call, found {len(calls)}")
    call = calls[0]
    if len(call.args) != 1:
        raise Bad(f"{cls.name}.save: np.savez must have exactly one positional argument (the file name)")
    if enclosing_conditions(call, fn) != "":
        raise Bad(f"{cls.name}.save: np.savez call is conditional")
    entries = []
    star = [k for k in call.keywords if k.arg is None]
    named = [k for k in call.keywords if k.arg is not None]
    if star and named:
        raise Bad(f"{cls.name}.save: mixed keyword and ** arguments")
    for k in named:
        entries.append((k.arg, ast.unparse(k.value), ""))
    if star:
        if len(star) != 1 or not isinstance(star[0].value, ast.Name):
            raise Bad(f"{cls.name}.save: unsupported ** argument")
        d = star[0].value.id
        seen_init = False
        for n in ast.walk(fn):
            if isinstance(n, ast.Assign) and len(n.targets) == 1:
                t = n.targets[0]
                if isinstance(t, ast.Name) and t.id == d:
                    if seen_init or not isinstance(n.value, ast.Dict):
                        raise Bad(f"{cls.name}.save: `{d}` must be initialised once with a dict literal")
                    seen_init = True
                    if enclosing_conditions(n, fn) != "":
                        raise Bad(f"{cls.name}.save: conditional initialisation of `{d}`")
                    for kk, vv in zip(n.value.keys, n.value.values):
                        if not (isinstance(kk, ast.Constant) and isinstance(kk.value, str)):
                            raise Bad(f"{cls.name}.save: non-literal key in `{d}`")
                        entries.append((kk.value, ast.unparse(vv), "", n.lineno))
                elif isinstance(t, ast.Subscript) and isinstance(t.value, ast.Name) and t.value.id == d:
                    if not (isinstance(t.slice, ast.Constant) and isinstance(t.slice.value, str)):
                        raise Bad(f"{cls.name}.save: non-literal key stored in `{d}` (line {n.lineno})")
                    entries.append((t.slice.value, ast.unparse(n.value), enclosing_conditions(n, fn), n.lineno))
            elif isinstance(n, (ast.AugAssign, ast.Delete)) and d in ast.unparse(n):
                raise Bad(f"{cls.name}.save: unsupported update of `{d}`")
            elif isinstance(n, ast.Call) and isinstance(n.func, ast.Attribute) and isinstance(n.func.value, ast.Name) \
                    and n.func.value.id == d:
                raise Bad(f"{cls.name}.save: method call on `{d}` ({n.func.attr})")
        if not seen_init:
            raise Bad(f"{cls.name}.save: `{d}` never initialised")
        entries.sort(key=lambda e: e[3])
        entries = [e[:3] for e in entries]
    keys = [e[0] for e in entries]
    if len(set(keys)) != len(keys):
        raise Bad(f"{cls.name}.save: a key is written twice: {keys}")
    return entries, nhash(fn)


# ------------------------------------------------------------------------------------------------ readers
def reader_table(fn, is_file):
    """returns (entries, excluded_keys or None).  entry = (slot, kind, key, guarded)"""
    set_parents(fn)
    key_aliases = set()       # names bound to file.keys() / set(file.keys())
    test_aliases = {}         # name -> key, for `name = "k" in file.keys()`

    def is_keys(n):
        if is_file(n):
            return True
        if isinstance(n, ast.Call) and isinstance(n.func, ast.Attribute) and n.func.attr == "keys" and is_file(n.func.value) and not n.args:
            return True
        if isinstance(n, ast.Call) and isinstance(n.func, ast.Name) and n.func.id == "set" and len(n.args) == 1 and is_keys(n.args[0]):
            return True
        if isinstance(n, ast.Name) and n.id in key_aliases:
            return True
        return False

    def membership(n):
        if isinstance(n, ast.Compare) and len(n.ops) == 1 and isinstance(n.ops[0], ast.In) \
                and isinstance(n.left, ast.Constant) and isinstance(n.left.value, str) and is_keys(n.comparators[0]):
            return n.left.value
        return None

    for n in ast.walk(fn):
        if isinstance(n, ast.Assign) and len(n.targets) == 1 and isinstance(n.targets[0], ast.Name):
            if isinstance(n.value, ast.Call) and is_keys(n.value) and not is_file(n.value):
                key_aliases.add(n.targets[0].id)
    for n in ast.walk(fn):
        if isinstance(n, ast.Assign) and len(n.targets) == 1 and isinstance(n.targets[0], ast.Name):
            k = membership(n.value)
            if k is not None:
                test_aliases[n.targets[0].id] = k

    def guard_keys(test):
        ks = set()
        def walk(t, neg):
            if isinstance(t, ast.UnaryOp) and isinstance(t.op, ast.Not):
                walk(t.operand, not neg)
            elif isinstance(t, ast.BoolOp) and isinstance(t.op, ast.And):
                for v in t.values:
                    walk(v, neg)
            elif not neg:
                k = membership(t)
                if k is not None:
                    ks.add(k)
                elif isinstance(t, ast.Name) and t.id in test_aliases:
                    ks.add(test_aliases[t.id])
        walk(test, False)
        return ks

    def guarded(node, key):
        cur = node
        while cur is not fn:
            par = cur._parent
            if isinstance(par, ast.If) and cur in par.body and key in guard_keys(par.test):
                return True
            if isinstance(par, ast.IfExp) and cur is par.body and key in guard_keys(par.test):
                return True
            if isinstance(par, ast.Try) and cur in par.body:
                for h in par.handlers:
                    names = []
                    if h.type is None:
                        names = ["KeyError"]
                    elif isinstance(h.type, ast.Tuple):
                        names = [ast.unparse(e) for e in h.type.elts]
                    else:
                        names = [ast.unparse(h.type)]
                    if "KeyError" in names or "Exception" in names:
                        return True
            cur = par
        return False

    def slot_of(node, key):
        cur = node
        par = cur._parent
        # climb through  x.attr , x[...] , x.attr(...)
        while (isinstance(par, ast.Attribute) and par.value is cur) or (isinstance(par, ast.Subscript) and par.value is cur) \
                or (isinstance(par, ast.Call) and par.func is cur):
            cur, par = par, par._parent
        if isinstance(par, ast.keyword):
            call = par._parent
            return f"{ast.unparse(call.func)}.{par.arg}"
        if isinstance(par, ast.Call) and cur in par.args:
            return f"{ast.unparse(par.func)}.{par.args.index(cur)}"
        if isinstance(par, ast.Assign) and par.value is cur and len(par.targets) == 1 and isinstance(par.targets[0], ast.Name):
            return par.targets[0].id
        if isinstance(par, (ast.If, ast.IfExp)) and par.test is cur:
            # an `if` test: named after the first read of the same key that it guards, e.g. if(keys)
            body = par.body if isinstance(par, ast.If) else [par.body]
            inner = []
            for st in body:
                for m in ast.walk(st):
                    if isinstance(m, ast.Subscript) and is_file(m.value) and isinstance(m.slice, ast.Constant) and m.slice.value == key:
                        inner.append(m)
            if not inner:
                return "if"
            inner.sort(key=lambda m: (m.lineno, m.col_offset))
            return "if(" + slot_of(inner[0], key) + ")"
        if isinstance(par, ast.IfExp) and par.body is cur:
            gp = par._parent
            if isinstance(gp, ast.Assign) and len(gp.targets) == 1 and isinstance(gp.targets[0], ast.Name):
                return gp.targets[0].id
        raise Bad(f"{fn.name}: cannot name the slot fed by `{ast.unparse(node)}` (line {node.lineno})")

    entries, excluded = [], None
    nodes = sorted([n for n in ast.walk(fn) if hasattr(n, "lineno")], key=lambda n: (n.lineno, n.col_offset))
    for n in nodes:
        if isinstance(n, ast.Subscript) and is_file(n.value):
            if not isinstance(n.ctx, ast.Load):
                raise Bad(f"{fn.name}: store into the file (line {n.lineno})")
            if isinstance(n.slice, ast.Constant) and isinstance(n.slice.value, str):
                entries.append((slot_of(n, n.slice.value), "get", n.slice.value, guarded(n, n.slice.value)))
            else:
                # only the kwargs comprehension  {key: file[key] for key in file.keys() if key not in [...]}
                par = n._parent
                # or the legacy loop of the TsGroup reader:  for k in set(file.keys()) - not_info_keys: ... file[k]
                loop = par
                while loop is not fn and not isinstance(loop, ast.For):
                    loop = loop._parent
                if isinstance(loop, ast.For) and isinstance(n.slice, ast.Name) and isinstance(loop.target, ast.Name) \
                        and loop.target.id == n.slice.id and isinstance(loop.iter, ast.BinOp) and isinstance(loop.iter.op, ast.Sub) \
                        and is_keys(loop.iter.left) and isinstance(loop.iter.right, ast.Name) and loop.iter.right.id == "not_info_keys":
                    continue
                ok = isinstance(par, ast.DictComp) and par.value is n and isinstance(n.slice, ast.Name) \
                    and isinstance(par.key, ast.Name) and par.key.id == n.slice.id and len(par.generators) == 1
                if ok:
                    g = par.generators[0]
                    ok = isinstance(g.target, ast.Name) and g.target.id == n.slice.id and is_keys(g.iter) and len(g.ifs) == 1
                    if ok:
                        c = g.ifs[0]
                        ok = isinstance(c, ast.Compare) and len(c.ops) == 1 and isinstance(c.ops[0], ast.NotIn) \
                            and isinstance(c.left, ast.Name) and c.left.id == n.slice.id \
                            and isinstance(c.comparators[0], (ast.List, ast.Tuple, ast.Set)) \
                            and all(isinstance(e, ast.Constant) and isinstance(e.value, str) for e in c.comparators[0].elts)
                if not ok or excluded is not None:
                    raise Bad(f"{fn.name}: non-literal key read from the file (line {n.lineno})")
                excluded = [e.value for e in g.ifs[0].comparators[0].elts]
                asg = par._parent
                if not (isinstance(asg, ast.Assign) and isinstance(asg.targets[0], ast.Name)):
                    raise Bad(f"{fn.name}: kwargs comprehension is not assigned to a name")
                uses = [m for m in ast.walk(fn) if isinstance(m, ast.keyword) and m.arg is None
                        and isinstance(m.value, ast.Name) and m.value.id == asg.targets[0].id]
                if len(uses) != 1 or ast.unparse(uses[0]._parent.func) != "cls":
                    raise Bad(f"{fn.name}: kwargs are not passed exactly once as cls(**kwargs)")
        elif isinstance(n, ast.Compare):
            k = membership(n)
            if k is not None:
                entries.append((slot_of(n, k), "in", k, False))
        elif isinstance(n, ast.Call) and isinstance(n.func, ast.Attribute) and is_file(n.func.value) and n.func.attr not in ("keys",):
            raise Bad(f"{fn.name}: unsupported method on the file: {n.func.attr} (line {n.lineno})")
    return entries, excluded


def file_param(n):
    return isinstance(n, ast.Name) and n.id == "file"


def self_file(n):
    return isinstance(n, ast.Attribute) and n.attr == "file" and isinstance(n.value, ast.Name) and n.value.id == "self"


def str_set(node, what):
    if not isinstance(node, (ast.Set, ast.List, ast.Tuple)) or not all(isinstance(e, ast.Constant) and isinstance(e.value, str) for e in node.elts):
        raise Bad(f"{what}: expected a literal set of strings")
    return [e.value for e in node.elts]


# ------------------------------------------------------------------------------------------------ main extraction
def extract():
    trees = {k: parse(v) for k, v in FILES.items()}
    classes = {}
    for t in trees.values():
        for n in t.body:
            if isinstance(n, ast.ClassDef):
                classes[n.name] = n
    T = {"writers": {}, "hashes": {}, "ctor": {}, "reader_of": {}}
    for cname, mod in CLASSES:
        cls = find_class(trees[mod], cname)
        T["writers"][cname], T["hashes"][cname + ".save"] = writer_table(cls)
        init = find_method(cls, "__init__")
        a = init.args
        if a.posonlyargs or a.kwonlyargs or a.vararg:
            raise Bad(f"{cname}.__init__: unsupported parameter kinds")
        names = [x.arg for x in a.args][1:]
        nreq = len(names) - len(a.defaults)
        T["ctor"][cname] = {"params": [(p, i < nreq) for i, p in enumerate(names)], "kwargs": a.kwarg is not None}
        # which _from_npz_reader does the class resolve to (first definition along the base-class names, depth first)
        def resolve(c, seen=()):
            if c not in classes or c in seen:
                return None
            if find_method(classes[c], "_from_npz_reader", required=False) is not None:
                return c
            for b in classes[c].bases:
                r = resolve(ast.unparse(b), seen + (c,))
                if r is not None:
                    return r
            return None
        r = resolve(cname)
        if r is None:
            raise Bad(f"{cname}: no _from_npz_reader found along its bases")
        T["reader_of"][cname] = r
    # the sort that TsGroup.save applies to the concatenated timestamps (recorded: Model/Npz.v takes it as a parameter)
    gsave = find_method(find_class(trees["ts_group"], "TsGroup"), "save")
    srt = [n for n in ast.walk(gsave) if isinstance(n, ast.Call) and ast.unparse(n.func) in ("np.argsort", "np.lexsort", "np.sort")]
    if len(srt) != 1:
        raise Bad(f"TsGroup.save: expected exactly one np.argsort call, found {len(srt)}")
    T["group_sort_call"] = ast.unparse(srt[0])
    readers = sorted(set(T["reader_of"].values()))
    if readers != ["IntervalSet", "TsGroup", "_Base"]:
        raise Bad(f"unexpected set of reader definitions: {readers}")
    T["readers"] = {}
    for r in readers:
        fn = find_method(classes[r], "_from_npz_reader")
        if [x.arg for x in fn.args.args] != ["cls", "file"]:
            raise Bad(f"{r}._from_npz_reader: expected parameters (cls, file)")
        ent, exc = reader_table(fn, file_param)
        T["readers"][r] = ent
        T["hashes"][r + "._from_npz_reader"] = nhash(fn)
        if r == "_Base":
            if exc is None:
                raise Bad("_Base._from_npz_reader: kwargs comprehension not found")
            T["base_excluded"] = exc
        elif exc is not None:
            raise Bad(f"{r}._from_npz_reader: unexpected kwargs comprehension")
        if r == "TsGroup":
            ni = [n for n in ast.walk(fn) if isinstance(n, ast.Assign) and isinstance(n.targets[0], ast.Name) and n.targets[0].id == "not_info_keys"]
            if len(ni) != 1:
                raise Bad("TsGroup._from_npz_reader: not_info_keys not found exactly once")
            T["not_info_keys"] = str_set(ni[0].value, "not_info_keys")
    npz = find_class(trees["interface_npz"], "NPZFile")
    init = find_method(npz, "__init__")
    ent, exc = reader_table(init, self_file)
    if exc is not None:
        raise Bad("NPZFile.__init__: unexpected kwargs comprehension")
    T["readers"]["detect"] = ent
    T["hashes"]["NPZFile.__init__"] = nhash(init)
    T["hashes"]["NPZFile.load"] = nhash(find_method(npz, "load"))
    ff = [n for n in trees["interface_npz"].body if isinstance(n, ast.FunctionDef) and n.name == "_find_class_from_variables"]
    if len(ff) != 1:
        raise Bad("_find_class_from_variables not found")
    T["hashes"]["_find_class_from_variables"] = nhash(ff[0])
    ee = [n for n in trees["interface_npz"].body if isinstance(n, ast.Assign) and isinstance(n.targets[0], ast.Name) and n.targets[0].id == "EXPECTED_ENTRIES"]
    if len(ee) != 1 or not isinstance(ee[0].value, ast.Dict):
        raise Bad("EXPECTED_ENTRIES not found as a dict literal")
    T["expected"] = []
    for k, v in zip(ee[0].value.keys, ee[0].value.values):
        if not (isinstance(k, ast.Constant) and isinstance(k.value, str)):
            raise Bad("EXPECTED_ENTRIES: non-literal class name")
        T["expected"].append((k.value, sorted(str_set(v, "EXPECTED_ENTRIES"))))
    return T


# ------------------------------------------------------------------------------------------------ rendering
def q(s):
    if any(ord(c) < 32 or ord(c) > 126 for c in s):
        raise Bad(f"non-printable character in extracted string {s!r}")
    return '"' + s.replace('"', '""') + '"'


def lst(items, indent="  "):
    if not items:
        return "[]"
    return "[\n" + ";\n".join(indent + "  " + i for i in items) + "\n" + indent + "]"


def b(x):
    return "true" if x else "false"


def render(T):
    o = []
    o.append("(* GENERATED by tools/gen_c11.py from the pynapple sources - DO NOT EDIT.\n"
             "   The npz key tables of save / _from_npz_reader / NPZFile type detection, read off the source text.\n"
             "   writers : (key, (value expression, enclosing condition  - \"\" = unconditional))\n"
             "   readers : (slot, (kind, (key, guarded)))   kind = \"get\" (file[key]) | \"in\" (key in file) *)")
    o.append("From Coq Require Import String List Bool.\nImport ListNotations.\nOpen Scope string_scope.\n")
    for c, _ in CLASSES:
        o.append(f"Definition w_{c} : list (string * (string * string)) := " +
                 lst([f"({q(k)}, ({q(e)}, {q(cd)}))" for k, e, cd in T["writers"][c]]) + ".\n")
    o.append("Definition writers : list (string * list (string * (string * string))) := " +
             lst([f"({q(c)}, w_{c})" for c, _ in CLASSES]) + ".\n")
    names = {"_Base": "r_base", "IntervalSet": "r_IntervalSet", "TsGroup": "r_TsGroup", "detect": "r_detect"}
    for r in ["_Base", "IntervalSet", "TsGroup", "detect"]:
        o.append(f"Definition {names[r]} : list (string * (string * (string * bool))) := " +
                 lst([f"({q(s)}, ({q(kd)}, ({q(k)}, {b(g)})))" for s, kd, k, g in T["readers"][r]]) + ".\n")
    o.append("Definition r_base_excluded : list string := " + lst([q(k) for k in T["base_excluded"]]) + ".\n")
    o.append("Definition r_TsGroup_not_info : list string := " + lst([q(k) for k in T["not_info_keys"]]) + ".\n")
    o.append("Definition reader_of : list (string * string) := " +
             lst([f"({q(c)}, {q(T['reader_of'][c])})" for c, _ in CLASSES]) + ".\n")
    o.append("Definition expected_entries : list (string * list string) := " +
             lst([f"({q(c)}, [{'; '.join(q(k) for k in ks)}])" for c, ks in T["expected"]]) + ".\n")
    o.append("(* constructor parameters after self: (name, required) ; and whether the constructor takes **kwargs\n"
             "   (classes whose reader passes file entries as keyword arguments; TsGroup's reader calls cls positionally) *)")
    o.append("Definition ctor_params : list (string * (list (string * bool) * bool)) := " +
             lst([f"({q(c)}, ([{'; '.join(f'({q(p)}, {b(r)})' for p, r in T['ctor'][c]['params'])}], {b(T['ctor'][c]['kwargs'])}))"
                  for c, _ in CLASSES if T["reader_of"][c] != "TsGroup"]) + ".\n")
    o.append("(* the sort TsGroup.save applies to the concatenated timestamps (a parameter of the model; recorded for the reader) *)")
    o.append("Definition group_sort_call : string := " + q(T["group_sort_call"]) + ".\n")
    o.append("(* normalised source hashes of the functions the tables were read from / that Model/Npz.v models by hand *)")
    o.append("Definition source_hashes : list (string * string) := " +
             lst([f"({q(k)}, {q(v)})" for k, v in sorted(T["hashes"].items())]) + ".")
    return "\n".join(o) + "\n"


def main(argv):
    try:
        T = extract()
        text = render(T)
    except (Bad, OSError, SyntaxError) as e:
        sys.stderr.write(f"gen_c11: {e}\n")
        return 2
    if "--json" in argv:
        print(json.dumps(T, indent=1, sort_keys=True))
        return 0
    try:
        with open(OUT) as fh:
            same = fh.read() == text
    except FileNotFoundError:
        same = False
    if "--check" in argv:
        print("gen_c11: SitesC11.v " + ("up to date" if same else "STALE (differs from what the source says now)"))
        return 0 if same else 1
    if not same:
        os.makedirs(os.path.dirname(OUT), exist_ok=True)
        tmp = OUT + ".tmp"
        with open(tmp, "w") as fh:
            fh.write(text)
        os.replace(tmp, OUT)
    print(f"gen_c11: SitesC11.v {'unchanged' if same else 'written'}")
    return 0


if __name__ == "__main__":
    sys.exit(main(sys.argv[1:]))
