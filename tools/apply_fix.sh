#!/bin/bash
# usage: tools/apply_fix.sh <patch.diff> <msg-file> <property> <what failed (one line)>
# applies a repair to /repo as ONE "fix:" commit and records it in known_findings.json (kind=fixed)
set -e
P="$1"; M="$2"; PID="$3"; WHAT="$4"
git -C /repo apply --check "$P"
git -C /repo apply "$P"
git -C /repo add -A
git -C /repo commit -q -F "$M"
H=$(git -C /repo log --format=%h -1)
python3 - "$PID" "$H" "$WHAT" <<'PY'
import json,sys
pid,h,what=sys.argv[1:4]
p='/verif/known_findings.json'; d=json.load(open(p))
d['findings'].append({"property":pid,"kind":"fixed","commit":h,"line":"fixed: property=%s %s %s"%(pid,h,what)})
json.dump(d,open(p,'w'),indent=1)
PY
echo "applied $H"
