"""Writes MANIFEST.json from the table below (kept in one place so it stays valid)."""
import json, os
HERE = os.path.dirname(os.path.dirname(os.path.abspath(__file__)))
ALL = ["C%02d" % i for i in range(1, 21)]
CLAIMED = {
    "C03": dict(
        text="Proof: the functional model of the restrict scan equals filter-by-membership for every sorted series and every canonical IntervalSet "
             "(unbounded sizes, all coincidence patterns); rows, idempotence, composition, counts are corollaries. The model is tied to the code by a "
             "correspondence check that is complete over all order types of <=3 intervals x <=3 samples (quick) and by the public-API oracle.",
        note="Trusted: Coq kernel; hand-written model coq/Model/Restrict.v tied to jitrestrict/jitrestrict_with_count (compiled and .py_func) and to the public "
             "restrict of the 4 classes + TsGroup by differential execution; times idealised as integer ns ticks.",
        technique="Coq theorem (induction over the interval list) + extracted-model/implementation correspondence",
        design="5 C03"),
}
CLAIMED["C01"] = dict(
    text="Proof: for ALL start/end lists of equal length the model of the constructor (independent merge sort + repaired _jitfix_iset) returns a canonical set "
         "(C01_canonical); with start<=end pairwise it covers no point outside the union and every point of the union except within 1 us before an input start "
         "(C01_cover_sound/complete, via invariance of the depth function under independent sorting); canonical sets are fixed points; the original kernel is "
         "refuted by two witnesses. Correspondence is complete over all multisets of <=3 pairs on a 6-value tick set incl. inverted/zero-length/sub-us pairs.",
    note="Trusted: Coq kernel; model Model/Iset.v tied to nap.IntervalSet in every input form by differential execution; np.sort = merge sort on ticks; float trim idealised (float_ambiguous counted).",
    technique="Coq theorems (loop-invariant induction, permutation/counting argument) + extracted-model/implementation correspondence",
    design="5 C01")
CLAIMED["C02"] = dict(
    text="Proof: point-membership theorems for the models of jitintersect/jitdiff/jitunion/jitunion_isets for all canonical operands (exact, with the touch-point / "
         "endpoint-of-B exceptions named), lifted through the constructor to the property's own quantifier (every instant farther than 1 us from every endpoint); "
         "endpoints, raw well-formedness, commutativity, idempotence, absorbing elements and the two duration identities are theorems as well. "
         "Correspondence: all pairs of canonical sets with <=3 intervals on an 8-point lattice (kernels incl. parent indices, and public wrappers).",
    note="Trusted: Coq kernel; models Model/Iset.v tied to the four kernels and the public union/intersect/set_diff/TsGroup support by differential execution.",
    technique="Coq theorems (nested structural / fuel induction with invariants) + extracted-model/implementation correspondence",
    design="5 C02")
CLAIMED["C05"] = dict(
    text="Proof: the model of jitcount/_jitbin_array (per-interval bin walk with the kernel's nb_bins fuel and centre>end stop) equals the grid the property states for every "
         "sorted series, canonical IntervalSet and positive bin size: bins [s+jb, s+(j+1)b) reported iff centre <= end, value = number (resp. sum/count) of that interval's "
         "samples in the bin; bins are disjoint, centres lie in their interval, a sample is missed only beyond the last reported bin; un-binned counts = per-interval closed "
         "counts summing to len(restrict). Correspondence on the dyadic lattice 2^-9 s (all float operations exact: bin-edge hits and centre==end deterministic).",
    note="Trusted: Coq kernel; model Model/Count.v tied to jitcount, jitbin_array and the public count/bin_average/TsGroup.count (3 units, 3 dtypes) by differential execution; "
         "np.round(.,9) = identity on ticks; on decimal lattices a centre exactly equal to the interval end is float_ambiguous (xpos not re-rounded).",
    technique="Coq theorems (keyed bin-walk induction, ceil/div arithmetic) + extracted-model/implementation correspondence",
    design="5 C05")
CLAIMED["C06"] = dict(
    text="Proof: the transcribed two-cursor machine of jitvaluefrom (as repaired) returns for every query of an interval the latest-at-or-before / nearest / earliest-at-or-after "
         "source sample OF THAT INTERVAL and NaN iff none exists, for all sorted queries and sources incl. duplicates and equidistant neighbours (C06_answers); queries of "
         "interval k only ever see sources of interval k (C06_no_cross); one answer per query in ep; answers index the restricted source array within their block. "
         "interpolate is PARTIAL: per-interval slicing is proved/checked, np.interp itself is an oracle. Correspondence exact on the dyadic lattice; statement oracle on the public API "
         "(Tsd/TsdFrame/TsdTensor sources, int/float, TsGroup).",
    note="Trusted: Coq kernel; model Model/ValueFrom.v tied to _value_from/jitvaluefrom and public value_from by differential execution; np.interp (NumPy) for interpolate; "
         "known finding: interpolate with a zero-span (single distinct timestamp) query or source series returns NaN (empty default support).",
    technique="Coq theorems (cursor invariants per mode, induction on fuel) + extracted-model/implementation correspondence",
    design="5 C06")
CLAIMED["C07"] = dict(
    text="Proof: for every canonical old support and strictly increasing series inside it, the model of the (repaired) jitthreshold run detection yields a canonical new support "
         "that contains every kept and no rejected sample (so restricting the original reproduces the result), lies inside the old support without bridging gaps, and whose "
         "kept/rejected boundaries inside one epoch are midpoints; dropna's support separates kept from rejected rows when samples are more than 1 us apart, and is REFUTED "
         "otherwise (known finding). Correspondence complete over 6 supports x <=4 samples x all value patterns x 4 methods on an even-tick dyadic lattice.",
    note="Trusted: Coq kernel; model Model/Threshold.v tied to Tsd.threshold / dropna (Tsd, TsdFrame, TsdTensor) by differential execution; timestamps strictly increasing; "
         "midpoints exact on even ticks.",
    technique="Coq theorems (loop invariant over the epoch cursor, run/zip alignment) + extracted-model/implementation correspondence",
    design="5 C07")
CLAIMED["C08"] = dict(
    text="Proof: the positional slice computed by the (repaired) _get_slice selects exactly the samples with start <= t <= end (duplicates at both edges) with their own rows; "
         "get(start) returns a nearest sample (Python's wrap-around read shown harmless); trial-tensor rows are exactly each trial's samples, aligned and padded; trial_count rows "
         "equal the per-trial binned counts of C05; warp_tensor is PARTIAL (equal bins when num_bins divides the trial duration). Correspondence complete over all multisets of <=4 "
         "timestamps on a 6-point lattice x all windows on the half-lattice.",
    note="Trusted: Coq kernel; np.searchsorted's contract (left=#{t<v}, right=#{t<=v}); model Model/Slice.v tied to get/get_slice/to_trial_tensor/trial_count/build_tensor/warp_tensor "
         "by differential execution; known finding: get() on a zero-span series returns nothing (empty default support).",
    technique="Coq theorems (split-at-count lemmas for sorted lists) + extracted-model/implementation correspondence",
    design="5 C08")
CLAIMED["C09"] = dict(
    text="Proof over tables regenerated from the source on every run (translator tools/gen_sites.py): every time-valued argument of every unit-accepting function (43 functions, "
         "all reviewed) meets the unit variable - converted by format_timestamps, passed on with the unit, or returned through return_timestamps - with no other use of the unit, and "
         "the suppress_* flags only guard warnings (forallb over the finite generated tables by vm_compute). The float layer is a bit-level PrimFloat model of "
         "format/return_timestamps compared bit-exactly with the implementation; the lattice theorem (three unit forms of a microsecond-lattice instant store the same double) is "
         "proved with Flocq when Proofs/FloatTimeProofs.v is present, otherwise checked on 3000+ lattice instants per run (then PARTIAL). Behaviour is decided by an equivariance "
         "sweep of 35 entry points x {s, ms, us} x 4 flag settings requiring bit-identical results.",
    note="Trusted: Coq kernel; the translator (syntactic reading of the source); primitive-float axioms for the float layer; the equivariance sweep is testing that supports the "
         "table theorem (a dropped conversion changes the generated table and breaks the proof; the sweep then supplies the failing input).",
    technique="translator-regenerated call-site tables + forallb/vm_compute proof; PrimFloat model bit-exact correspondence; equivariance sweep",
    design="5 C09")
CLAIMED["C04"] = dict(
    text="Proof: the public operations are modelled as a state machine over a store of live objects in which every result returns through a constructor exactly as pynapple's "
         "wrappers do; for EVERY operation, index, mask, size and threshold the produced object is well formed (sorted timestamps, each inside the closed intervals of a canonical "
         "support), hence every object reachable by any finite operation sequence is (induction over fold_left); the constructors' final restriction is proved to lose nothing for "
         "positive-span construction, restrict, get and threshold. Tie: 500 (quick) / 5000 (thorough) random histories executed on the extracted state machine and on the real "
         "objects with abstract states compared after every step, plus the well-formedness oracle (incl. one row per timestamp, rate = n/duration, TsGroup members on the group "
         "support) on every object produced by 16 modelled and 25 unmodelled operation kinds.",
    note="Trusted: Coq kernel; Model/Store.v (data values abstracted: threshold/dropna take the kept mask) tied by history correspondence; operations outside the model "
         "(bin_average, interpolate, convolve, smooth, numpy functions, concatenate/split, to_tsd/to_tsgroup, merge, randomisation, perievent, indexing) are covered by the oracle only.",
    technique="Coq invariant proof over a state machine (Inv init, Inv preserved, lifted over fold_left) + history correspondence with the extracted model",
    design="5 C04")
CLAIMED["C16"] = dict(
    text="Proof (all closed): the correlogram kernel's sliding-window counts equal, for all sorted trains and positive bin/window sizes, the histogram of all pairwise lags in "
         "half-open bins centred on the multiples of binsize inside the window (bins tile, none counted twice), autocorrelogram zero at lag 0, normalisation as exact rationals; "
         "compute_perievent returns per reference time exactly the lags of the samples with r-w0 <= t < r+w1, in order, tagged r; compute_perievent_continuous' cursor search finds "
         "the nearest sample of the same epoch for every event, and kernel + (size, offset)-grouped scatter put in column j, row o the sample o steps from it, NaN exactly outside "
         "the epoch; the pre-repair size-only scatter is refuted by theorem.",
    note="Trusted: Coq kernel; models Model/Correlogram.v, Model/Perievent.v tied by extracted-model correspondence (kernel space complete on the dyadic lattice incl. lags on bin "
         "edges, compiled and .py_func) and by statement oracles on the public API; NumPy contracts for searchsorted/unique/arange; decimal bin-edge coincidences float_ambiguous. "
         "Known finding: compute_perievent on TsdFrame/TsdTensor raises.",
    technique="Coq proofs over executable Gallina models (zipper cursor, doubled-tick bounds, Q normalisation) + extracted-model/implementation correspondence",
    design="5 C16")
CLAIMED["C18"] = dict(
    text="Proof: for all signals, kernels (any length/parity), trim modes and canonical supports the model of per-epoch convolution gives on every interval exactly the full "
         "convolution of that interval's samples trimmed on the requested side; the output is independent of all other intervals, bilinear, one row per timestamp with columns kept; "
         "windowed-sinc LP+HP and BP+BS sum to the input for every odd kernel. PARTIAL for Butterworth: independence, time axis and linearity follow for any length-preserving (for "
         "linearity: linear) per-slice routine F standing for sosfiltfilt (visible premises len_pres F, lin_op F).",
    note="Trusted: Coq kernel; Model/Convolve.v tied by exact correspondence on a completely enumerated small space + seeded random cases; scipy.signal.convolve taken as direct full "
         "convolution; sosfiltfilt an oracle; real-valued kernels and Butterworth linearity to 1e-9.",
    technique="Coq proofs (bilinearity, trim arithmetic, fold/splice invariants, delta-kernel identity) + extracted-model/implementation correspondence",
    design="5 C18")
CLAIMED["C11"] = dict(
    text="Proof: for all six classes load (save x) = Some x for every well-formed object (timestamps, rows, dtype tag, shape, support, columns, keys incl. empty members, metadata) "
         "and type dispatch, over a key/value model of the .npz file whose writer and reader key strings are REGENERATED from the source by an ast extractor on every run; "
         "keys_cover (every key read is written), kwargs_accepted and type_written are vm_compute theorems over the generated tables. TsGroup theorems are PARTIAL relative to "
         "np.argsort's contract (visible premises); the stable-sort version is closed; two corner cases are refuted and recorded as known findings.",
    note="Trusted: tools/gen_c11.py (cross-checked each run against the member names of really written .npz files); np.savez/np.load and pandas to_dict/from_dict beyond the "
         "key-to-value map; np.argsort's contract; extraction glue. Known findings: tied timestamps inside a Tsd member may come back permuted (unstable argsort); a group of "
         "all-empty Tsd members loads as Ts.",
    technique="translator-regenerated key tables + Coq round-trip proof over a hand model of readers and constructors; extracted model vs real save/load_file/Folder round trips",
    design="5 C11")
CLAIMED["C14"] = dict(
    text="PARTIAL proof: for every NumPy function f (a universally quantified parameter with the single law 'an array result fills its shape') and every shape, pynapple's wrappers "
         "never alter NumPy's numbers, re-attach x's timestamps/support exactly when the result's axis 0 has the index length (square-shape ambiguity included), keep column labels "
         "iff frame->frame with equal column count, always wrap element-wise results (each output of a multi-output ufunc too), pass 0-d results through, concatenate along time only "
         "for strictly increasing timestamps (time = append, support = union, rows = append) and split into pieces that partition timestamps with their rows; four clauses false of "
         "the faithful model are stated as _refuted theorems (known findings).",
    note="Trusted: Coq kernel; Model/NpWrap.v tied by exact (np.array_equal) correspondence over 378 call forms x 20 shapes plus complete small concatenate/split spaces; NumPy's "
         "numerics are a Section parameter; NumPy's split points, row-major concatenate and allclose broadcasting are transcribed; in-place operators and metadata not modelled.",
    technique="Coq proof over an executable model with abstract cells and abstract NumPy functions + extracted-model/implementation correspondence",
    design="5 C14")
CLAIMED["C10"] = dict(
    text="Proof relative to validated effect summaries: on an explicit heap (objects hold locations), if every operation writes only locations it allocated itself then at every "
         "point of every history every live object is intact, whatever aliasing earlier results introduced; item assignment / set_info change only the addressed location "
         "(C10_frame_histories, C10_frame_at_every_point, C10_setitem_local, C10_frame_with_setitems). The summaries are VALIDATED on every run by deep snapshots of every live object "
         "and every caller-supplied array around every call of 16 modelled + 25 unmodelled operation kinds and the process-module analyses. Tables regenerated from the source: the "
         "__setattr__/__setitem__ guards and all 63 in-place array updates with the provenance of their target (fresh local / self.values / self._metadata; the one parameter writer "
         "_compute_spectral_inversion is admissible because all its call sites pass fresh arrays) are checked by forallb/vm_compute; every container write that must be rejected is tried.",
    note="Trusted: Coq kernel; the translator; the dynamic snapshot monitor (refinement-plus-monitoring, weaker than the kernel theorems: stated in DESIGN.md section 7). "
         "Scope: rejection is read at the container API; raw ndarrays handed out by .values/.start/.t are writable NumPy arrays.",
    technique="heap frame theorem over histories + translator-regenerated guard/in-place tables (forallb/vm_compute) + snapshot monitoring of every call",
    design="5 C10")
CLAIMED["C19"] = dict(
    text="PARTIAL proof: for all signals, epochs, n, fs > 0, overlaps and parities pynapple's own bookkeeping is proved: restriction to the epoch, crop/pad, the sorted fftfreq index, "
         "the 1/n and 1/(fs n) scales, the one-sided doubling (mask k > 0; every one-sided row is below Nyquist) unconditionally, the _overlap_split segments and the min-length "
         "truncation with windowed averaging; Parseval, the one-sided totals (even n: full total minus the Nyquist bin - recorded behaviour) and 'mean PSD = average of windowed "
         "periodograms' are derived from Parseval/Hermitian hypotheses on the FFT. The pre-repair mask is documented as mask_orig with its refutation witness.",
    note="Trusted: np.fft.fft as parameter dft with visible hypotheses length_law, parseval_at, hermitian_at; the Hamming window (only its length is used); floats idealised as an "
         "abstract characteristic-0 field (instantiated non-vacuously by Qc with an exact 4-point DFT); the harness ties the model to /repo through a direct O(n^2) DFT oracle and "
         "exact discrete recoveries (k list, psd/|X|^2 snapped to {1,2}/(fs n), segments); values and Parseval to 1e-9 relative.",
    technique="Coq proof over an executable model with the FFT as a Section variable + extracted-model/implementation correspondence + statement oracle",
    design="5 C19")
CLAIMED["C13"] = dict(
    text="Proof: for every key form of IntervalSet / TsdFrame / TsGroup indexing (pandas keys with any index order included) and for intersect, set_diff, split, "
         "restrict/get/arithmetic and merge_group, each output element carries exactly the metadata row and label of the input element it is (or of the parent interval(s) that "
         "contain it); merge_group is total on disjoint keys; the constructor, union, time_span and merge_close_intervals drop metadata rather than misattach it. The pre-repair forms "
         "(boolean Series aligned by label, unsorted merged metadata) are kept as _orig models with their refutation witnesses.",
    note="Trusted: Coq kernel; Model/Meta.v (pandas loc/iloc/reset_index/get_indexer/sort_index as association-list functions) tied by complete enumeration of all index expressions "
         "over 4-5 tagged elements, all raw constructor inputs of <=3 intervals and all pairs of small canonical sets; tagged-data oracle independent of pandas. Save/load, "
         "merge_group(reset_index=True) and operand corruption are exercised through the public API only.",
    technique="Coq proof over an executable model of the metadata bookkeeping + extracted-model/implementation correspondence + tagged-data oracle",
    design="5 C13")
CLAIMED["C17"] = dict(
    text="PARTIAL proof: pynapple's tuning-curve estimators attribute each spike in ep to the feature sample nearest in time within its own epoch (reusing C06) and count it in "
         "exactly one histogram bin; spikes in = sum of rate x occupancy; unvisited bins give NaN and never infinity; discrete curves are spikes per total duration; the continuous "
         "variants are per-bin means except on the last edge (refuted there: known finding); decode's posterior is the normalised prior x E(-bin_size x sum rates) x prod rate^count "
         "on C05's time bins, decoded at the first maximal bin centre, with posterior rows = decoded bins for pre-binned frames in 1-d and 2-d.",
    note="Trusted: np.histogram/np.histogram2d (half-open bins, last bin closed), np.digitize (half-open) and exp positive appear as premises of the closed theorems; the executable "
         "bin rules are checked against NumPy on a complete small space; the exponential factor is checked through a log-identity at 1e-9. Known findings: samples on the last edge "
         "in the continuous variants; a single-bin occupancy prior raises.",
    technique="Coq proof with NumPy routines as Section variables + extracted-model/implementation correspondence + statement oracle on discrete quantities",
    design="5 C17")
CLAIMED["C12"] = dict(
    text="Proof: for every dictionary or list of Ts/Tsd/arrays and every sequence of key-list / mask / getby_* / restrict / get / merge / to_tsd->to_tsgroup operations, a model of "
         "TsGroup satisfies: keys are the sorted integer values of the supplied keys (non-integer or equal-valued keys rejected), the support is the supplied one or the union of the "
         "members' supports, members are restricted to it (unless bypass_check), rate = len / total support duration as a rational, every operation preserves each surviving member's "
         "timestamps under its key restricted to the new support, merge is total on disjoint keys (the pre-repair merge is refuted), the to_tsd/to_tsgroup round trip returns the members "
         "with samples, and group-level count / value_from / trial_count are the per-member results - as invariants over arbitrary histories (fold_left).",
    note="Trusted: Coq kernel; Model/Group.v (rawkey abstraction of int()/float(), one integer metadata column, stable-sort reading of np.argsort) tied by history correspondence after "
         "every step on complete small spaces + random histories, and by the statement's own oracle; the two-member union is exact only farther than 1 us from endpoints; Tsd data "
         "values and metadata beyond one column are C13's.",
    technique="Coq proof over an executable model of ts_group.py reusing the C01/C02/C03/C05/C06/C08 theorems + history correspondence with the extracted model",
    design="5 C12")
CLAIMED["C20"] = dict(
    text="Proof for EVERY value of the random draws (the shift, the jitter vector, the resampled instants, the permutation of the inter-event intervals are explicit arguments of "
         "the model) and every single-interval support [s,e], not necessarily starting at 0: shift_timestamps and resample_timestamps return as many timestamps as given, all inside "
         "the kept support; shuffle_ts_intervals keeps the first timestamp and returns exactly the permuted inter-event intervals; jitter_timestamps keeps the count and moves the "
         "k-th sorted timestamp by at most max_jitter (rearrangement lemma), or keeps the support when keep_tsupport=True; the TsGroup forms are member-wise the Ts generators with keys "
         "kept. For groups whose support is recomputed the remaining cases are proved false and are the known findings; the pre-repair shift is refuted.",
    note="Trusted: Coq kernel; Model/Randomize.v (draws as arguments, constructors included) tied by running the public API with np.random.uniform/permutation replaced inside the "
         "harness process and comparing with the extracted model on a complete small dyadic space plus ns-resolution and real-generator runs; NumPy's draw ranges, np.sort, float % on "
         "the lattice are assumed.",
    technique="Coq proof over an executable model with universally quantified draws + extracted-model/implementation correspondence with recorded draws",
    design="5 C20")
CLAIMED["C15"] = dict(
    text="Proof about the kernels' own TEXT: tools/py2jit.py regenerates coq/Gen/Kernels.v (all 17 numba routines as terms of a deep-embedded kernel language) from /repo on every run; "
         "for EVERY one of the 17 a theorem k_<name>_safe states that the checked interpreter (every array access bounds-checked, every variable read checked for assignment) never "
         "reports an error, for ALL array sizes and contents satisfying the public-call precondition and all fuel, via a weakest-precondition calculus proved sound once (wp_sound, "
         "run_sound) and hand-written loop invariants. The preconditions are length relations the wrappers guarantee (positivity of bin_size / interval_size is validated by the callers "
         "since the repairs; making them explicit exposed four genuine defects, all repaired; refutation witnesses kept in Inv/Findings.v). Determinism / compiled = interpreted: compiled, "
         "bounds-checked compiled, .py_func and the translated term agree on every generated case. For jitrestrict the translated text is moreover proved to COMPUTE the functional model "
         "of C03 (C03_kernel_text_computes_model).",
    note="Trusted: Coq kernel; the translator (fail-closed; a mistranslation shows as a four-way disagreement); Jit/Interp.v's semantics of the NumPy intrinsics, floats as exact "
         "rationals + NaN (so float64 rounding of _overlap_split's buffer bound N is not covered; the kernel's N + 1 slack absorbs it), lenient typing, trailing data axes collapsed; "
         "the preconditions read off the wrappers by hand and exercised by 28 degenerate public calls under NUMBA_BOUNDSCHECK=1 (own numba cache); numba's compilation itself.",
    technique="source-to-Coq translator + deep embedding + proved-sound safety wp calculus with loop invariants; four-way execution correspondence",
    design="5 C15 / 10.6")
# ---- additions of the later rounds (tie by proof, total correctness, exact statements after the oracle audit) ----
KT = " The text of the kernel(s) is ALSO tied by proof: the term regenerated from /repo by the translator computes the functional model (Properties/%sb.v)%s."
ADD = {
 "C01": " EXACT coverage (C01_cover_exact): when no input is zero-length the only missing points are the microsecond before a genuine touching point; with a zero-length input this fails (C01_cover_exact_zero_length_refuted, known finding). The constructor is idempotent and the public set-operation results are its fixed points (C01_idempotent, C01_ops_fixed_points)." + KT % ("C01", ", total correctness (it terminates and returns fix_iset, no hypothesis)"),
 "C02": " Wrapper-level endpoint, list-level commutativity and measure theorems (loss at most 1 us per junction); eight Boolean-algebra laws of composed kernels (C02_alg_*: partition, associativity, De Morgan for set_diff, distributivity, symmetric difference, absorption)." + KT % ("C02", ": jitunion, jitunion_isets, jitintersect, jitdiff, total correctness"),
 "C03": " Support, constructor and per-sample composition clauses are theorems too; restrict against union / set_diff, order independence and the counting laws (C03_commute .. C03_inclusion_exclusion) are theorems and are evaluated on the public API." + KT % ("C03", ": jitrestrict, jitrestrict_with_count, jitin_interval, total correctness"),
 "C05": " Conservation of the binned counts (C05_counts_conserved)." + KT % ("C05", ": jitcount and _jitbin_array for EVERY positive bin size (the half-tick comparison was repaired in 4a0e79d; C05_odd_bin_size_refuted is about the frozen old text), total correctness"),
 "C06": " End-to-end and interpolate-slice theorems; self lookup (C06_self_lookup: a query equal to a source timestamp gets that very sample in every mode), also evaluated on the public API." + KT % ("C06", ": jitvaluefrom, no hypothesis, any mode, total correctness"),
 "C07": " Exact hypotheses for dropna (necessary and sufficient) and refutation witnesses for duplicates / 1 ns neighbours; complementary thresholds split the series (C07_complementary_split)." + KT % ("C07", ": jitthreshold and jitremove_nan"),
 "C08": " Composition laws of get(start, end) (C08_get_get, C08_get_commute_idempotent, C08_get_is_restrict) are theorems and are evaluated on the public API.",
 "C19": KT % ("C19", ": _overlap_split returns exactly the model's segments; the repair's loop bound never fires in exact arithmetic"),
 "C15": " TERMINATION of all 17 kernel texts on their safety preconditions (Properties/C15b.v, total-correctness calculus Jit/Total.v with a variant per while loop).",
 "C16": KT % ("C16", ": _cross_correlogram for every bin size below 2 s (hypothesis round9_exact, sharp: C16_kernel_text_round9_refuted) and _jitcontinuous_perievent, total correctness"),
}
TECH_ADD = {k: "; refinement proof of the translator-regenerated kernel text against the model (wp calculus with functional invariants)" + ("; total correctness via variants" if k in ("C01", "C02", "C03", "C05", "C06", "C15", "C16") else "") for k in ADD}
TECH_ADD["C08"] = ""      # C08 has no kernel of its own: its ADD entry is about the composition theorems only
for k, v in ADD.items():
    CLAIMED[k]["text"] += v
    CLAIMED[k]["technique"] += TECH_ADD[k]
# ---- Glue layer (DESIGN.md 10.12): the Python between the public API and the kernels, tied by proof ----
GLUE = {
 "C01": "the numeric core of IntervalSet.__init__ (the two sort decisions and the normaliser call) computes mk_iset",
 "C02": "IntervalSet.union / intersect / set_diff / __getitem__ / time_span / tot_length / drop_short_intervals / drop_long_intervals / merge_close_intervals compute iset_union / iset_inter / iset_diff / the filter forms / merge_close",
 "C03": "IntervalSet.in_interval, _restrict and _Base.restrict compute in_interval / restrict_idx and hand the re-indexed arrays to the constructor",
 "C05": "_count (with and without a bin size), jitbin_array / _bin_average, _Base.count and _BaseTsd.bin_average compute count_binned / restrict_cnt with exact midpoints / bin_sum_cnt",
 "C06": "_value_from (which arrays are restricted, re-indexed and passed in which order with which mode code, and the double gather of the data) and _Base.value_from compute value_from",
 "C07": "_threshold, _dropna (all four branches incl. the 1 us widening), _BaseTsd.dropna and Tsd.threshold compute thr_go / kept_times / dropna_spec",
 "C08": "_Base.get_slice and _Base._get_slice compute get_range / get_closest",
}
for k, v in GLUE.items():
    CLAIMED[k]["text"] += (" The Python GLUE around the kernels is tied by proof as well (Properties/%sc.v): the Glue.Lang terms that tools/py2glue.py regenerates from /repo on every run satisfy, for all "
                           "inputs: %s - both relative to the kernel models and composed with the translated kernel texts (*_with_kernel_text)." % (k, v))
    CLAIMED[k]["note"] += (" Glue tie: trusted are the translator's routine whitelist, assumed tests (numpy backend, isinstance dispatch), declared identities (time_units='s' on rounded input, float "
                           "literals read as ticks) and skipped-statement whitelist with def-use check - all listed per routine in coq/Gen/glue.json - and the primitive semantics of Glue/Interp.v "
                           "(exact rationals, idealised np.sort / searchsorted); both are exercised against the real routines by harness/gluecmp.py on every run.")
    CLAIMED[k]["technique"] += "; source-to-Coq translation of the straight-line Python glue (Glue.Lang) with refinement proofs against the hand models, extracted evaluator vs the real routine"
for k in CLAIMED:
    CLAIMED[k]["note"] += (" Input generators were widened along the argument-form axes (dtypes, containers, scalars, keyword/positional, units, placement, degenerate receivers, classes, histories) "
                           "after three rounds of independently seeded defects (DESIGN.md 10.10, 10.13).")
for k in CLAIMED:
    CLAIMED[k]["note"] += " Oracles and known-finding keys were audited against the statement clause by clause (DESIGN.md 10.9): exemptions removed, tolerances replaced by the exact rule, keys narrowed to the recorded defect."
REASON_TODO = "C15: the translator + safety-calculus development (DESIGN.md 5 C15 / 10.6) is still being completed; not claimed until its check runs clean"
m = {
    "version": 1,
    "setup_cmd": "./setup.sh",
    "hooks": {"guard": "PYNAPPLE_VERIF", "enable": "none: no source hooks are used (py_func, monkey-patching inside the harness process)",
              "baseline_off_cmd": "/venv/bin/python tools/baseline.py", "source_commits": [], "add_only": True},
    "engines": [{"name": "coq-model", "path": "coq/", "serves_properties": sorted(CLAIMED), "kind_free_text": "Coq 8.16 models + theorems; extracted to OCaml for correspondence"},
                {"name": "harness", "path": "harness/", "serves_properties": sorted(CLAIMED), "kind_free_text": "Python generators, implementation runner, differ, oracles"}],
    "checks": [],
    "not_applicable": [],
    "notes": "Every check: ./check Cxx --tier quick|thorough. Known findings: known_findings.json.",
}
for pid in ALL:
    if pid in CLAIMED:
        c = CLAIMED[pid]
        m["checks"].append({
            "property_id": pid, "quick_cmd": f"./check {pid} --tier quick", "thorough_cmd": f"./check {pid} --tier thorough",
            "evidence_file": f"/verif/evidence/{pid}.json", "replay_cmd_template": f"./check {pid} --replay {{path}}",
            "engine": "coq-model", "level_claimed": {"category": c.get("category", "proof"), "text": c["text"], "design_ref": c["design"]},
            "level_note": c["note"], "technique": c["technique"]})
    else:
        m["not_applicable"].append({"property_id": pid, "reason": REASON_TODO})
json.dump(m, open(os.path.join(HERE, "MANIFEST.json"), "w"), indent=1)
print("claimed:", sorted(CLAIMED))
