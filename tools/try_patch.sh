#!/bin/bash
# usage: tools/try_patch.sh <patch.diff> <Cxx> [Cyy ...]
# Runs the checks against the patch WITHOUT touching /repo or /verif: a scratch worktree of /repo HEAD gets the patch,
# a scratch copy of /verif (with its build output) runs the checks against it. Both are removed afterwards.
P="$(readlink -f "$1")"; shift
ID=$$
WT=/tmp/tp_repo_$ID; VM=/tmp/tp_verif_$ID
git -C /repo worktree add -q --detach $WT HEAD || exit 2
git -C $WT apply "$P" || { echo "patch does not apply"; git -C /repo worktree remove --force $WT; exit 2; }
mkdir -p $VM && rsync -a --exclude .git --exclude .cache --exclude replays --exclude seeded /verif/ $VM/
for pid in "$@"; do
  (cd $VM && VERIF_REPO=$WT VERIF_HOME=$VM timeout 3000 ./check "$pid" 2>&1 | tail -3 | cut -c1-400)
done
rm -rf $VM; git -C /repo worktree remove --force $WT
