#!/bin/bash
# usage: tools/try_patch.sh <patch.diff> <Cxx> [Cyy ...]   applies the patch to /repo, runs the checks, reverts
P="$1"; shift
cd /repo && git status --short | grep -q . && { echo "repo dirty"; exit 2; }
git -C /repo apply "$P" || { echo "patch does not apply"; exit 2; }
for pid in "$@"; do
  (cd /verif && timeout 3000 ./check "$pid" 2>&1 | tail -3)
done
git -C /repo checkout -- .
git -C /repo status --short
