"""Developer runner: run one property's correspondence/oracle pass WITHOUT the build step and print a summary.
usage: PYTHONPATH=/repo NUMBA_CACHE_DIR=/verif/.cache/numba-plain /venv/bin/python -W ignore tools/runprop.py c16 [quick|thorough] [seed]"""
import collections
import importlib
import os
import sys

sys.path.insert(0, os.path.join(os.path.dirname(os.path.abspath(__file__)), "..", "harness"))
import common as C  # noqa: E402

m = importlib.import_module("props." + sys.argv[1].lower())
tier = sys.argv[2] if len(sys.argv) > 2 else "quick"
seed = int(sys.argv[3]) if len(sys.argv) > 3 else 0
r = C.Result()
m.run(r, tier, seed)
print("evals", r.evaluations, "distinct", len(r.keys), "violations", len(r.violations), "disagreements", len(r.disagreements), "float_ambiguous", r.float_ambiguous)
for v in r.violations[:5]:
    print("V", v)
for v in r.disagreements[:5]:
    print("D", v)
print("dist", r.dist)
print("violation keys", collections.Counter(str(v["key"]) for v in r.violations))
print("known-matched", sum(1 for v in r.violations if C.match_known(sys.argv[1].upper(), v)))
print("samples", r.samples[:2])
