#!/venv/bin/python
"""Regenerate coq/Gen/Glue.v and coq/Gen/glue.json from the pynapple sources as they are now (tools/py2glue.py).

Files are rewritten only when their content changes, so that `make` stays incremental.
Exit status 2 (and nothing written) when the translator meets a construct outside its tables (fail-closed).
"""
import json
import os
import sys

sys.dont_write_bytecode = True
sys.path.insert(0, os.path.dirname(os.path.abspath(__file__)))
import py2glue  # noqa: E402

ROOT = os.path.dirname(os.path.dirname(os.path.abspath(__file__)))
GEN = os.path.join(ROOT, "coq", "Gen")


def write_if_changed(path, text):
    try:
        with open(path) as fh:
            if fh.read() == text:
                return False
    except FileNotFoundError:
        pass
    tmp = path + ".tmp"
    with open(tmp, "w") as fh:
        fh.write(text)
    os.replace(tmp, path)
    return True


def main():
    try:
        rs = py2glue.translate_all()
    except py2glue.Unsupported as e:
        sys.stderr.write(f"gen_glue: {e}\n")
        return 2
    os.makedirs(GEN, exist_ok=True)
    text = py2glue.render(rs)
    meta = {"routines": [{"name": r.name, "coq": r.coq_name(), "file": r.rel, "line": r.line, "hash": r.hash,
                          "term_hash": r.term_hash(), "params": r.params, "variables": r.vars,
                          "kernels": r.kernels, "callees": r.callees,
                          "skipped": r.skipped, "assumed_tests": r.assumed,
                          "declared": sorted(set(r.declared))} for r in rs]}
    c1 = write_if_changed(os.path.join(GEN, "Glue.v"), text)
    c2 = write_if_changed(os.path.join(GEN, "glue.json"), json.dumps(meta, indent=1, sort_keys=True) + "\n")
    print(f"gen_glue: Glue.v {'written' if c1 else 'unchanged'}, glue.json {'written' if c2 else 'unchanged'}, "
          f"{len(rs)} routines translated, {sum(len(r.skipped) for r in rs)} statements skipped (listed in glue.json)")
    return 0


if __name__ == "__main__":
    sys.exit(main())
