#!/bin/bash
# Build the framework offline from files on disk: Gen/ tables from /repo, full .vo build, extracted drivers.
set -e
HERE="$(cd "$(dirname "$0")" && pwd)"
cd "$HERE"
mkdir -p .cache evidence replays coq/Gen coq/Cases
export PYTHONPATH=/repo PYTHONHASHSEED=0 PYTHONDONTWRITEBYTECODE=1 VERIF_HOME="$HERE"
(cd coq && coq_makefile -f _CoqProject -o Makefile)
/venv/bin/python -c "import sys; sys.path.insert(0,'harness'); import common as C; i=C.build(); print({k:v for k,v in i.items() if k!='log'}); print(i['log'][-3000:]); sys.exit(0 if i['gen_ok'] and i['make_ok'] and i['ocaml_ok'] else 1)"
echo "setup ok"
