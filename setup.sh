#!/bin/bash
# Build the framework offline from files on disk: Gen/ from /repo, full .vo build, extracted driver.
set -e
HERE="$(cd "$(dirname "$0")" && pwd)"
cd "$HERE"
mkdir -p .cache evidence replays coq/Gen
export PYTHONPATH=/repo PYTHONHASHSEED=0 PYTHONDONTWRITEBYTECODE=1
if [ -f tools/gen.py ] && [ -f tools/GEN_ENABLED ]; then /venv/bin/python tools/gen.py; fi
cd coq
coq_makefile -f _CoqProject -o Makefile
timeout 3000 make -j"$(nproc)"
cd ../ocaml
ocamlfind ocamlopt -O2 -w -a model.mli model.ml driver.ml -o driver
echo "setup ok"
