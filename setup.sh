#!/bin/bash
# Build the framework offline from files on disk: Gen/ from /repo, full .vo build, extracted driver.
set -e
HERE="$(cd "$(dirname "$0")" && pwd)"
cd "$HERE"
mkdir -p .cache evidence replays coq/Gen
export PYTHONPATH=/repo PYTHONHASHSEED=0 PYTHONDONTWRITEBYTECODE=1
if [ -f tools/gen.py ] && [ -f tools/GEN_ENABLED ]; then /venv/bin/python tools/gen.py; fi
cd coq
coq_makefile -f _CoqProject -o Makefile
timeout 3000 make -j"$(nproc)"
cd ..
/venv/bin/python -c "import sys; sys.path.insert(0,'harness'); import common as C; i=C.build(); print(i); sys.exit(0 if i['make_ok'] and i['ocaml_ok'] else 1)"
echo "setup ok"
