(* Driver for the extracted C20 model: one case per line on stdin, one result per line on stdout.
   line  := op TAB arg TAB arg ...     arg := space-separated decimal integers (possibly none)
   Ts ops     -> "stamps|support"            (or "none" when the model says the call raises)
   group ops  -> "keys|stamps_0|...|stamps_{n-1}|support"   (or "none") *)
open Model_c20

let rec pos_of_int n = if n = 1 then XH else if n land 1 = 0 then XO (pos_of_int (n lsr 1)) else XI (pos_of_int (n lsr 1))
let z_of_int n = if n = 0 then Z0 else if n > 0 then Zpos (pos_of_int n) else Zneg (pos_of_int (-n))
let rec int_of_pos = function XH -> 1 | XO p -> 2 * int_of_pos p | XI p -> 2 * int_of_pos p + 1
let int_of_z = function Z0 -> 0 | Zpos p -> int_of_pos p | Zneg p -> - (int_of_pos p)
let rec nat_of_int n = if n <= 0 then O else S (nat_of_int (n - 1))

let ints s = List.filter (fun x -> x <> "") (String.split_on_char ' ' s) |> List.map int_of_string
let zs s = List.map z_of_int (ints s)
let ns s = List.map nat_of_int (ints s)
let out_z l = String.concat " " (List.map (fun z -> string_of_int (int_of_z z)) l)
let out_iset l = out_z (List.concat_map (fun (a, b) -> [a; b]) l)
let out_ts (t, sup) = out_z t ^ "|" ^ out_iset sup
let out_group = function
  | None -> "none"
  | Some (ms, sup) -> String.concat "|" ([out_z (List.map fst ms)] @ List.map (fun (_, t) -> out_z t) ms @ [out_iset sup])

let rec drop n l = if n <= 0 then l else match l with [] -> [] | _ :: r -> drop (n - 1) r
let rec evens = function a :: _ :: r -> a :: evens r | [a] -> [a] | [] -> []
let rec odds = function _ :: b :: r -> b :: odds r | _ -> []

let run op a =
  let g i = List.nth a i in
  let z i j = List.nth (zs (g i)) j in
  match op with
  | "shift" -> out_ts (shift_ts (z 0 0) (z 0 1) (z 0 2) (zs (g 1)))
  | "shift_orig" -> out_ts (shift_ts_orig (z 0 0) (z 0 1) (z 0 2) (zs (g 1)))
  | "jitter" -> out_ts (jitter_ts (List.nth (ints (g 0)) 0 <> 0) (z 0 1) (z 0 2) (zs (g 1)) (zs (g 2)))
  | "resample" -> out_ts (resample_ts (z 0 0) (z 0 1) (zs (g 1)))
  | "shuffle" -> (match shuffle_ts (zs (g 0)) (ns (g 1)) with None -> "none" | Some r -> out_ts r)
  | "shift_group" ->
      let keys = zs (g 1) in
      let tss = List.map zs (drop 3 a) in
      out_group (shift_group (z 0 0) (z 0 1) (List.combine keys tss) (zs (g 2)))
  | "jitter_group" ->
      let keys = zs (g 1) in
      let rest = drop 2 a in
      out_group (jitter_group (List.nth (ints (g 0)) 0 <> 0) (z 0 1) (z 0 2)
                   (List.combine keys (List.map zs (evens rest))) (List.map zs (odds rest)))
  | "resample_group" ->
      let keys = zs (g 1) in
      let rest = drop 2 a in
      out_group (resample_group (z 0 0) (z 0 1) (List.combine keys (List.map zs (evens rest))) (List.map zs (odds rest)))
  | "shuffle_group" ->
      let keys = zs (g 0) in
      let rest = drop 1 a in
      out_group (shuffle_group (List.combine keys (List.map zs (evens rest))) (List.map ns (odds rest)))
  | _ -> "ERR unknown op " ^ op

let () =
  try
    while true do
      let line = input_line stdin in
      match String.split_on_char '\t' line with
      | [] -> print_endline "ERR empty"
      | op :: args -> print_endline (try run op args with e -> "ERR " ^ Printexc.to_string e)
    done
  with End_of_file -> ()
