(* jitdriver: run translated kernels (Gen/Kernels.v, extracted in jitmodel.ml) in the checked
   interpreter Jit.Interp.

   Build:  cd /verif/ocaml && ocamlfind ocamlopt -O2 -w -a jitmodel.mli jitmodel.ml jitdriver.ml -o jitdriver

   Input: one case per line on stdin:

       [fuel=N] <kernel-name> <arg> <arg> ...

   Arguments, separated by blanks, in the order of the kernel's parameters
   (`dtype` parameters are not parameters of the model and are omitted; the string parameter
   `method` of jitthreshold is the integer tag given in coq/Gen/kernels.json):

       i:<int>               integer scalar
       b:0 | b:1             boolean scalar
       f:<ticks>             float scalar worth <ticks> * 1e-9 exactly (integer nanosecond ticks)
       f:<num>/<den>         float scalar worth num/den exactly (NOT in ticks)
       f:nan                 NaN
       I[v,v,...]            1-D integer array            (I[] is the empty array)
       B[0,1,...]            1-D boolean array
       F[t,t,nan,n/d,...]    1-D float array, cells as for f:
       I2:<c>[...] F2:<c>[...] B2:<c>[...]   2-D array with <c> columns, cells row-major

   Output: one line per case:

       OK <value> <value> ...     the returned tuple, each value in the syntax above
                                  (a float that is a whole number of ticks is printed as ticks,
                                   any other rational as num/den, NaN as nan;
                                   2-D arrays as X2:<c>:<rows>[...])
       ERR OOB <site>             an array access outside its bounds, at the translator's site number
       ERR UNINIT <name>          a variable (or array name) read before assignment
       FUEL                       the fuel (default 200000 nested steps) ran out
       BAD <message>              unknown kernel / unparsable line
*)
open Jitmodel

let rec pos_of_int n = if n = 1 then XH else if n land 1 = 0 then XO (pos_of_int (n lsr 1)) else XI (pos_of_int (n lsr 1))
let z_of_int n = if n = 0 then Z0 else if n > 0 then Zpos (pos_of_int n) else Zneg (pos_of_int (-n))
let rec int_of_pos = function XH -> 1 | XO p -> 2 * int_of_pos p | XI p -> 2 * int_of_pos p + 1
let int_of_z = function Z0 -> 0 | Zpos p -> int_of_pos p | Zneg p -> - (int_of_pos p)
let rec nat_of_int n acc = if n <= 0 then acc else nat_of_int (n - 1) (S acc)
let rec int_of_nat = function O -> 0 | S n -> 1 + int_of_nat n
let chars s = List.init (String.length s) (String.get s)
let string_of_chars l = String.concat "" (List.map (String.make 1) l)

(* decimal printing of a z of any size *)
let rec pos_bits = function XH -> [1] | XO p -> 0 :: pos_bits p | XI p -> 1 :: pos_bits p
let string_of_pos p =
  (* little-endian decimal digits, double-and-add from the most significant bit *)
  let bits = List.rev (pos_bits p) in
  let digits = ref [0] in
  List.iter (fun b ->
      let carry = ref b in
      digits := List.map (fun d -> let v = 2 * d + !carry in carry := v / 10; v mod 10) !digits;
      if !carry > 0 then digits := !digits @ [!carry]) bits;
  String.concat "" (List.rev_map string_of_int !digits)
let string_of_z = function Z0 -> "0" | Zpos p -> string_of_pos p | Zneg p -> "-" ^ string_of_pos p

exception Bad of string

let parse_int s = try int_of_string s with _ -> raise (Bad ("integer: " ^ s))

let parse_flt s : q option =
  if s = "nan" then None
  else match String.index_opt s '/' with
    | Some k ->
      let n = parse_int (String.sub s 0 k) and d = parse_int (String.sub s (k + 1) (String.length s - k - 1)) in
      if d <= 0 then raise (Bad ("denominator: " ^ s));
      Some (q_red { qnum = z_of_int n; qden = pos_of_int d })
    | None -> Some (q_of_ticks (z_of_int (parse_int s)))

let parse_cell kind s : sval =
  match kind with
  | 'I' -> VInt (z_of_int (parse_int s))
  | 'B' -> VBool (parse_int s <> 0)
  | 'F' -> VFlt (parse_flt s)
  | _ -> raise (Bad "cell kind")

let dtype_of = function 'I' -> DInt | 'B' -> DBool | 'F' -> DFlt | _ -> raise (Bad "array kind")

let parse_cells kind body =
  if String.trim body = "" then []
  else List.map (fun c -> parse_cell kind (String.trim c)) (String.split_on_char ',' body)

let parse_arg (s : string) : value =
  let n = String.length s in
  if n >= 2 && s.[1] = ':' && (s.[0] = 'i' || s.[0] = 'b' || s.[0] = 'f') then
    let r = String.sub s 2 (n - 2) in
    match s.[0] with
    | 'i' -> Sc (VInt (z_of_int (parse_int r)))
    | 'b' -> Sc (VBool (parse_int r <> 0))
    | _ -> Sc (VFlt (parse_flt r))
  else if n >= 3 && s.[n - 1] = ']' then
    let lb = try String.index s '[' with Not_found -> raise (Bad ("argument: " ^ s)) in
    let body = String.sub s (lb + 1) (n - lb - 2) in
    let head = String.sub s 0 lb in
    let kind = head.[0] in
    let cells = parse_cells kind body in
    if String.length head = 1 then Ar (A1 (dtype_of kind, cells))
    else if String.length head >= 4 && head.[1] = '2' && head.[2] = ':' then begin
      let c = parse_int (String.sub head 3 (String.length head - 3)) in
      if c <= 0 || List.length cells mod c <> 0 then raise (Bad ("2-D shape: " ^ s));
      Ar (A2 (dtype_of kind, z_of_int (List.length cells / c), z_of_int c, cells))
    end else raise (Bad ("argument: " ^ s))
  else raise (Bad ("argument: " ^ s))

let show_flt = function
  | None -> "nan"
  | Some q ->
    (match q_ticks q with
     | Some t -> string_of_z t
     | None -> let r = q_red q in string_of_z r.qnum ^ "/" ^ string_of_pos r.qden)

let show_cell = function
  | VInt z -> string_of_z z
  | VBool b -> if b then "1" else "0"
  | VFlt q -> show_flt q

let kind_char = function DInt -> "I" | DBool -> "B" | DFlt -> "F"

let show_value = function
  | Undef -> "undef"
  | Sc (VInt z) -> "i:" ^ string_of_z z
  | Sc (VBool b) -> if b then "b:1" else "b:0"
  | Sc (VFlt q) -> "f:" ^ show_flt q
  | Ar (A1 (dt, d)) -> kind_char dt ^ "[" ^ String.concat "," (List.map show_cell d) ^ "]"
  | Ar (A2 (dt, r, c, d)) ->
    kind_char dt ^ "2:" ^ string_of_z c ^ ":" ^ string_of_z r ^ "[" ^ String.concat "," (List.map show_cell d) ^ "]"

let () =
  let default_fuel = 200000 in
  try
    while true do
      let line = String.trim (input_line stdin) in
      if line <> "" then begin
        (try
           let toks = List.filter (fun t -> t <> "") (String.split_on_char ' ' line) in
           let fuel, toks =
             match toks with
             | t :: r when String.length t > 5 && String.sub t 0 5 = "fuel=" ->
               parse_int (String.sub t 5 (String.length t - 5)), r
             | _ -> default_fuel, toks in
           match toks with
           | [] -> raise (Bad "empty case")
           | name :: args ->
             let vs = List.map parse_arg args in
             (match run_kernel (nat_of_int fuel O) (chars name) vs with
              | None -> print_endline ("BAD unknown kernel " ^ name)
              | Some (Return rs) -> print_endline (String.concat " " ("OK" :: List.map show_value rs))
              | Some (Err (OOB s)) -> Printf.printf "ERR OOB %d\n" (int_of_nat s)
              | Some (Err (Uninit x)) -> Printf.printf "ERR UNINIT %s\n" (string_of_chars x)
              | Some OutOfFuel -> print_endline "FUEL"
              | Some (Normal _) | Some (Break _) -> print_endline "OK")
         with Bad m -> print_endline ("BAD " ^ m));
        flush stdout
      end
    done
  with End_of_file -> ()
