(* Driver for the extracted C18 model: one case per line on stdin, one result per line on stdout.
   line := op TAB arg TAB arg ...   arg := space-separated decimal integers; result fields separated by '|'.
   trim mode: 0 = left, 1 = right, 2 = both. *)
open Model_c18

let rec pos_of_int n = if n = 1 then XH else if n land 1 = 0 then XO (pos_of_int (n lsr 1)) else XI (pos_of_int (n lsr 1))
let z_of_int n = if n = 0 then Z0 else if n > 0 then Zpos (pos_of_int n) else Zneg (pos_of_int (-n))
let rec int_of_pos = function XH -> 1 | XO p -> 2 * int_of_pos p | XI p -> 2 * int_of_pos p + 1
let int_of_z = function Z0 -> 0 | Zpos p -> int_of_pos p | Zneg p -> - (int_of_pos p)
let rec nat_of_int n = if n <= 0 then O else S (nat_of_int (n - 1))
let rec int_of_nat = function O -> 0 | S n -> 1 + int_of_nat n

let ints s = List.filter (fun x -> x <> "") (String.split_on_char ' ' s) |> List.map int_of_string
let zs s = List.map z_of_int (ints s)
let rec pairs = function a :: b :: r -> (a, b) :: pairs r | _ -> []
let iset s = pairs (zs s)
let out_z l = String.concat " " (List.map (fun z -> string_of_int (int_of_z z)) l)
let mode s = match List.hd (ints s) with 0 -> TLeft | 1 -> TRight | _ -> TBoth
let rec take n l = if n <= 0 then [] else match l with [] -> [] | x :: r -> x :: take (n - 1) r
let rec drop n l = if n <= 0 then l else match l with [] -> [] | _ :: r -> drop (n - 1) r

let run op a =
  let g i = List.nth a i in
  match op with
  | "conv" -> out_z (conv (zs (g 0)) (zs (g 1)))
  | "window" -> out_z (conv_window (mode (g 0)) (zs (g 2)) (zs (g 1)))
  | "cut" -> let (c0, c1) = cut (mode (g 0)) (nat_of_int (List.hd (ints (g 1)))) (nat_of_int (List.hd (ints (g 2)))) in
      string_of_int (int_of_nat c0) ^ " " ^ string_of_int (int_of_nat c1)
  | "convolve" -> out_z (convolve_epochs (zs (g 1)) (zs (g 2)) (iset (g 3)) (zs (g 4)) (mode (g 0)))
  | "convolve_arg" -> let (t, o) = convolve_arg (zs (g 1)) (zs (g 2)) (iset (g 3)) (zs (g 4)) (mode (g 0)) in
      out_z t ^ "|" ^ out_z o
  | "frame" ->   (* mode, ts, ep, "nc nk", then nc data columns, then nk kernel columns *)
      let nc, nk = (match ints (g 3) with [x; y] -> (x, y) | _ -> failwith "frame") in
      let rest = drop 4 a in
      let cols = List.map zs (take nc rest) and kerns = List.map zs (take nk (drop nc rest)) in
      let r = convolve_frame (zs (g 1)) cols (iset (g 2)) kerns (mode (g 0)) in
      String.concat "|" (List.map out_z (List.concat r))
  | "smooth" -> out_z (smooth_epochs (zs (g 0)) (zs (g 1)) (iset (g 2)) (zs (g 3)))
  | "sinc_kernels" -> let u = List.hd (zs (g 0)) in
      out_z (sinc_highpass u (zs (g 1))) ^ "|" ^ out_z (sinc_bandstop u (zs (g 1)) (zs (g 2))) ^ "|" ^ out_z (sinc_bandpass u (zs (g 1)) (zs (g 2)))
  | "sinc" -> out_z (sinc_filter (zs (g 0)) (zs (g 1)) (iset (g 2)) (zs (g 3)))
  | "butter_probe" -> out_z (butter_probe (zs (g 0)) (zs (g 1)) (iset (g 2)))
  | _ -> "ERR unknown op " ^ op

let () =
  try
    while true do
      let line = input_line stdin in
      match String.split_on_char '\t' line with
      | [] -> print_endline "ERR empty"
      | op :: args -> print_endline (try run op args with e -> "ERR " ^ Printexc.to_string e)
    done
  with End_of_file -> ()
