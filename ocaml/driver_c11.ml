(* Driver for the extracted C11 model (Model/Npz.v): one case per line on stdin, one result per line on stdout.
   line   := op TAB arg TAB arg ...      arg := space-separated decimal integers (possibly none)
   ops    := ts | tsd | tensor | frame | iset | group | tables        (see harness/props/c11.py for the encodings)
   result := <canonical description of load (save x)> '#' <comma-separated keys written>  |  "none#..." *)
open Model_c11

let rec pos_of_int n = if n = 1 then XH else if n land 1 = 0 then XO (pos_of_int (n lsr 1)) else XI (pos_of_int (n lsr 1))
let z_of_int n = if n = 0 then Z0 else if n > 0 then Zpos (pos_of_int n) else Zneg (pos_of_int (-n))
let rec int_of_pos = function XH -> 1 | XO p -> 2 * int_of_pos p | XI p -> 2 * int_of_pos p + 1
let int_of_z = function Z0 -> 0 | Zpos p -> int_of_pos p | Zneg p -> - (int_of_pos p)
let rec nat_of_int n = if n <= 0 then O else S (nat_of_int (n - 1))
let rec int_of_nat = function O -> 0 | S n -> 1 + int_of_nat n

let ints s = List.filter (fun x -> x <> "") (Stdlib.String.split_on_char ' ' s) |> List.map int_of_string
let zs s = List.map z_of_int (ints s)
let rec pairs = function a :: b :: r -> (a, b) :: pairs r | _ -> []
let iset s = pairs (zs s)
let out_ints l = Stdlib.String.concat " " (List.map string_of_int l)
let out_z l = out_ints (List.map int_of_z l)
let out_iset l = out_z (List.concat_map (fun (a, b) -> [a; b]) l)

(* Coq strings <-> OCaml strings *)
let ascii_of_char c =
  let n = Char.code c in
  let b i = (n lsr i) land 1 = 1 in
  Ascii (b 0, b 1, b 2, b 3, b 4, b 5, b 6, b 7)
let char_of_ascii (Ascii (b0, b1, b2, b3, b4, b5, b6, b7)) =
  let v b i = if b then 1 lsl i else 0 in
  Char.chr (v b0 0 + v b1 1 + v b2 2 + v b3 3 + v b4 4 + v b5 5 + v b6 6 + v b7 7)
let coq_str s =
  let r = ref EmptyString in
  for i = Stdlib.String.length s - 1 downto 0 do r := String (ascii_of_char s.[i], !r) done;
  !r
let rec ml_str = function EmptyString -> "" | String (a, r) -> Stdlib.String.make 1 (char_of_ascii a) ^ ml_str r

let nan_code = -1000000007
let dtype_of_int = function 0 -> DInt | 1 -> DFloat | _ -> DBool
let int_of_dtype = function DInt -> 0 | DFloat -> 1 | DBool -> 2

let rec chunks n l =
  if l = [] then [] else
  if n = 0 then [] else
  let rec take k l acc = if k = 0 then (List.rev acc, l) else match l with [] -> (List.rev acc, []) | x :: r -> take (k - 1) r (x :: acc) in
  let (a, r) = take n l [] in a :: chunks n r
let rows_of nrows width flat = if width = 0 then List.init nrows (fun _ -> []) else chunks width flat

(* labels: (kind, code) pairs; kind 0 = integer label, 1 = the string "s<code>", 2 = the decimal string of code *)
let label_of (k, c) = match k with 0 -> LInt (z_of_int c) | 1 -> LStr (coq_str ("s" ^ string_of_int c)) | _ -> LStr (coq_str (string_of_int c))
let enc_str s =
  let n = Stdlib.String.length s in
  if n >= 2 && s.[0] = 's' && (match int_of_string_opt (Stdlib.String.sub s 1 (n - 1)) with Some _ -> true | None -> false)
  then [1; int_of_string (Stdlib.String.sub s 1 (n - 1))]
  else match int_of_string_opt s with Some v -> [2; v] | None -> [3; n]
let enc_label = function LInt z -> [0; int_of_z z] | LStr s -> enc_str (ml_str s)
let labels s = List.map label_of (pairs (ints s))
let out_labels l = out_ints (List.concat_map enc_label l)

(* metadata: name n (kind value)*n ... ; name code c = column "m<c>"; cell kind 0 int, 1 float, 2 str "s<value>" *)
let rec meta_of = function
  | [] -> []
  | name :: n :: r ->
      let rec take k l acc = if k = 0 then (List.rev acc, l) else match l with kd :: v :: r -> take (k - 1) r ((kd, v) :: acc) | _ -> (List.rev acc, []) in
      let (cells, rest) = take n r [] in
      let cell (kd, v) = match kd with 0 -> MInt (z_of_int v) | 1 -> MFlt (z_of_int v) | _ -> MStr (coq_str ("s" ^ string_of_int v)) in
      (coq_str ("m" ^ string_of_int name), List.map cell cells) :: meta_of rest
  | _ -> []
let enc_cell = function MInt z -> [0; int_of_z z] | MFlt z -> [1; int_of_z z] | MStr s -> (match enc_str (ml_str s) with [1; v] -> [2; v] | _ -> [3; 0])
let enc_name s = let s = ml_str s in
  let n = Stdlib.String.length s in
  if n >= 2 && s.[0] = 'm' then (match int_of_string_opt (Stdlib.String.sub s 1 (n - 1)) with Some v -> v | None -> -1) else -1
let out_meta m = out_ints (List.concat_map (fun (name, cells) -> enc_name name :: List.length cells :: List.concat_map enc_cell cells) m)

(* group members: key kind n t1..tn [d1..dn]  (kind 0 = Ts, 1 = Tsd; NaN = nan_code) *)
let rec members_of = function
  | [] -> []
  | key :: kind :: n :: r ->
      let rec take k l acc = if k = 0 then (List.rev acc, l) else match l with x :: r -> take (k - 1) r (x :: acc) | [] -> (List.rev acc, []) in
      let (t, r1) = take n r [] in
      if kind = 0 then (z_of_int key, MTs (List.map z_of_int t)) :: members_of r1
      else
        let (d, r2) = take n r1 [] in
        (z_of_int key, MTsd (List.map2 (fun a b -> (z_of_int a, if b = nan_code then None else Some (z_of_int b))) t d)) :: members_of r2
  | _ -> []
let enc_member (k, m) = match m with
  | MTs t -> int_of_z k :: 0 :: List.length t :: List.map int_of_z t
  | MTsd s -> int_of_z k :: 1 :: List.length s :: (List.map (fun (t, _) -> int_of_z t) s @ List.map (fun (_, d) -> match d with None -> nan_code | Some v -> int_of_z v) s)
let out_members l = out_ints (List.concat_map enc_member l)

let describe = function
  | None -> "none"
  | Some (OTs x) -> Stdlib.String.concat "|" ["Ts"; out_z x.ts_t; out_iset x.ts_sup]
  | Some (OTsd x) -> Stdlib.String.concat "|" ["Tsd"; out_z x.d_t; string_of_int (int_of_dtype x.d_dt); out_z (List.concat x.d_v); out_iset x.d_sup]
  | Some (OTensor x) -> Stdlib.String.concat "|" ["TsdTensor"; out_z x.d_t; string_of_int (int_of_dtype x.d_dt);
                                                  out_ints (List.map int_of_nat x.d_shape); out_z (List.concat x.d_v); out_iset x.d_sup]
  | Some (OFrame x) -> Stdlib.String.concat "|" ["TsdFrame"; out_z x.f_t; string_of_int (int_of_dtype x.f_dt); string_of_int (List.length x.f_cols);
                                                 out_z (List.concat x.f_v); out_iset x.f_sup; out_labels x.f_cols; out_meta x.f_meta]
  | Some (OIset x) -> Stdlib.String.concat "|" ["IntervalSet"; out_iset x.i_iv; out_meta x.i_meta]
  | Some (OGroup x) -> Stdlib.String.concat "|" ["TsGroup"; out_iset x.g_sup; out_members x.g_mem; out_meta x.g_meta]

let roundtrip sorter x =
  let f = save sorter x in
  describe (load f) ^ "#" ^ Stdlib.String.concat "," (List.map (fun (k, _) -> ml_str k) f)
  ^ "#" ^ (match detect f with Some c -> ml_str c | None -> "none")

let prod l = List.fold_left ( * ) 1 l

let run op a =
  let g i = List.nth a i in
  let one i = List.hd (ints (g i)) in
  match op with
  | "ts" -> roundtrip stable_argsort (OTs { ts_t = zs (g 0); ts_sup = iset (g 1) })
  | "tsd" -> let t = zs (g 0) in
      roundtrip stable_argsort (OTsd { d_t = t; d_dt = dtype_of_int (one 1); d_v = List.map (fun v -> [v]) (zs (g 2)); d_shape = []; d_sup = iset (g 3) })
  | "tensor" -> let t = zs (g 0) in let sh = ints (g 2) in
      roundtrip stable_argsort (OTensor { d_t = t; d_dt = dtype_of_int (one 1); d_shape = List.map nat_of_int sh;
                                          d_v = rows_of (List.length t) (prod sh) (zs (g 3)); d_sup = iset (g 4) })
  | "frame" -> let t = zs (g 0) in let nc = one 2 in
      roundtrip stable_argsort (OFrame { f_t = t; f_dt = dtype_of_int (one 1); f_v = rows_of (List.length t) nc (zs (g 3)); f_sup = iset (g 4);
                                         f_cols = labels (g 5); f_meta = meta_of (ints (g 6)) })
  | "iset" -> roundtrip stable_argsort (OIset { i_iv = iset (g 0); i_meta = meta_of (ints (g 1)) })
  | "group" -> let sorter = if one 3 = 0 then stable_argsort else reversing_argsort in
      roundtrip sorter (OGroup { g_sup = iset (g 0); g_mem = members_of (ints (g 1)); g_meta = meta_of (ints (g 2)) })
  | "tables" ->
      let b x = if x then "1" else "0" in
      Stdlib.String.concat "|" ([b keys_cover_b; b kwargs_ok_b; b group_keys_known_b; b type_written_b]
        @ List.map (fun c -> c ^ "=" ^ Stdlib.String.concat "," (List.map ml_str (wkeys (coq_str c)))) ["Ts"; "Tsd"; "TsdFrame"; "TsdTensor"; "TsGroup"; "IntervalSet"])
  | _ -> "ERR unknown op " ^ op

let () =
  try
    while true do
      let line = input_line stdin in
      match Stdlib.String.split_on_char '\t' line with
      | [] -> print_endline "ERR empty"
      | op :: args -> print_endline (try run op args with e -> "ERR " ^ Printexc.to_string e)
    done
  with End_of_file -> ()
