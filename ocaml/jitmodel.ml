
(** val negb : bool -> bool **)

let negb = function
| true -> false
| false -> true

type nat =
| O
| S of nat

(** val snd : ('a1 * 'a2) -> 'a2 **)

let snd = function
| (_, y) -> y

(** val length : 'a1 list -> nat **)

let rec length = function
| [] -> O
| _ :: l' -> S (length l')

(** val app : 'a1 list -> 'a1 list -> 'a1 list **)

let rec app l m =
  match l with
  | [] -> m
  | a :: l1 -> a :: (app l1 m)

type comparison =
| Eq
| Lt
| Gt

(** val compOpp : comparison -> comparison **)

let compOpp = function
| Eq -> Eq
| Lt -> Gt
| Gt -> Lt

module Coq__1 = struct
 (** val add : nat -> nat -> nat **)
 let rec add n m =
   match n with
   | O -> m
   | S p -> S (add p m)
end
include Coq__1

(** val sub : nat -> nat -> nat **)

let rec sub n m =
  match n with
  | O -> n
  | S k -> (match m with
            | O -> n
            | S l -> sub k l)

type positive =
| XI of positive
| XO of positive
| XH

type z =
| Z0
| Zpos of positive
| Zneg of positive

module Pos =
 struct
  type mask =
  | IsNul
  | IsPos of positive
  | IsNeg
 end

module Coq_Pos =
 struct
  (** val succ : positive -> positive **)

  let rec succ = function
  | XI p -> XO (succ p)
  | XO p -> XI p
  | XH -> XO XH

  (** val add : positive -> positive -> positive **)

  let rec add x y =
    match x with
    | XI p ->
      (match y with
       | XI q0 -> XO (add_carry p q0)
       | XO q0 -> XI (add p q0)
       | XH -> XO (succ p))
    | XO p ->
      (match y with
       | XI q0 -> XI (add p q0)
       | XO q0 -> XO (add p q0)
       | XH -> XI p)
    | XH -> (match y with
             | XI q0 -> XO (succ q0)
             | XO q0 -> XI q0
             | XH -> XO XH)

  (** val add_carry : positive -> positive -> positive **)

  and add_carry x y =
    match x with
    | XI p ->
      (match y with
       | XI q0 -> XI (add_carry p q0)
       | XO q0 -> XO (add_carry p q0)
       | XH -> XI (succ p))
    | XO p ->
      (match y with
       | XI q0 -> XO (add_carry p q0)
       | XO q0 -> XI (add p q0)
       | XH -> XO (succ p))
    | XH ->
      (match y with
       | XI q0 -> XI (succ q0)
       | XO q0 -> XO (succ q0)
       | XH -> XI XH)

  (** val pred_double : positive -> positive **)

  let rec pred_double = function
  | XI p -> XI (XO p)
  | XO p -> XI (pred_double p)
  | XH -> XH

  type mask = Pos.mask =
  | IsNul
  | IsPos of positive
  | IsNeg

  (** val succ_double_mask : mask -> mask **)

  let succ_double_mask = function
  | IsNul -> IsPos XH
  | IsPos p -> IsPos (XI p)
  | IsNeg -> IsNeg

  (** val double_mask : mask -> mask **)

  let double_mask = function
  | IsPos p -> IsPos (XO p)
  | x0 -> x0

  (** val double_pred_mask : positive -> mask **)

  let double_pred_mask = function
  | XI p -> IsPos (XO (XO p))
  | XO p -> IsPos (XO (pred_double p))
  | XH -> IsNul

  (** val sub_mask : positive -> positive -> mask **)

  let rec sub_mask x y =
    match x with
    | XI p ->
      (match y with
       | XI q0 -> double_mask (sub_mask p q0)
       | XO q0 -> succ_double_mask (sub_mask p q0)
       | XH -> IsPos (XO p))
    | XO p ->
      (match y with
       | XI q0 -> succ_double_mask (sub_mask_carry p q0)
       | XO q0 -> double_mask (sub_mask p q0)
       | XH -> IsPos (pred_double p))
    | XH -> (match y with
             | XH -> IsNul
             | _ -> IsNeg)

  (** val sub_mask_carry : positive -> positive -> mask **)

  and sub_mask_carry x y =
    match x with
    | XI p ->
      (match y with
       | XI q0 -> succ_double_mask (sub_mask_carry p q0)
       | XO q0 -> double_mask (sub_mask p q0)
       | XH -> IsPos (pred_double p))
    | XO p ->
      (match y with
       | XI q0 -> double_mask (sub_mask_carry p q0)
       | XO q0 -> succ_double_mask (sub_mask_carry p q0)
       | XH -> double_pred_mask p)
    | XH -> IsNeg

  (** val sub : positive -> positive -> positive **)

  let sub x y =
    match sub_mask x y with
    | IsPos z0 -> z0
    | _ -> XH

  (** val mul : positive -> positive -> positive **)

  let rec mul x y =
    match x with
    | XI p -> add y (XO (mul p y))
    | XO p -> XO (mul p y)
    | XH -> y

  (** val size_nat : positive -> nat **)

  let rec size_nat = function
  | XI p0 -> S (size_nat p0)
  | XO p0 -> S (size_nat p0)
  | XH -> S O

  (** val compare_cont : comparison -> positive -> positive -> comparison **)

  let rec compare_cont r x y =
    match x with
    | XI p ->
      (match y with
       | XI q0 -> compare_cont r p q0
       | XO q0 -> compare_cont Gt p q0
       | XH -> Gt)
    | XO p ->
      (match y with
       | XI q0 -> compare_cont Lt p q0
       | XO q0 -> compare_cont r p q0
       | XH -> Gt)
    | XH -> (match y with
             | XH -> r
             | _ -> Lt)

  (** val compare : positive -> positive -> comparison **)

  let compare =
    compare_cont Eq

  (** val eqb : positive -> positive -> bool **)

  let rec eqb p q0 =
    match p with
    | XI p0 -> (match q0 with
                | XI q1 -> eqb p0 q1
                | _ -> false)
    | XO p0 -> (match q0 with
                | XO q1 -> eqb p0 q1
                | _ -> false)
    | XH -> (match q0 with
             | XH -> true
             | _ -> false)

  (** val ggcdn :
      nat -> positive -> positive -> positive * (positive * positive) **)

  let rec ggcdn n a b =
    match n with
    | O -> (XH, (a, b))
    | S n0 ->
      (match a with
       | XI a' ->
         (match b with
          | XI b' ->
            (match compare a' b' with
             | Eq -> (a, (XH, XH))
             | Lt ->
               let (g, p) = ggcdn n0 (sub b' a') a in
               let (ba, aa) = p in (g, (aa, (add aa (XO ba))))
             | Gt ->
               let (g, p) = ggcdn n0 (sub a' b') b in
               let (ab, bb) = p in (g, ((add bb (XO ab)), bb)))
          | XO b0 ->
            let (g, p) = ggcdn n0 a b0 in
            let (aa, bb) = p in (g, (aa, (XO bb)))
          | XH -> (XH, (a, XH)))
       | XO a0 ->
         (match b with
          | XI _ ->
            let (g, p) = ggcdn n0 a0 b in
            let (aa, bb) = p in (g, ((XO aa), bb))
          | XO b0 -> let (g, p) = ggcdn n0 a0 b0 in ((XO g), p)
          | XH -> (XH, (a, XH)))
       | XH -> (XH, (XH, b)))

  (** val ggcd : positive -> positive -> positive * (positive * positive) **)

  let ggcd a b =
    ggcdn (Coq__1.add (size_nat a) (size_nat b)) a b

  (** val iter_op : ('a1 -> 'a1 -> 'a1) -> positive -> 'a1 -> 'a1 **)

  let rec iter_op op p a =
    match p with
    | XI p0 -> op a (iter_op op p0 (op a a))
    | XO p0 -> iter_op op p0 (op a a)
    | XH -> a

  (** val to_nat : positive -> nat **)

  let to_nat x =
    iter_op Coq__1.add x (S O)

  (** val of_succ_nat : nat -> positive **)

  let rec of_succ_nat = function
  | O -> XH
  | S x -> succ (of_succ_nat x)
 end

module Z =
 struct
  (** val double : z -> z **)

  let double = function
  | Z0 -> Z0
  | Zpos p -> Zpos (XO p)
  | Zneg p -> Zneg (XO p)

  (** val succ_double : z -> z **)

  let succ_double = function
  | Z0 -> Zpos XH
  | Zpos p -> Zpos (XI p)
  | Zneg p -> Zneg (Coq_Pos.pred_double p)

  (** val pred_double : z -> z **)

  let pred_double = function
  | Z0 -> Zneg XH
  | Zpos p -> Zpos (Coq_Pos.pred_double p)
  | Zneg p -> Zneg (XI p)

  (** val pos_sub : positive -> positive -> z **)

  let rec pos_sub x y =
    match x with
    | XI p ->
      (match y with
       | XI q0 -> double (pos_sub p q0)
       | XO q0 -> succ_double (pos_sub p q0)
       | XH -> Zpos (XO p))
    | XO p ->
      (match y with
       | XI q0 -> pred_double (pos_sub p q0)
       | XO q0 -> double (pos_sub p q0)
       | XH -> Zpos (Coq_Pos.pred_double p))
    | XH ->
      (match y with
       | XI q0 -> Zneg (XO q0)
       | XO q0 -> Zneg (Coq_Pos.pred_double q0)
       | XH -> Z0)

  (** val add : z -> z -> z **)

  let add x y =
    match x with
    | Z0 -> y
    | Zpos x' ->
      (match y with
       | Z0 -> x
       | Zpos y' -> Zpos (Coq_Pos.add x' y')
       | Zneg y' -> pos_sub x' y')
    | Zneg x' ->
      (match y with
       | Z0 -> x
       | Zpos y' -> pos_sub y' x'
       | Zneg y' -> Zneg (Coq_Pos.add x' y'))

  (** val opp : z -> z **)

  let opp = function
  | Z0 -> Z0
  | Zpos x0 -> Zneg x0
  | Zneg x0 -> Zpos x0

  (** val sub : z -> z -> z **)

  let sub m n =
    add m (opp n)

  (** val mul : z -> z -> z **)

  let mul x y =
    match x with
    | Z0 -> Z0
    | Zpos x' ->
      (match y with
       | Z0 -> Z0
       | Zpos y' -> Zpos (Coq_Pos.mul x' y')
       | Zneg y' -> Zneg (Coq_Pos.mul x' y'))
    | Zneg x' ->
      (match y with
       | Z0 -> Z0
       | Zpos y' -> Zneg (Coq_Pos.mul x' y')
       | Zneg y' -> Zpos (Coq_Pos.mul x' y'))

  (** val compare : z -> z -> comparison **)

  let compare x y =
    match x with
    | Z0 -> (match y with
             | Z0 -> Eq
             | Zpos _ -> Lt
             | Zneg _ -> Gt)
    | Zpos x' -> (match y with
                  | Zpos y' -> Coq_Pos.compare x' y'
                  | _ -> Gt)
    | Zneg x' ->
      (match y with
       | Zneg y' -> compOpp (Coq_Pos.compare x' y')
       | _ -> Lt)

  (** val sgn : z -> z **)

  let sgn = function
  | Z0 -> Z0
  | Zpos _ -> Zpos XH
  | Zneg _ -> Zneg XH

  (** val leb : z -> z -> bool **)

  let leb x y =
    match compare x y with
    | Gt -> false
    | _ -> true

  (** val ltb : z -> z -> bool **)

  let ltb x y =
    match compare x y with
    | Lt -> true
    | _ -> false

  (** val eqb : z -> z -> bool **)

  let eqb x y =
    match x with
    | Z0 -> (match y with
             | Z0 -> true
             | _ -> false)
    | Zpos p -> (match y with
                 | Zpos q0 -> Coq_Pos.eqb p q0
                 | _ -> false)
    | Zneg p -> (match y with
                 | Zneg q0 -> Coq_Pos.eqb p q0
                 | _ -> false)

  (** val max : z -> z -> z **)

  let max n m =
    match compare n m with
    | Lt -> m
    | _ -> n

  (** val min : z -> z -> z **)

  let min n m =
    match compare n m with
    | Gt -> m
    | _ -> n

  (** val abs : z -> z **)

  let abs = function
  | Zneg p -> Zpos p
  | x -> x

  (** val to_nat : z -> nat **)

  let to_nat = function
  | Zpos p -> Coq_Pos.to_nat p
  | _ -> O

  (** val of_nat : nat -> z **)

  let of_nat = function
  | O -> Z0
  | S n0 -> Zpos (Coq_Pos.of_succ_nat n0)

  (** val to_pos : z -> positive **)

  let to_pos = function
  | Zpos p -> p
  | _ -> XH

  (** val pos_div_eucl : positive -> z -> z * z **)

  let rec pos_div_eucl a b =
    match a with
    | XI a' ->
      let (q0, r) = pos_div_eucl a' b in
      let r' = add (mul (Zpos (XO XH)) r) (Zpos XH) in
      if ltb r' b
      then ((mul (Zpos (XO XH)) q0), r')
      else ((add (mul (Zpos (XO XH)) q0) (Zpos XH)), (sub r' b))
    | XO a' ->
      let (q0, r) = pos_div_eucl a' b in
      let r' = mul (Zpos (XO XH)) r in
      if ltb r' b
      then ((mul (Zpos (XO XH)) q0), r')
      else ((add (mul (Zpos (XO XH)) q0) (Zpos XH)), (sub r' b))
    | XH -> if leb (Zpos (XO XH)) b then (Z0, (Zpos XH)) else ((Zpos XH), Z0)

  (** val div_eucl : z -> z -> z * z **)

  let div_eucl a b =
    match a with
    | Z0 -> (Z0, Z0)
    | Zpos a' ->
      (match b with
       | Z0 -> (Z0, a)
       | Zpos _ -> pos_div_eucl a' b
       | Zneg b' ->
         let (q0, r) = pos_div_eucl a' (Zpos b') in
         (match r with
          | Z0 -> ((opp q0), Z0)
          | _ -> ((opp (add q0 (Zpos XH))), (add b r))))
    | Zneg a' ->
      (match b with
       | Z0 -> (Z0, a)
       | Zpos _ ->
         let (q0, r) = pos_div_eucl a' b in
         (match r with
          | Z0 -> ((opp q0), Z0)
          | _ -> ((opp (add q0 (Zpos XH))), (sub b r)))
       | Zneg b' -> let (q0, r) = pos_div_eucl a' (Zpos b') in (q0, (opp r)))

  (** val div : z -> z -> z **)

  let div a b =
    let (q0, _) = div_eucl a b in q0

  (** val modulo : z -> z -> z **)

  let modulo a b =
    let (_, r) = div_eucl a b in r

  (** val even : z -> bool **)

  let even = function
  | Z0 -> true
  | Zpos p -> (match p with
               | XO _ -> true
               | _ -> false)
  | Zneg p -> (match p with
               | XO _ -> true
               | _ -> false)

  (** val ggcd : z -> z -> z * (z * z) **)

  let ggcd a b =
    match a with
    | Z0 -> ((abs b), (Z0, (sgn b)))
    | Zpos a0 ->
      (match b with
       | Z0 -> ((abs a), ((sgn a), Z0))
       | Zpos b0 ->
         let (g, p) = Coq_Pos.ggcd a0 b0 in
         let (aa, bb) = p in ((Zpos g), ((Zpos aa), (Zpos bb)))
       | Zneg b0 ->
         let (g, p) = Coq_Pos.ggcd a0 b0 in
         let (aa, bb) = p in ((Zpos g), ((Zpos aa), (Zneg bb))))
    | Zneg a0 ->
      (match b with
       | Z0 -> ((abs a), ((sgn a), Z0))
       | Zpos b0 ->
         let (g, p) = Coq_Pos.ggcd a0 b0 in
         let (aa, bb) = p in ((Zpos g), ((Zneg aa), (Zpos bb)))
       | Zneg b0 ->
         let (g, p) = Coq_Pos.ggcd a0 b0 in
         let (aa, bb) = p in ((Zpos g), ((Zneg aa), (Zneg bb))))
 end

(** val zeq_bool : z -> z -> bool **)

let zeq_bool x y =
  match Z.compare x y with
  | Eq -> true
  | _ -> false

(** val nth : nat -> 'a1 list -> 'a1 -> 'a1 **)

let rec nth n l default =
  match n with
  | O -> (match l with
          | [] -> default
          | x :: _ -> x)
  | S m -> (match l with
            | [] -> default
            | _ :: t -> nth m t default)

(** val last : 'a1 list -> 'a1 -> 'a1 **)

let rec last l d =
  match l with
  | [] -> d
  | a :: l0 -> (match l0 with
                | [] -> a
                | _ :: _ -> last l0 d)

(** val map : ('a1 -> 'a2) -> 'a1 list -> 'a2 list **)

let rec map f = function
| [] -> []
| a :: t -> (f a) :: (map f t)

(** val flat_map : ('a1 -> 'a2 list) -> 'a1 list -> 'a2 list **)

let rec flat_map f = function
| [] -> []
| x :: t -> app (f x) (flat_map f t)

(** val fold_left : ('a1 -> 'a2 -> 'a1) -> 'a2 list -> 'a1 -> 'a1 **)

let rec fold_left f l a0 =
  match l with
  | [] -> a0
  | b :: t -> fold_left f t (f a0 b)

(** val fold_right : ('a2 -> 'a1 -> 'a1) -> 'a1 -> 'a2 list -> 'a1 **)

let rec fold_right f a0 = function
| [] -> a0
| b :: t -> f b (fold_right f a0 t)

(** val existsb : ('a1 -> bool) -> 'a1 list -> bool **)

let rec existsb f = function
| [] -> false
| a :: l0 -> (||) (f a) (existsb f l0)

(** val forallb : ('a1 -> bool) -> 'a1 list -> bool **)

let rec forallb f = function
| [] -> true
| a :: l0 -> (&&) (f a) (forallb f l0)

(** val combine : 'a1 list -> 'a2 list -> ('a1 * 'a2) list **)

let rec combine l l' =
  match l with
  | [] -> []
  | x :: tl ->
    (match l' with
     | [] -> []
     | y :: tl' -> (x, y) :: (combine tl tl'))

(** val firstn : nat -> 'a1 list -> 'a1 list **)

let rec firstn n l =
  match n with
  | O -> []
  | S n0 -> (match l with
             | [] -> []
             | a :: l0 -> a :: (firstn n0 l0))

(** val skipn : nat -> 'a1 list -> 'a1 list **)

let rec skipn n l =
  match n with
  | O -> l
  | S n0 -> (match l with
             | [] -> []
             | _ :: l0 -> skipn n0 l0)

(** val repeat : 'a1 -> nat -> 'a1 list **)

let rec repeat x = function
| O -> []
| S k -> x :: (repeat x k)

(** val eqb0 : char list -> char list -> bool **)

let rec eqb0 s1 s2 =
  match s1 with
  | [] -> (match s2 with
           | [] -> true
           | _::_ -> false)
  | c1::s1' ->
    (match s2 with
     | [] -> false
     | c2::s2' -> if (=) c1 c2 then eqb0 s1' s2' else false)

type q = { qnum : z; qden : positive }

(** val inject_Z : z -> q **)

let inject_Z x =
  { qnum = x; qden = XH }

(** val qcompare : q -> q -> comparison **)

let qcompare p q0 =
  Z.compare (Z.mul p.qnum (Zpos q0.qden)) (Z.mul q0.qnum (Zpos p.qden))

(** val qeq_bool : q -> q -> bool **)

let qeq_bool x y =
  zeq_bool (Z.mul x.qnum (Zpos y.qden)) (Z.mul y.qnum (Zpos x.qden))

(** val qle_bool : q -> q -> bool **)

let qle_bool x y =
  Z.leb (Z.mul x.qnum (Zpos y.qden)) (Z.mul y.qnum (Zpos x.qden))

(** val qplus : q -> q -> q **)

let qplus x y =
  { qnum = (Z.add (Z.mul x.qnum (Zpos y.qden)) (Z.mul y.qnum (Zpos x.qden)));
    qden = (Coq_Pos.mul x.qden y.qden) }

(** val qmult : q -> q -> q **)

let qmult x y =
  { qnum = (Z.mul x.qnum y.qnum); qden = (Coq_Pos.mul x.qden y.qden) }

(** val qopp : q -> q **)

let qopp x =
  { qnum = (Z.opp x.qnum); qden = x.qden }

(** val qminus : q -> q -> q **)

let qminus x y =
  qplus x (qopp y)

(** val qinv : q -> q **)

let qinv x =
  match x.qnum with
  | Z0 -> { qnum = Z0; qden = XH }
  | Zpos p -> { qnum = (Zpos x.qden); qden = p }
  | Zneg p -> { qnum = (Zneg x.qden); qden = p }

(** val qdiv : q -> q -> q **)

let qdiv x y =
  qmult x (qinv y)

(** val qred : q -> q **)

let qred q0 =
  let { qnum = q1; qden = q2 } = q0 in
  let (r1, r2) = snd (Z.ggcd q1 (Zpos q2)) in
  { qnum = r1; qden = (Z.to_pos r2) }

type sval =
| VInt of z
| VFlt of q option
| VBool of bool

type dtype =
| DInt
| DFlt
| DBool

type arr =
| A1 of dtype * sval list
| A2 of dtype * z * z * sval list

type value =
| Undef
| Sc of sval
| Ar of arr

type var = char list

type site = nat

type binop =
| Add
| Sub
| Mul
| Div
| FloorDiv
| Mod
| Min
| Max

type cmpop =
| Lt0
| Le
| Gt0
| Ge
| Eq0
| Ne

type unop =
| Neg
| Abs
| ToInt
| ToFlt
| Ceil
| Floor
| Round9
| IsNan

type expr =
| EVar of var
| EInt of z
| EFlt of q
| ENan
| EBool of bool
| EBin of binop * expr * expr
| ECmp of cmpop * expr * expr
| EAnd of expr * expr
| EOr of expr * expr
| ENot of expr
| EIf of expr * expr * expr
| EUn of unop * expr
| ELen of var
| ECols of var
| ERead1 of site * var * expr
| ERead2 of site * var * expr * expr
| ESum of var * expr * expr
| ESumCol of site * var * expr * expr * z
| ESumAll of var
| ESumDiff of site * var * var
| EAnyColProdPos of site * var * z * z

type arg =
| AVar of var
| AExp of expr

type target =
| TVar of var
| TCol of site * var * z

type stmt =
| SSkip
| SAssign of var * expr
| SStore1 of site * var * expr * expr
| SStore2 of site * var * expr * expr * expr
| SNew1 of var * dtype * expr * expr
| SNew2 of var * dtype * expr * expr * expr
| SSlice of var * var * expr * expr
| SGather of site * var * var * var
| SMask of site * var * var * var
| SCmpArr of var * cmpop * var * expr
| SArgsort of var * var
| SCumsum of var * var
| SArrDiv of site * var * var * var
| SArrDivSc of var * var * expr
| SArrScale of var * expr
| SShiftLeft of var
| SColSums of var * var
| SColUpd of site * var * expr * binop * var option * expr
| SCall of nat * target list * char list * arg list
| SSeq of stmt * stmt
| SIf of nat * expr * stmt * stmt
| SWhile of nat * expr * stmt
| SFor of nat * var * expr * expr * stmt
| SForRun of nat * var * z * z * stmt
| SBreak
| SReturn of arg list

type func = { fname : char list; fparams : var list; flocals : var list;
              fbody : stmt }

(** val seq : stmt list -> stmt **)

let rec seq = function
| [] -> SSkip
| s :: r -> (match r with
             | [] -> s
             | _ :: _ -> SSeq (s, (seq r)))

(** val qfloor : q -> z **)

let qfloor x =
  let { qnum = n; qden = d } = x in Z.div n (Zpos d)

(** val qceiling : q -> z **)

let qceiling x =
  Z.opp (qfloor (qopp x))

(** val qtrunc : q -> z **)

let qtrunc q0 =
  if qle_bool { qnum = Z0; qden = XH } q0 then qfloor q0 else qceiling q0

(** val qz : z -> q **)

let qz =
  inject_Z

(** val to_int : sval -> z **)

let to_int = function
| VInt z0 -> z0
| VFlt q0 -> (match q0 with
              | Some q1 -> qtrunc q1
              | None -> Z0)
| VBool b -> if b then Zpos XH else Z0

(** val to_flt : sval -> q option **)

let to_flt = function
| VInt z0 -> Some (qz z0)
| VFlt q0 -> q0
| VBool b -> Some (qz (if b then Zpos XH else Z0))

(** val truthy : sval -> bool **)

let truthy = function
| VInt z0 -> negb (Z.eqb z0 Z0)
| VFlt q0 ->
  (match q0 with
   | Some q1 -> negb (qeq_bool q1 { qnum = Z0; qden = XH })
   | None -> true)
| VBool b -> b

(** val is_flt : sval -> bool **)

let is_flt = function
| VFlt _ -> true
| _ -> false

(** val coerce : dtype -> sval -> sval **)

let coerce dt v =
  match dt with
  | DInt -> VInt (to_int v)
  | DFlt -> VFlt (to_flt v)
  | DBool -> VBool (truthy v)

(** val f2 : (q -> q -> q option) -> q option -> q option -> q option **)

let f2 f a b =
  match a with
  | Some x -> (match b with
               | Some y -> f x y
               | None -> None)
  | None -> None

(** val qsome : q -> q option **)

let qsome q0 =
  Some (qred q0)

(** val fadd : q option -> q option -> q option **)

let fadd =
  f2 (fun x y -> qsome (qplus x y))

(** val fsub : q option -> q option -> q option **)

let fsub =
  f2 (fun x y -> qsome (qminus x y))

(** val fmul : q option -> q option -> q option **)

let fmul =
  f2 (fun x y -> qsome (qmult x y))

(** val fdiv : q option -> q option -> q option **)

let fdiv =
  f2 (fun x y ->
    if qeq_bool y { qnum = Z0; qden = XH } then None else qsome (qdiv x y))

(** val ffloordiv : q option -> q option -> q option **)

let ffloordiv =
  f2 (fun x y ->
    if qeq_bool y { qnum = Z0; qden = XH }
    then None
    else qsome (qz (qfloor (qdiv x y))))

(** val fmod : q option -> q option -> q option **)

let fmod =
  f2 (fun x y ->
    if qeq_bool y { qnum = Z0; qden = XH }
    then None
    else qsome (qminus x (qmult y (qz (qfloor (qdiv x y))))))

(** val fmin : q option -> q option -> q option **)

let fmin =
  f2 (fun x y -> Some (if qle_bool x y then x else y))

(** val fmax : q option -> q option -> q option **)

let fmax =
  f2 (fun x y -> Some (if qle_bool x y then y else x))

(** val binop_int : binop -> z -> z -> sval **)

let binop_int op x y =
  match op with
  | Add -> VInt (Z.add x y)
  | Sub -> VInt (Z.sub x y)
  | Mul -> VInt (Z.mul x y)
  | Div -> VFlt (fdiv (Some (qz x)) (Some (qz y)))
  | FloorDiv -> VInt (Z.div x y)
  | Mod -> VInt (Z.modulo x y)
  | Min -> VInt (Z.min x y)
  | Max -> VInt (Z.max x y)

(** val binop_flt : binop -> q option -> q option -> sval **)

let binop_flt op x y =
  VFlt
    (match op with
     | Add -> fadd x y
     | Sub -> fsub x y
     | Mul -> fmul x y
     | Div -> fdiv x y
     | FloorDiv -> ffloordiv x y
     | Mod -> fmod x y
     | Min -> fmin x y
     | Max -> fmax x y)

(** val eval_binop : binop -> sval -> sval -> sval **)

let eval_binop op a b =
  if (||) (is_flt a) (is_flt b)
  then binop_flt op (to_flt a) (to_flt b)
  else binop_int op (to_int a) (to_int b)

(** val cmp_int : cmpop -> z -> z -> bool **)

let cmp_int op x y =
  match op with
  | Lt0 -> Z.ltb x y
  | Le -> Z.leb x y
  | Gt0 -> Z.ltb y x
  | Ge -> Z.leb y x
  | Eq0 -> Z.eqb x y
  | Ne -> negb (Z.eqb x y)

(** val cmp_q : cmpop -> q -> q -> bool **)

let cmp_q op x y =
  match op with
  | Lt0 -> negb (qle_bool y x)
  | Le -> qle_bool x y
  | Gt0 -> negb (qle_bool x y)
  | Ge -> qle_bool y x
  | Eq0 -> qeq_bool x y
  | Ne -> negb (qeq_bool x y)

(** val cmp_flt : cmpop -> q option -> q option -> bool **)

let cmp_flt op x y =
  match x with
  | Some p ->
    (match y with
     | Some q0 -> cmp_q op p q0
     | None -> (match op with
                | Ne -> true
                | _ -> false))
  | None -> (match op with
             | Ne -> true
             | _ -> false)

(** val eval_cmp : cmpop -> sval -> sval -> bool **)

let eval_cmp op a b =
  if (||) (is_flt a) (is_flt b)
  then cmp_flt op (to_flt a) (to_flt b)
  else cmp_int op (to_int a) (to_int b)

(** val q_rhe : q -> z **)

let q_rhe q0 =
  let f = qfloor q0 in
  (match qcompare (qminus q0 (qz f)) { qnum = (Zpos XH); qden = (XO XH) } with
   | Eq -> if Z.even f then f else Z.add f (Zpos XH)
   | Lt -> f
   | Gt -> Z.add f (Zpos XH))

(** val e9 : positive **)

let e9 =
  XO (XO (XO (XO (XO (XO (XO (XO (XO (XI (XO (XI (XO (XO (XI (XI (XO (XI (XO
    (XI (XI (XO (XO (XI (XI (XI (XO (XI (XI XH))))))))))))))))))))))))))))

(** val round9 : q -> q **)

let round9 q0 =
  qred { qnum = (q_rhe (qmult q0 { qnum = (Zpos e9); qden = XH })); qden =
    e9 }

(** val eval_unop : unop -> sval -> sval **)

let eval_unop op a =
  match op with
  | Neg ->
    (match a with
     | VFlt q0 -> VFlt (fsub (Some { qnum = Z0; qden = XH }) q0)
     | _ -> VInt (Z.opp (to_int a)))
  | Abs ->
    (match a with
     | VFlt q0 ->
       (match q0 with
        | Some q1 ->
          VFlt (Some
            (if qle_bool { qnum = Z0; qden = XH } q1
             then q1
             else qred (qopp q1)))
        | None -> VFlt None)
     | _ -> VInt (Z.abs (to_int a)))
  | ToInt -> VInt (to_int a)
  | ToFlt -> VFlt (to_flt a)
  | Ceil ->
    (match a with
     | VFlt q0 ->
       (match q0 with
        | Some q1 -> VFlt (Some (qz (qceiling q1)))
        | None -> a)
     | _ -> VFlt (to_flt a))
  | Floor ->
    (match a with
     | VFlt q0 ->
       (match q0 with
        | Some q1 -> VFlt (Some (qz (qfloor q1)))
        | None -> a)
     | _ -> VFlt (to_flt a))
  | Round9 ->
    (match a with
     | VFlt q0 ->
       (match q0 with
        | Some q1 -> VFlt (Some (round9 q1))
        | None -> a)
     | _ -> VFlt (to_flt a))
  | IsNan ->
    (match a with
     | VFlt q0 -> (match q0 with
                   | Some _ -> VBool false
                   | None -> VBool true)
     | _ -> VBool false)

(** val zlen : 'a1 list -> z **)

let zlen l =
  Z.of_nat (length l)

(** val dflt : sval **)

let dflt =
  VInt Z0

(** val nthZ : sval list -> z -> sval **)

let nthZ d i =
  nth (Z.to_nat i) d dflt

(** val upd_nth : nat -> 'a1 list -> 'a1 -> 'a1 list **)

let rec upd_nth n l v =
  match l with
  | [] -> []
  | x :: r -> (match n with
               | O -> v :: r
               | S k -> x :: (upd_nth k r v))

(** val updZ : sval list -> z -> sval -> sval list **)

let updZ d i v =
  upd_nth (Z.to_nat i) d v

(** val alen : arr -> z **)

let alen = function
| A1 (_, d) -> zlen d
| A2 (_, r, _, _) -> r

(** val acols : arr -> z **)

let acols = function
| A1 (_, _) -> Z0
| A2 (_, _, c, _) -> c

(** val adt : arr -> dtype **)

let adt = function
| A1 (dt, _) -> dt
| A2 (dt, _, _, _) -> dt

(** val adata : arr -> sval list **)

let adata = function
| A1 (_, d) -> d
| A2 (_, _, _, d) -> d

(** val norm_bound : z -> z -> z **)

let norm_bound n b =
  Z.max Z0 (Z.min n (if Z.ltb b Z0 then Z.add b n else b))

(** val slice : 'a1 list -> z -> z -> 'a1 list **)

let slice l lo hi =
  firstn (Z.to_nat (Z.sub hi lo)) (skipn (Z.to_nat lo) l)

(** val pyslice : 'a1 list -> z -> z -> 'a1 list **)

let pyslice l lo hi =
  let n = zlen l in slice l (norm_bound n lo) (norm_bound n hi)

(** val sum_int : sval list -> z **)

let sum_int l =
  fold_right (fun v acc -> Z.add (to_int v) acc) Z0 l

(** val sum_flt : sval list -> q option **)

let sum_flt l =
  fold_left (fun acc v -> fadd acc (to_flt v)) l (Some { qnum = Z0; qden =
    XH })

(** val sum_cells : dtype -> sval list -> sval **)

let sum_cells dt l =
  match dt with
  | DFlt -> VFlt (sum_flt l)
  | _ -> VInt (sum_int l)

(** val zrange : z -> nat -> z list **)

let rec zrange lo = function
| O -> []
| S k -> lo :: (zrange (Z.add lo (Zpos XH)) k)

(** val column : z -> z -> sval list -> z -> sval list **)

let column r c d j =
  map (fun i -> nthZ d (Z.add (Z.mul i c) j)) (zrange Z0 (Z.to_nat r))

(** val set_col : z -> z -> z -> sval list -> sval list -> sval list **)

let set_col r c j d col =
  flat_map (fun i ->
    map (fun jj ->
      if Z.eqb jj j then nthZ col i else nthZ d (Z.add (Z.mul i c) jj))
      (zrange Z0 (Z.to_nat c))) (zrange Z0 (Z.to_nat r))

(** val gather : sval list -> sval list -> sval list **)

let gather d idx =
  map (fun v -> nthZ d (to_int v)) idx

(** val idx_ok : z -> sval list -> bool **)

let idx_ok n idx =
  forallb (fun v -> (&&) (Z.leb Z0 (to_int v)) (Z.ltb (to_int v) n)) idx

(** val maskl : sval list -> sval list -> sval list **)

let rec maskl d m =
  match d with
  | [] -> []
  | x :: r ->
    (match m with
     | [] -> []
     | b :: s -> if truthy b then x :: (maskl r s) else maskl r s)

(** val key_le : q option -> q option -> bool **)

let key_le a b =
  match a with
  | Some x -> (match b with
               | Some y -> qle_bool x y
               | None -> true)
  | None -> (match b with
             | Some _ -> false
             | None -> true)

(** val ins : q option -> z -> (q option * z) list -> (q option * z) list **)

let rec ins k i l = match l with
| [] -> (k, i) :: []
| p :: r ->
  let (k', i') = p in
  if key_le k' k then (k', i') :: (ins k i r) else (k, i) :: l

(** val isort : (q option * z) list -> (q option * z) list **)

let rec isort = function
| [] -> []
| p :: r -> let (k, i) = p in ins k i (isort r)

(** val argsort : sval list -> sval list **)

let argsort d =
  map (fun p -> VInt (snd p))
    (isort (combine (map to_flt d) (zrange Z0 (length d))))

(** val cumsum_int : z -> sval list -> sval list **)

let rec cumsum_int acc = function
| [] -> []
| v :: r ->
  (VInt (Z.add acc (to_int v))) :: (cumsum_int (Z.add acc (to_int v)) r)

(** val cumsum_flt : q option -> sval list -> sval list **)

let rec cumsum_flt acc = function
| [] -> []
| v :: r -> let a = fadd acc (to_flt v) in (VFlt a) :: (cumsum_flt a r)

(** val map2 : ('a1 -> 'a2 -> 'a3) -> 'a1 list -> 'a2 list -> 'a3 list **)

let rec map2 f l m =
  match l with
  | [] -> []
  | x :: r -> (match m with
               | [] -> []
               | y :: s -> (f x y) :: (map2 f r s))

(** val cmp_cells : cmpop -> sval -> sval list -> sval list **)

let cmp_cells op v d =
  map (fun c -> VBool (eval_cmp op c v)) d

(** val div_cells_sc : sval -> sval list -> sval list **)

let div_cells_sc v d =
  map (fun p -> VFlt (fdiv (to_flt p) (to_flt v))) d

(** val div_cells : sval list -> sval list -> sval list **)

let div_cells a b =
  map2 (fun p q0 -> VFlt (fdiv (to_flt p) (to_flt q0))) a b

(** val coerce_cells : dtype -> sval list -> sval list **)

let coerce_cells dt d =
  map (coerce dt) d

(** val scale_cells : dtype -> sval -> sval list -> sval list **)

let scale_cells dt v d =
  map (fun c -> coerce dt (eval_binop Mul c v)) d

(** val shift_left : sval list -> sval list **)

let shift_left d = match d with
| [] -> []
| _ :: r -> app r ((last d dflt) :: [])

(** val col_sums : dtype -> z -> z -> sval list -> sval list **)

let col_sums dt n c d =
  map (fun j -> sum_cells dt (column n c d j)) (zrange Z0 (Z.to_nat c))

(** val col_upd :
    dtype -> z -> z -> z -> sval list -> binop -> sval list option -> sval ->
    sval list **)

let col_upd dt n c j d op h v =
  set_col n c j d
    (map (fun i ->
      coerce dt
        (eval_binop op (nthZ d (Z.add (Z.mul i c) j))
          (match h with
           | Some hd -> eval_binop Mul (nthZ hd i) v
           | None -> v))) (zrange Z0 (Z.to_nat n)))

type store = (var * value) list

(** val get : store -> var -> value **)

let rec get st x =
  match st with
  | [] -> Undef
  | p :: r -> let (y, v) = p in if eqb0 x y then v else get r x

(** val set : store -> var -> value -> store **)

let rec set st x v =
  match st with
  | [] -> (x, v) :: []
  | p :: r ->
    let (y, w) = p in if eqb0 x y then (y, v) :: r else (y, w) :: (set r x v)

type err =
| OOB of site
| Uninit of var

type 'a res =
| Ok of 'a
| Er of err

(** val bind : 'a1 res -> ('a1 -> 'a2 res) -> 'a2 res **)

let bind r f =
  match r with
  | Ok a -> f a
  | Er e -> Er e

(** val get_sc : store -> var -> sval res **)

let get_sc st x =
  match get st x with
  | Sc v -> Ok v
  | _ -> Er (Uninit x)

(** val get_arr : store -> var -> arr res **)

let get_arr st x =
  match get st x with
  | Ar a -> Ok a
  | _ -> Er (Uninit x)

(** val in_range : z -> z -> bool **)

let in_range i n =
  (&&) (Z.leb Z0 i) (Z.ltb i n)

(** val chk : bool -> site -> unit res **)

let chk b s =
  if b then Ok () else Er (OOB s)

(** val slice_rows : arr -> z -> z -> arr **)

let slice_rows a lo hi =
  match a with
  | A1 (dt, d) -> A1 (dt, (pyslice d lo hi))
  | A2 (dt, r, c, d) ->
    let l = norm_bound r lo in
    let h = norm_bound r hi in
    A2 (dt, (Z.max Z0 (Z.sub h l)), c, (slice d (Z.mul l c) (Z.mul h c)))

(** val eval : expr -> store -> sval res **)

let rec eval e st =
  match e with
  | EVar x -> get_sc st x
  | EInt z0 -> Ok (VInt z0)
  | EFlt q0 -> Ok (VFlt (Some q0))
  | ENan -> Ok (VFlt None)
  | EBool b -> Ok (VBool b)
  | EBin (op, a, b) ->
    bind (eval a st) (fun va ->
      bind (eval b st) (fun vb -> Ok (eval_binop op va vb)))
  | ECmp (op, a, b) ->
    bind (eval a st) (fun va ->
      bind (eval b st) (fun vb -> Ok (VBool (eval_cmp op va vb))))
  | EAnd (a, b) ->
    bind (eval a st) (fun va -> if truthy va then eval b st else Ok va)
  | EOr (a, b) ->
    bind (eval a st) (fun va -> if truthy va then Ok va else eval b st)
  | ENot a -> bind (eval a st) (fun va -> Ok (VBool (negb (truthy va))))
  | EIf (c, a, b) ->
    bind (eval c st) (fun vc -> if truthy vc then eval a st else eval b st)
  | EUn (op, a) -> bind (eval a st) (fun va -> Ok (eval_unop op va))
  | ELen a -> bind (get_arr st a) (fun r -> Ok (VInt (alen r)))
  | ECols a -> bind (get_arr st a) (fun r -> Ok (VInt (acols r)))
  | ERead1 (s, a, i) ->
    bind (get_arr st a) (fun r ->
      bind (eval i st) (fun vi ->
        let k = to_int vi in
        bind (chk (in_range k (alen r)) s) (fun _ ->
          match r with
          | A1 (dt, d) -> Ok (coerce dt (nthZ d k))
          | A2 (_, _, _, _) -> Er (OOB s))))
  | ERead2 (s, a, i, j) ->
    bind (get_arr st a) (fun r ->
      bind (eval i st) (fun vi ->
        bind (eval j st) (fun vj ->
          match r with
          | A1 (_, _) -> Er (OOB s)
          | A2 (dt, n, c, d) ->
            bind
              (chk ((&&) (in_range (to_int vi) n) (in_range (to_int vj) c)) s)
              (fun _ -> Ok
              (coerce dt (nthZ d (Z.add (Z.mul (to_int vi) c) (to_int vj))))))))
  | ESum (a, lo, hi) ->
    bind (get_arr st a) (fun r ->
      bind (eval lo st) (fun vl ->
        bind (eval hi st) (fun vh -> Ok
          (sum_cells (adt r) (adata (slice_rows r (to_int vl) (to_int vh)))))))
  | ESumCol (s, a, lo, hi, j) ->
    bind (get_arr st a) (fun r ->
      bind (eval lo st) (fun vl ->
        bind (eval hi st) (fun vh ->
          match r with
          | A1 (_, _) -> Er (OOB s)
          | A2 (dt, n, c, d) ->
            bind (chk (in_range j c) s) (fun _ -> Ok
              (sum_cells dt
                (pyslice (column n c d j) (to_int vl) (to_int vh)))))))
  | ESumAll a ->
    bind (get_arr st a) (fun r -> Ok (sum_cells (adt r) (adata r)))
  | ESumDiff (s, a, b) ->
    bind (get_arr st a) (fun ra ->
      bind (get_arr st b) (fun rb ->
        bind (chk (Z.eqb (alen ra) (alen rb)) s) (fun _ -> Ok (VFlt
          (sum_flt
            (map2 (fun x y -> VFlt (fsub (to_flt x) (to_flt y))) (adata ra)
              (adata rb)))))))
  | EAnyColProdPos (s, a, j1, j2) ->
    bind (get_arr st a) (fun r ->
      match r with
      | A1 (_, _) -> Er (OOB s)
      | A2 (_, n, c, d) ->
        bind (chk ((&&) (in_range j1 c) (in_range j2 c)) s) (fun _ -> Ok
          (VBool
          (existsb (fun p -> eval_cmp Gt0 p (VInt Z0))
            (map2 (eval_binop Mul) (column n c d j1) (column n c d j2))))))

(** val eval_arg : arg -> store -> value res **)

let eval_arg a st =
  match a with
  | AVar x -> (match get st x with
               | Undef -> Er (Uninit x)
               | x0 -> Ok x0)
  | AExp e -> bind (eval e st) (fun v -> Ok (Sc v))

(** val eval_args : arg list -> store -> value list res **)

let rec eval_args l st =
  match l with
  | [] -> Ok []
  | a :: r ->
    bind (eval_arg a st) (fun v ->
      bind (eval_args r st) (fun vs -> Ok (v :: vs)))

(** val assign_target : target -> value -> store -> store res **)

let assign_target t v st =
  match t with
  | TVar x -> Ok (set st x v)
  | TCol (s, a, j) ->
    bind (get_arr st a) (fun r ->
      match r with
      | A1 (_, _) -> Er (OOB s)
      | A2 (dt, n, c, d) ->
        (match v with
         | Ar a0 ->
           (match a0 with
            | A1 (_, col) ->
              bind (chk ((&&) (in_range j c) (Z.eqb (zlen col) n)) s)
                (fun _ -> Ok
                (set st a (Ar (A2 (dt, n, c,
                  (set_col n c j d (coerce_cells dt col)))))))
            | A2 (_, _, _, _) -> Er (OOB s))
         | _ -> Er (OOB s)))

(** val assign_targets : target list -> value list -> store -> store res **)

let rec assign_targets ts vs st =
  match ts with
  | [] -> Ok st
  | t :: r ->
    (match vs with
     | [] ->
       (match t with
        | TVar x -> Er (Uninit x)
        | TCol (_, a, _) -> Er (Uninit a))
     | v :: w ->
       bind (assign_target t v st) (fun st' -> assign_targets r w st'))

type outcome =
| Normal of store
| Break of store
| Return of value list
| Err of err
| OutOfFuel

(** val find_func : func list -> char list -> func option **)

let rec find_func env f =
  match env with
  | [] -> None
  | g :: r -> if eqb0 f g.fname then Some g else find_func r f

(** val init_store : func -> value list -> store **)

let init_store f args =
  app
    (combine f.fparams
      (app args (repeat Undef (sub (length f.fparams) (length args)))))
    (map (fun x -> (x, Undef)) f.flocals)

(** val zeros : dtype -> z -> sval -> sval list **)

let zeros dt n fill =
  repeat (coerce dt fill) (Z.to_nat n)

(** val exec : func list -> nat -> stmt -> store -> outcome **)

let rec exec env fuel c st =
  match fuel with
  | O -> OutOfFuel
  | S f ->
    (match c with
     | SSkip -> Normal st
     | SAssign (x, e) ->
       (match eval e st with
        | Ok v -> Normal (set st x (Sc v))
        | Er e0 -> Err e0)
     | SStore1 (s, a, i, e) ->
       (match bind (get_arr st a) (fun r ->
                bind (eval i st) (fun vi ->
                  bind (eval e st) (fun v ->
                    match r with
                    | A1 (dt, d) ->
                      bind (chk (in_range (to_int vi) (zlen d)) s) (fun _ ->
                        Ok
                        (set st a (Ar (A1 (dt,
                          (updZ d (to_int vi) (coerce dt v)))))))
                    | A2 (_, _, _, _) -> Er (OOB s)))) with
        | Ok st' -> Normal st'
        | Er e0 -> Err e0)
     | SStore2 (s, a, i, j, e) ->
       (match bind (get_arr st a) (fun r ->
                bind (eval i st) (fun vi ->
                  bind (eval j st) (fun vj ->
                    bind (eval e st) (fun v ->
                      match r with
                      | A1 (_, _) -> Er (OOB s)
                      | A2 (dt, n, c0, d) ->
                        bind
                          (chk
                            ((&&) (in_range (to_int vi) n)
                              (in_range (to_int vj) c0)) s) (fun _ -> Ok
                          (set st a (Ar (A2 (dt, n, c0,
                            (updZ d
                              (Z.add (Z.mul (to_int vi) c0) (to_int vj))
                              (coerce dt v))))))))))) with
        | Ok st' -> Normal st'
        | Er e0 -> Err e0)
     | SNew1 (x, dt, n, fill) ->
       (match bind (eval n st) (fun vn ->
                bind (eval fill st) (fun vf -> Ok
                  (set st x (Ar (A1 (dt, (zeros dt (to_int vn) vf))))))) with
        | Ok st' -> Normal st'
        | Er e -> Err e)
     | SNew2 (x, dt, r, cc, fill) ->
       (match bind (eval r st) (fun vr ->
                bind (eval cc st) (fun vc ->
                  bind (eval fill st) (fun vf ->
                    let n = Z.max Z0 (to_int vr) in
                    let k = Z.max Z0 (to_int vc) in
                    Ok
                    (set st x (Ar (A2 (dt, n, k, (zeros dt (Z.mul n k) vf)))))))) with
        | Ok st' -> Normal st'
        | Er e -> Err e)
     | SSlice (x, b, lo, hi) ->
       (match bind (get_arr st b) (fun r ->
                bind (eval lo st) (fun vl ->
                  bind (eval hi st) (fun vh -> Ok
                    (set st x (Ar (slice_rows r (to_int vl) (to_int vh))))))) with
        | Ok st' -> Normal st'
        | Er e -> Err e)
     | SGather (s, x, b, idx) ->
       (match bind (get_arr st b) (fun r ->
                bind (get_arr st idx) (fun ri ->
                  match r with
                  | A1 (dt, d) ->
                    (match ri with
                     | A1 (_, ix) ->
                       bind (chk (idx_ok (zlen d) ix) s) (fun _ -> Ok
                         (set st x (Ar (A1 (dt, (gather d ix))))))
                     | A2 (_, _, _, _) -> Er (OOB s))
                  | A2 (_, _, _, _) -> Er (OOB s))) with
        | Ok st' -> Normal st'
        | Er e -> Err e)
     | SMask (s, x, b, m) ->
       (match bind (get_arr st b) (fun r ->
                bind (get_arr st m) (fun rm ->
                  match r with
                  | A1 (dt, d) ->
                    (match rm with
                     | A1 (_, mk) ->
                       bind (chk (Z.eqb (zlen d) (zlen mk)) s) (fun _ -> Ok
                         (set st x (Ar (A1 (dt, (maskl d mk))))))
                     | A2 (_, _, _, _) -> Er (OOB s))
                  | A2 (_, _, _, _) -> Er (OOB s))) with
        | Ok st' -> Normal st'
        | Er e -> Err e)
     | SCmpArr (x, op, b, e) ->
       (match bind (get_arr st b) (fun r ->
                bind (eval e st) (fun v -> Ok
                  (set st x (Ar (A1 (DBool, (cmp_cells op v (adata r)))))))) with
        | Ok st' -> Normal st'
        | Er e0 -> Err e0)
     | SArgsort (x, b) ->
       (match bind (get_arr st b) (fun r -> Ok
                (set st x (Ar (A1 (DInt, (argsort (adata r))))))) with
        | Ok st' -> Normal st'
        | Er e -> Err e)
     | SCumsum (x, b) ->
       (match bind (get_arr st b) (fun r -> Ok
                (set st x (Ar (A1 ((adt r),
                  (match adt r with
                   | DFlt ->
                     cumsum_flt (Some { qnum = Z0; qden = XH }) (adata r)
                   | _ -> cumsum_int Z0 (adata r))))))) with
        | Ok st' -> Normal st'
        | Er e -> Err e)
     | SArrDiv (s, x, a, b) ->
       (match bind (get_arr st a) (fun ra ->
                bind (get_arr st b) (fun rb ->
                  bind
                    (chk
                      ((&&) (Z.eqb (alen ra) (alen rb))
                        (Z.eqb (acols ra) (acols rb))) s) (fun _ ->
                    let d = div_cells (adata ra) (adata rb) in
                    Ok
                    (set st x (Ar
                      (match ra with
                       | A1 (_, _) -> A1 (DFlt, d)
                       | A2 (_, r, c0, _) -> A2 (DFlt, r, c0, d))))))) with
        | Ok st' -> Normal st'
        | Er e -> Err e)
     | SArrDivSc (x, a, e) ->
       (match bind (get_arr st a) (fun ra ->
                bind (eval e st) (fun v ->
                  let d = div_cells_sc v (adata ra) in
                  Ok
                  (set st x (Ar
                    (match ra with
                     | A1 (_, _) -> A1 (DFlt, d)
                     | A2 (_, r, c0, _) -> A2 (DFlt, r, c0, d)))))) with
        | Ok st' -> Normal st'
        | Er e0 -> Err e0)
     | SArrScale (a, e) ->
       (match bind (get_arr st a) (fun ra ->
                bind (eval e st) (fun v -> Ok
                  (set st a (Ar
                    (match ra with
                     | A1 (dt, d) -> A1 (dt, (scale_cells dt v d))
                     | A2 (dt, r, c0, d) ->
                       A2 (dt, r, c0, (scale_cells dt v d))))))) with
        | Ok st' -> Normal st'
        | Er e0 -> Err e0)
     | SShiftLeft a ->
       (match bind (get_arr st a) (fun ra ->
                match ra with
                | A1 (dt, d) -> Ok (set st a (Ar (A1 (dt, (shift_left d)))))
                | A2 (_, _, _, _) -> Er (Uninit a)) with
        | Ok st' -> Normal st'
        | Er e -> Err e)
     | SColSums (x, a) ->
       (match bind (get_arr st a) (fun ra ->
                match ra with
                | A1 (_, _) -> Er (Uninit a)
                | A2 (dt, n, c0, d) ->
                  Ok (set st x (Ar (A1 (dt, (col_sums dt n c0 d)))))) with
        | Ok st' -> Normal st'
        | Er e -> Err e)
     | SColUpd (s, a, j, op, h, e) ->
       (match bind (get_arr st a) (fun ra ->
                bind (eval j st) (fun vj ->
                  bind (eval e st) (fun v ->
                    match ra with
                    | A1 (_, _) -> Er (OOB s)
                    | A2 (dt, n, c0, d) ->
                      bind (chk (in_range (to_int vj) c0) s) (fun _ ->
                        match h with
                        | Some hv ->
                          bind (get_arr st hv) (fun rh ->
                            match rh with
                            | A1 (_, hd) ->
                              bind (chk (Z.eqb (zlen hd) n) s) (fun _ -> Ok
                                (set st a (Ar (A2 (dt, n, c0,
                                  (col_upd dt n c0 (to_int vj) d op (Some hd)
                                    v))))))
                            | A2 (_, _, _, _) -> Er (OOB s))
                        | None ->
                          Ok
                            (set st a (Ar (A2 (dt, n, c0,
                              (col_upd dt n c0 (to_int vj) d op None v))))))))) with
        | Ok st' -> Normal st'
        | Er e0 -> Err e0)
     | SCall (_, ts, fn, args) ->
       (match find_func env fn with
        | Some g ->
          (match eval_args args st with
           | Ok vs ->
             (match exec env f g.fbody (init_store g vs) with
              | Normal _ ->
                (match assign_targets ts [] st with
                 | Ok st' -> Normal st'
                 | Er e -> Err e)
              | Break _ ->
                (match assign_targets ts [] st with
                 | Ok st' -> Normal st'
                 | Er e -> Err e)
              | Return rs ->
                (match assign_targets ts rs st with
                 | Ok st' -> Normal st'
                 | Er e -> Err e)
              | x -> x)
           | Er e -> Err e)
        | None -> Err (Uninit fn))
     | SSeq (a, b) ->
       (match exec env f a st with
        | Normal st' -> exec env f b st'
        | x -> x)
     | SIf (_, c0, a, b) ->
       (match eval c0 st with
        | Ok v -> if truthy v then exec env f a st else exec env f b st
        | Er e -> Err e)
     | SWhile (l, c0, b) ->
       (match eval c0 st with
        | Ok v ->
          if truthy v
          then (match exec env f b st with
                | Normal st' -> exec env f (SWhile (l, c0, b)) st'
                | Break st' -> Normal st'
                | x -> x)
          else Normal st
        | Er e -> Err e)
     | SFor (l, x, lo, hi, b) ->
       (match eval lo st with
        | Ok vl ->
          (match eval hi st with
           | Ok vh ->
             exec env f (SForRun (l, x, (to_int vl), (to_int vh), b)) st
           | Er e -> Err e)
        | Er e -> Err e)
     | SForRun (l, x, i, hi, b) ->
       if Z.ltb i hi
       then (match exec env f b (set st x (Sc (VInt i))) with
             | Normal st' ->
               exec env f (SForRun (l, x, (Z.add i (Zpos XH)), hi, b)) st'
             | Break st' -> Normal st'
             | x0 -> x0)
       else Normal st
     | SBreak -> Break st
     | SReturn rs ->
       (match eval_args rs st with
        | Ok vs -> Return vs
        | Er e -> Err e))

(** val run : func list -> nat -> func -> value list -> outcome **)

let run env fuel g args =
  match exec env fuel g.fbody (init_store g args) with
  | Normal _ -> Return []
  | Break _ -> Return []
  | x -> x

(** val k_jitrestrict : func **)

let k_jitrestrict =
  { fname =
    ('j'::('i'::('t'::('r'::('e'::('s'::('t'::('r'::('i'::('c'::('t'::[])))))))))));
    fparams =
    (('t'::('i'::('m'::('e'::('_'::('a'::('r'::('r'::('a'::('y'::[])))))))))) :: (('s'::('t'::('a'::('r'::('t'::('s'::[])))))) :: (('e'::('n'::('d'::('s'::[])))) :: [])));
    flocals =
    (('n'::[]) :: (('m'::[]) :: (('i'::('x'::[])) :: (('k'::[]) :: (('t'::[]) :: (('x'::[]) :: (('_'::('t'::('0'::[]))) :: [])))))));
    fbody =
    (seq ((SAssign (('n'::[]), (ELen
      ('t'::('i'::('m'::('e'::('_'::('a'::('r'::('r'::('a'::('y'::[]))))))))))))) :: ((SAssign
      (('m'::[]), (ELen
      ('s'::('t'::('a'::('r'::('t'::('s'::[]))))))))) :: ((SNew1
      (('i'::('x'::[])), DInt, (EVar ('n'::[])), (EInt Z0))) :: ((SAssign
      (('k'::[]), (EInt Z0))) :: ((SAssign (('t'::[]), (EInt
      Z0))) :: ((SAssign (('x'::[]), (EInt Z0))) :: ((SWhile (O, (EAnd ((ECmp
      (Lt0, (EVar ('k'::[])), (EVar ('m'::[])))), (EAnd ((ECmp (Lt0, (EVar
      ('t'::[])), (EVar ('n'::[])))), (ECmp (Lt0, (ERead1 (O,
      ('e'::('n'::('d'::('s'::[])))), (EVar ('k'::[])))), (ERead1 ((S O),
      ('t'::('i'::('m'::('e'::('_'::('a'::('r'::('r'::('a'::('y'::[])))))))))),
      (EVar ('t'::[])))))))))),
      (seq ((SAssign (('k'::[]), (EBin (Add, (EVar ('k'::[])), (EInt (Zpos
        XH)))))) :: [])))) :: ((SWhile ((S O), (ECmp (Lt0, (EVar ('k'::[])),
      (EVar ('m'::[])))),
      (seq ((SWhile ((S (S O)), (ECmp (Lt0, (EVar ('t'::[])), (EVar
        ('n'::[])))),
        (seq ((SIf ((S (S (S O))), (ECmp (Ge, (ERead1 ((S (S O)),
          ('t'::('i'::('m'::('e'::('_'::('a'::('r'::('r'::('a'::('y'::[])))))))))),
          (EVar ('t'::[])))), (ERead1 ((S (S (S O))),
          ('s'::('t'::('a'::('r'::('t'::('s'::[])))))), (EVar ('k'::[])))))),
          (seq (SBreak :: [])), SSkip)) :: ((SAssign (('t'::[]), (EBin (Add,
          (EVar ('t'::[])), (EInt (Zpos XH)))))) :: []))))) :: ((SWhile ((S
        (S (S (S O)))), (ECmp (Lt0, (EVar ('t'::[])), (EVar ('n'::[])))),
        (seq ((SIf ((S (S (S (S (S O))))), (ECmp (Gt0, (ERead1 ((S (S (S (S
          O)))),
          ('t'::('i'::('m'::('e'::('_'::('a'::('r'::('r'::('a'::('y'::[])))))))))),
          (EVar ('t'::[])))), (ERead1 ((S (S (S (S (S O))))),
          ('e'::('n'::('d'::('s'::[])))), (EVar ('k'::[])))))),
          (seq ((SAssign (('k'::[]), (EBin (Add, (EVar ('k'::[])), (EInt
            (Zpos XH)))))) :: (SBreak :: []))),
          (seq ((SStore1 ((S (S (S (S (S (S O)))))), ('i'::('x'::[])), (EVar
            ('x'::[])), (EVar ('t'::[])))) :: ((SAssign (('x'::[]), (EBin
            (Add, (EVar ('x'::[])), (EInt (Zpos XH)))))) :: []))))) :: ((SAssign
          (('t'::[]), (EBin (Add, (EVar ('t'::[])), (EInt (Zpos
          XH)))))) :: []))))) :: ((SIf ((S (S (S (S (S (S O)))))), (ECmp
        (Eq0, (EVar ('k'::[])), (EVar ('m'::[])))), (seq (SBreak :: [])),
        SSkip)) :: ((SIf ((S (S (S (S (S (S (S O))))))), (ECmp (Eq0, (EVar
        ('t'::[])), (EVar ('n'::[])))), (seq (SBreak :: [])),
        SSkip)) :: []))))))) :: ((SSlice (('_'::('t'::('0'::[]))),
      ('i'::('x'::[])), (EInt Z0), (EVar ('x'::[])))) :: ((SReturn ((AVar
      ('_'::('t'::('0'::[])))) :: [])) :: []))))))))))) }

(** val k_jitrestrict_with_count : func **)

let k_jitrestrict_with_count =
  { fname =
    ('j'::('i'::('t'::('r'::('e'::('s'::('t'::('r'::('i'::('c'::('t'::('_'::('w'::('i'::('t'::('h'::('_'::('c'::('o'::('u'::('n'::('t'::[]))))))))))))))))))))));
    fparams =
    (('t'::('i'::('m'::('e'::('_'::('a'::('r'::('r'::('a'::('y'::[])))))))))) :: (('s'::('t'::('a'::('r'::('t'::('s'::[])))))) :: (('e'::('n'::('d'::('s'::[])))) :: [])));
    flocals =
    (('n'::[]) :: (('m'::[]) :: (('i'::('x'::[])) :: (('c'::('o'::('u'::('n'::('t'::[]))))) :: (('k'::[]) :: (('t'::[]) :: (('x'::[]) :: (('_'::('t'::('0'::[]))) :: []))))))));
    fbody =
    (seq ((SAssign (('n'::[]), (ELen
      ('t'::('i'::('m'::('e'::('_'::('a'::('r'::('r'::('a'::('y'::[]))))))))))))) :: ((SAssign
      (('m'::[]), (ELen
      ('s'::('t'::('a'::('r'::('t'::('s'::[]))))))))) :: ((SNew1
      (('i'::('x'::[])), DInt, (EVar ('n'::[])), (EInt Z0))) :: ((SNew1
      (('c'::('o'::('u'::('n'::('t'::[]))))), DInt, (EVar ('m'::[])), (EInt
      Z0))) :: ((SAssign (('k'::[]), (EInt Z0))) :: ((SAssign (('t'::[]),
      (EInt Z0))) :: ((SAssign (('x'::[]), (EInt Z0))) :: ((SWhile (O, (EAnd
      ((ECmp (Lt0, (EVar ('k'::[])), (EVar ('m'::[])))), (EAnd ((ECmp (Lt0,
      (EVar ('t'::[])), (EVar ('n'::[])))), (ECmp (Lt0, (ERead1 (O,
      ('e'::('n'::('d'::('s'::[])))), (EVar ('k'::[])))), (ERead1 ((S O),
      ('t'::('i'::('m'::('e'::('_'::('a'::('r'::('r'::('a'::('y'::[])))))))))),
      (EVar ('t'::[])))))))))),
      (seq ((SAssign (('k'::[]), (EBin (Add, (EVar ('k'::[])), (EInt (Zpos
        XH)))))) :: [])))) :: ((SWhile ((S O), (ECmp (Lt0, (EVar ('k'::[])),
      (EVar ('m'::[])))),
      (seq ((SWhile ((S (S O)), (ECmp (Lt0, (EVar ('t'::[])), (EVar
        ('n'::[])))),
        (seq ((SIf ((S (S (S O))), (ECmp (Ge, (ERead1 ((S (S O)),
          ('t'::('i'::('m'::('e'::('_'::('a'::('r'::('r'::('a'::('y'::[])))))))))),
          (EVar ('t'::[])))), (ERead1 ((S (S (S O))),
          ('s'::('t'::('a'::('r'::('t'::('s'::[])))))), (EVar ('k'::[])))))),
          (seq (SBreak :: [])), SSkip)) :: ((SAssign (('t'::[]), (EBin (Add,
          (EVar ('t'::[])), (EInt (Zpos XH)))))) :: []))))) :: ((SWhile ((S
        (S (S (S O)))), (ECmp (Lt0, (EVar ('t'::[])), (EVar ('n'::[])))),
        (seq ((SIf ((S (S (S (S (S O))))), (ECmp (Gt0, (ERead1 ((S (S (S (S
          O)))),
          ('t'::('i'::('m'::('e'::('_'::('a'::('r'::('r'::('a'::('y'::[])))))))))),
          (EVar ('t'::[])))), (ERead1 ((S (S (S (S (S O))))),
          ('e'::('n'::('d'::('s'::[])))), (EVar ('k'::[])))))),
          (seq ((SAssign (('k'::[]), (EBin (Add, (EVar ('k'::[])), (EInt
            (Zpos XH)))))) :: (SBreak :: []))),
          (seq ((SStore1 ((S (S (S (S (S (S O)))))), ('i'::('x'::[])), (EVar
            ('x'::[])), (EVar ('t'::[])))) :: ((SStore1 ((S (S (S (S (S (S (S
            (S O)))))))), ('c'::('o'::('u'::('n'::('t'::[]))))), (EVar
            ('k'::[])), (EBin (Add, (ERead1 ((S (S (S (S (S (S (S O))))))),
            ('c'::('o'::('u'::('n'::('t'::[]))))), (EVar ('k'::[])))), (EInt
            (Zpos XH)))))) :: ((SAssign (('x'::[]), (EBin (Add, (EVar
            ('x'::[])), (EInt (Zpos XH)))))) :: [])))))) :: ((SAssign
          (('t'::[]), (EBin (Add, (EVar ('t'::[])), (EInt (Zpos
          XH)))))) :: []))))) :: ((SIf ((S (S (S (S (S (S O)))))), (ECmp
        (Eq0, (EVar ('k'::[])), (EVar ('m'::[])))), (seq (SBreak :: [])),
        SSkip)) :: ((SIf ((S (S (S (S (S (S (S O))))))), (ECmp (Eq0, (EVar
        ('t'::[])), (EVar ('n'::[])))), (seq (SBreak :: [])),
        SSkip)) :: []))))))) :: ((SSlice (('_'::('t'::('0'::[]))),
      ('i'::('x'::[])), (EInt Z0), (EVar ('x'::[])))) :: ((SReturn ((AVar
      ('_'::('t'::('0'::[])))) :: ((AVar
      ('c'::('o'::('u'::('n'::('t'::[])))))) :: []))) :: [])))))))))))) }

(** val k_jitvaluefrom : func **)

let k_jitvaluefrom =
  { fname =
    ('j'::('i'::('t'::('v'::('a'::('l'::('u'::('e'::('f'::('r'::('o'::('m'::[]))))))))))));
    fparams =
    (('t'::('i'::('m'::('e'::('_'::('a'::('r'::('r'::('a'::('y'::[])))))))))) :: (('t'::('i'::('m'::('e'::('_'::('t'::('a'::('r'::('g'::('e'::('t'::('_'::('a'::('r'::('r'::('a'::('y'::[]))))))))))))))))) :: (('c'::('o'::('u'::('n'::('t'::[]))))) :: (('c'::('o'::('u'::('n'::('t'::('_'::('t'::('a'::('r'::('g'::('e'::('t'::[])))))))))))) :: (('s'::('t'::('a'::('r'::('t'::('s'::[])))))) :: (('m'::('o'::('d'::('e'::[])))) :: []))))));
    flocals =
    (('m'::[]) :: (('n'::[]) :: (('d'::[]) :: (('i'::('d'::('x'::[]))) :: (('k'::[]) :: (('t'::[]) :: (('i'::[]) :: (('m'::('a'::('x'::('t'::[])))) :: (('m'::('a'::('x'::('i'::[])))) :: (('i'::('n'::('t'::('e'::('r'::('v'::('a'::('l'::[])))))))) :: (('n'::('a'::('n'::('_'::('c'::('o'::('n'::('d'::[])))))))) :: (('n'::('e'::('w'::('_'::('i'::('n'::('t'::('e'::('r'::('v'::('a'::('l'::[])))))))))))) :: (('b'::('r'::('e'::('a'::('k'::('_'::('c'::('o'::('n'::('d'::[])))))))))) :: [])))))))))))));
    fbody =
    (seq ((SAssign (('m'::[]), (ELen
      ('s'::('t'::('a'::('r'::('t'::('s'::[]))))))))) :: ((SAssign
      (('n'::[]), (ELen
      ('t'::('i'::('m'::('e'::('_'::('a'::('r'::('r'::('a'::('y'::[]))))))))))))) :: ((SAssign
      (('d'::[]), (ELen
      ('t'::('i'::('m'::('e'::('_'::('t'::('a'::('r'::('g'::('e'::('t'::('_'::('a'::('r'::('r'::('a'::('y'::[])))))))))))))))))))) :: ((SNew1
      (('i'::('d'::('x'::[]))), DFlt, (EVar ('n'::[])), ENan)) :: ((SIf (O,
      (EAnd ((ECmp (Gt0, (EVar ('n'::[])), (EInt Z0))), (ECmp (Gt0, (EVar
      ('d'::[])), (EInt Z0))))),
      (seq ((SFor ((S O), ('k'::[]), (EInt Z0), (EVar ('m'::[])),
        (seq ((SIf ((S (S O)), (EAnd ((ECmp (Gt0, (ERead1 (O,
          ('c'::('o'::('u'::('n'::('t'::[]))))), (EVar ('k'::[])))), (EInt
          Z0))), (ECmp (Gt0, (ERead1 ((S O),
          ('c'::('o'::('u'::('n'::('t'::('_'::('t'::('a'::('r'::('g'::('e'::('t'::[])))))))))))),
          (EVar ('k'::[])))), (EInt Z0))))),
          (seq ((SAssign (('t'::[]), (ESum
            (('c'::('o'::('u'::('n'::('t'::[]))))), (EInt Z0), (EVar
            ('k'::[])))))) :: ((SAssign (('i'::[]), (ESum
            (('c'::('o'::('u'::('n'::('t'::('_'::('t'::('a'::('r'::('g'::('e'::('t'::[])))))))))))),
            (EInt Z0), (EVar ('k'::[])))))) :: ((SAssign
            (('m'::('a'::('x'::('t'::[])))), (EBin (Add, (EVar ('t'::[])),
            (ERead1 ((S (S O)), ('c'::('o'::('u'::('n'::('t'::[]))))), (EVar
            ('k'::[])))))))) :: ((SAssign (('m'::('a'::('x'::('i'::[])))),
            (EBin (Add, (EVar ('i'::[])), (ERead1 ((S (S (S O))),
            ('c'::('o'::('u'::('n'::('t'::('_'::('t'::('a'::('r'::('g'::('e'::('t'::[])))))))))))),
            (EVar ('k'::[])))))))) :: ((SWhile ((S (S (S O))), (ECmp (Lt0,
            (EVar ('t'::[])), (EVar ('m'::('a'::('x'::('t'::[]))))))),
            (seq ((SIf ((S (S (S (S O)))), (ECmp (Ne, (EVar
              ('m'::('o'::('d'::('e'::[]))))), (EInt (Zpos XH)))),
              (seq ((SAssign
                (('i'::('n'::('t'::('e'::('r'::('v'::('a'::('l'::[])))))))),
                (EBin (Sub, (ERead1 ((S (S (S (S O)))),
                ('t'::('i'::('m'::('e'::('_'::('t'::('a'::('r'::('g'::('e'::('t'::('_'::('a'::('r'::('r'::('a'::('y'::[]))))))))))))))))),
                (EVar ('i'::[])))), (ERead1 ((S (S (S (S (S O))))),
                ('t'::('i'::('m'::('e'::('_'::('a'::('r'::('r'::('a'::('y'::[])))))))))),
                (EVar ('t'::[])))))))) :: [])),
              (seq ((SAssign
                (('i'::('n'::('t'::('e'::('r'::('v'::('a'::('l'::[])))))))),
                (EUn (Abs, (EBin (Sub, (ERead1 ((S (S (S (S (S (S O)))))),
                ('t'::('i'::('m'::('e'::('_'::('t'::('a'::('r'::('g'::('e'::('t'::('_'::('a'::('r'::('r'::('a'::('y'::[]))))))))))))))))),
                (EVar ('i'::[])))), (ERead1 ((S (S (S (S (S (S (S O))))))),
                ('t'::('i'::('m'::('e'::('_'::('a'::('r'::('r'::('a'::('y'::[])))))))))),
                (EVar ('t'::[])))))))))) :: [])))) :: ((SStore1 ((S (S (S (S
              (S (S (S (S O)))))))), ('i'::('d'::('x'::[]))), (EVar
              ('t'::[])), (EUn (ToFlt, (EVar ('i'::[])))))) :: ((SAssign
              (('n'::('a'::('n'::('_'::('c'::('o'::('n'::('d'::[])))))))),
              (EAnd ((ECmp (Eq0, (EVar ('m'::('o'::('d'::('e'::[]))))), (EInt
              Z0))), (ECmp (Gt0, (EVar
              ('i'::('n'::('t'::('e'::('r'::('v'::('a'::('l'::[]))))))))),
              (EInt Z0))))))) :: ((SAssign (('i'::[]), (EBin (Add, (EVar
              ('i'::[])), (EInt (Zpos XH)))))) :: ((SWhile ((S (S (S (S (S
              O))))), (ECmp (Lt0, (EVar ('i'::[])), (EVar
              ('m'::('a'::('x'::('i'::[]))))))),
              (seq ((SIf ((S (S (S (S (S (S O)))))), (ECmp (Ne, (EVar
                ('m'::('o'::('d'::('e'::[]))))), (EInt (Zpos XH)))),
                (seq ((SAssign
                  (('n'::('e'::('w'::('_'::('i'::('n'::('t'::('e'::('r'::('v'::('a'::('l'::[])))))))))))),
                  (EBin (Sub, (ERead1 ((S (S (S (S (S (S (S (S (S O))))))))),
                  ('t'::('i'::('m'::('e'::('_'::('t'::('a'::('r'::('g'::('e'::('t'::('_'::('a'::('r'::('r'::('a'::('y'::[]))))))))))))))))),
                  (EVar ('i'::[])))), (ERead1 ((S (S (S (S (S (S (S (S (S (S
                  O)))))))))),
                  ('t'::('i'::('m'::('e'::('_'::('a'::('r'::('r'::('a'::('y'::[])))))))))),
                  (EVar ('t'::[])))))))) :: ((SAssign
                  (('b'::('r'::('e'::('a'::('k'::('_'::('c'::('o'::('n'::('d'::[])))))))))),
                  (EIf ((ECmp (Eq0, (EVar ('m'::('o'::('d'::('e'::[]))))),
                  (EInt Z0))), (EOr ((EAnd ((ECmp (Gt0, (EVar
                  ('n'::('e'::('w'::('_'::('i'::('n'::('t'::('e'::('r'::('v'::('a'::('l'::[]))))))))))))),
                  (EInt Z0))), (ECmp (Le, (EVar
                  ('i'::('n'::('t'::('e'::('r'::('v'::('a'::('l'::[]))))))))),
                  (EInt Z0))))), (ECmp (Ge, (EVar
                  ('i'::('n'::('t'::('e'::('r'::('v'::('a'::('l'::[]))))))))),
                  (EInt Z0))))), (EOr ((EAnd ((ECmp (Lt0, (EVar
                  ('n'::('e'::('w'::('_'::('i'::('n'::('t'::('e'::('r'::('v'::('a'::('l'::[]))))))))))))),
                  (EInt Z0))), (ECmp (Ge, (EVar
                  ('i'::('n'::('t'::('e'::('r'::('v'::('a'::('l'::[]))))))))),
                  (EInt Z0))))), (ECmp (Ge, (EVar
                  ('i'::('n'::('t'::('e'::('r'::('v'::('a'::('l'::[]))))))))),
                  (EInt Z0))))))))) :: ((SAssign
                  (('n'::('a'::('n'::('_'::('c'::('o'::('n'::('d'::[])))))))),
                  (EIf ((ECmp (Eq0, (EVar ('m'::('o'::('d'::('e'::[]))))),
                  (EInt Z0))), (ECmp (Gt0, (EVar
                  ('i'::('n'::('t'::('e'::('r'::('v'::('a'::('l'::[]))))))))),
                  (EInt Z0))), (ECmp (Lt0, (EVar
                  ('n'::('e'::('w'::('_'::('i'::('n'::('t'::('e'::('r'::('v'::('a'::('l'::[]))))))))))))),
                  (EInt Z0))))))) :: [])))),
                (seq ((SAssign
                  (('n'::('e'::('w'::('_'::('i'::('n'::('t'::('e'::('r'::('v'::('a'::('l'::[])))))))))))),
                  (EUn (Abs, (EBin (Sub, (ERead1 ((S (S (S (S (S (S (S (S (S
                  (S (S O))))))))))),
                  ('t'::('i'::('m'::('e'::('_'::('t'::('a'::('r'::('g'::('e'::('t'::('_'::('a'::('r'::('r'::('a'::('y'::[]))))))))))))))))),
                  (EVar ('i'::[])))), (ERead1 ((S (S (S (S (S (S (S (S (S (S
                  (S (S O)))))))))))),
                  ('t'::('i'::('m'::('e'::('_'::('a'::('r'::('r'::('a'::('y'::[])))))))))),
                  (EVar ('t'::[])))))))))) :: ((SAssign
                  (('b'::('r'::('e'::('a'::('k'::('_'::('c'::('o'::('n'::('d'::[])))))))))),
                  (ECmp (Gt0, (EVar
                  ('n'::('e'::('w'::('_'::('i'::('n'::('t'::('e'::('r'::('v'::('a'::('l'::[]))))))))))))),
                  (EVar
                  ('i'::('n'::('t'::('e'::('r'::('v'::('a'::('l'::[]))))))))))))) :: ((SAssign
                  (('n'::('a'::('n'::('_'::('c'::('o'::('n'::('d'::[])))))))),
                  (EBool false))) :: [])))))) :: ((SIf ((S (S (S (S (S (S (S
                O))))))), (EVar
                ('b'::('r'::('e'::('a'::('k'::('_'::('c'::('o'::('n'::('d'::[]))))))))))),
                (seq ((SIf ((S (S (S (S (S (S (S (S O)))))))), (EVar
                  ('n'::('a'::('n'::('_'::('c'::('o'::('n'::('d'::[]))))))))),
                  (seq ((SStore1 ((S (S (S (S (S (S (S (S (S (S (S (S (S
                    O))))))))))))), ('i'::('d'::('x'::[]))), (EVar
                    ('t'::[])), ENan)) :: [])), SSkip)) :: (SBreak :: []))),
                (seq ((SStore1 ((S (S (S (S (S (S (S (S (S (S (S (S (S (S
                  O)))))))))))))), ('i'::('d'::('x'::[]))), (EVar ('t'::[])),
                  (EUn (ToFlt, (EVar ('i'::[])))))) :: ((SAssign
                  (('i'::('n'::('t'::('e'::('r'::('v'::('a'::('l'::[])))))))),
                  (EVar
                  ('n'::('e'::('w'::('_'::('i'::('n'::('t'::('e'::('r'::('v'::('a'::('l'::[]))))))))))))))) :: ((SAssign
                  (('i'::[]), (EBin (Add, (EVar ('i'::[])), (EInt (Zpos
                  XH)))))) :: [])))))) :: []))))) :: ((SIf ((S (S (S (S (S (S
              (S (S (S O))))))))), (ECmp (Eq0, (EVar ('i'::[])), (EVar
              ('m'::('a'::('x'::('i'::[]))))))),
              (seq ((SIf ((S (S (S (S (S (S (S (S (S (S O)))))))))), (ECmp
                (Eq0, (EVar ('m'::('o'::('d'::('e'::[]))))), (EInt (Zpos (XO
                XH))))),
                (seq ((SAssign
                  (('n'::('e'::('w'::('_'::('i'::('n'::('t'::('e'::('r'::('v'::('a'::('l'::[])))))))))))),
                  (EBin (Sub, (ERead1 ((S (S (S (S (S (S (S (S (S (S (S (S (S
                  (S (S O))))))))))))))),
                  ('t'::('i'::('m'::('e'::('_'::('t'::('a'::('r'::('g'::('e'::('t'::('_'::('a'::('r'::('r'::('a'::('y'::[]))))))))))))))))),
                  (EBin (Sub, (EVar ('i'::[])), (EInt (Zpos XH)))))), (ERead1
                  ((S (S (S (S (S (S (S (S (S (S (S (S (S (S (S (S
                  O)))))))))))))))),
                  ('t'::('i'::('m'::('e'::('_'::('a'::('r'::('r'::('a'::('y'::[])))))))))),
                  (EVar ('t'::[])))))))) :: ((SAssign
                  (('n'::('a'::('n'::('_'::('c'::('o'::('n'::('d'::[])))))))),
                  (ECmp (Lt0, (EVar
                  ('n'::('e'::('w'::('_'::('i'::('n'::('t'::('e'::('r'::('v'::('a'::('l'::[]))))))))))))),
                  (EInt Z0))))) :: []))), SSkip)) :: ((SIf ((S (S (S (S (S (S
                (S (S (S (S (S O))))))))))), (EVar
                ('n'::('a'::('n'::('_'::('c'::('o'::('n'::('d'::[]))))))))),
                (seq ((SStore1 ((S (S (S (S (S (S (S (S (S (S (S (S (S (S (S
                  (S (S O))))))))))))))))), ('i'::('d'::('x'::[]))), (EVar
                  ('t'::[])), ENan)) :: [])), SSkip)) :: []))),
              SSkip)) :: ((SAssign (('i'::[]), (EBin (Sub, (EVar ('i'::[])),
              (EInt (Zpos XH)))))) :: ((SAssign (('t'::[]), (EBin (Add, (EVar
              ('t'::[])), (EInt (Zpos XH)))))) :: []))))))))))) :: [])))))),
          SSkip)) :: [])))) :: [])), SSkip)) :: ((SReturn ((AVar
      ('i'::('d'::('x'::[])))) :: [])) :: []))))))) }

(** val k_jitcount : func **)

let k_jitcount =
  { fname = ('j'::('i'::('t'::('c'::('o'::('u'::('n'::('t'::[]))))))));
    fparams =
    (('t'::('i'::('m'::('e'::('_'::('a'::('r'::('r'::('a'::('y'::[])))))))))) :: (('s'::('t'::('a'::('r'::('t'::('s'::[])))))) :: (('e'::('n'::('d'::('s'::[])))) :: (('b'::('i'::('n'::('_'::('s'::('i'::('z'::('e'::[])))))))) :: []))));
    flocals =
    (('i'::('d'::('x'::[]))) :: (('c'::('o'::('u'::('n'::('t'::('i'::('n'::[]))))))) :: (('m'::[]) :: (('n'::('b'::('_'::('b'::('i'::('n'::('s'::[]))))))) :: (('k'::[]) :: (('n'::('b'::[])) :: (('b'::('i'::('n'::('s'::[])))) :: (('c'::('n'::('t'::[]))) :: (('t'::[]) :: (('b'::[]) :: (('m'::('a'::('x'::('b'::[])))) :: (('m'::('a'::('x'::('t'::[])))) :: (('l'::('b'::('o'::('u'::('n'::('d'::[])))))) :: (('x'::('p'::('o'::('s'::[])))) :: (('r'::('b'::('o'::('u'::('n'::('d'::[])))))) :: (('n'::('e'::('w'::('_'::('t'::('i'::('m'::('e'::('_'::('a'::('r'::('r'::('a'::('y'::[])))))))))))))) :: (('n'::('e'::('w'::('_'::('d'::('a'::('t'::('a'::('_'::('a'::('r'::('r'::('a'::('y'::[])))))))))))))) :: [])))))))))))))))));
    fbody =
    (seq ((SCall (O, ((TVar ('i'::('d'::('x'::[])))) :: ((TVar
      ('c'::('o'::('u'::('n'::('t'::('i'::('n'::[])))))))) :: [])),
      ('j'::('i'::('t'::('r'::('e'::('s'::('t'::('r'::('i'::('c'::('t'::('_'::('w'::('i'::('t'::('h'::('_'::('c'::('o'::('u'::('n'::('t'::[])))))))))))))))))))))),
      ((AVar
      ('t'::('i'::('m'::('e'::('_'::('a'::('r'::('r'::('a'::('y'::[]))))))))))) :: ((AVar
      ('s'::('t'::('a'::('r'::('t'::('s'::[]))))))) :: ((AVar
      ('e'::('n'::('d'::('s'::[]))))) :: []))))) :: ((SGather (O,
      ('t'::('i'::('m'::('e'::('_'::('a'::('r'::('r'::('a'::('y'::[])))))))))),
      ('t'::('i'::('m'::('e'::('_'::('a'::('r'::('r'::('a'::('y'::[])))))))))),
      ('i'::('d'::('x'::[]))))) :: ((SAssign (('m'::[]), (ELen
      ('s'::('t'::('a'::('r'::('t'::('s'::[]))))))))) :: ((SNew1
      (('n'::('b'::('_'::('b'::('i'::('n'::('s'::[]))))))), DInt, (EVar
      ('m'::[])), (EInt Z0))) :: ((SFor ((S O), ('k'::[]), (EInt Z0), (EVar
      ('m'::[])),
      (seq ((SIf ((S (S O)), (ECmp (Gt0, (EBin (Sub, (ERead1 ((S O),
        ('e'::('n'::('d'::('s'::[])))), (EVar ('k'::[])))), (ERead1 ((S (S
        O)), ('s'::('t'::('a'::('r'::('t'::('s'::[])))))), (EVar
        ('k'::[])))))), (EVar
        ('b'::('i'::('n'::('_'::('s'::('i'::('z'::('e'::[]))))))))))),
        (seq ((SStore1 ((S (S (S (S (S O))))),
          ('n'::('b'::('_'::('b'::('i'::('n'::('s'::[]))))))), (EVar
          ('k'::[])), (EUn (ToInt, (EUn (Ceil, (EBin (Div, (EBin (Sub, (EBin
          (Add, (ERead1 ((S (S (S O))), ('e'::('n'::('d'::('s'::[])))), (EVar
          ('k'::[])))), (EVar
          ('b'::('i'::('n'::('_'::('s'::('i'::('z'::('e'::[]))))))))))),
          (ERead1 ((S (S (S (S O)))),
          ('s'::('t'::('a'::('r'::('t'::('s'::[])))))), (EVar ('k'::[])))))),
          (EVar
          ('b'::('i'::('n'::('_'::('s'::('i'::('z'::('e'::[]))))))))))))))))) :: [])),
        (seq ((SStore1 ((S (S (S (S (S (S O)))))),
          ('n'::('b'::('_'::('b'::('i'::('n'::('s'::[]))))))), (EVar
          ('k'::[])), (EInt (Zpos XH)))) :: [])))) :: [])))) :: ((SAssign
      (('n'::('b'::[])), (ESumAll
      ('n'::('b'::('_'::('b'::('i'::('n'::('s'::[])))))))))) :: ((SNew1
      (('b'::('i'::('n'::('s'::[])))), DFlt, (EVar ('n'::('b'::[]))), (EInt
      Z0))) :: ((SNew1 (('c'::('n'::('t'::[]))), DInt, (EVar
      ('n'::('b'::[]))), (EInt Z0))) :: ((SAssign (('k'::[]), (EInt
      Z0))) :: ((SAssign (('t'::[]), (EInt Z0))) :: ((SAssign (('b'::[]),
      (EInt Z0))) :: ((SWhile ((S (S (S O))), (ECmp (Lt0, (EVar ('k'::[])),
      (EVar ('m'::[])))),
      (seq ((SAssign (('m'::('a'::('x'::('b'::[])))), (EBin (Add, (EVar
        ('b'::[])), (ERead1 ((S (S (S (S (S (S (S O))))))),
        ('n'::('b'::('_'::('b'::('i'::('n'::('s'::[]))))))), (EVar
        ('k'::[])))))))) :: ((SAssign (('m'::('a'::('x'::('t'::[])))), (EBin
        (Add, (EVar ('t'::[])), (ERead1 ((S (S (S (S (S (S (S (S O)))))))),
        ('c'::('o'::('u'::('n'::('t'::('i'::('n'::[]))))))), (EVar
        ('k'::[])))))))) :: ((SAssign
        (('l'::('b'::('o'::('u'::('n'::('d'::[])))))), (ERead1 ((S (S (S (S
        (S (S (S (S (S O))))))))),
        ('s'::('t'::('a'::('r'::('t'::('s'::[])))))), (EVar
        ('k'::[])))))) :: ((SWhile ((S (S (S (S O)))), (ECmp (Lt0, (EVar
        ('b'::[])), (EVar ('m'::('a'::('x'::('b'::[]))))))),
        (seq ((SAssign (('x'::('p'::('o'::('s'::[])))), (EUn (Round9, (EBin
          (Add, (EVar ('l'::('b'::('o'::('u'::('n'::('d'::[]))))))), (EBin
          (Div, (EVar
          ('b'::('i'::('n'::('_'::('s'::('i'::('z'::('e'::[]))))))))), (EInt
          (Zpos (XO XH))))))))))) :: ((SIf ((S (S (S (S (S O))))), (ECmp
          (Gt0, (EUn (Round9, (EBin (Add, (EBin (Mul, (EInt (Zpos (XO XH))),
          (EVar ('l'::('b'::('o'::('u'::('n'::('d'::[]))))))))), (EVar
          ('b'::('i'::('n'::('_'::('s'::('i'::('z'::('e'::[]))))))))))))),
          (EBin (Mul, (EInt (Zpos (XO XH))), (ERead1 ((S (S (S (S (S (S (S (S
          (S (S O)))))))))), ('e'::('n'::('d'::('s'::[])))), (EVar
          ('k'::[])))))))), (seq (SBreak :: [])),
          (seq ((SStore1 ((S (S (S (S (S (S (S (S (S (S (S O))))))))))),
            ('b'::('i'::('n'::('s'::[])))), (EVar ('b'::[])), (EVar
            ('x'::('p'::('o'::('s'::[]))))))) :: ((SAssign
            (('r'::('b'::('o'::('u'::('n'::('d'::[])))))), (EUn (Round9,
            (EBin (Add, (EVar ('l'::('b'::('o'::('u'::('n'::('d'::[]))))))),
            (EVar
            ('b'::('i'::('n'::('_'::('s'::('i'::('z'::('e'::[]))))))))))))))) :: ((SWhile
            ((S (S (S (S (S (S O)))))), (ECmp (Lt0, (EVar ('t'::[])), (EVar
            ('m'::('a'::('x'::('t'::[]))))))),
            (seq ((SIf ((S (S (S (S (S (S (S O))))))), (ECmp (Lt0, (ERead1
              ((S (S (S (S (S (S (S (S (S (S (S (S O)))))))))))),
              ('t'::('i'::('m'::('e'::('_'::('a'::('r'::('r'::('a'::('y'::[])))))))))),
              (EVar ('t'::[])))), (EVar
              ('r'::('b'::('o'::('u'::('n'::('d'::[]))))))))),
              (seq ((SStore1 ((S (S (S (S (S (S (S (S (S (S (S (S (S (S
                O)))))))))))))), ('c'::('n'::('t'::[]))), (EVar ('b'::[])),
                (EBin (Add, (ERead1 ((S (S (S (S (S (S (S (S (S (S (S (S (S
                O))))))))))))), ('c'::('n'::('t'::[]))), (EVar ('b'::[])))),
                (EInt (Zpos XH)))))) :: ((SAssign (('t'::[]), (EBin (Add,
                (EVar ('t'::[])), (EInt (Zpos XH)))))) :: []))),
              (seq (SBreak :: [])))) :: [])))) :: ((SAssign
            (('l'::('b'::('o'::('u'::('n'::('d'::[])))))), (EBin (Add, (EVar
            ('l'::('b'::('o'::('u'::('n'::('d'::[]))))))), (EVar
            ('b'::('i'::('n'::('_'::('s'::('i'::('z'::('e'::[]))))))))))))) :: ((SAssign
            (('l'::('b'::('o'::('u'::('n'::('d'::[])))))), (EUn (Round9,
            (EVar
            ('l'::('b'::('o'::('u'::('n'::('d'::[]))))))))))) :: ((SAssign
            (('b'::[]), (EBin (Add, (EVar ('b'::[])), (EInt (Zpos
            XH)))))) :: []))))))))) :: []))))) :: ((SAssign (('t'::[]), (EVar
        ('m'::('a'::('x'::('t'::[]))))))) :: ((SAssign (('k'::[]), (EBin
        (Add, (EVar ('k'::[])), (EInt (Zpos XH)))))) :: []))))))))) :: ((SSlice
      (('n'::('e'::('w'::('_'::('t'::('i'::('m'::('e'::('_'::('a'::('r'::('r'::('a'::('y'::[])))))))))))))),
      ('b'::('i'::('n'::('s'::[])))), (EInt Z0), (EVar
      ('b'::[])))) :: ((SSlice
      (('n'::('e'::('w'::('_'::('d'::('a'::('t'::('a'::('_'::('a'::('r'::('r'::('a'::('y'::[])))))))))))))),
      ('c'::('n'::('t'::[]))), (EInt Z0), (EVar ('b'::[])))) :: ((SReturn
      ((AVar
      ('n'::('e'::('w'::('_'::('t'::('i'::('m'::('e'::('_'::('a'::('r'::('r'::('a'::('y'::[]))))))))))))))) :: ((AVar
      ('n'::('e'::('w'::('_'::('d'::('a'::('t'::('a'::('_'::('a'::('r'::('r'::('a'::('y'::[]))))))))))))))) :: []))) :: [])))))))))))))))) }

(** val k_jitin_interval : func **)

let k_jitin_interval =
  { fname =
    ('j'::('i'::('t'::('i'::('n'::('_'::('i'::('n'::('t'::('e'::('r'::('v'::('a'::('l'::[]))))))))))))));
    fparams =
    (('t'::('i'::('m'::('e'::('_'::('a'::('r'::('r'::('a'::('y'::[])))))))))) :: (('s'::('t'::('a'::('r'::('t'::('s'::[])))))) :: (('e'::('n'::('d'::('s'::[])))) :: [])));
    flocals =
    (('n'::[]) :: (('m'::[]) :: (('d'::('a'::('t'::('a'::[])))) :: (('k'::[]) :: (('t'::[]) :: [])))));
    fbody =
    (seq ((SAssign (('n'::[]), (ELen
      ('t'::('i'::('m'::('e'::('_'::('a'::('r'::('r'::('a'::('y'::[]))))))))))))) :: ((SAssign
      (('m'::[]), (ELen
      ('s'::('t'::('a'::('r'::('t'::('s'::[]))))))))) :: ((SNew1
      (('d'::('a'::('t'::('a'::[])))), DFlt, (EVar ('n'::[])),
      ENan)) :: ((SAssign (('k'::[]), (EInt Z0))) :: ((SAssign (('t'::[]),
      (EInt Z0))) :: ((SWhile (O, (EAnd ((ECmp (Lt0, (EVar ('k'::[])), (EVar
      ('m'::[])))), (EAnd ((ECmp (Lt0, (EVar ('t'::[])), (EVar ('n'::[])))),
      (ECmp (Lt0, (ERead1 (O, ('e'::('n'::('d'::('s'::[])))), (EVar
      ('k'::[])))), (ERead1 ((S O),
      ('t'::('i'::('m'::('e'::('_'::('a'::('r'::('r'::('a'::('y'::[])))))))))),
      (EVar ('t'::[])))))))))),
      (seq ((SAssign (('k'::[]), (EBin (Add, (EVar ('k'::[])), (EInt (Zpos
        XH)))))) :: [])))) :: ((SWhile ((S O), (ECmp (Lt0, (EVar ('k'::[])),
      (EVar ('m'::[])))),
      (seq ((SWhile ((S (S O)), (ECmp (Lt0, (EVar ('t'::[])), (EVar
        ('n'::[])))),
        (seq ((SIf ((S (S (S O))), (ECmp (Ge, (ERead1 ((S (S O)),
          ('t'::('i'::('m'::('e'::('_'::('a'::('r'::('r'::('a'::('y'::[])))))))))),
          (EVar ('t'::[])))), (ERead1 ((S (S (S O))),
          ('s'::('t'::('a'::('r'::('t'::('s'::[])))))), (EVar ('k'::[])))))),
          (seq (SBreak :: [])), SSkip)) :: ((SAssign (('t'::[]), (EBin (Add,
          (EVar ('t'::[])), (EInt (Zpos XH)))))) :: []))))) :: ((SWhile ((S
        (S (S (S O)))), (ECmp (Lt0, (EVar ('t'::[])), (EVar ('n'::[])))),
        (seq ((SIf ((S (S (S (S (S O))))), (ECmp (Gt0, (ERead1 ((S (S (S (S
          O)))),
          ('t'::('i'::('m'::('e'::('_'::('a'::('r'::('r'::('a'::('y'::[])))))))))),
          (EVar ('t'::[])))), (ERead1 ((S (S (S (S (S O))))),
          ('e'::('n'::('d'::('s'::[])))), (EVar ('k'::[])))))),
          (seq ((SAssign (('k'::[]), (EBin (Add, (EVar ('k'::[])), (EInt
            (Zpos XH)))))) :: (SBreak :: []))),
          (seq ((SStore1 ((S (S (S (S (S (S O)))))),
            ('d'::('a'::('t'::('a'::[])))), (EVar ('t'::[])), (EVar
            ('k'::[])))) :: [])))) :: ((SAssign (('t'::[]), (EBin (Add, (EVar
          ('t'::[])), (EInt (Zpos XH)))))) :: []))))) :: ((SIf ((S (S (S (S
        (S (S O)))))), (ECmp (Eq0, (EVar ('k'::[])), (EVar ('m'::[])))),
        (seq (SBreak :: [])), SSkip)) :: ((SIf ((S (S (S (S (S (S (S
        O))))))), (ECmp (Eq0, (EVar ('t'::[])), (EVar ('n'::[])))),
        (seq (SBreak :: [])), SSkip)) :: []))))))) :: ((SReturn ((AVar
      ('d'::('a'::('t'::('a'::[]))))) :: [])) :: []))))))))) }

(** val k_jitremove_nan : func **)

let k_jitremove_nan =
  { fname =
    ('j'::('i'::('t'::('r'::('e'::('m'::('o'::('v'::('e'::('_'::('n'::('a'::('n'::[])))))))))))));
    fparams =
    (('t'::('i'::('m'::('e'::('_'::('a'::('r'::('r'::('a'::('y'::[])))))))))) :: (('i'::('n'::('d'::('e'::('x'::('_'::('n'::('a'::('n'::[]))))))))) :: []));
    flocals =
    (('n'::[]) :: (('i'::('x'::('_'::('s'::('t'::('a'::('r'::('t'::[])))))))) :: (('i'::('x'::('_'::('e'::('n'::('d'::[])))))) :: (('t'::[]) :: (('s'::('t'::('a'::('r'::('t'::('s'::[])))))) :: (('e'::('n'::('d'::('s'::[])))) :: []))))));
    fbody =
    (seq ((SAssign (('n'::[]), (ELen
      ('t'::('i'::('m'::('e'::('_'::('a'::('r'::('r'::('a'::('y'::[]))))))))))))) :: ((SNew1
      (('i'::('x'::('_'::('s'::('t'::('a'::('r'::('t'::[])))))))), DBool,
      (EVar ('n'::[])), (EInt Z0))) :: ((SNew1
      (('i'::('x'::('_'::('e'::('n'::('d'::[])))))), DBool, (EVar ('n'::[])),
      (EInt Z0))) :: ((SIf (O, (ENot (ERead1 (O,
      ('i'::('n'::('d'::('e'::('x'::('_'::('n'::('a'::('n'::[]))))))))),
      (EInt Z0)))),
      (seq ((SStore1 ((S O),
        ('i'::('x'::('_'::('s'::('t'::('a'::('r'::('t'::[])))))))), (EInt
        Z0), (EBool true))) :: [])), SSkip)) :: ((SAssign (('t'::[]), (EInt
      (Zpos XH)))) :: ((SWhile ((S O), (ECmp (Lt0, (EVar ('t'::[])), (EVar
      ('n'::[])))),
      (seq ((SIf ((S (S O)), (EAnd ((ERead1 ((S (S O)),
        ('i'::('n'::('d'::('e'::('x'::('_'::('n'::('a'::('n'::[]))))))))),
        (EBin (Sub, (EVar ('t'::[])), (EInt (Zpos XH)))))), (ENot (ERead1 ((S
        (S (S O))),
        ('i'::('n'::('d'::('e'::('x'::('_'::('n'::('a'::('n'::[]))))))))),
        (EVar ('t'::[]))))))),
        (seq ((SStore1 ((S (S (S (S O)))),
          ('i'::('x'::('_'::('s'::('t'::('a'::('r'::('t'::[])))))))), (EVar
          ('t'::[])), (EBool true))) :: [])), SSkip)) :: ((SIf ((S (S (S
        O))), (EAnd ((ENot (ERead1 ((S (S (S (S (S O))))),
        ('i'::('n'::('d'::('e'::('x'::('_'::('n'::('a'::('n'::[]))))))))),
        (EBin (Sub, (EVar ('t'::[])), (EInt (Zpos XH))))))), (ERead1 ((S (S
        (S (S (S (S O)))))),
        ('i'::('n'::('d'::('e'::('x'::('_'::('n'::('a'::('n'::[]))))))))),
        (EVar ('t'::[])))))),
        (seq ((SStore1 ((S (S (S (S (S (S (S O))))))),
          ('i'::('x'::('_'::('e'::('n'::('d'::[])))))), (EBin (Sub, (EVar
          ('t'::[])), (EInt (Zpos XH)))), (EBool true))) :: [])),
        SSkip)) :: ((SAssign (('t'::[]), (EBin (Add, (EVar ('t'::[])), (EInt
        (Zpos XH)))))) :: [])))))) :: ((SIf ((S (S (S (S O)))), (ENot (ERead1
      ((S (S (S (S (S (S (S (S O)))))))),
      ('i'::('n'::('d'::('e'::('x'::('_'::('n'::('a'::('n'::[]))))))))),
      (EBin (Sub, (ELen
      ('i'::('n'::('d'::('e'::('x'::('_'::('n'::('a'::('n'::[])))))))))),
      (EInt (Zpos XH))))))),
      (seq ((SStore1 ((S (S (S (S (S (S (S (S (S O))))))))),
        ('i'::('x'::('_'::('e'::('n'::('d'::[])))))), (EBin (Sub, (ELen
        ('i'::('x'::('_'::('e'::('n'::('d'::[]))))))), (EInt (Zpos XH)))),
        (EBool true))) :: [])), SSkip)) :: ((SMask ((S (S (S (S (S (S (S (S
      (S (S O)))))))))), ('s'::('t'::('a'::('r'::('t'::('s'::[])))))),
      ('t'::('i'::('m'::('e'::('_'::('a'::('r'::('r'::('a'::('y'::[])))))))))),
      ('i'::('x'::('_'::('s'::('t'::('a'::('r'::('t'::[])))))))))) :: ((SMask
      ((S (S (S (S (S (S (S (S (S (S (S O))))))))))),
      ('e'::('n'::('d'::('s'::[])))),
      ('t'::('i'::('m'::('e'::('_'::('a'::('r'::('r'::('a'::('y'::[])))))))))),
      ('i'::('x'::('_'::('e'::('n'::('d'::[])))))))) :: ((SReturn ((AVar
      ('s'::('t'::('a'::('r'::('t'::('s'::[]))))))) :: ((AVar
      ('e'::('n'::('d'::('s'::[]))))) :: []))) :: []))))))))))) }

(** val k_jitthreshold : func **)

let k_jitthreshold =
  { fname =
    ('j'::('i'::('t'::('t'::('h'::('r'::('e'::('s'::('h'::('o'::('l'::('d'::[]))))))))))));
    fparams =
    (('t'::('i'::('m'::('e'::('_'::('a'::('r'::('r'::('a'::('y'::[])))))))))) :: (('d'::('a'::('t'::('a'::('_'::('a'::('r'::('r'::('a'::('y'::[])))))))))) :: (('s'::('t'::('a'::('r'::('t'::('s'::[])))))) :: (('e'::('n'::('d'::('s'::[])))) :: (('t'::('h'::('r'::[]))) :: (('m'::('e'::('t'::('h'::('o'::('d'::[])))))) :: []))))));
    flocals =
    (('n'::[]) :: (('i'::('x'::[])) :: (('m'::[]) :: (('k'::[]) :: (('i'::('x'::('_'::('s'::('t'::('a'::('r'::('t'::[])))))))) :: (('i'::('x'::('_'::('e'::('n'::('d'::[])))))) :: (('n'::('e'::('w'::('_'::('s'::('t'::('a'::('r'::('t'::[]))))))))) :: (('n'::('e'::('w'::('_'::('e'::('n'::('d'::[]))))))) :: (('t'::[]) :: (('f'::('i'::('r'::('s'::('t'::[]))))) :: (('l'::('a'::('s'::('t'::[])))) :: (('n'::('e'::('w'::('_'::('t'::('i'::('m'::('e'::('_'::('a'::('r'::('r'::('a'::('y'::[])))))))))))))) :: (('n'::('e'::('w'::('_'::('d'::('a'::('t'::('a'::('_'::('a'::('r'::('r'::('a'::('y'::[])))))))))))))) :: (('n'::('e'::('w'::('_'::('s'::('t'::('a'::('r'::('t'::('s'::[])))))))))) :: (('n'::('e'::('w'::('_'::('e'::('n'::('d'::('s'::[])))))))) :: [])))))))))))))));
    fbody =
    (seq ((SAssign (('n'::[]), (ELen
      ('t'::('i'::('m'::('e'::('_'::('a'::('r'::('r'::('a'::('y'::[]))))))))))))) :: ((SIf
      (O, (ECmp (Eq0, (EVar ('m'::('e'::('t'::('h'::('o'::('d'::[]))))))),
      (EInt Z0))),
      (seq ((SCmpArr (('i'::('x'::[])), Gt0,
        ('d'::('a'::('t'::('a'::('_'::('a'::('r'::('r'::('a'::('y'::[])))))))))),
        (EVar ('t'::('h'::('r'::[])))))) :: [])),
      (seq ((SIf ((S O), (ECmp (Eq0, (EVar
        ('m'::('e'::('t'::('h'::('o'::('d'::[]))))))), (EInt (Zpos XH)))),
        (seq ((SCmpArr (('i'::('x'::[])), Lt0,
          ('d'::('a'::('t'::('a'::('_'::('a'::('r'::('r'::('a'::('y'::[])))))))))),
          (EVar ('t'::('h'::('r'::[])))))) :: [])),
        (seq ((SIf ((S (S O)), (ECmp (Eq0, (EVar
          ('m'::('e'::('t'::('h'::('o'::('d'::[]))))))), (EInt (Zpos (XO
          XH))))),
          (seq ((SCmpArr (('i'::('x'::[])), Ge,
            ('d'::('a'::('t'::('a'::('_'::('a'::('r'::('r'::('a'::('y'::[])))))))))),
            (EVar ('t'::('h'::('r'::[])))))) :: [])),
          (seq ((SIf ((S (S (S O))), (ECmp (Eq0, (EVar
            ('m'::('e'::('t'::('h'::('o'::('d'::[]))))))), (EInt (Zpos (XI
            XH))))),
            (seq ((SCmpArr (('i'::('x'::[])), Le,
              ('d'::('a'::('t'::('a'::('_'::('a'::('r'::('r'::('a'::('y'::[])))))))))),
              (EVar ('t'::('h'::('r'::[])))))) :: [])), SSkip)) :: [])))) :: [])))) :: [])))) :: ((SAssign
      (('m'::[]), (ELen
      ('s'::('t'::('a'::('r'::('t'::('s'::[]))))))))) :: ((SAssign
      (('k'::[]), (EInt Z0))) :: ((SNew1
      (('i'::('x'::('_'::('s'::('t'::('a'::('r'::('t'::[])))))))), DBool,
      (EVar ('n'::[])), (EInt Z0))) :: ((SNew1
      (('i'::('x'::('_'::('e'::('n'::('d'::[])))))), DBool, (EVar ('n'::[])),
      (EInt Z0))) :: ((SNew1
      (('n'::('e'::('w'::('_'::('s'::('t'::('a'::('r'::('t'::[]))))))))),
      DFlt, (EVar ('n'::[])), (EInt Z0))) :: ((SNew1
      (('n'::('e'::('w'::('_'::('e'::('n'::('d'::[]))))))), DFlt, (EVar
      ('n'::[])), (EInt Z0))) :: ((SFor ((S (S (S (S O)))), ('t'::[]), (EInt
      Z0), (EVar ('n'::[])),
      (seq ((SWhile ((S (S (S (S (S O))))), (EAnd ((ECmp (Lt0, (EVar
        ('k'::[])), (EBin (Sub, (EVar ('m'::[])), (EInt (Zpos XH)))))), (ECmp
        (Gt0, (ERead1 (O,
        ('t'::('i'::('m'::('e'::('_'::('a'::('r'::('r'::('a'::('y'::[])))))))))),
        (EVar ('t'::[])))), (ERead1 ((S O), ('e'::('n'::('d'::('s'::[])))),
        (EVar ('k'::[])))))))),
        (seq ((SAssign (('k'::[]), (EBin (Add, (EVar ('k'::[])), (EInt (Zpos
          XH)))))) :: [])))) :: ((SIf ((S (S (S (S (S (S O)))))), (ERead1 ((S
        (S O)), ('i'::('x'::[])), (EVar ('t'::[])))),
        (seq ((SAssign (('f'::('i'::('r'::('s'::('t'::[]))))), (EOr ((ECmp
          (Eq0, (EVar ('t'::[])), (EInt Z0))), (EAnd ((ECmp (Gt0, (EVar
          ('m'::[])), (EInt Z0))), (ECmp (Lt0, (ERead1 ((S (S (S O))),
          ('t'::('i'::('m'::('e'::('_'::('a'::('r'::('r'::('a'::('y'::[])))))))))),
          (EBin (Sub, (EVar ('t'::[])), (EInt (Zpos XH)))))), (ERead1 ((S (S
          (S (S O)))), ('s'::('t'::('a'::('r'::('t'::('s'::[])))))), (EVar
          ('k'::[])))))))))))) :: ((SAssign (('l'::('a'::('s'::('t'::[])))),
          (EOr ((ECmp (Eq0, (EVar ('t'::[])), (EBin (Sub, (EVar ('n'::[])),
          (EInt (Zpos XH)))))), (EAnd ((ECmp (Gt0, (EVar ('m'::[])), (EInt
          Z0))), (ECmp (Gt0, (ERead1 ((S (S (S (S (S O))))),
          ('t'::('i'::('m'::('e'::('_'::('a'::('r'::('r'::('a'::('y'::[])))))))))),
          (EBin (Add, (EVar ('t'::[])), (EInt (Zpos XH)))))), (ERead1 ((S (S
          (S (S (S (S O)))))), ('e'::('n'::('d'::('s'::[])))), (EVar
          ('k'::[])))))))))))) :: ((SIf ((S (S (S (S (S (S (S O))))))), (EOr
          ((EVar ('f'::('i'::('r'::('s'::('t'::[])))))), (ENot (ERead1 ((S (S
          (S (S (S (S (S O))))))), ('i'::('x'::[])), (EBin (Sub, (EVar
          ('t'::[])), (EInt (Zpos XH))))))))),
          (seq ((SStore1 ((S (S (S (S (S (S (S (S O)))))))),
            ('i'::('x'::('_'::('s'::('t'::('a'::('r'::('t'::[])))))))), (EVar
            ('t'::[])), (EBool true))) :: ((SIf ((S (S (S (S (S (S (S (S
            O)))))))), (ENot (EVar ('f'::('i'::('r'::('s'::('t'::[]))))))),
            (seq ((SStore1 ((S (S (S (S (S (S (S (S (S (S (S (S
              O)))))))))))),
              ('n'::('e'::('w'::('_'::('s'::('t'::('a'::('r'::('t'::[]))))))))),
              (EVar ('t'::[])), (EBin (Sub, (ERead1 ((S (S (S (S (S (S (S (S
              (S O))))))))),
              ('t'::('i'::('m'::('e'::('_'::('a'::('r'::('r'::('a'::('y'::[])))))))))),
              (EVar ('t'::[])))), (EBin (Div, (EBin (Sub, (ERead1 ((S (S (S
              (S (S (S (S (S (S (S O)))))))))),
              ('t'::('i'::('m'::('e'::('_'::('a'::('r'::('r'::('a'::('y'::[])))))))))),
              (EVar ('t'::[])))), (ERead1 ((S (S (S (S (S (S (S (S (S (S (S
              O))))))))))),
              ('t'::('i'::('m'::('e'::('_'::('a'::('r'::('r'::('a'::('y'::[])))))))))),
              (EBin (Sub, (EVar ('t'::[])), (EInt (Zpos XH)))))))), (EInt
              (Zpos (XO XH))))))))) :: [])),
            (seq ((SIf ((S (S (S (S (S (S (S (S (S O))))))))), (EAnd ((EVar
              ('l'::('a'::('s'::('t'::[]))))), (ECmp (Gt0, (EVar ('m'::[])),
              (EInt Z0))))),
              (seq ((SStore1 ((S (S (S (S (S (S (S (S (S (S (S (S (S (S
                O)))))))))))))),
                ('n'::('e'::('w'::('_'::('s'::('t'::('a'::('r'::('t'::[]))))))))),
                (EVar ('t'::[])), (ERead1 ((S (S (S (S (S (S (S (S (S (S (S
                (S (S O))))))))))))),
                ('s'::('t'::('a'::('r'::('t'::('s'::[])))))), (EVar
                ('k'::[])))))) :: [])),
              (seq ((SStore1 ((S (S (S (S (S (S (S (S (S (S (S (S (S (S (S (S
                O)))))))))))))))),
                ('n'::('e'::('w'::('_'::('s'::('t'::('a'::('r'::('t'::[]))))))))),
                (EVar ('t'::[])), (ERead1 ((S (S (S (S (S (S (S (S (S (S (S
                (S (S (S (S O))))))))))))))),
                ('t'::('i'::('m'::('e'::('_'::('a'::('r'::('r'::('a'::('y'::[])))))))))),
                (EVar ('t'::[])))))) :: [])))) :: [])))) :: []))),
          SSkip)) :: ((SIf ((S (S (S (S (S (S (S (S (S (S O)))))))))), (EOr
          ((EVar ('l'::('a'::('s'::('t'::[]))))), (ENot (ERead1 ((S (S (S (S
          (S (S (S (S (S (S (S (S (S (S (S (S (S O))))))))))))))))),
          ('i'::('x'::[])), (EBin (Add, (EVar ('t'::[])), (EInt (Zpos
          XH))))))))),
          (seq ((SStore1 ((S (S (S (S (S (S (S (S (S (S (S (S (S (S (S (S (S
            (S O)))))))))))))))))),
            ('i'::('x'::('_'::('e'::('n'::('d'::[])))))), (EVar ('t'::[])),
            (EBool true))) :: ((SIf ((S (S (S (S (S (S (S (S (S (S (S
            O))))))))))), (ENot (EVar ('l'::('a'::('s'::('t'::[])))))),
            (seq ((SStore1 ((S (S (S (S (S (S (S (S (S (S (S (S (S (S (S (S
              (S (S (S (S (S (S O)))))))))))))))))))))),
              ('n'::('e'::('w'::('_'::('e'::('n'::('d'::[]))))))), (EVar
              ('t'::[])), (EBin (Sub, (ERead1 ((S (S (S (S (S (S (S (S (S (S
              (S (S (S (S (S (S (S (S (S O))))))))))))))))))),
              ('t'::('i'::('m'::('e'::('_'::('a'::('r'::('r'::('a'::('y'::[])))))))))),
              (EBin (Add, (EVar ('t'::[])), (EInt (Zpos XH)))))), (EBin (Div,
              (EBin (Sub, (ERead1 ((S (S (S (S (S (S (S (S (S (S (S (S (S (S
              (S (S (S (S (S (S O)))))))))))))))))))),
              ('t'::('i'::('m'::('e'::('_'::('a'::('r'::('r'::('a'::('y'::[])))))))))),
              (EBin (Add, (EVar ('t'::[])), (EInt (Zpos XH)))))), (ERead1 ((S
              (S (S (S (S (S (S (S (S (S (S (S (S (S (S (S (S (S (S (S (S
              O))))))))))))))))))))),
              ('t'::('i'::('m'::('e'::('_'::('a'::('r'::('r'::('a'::('y'::[])))))))))),
              (EVar ('t'::[])))))), (EInt (Zpos (XO XH))))))))) :: [])),
            (seq ((SIf ((S (S (S (S (S (S (S (S (S (S (S (S O)))))))))))),
              (EAnd ((EVar ('f'::('i'::('r'::('s'::('t'::[])))))), (ECmp
              (Gt0, (EVar ('m'::[])), (EInt Z0))))),
              (seq ((SStore1 ((S (S (S (S (S (S (S (S (S (S (S (S (S (S (S (S
                (S (S (S (S (S (S (S (S O)))))))))))))))))))))))),
                ('n'::('e'::('w'::('_'::('e'::('n'::('d'::[]))))))), (EVar
                ('t'::[])), (ERead1 ((S (S (S (S (S (S (S (S (S (S (S (S (S
                (S (S (S (S (S (S (S (S (S (S O))))))))))))))))))))))),
                ('e'::('n'::('d'::('s'::[])))), (EVar ('k'::[])))))) :: [])),
              (seq ((SStore1 ((S (S (S (S (S (S (S (S (S (S (S (S (S (S (S (S
                (S (S (S (S (S (S (S (S (S (S O)))))))))))))))))))))))))),
                ('n'::('e'::('w'::('_'::('e'::('n'::('d'::[]))))))), (EVar
                ('t'::[])), (ERead1 ((S (S (S (S (S (S (S (S (S (S (S (S (S
                (S (S (S (S (S (S (S (S (S (S (S (S
                O))))))))))))))))))))))))),
                ('t'::('i'::('m'::('e'::('_'::('a'::('r'::('r'::('a'::('y'::[])))))))))),
                (EVar ('t'::[])))))) :: [])))) :: [])))) :: []))),
          SSkip)) :: []))))), SSkip)) :: []))))) :: ((SMask ((S (S (S (S (S
      (S (S (S (S (S (S (S (S (S (S (S (S (S (S (S (S (S (S (S (S (S (S
      O))))))))))))))))))))))))))),
      ('n'::('e'::('w'::('_'::('t'::('i'::('m'::('e'::('_'::('a'::('r'::('r'::('a'::('y'::[])))))))))))))),
      ('t'::('i'::('m'::('e'::('_'::('a'::('r'::('r'::('a'::('y'::[])))))))))),
      ('i'::('x'::[])))) :: ((SMask ((S (S (S (S (S (S (S (S (S (S (S (S (S
      (S (S (S (S (S (S (S (S (S (S (S (S (S (S (S
      O)))))))))))))))))))))))))))),
      ('n'::('e'::('w'::('_'::('d'::('a'::('t'::('a'::('_'::('a'::('r'::('r'::('a'::('y'::[])))))))))))))),
      ('d'::('a'::('t'::('a'::('_'::('a'::('r'::('r'::('a'::('y'::[])))))))))),
      ('i'::('x'::[])))) :: ((SMask ((S (S (S (S (S (S (S (S (S (S (S (S (S
      (S (S (S (S (S (S (S (S (S (S (S (S (S (S (S (S
      O))))))))))))))))))))))))))))),
      ('n'::('e'::('w'::('_'::('s'::('t'::('a'::('r'::('t'::('s'::[])))))))))),
      ('n'::('e'::('w'::('_'::('s'::('t'::('a'::('r'::('t'::[]))))))))),
      ('i'::('x'::('_'::('s'::('t'::('a'::('r'::('t'::[])))))))))) :: ((SMask
      ((S (S (S (S (S (S (S (S (S (S (S (S (S (S (S (S (S (S (S (S (S (S (S
      (S (S (S (S (S (S (S O)))))))))))))))))))))))))))))),
      ('n'::('e'::('w'::('_'::('e'::('n'::('d'::('s'::[])))))))),
      ('n'::('e'::('w'::('_'::('e'::('n'::('d'::[]))))))),
      ('i'::('x'::('_'::('e'::('n'::('d'::[])))))))) :: ((SReturn ((AVar
      ('n'::('e'::('w'::('_'::('t'::('i'::('m'::('e'::('_'::('a'::('r'::('r'::('a'::('y'::[]))))))))))))))) :: ((AVar
      ('n'::('e'::('w'::('_'::('d'::('a'::('t'::('a'::('_'::('a'::('r'::('r'::('a'::('y'::[]))))))))))))))) :: ((AVar
      ('n'::('e'::('w'::('_'::('s'::('t'::('a'::('r'::('t'::('s'::[]))))))))))) :: ((AVar
      ('n'::('e'::('w'::('_'::('e'::('n'::('d'::('s'::[]))))))))) :: []))))) :: []))))))))))))))) }

(** val k__jitbin_array : func **)

let k__jitbin_array =
  { fname =
    ('_'::('j'::('i'::('t'::('b'::('i'::('n'::('_'::('a'::('r'::('r'::('a'::('y'::[])))))))))))));
    fparams =
    (('c'::('o'::('u'::('n'::('t'::('i'::('n'::[]))))))) :: (('t'::('i'::('m'::('e'::('_'::('a'::('r'::('r'::('a'::('y'::[])))))))))) :: (('d'::('a'::('t'::('a'::('_'::('a'::('r'::('r'::('a'::('y'::[])))))))))) :: (('s'::('t'::('a'::('r'::('t'::('s'::[])))))) :: (('e'::('n'::('d'::('s'::[])))) :: (('b'::('i'::('n'::('_'::('s'::('i'::('z'::('e'::[])))))))) :: []))))));
    flocals =
    (('m'::[]) :: (('n'::('b'::('_'::('b'::('i'::('n'::('s'::[]))))))) :: (('k'::[]) :: (('n'::('b'::[])) :: (('b'::('i'::('n'::('s'::[])))) :: (('c'::('n'::('t'::[]))) :: (('a'::('v'::('e'::('r'::('a'::('g'::('e'::[]))))))) :: (('t'::[]) :: (('b'::[]) :: (('m'::('a'::('x'::('b'::[])))) :: (('m'::('a'::('x'::('t'::[])))) :: (('l'::('b'::('o'::('u'::('n'::('d'::[])))))) :: (('x'::('p'::('o'::('s'::[])))) :: (('r'::('b'::('o'::('u'::('n'::('d'::[])))))) :: (('n'::('e'::('w'::('_'::('t'::('i'::('m'::('e'::('_'::('a'::('r'::('r'::('a'::('y'::[])))))))))))))) :: (('_'::('t'::('0'::[]))) :: (('_'::('t'::('1'::[]))) :: (('n'::('e'::('w'::('_'::('d'::('a'::('t'::('a'::('_'::('a'::('r'::('r'::('a'::('y'::[])))))))))))))) :: []))))))))))))))))));
    fbody =
    (seq ((SAssign (('m'::[]), (ELen
      ('s'::('t'::('a'::('r'::('t'::('s'::[]))))))))) :: ((SNew1
      (('n'::('b'::('_'::('b'::('i'::('n'::('s'::[]))))))), DInt, (EVar
      ('m'::[])), (EInt Z0))) :: ((SFor (O, ('k'::[]), (EInt Z0), (EVar
      ('m'::[])),
      (seq ((SIf ((S O), (ECmp (Gt0, (EBin (Sub, (ERead1 (O,
        ('e'::('n'::('d'::('s'::[])))), (EVar ('k'::[])))), (ERead1 ((S O),
        ('s'::('t'::('a'::('r'::('t'::('s'::[])))))), (EVar ('k'::[])))))),
        (EVar ('b'::('i'::('n'::('_'::('s'::('i'::('z'::('e'::[]))))))))))),
        (seq ((SStore1 ((S (S (S (S O)))),
          ('n'::('b'::('_'::('b'::('i'::('n'::('s'::[]))))))), (EVar
          ('k'::[])), (EUn (ToInt, (EUn (Ceil, (EBin (Div, (EBin (Sub, (EBin
          (Add, (ERead1 ((S (S O)), ('e'::('n'::('d'::('s'::[])))), (EVar
          ('k'::[])))), (EVar
          ('b'::('i'::('n'::('_'::('s'::('i'::('z'::('e'::[]))))))))))),
          (ERead1 ((S (S (S O))),
          ('s'::('t'::('a'::('r'::('t'::('s'::[])))))), (EVar ('k'::[])))))),
          (EVar
          ('b'::('i'::('n'::('_'::('s'::('i'::('z'::('e'::[]))))))))))))))))) :: [])),
        (seq ((SStore1 ((S (S (S (S (S O))))),
          ('n'::('b'::('_'::('b'::('i'::('n'::('s'::[]))))))), (EVar
          ('k'::[])), (EInt (Zpos XH)))) :: [])))) :: [])))) :: ((SAssign
      (('n'::('b'::[])), (ESumAll
      ('n'::('b'::('_'::('b'::('i'::('n'::('s'::[])))))))))) :: ((SNew1
      (('b'::('i'::('n'::('s'::[])))), DFlt, (EVar ('n'::('b'::[]))), (EInt
      Z0))) :: ((SNew1 (('c'::('n'::('t'::[]))), DFlt, (EVar
      ('n'::('b'::[]))), (EInt Z0))) :: ((SNew1
      (('a'::('v'::('e'::('r'::('a'::('g'::('e'::[]))))))), DFlt, (EVar
      ('n'::('b'::[]))), (EInt Z0))) :: ((SAssign (('k'::[]), (EInt
      Z0))) :: ((SAssign (('t'::[]), (EInt Z0))) :: ((SAssign (('b'::[]),
      (EInt Z0))) :: ((SWhile ((S (S O)), (ECmp (Lt0, (EVar ('k'::[])), (EVar
      ('m'::[])))),
      (seq ((SAssign (('m'::('a'::('x'::('b'::[])))), (EBin (Add, (EVar
        ('b'::[])), (ERead1 ((S (S (S (S (S (S O)))))),
        ('n'::('b'::('_'::('b'::('i'::('n'::('s'::[]))))))), (EVar
        ('k'::[])))))))) :: ((SAssign (('m'::('a'::('x'::('t'::[])))), (EBin
        (Add, (EVar ('t'::[])), (ERead1 ((S (S (S (S (S (S (S O))))))),
        ('c'::('o'::('u'::('n'::('t'::('i'::('n'::[]))))))), (EVar
        ('k'::[])))))))) :: ((SAssign
        (('l'::('b'::('o'::('u'::('n'::('d'::[])))))), (ERead1 ((S (S (S (S
        (S (S (S (S O)))))))), ('s'::('t'::('a'::('r'::('t'::('s'::[])))))),
        (EVar ('k'::[])))))) :: ((SWhile ((S (S (S O))), (ECmp (Lt0, (EVar
        ('b'::[])), (EVar ('m'::('a'::('x'::('b'::[]))))))),
        (seq ((SAssign (('x'::('p'::('o'::('s'::[])))), (EUn (Round9, (EBin
          (Add, (EVar ('l'::('b'::('o'::('u'::('n'::('d'::[]))))))), (EBin
          (Div, (EVar
          ('b'::('i'::('n'::('_'::('s'::('i'::('z'::('e'::[]))))))))), (EInt
          (Zpos (XO XH))))))))))) :: ((SIf ((S (S (S (S O)))), (ECmp (Gt0,
          (EUn (Round9, (EBin (Add, (EBin (Mul, (EInt (Zpos (XO XH))), (EVar
          ('l'::('b'::('o'::('u'::('n'::('d'::[]))))))))), (EVar
          ('b'::('i'::('n'::('_'::('s'::('i'::('z'::('e'::[]))))))))))))),
          (EBin (Mul, (EInt (Zpos (XO XH))), (ERead1 ((S (S (S (S (S (S (S (S
          (S O))))))))), ('e'::('n'::('d'::('s'::[])))), (EVar
          ('k'::[])))))))), (seq (SBreak :: [])),
          (seq ((SStore1 ((S (S (S (S (S (S (S (S (S (S O)))))))))),
            ('b'::('i'::('n'::('s'::[])))), (EVar ('b'::[])), (EVar
            ('x'::('p'::('o'::('s'::[]))))))) :: ((SAssign
            (('r'::('b'::('o'::('u'::('n'::('d'::[])))))), (EUn (Round9,
            (EBin (Add, (EVar ('l'::('b'::('o'::('u'::('n'::('d'::[]))))))),
            (EVar
            ('b'::('i'::('n'::('_'::('s'::('i'::('z'::('e'::[]))))))))))))))) :: ((SWhile
            ((S (S (S (S (S O))))), (ECmp (Lt0, (EVar ('t'::[])), (EVar
            ('m'::('a'::('x'::('t'::[]))))))),
            (seq ((SIf ((S (S (S (S (S (S O)))))), (ECmp (Lt0, (ERead1 ((S (S
              (S (S (S (S (S (S (S (S (S O))))))))))),
              ('t'::('i'::('m'::('e'::('_'::('a'::('r'::('r'::('a'::('y'::[])))))))))),
              (EVar ('t'::[])))), (EVar
              ('r'::('b'::('o'::('u'::('n'::('d'::[]))))))))),
              (seq ((SStore1 ((S (S (S (S (S (S (S (S (S (S (S (S (S
                O))))))))))))), ('c'::('n'::('t'::[]))), (EVar ('b'::[])),
                (EBin (Add, (ERead1 ((S (S (S (S (S (S (S (S (S (S (S (S
                O)))))))))))), ('c'::('n'::('t'::[]))), (EVar ('b'::[])))),
                (EFlt { qnum = (Zpos XH); qden = XH }))))) :: ((SStore1 ((S
                (S (S (S (S (S (S (S (S (S (S (S (S (S (S (S
                O)))))))))))))))),
                ('a'::('v'::('e'::('r'::('a'::('g'::('e'::[]))))))), (EVar
                ('b'::[])), (EBin (Add, (ERead1 ((S (S (S (S (S (S (S (S (S
                (S (S (S (S (S O)))))))))))))),
                ('a'::('v'::('e'::('r'::('a'::('g'::('e'::[]))))))), (EVar
                ('b'::[])))), (ERead1 ((S (S (S (S (S (S (S (S (S (S (S (S (S
                (S (S O))))))))))))))),
                ('d'::('a'::('t'::('a'::('_'::('a'::('r'::('r'::('a'::('y'::[])))))))))),
                (EVar ('t'::[])))))))) :: ((SAssign (('t'::[]), (EBin (Add,
                (EVar ('t'::[])), (EInt (Zpos XH)))))) :: [])))),
              (seq (SBreak :: [])))) :: [])))) :: ((SAssign
            (('l'::('b'::('o'::('u'::('n'::('d'::[])))))), (EBin (Add, (EVar
            ('l'::('b'::('o'::('u'::('n'::('d'::[]))))))), (EVar
            ('b'::('i'::('n'::('_'::('s'::('i'::('z'::('e'::[]))))))))))))) :: ((SAssign
            (('l'::('b'::('o'::('u'::('n'::('d'::[])))))), (EUn (Round9,
            (EVar
            ('l'::('b'::('o'::('u'::('n'::('d'::[]))))))))))) :: ((SAssign
            (('b'::[]), (EBin (Add, (EVar ('b'::[])), (EInt (Zpos
            XH)))))) :: []))))))))) :: []))))) :: ((SAssign (('t'::[]), (EVar
        ('m'::('a'::('x'::('t'::[]))))))) :: ((SAssign (('k'::[]), (EBin
        (Add, (EVar ('k'::[])), (EInt (Zpos XH)))))) :: []))))))))) :: ((SSlice
      (('n'::('e'::('w'::('_'::('t'::('i'::('m'::('e'::('_'::('a'::('r'::('r'::('a'::('y'::[])))))))))))))),
      ('b'::('i'::('n'::('s'::[])))), (EInt Z0), (EVar
      ('b'::[])))) :: ((SSlice (('_'::('t'::('0'::[]))),
      ('a'::('v'::('e'::('r'::('a'::('g'::('e'::[]))))))), (EInt Z0), (EVar
      ('b'::[])))) :: ((SSlice (('_'::('t'::('1'::[]))),
      ('c'::('n'::('t'::[]))), (EInt Z0), (EVar ('b'::[])))) :: ((SArrDiv ((S
      (S (S (S (S (S (S (S (S (S (S (S (S (S (S (S (S O))))))))))))))))),
      ('n'::('e'::('w'::('_'::('d'::('a'::('t'::('a'::('_'::('a'::('r'::('r'::('a'::('y'::[])))))))))))))),
      ('_'::('t'::('0'::[]))), ('_'::('t'::('1'::[]))))) :: ((SReturn ((AVar
      ('n'::('e'::('w'::('_'::('t'::('i'::('m'::('e'::('_'::('a'::('r'::('r'::('a'::('y'::[]))))))))))))))) :: ((AVar
      ('n'::('e'::('w'::('_'::('d'::('a'::('t'::('a'::('_'::('a'::('r'::('r'::('a'::('y'::[]))))))))))))))) :: []))) :: []))))))))))))))))) }

(** val k_jitintersect : func **)

let k_jitintersect =
  { fname =
    ('j'::('i'::('t'::('i'::('n'::('t'::('e'::('r'::('s'::('e'::('c'::('t'::[]))))))))))));
    fparams =
    (('s'::('t'::('a'::('r'::('t'::('1'::[])))))) :: (('e'::('n'::('d'::('1'::[])))) :: (('s'::('t'::('a'::('r'::('t'::('2'::[])))))) :: (('e'::('n'::('d'::('2'::[])))) :: []))));
    flocals =
    (('m'::[]) :: (('n'::[]) :: (('i'::[]) :: (('j'::[]) :: (('n'::('e'::('w'::('s'::('t'::('a'::('r'::('t'::[])))))))) :: (('n'::('e'::('w'::('e'::('n'::('d'::[])))))) :: (('n'::('e'::('w'::('m'::('e'::('t'::('a'::[]))))))) :: (('c'::('t'::[])) :: []))))))));
    fbody =
    (seq ((SAssign (('m'::[]), (ELen
      ('s'::('t'::('a'::('r'::('t'::('1'::[]))))))))) :: ((SAssign
      (('n'::[]), (ELen
      ('s'::('t'::('a'::('r'::('t'::('2'::[]))))))))) :: ((SAssign
      (('i'::[]), (EInt Z0))) :: ((SAssign (('j'::[]), (EInt Z0))) :: ((SNew1
      (('n'::('e'::('w'::('s'::('t'::('a'::('r'::('t'::[])))))))), DFlt,
      (EBin (Add, (EVar ('m'::[])), (EVar ('n'::[])))), (EInt
      Z0))) :: ((SNew1 (('n'::('e'::('w'::('e'::('n'::('d'::[])))))), DFlt,
      (EBin (Add, (EVar ('m'::[])), (EVar ('n'::[])))), (EInt
      Z0))) :: ((SNew2 (('n'::('e'::('w'::('m'::('e'::('t'::('a'::[]))))))),
      DInt, (EBin (Add, (EVar ('m'::[])), (EVar ('n'::[])))), (EInt (Zpos (XO
      XH))), (EInt Z0))) :: ((SAssign (('c'::('t'::[])), (EInt
      Z0))) :: ((SWhile (O, (ECmp (Lt0, (EVar ('i'::[])), (EVar ('m'::[])))),
      (seq ((SWhile ((S O), (ECmp (Lt0, (EVar ('j'::[])), (EVar ('n'::[])))),
        (seq ((SIf ((S (S O)), (ECmp (Gt0, (ERead1 (O,
          ('e'::('n'::('d'::('2'::[])))), (EVar ('j'::[])))), (ERead1 ((S O),
          ('s'::('t'::('a'::('r'::('t'::('1'::[])))))), (EVar ('i'::[])))))),
          (seq (SBreak :: [])), SSkip)) :: ((SAssign (('j'::[]), (EBin (Add,
          (EVar ('j'::[])), (EInt (Zpos XH)))))) :: []))))) :: ((SIf ((S (S
        (S O))), (ECmp (Eq0, (EVar ('j'::[])), (EVar ('n'::[])))),
        (seq (SBreak :: [])), SSkip)) :: ((SIf ((S (S (S (S O)))), (ECmp
        (Lt0, (ERead1 ((S (S O)),
        ('s'::('t'::('a'::('r'::('t'::('2'::[])))))), (EVar ('j'::[])))),
        (ERead1 ((S (S (S O))), ('e'::('n'::('d'::('1'::[])))), (EVar
        ('i'::[])))))),
        (seq ((SStore1 ((S (S (S (S (S (S O)))))),
          ('n'::('e'::('w'::('s'::('t'::('a'::('r'::('t'::[])))))))), (EVar
          ('c'::('t'::[]))), (EBin (Max, (ERead1 ((S (S (S (S O)))),
          ('s'::('t'::('a'::('r'::('t'::('1'::[])))))), (EVar ('i'::[])))),
          (ERead1 ((S (S (S (S (S O))))),
          ('s'::('t'::('a'::('r'::('t'::('2'::[])))))), (EVar
          ('j'::[])))))))) :: ((SStore1 ((S (S (S (S (S (S (S (S (S
          O))))))))), ('n'::('e'::('w'::('e'::('n'::('d'::[])))))), (EVar
          ('c'::('t'::[]))), (EBin (Min, (ERead1 ((S (S (S (S (S (S (S
          O))))))), ('e'::('n'::('d'::('1'::[])))), (EVar ('i'::[])))),
          (ERead1 ((S (S (S (S (S (S (S (S O)))))))),
          ('e'::('n'::('d'::('2'::[])))), (EVar ('j'::[])))))))) :: ((SStore2
          ((S (S (S (S (S (S (S (S (S (S O)))))))))),
          ('n'::('e'::('w'::('m'::('e'::('t'::('a'::[]))))))), (EVar
          ('c'::('t'::[]))), (EInt Z0), (EVar ('i'::[])))) :: ((SStore2 ((S
          (S (S (S (S (S (S (S (S (S (S O))))))))))),
          ('n'::('e'::('w'::('m'::('e'::('t'::('a'::[]))))))), (EVar
          ('c'::('t'::[]))), (EInt (Zpos XH)), (EVar
          ('j'::[])))) :: ((SAssign (('c'::('t'::[])), (EBin (Add, (EVar
          ('c'::('t'::[]))), (EInt (Zpos XH)))))) :: ((SIf ((S (S (S (S (S
          O))))), (ECmp (Lt0, (ERead1 ((S (S (S (S (S (S (S (S (S (S (S (S
          O)))))))))))), ('e'::('n'::('d'::('2'::[])))), (EVar ('j'::[])))),
          (ERead1 ((S (S (S (S (S (S (S (S (S (S (S (S (S O))))))))))))),
          ('e'::('n'::('d'::('1'::[])))), (EVar ('i'::[])))))),
          (seq ((SAssign (('j'::[]), (EBin (Add, (EVar ('j'::[])), (EInt
            (Zpos XH)))))) :: [])),
          (seq ((SAssign (('i'::[]), (EBin (Add, (EVar ('i'::[])), (EInt
            (Zpos XH)))))) :: [])))) :: []))))))),
        (seq ((SAssign (('i'::[]), (EBin (Add, (EVar ('i'::[])), (EInt (Zpos
          XH)))))) :: [])))) :: [])))))) :: ((SSlice
      (('n'::('e'::('w'::('s'::('t'::('a'::('r'::('t'::[])))))))),
      ('n'::('e'::('w'::('s'::('t'::('a'::('r'::('t'::[])))))))), (EInt Z0),
      (EVar ('c'::('t'::[]))))) :: ((SSlice
      (('n'::('e'::('w'::('e'::('n'::('d'::[])))))),
      ('n'::('e'::('w'::('e'::('n'::('d'::[])))))), (EInt Z0), (EVar
      ('c'::('t'::[]))))) :: ((SSlice
      (('n'::('e'::('w'::('m'::('e'::('t'::('a'::[]))))))),
      ('n'::('e'::('w'::('m'::('e'::('t'::('a'::[]))))))), (EInt Z0), (EVar
      ('c'::('t'::[]))))) :: ((SReturn ((AVar
      ('n'::('e'::('w'::('s'::('t'::('a'::('r'::('t'::[]))))))))) :: ((AVar
      ('n'::('e'::('w'::('e'::('n'::('d'::[]))))))) :: ((AVar
      ('n'::('e'::('w'::('m'::('e'::('t'::('a'::[])))))))) :: [])))) :: [])))))))))))))) }

(** val k_jitunion : func **)

let k_jitunion =
  { fname = ('j'::('i'::('t'::('u'::('n'::('i'::('o'::('n'::[]))))))));
    fparams =
    (('s'::('t'::('a'::('r'::('t'::('1'::[])))))) :: (('e'::('n'::('d'::('1'::[])))) :: (('s'::('t'::('a'::('r'::('t'::('2'::[])))))) :: (('e'::('n'::('d'::('2'::[])))) :: []))));
    flocals =
    (('m'::[]) :: (('n'::[]) :: (('i'::[]) :: (('j'::[]) :: (('n'::('e'::('w'::('s'::('t'::('a'::('r'::('t'::[])))))))) :: (('n'::('e'::('w'::('e'::('n'::('d'::[])))))) :: (('c'::('t'::[])) :: [])))))));
    fbody =
    (seq ((SAssign (('m'::[]), (ELen
      ('s'::('t'::('a'::('r'::('t'::('1'::[]))))))))) :: ((SAssign
      (('n'::[]), (ELen
      ('s'::('t'::('a'::('r'::('t'::('2'::[]))))))))) :: ((SAssign
      (('i'::[]), (EInt Z0))) :: ((SAssign (('j'::[]), (EInt Z0))) :: ((SNew1
      (('n'::('e'::('w'::('s'::('t'::('a'::('r'::('t'::[])))))))), DFlt,
      (EBin (Add, (EVar ('m'::[])), (EVar ('n'::[])))), (EInt
      Z0))) :: ((SNew1 (('n'::('e'::('w'::('e'::('n'::('d'::[])))))), DFlt,
      (EBin (Add, (EVar ('m'::[])), (EVar ('n'::[])))), (EInt
      Z0))) :: ((SAssign (('c'::('t'::[])), (EInt Z0))) :: ((SWhile (O, (ECmp
      (Lt0, (EVar ('i'::[])), (EVar ('m'::[])))),
      (seq ((SWhile ((S O), (ECmp (Lt0, (EVar ('j'::[])), (EVar ('n'::[])))),
        (seq ((SIf ((S (S O)), (ECmp (Gt0, (ERead1 (O,
          ('e'::('n'::('d'::('2'::[])))), (EVar ('j'::[])))), (ERead1 ((S O),
          ('s'::('t'::('a'::('r'::('t'::('1'::[])))))), (EVar ('i'::[])))))),
          (seq (SBreak :: [])), SSkip)) :: ((SStore1 ((S (S (S O))),
          ('n'::('e'::('w'::('s'::('t'::('a'::('r'::('t'::[])))))))), (EVar
          ('c'::('t'::[]))), (ERead1 ((S (S O)),
          ('s'::('t'::('a'::('r'::('t'::('2'::[])))))), (EVar
          ('j'::[])))))) :: ((SStore1 ((S (S (S (S (S O))))),
          ('n'::('e'::('w'::('e'::('n'::('d'::[])))))), (EVar
          ('c'::('t'::[]))), (ERead1 ((S (S (S (S O)))),
          ('e'::('n'::('d'::('2'::[])))), (EVar ('j'::[])))))) :: ((SAssign
          (('c'::('t'::[])), (EBin (Add, (EVar ('c'::('t'::[]))), (EInt (Zpos
          XH)))))) :: ((SAssign (('j'::[]), (EBin (Add, (EVar ('j'::[])),
          (EInt (Zpos XH)))))) :: [])))))))) :: ((SIf ((S (S (S O))), (ECmp
        (Eq0, (EVar ('j'::[])), (EVar ('n'::[])))), (seq (SBreak :: [])),
        SSkip)) :: ((SIf ((S (S (S (S O)))), (ECmp (Lt0, (ERead1 ((S (S (S (S
        (S (S O)))))), ('s'::('t'::('a'::('r'::('t'::('2'::[])))))), (EVar
        ('j'::[])))), (ERead1 ((S (S (S (S (S (S (S O))))))),
        ('e'::('n'::('d'::('1'::[])))), (EVar ('i'::[])))))),
        (seq ((SStore1 ((S (S (S (S (S (S (S (S (S (S O)))))))))),
          ('n'::('e'::('w'::('s'::('t'::('a'::('r'::('t'::[])))))))), (EVar
          ('c'::('t'::[]))), (EBin (Min, (ERead1 ((S (S (S (S (S (S (S (S
          O)))))))), ('s'::('t'::('a'::('r'::('t'::('1'::[])))))), (EVar
          ('i'::[])))), (ERead1 ((S (S (S (S (S (S (S (S (S O))))))))),
          ('s'::('t'::('a'::('r'::('t'::('2'::[])))))), (EVar
          ('j'::[])))))))) :: ((SWhile ((S (S (S (S (S O))))), (EAnd ((ECmp
          (Lt0, (EVar ('i'::[])), (EVar ('m'::[])))), (ECmp (Lt0, (EVar
          ('j'::[])), (EVar ('n'::[])))))),
          (seq ((SStore1 ((S (S (S (S (S (S (S (S (S (S (S (S (S
            O))))))))))))), ('n'::('e'::('w'::('e'::('n'::('d'::[])))))),
            (EVar ('c'::('t'::[]))), (EBin (Max, (ERead1 ((S (S (S (S (S (S
            (S (S (S (S (S O))))))))))), ('e'::('n'::('d'::('1'::[])))),
            (EVar ('i'::[])))), (ERead1 ((S (S (S (S (S (S (S (S (S (S (S (S
            O)))))))))))), ('e'::('n'::('d'::('2'::[])))), (EVar
            ('j'::[])))))))) :: ((SIf ((S (S (S (S (S (S O)))))), (ECmp (Lt0,
            (ERead1 ((S (S (S (S (S (S (S (S (S (S (S (S (S (S
            O)))))))))))))), ('e'::('n'::('d'::('1'::[])))), (EVar
            ('i'::[])))), (ERead1 ((S (S (S (S (S (S (S (S (S (S (S (S (S (S
            (S O))))))))))))))), ('e'::('n'::('d'::('2'::[])))), (EVar
            ('j'::[])))))),
            (seq ((SAssign (('i'::[]), (EBin (Add, (EVar ('i'::[])), (EInt
              (Zpos XH)))))) :: [])),
            (seq ((SAssign (('j'::[]), (EBin (Add, (EVar ('j'::[])), (EInt
              (Zpos XH)))))) :: [])))) :: ((SIf ((S (S (S (S (S (S (S
            O))))))), (ECmp (Eq0, (EVar ('i'::[])), (EVar ('m'::[])))),
            (seq ((SAssign (('j'::[]), (EBin (Add, (EVar ('j'::[])), (EInt
              (Zpos XH)))))) :: ((SAssign (('c'::('t'::[])), (EBin (Add,
              (EVar ('c'::('t'::[]))), (EInt (Zpos
              XH)))))) :: (SBreak :: [])))), SSkip)) :: ((SIf ((S (S (S (S (S
            (S (S (S O)))))))), (ECmp (Eq0, (EVar ('j'::[])), (EVar
            ('n'::[])))),
            (seq ((SAssign (('i'::[]), (EBin (Add, (EVar ('i'::[])), (EInt
              (Zpos XH)))))) :: ((SAssign (('c'::('t'::[])), (EBin (Add,
              (EVar ('c'::('t'::[]))), (EInt (Zpos
              XH)))))) :: (SBreak :: [])))), SSkip)) :: ((SIf ((S (S (S (S (S
            (S (S (S (S O))))))))), (ECmp (Lt0, (ERead1 ((S (S (S (S (S (S (S
            (S (S (S (S (S (S (S (S (S O)))))))))))))))),
            ('e'::('n'::('d'::('2'::[])))), (EVar ('j'::[])))), (ERead1 ((S
            (S (S (S (S (S (S (S (S (S (S (S (S (S (S (S (S
            O))))))))))))))))), ('s'::('t'::('a'::('r'::('t'::('1'::[])))))),
            (EVar ('i'::[])))))),
            (seq ((SAssign (('j'::[]), (EBin (Add, (EVar ('j'::[])), (EInt
              (Zpos XH)))))) :: ((SAssign (('c'::('t'::[])), (EBin (Add,
              (EVar ('c'::('t'::[]))), (EInt (Zpos
              XH)))))) :: (SBreak :: [])))),
            (seq ((SIf ((S (S (S (S (S (S (S (S (S (S O)))))))))), (ECmp
              (Lt0, (ERead1 ((S (S (S (S (S (S (S (S (S (S (S (S (S (S (S (S
              (S (S O)))))))))))))))))), ('e'::('n'::('d'::('1'::[])))),
              (EVar ('i'::[])))), (ERead1 ((S (S (S (S (S (S (S (S (S (S (S
              (S (S (S (S (S (S (S (S O))))))))))))))))))),
              ('s'::('t'::('a'::('r'::('t'::('2'::[])))))), (EVar
              ('j'::[])))))),
              (seq ((SAssign (('i'::[]), (EBin (Add, (EVar ('i'::[])), (EInt
                (Zpos XH)))))) :: ((SAssign (('c'::('t'::[])), (EBin (Add,
                (EVar ('c'::('t'::[]))), (EInt (Zpos
                XH)))))) :: (SBreak :: [])))), SSkip)) :: [])))) :: [])))))))) :: []))),
        (seq ((SStore1 ((S (S (S (S (S (S (S (S (S (S (S (S (S (S (S (S (S (S
          (S (S (S O))))))))))))))))))))),
          ('n'::('e'::('w'::('s'::('t'::('a'::('r'::('t'::[])))))))), (EVar
          ('c'::('t'::[]))), (ERead1 ((S (S (S (S (S (S (S (S (S (S (S (S (S
          (S (S (S (S (S (S (S O)))))))))))))))))))),
          ('s'::('t'::('a'::('r'::('t'::('1'::[])))))), (EVar
          ('i'::[])))))) :: ((SStore1 ((S (S (S (S (S (S (S (S (S (S (S (S (S
          (S (S (S (S (S (S (S (S (S (S O))))))))))))))))))))))),
          ('n'::('e'::('w'::('e'::('n'::('d'::[])))))), (EVar
          ('c'::('t'::[]))), (ERead1 ((S (S (S (S (S (S (S (S (S (S (S (S (S
          (S (S (S (S (S (S (S (S (S O)))))))))))))))))))))),
          ('e'::('n'::('d'::('1'::[])))), (EVar ('i'::[])))))) :: ((SAssign
          (('c'::('t'::[])), (EBin (Add, (EVar ('c'::('t'::[]))), (EInt (Zpos
          XH)))))) :: ((SAssign (('i'::[]), (EBin (Add, (EVar ('i'::[])),
          (EInt (Zpos XH)))))) :: []))))))) :: [])))))) :: ((SWhile ((S (S (S
      (S (S (S (S (S (S (S (S O))))))))))), (ECmp (Lt0, (EVar ('i'::[])),
      (EVar ('m'::[])))),
      (seq ((SStore1 ((S (S (S (S (S (S (S (S (S (S (S (S (S (S (S (S (S (S
        (S (S (S (S (S (S (S O))))))))))))))))))))))))),
        ('n'::('e'::('w'::('s'::('t'::('a'::('r'::('t'::[])))))))), (EVar
        ('c'::('t'::[]))), (ERead1 ((S (S (S (S (S (S (S (S (S (S (S (S (S (S
        (S (S (S (S (S (S (S (S (S (S O)))))))))))))))))))))))),
        ('s'::('t'::('a'::('r'::('t'::('1'::[])))))), (EVar
        ('i'::[])))))) :: ((SStore1 ((S (S (S (S (S (S (S (S (S (S (S (S (S
        (S (S (S (S (S (S (S (S (S (S (S (S (S (S
        O))))))))))))))))))))))))))),
        ('n'::('e'::('w'::('e'::('n'::('d'::[])))))), (EVar
        ('c'::('t'::[]))), (ERead1 ((S (S (S (S (S (S (S (S (S (S (S (S (S (S
        (S (S (S (S (S (S (S (S (S (S (S (S O)))))))))))))))))))))))))),
        ('e'::('n'::('d'::('1'::[])))), (EVar ('i'::[])))))) :: ((SAssign
        (('c'::('t'::[])), (EBin (Add, (EVar ('c'::('t'::[]))), (EInt (Zpos
        XH)))))) :: ((SAssign (('i'::[]), (EBin (Add, (EVar ('i'::[])), (EInt
        (Zpos XH)))))) :: []))))))) :: ((SWhile ((S (S (S (S (S (S (S (S (S
      (S (S (S O)))))))))))), (ECmp (Lt0, (EVar ('j'::[])), (EVar
      ('n'::[])))),
      (seq ((SStore1 ((S (S (S (S (S (S (S (S (S (S (S (S (S (S (S (S (S (S
        (S (S (S (S (S (S (S (S (S (S (S O))))))))))))))))))))))))))))),
        ('n'::('e'::('w'::('s'::('t'::('a'::('r'::('t'::[])))))))), (EVar
        ('c'::('t'::[]))), (ERead1 ((S (S (S (S (S (S (S (S (S (S (S (S (S (S
        (S (S (S (S (S (S (S (S (S (S (S (S (S (S
        O)))))))))))))))))))))))))))),
        ('s'::('t'::('a'::('r'::('t'::('2'::[])))))), (EVar
        ('j'::[])))))) :: ((SStore1 ((S (S (S (S (S (S (S (S (S (S (S (S (S
        (S (S (S (S (S (S (S (S (S (S (S (S (S (S (S (S (S (S
        O))))))))))))))))))))))))))))))),
        ('n'::('e'::('w'::('e'::('n'::('d'::[])))))), (EVar
        ('c'::('t'::[]))), (ERead1 ((S (S (S (S (S (S (S (S (S (S (S (S (S (S
        (S (S (S (S (S (S (S (S (S (S (S (S (S (S (S (S
        O)))))))))))))))))))))))))))))), ('e'::('n'::('d'::('2'::[])))),
        (EVar ('j'::[])))))) :: ((SAssign (('c'::('t'::[])), (EBin (Add,
        (EVar ('c'::('t'::[]))), (EInt (Zpos XH)))))) :: ((SAssign
        (('j'::[]), (EBin (Add, (EVar ('j'::[])), (EInt (Zpos
        XH)))))) :: []))))))) :: ((SSlice
      (('n'::('e'::('w'::('s'::('t'::('a'::('r'::('t'::[])))))))),
      ('n'::('e'::('w'::('s'::('t'::('a'::('r'::('t'::[])))))))), (EInt Z0),
      (EVar ('c'::('t'::[]))))) :: ((SSlice
      (('n'::('e'::('w'::('e'::('n'::('d'::[])))))),
      ('n'::('e'::('w'::('e'::('n'::('d'::[])))))), (EInt Z0), (EVar
      ('c'::('t'::[]))))) :: ((SReturn ((AVar
      ('n'::('e'::('w'::('s'::('t'::('a'::('r'::('t'::[]))))))))) :: ((AVar
      ('n'::('e'::('w'::('e'::('n'::('d'::[]))))))) :: []))) :: [])))))))))))))) }

(** val k_jitdiff : func **)

let k_jitdiff =
  { fname = ('j'::('i'::('t'::('d'::('i'::('f'::('f'::[]))))))); fparams =
    (('s'::('t'::('a'::('r'::('t'::('1'::[])))))) :: (('e'::('n'::('d'::('1'::[])))) :: (('s'::('t'::('a'::('r'::('t'::('2'::[])))))) :: (('e'::('n'::('d'::('2'::[])))) :: []))));
    flocals =
    (('m'::[]) :: (('n'::[]) :: (('i'::[]) :: (('j'::[]) :: (('n'::('e'::('w'::('s'::('t'::('a'::('r'::('t'::[])))))))) :: (('n'::('e'::('w'::('e'::('n'::('d'::[])))))) :: (('n'::('e'::('w'::('m'::('e'::('t'::('a'::[]))))))) :: (('c'::('t'::[])) :: []))))))));
    fbody =
    (seq ((SAssign (('m'::[]), (ELen
      ('s'::('t'::('a'::('r'::('t'::('1'::[]))))))))) :: ((SAssign
      (('n'::[]), (ELen
      ('s'::('t'::('a'::('r'::('t'::('2'::[]))))))))) :: ((SAssign
      (('i'::[]), (EInt Z0))) :: ((SAssign (('j'::[]), (EInt Z0))) :: ((SNew1
      (('n'::('e'::('w'::('s'::('t'::('a'::('r'::('t'::[])))))))), DFlt,
      (EBin (Add, (EVar ('m'::[])), (EVar ('n'::[])))), (EInt
      Z0))) :: ((SNew1 (('n'::('e'::('w'::('e'::('n'::('d'::[])))))), DFlt,
      (EBin (Add, (EVar ('m'::[])), (EVar ('n'::[])))), (EInt
      Z0))) :: ((SNew1 (('n'::('e'::('w'::('m'::('e'::('t'::('a'::[]))))))),
      DInt, (EBin (Add, (EVar ('m'::[])), (EVar ('n'::[])))), (EInt
      Z0))) :: ((SAssign (('c'::('t'::[])), (EInt Z0))) :: ((SWhile (O, (ECmp
      (Lt0, (EVar ('i'::[])), (EVar ('m'::[])))),
      (seq ((SWhile ((S O), (ECmp (Lt0, (EVar ('j'::[])), (EVar ('n'::[])))),
        (seq ((SIf ((S (S O)), (ECmp (Gt0, (ERead1 (O,
          ('e'::('n'::('d'::('2'::[])))), (EVar ('j'::[])))), (ERead1 ((S O),
          ('s'::('t'::('a'::('r'::('t'::('1'::[])))))), (EVar ('i'::[])))))),
          (seq (SBreak :: [])), SSkip)) :: ((SAssign (('j'::[]), (EBin (Add,
          (EVar ('j'::[])), (EInt (Zpos XH)))))) :: []))))) :: ((SIf ((S (S
        (S O))), (ECmp (Eq0, (EVar ('j'::[])), (EVar ('n'::[])))),
        (seq (SBreak :: [])), SSkip)) :: ((SIf ((S (S (S (S O)))), (ECmp
        (Lt0, (ERead1 ((S (S O)),
        ('s'::('t'::('a'::('r'::('t'::('2'::[])))))), (EVar ('j'::[])))),
        (ERead1 ((S (S (S O))), ('e'::('n'::('d'::('1'::[])))), (EVar
        ('i'::[])))))),
        (seq ((SIf ((S (S (S (S (S O))))), (EAnd ((ECmp (Lt0, (ERead1 ((S (S
          (S (S O)))), ('s'::('t'::('a'::('r'::('t'::('2'::[])))))), (EVar
          ('j'::[])))), (ERead1 ((S (S (S (S (S O))))),
          ('s'::('t'::('a'::('r'::('t'::('1'::[])))))), (EVar ('i'::[])))))),
          (ECmp (Lt0, (ERead1 ((S (S (S (S (S (S O)))))),
          ('e'::('n'::('d'::('1'::[])))), (EVar ('i'::[])))), (ERead1 ((S (S
          (S (S (S (S (S O))))))), ('e'::('n'::('d'::('2'::[])))), (EVar
          ('j'::[])))))))),
          (seq ((SAssign (('i'::[]), (EBin (Add, (EVar ('i'::[])), (EInt
            (Zpos XH)))))) :: [])),
          (seq ((SIf ((S (S (S (S (S (S O)))))), (ECmp (Gt0, (ERead1 ((S (S
            (S (S (S (S (S (S O)))))))),
            ('s'::('t'::('a'::('r'::('t'::('2'::[])))))), (EVar ('j'::[])))),
            (ERead1 ((S (S (S (S (S (S (S (S (S O))))))))),
            ('s'::('t'::('a'::('r'::('t'::('1'::[])))))), (EVar
            ('i'::[])))))),
            (seq ((SStore1 ((S (S (S (S (S (S (S (S (S (S (S O))))))))))),
              ('n'::('e'::('w'::('s'::('t'::('a'::('r'::('t'::[])))))))),
              (EVar ('c'::('t'::[]))), (ERead1 ((S (S (S (S (S (S (S (S (S (S
              O)))))))))), ('s'::('t'::('a'::('r'::('t'::('1'::[])))))),
              (EVar ('i'::[])))))) :: ((SStore1 ((S (S (S (S (S (S (S (S (S
              (S (S (S (S O))))))))))))),
              ('n'::('e'::('w'::('e'::('n'::('d'::[])))))), (EVar
              ('c'::('t'::[]))), (ERead1 ((S (S (S (S (S (S (S (S (S (S (S (S
              O)))))))))))), ('s'::('t'::('a'::('r'::('t'::('2'::[])))))),
              (EVar ('j'::[])))))) :: ((SStore1 ((S (S (S (S (S (S (S (S (S
              (S (S (S (S (S O)))))))))))))),
              ('n'::('e'::('w'::('m'::('e'::('t'::('a'::[]))))))), (EVar
              ('c'::('t'::[]))), (EVar ('i'::[])))) :: ((SAssign
              (('c'::('t'::[])), (EBin (Add, (EVar ('c'::('t'::[]))), (EInt
              (Zpos XH)))))) :: ((SAssign (('j'::[]), (EBin (Add, (EVar
              ('j'::[])), (EInt (Zpos XH)))))) :: [])))))),
            (seq ((SStore1 ((S (S (S (S (S (S (S (S (S (S (S (S (S (S (S (S
              O)))))))))))))))),
              ('n'::('e'::('w'::('s'::('t'::('a'::('r'::('t'::[])))))))),
              (EVar ('c'::('t'::[]))), (ERead1 ((S (S (S (S (S (S (S (S (S (S
              (S (S (S (S (S O))))))))))))))),
              ('e'::('n'::('d'::('2'::[])))), (EVar
              ('j'::[])))))) :: ((SStore1 ((S (S (S (S (S (S (S (S (S (S (S
              (S (S (S (S (S (S (S O)))))))))))))))))),
              ('n'::('e'::('w'::('e'::('n'::('d'::[])))))), (EVar
              ('c'::('t'::[]))), (ERead1 ((S (S (S (S (S (S (S (S (S (S (S (S
              (S (S (S (S (S O))))))))))))))))),
              ('e'::('n'::('d'::('1'::[])))), (EVar
              ('i'::[])))))) :: ((SStore1 ((S (S (S (S (S (S (S (S (S (S (S
              (S (S (S (S (S (S (S (S O))))))))))))))))))),
              ('n'::('e'::('w'::('m'::('e'::('t'::('a'::[]))))))), (EVar
              ('c'::('t'::[]))), (EVar ('i'::[])))) :: ((SAssign (('j'::[]),
              (EBin (Add, (EVar ('j'::[])), (EInt (Zpos XH)))))) :: []))))))) :: ((SWhile
            ((S (S (S (S (S (S (S O))))))), (ECmp (Lt0, (EVar ('j'::[])),
            (EVar ('n'::[])))),
            (seq ((SIf ((S (S (S (S (S (S (S (S O)))))))), (ECmp (Lt0,
              (ERead1 ((S (S (S (S (S (S (S (S (S (S (S (S (S (S (S (S (S (S
              (S (S O)))))))))))))))))))),
              ('s'::('t'::('a'::('r'::('t'::('2'::[])))))), (EVar
              ('j'::[])))), (ERead1 ((S (S (S (S (S (S (S (S (S (S (S (S (S
              (S (S (S (S (S (S (S (S O))))))))))))))))))))),
              ('e'::('n'::('d'::('1'::[])))), (EVar ('i'::[])))))),
              (seq ((SStore1 ((S (S (S (S (S (S (S (S (S (S (S (S (S (S (S (S
                (S (S (S (S (S (S (S O))))))))))))))))))))))),
                ('n'::('e'::('w'::('s'::('t'::('a'::('r'::('t'::[])))))))),
                (EVar ('c'::('t'::[]))), (ERead1 ((S (S (S (S (S (S (S (S (S
                (S (S (S (S (S (S (S (S (S (S (S (S (S
                O)))))))))))))))))))))), ('e'::('n'::('d'::('2'::[])))),
                (EBin (Sub, (EVar ('j'::[])), (EInt (Zpos
                XH)))))))) :: ((SStore1 ((S (S (S (S (S (S (S (S (S (S (S (S
                (S (S (S (S (S (S (S (S (S (S (S (S (S
                O))))))))))))))))))))))))),
                ('n'::('e'::('w'::('e'::('n'::('d'::[])))))), (EVar
                ('c'::('t'::[]))), (ERead1 ((S (S (S (S (S (S (S (S (S (S (S
                (S (S (S (S (S (S (S (S (S (S (S (S (S
                O)))))))))))))))))))))))),
                ('s'::('t'::('a'::('r'::('t'::('2'::[])))))), (EVar
                ('j'::[])))))) :: ((SStore1 ((S (S (S (S (S (S (S (S (S (S (S
                (S (S (S (S (S (S (S (S (S (S (S (S (S (S (S
                O)))))))))))))))))))))))))),
                ('n'::('e'::('w'::('m'::('e'::('t'::('a'::[]))))))), (EVar
                ('c'::('t'::[]))), (EVar ('i'::[])))) :: ((SAssign
                (('c'::('t'::[])), (EBin (Add, (EVar ('c'::('t'::[]))), (EInt
                (Zpos XH)))))) :: ((SAssign (('j'::[]), (EBin (Add, (EVar
                ('j'::[])), (EInt (Zpos XH)))))) :: [])))))),
              (seq (SBreak :: [])))) :: [])))) :: ((SIf ((S (S (S (S (S (S (S
            (S (S O))))))))), (ECmp (Lt0, (ERead1 ((S (S (S (S (S (S (S (S (S
            (S (S (S (S (S (S (S (S (S (S (S (S (S (S (S (S (S (S
            O))))))))))))))))))))))))))), ('e'::('n'::('d'::('2'::[])))),
            (EBin (Sub, (EVar ('j'::[])), (EInt (Zpos XH)))))), (ERead1 ((S
            (S (S (S (S (S (S (S (S (S (S (S (S (S (S (S (S (S (S (S (S (S (S
            (S (S (S (S (S O)))))))))))))))))))))))))))),
            ('e'::('n'::('d'::('1'::[])))), (EVar ('i'::[])))))),
            (seq ((SStore1 ((S (S (S (S (S (S (S (S (S (S (S (S (S (S (S (S
              (S (S (S (S (S (S (S (S (S (S (S (S (S (S
              O)))))))))))))))))))))))))))))),
              ('n'::('e'::('w'::('s'::('t'::('a'::('r'::('t'::[])))))))),
              (EVar ('c'::('t'::[]))), (ERead1 ((S (S (S (S (S (S (S (S (S (S
              (S (S (S (S (S (S (S (S (S (S (S (S (S (S (S (S (S (S (S
              O))))))))))))))))))))))))))))), ('e'::('n'::('d'::('2'::[])))),
              (EBin (Sub, (EVar ('j'::[])), (EInt (Zpos
              XH)))))))) :: ((SStore1 ((S (S (S (S (S (S (S (S (S (S (S (S (S
              (S (S (S (S (S (S (S (S (S (S (S (S (S (S (S (S (S (S (S
              O)))))))))))))))))))))))))))))))),
              ('n'::('e'::('w'::('e'::('n'::('d'::[])))))), (EVar
              ('c'::('t'::[]))), (ERead1 ((S (S (S (S (S (S (S (S (S (S (S (S
              (S (S (S (S (S (S (S (S (S (S (S (S (S (S (S (S (S (S (S
              O))))))))))))))))))))))))))))))),
              ('e'::('n'::('d'::('1'::[])))), (EVar
              ('i'::[])))))) :: ((SStore1 ((S (S (S (S (S (S (S (S (S (S (S
              (S (S (S (S (S (S (S (S (S (S (S (S (S (S (S (S (S (S (S (S (S
              (S O))))))))))))))))))))))))))))))))),
              ('n'::('e'::('w'::('m'::('e'::('t'::('a'::[]))))))), (EVar
              ('c'::('t'::[]))), (EVar ('i'::[])))) :: ((SAssign
              (('c'::('t'::[])), (EBin (Add, (EVar ('c'::('t'::[]))), (EInt
              (Zpos XH)))))) :: []))))),
            (seq ((SAssign (('j'::[]), (EBin (Sub, (EVar ('j'::[])), (EInt
              (Zpos XH)))))) :: [])))) :: ((SAssign (('i'::[]), (EBin (Add,
            (EVar ('i'::[])), (EInt (Zpos XH)))))) :: []))))))) :: [])),
        (seq ((SStore1 ((S (S (S (S (S (S (S (S (S (S (S (S (S (S (S (S (S (S
          (S (S (S (S (S (S (S (S (S (S (S (S (S (S (S (S (S
          O))))))))))))))))))))))))))))))))))),
          ('n'::('e'::('w'::('s'::('t'::('a'::('r'::('t'::[])))))))), (EVar
          ('c'::('t'::[]))), (ERead1 ((S (S (S (S (S (S (S (S (S (S (S (S (S
          (S (S (S (S (S (S (S (S (S (S (S (S (S (S (S (S (S (S (S (S (S
          O)))))))))))))))))))))))))))))))))),
          ('s'::('t'::('a'::('r'::('t'::('1'::[])))))), (EVar
          ('i'::[])))))) :: ((SStore1 ((S (S (S (S (S (S (S (S (S (S (S (S (S
          (S (S (S (S (S (S (S (S (S (S (S (S (S (S (S (S (S (S (S (S (S (S
          (S (S O))))))))))))))))))))))))))))))))))))),
          ('n'::('e'::('w'::('e'::('n'::('d'::[])))))), (EVar
          ('c'::('t'::[]))), (ERead1 ((S (S (S (S (S (S (S (S (S (S (S (S (S
          (S (S (S (S (S (S (S (S (S (S (S (S (S (S (S (S (S (S (S (S (S (S
          (S O)))))))))))))))))))))))))))))))))))),
          ('e'::('n'::('d'::('1'::[])))), (EVar ('i'::[])))))) :: ((SStore1
          ((S (S (S (S (S (S (S (S (S (S (S (S (S (S (S (S (S (S (S (S (S (S
          (S (S (S (S (S (S (S (S (S (S (S (S (S (S (S (S
          O)))))))))))))))))))))))))))))))))))))),
          ('n'::('e'::('w'::('m'::('e'::('t'::('a'::[]))))))), (EVar
          ('c'::('t'::[]))), (EVar ('i'::[])))) :: ((SAssign
          (('c'::('t'::[])), (EBin (Add, (EVar ('c'::('t'::[]))), (EInt (Zpos
          XH)))))) :: ((SAssign (('i'::[]), (EBin (Add, (EVar ('i'::[])),
          (EInt (Zpos XH)))))) :: [])))))))) :: [])))))) :: ((SWhile ((S (S
      (S (S (S (S (S (S (S (S O)))))))))), (ECmp (Lt0, (EVar ('i'::[])),
      (EVar ('m'::[])))),
      (seq ((SStore1 ((S (S (S (S (S (S (S (S (S (S (S (S (S (S (S (S (S (S
        (S (S (S (S (S (S (S (S (S (S (S (S (S (S (S (S (S (S (S (S (S (S
        O)))))))))))))))))))))))))))))))))))))))),
        ('n'::('e'::('w'::('s'::('t'::('a'::('r'::('t'::[])))))))), (EVar
        ('c'::('t'::[]))), (ERead1 ((S (S (S (S (S (S (S (S (S (S (S (S (S (S
        (S (S (S (S (S (S (S (S (S (S (S (S (S (S (S (S (S (S (S (S (S (S (S
        (S (S O))))))))))))))))))))))))))))))))))))))),
        ('s'::('t'::('a'::('r'::('t'::('1'::[])))))), (EVar
        ('i'::[])))))) :: ((SStore1 ((S (S (S (S (S (S (S (S (S (S (S (S (S
        (S (S (S (S (S (S (S (S (S (S (S (S (S (S (S (S (S (S (S (S (S (S (S
        (S (S (S (S (S (S O)))))))))))))))))))))))))))))))))))))))))),
        ('n'::('e'::('w'::('e'::('n'::('d'::[])))))), (EVar
        ('c'::('t'::[]))), (ERead1 ((S (S (S (S (S (S (S (S (S (S (S (S (S (S
        (S (S (S (S (S (S (S (S (S (S (S (S (S (S (S (S (S (S (S (S (S (S (S
        (S (S (S (S O))))))))))))))))))))))))))))))))))))))))),
        ('e'::('n'::('d'::('1'::[])))), (EVar ('i'::[])))))) :: ((SStore1 ((S
        (S (S (S (S (S (S (S (S (S (S (S (S (S (S (S (S (S (S (S (S (S (S (S
        (S (S (S (S (S (S (S (S (S (S (S (S (S (S (S (S (S (S (S
        O))))))))))))))))))))))))))))))))))))))))))),
        ('n'::('e'::('w'::('m'::('e'::('t'::('a'::[]))))))), (EVar
        ('c'::('t'::[]))), (EVar ('i'::[])))) :: ((SAssign (('c'::('t'::[])),
        (EBin (Add, (EVar ('c'::('t'::[]))), (EInt (Zpos
        XH)))))) :: ((SAssign (('i'::[]), (EBin (Add, (EVar ('i'::[])), (EInt
        (Zpos XH)))))) :: [])))))))) :: ((SSlice
      (('n'::('e'::('w'::('s'::('t'::('a'::('r'::('t'::[])))))))),
      ('n'::('e'::('w'::('s'::('t'::('a'::('r'::('t'::[])))))))), (EInt Z0),
      (EVar ('c'::('t'::[]))))) :: ((SSlice
      (('n'::('e'::('w'::('e'::('n'::('d'::[])))))),
      ('n'::('e'::('w'::('e'::('n'::('d'::[])))))), (EInt Z0), (EVar
      ('c'::('t'::[]))))) :: ((SSlice
      (('n'::('e'::('w'::('m'::('e'::('t'::('a'::[]))))))),
      ('n'::('e'::('w'::('m'::('e'::('t'::('a'::[]))))))), (EInt Z0), (EVar
      ('c'::('t'::[]))))) :: ((SReturn ((AVar
      ('n'::('e'::('w'::('s'::('t'::('a'::('r'::('t'::[]))))))))) :: ((AVar
      ('n'::('e'::('w'::('e'::('n'::('d'::[]))))))) :: ((AVar
      ('n'::('e'::('w'::('m'::('e'::('t'::('a'::[])))))))) :: [])))) :: []))))))))))))))) }

(** val k_jitunion_isets : func **)

let k_jitunion_isets =
  { fname =
    ('j'::('i'::('t'::('u'::('n'::('i'::('o'::('n'::('_'::('i'::('s'::('e'::('t'::('s'::[]))))))))))))));
    fparams =
    (('s'::('t'::('a'::('r'::('t'::('s'::[])))))) :: (('e'::('n'::('d'::('s'::[])))) :: []));
    flocals =
    (('i'::('d'::('x'::[]))) :: (('n'::[]) :: (('n'::('e'::('w'::('_'::('s'::('t'::('a'::('r'::('t'::[]))))))))) :: (('n'::('e'::('w'::('_'::('e'::('n'::('d'::[]))))))) :: (('c'::('t'::[])) :: (('e'::[]) :: (('i'::[]) :: [])))))));
    fbody =
    (seq ((SArgsort (('i'::('d'::('x'::[]))),
      ('s'::('t'::('a'::('r'::('t'::('s'::[])))))))) :: ((SGather (O,
      ('s'::('t'::('a'::('r'::('t'::('s'::[])))))),
      ('s'::('t'::('a'::('r'::('t'::('s'::[])))))),
      ('i'::('d'::('x'::[]))))) :: ((SGather ((S O),
      ('e'::('n'::('d'::('s'::[])))), ('e'::('n'::('d'::('s'::[])))),
      ('i'::('d'::('x'::[]))))) :: ((SAssign (('n'::[]), (ELen
      ('s'::('t'::('a'::('r'::('t'::('s'::[]))))))))) :: ((SNew1
      (('n'::('e'::('w'::('_'::('s'::('t'::('a'::('r'::('t'::[]))))))))),
      DFlt, (EVar ('n'::[])), (EInt Z0))) :: ((SNew1
      (('n'::('e'::('w'::('_'::('e'::('n'::('d'::[]))))))), DFlt, (EVar
      ('n'::[])), (EInt Z0))) :: ((SIf (O, (ECmp (Eq0, (EVar ('n'::[])),
      (EInt Z0))),
      (seq ((SReturn ((AVar
        ('n'::('e'::('w'::('_'::('s'::('t'::('a'::('r'::('t'::[])))))))))) :: ((AVar
        ('n'::('e'::('w'::('_'::('e'::('n'::('d'::[])))))))) :: []))) :: [])),
      SSkip)) :: ((SAssign (('c'::('t'::[])), (EInt Z0))) :: ((SStore1 ((S (S
      (S O))),
      ('n'::('e'::('w'::('_'::('s'::('t'::('a'::('r'::('t'::[]))))))))),
      (EVar ('c'::('t'::[]))), (ERead1 ((S (S O)),
      ('s'::('t'::('a'::('r'::('t'::('s'::[])))))), (EInt
      Z0))))) :: ((SAssign (('e'::[]), (ERead1 ((S (S (S (S O)))),
      ('e'::('n'::('d'::('s'::[])))), (EInt Z0))))) :: ((SAssign (('i'::[]),
      (EInt (Zpos XH)))) :: ((SWhile ((S O), (ECmp (Lt0, (EVar ('i'::[])),
      (EVar ('n'::[])))),
      (seq ((SIf ((S (S O)), (ECmp (Gt0, (ERead1 ((S (S (S (S (S O))))),
        ('s'::('t'::('a'::('r'::('t'::('s'::[])))))), (EVar ('i'::[])))),
        (EVar ('e'::[])))),
        (seq ((SStore1 ((S (S (S (S (S (S O)))))),
          ('n'::('e'::('w'::('_'::('e'::('n'::('d'::[]))))))), (EVar
          ('c'::('t'::[]))), (EVar ('e'::[])))) :: ((SAssign
          (('c'::('t'::[])), (EBin (Add, (EVar ('c'::('t'::[]))), (EInt (Zpos
          XH)))))) :: ((SStore1 ((S (S (S (S (S (S (S (S O)))))))),
          ('n'::('e'::('w'::('_'::('s'::('t'::('a'::('r'::('t'::[]))))))))),
          (EVar ('c'::('t'::[]))), (ERead1 ((S (S (S (S (S (S (S O))))))),
          ('s'::('t'::('a'::('r'::('t'::('s'::[])))))), (EVar
          ('i'::[])))))) :: ((SAssign (('e'::[]), (ERead1 ((S (S (S (S (S (S
          (S (S (S O))))))))), ('e'::('n'::('d'::('s'::[])))), (EVar
          ('i'::[])))))) :: []))))),
        (seq ((SAssign (('e'::[]), (EBin (Max, (EVar ('e'::[])), (ERead1 ((S
          (S (S (S (S (S (S (S (S (S O)))))))))),
          ('e'::('n'::('d'::('s'::[])))), (EVar ('i'::[])))))))) :: [])))) :: ((SAssign
        (('i'::[]), (EBin (Add, (EVar ('i'::[])), (EInt (Zpos
        XH)))))) :: []))))) :: ((SStore1 ((S (S (S (S (S (S (S (S (S (S (S
      O))))))))))), ('n'::('e'::('w'::('_'::('e'::('n'::('d'::[]))))))),
      (EVar ('c'::('t'::[]))), (EVar ('e'::[])))) :: ((SAssign
      (('c'::('t'::[])), (EBin (Add, (EVar ('c'::('t'::[]))), (EInt (Zpos
      XH)))))) :: ((SSlice
      (('n'::('e'::('w'::('_'::('s'::('t'::('a'::('r'::('t'::[]))))))))),
      ('n'::('e'::('w'::('_'::('s'::('t'::('a'::('r'::('t'::[]))))))))),
      (EInt Z0), (EVar ('c'::('t'::[]))))) :: ((SSlice
      (('n'::('e'::('w'::('_'::('e'::('n'::('d'::[]))))))),
      ('n'::('e'::('w'::('_'::('e'::('n'::('d'::[]))))))), (EInt Z0), (EVar
      ('c'::('t'::[]))))) :: ((SReturn ((AVar
      ('n'::('e'::('w'::('_'::('s'::('t'::('a'::('r'::('t'::[])))))))))) :: ((AVar
      ('n'::('e'::('w'::('_'::('e'::('n'::('d'::[])))))))) :: []))) :: [])))))))))))))))))) }

(** val k__jitfix_iset : func **)

let k__jitfix_iset =
  { fname =
    ('_'::('j'::('i'::('t'::('f'::('i'::('x'::('_'::('i'::('s'::('e'::('t'::[]))))))))))));
    fparams =
    (('s'::('t'::('a'::('r'::('t'::[]))))) :: (('e'::('n'::('d'::[]))) :: []));
    flocals =
    (('t'::('o'::('_'::('w'::('a'::('r'::('n'::[]))))))) :: (('m'::[]) :: (('d'::('a'::('t'::('a'::[])))) :: (('i'::[]) :: (('c'::('t'::[])) :: (('n'::('e'::('w'::('s'::('t'::('a'::('r'::('t'::[])))))))) :: (('n'::('e'::('w'::('e'::('n'::('d'::[])))))) :: [])))))));
    fbody =
    (seq ((SNew1 (('t'::('o'::('_'::('w'::('a'::('r'::('n'::[]))))))), DBool,
      (EInt (Zpos (XO (XO XH)))), (EInt Z0))) :: ((SAssign (('m'::[]), (ELen
      ('s'::('t'::('a'::('r'::('t'::[])))))))) :: ((SNew2
      (('d'::('a'::('t'::('a'::[])))), DFlt, (EVar ('m'::[])), (EInt (Zpos
      (XO XH))), (EInt Z0))) :: ((SAssign (('i'::[]), (EInt
      Z0))) :: ((SAssign (('c'::('t'::[])), (EInt Z0))) :: ((SWhile (O, (ECmp
      (Lt0, (EVar ('i'::[])), (EVar ('m'::[])))),
      (seq ((SAssign
        (('n'::('e'::('w'::('s'::('t'::('a'::('r'::('t'::[])))))))), (ERead1
        (O, ('s'::('t'::('a'::('r'::('t'::[]))))), (EVar
        ('i'::[])))))) :: ((SAssign
        (('n'::('e'::('w'::('e'::('n'::('d'::[])))))), (ERead1 ((S O),
        ('e'::('n'::('d'::[]))), (EVar ('i'::[])))))) :: ((SWhile ((S O),
        (ECmp (Lt0, (EVar ('i'::[])), (EVar ('m'::[])))),
        (seq ((SIf ((S (S O)), (ECmp (Eq0, (ERead1 ((S (S O)),
          ('e'::('n'::('d'::[]))), (EVar ('i'::[])))), (ERead1 ((S (S (S
          O))), ('s'::('t'::('a'::('r'::('t'::[]))))), (EVar ('i'::[])))))),
          (seq ((SStore1 ((S (S (S (S O)))),
            ('t'::('o'::('_'::('w'::('a'::('r'::('n'::[]))))))), (EInt (Zpos
            (XI XH))), (EBool true))) :: ((SAssign (('i'::[]), (EBin (Add,
            (EVar ('i'::[])), (EInt (Zpos XH)))))) :: []))),
          (seq ((SIf ((S (S (S O))), (ECmp (Lt0, (ERead1 ((S (S (S (S (S
            O))))), ('e'::('n'::('d'::[]))), (EVar ('i'::[])))), (ERead1 ((S
            (S (S (S (S (S O)))))), ('s'::('t'::('a'::('r'::('t'::[]))))),
            (EVar ('i'::[])))))),
            (seq ((SStore1 ((S (S (S (S (S (S (S O))))))),
              ('t'::('o'::('_'::('w'::('a'::('r'::('n'::[]))))))), (EInt
              (Zpos XH)), (EBool true))) :: ((SAssign (('i'::[]), (EBin (Add,
              (EVar ('i'::[])), (EInt (Zpos XH)))))) :: []))),
            (seq ((SAssign
              (('n'::('e'::('w'::('s'::('t'::('a'::('r'::('t'::[])))))))),
              (ERead1 ((S (S (S (S (S (S (S (S O)))))))),
              ('s'::('t'::('a'::('r'::('t'::[]))))), (EVar
              ('i'::[])))))) :: ((SAssign
              (('n'::('e'::('w'::('e'::('n'::('d'::[])))))), (ERead1 ((S (S
              (S (S (S (S (S (S (S O))))))))), ('e'::('n'::('d'::[]))), (EVar
              ('i'::[])))))) :: (SBreak :: [])))))) :: [])))) :: [])))) :: ((SIf
        ((S (S (S (S O)))), (ECmp (Ge, (EVar ('i'::[])), (EVar ('m'::[])))),
        (seq (SBreak :: [])), SSkip)) :: ((SWhile ((S (S (S (S (S O))))),
        (ECmp (Lt0, (EVar ('i'::[])), (EBin (Sub, (EVar ('m'::[])), (EInt
        (Zpos XH)))))),
        (seq ((SIf ((S (S (S (S (S (S O)))))), (ECmp (Lt0, (ERead1 ((S (S (S
          (S (S (S (S (S (S (S O)))))))))),
          ('s'::('t'::('a'::('r'::('t'::[]))))), (EBin (Add, (EVar
          ('i'::[])), (EInt (Zpos XH)))))), (ERead1 ((S (S (S (S (S (S (S (S
          (S (S (S O))))))))))), ('e'::('n'::('d'::[]))), (EVar
          ('i'::[])))))),
          (seq ((SStore1 ((S (S (S (S (S (S (S (S (S (S (S (S O)))))))))))),
            ('t'::('o'::('_'::('w'::('a'::('r'::('n'::[]))))))), (EInt (Zpos
            (XO XH))), (EBool true))) :: ((SAssign (('i'::[]), (EBin (Add,
            (EVar ('i'::[])), (EInt (Zpos XH)))))) :: ((SAssign
            (('n'::('e'::('w'::('e'::('n'::('d'::[])))))), (EBin (Max,
            (ERead1 ((S (S (S (S (S (S (S (S (S (S (S (S (S O))))))))))))),
            ('e'::('n'::('d'::[]))), (EBin (Sub, (EVar ('i'::[])), (EInt
            (Zpos XH)))))), (ERead1 ((S (S (S (S (S (S (S (S (S (S (S (S (S
            (S O)))))))))))))), ('e'::('n'::('d'::[]))), (EVar
            ('i'::[])))))))) :: [])))), (seq (SBreak :: [])))) :: [])))) :: ((SIf
        ((S (S (S (S (S (S (S O))))))), (ECmp (Lt0, (EVar ('i'::[])), (EBin
        (Sub, (EVar ('m'::[])), (EInt (Zpos XH)))))),
        (seq ((SIf ((S (S (S (S (S (S (S (S O)))))))), (ECmp (Eq0, (EVar
          ('n'::('e'::('w'::('e'::('n'::('d'::[]))))))), (ERead1 ((S (S (S (S
          (S (S (S (S (S (S (S (S (S (S (S O))))))))))))))),
          ('s'::('t'::('a'::('r'::('t'::[]))))), (EBin (Add, (EVar
          ('i'::[])), (EInt (Zpos XH)))))))),
          (seq ((SStore1 ((S (S (S (S (S (S (S (S (S (S (S (S (S (S (S (S
            O)))))))))))))))),
            ('t'::('o'::('_'::('w'::('a'::('r'::('n'::[]))))))), (EInt Z0),
            (EBool true))) :: ((SAssign
            (('n'::('e'::('w'::('e'::('n'::('d'::[])))))), (EBin (Sub, (EVar
            ('n'::('e'::('w'::('e'::('n'::('d'::[]))))))), (EFlt { qnum =
            (Zpos XH); qden = (XO (XO (XO (XO (XO (XO (XI (XO (XO (XI (XO (XO
            (XO (XO (XI (XO (XI (XI (XI XH))))))))))))))))))) }))))) :: []))),
          SSkip)) :: [])), SSkip)) :: ((SIf ((S (S (S (S (S (S (S (S (S
        O))))))))), (ECmp (Gt0, (EVar
        ('n'::('e'::('w'::('e'::('n'::('d'::[]))))))), (EVar
        ('n'::('e'::('w'::('s'::('t'::('a'::('r'::('t'::[]))))))))))),
        (seq ((SStore2 ((S (S (S (S (S (S (S (S (S (S (S (S (S (S (S (S (S
          O))))))))))))))))), ('d'::('a'::('t'::('a'::[])))), (EVar
          ('c'::('t'::[]))), (EInt Z0), (EVar
          ('n'::('e'::('w'::('s'::('t'::('a'::('r'::('t'::[]))))))))))) :: ((SStore2
          ((S (S (S (S (S (S (S (S (S (S (S (S (S (S (S (S (S (S
          O)))))))))))))))))), ('d'::('a'::('t'::('a'::[])))), (EVar
          ('c'::('t'::[]))), (EInt (Zpos XH)), (EVar
          ('n'::('e'::('w'::('e'::('n'::('d'::[]))))))))) :: ((SAssign
          (('c'::('t'::[])), (EBin (Add, (EVar ('c'::('t'::[]))), (EInt (Zpos
          XH)))))) :: [])))),
        (seq ((SStore1 ((S (S (S (S (S (S (S (S (S (S (S (S (S (S (S (S (S (S
          (S O))))))))))))))))))),
          ('t'::('o'::('_'::('w'::('a'::('r'::('n'::[]))))))), (EInt (Zpos
          (XI XH))), (EBool true))) :: [])))) :: ((SAssign (('i'::[]), (EBin
        (Add, (EVar ('i'::[])), (EInt (Zpos XH)))))) :: []))))))))))) :: ((SSlice
      (('d'::('a'::('t'::('a'::[])))), ('d'::('a'::('t'::('a'::[])))), (EInt
      Z0), (EVar ('c'::('t'::[]))))) :: ((SReturn ((AVar
      ('d'::('a'::('t'::('a'::[]))))) :: ((AVar
      ('t'::('o'::('_'::('w'::('a'::('r'::('n'::[])))))))) :: []))) :: []))))))))) }

(** val k__jitcontinuous_perievent : func **)

let k__jitcontinuous_perievent =
  { fname =
    ('_'::('j'::('i'::('t'::('c'::('o'::('n'::('t'::('i'::('n'::('u'::('o'::('u'::('s'::('_'::('p'::('e'::('r'::('i'::('e'::('v'::('e'::('n'::('t'::[]))))))))))))))))))))))));
    fparams =
    (('t'::('i'::('m'::('e'::('_'::('a'::('r'::('r'::('a'::('y'::[])))))))))) :: (('t'::('i'::('m'::('e'::('_'::('t'::('a'::('r'::('g'::('e'::('t'::('_'::('a'::('r'::('r'::('a'::('y'::[]))))))))))))))))) :: (('s'::('t'::('a'::('r'::('t'::('s'::[])))))) :: (('e'::('n'::('d'::('s'::[])))) :: (('w'::('i'::('n'::('d'::('o'::('w'::('s'::('i'::('z'::('e'::[])))))))))) :: [])))));
    flocals =
    (('N'::('_'::('e'::('p'::('o'::('c'::('h'::('s'::[])))))))) :: (('c'::('o'::('u'::('n'::('t'::[]))))) :: (('i'::('d'::('x'::[]))) :: (('N'::('_'::('t'::('a'::('r'::('g'::('e'::('t'::[])))))))) :: (('s'::('l'::('i'::('c'::('e'::('_'::('i'::('d'::('x'::[]))))))))) :: (('s'::('t'::('a'::('r'::('t'::('_'::('w'::[]))))))) :: (('k'::[]) :: (('t'::[]) :: (('i'::[]) :: (('m'::('a'::('x'::('t'::[])))) :: (('m'::('a'::('x'::('i'::[])))) :: (('s'::('t'::('a'::('r'::('t'::('_'::('t'::[]))))))) :: (('i'::('n'::('t'::('e'::('r'::('v'::('a'::('l'::[])))))))) :: (('t'::('_'::('p'::('o'::('s'::[]))))) :: (('n'::('e'::('w'::('_'::('i'::('n'::('t'::('e'::('r'::('v'::('a'::('l'::[])))))))))))) :: (('l'::('e'::('f'::('t'::[])))) :: (('r'::('i'::('g'::('h'::('t'::[]))))) :: [])))))))))))))))));
    fbody =
    (seq ((SAssign
      (('N'::('_'::('e'::('p'::('o'::('c'::('h'::('s'::[])))))))), (ELen
      ('s'::('t'::('a'::('r'::('t'::('s'::[]))))))))) :: ((SNew2
      (('c'::('o'::('u'::('n'::('t'::[]))))), DInt, (EVar
      ('N'::('_'::('e'::('p'::('o'::('c'::('h'::('s'::[]))))))))), (EInt
      (Zpos (XO XH))), (EInt Z0))) :: ((SCall (O, ((TVar
      ('i'::('d'::('x'::[])))) :: ((TCol (O,
      ('c'::('o'::('u'::('n'::('t'::[]))))), (Zpos XH))) :: [])),
      ('j'::('i'::('t'::('r'::('e'::('s'::('t'::('r'::('i'::('c'::('t'::('_'::('w'::('i'::('t'::('h'::('_'::('c'::('o'::('u'::('n'::('t'::[])))))))))))))))))))))),
      ((AVar
      ('t'::('i'::('m'::('e'::('_'::('t'::('a'::('r'::('g'::('e'::('t'::('_'::('a'::('r'::('r'::('a'::('y'::[])))))))))))))))))) :: ((AVar
      ('s'::('t'::('a'::('r'::('t'::('s'::[]))))))) :: ((AVar
      ('e'::('n'::('d'::('s'::[]))))) :: []))))) :: ((SGather ((S O),
      ('t'::('i'::('m'::('e'::('_'::('t'::('a'::('r'::('g'::('e'::('t'::('_'::('a'::('r'::('r'::('a'::('y'::[]))))))))))))))))),
      ('t'::('i'::('m'::('e'::('_'::('t'::('a'::('r'::('g'::('e'::('t'::('_'::('a'::('r'::('r'::('a'::('y'::[]))))))))))))))))),
      ('i'::('d'::('x'::[]))))) :: ((SCall ((S O), ((TVar
      ('i'::('d'::('x'::[])))) :: ((TCol ((S (S O)),
      ('c'::('o'::('u'::('n'::('t'::[]))))), Z0)) :: [])),
      ('j'::('i'::('t'::('r'::('e'::('s'::('t'::('r'::('i'::('c'::('t'::('_'::('w'::('i'::('t'::('h'::('_'::('c'::('o'::('u'::('n'::('t'::[])))))))))))))))))))))),
      ((AVar
      ('t'::('i'::('m'::('e'::('_'::('a'::('r'::('r'::('a'::('y'::[]))))))))))) :: ((AVar
      ('s'::('t'::('a'::('r'::('t'::('s'::[]))))))) :: ((AVar
      ('e'::('n'::('d'::('s'::[]))))) :: []))))) :: ((SGather ((S (S (S O))),
      ('t'::('i'::('m'::('e'::('_'::('a'::('r'::('r'::('a'::('y'::[])))))))))),
      ('t'::('i'::('m'::('e'::('_'::('a'::('r'::('r'::('a'::('y'::[])))))))))),
      ('i'::('d'::('x'::[]))))) :: ((SAssign
      (('N'::('_'::('t'::('a'::('r'::('g'::('e'::('t'::[])))))))), (ELen
      ('t'::('i'::('m'::('e'::('_'::('t'::('a'::('r'::('g'::('e'::('t'::('_'::('a'::('r'::('r'::('a'::('y'::[])))))))))))))))))))) :: ((SNew2
      (('s'::('l'::('i'::('c'::('e'::('_'::('i'::('d'::('x'::[]))))))))),
      DInt, (EVar
      ('N'::('_'::('t'::('a'::('r'::('g'::('e'::('t'::[]))))))))), (EInt
      (Zpos (XO XH))), (EInt Z0))) :: ((SNew1
      (('s'::('t'::('a'::('r'::('t'::('_'::('w'::[]))))))), DInt, (EVar
      ('N'::('_'::('t'::('a'::('r'::('g'::('e'::('t'::[]))))))))), (EInt
      Z0))) :: ((SIf ((S (S O)), (EAnyColProdPos ((S (S (S (S O)))),
      ('c'::('o'::('u'::('n'::('t'::[]))))), Z0, (Zpos XH))),
      (seq ((SFor ((S (S (S O))), ('k'::[]), (EInt Z0), (EVar
        ('N'::('_'::('e'::('p'::('o'::('c'::('h'::('s'::[]))))))))),
        (seq ((SIf ((S (S (S (S O)))), (EAnd ((ECmp (Gt0, (ERead2 ((S (S (S
          (S (S O))))), ('c'::('o'::('u'::('n'::('t'::[]))))), (EVar
          ('k'::[])), (EInt Z0))), (EInt Z0))), (ECmp (Gt0, (ERead2 ((S (S (S
          (S (S (S O)))))), ('c'::('o'::('u'::('n'::('t'::[]))))), (EVar
          ('k'::[])), (EInt (Zpos XH)))), (EInt Z0))))),
          (seq ((SAssign (('t'::[]), (ESumCol ((S (S (S (S (S (S (S O))))))),
            ('c'::('o'::('u'::('n'::('t'::[]))))), (EInt Z0), (EVar
            ('k'::[])), Z0)))) :: ((SAssign (('i'::[]), (ESumCol ((S (S (S (S
            (S (S (S (S O)))))))), ('c'::('o'::('u'::('n'::('t'::[]))))),
            (EInt Z0), (EVar ('k'::[])), (Zpos XH))))) :: ((SAssign
            (('m'::('a'::('x'::('t'::[])))), (EBin (Add, (EVar ('t'::[])),
            (ERead2 ((S (S (S (S (S (S (S (S (S O))))))))),
            ('c'::('o'::('u'::('n'::('t'::[]))))), (EVar ('k'::[])), (EInt
            Z0))))))) :: ((SAssign (('m'::('a'::('x'::('i'::[])))), (EBin
            (Add, (EVar ('i'::[])), (ERead2 ((S (S (S (S (S (S (S (S (S (S
            O)))))))))), ('c'::('o'::('u'::('n'::('t'::[]))))), (EVar
            ('k'::[])), (EInt (Zpos XH)))))))) :: ((SAssign
            (('s'::('t'::('a'::('r'::('t'::('_'::('t'::[]))))))), (EVar
            ('t'::[])))) :: ((SWhile ((S (S (S (S (S O))))), (ECmp (Lt0,
            (EVar ('i'::[])), (EVar ('m'::('a'::('x'::('i'::[]))))))),
            (seq ((SAssign
              (('i'::('n'::('t'::('e'::('r'::('v'::('a'::('l'::[])))))))),
              (EUn (Abs, (EBin (Sub, (ERead1 ((S (S (S (S (S (S (S (S (S (S
              (S O))))))))))),
              ('t'::('i'::('m'::('e'::('_'::('a'::('r'::('r'::('a'::('y'::[])))))))))),
              (EVar ('t'::[])))), (ERead1 ((S (S (S (S (S (S (S (S (S (S (S
              (S O)))))))))))),
              ('t'::('i'::('m'::('e'::('_'::('t'::('a'::('r'::('g'::('e'::('t'::('_'::('a'::('r'::('r'::('a'::('y'::[]))))))))))))))))),
              (EVar ('i'::[])))))))))) :: ((SAssign
              (('t'::('_'::('p'::('o'::('s'::[]))))), (EVar
              ('t'::[])))) :: ((SAssign (('t'::[]), (EBin (Add, (EVar
              ('t'::[])), (EInt (Zpos XH)))))) :: ((SWhile ((S (S (S (S (S (S
              O)))))), (ECmp (Lt0, (EVar ('t'::[])), (EVar
              ('m'::('a'::('x'::('t'::[]))))))),
              (seq ((SAssign
                (('n'::('e'::('w'::('_'::('i'::('n'::('t'::('e'::('r'::('v'::('a'::('l'::[])))))))))))),
                (EUn (Abs, (EBin (Sub, (ERead1 ((S (S (S (S (S (S (S (S (S (S
                (S (S (S O))))))))))))),
                ('t'::('i'::('m'::('e'::('_'::('a'::('r'::('r'::('a'::('y'::[])))))))))),
                (EVar ('t'::[])))), (ERead1 ((S (S (S (S (S (S (S (S (S (S (S
                (S (S (S O)))))))))))))),
                ('t'::('i'::('m'::('e'::('_'::('t'::('a'::('r'::('g'::('e'::('t'::('_'::('a'::('r'::('r'::('a'::('y'::[]))))))))))))))))),
                (EVar ('i'::[])))))))))) :: ((SIf ((S (S (S (S (S (S (S
                O))))))), (ECmp (Gt0, (EVar
                ('n'::('e'::('w'::('_'::('i'::('n'::('t'::('e'::('r'::('v'::('a'::('l'::[]))))))))))))),
                (EVar
                ('i'::('n'::('t'::('e'::('r'::('v'::('a'::('l'::[]))))))))))),
                (seq (SBreak :: [])),
                (seq ((SAssign
                  (('i'::('n'::('t'::('e'::('r'::('v'::('a'::('l'::[])))))))),
                  (EVar
                  ('n'::('e'::('w'::('_'::('i'::('n'::('t'::('e'::('r'::('v'::('a'::('l'::[]))))))))))))))) :: ((SAssign
                  (('t'::('_'::('p'::('o'::('s'::[]))))), (EVar
                  ('t'::[])))) :: ((SAssign (('t'::[]), (EBin (Add, (EVar
                  ('t'::[])), (EInt (Zpos XH)))))) :: [])))))) :: []))))) :: ((SAssign
              (('l'::('e'::('f'::('t'::[])))), (EBin (Min, (ERead1 ((S (S (S
              (S (S (S (S (S (S (S (S (S (S (S (S O))))))))))))))),
              ('w'::('i'::('n'::('d'::('o'::('w'::('s'::('i'::('z'::('e'::[])))))))))),
              (EInt Z0))), (EBin (Sub, (EVar
              ('t'::('_'::('p'::('o'::('s'::[])))))), (EVar
              ('s'::('t'::('a'::('r'::('t'::('_'::('t'::[])))))))))))))) :: ((SAssign
              (('r'::('i'::('g'::('h'::('t'::[]))))), (EBin (Min, (ERead1 ((S
              (S (S (S (S (S (S (S (S (S (S (S (S (S (S (S O)))))))))))))))),
              ('w'::('i'::('n'::('d'::('o'::('w'::('s'::('i'::('z'::('e'::[])))))))))),
              (EInt (Zpos XH)))), (EBin (Sub, (EBin (Sub, (EVar
              ('m'::('a'::('x'::('t'::[]))))), (EVar
              ('t'::('_'::('p'::('o'::('s'::[])))))))), (EInt (Zpos
              XH)))))))) :: ((SStore2 ((S (S (S (S (S (S (S (S (S (S (S (S (S
              (S (S (S (S O))))))))))))))))),
              ('s'::('l'::('i'::('c'::('e'::('_'::('i'::('d'::('x'::[]))))))))),
              (EVar ('i'::[])), (EInt Z0), (EBin (Sub, (EVar
              ('t'::('_'::('p'::('o'::('s'::[])))))), (EVar
              ('l'::('e'::('f'::('t'::[]))))))))) :: ((SStore2 ((S (S (S (S
              (S (S (S (S (S (S (S (S (S (S (S (S (S (S O)))))))))))))))))),
              ('s'::('l'::('i'::('c'::('e'::('_'::('i'::('d'::('x'::[]))))))))),
              (EVar ('i'::[])), (EInt (Zpos XH)), (EBin (Add, (EBin (Add,
              (EVar ('t'::('_'::('p'::('o'::('s'::[])))))), (EVar
              ('r'::('i'::('g'::('h'::('t'::[])))))))), (EInt (Zpos
              XH)))))) :: ((SStore1 ((S (S (S (S (S (S (S (S (S (S (S (S (S
              (S (S (S (S (S (S (S O)))))))))))))))))))),
              ('s'::('t'::('a'::('r'::('t'::('_'::('w'::[]))))))), (EVar
              ('i'::[])), (EBin (Sub, (ERead1 ((S (S (S (S (S (S (S (S (S (S
              (S (S (S (S (S (S (S (S (S O))))))))))))))))))),
              ('w'::('i'::('n'::('d'::('o'::('w'::('s'::('i'::('z'::('e'::[])))))))))),
              (EInt Z0))), (EVar
              ('l'::('e'::('f'::('t'::[]))))))))) :: ((SAssign (('t'::[]),
              (EBin (Sub, (EVar ('t'::[])), (EInt (Zpos XH)))))) :: ((SAssign
              (('i'::[]), (EBin (Add, (EVar ('i'::[])), (EInt (Zpos
              XH)))))) :: [])))))))))))))) :: []))))))), SSkip)) :: [])))) :: [])),
      SSkip)) :: ((SReturn ((AVar ('i'::('d'::('x'::[])))) :: ((AVar
      ('s'::('l'::('i'::('c'::('e'::('_'::('i'::('d'::('x'::[])))))))))) :: ((AExp
      (ESumCol ((S (S (S (S (S (S (S (S (S (S (S (S (S (S (S (S (S (S (S (S
      (S O))))))))))))))))))))), ('c'::('o'::('u'::('n'::('t'::[]))))), (EInt
      Z0), (ELen ('c'::('o'::('u'::('n'::('t'::[])))))), (Zpos
      XH)))) :: ((AVar
      ('s'::('t'::('a'::('r'::('t'::('_'::('w'::[])))))))) :: []))))) :: [])))))))))))) }

(** val k__jitperievent_trigger_average : func **)

let k__jitperievent_trigger_average =
  { fname =
    ('_'::('j'::('i'::('t'::('p'::('e'::('r'::('i'::('e'::('v'::('e'::('n'::('t'::('_'::('t'::('r'::('i'::('g'::('g'::('e'::('r'::('_'::('a'::('v'::('e'::('r'::('a'::('g'::('e'::[])))))))))))))))))))))))))))));
    fparams =
    (('t'::('i'::('m'::('e'::('_'::('a'::('r'::('r'::('a'::('y'::[])))))))))) :: (('c'::('o'::('u'::('n'::('t'::('_'::('a'::('r'::('r'::('a'::('y'::[]))))))))))) :: (('t'::('i'::('m'::('e'::('_'::('t'::('a'::('r'::('g'::('e'::('t'::('_'::('a'::('r'::('r'::('a'::('y'::[]))))))))))))))))) :: (('d'::('a'::('t'::('a'::('_'::('t'::('a'::('r'::('g'::('e'::('t'::('_'::('a'::('r'::('r'::('a'::('y'::[]))))))))))))))))) :: (('s'::('t'::('a'::('r'::('t'::('s'::[])))))) :: (('e'::('n'::('d'::('s'::[])))) :: (('w'::('i'::('n'::('d'::('o'::('w'::('s'::[]))))))) :: (('b'::('i'::('n'::('s'::('i'::('z'::('e'::[]))))))) :: []))))))));
    flocals =
    (('T'::[]) :: (('N'::[]) :: (('N'::('_'::('e'::('p'::('o'::('c'::('h'::('s'::[])))))))) :: (('i'::('d'::('x'::[]))) :: (('c'::('o'::('u'::('n'::('t'::[]))))) :: (('m'::('a'::('x'::('_'::('c'::('o'::('u'::('n'::('t'::[]))))))))) :: (('n'::('e'::('w'::('_'::('d'::('a'::('t'::('a'::('_'::('a'::('r'::('r'::('a'::('y'::[])))))))))))))) :: (('t'::[]) :: (('h'::('a'::('n'::('k'::('e'::('l'::('_'::('a'::('r'::('r'::('a'::('y'::[])))))))))))) :: (('k'::[]) :: (('t'::('_'::('s'::('t'::('a'::('r'::('t'::[]))))))) :: (('m'::('a'::('x'::('i'::[])))) :: (('i'::[]) :: (('i'::('_'::('s'::('t'::('a'::('r'::('t'::[]))))))) :: (('l'::('b'::('o'::('u'::('n'::('d'::[])))))) :: (('r'::('b'::('o'::('u'::('n'::('d'::[])))))) :: (('i'::('_'::('s'::('t'::('o'::('p'::[])))))) :: (('v'::[]) :: (('c'::('h'::('e'::('c'::('k'::('n'::('a'::('n'::[])))))))) :: (('n'::[]) :: (('j'::[]) :: (('t'::('o'::('t'::('a'::('l'::[]))))) :: []))))))))))))))))))))));
    fbody =
    (seq ((SAssign (('T'::[]), (ELen
      ('t'::('i'::('m'::('e'::('_'::('a'::('r'::('r'::('a'::('y'::[]))))))))))))) :: ((SAssign
      (('N'::[]), (ECols
      ('c'::('o'::('u'::('n'::('t'::('_'::('a'::('r'::('r'::('a'::('y'::[])))))))))))))) :: ((SAssign
      (('N'::('_'::('e'::('p'::('o'::('c'::('h'::('s'::[])))))))), (ELen
      ('s'::('t'::('a'::('r'::('t'::('s'::[]))))))))) :: ((SCall (O, ((TVar
      ('i'::('d'::('x'::[])))) :: ((TVar
      ('c'::('o'::('u'::('n'::('t'::[])))))) :: [])),
      ('j'::('i'::('t'::('r'::('e'::('s'::('t'::('r'::('i'::('c'::('t'::('_'::('w'::('i'::('t'::('h'::('_'::('c'::('o'::('u'::('n'::('t'::[])))))))))))))))))))))),
      ((AVar
      ('t'::('i'::('m'::('e'::('_'::('t'::('a'::('r'::('g'::('e'::('t'::('_'::('a'::('r'::('r'::('a'::('y'::[])))))))))))))))))) :: ((AVar
      ('s'::('t'::('a'::('r'::('t'::('s'::[]))))))) :: ((AVar
      ('e'::('n'::('d'::('s'::[]))))) :: []))))) :: ((SGather (O,
      ('t'::('i'::('m'::('e'::('_'::('t'::('a'::('r'::('g'::('e'::('t'::('_'::('a'::('r'::('r'::('a'::('y'::[]))))))))))))))))),
      ('t'::('i'::('m'::('e'::('_'::('t'::('a'::('r'::('g'::('e'::('t'::('_'::('a'::('r'::('r'::('a'::('y'::[]))))))))))))))))),
      ('i'::('d'::('x'::[]))))) :: ((SGather ((S O),
      ('d'::('a'::('t'::('a'::('_'::('t'::('a'::('r'::('g'::('e'::('t'::('_'::('a'::('r'::('r'::('a'::('y'::[]))))))))))))))))),
      ('d'::('a'::('t'::('a'::('_'::('t'::('a'::('r'::('g'::('e'::('t'::('_'::('a'::('r'::('r'::('a'::('y'::[]))))))))))))))))),
      ('i'::('d'::('x'::[]))))) :: ((SCumsum
      (('m'::('a'::('x'::('_'::('c'::('o'::('u'::('n'::('t'::[]))))))))),
      ('c'::('o'::('u'::('n'::('t'::[]))))))) :: ((SNew2
      (('n'::('e'::('w'::('_'::('d'::('a'::('t'::('a'::('_'::('a'::('r'::('r'::('a'::('y'::[])))))))))))))),
      DFlt, (EBin (Add, (EUn (ToInt, (ESumAll
      ('w'::('i'::('n'::('d'::('o'::('w'::('s'::[])))))))))), (EInt (Zpos
      XH)))), (ECols
      ('c'::('o'::('u'::('n'::('t'::('_'::('a'::('r'::('r'::('a'::('y'::[])))))))))))),
      (EFlt { qnum = Z0; qden = XH }))) :: ((SAssign (('t'::[]), (EInt
      Z0))) :: ((SNew1
      (('h'::('a'::('n'::('k'::('e'::('l'::('_'::('a'::('r'::('r'::('a'::('y'::[])))))))))))),
      DFlt, (ELen
      ('n'::('e'::('w'::('_'::('d'::('a'::('t'::('a'::('_'::('a'::('r'::('r'::('a'::('y'::[]))))))))))))))),
      (EInt Z0))) :: ((SFor ((S O), ('k'::[]), (EInt Z0), (EVar
      ('N'::('_'::('e'::('p'::('o'::('c'::('h'::('s'::[]))))))))),
      (seq ((SIf ((S (S O)), (ECmp (Gt0, (ERead1 ((S (S O)),
        ('c'::('o'::('u'::('n'::('t'::[]))))), (EVar ('k'::[])))), (EInt
        Z0))),
        (seq ((SAssign (('t'::('_'::('s'::('t'::('a'::('r'::('t'::[]))))))),
          (EVar ('t'::[])))) :: ((SAssign (('m'::('a'::('x'::('i'::[])))),
          (ERead1 ((S (S (S O))),
          ('m'::('a'::('x'::('_'::('c'::('o'::('u'::('n'::('t'::[]))))))))),
          (EVar ('k'::[])))))) :: ((SAssign (('i'::[]), (EBin (Sub, (EVar
          ('m'::('a'::('x'::('i'::[]))))), (ERead1 ((S (S (S (S O)))),
          ('c'::('o'::('u'::('n'::('t'::[]))))), (EVar
          ('k'::[])))))))) :: ((SAssign
          (('i'::('_'::('s'::('t'::('a'::('r'::('t'::[]))))))), (EVar
          ('i'::[])))) :: ((SWhile ((S (S (S O))), (ECmp (Lt0, (EVar
          ('t'::[])), (EVar ('T'::[])))),
          (seq ((SAssign (('l'::('b'::('o'::('u'::('n'::('d'::[])))))),
            (ERead1 ((S (S (S (S (S O))))),
            ('t'::('i'::('m'::('e'::('_'::('a'::('r'::('r'::('a'::('y'::[])))))))))),
            (EVar ('t'::[])))))) :: ((SAssign
            (('r'::('b'::('o'::('u'::('n'::('d'::[])))))), (EUn (Round9,
            (EBin (Add, (EVar ('l'::('b'::('o'::('u'::('n'::('d'::[]))))))),
            (EVar
            ('b'::('i'::('n'::('s'::('i'::('z'::('e'::[])))))))))))))) :: ((SIf
            ((S (S (S (S O)))), (ECmp (Lt0, (ERead1 ((S (S (S (S (S (S
            O)))))),
            ('t'::('i'::('m'::('e'::('_'::('t'::('a'::('r'::('g'::('e'::('t'::('_'::('a'::('r'::('r'::('a'::('y'::[]))))))))))))))))),
            (EVar ('i'::[])))), (EVar
            ('r'::('b'::('o'::('u'::('n'::('d'::[]))))))))),
            (seq ((SAssign
              (('i'::('_'::('s'::('t'::('a'::('r'::('t'::[]))))))), (EVar
              ('i'::[])))) :: ((SAssign
              (('i'::('_'::('s'::('t'::('o'::('p'::[])))))), (EVar
              ('i'::[])))) :: ((SWhile ((S (S (S (S (S O))))), (ECmp (Lt0,
              (EVar ('i'::('_'::('s'::('t'::('o'::('p'::[]))))))), (EVar
              ('m'::('a'::('x'::('i'::[]))))))),
              (seq ((SIf ((S (S (S (S (S (S O)))))), (ECmp (Lt0, (ERead1 ((S
                (S (S (S (S (S (S O))))))),
                ('t'::('i'::('m'::('e'::('_'::('t'::('a'::('r'::('g'::('e'::('t'::('_'::('a'::('r'::('r'::('a'::('y'::[]))))))))))))))))),
                (EVar ('i'::('_'::('s'::('t'::('o'::('p'::[]))))))))), (EVar
                ('r'::('b'::('o'::('u'::('n'::('d'::[]))))))))),
                (seq ((SAssign (('i'::('_'::('s'::('t'::('o'::('p'::[])))))),
                  (EBin (Add, (EVar
                  ('i'::('_'::('s'::('t'::('o'::('p'::[]))))))), (EInt (Zpos
                  XH)))))) :: [])), (seq (SBreak :: [])))) :: [])))) :: ((SWhile
              ((S (S (S (S (S (S (S O))))))), (ECmp (Lt0, (EVar
              ('i'::('_'::('s'::('t'::('a'::('r'::('t'::[])))))))), (EBin
              (Sub, (EVar ('i'::('_'::('s'::('t'::('o'::('p'::[]))))))),
              (EInt (Zpos XH)))))),
              (seq ((SIf ((S (S (S (S (S (S (S (S O)))))))), (ECmp (Lt0,
                (ERead1 ((S (S (S (S (S (S (S (S O)))))))),
                ('t'::('i'::('m'::('e'::('_'::('t'::('a'::('r'::('g'::('e'::('t'::('_'::('a'::('r'::('r'::('a'::('y'::[]))))))))))))))))),
                (EVar ('i'::('_'::('s'::('t'::('a'::('r'::('t'::[])))))))))),
                (EVar ('l'::('b'::('o'::('u'::('n'::('d'::[]))))))))),
                (seq ((SAssign
                  (('i'::('_'::('s'::('t'::('a'::('r'::('t'::[]))))))), (EBin
                  (Add, (EVar
                  ('i'::('_'::('s'::('t'::('a'::('r'::('t'::[])))))))), (EInt
                  (Zpos XH)))))) :: [])), (seq (SBreak :: [])))) :: [])))) :: ((SAssign
              (('v'::[]), (EBin (Div, (ESum
              (('d'::('a'::('t'::('a'::('_'::('t'::('a'::('r'::('g'::('e'::('t'::('_'::('a'::('r'::('r'::('a'::('y'::[]))))))))))))))))),
              (EVar ('i'::('_'::('s'::('t'::('a'::('r'::('t'::[])))))))),
              (EVar ('i'::('_'::('s'::('t'::('o'::('p'::[]))))))))), (EUn
              (ToFlt, (EBin (Sub, (EVar
              ('i'::('_'::('s'::('t'::('o'::('p'::[]))))))), (EVar
              ('i'::('_'::('s'::('t'::('a'::('r'::('t'::[])))))))))))))))) :: ((SAssign
              (('c'::('h'::('e'::('c'::('k'::('n'::('a'::('n'::[])))))))),
              (EVar ('v'::[])))) :: ((SIf ((S (S (S (S (S (S (S (S (S
              O))))))))), (ENot (EUn (IsNan, (EVar
              ('c'::('h'::('e'::('c'::('k'::('n'::('a'::('n'::[])))))))))))),
              (seq ((SStore1 ((S (S (S (S (S (S (S (S (S O))))))))),
                ('h'::('a'::('n'::('k'::('e'::('l'::('_'::('a'::('r'::('r'::('a'::('y'::[])))))))))))),
                (EBin (Sub, (ELen
                ('h'::('a'::('n'::('k'::('e'::('l'::('_'::('a'::('r'::('r'::('a'::('y'::[]))))))))))))),
                (EInt (Zpos XH)))), (EVar ('v'::[])))) :: [])),
              SSkip)) :: [])))))))), SSkip)) :: ((SIf ((S (S (S (S (S (S (S
            (S (S (S O)))))))))), (ECmp (Ge, (EBin (Sub, (EVar ('t'::[])),
            (EVar ('t'::('_'::('s'::('t'::('a'::('r'::('t'::[])))))))))),
            (ERead1 ((S (S (S (S (S (S (S (S (S (S O)))))))))),
            ('w'::('i'::('n'::('d'::('o'::('w'::('s'::[]))))))), (EInt (Zpos
            XH)))))),
            (seq ((SFor ((S (S (S (S (S (S (S (S (S (S (S O))))))))))),
              ('n'::[]), (EInt Z0), (EVar ('N'::[])),
              (seq ((SColUpd ((S (S (S (S (S (S (S (S (S (S (S (S (S
                O))))))))))))),
                ('n'::('e'::('w'::('_'::('d'::('a'::('t'::('a'::('_'::('a'::('r'::('r'::('a'::('y'::[])))))))))))))),
                (EVar ('n'::[])), Add, (Some
                ('h'::('a'::('n'::('k'::('e'::('l'::('_'::('a'::('r'::('r'::('a'::('y'::[]))))))))))))),
                (ERead2 ((S (S (S (S (S (S (S (S (S (S (S O))))))))))),
                ('c'::('o'::('u'::('n'::('t'::('_'::('a'::('r'::('r'::('a'::('y'::[]))))))))))),
                (EBin (Sub, (EVar ('t'::[])), (ERead1 ((S (S (S (S (S (S (S
                (S (S (S (S (S O)))))))))))),
                ('w'::('i'::('n'::('d'::('o'::('w'::('s'::[]))))))), (EInt
                (Zpos XH)))))), (EVar ('n'::[])))))) :: [])))) :: [])),
            SSkip)) :: ((SShiftLeft
            ('h'::('a'::('n'::('k'::('e'::('l'::('_'::('a'::('r'::('r'::('a'::('y'::[]))))))))))))) :: ((SStore1
            ((S (S (S (S (S (S (S (S (S (S (S (S (S (S O)))))))))))))),
            ('h'::('a'::('n'::('k'::('e'::('l'::('_'::('a'::('r'::('r'::('a'::('y'::[])))))))))))),
            (EBin (Sub, (ELen
            ('h'::('a'::('n'::('k'::('e'::('l'::('_'::('a'::('r'::('r'::('a'::('y'::[]))))))))))))),
            (EInt (Zpos XH)))), (EFlt { qnum = Z0; qden =
            XH }))) :: ((SAssign (('t'::[]), (EBin (Add, (EVar ('t'::[])),
            (EInt (Zpos XH)))))) :: ((SAssign (('i'::[]), (EVar
            ('i'::('_'::('s'::('t'::('a'::('r'::('t'::[])))))))))) :: ((SIf
            ((S (S (S (S (S (S (S (S (S (S (S (S O)))))))))))), (EOr ((ECmp
            (Eq0, (EVar ('t'::[])), (EVar ('T'::[])))), (ECmp (Gt0, (ERead1
            ((S (S (S (S (S (S (S (S (S (S (S (S (S (S (S O))))))))))))))),
            ('t'::('i'::('m'::('e'::('_'::('a'::('r'::('r'::('a'::('y'::[])))))))))),
            (EVar ('t'::[])))), (ERead1 ((S (S (S (S (S (S (S (S (S (S (S (S
            (S (S (S (S O)))))))))))))))), ('e'::('n'::('d'::('s'::[])))),
            (EVar ('k'::[])))))))),
            (seq ((SIf ((S (S (S (S (S (S (S (S (S (S (S (S (S
              O))))))))))))), (ECmp (Gt0, (EBin (Sub, (EVar ('t'::[])), (EVar
              ('t'::('_'::('s'::('t'::('a'::('r'::('t'::[])))))))))), (ERead1
              ((S (S (S (S (S (S (S (S (S (S (S (S (S (S (S (S (S
              O))))))))))))))))),
              ('w'::('i'::('n'::('d'::('o'::('w'::('s'::[]))))))), (EInt
              (Zpos XH)))))),
              (seq ((SFor ((S (S (S (S (S (S (S (S (S (S (S (S (S (S
                O)))))))))))))), ('j'::[]), (EInt Z0), (ERead1 ((S (S (S (S
                (S (S (S (S (S (S (S (S (S (S (S (S (S (S
                O)))))))))))))))))),
                ('w'::('i'::('n'::('d'::('o'::('w'::('s'::[]))))))), (EInt
                (Zpos XH)))),
                (seq ((SFor ((S (S (S (S (S (S (S (S (S (S (S (S (S (S (S
                  O))))))))))))))), ('n'::[]), (EInt Z0), (EVar ('N'::[])),
                  (seq ((SColUpd ((S (S (S (S (S (S (S (S (S (S (S (S (S (S
                    (S (S (S (S (S (S (S O))))))))))))))))))))),
                    ('n'::('e'::('w'::('_'::('d'::('a'::('t'::('a'::('_'::('a'::('r'::('r'::('a'::('y'::[])))))))))))))),
                    (EVar ('n'::[])), Add, (Some
                    ('h'::('a'::('n'::('k'::('e'::('l'::('_'::('a'::('r'::('r'::('a'::('y'::[]))))))))))))),
                    (ERead2 ((S (S (S (S (S (S (S (S (S (S (S (S (S (S (S (S
                    (S (S (S O))))))))))))))))))),
                    ('c'::('o'::('u'::('n'::('t'::('_'::('a'::('r'::('r'::('a'::('y'::[]))))))))))),
                    (EBin (Add, (EBin (Sub, (EVar ('t'::[])), (ERead1 ((S (S
                    (S (S (S (S (S (S (S (S (S (S (S (S (S (S (S (S (S (S
                    O)))))))))))))))))))),
                    ('w'::('i'::('n'::('d'::('o'::('w'::('s'::[]))))))),
                    (EInt (Zpos XH)))))), (EVar ('j'::[])))), (EVar
                    ('n'::[])))))) :: [])))) :: ((SShiftLeft
                  ('h'::('a'::('n'::('k'::('e'::('l'::('_'::('a'::('r'::('r'::('a'::('y'::[]))))))))))))) :: ((SStore1
                  ((S (S (S (S (S (S (S (S (S (S (S (S (S (S (S (S (S (S (S
                  (S (S (S O)))))))))))))))))))))),
                  ('h'::('a'::('n'::('k'::('e'::('l'::('_'::('a'::('r'::('r'::('a'::('y'::[])))))))))))),
                  (EBin (Sub, (ELen
                  ('h'::('a'::('n'::('k'::('e'::('l'::('_'::('a'::('r'::('r'::('a'::('y'::[]))))))))))))),
                  (EInt (Zpos XH)))), (EFlt { qnum = Z0; qden =
                  XH }))) :: [])))))) :: [])), SSkip)) :: ((SArrScale
              (('h'::('a'::('n'::('k'::('e'::('l'::('_'::('a'::('r'::('r'::('a'::('y'::[])))))))))))),
              (EFlt { qnum = Z0; qden = XH }))) :: (SBreak :: [])))),
            SSkip)) :: [])))))))))))) :: [])))))), SSkip)) :: [])))) :: ((SColSums
      (('t'::('o'::('t'::('a'::('l'::[]))))),
      ('c'::('o'::('u'::('n'::('t'::('_'::('a'::('r'::('r'::('a'::('y'::[]))))))))))))) :: ((SFor
      ((S (S (S (S (S (S (S (S (S (S (S (S (S (S (S (S O)))))))))))))))),
      ('n'::[]), (EInt Z0), (EVar ('N'::[])),
      (seq ((SIf ((S (S (S (S (S (S (S (S (S (S (S (S (S (S (S (S (S
        O))))))))))))))))), (ECmp (Gt0, (ERead1 ((S (S (S (S (S (S (S (S (S
        (S (S (S (S (S (S (S (S (S (S (S (S (S (S O))))))))))))))))))))))),
        ('t'::('o'::('t'::('a'::('l'::[]))))), (EVar ('n'::[])))), (EFlt
        { qnum = Z0; qden = XH }))),
        (seq ((SColUpd ((S (S (S (S (S (S (S (S (S (S (S (S (S (S (S (S (S (S
          (S (S (S (S (S (S (S O))))))))))))))))))))))))),
          ('n'::('e'::('w'::('_'::('d'::('a'::('t'::('a'::('_'::('a'::('r'::('r'::('a'::('y'::[])))))))))))))),
          (EVar ('n'::[])), Div, None, (ERead1 ((S (S (S (S (S (S (S (S (S (S
          (S (S (S (S (S (S (S (S (S (S (S (S (S (S
          O)))))))))))))))))))))))), ('t'::('o'::('t'::('a'::('l'::[]))))),
          (EVar ('n'::[])))))) :: [])), SSkip)) :: [])))) :: ((SReturn ((AVar
      ('n'::('e'::('w'::('_'::('d'::('a'::('t'::('a'::('_'::('a'::('r'::('r'::('a'::('y'::[]))))))))))))))) :: [])) :: []))))))))))))))) }

(** val k__cross_correlogram : func **)

let k__cross_correlogram =
  { fname =
    ('_'::('c'::('r'::('o'::('s'::('s'::('_'::('c'::('o'::('r'::('r'::('e'::('l'::('o'::('g'::('r'::('a'::('m'::[]))))))))))))))))));
    fparams =
    (('t'::('1'::[])) :: (('t'::('2'::[])) :: (('b'::('i'::('n'::('s'::('i'::('z'::('e'::[]))))))) :: (('w'::('i'::('n'::('d'::('o'::('w'::('s'::('i'::('z'::('e'::[])))))))))) :: []))));
    flocals =
    (('n'::('t'::('1'::[]))) :: (('n'::('t'::('2'::[]))) :: (('n'::('b'::('i'::('n'::('s'::[]))))) :: (('w'::[]) :: (('C'::[]) :: (('i'::('2'::[])) :: (('i'::('1'::[])) :: (('l'::('b'::('o'::('u'::('n'::('d'::[])))))) :: (('r'::('b'::('o'::('u'::('n'::('d'::[])))))) :: (('l'::('e'::('f'::('t'::('b'::[]))))) :: (('j'::[]) :: (('k'::[]) :: (('m'::[]) :: (('B'::[]) :: []))))))))))))));
    fbody =
    (seq ((SAssign (('n'::('t'::('1'::[]))), (ELen
      ('t'::('1'::[]))))) :: ((SAssign (('n'::('t'::('2'::[]))), (ELen
      ('t'::('2'::[]))))) :: ((SAssign
      (('n'::('b'::('i'::('n'::('s'::[]))))), (EUn (ToInt, (EUn (Floor, (EUn
      (Round9, (EBin (Div, (EBin (Mul, (EVar
      ('w'::('i'::('n'::('d'::('o'::('w'::('s'::('i'::('z'::('e'::[]))))))))))),
      (EInt (Zpos (XO XH))))), (EVar
      ('b'::('i'::('n'::('s'::('i'::('z'::('e'::[])))))))))))))))))) :: ((SIf
      (O, (ECmp (Eq0, (EBin (Mul, (EUn (Floor, (EBin (Div, (EVar
      ('n'::('b'::('i'::('n'::('s'::[])))))), (EInt (Zpos (XO XH))))))),
      (EInt (Zpos (XO XH))))), (EVar
      ('n'::('b'::('i'::('n'::('s'::[])))))))),
      (seq ((SAssign (('n'::('b'::('i'::('n'::('s'::[]))))), (EBin (Add,
        (EVar ('n'::('b'::('i'::('n'::('s'::[])))))), (EInt (Zpos
        XH)))))) :: [])), SSkip)) :: ((SAssign (('w'::[]), (EBin (Mul, (EBin
      (Div, (EVar ('n'::('b'::('i'::('n'::('s'::[])))))), (EInt (Zpos (XO
      XH))))), (EVar
      ('b'::('i'::('n'::('s'::('i'::('z'::('e'::[])))))))))))) :: ((SNew1
      (('C'::[]), DFlt, (EVar ('n'::('b'::('i'::('n'::('s'::[])))))), (EInt
      Z0))) :: ((SAssign (('i'::('2'::[])), (EInt Z0))) :: ((SFor ((S O),
      ('i'::('1'::[])), (EInt Z0), (EVar ('n'::('t'::('1'::[])))),
      (seq ((SAssign (('l'::('b'::('o'::('u'::('n'::('d'::[])))))), (EBin
        (Sub, (ERead1 (O, ('t'::('1'::[])), (EVar ('i'::('1'::[]))))), (EVar
        ('w'::[])))))) :: ((SWhile ((S (S O)), (EAnd ((ECmp (Lt0, (EVar
        ('i'::('2'::[]))), (EVar ('n'::('t'::('2'::[])))))), (ECmp (Lt0,
        (ERead1 ((S O), ('t'::('2'::[])), (EVar ('i'::('2'::[]))))), (EVar
        ('l'::('b'::('o'::('u'::('n'::('d'::[]))))))))))),
        (seq ((SAssign (('i'::('2'::[])), (EBin (Add, (EVar
          ('i'::('2'::[]))), (EInt (Zpos XH)))))) :: [])))) :: ((SWhile ((S
        (S (S O))), (EAnd ((ECmp (Gt0, (EVar ('i'::('2'::[]))), (EInt Z0))),
        (ECmp (Gt0, (ERead1 ((S (S O)), ('t'::('2'::[])), (EBin (Sub, (EVar
        ('i'::('2'::[]))), (EInt (Zpos XH)))))), (EVar
        ('l'::('b'::('o'::('u'::('n'::('d'::[]))))))))))),
        (seq ((SAssign (('i'::('2'::[])), (EBin (Sub, (EVar
          ('i'::('2'::[]))), (EInt (Zpos XH)))))) :: [])))) :: ((SAssign
        (('r'::('b'::('o'::('u'::('n'::('d'::[])))))), (EVar
        ('l'::('b'::('o'::('u'::('n'::('d'::[]))))))))) :: ((SAssign
        (('l'::('e'::('f'::('t'::('b'::[]))))), (EVar
        ('i'::('2'::[]))))) :: ((SFor ((S (S (S (S O)))), ('j'::[]), (EInt
        Z0), (EVar ('n'::('b'::('i'::('n'::('s'::[])))))),
        (seq ((SAssign (('k'::[]), (EInt Z0))) :: ((SAssign
          (('r'::('b'::('o'::('u'::('n'::('d'::[])))))), (EBin (Add, (EVar
          ('r'::('b'::('o'::('u'::('n'::('d'::[]))))))), (EVar
          ('b'::('i'::('n'::('s'::('i'::('z'::('e'::[])))))))))))) :: ((SWhile
          ((S (S (S (S (S O))))), (EAnd ((ECmp (Lt0, (EVar
          ('l'::('e'::('f'::('t'::('b'::[])))))), (EVar
          ('n'::('t'::('2'::[])))))), (ECmp (Lt0, (ERead1 ((S (S (S O))),
          ('t'::('2'::[])), (EVar ('l'::('e'::('f'::('t'::('b'::[])))))))),
          (EVar ('r'::('b'::('o'::('u'::('n'::('d'::[]))))))))))),
          (seq ((SAssign (('l'::('e'::('f'::('t'::('b'::[]))))), (EBin (Add,
            (EVar ('l'::('e'::('f'::('t'::('b'::[])))))), (EInt (Zpos
            XH)))))) :: ((SAssign (('k'::[]), (EBin (Add, (EVar ('k'::[])),
            (EInt (Zpos XH)))))) :: []))))) :: ((SStore1 ((S (S (S (S (S
          O))))), ('C'::[]), (EVar ('j'::[])), (EBin (Add, (ERead1 ((S (S (S
          (S O)))), ('C'::[]), (EVar ('j'::[])))), (EVar
          ('k'::[])))))) :: []))))))) :: []))))))))) :: ((SArrDivSc
      (('C'::[]), ('C'::[]), (EBin (Mul, (EVar ('n'::('t'::('1'::[])))),
      (EVar
      ('b'::('i'::('n'::('s'::('i'::('z'::('e'::[])))))))))))) :: ((SAssign
      (('m'::[]), (EBin (Add, (EUn (Neg, (EVar ('w'::[])))), (EBin (Div,
      (EVar ('b'::('i'::('n'::('s'::('i'::('z'::('e'::[])))))))), (EInt (Zpos
      (XO XH))))))))) :: ((SNew1 (('B'::[]), DFlt, (EVar
      ('n'::('b'::('i'::('n'::('s'::[])))))), (EInt Z0))) :: ((SFor ((S (S (S
      (S (S (S O)))))), ('j'::[]), (EInt Z0), (EVar
      ('n'::('b'::('i'::('n'::('s'::[])))))),
      (seq ((SStore1 ((S (S (S (S (S (S O)))))), ('B'::[]), (EVar ('j'::[])),
        (EBin (Add, (EVar ('m'::[])), (EBin (Mul, (EVar ('j'::[])), (EVar
        ('b'::('i'::('n'::('s'::('i'::('z'::('e'::[])))))))))))))) :: [])))) :: ((SReturn
      ((AVar ('C'::[])) :: ((AVar ('B'::[])) :: []))) :: [])))))))))))))) }

(** val k__overlap_split : func **)

let k__overlap_split =
  { fname =
    ('_'::('o'::('v'::('e'::('r'::('l'::('a'::('p'::('_'::('s'::('p'::('l'::('i'::('t'::[]))))))))))))));
    fparams =
    (('s'::('t'::('a'::('r'::('t'::[]))))) :: (('e'::('n'::('d'::[]))) :: (('i'::('n'::('t'::('e'::('r'::('v'::('a'::('l'::('_'::('s'::('i'::('z'::('e'::[]))))))))))))) :: (('o'::('v'::('e'::('r'::('l'::('a'::('p'::[]))))))) :: []))));
    flocals =
    (('N'::[]) :: (('s'::('l'::('i'::('c'::('e'::('s'::[])))))) :: (('k'::[]) :: (('n'::[]) :: (('t'::[]) :: (('_'::('t'::('0'::[]))) :: []))))));
    fbody =
    (seq ((SAssign (('N'::[]), (EUn (ToInt, (EUn (Ceil, (EBin (Div, (ESumDiff
      (O, ('e'::('n'::('d'::[]))), ('s'::('t'::('a'::('r'::('t'::[]))))))),
      (EBin (Mul, (EVar
      ('i'::('n'::('t'::('e'::('r'::('v'::('a'::('l'::('_'::('s'::('i'::('z'::('e'::[])))))))))))))),
      (EBin (Sub, (EInt (Zpos XH)), (EVar
      ('o'::('v'::('e'::('r'::('l'::('a'::('p'::[])))))))))))))))))))) :: ((SNew2
      (('s'::('l'::('i'::('c'::('e'::('s'::[])))))), DFlt, (EBin (Add, (EVar
      ('N'::[])), (EInt (Zpos XH)))), (EInt (Zpos (XO XH))), (EInt
      Z0))) :: ((SAssign (('k'::[]), (EInt Z0))) :: ((SAssign (('n'::[]),
      (EInt Z0))) :: ((SWhile (O, (ECmp (Lt0, (EVar ('k'::[])), (ELen
      ('s'::('t'::('a'::('r'::('t'::[])))))))),
      (seq ((SAssign (('t'::[]), (ERead1 ((S O),
        ('s'::('t'::('a'::('r'::('t'::[]))))), (EVar
        ('k'::[])))))) :: ((SWhile ((S O), (EAnd ((ECmp (Lt0, (EBin (Add,
        (EVar ('t'::[])), (EVar
        ('i'::('n'::('t'::('e'::('r'::('v'::('a'::('l'::('_'::('s'::('i'::('z'::('e'::[])))))))))))))))),
        (ERead1 ((S (S O)), ('e'::('n'::('d'::[]))), (EVar ('k'::[])))))),
        (ECmp (Le, (EVar ('n'::[])), (EVar ('N'::[])))))),
        (seq ((SStore2 ((S (S (S O))),
          ('s'::('l'::('i'::('c'::('e'::('s'::[])))))), (EVar ('n'::[])),
          (EInt Z0), (EVar ('t'::[])))) :: ((SStore2 ((S (S (S (S O)))),
          ('s'::('l'::('i'::('c'::('e'::('s'::[])))))), (EVar ('n'::[])),
          (EInt (Zpos XH)), (EBin (Add, (EVar ('t'::[])), (EVar
          ('i'::('n'::('t'::('e'::('r'::('v'::('a'::('l'::('_'::('s'::('i'::('z'::('e'::[])))))))))))))))))) :: ((SAssign
          (('t'::[]), (EBin (Add, (EVar ('t'::[])), (EBin (Mul, (EBin (Sub,
          (EInt (Zpos XH)), (EVar
          ('o'::('v'::('e'::('r'::('l'::('a'::('p'::[])))))))))), (EVar
          ('i'::('n'::('t'::('e'::('r'::('v'::('a'::('l'::('_'::('s'::('i'::('z'::('e'::[])))))))))))))))))))) :: ((SAssign
          (('n'::[]), (EBin (Add, (EVar ('n'::[])), (EInt (Zpos
          XH)))))) :: []))))))) :: ((SAssign (('k'::[]), (EBin (Add, (EVar
        ('k'::[])), (EInt (Zpos XH)))))) :: [])))))) :: ((SSlice
      (('_'::('t'::('0'::[]))), ('s'::('l'::('i'::('c'::('e'::('s'::[])))))),
      (EInt Z0), (EVar ('n'::[])))) :: ((SReturn ((AVar
      ('_'::('t'::('0'::[])))) :: [])) :: [])))))))) }

(** val all_kernels : func list **)

let all_kernels =
  k_jitrestrict :: (k_jitrestrict_with_count :: (k_jitvaluefrom :: (k_jitcount :: (k_jitin_interval :: (k_jitremove_nan :: (k_jitthreshold :: (k__jitbin_array :: (k_jitintersect :: (k_jitunion :: (k_jitdiff :: (k_jitunion_isets :: (k__jitfix_iset :: (k__jitcontinuous_perievent :: (k__jitperievent_trigger_average :: (k__cross_correlogram :: (k__overlap_split :: []))))))))))))))))

(** val run0 : nat -> func -> value list -> outcome **)

let run0 fuel k args =
  run all_kernels fuel k args

(** val q_ticks : q -> z option **)

let q_ticks q0 =
  let n =
    Z.mul q0.qnum (Zpos (XO (XO (XO (XO (XO (XO (XO (XO (XO (XI (XO (XI (XO
      (XO (XI (XI (XO (XI (XO (XI (XI (XO (XO (XI (XI (XI (XO (XI (XI
      XH))))))))))))))))))))))))))))))
  in
  let d = Zpos q0.qden in
  if Z.eqb (Z.modulo n d) Z0 then Some (Z.div n d) else None

(** val q_of_ticks : z -> q **)

let q_of_ticks t =
  qred { qnum = t; qden = (XO (XO (XO (XO (XO (XO (XO (XO (XO (XI (XO (XI (XO
    (XO (XI (XI (XO (XI (XO (XI (XI (XO (XO (XI (XI (XI (XO (XI (XI
    XH))))))))))))))))))))))))))))) }

(** val q_red : q -> q **)

let q_red =
  qred

(** val run_kernel : nat -> char list -> value list -> outcome option **)

let run_kernel fuel name args =
  match find_func all_kernels name with
  | Some g -> Some (run0 fuel g args)
  | None -> None
