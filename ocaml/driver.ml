(* Driver for the extracted models: one case per line on stdin, one result per line on stdout.
   line  := op TAB arg TAB arg ...     arg := space-separated decimal integers (possibly none)
   result := fields separated by '|', each a space-separated list of integers; "nan" for None. *)
open Model

let rec pos_of_int n = if n = 1 then XH else if n land 1 = 0 then XO (pos_of_int (n lsr 1)) else XI (pos_of_int (n lsr 1))
let z_of_int n = if n = 0 then Z0 else if n > 0 then Zpos (pos_of_int n) else Zneg (pos_of_int (-n))
let rec int_of_pos = function XH -> 1 | XO p -> 2 * int_of_pos p | XI p -> 2 * int_of_pos p + 1
let int_of_z = function Z0 -> 0 | Zpos p -> int_of_pos p | Zneg p -> - (int_of_pos p)
let rec nat_of_int n = if n <= 0 then O else S (nat_of_int (n - 1))
let rec int_of_nat = function O -> 0 | S n -> 1 + int_of_nat n

let ints s = List.filter (fun x -> x <> "") (String.split_on_char ' ' s) |> List.map int_of_string
let zs s = List.map z_of_int (ints s)
let rec pairs = function a :: b :: r -> (a, b) :: pairs r | _ -> []
let iset s = pairs (zs s)
let out_z l = String.concat " " (List.map (fun z -> string_of_int (int_of_z z)) l)
let out_n l = String.concat " " (List.map (fun n -> string_of_int (int_of_nat n)) l)
let out_iset l = out_z (List.concat_map (fun (a, b) -> [a; b]) l)
let out_on l = String.concat " " (List.map (function None -> "nan" | Some n -> string_of_int (int_of_nat n)) l)
let out_b b = if b then "1" else "0"

(* history: each argument is one operation "K ints : ints" *)
let parse_op s =
  let parts = String.split_on_char ':' s in
  let head = List.filter (fun x -> x <> "") (String.split_on_char ' ' (List.nth parts 0)) in
  let l1 = if List.length parts > 1 then zs (List.nth parts 1) else [] in
  let l2 = if List.length parts > 2 then zs (List.nth parts 2) else [] in
  let k = List.hd head in
  let n i = nat_of_int (int_of_string (List.nth head i)) in
  let z i = z_of_int (int_of_string (List.nth head i)) in
  let mask = List.map (fun v -> int_of_z v <> 0) l1 in
  match k with
  | "MT" -> OpMkTs l1
  | "MS" -> OpMkTsSup (l1, n 1)
  | "ME" -> OpMkEp (l1, l2)
  | "SU" -> OpSupport (n 1)
  | "R" -> OpRestrict (n 1, n 2)
  | "G" -> OpGet (n 1, z 2, z 3)
  | "C" -> OpCount (n 1, n 2, z 3)
  | "V" -> OpValueFrom (n 1, n 2, n 3)
  | "T" -> OpThreshold (n 1, mask)
  | "D" -> OpDropna (n 1, mask)
  | "U" -> OpUnion (n 1, n 2)
  | "I" -> OpInter (n 1, n 2)
  | "F" -> OpDiff (n 1, n 2)
  | "TS" -> OpTimeSpan (n 1)
  | "DS" -> OpDropShort (n 1, z 2)
  | "MC" -> OpMergeClose (n 1, z 2)
  | _ -> failwith ("bad op " ^ k)
let out_obj = function
  | OTs x -> "T " ^ out_z x.t_ ^ " / " ^ out_iset x.sup_
  | OEp e -> "E " ^ out_iset e

let run op a =
  let g i = List.nth a i in
  match op with
  | "restrict" -> out_n (restrict_idx (zs (g 0)) (iset (g 1))) ^ "|" ^ out_n (restrict_cnt (zs (g 0)) (iset (g 1)))
  | "in_interval" -> out_on (in_interval (zs (g 0)) (iset (g 1)))
  | "fix_iset" -> out_iset (fix_iset (iset (g 0)))
  | "fix_iset_orig" -> out_iset (fix_iset_orig (iset (g 0)))
  | "mk_iset" -> out_iset (mk_iset (zs (g 0)) (zs (g 1)))
  | "inter" -> let r = k_inter_meta (iset (g 0)) (iset (g 1)) in
      out_iset (List.map fst r) ^ "|" ^ out_n (List.concat_map (fun (_, (i, j)) -> [i; j]) r)
  | "diff" -> let r = k_diff_meta (iset (g 0)) (iset (g 1)) in
      out_iset (List.map fst r) ^ "|" ^ out_n (List.map snd r)
  | "union" -> out_iset (k_union (iset (g 0)) (iset (g 1)))
  | "union_n" -> out_iset (k_union_n (iset (g 0)))
  | "iset_inter" -> out_iset (iset_inter (iset (g 0)) (iset (g 1)))
  | "iset_union" -> out_iset (iset_union (iset (g 0)) (iset (g 1)))
  | "iset_diff" -> out_iset (iset_diff (iset (g 0)) (iset (g 1)))
  | "count" -> let r = count_binned (zs (g 0)) (iset (g 1)) (List.hd (zs (g 2))) in
      out_z (List.map fst r) ^ "|" ^ out_n (List.map snd r)
  | "count_spec" -> let r = count_spec (zs (g 0)) (iset (g 1)) (List.hd (zs (g 2))) in
      out_z (List.map fst r) ^ "|" ^ out_n (List.map snd r)
  | "bin_average" -> let r = bin_sum_cnt (zs (g 0)) (zs (g 1)) (iset (g 2)) (List.hd (zs (g 3))) in
      out_z (List.map fst r) ^ "|" ^ out_n (List.map (fun (_, (c, _)) -> c) r) ^ "|" ^ out_z (List.map (fun (_, (_, s)) -> s) r)
  | "value_from" -> out_on (value_from (List.hd (zs (g 0))) (zs (g 1)) (zs (g 2)) (iset (g 3)))
  | "threshold" -> out_iset (threshold_support (iset (g 0)) (List.combine (zs (g 1)) (List.map (fun i -> i <> 0) (ints (g 2)))))
  | "dropna" -> out_iset (dropna_support (List.combine (zs (g 0)) (List.map (fun i -> i <> 0) (ints (g 1)))))
  | "get_range" -> let (i0, i1) = get_range (List.hd (zs (g 0))) (List.hd (zs (g 1))) (zs (g 2)) in out_n [i0; i1]
  | "get_closest" -> out_n [get_closest (List.hd (zs (g 0))) (zs (g 1))]
  | "trial_tensor" -> String.concat "|" (List.map out_z (to_trial_tensor (List.hd (ints (g 0)) <> 0) (z_of_int (-1)) (zs (g 1)) (zs (g 2)) (iset (g 3))))
  | "trial_count" -> String.concat "|" (List.map out_n (trial_count_rows (zs (g 0)) (iset (g 1)) (List.hd (zs (g 2)))))
  | "history" -> String.concat "|" (List.map out_obj (Model.run (List.map parse_op a)))
  | _ -> "ERR unknown op " ^ op

let () =
  try
    while true do
      let line = input_line stdin in
      match String.split_on_char '\t' line with
      | [] -> print_endline "ERR empty"
      | op :: args -> print_endline (try run op args with e -> "ERR " ^ Printexc.to_string e)
    done
  with End_of_file -> ()
