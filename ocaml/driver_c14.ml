(* Driver for the extracted C14 model: one case per line on stdin, one result per line on stdout.
   line := op TAB arg TAB arg ...   arg := space-separated decimal integers (possibly none)
   a time series / raw operand is 6 consecutive args:  K  t  sup  shape  cells  cols
     K = 0 Tsd, 1 TsdFrame, 2 TsdTensor, 9 raw ndarray (t, sup, cols empty)
   a NumPy result is one arg: "0" = not array-like (scalar, tuple); "1 d0 d1 ..." = array of that shape
     (its cells are the tokens 0 .. size-1)
   result := TS k|t|sup|shape|cells|cols  /  ARR shape|cells  /  OTHER  /  REFUSED  /  ERR name ; lists joined by " ; " *)
open Model_c14

let rec pos_of_int n = if n = 1 then XH else if n land 1 = 0 then XO (pos_of_int (n lsr 1)) else XI (pos_of_int (n lsr 1))
let z_of_int n = if n = 0 then Z0 else if n > 0 then Zpos (pos_of_int n) else Zneg (pos_of_int (-n))
let rec int_of_pos = function XH -> 1 | XO p -> 2 * int_of_pos p | XI p -> 2 * int_of_pos p + 1
let int_of_z = function Z0 -> 0 | Zpos p -> int_of_pos p | Zneg p -> - (int_of_pos p)
let rec nat_of_int n = if n <= 0 then O else S (nat_of_int (n - 1))
let rec int_of_nat = function O -> 0 | S n -> 1 + int_of_nat n

let ints s = List.filter (fun x -> x <> "") (String.split_on_char ' ' s) |> List.map int_of_string
let zs s = List.map z_of_int (ints s)
let nats s = List.map nat_of_int (ints s)
let rec pairs = function a :: b :: r -> (a, b) :: pairs r | _ -> []
let iset s = pairs (zs s)
let out_z l = String.concat " " (List.map (fun z -> string_of_int (int_of_z z)) l)
let out_n l = String.concat " " (List.map (fun n -> string_of_int (int_of_nat n)) l)
let out_iset l = out_z (List.concat_map (fun (a, b) -> [a; b]) l)

let cls_of = function 0 -> CTsd | 1 -> CFrame | _ -> CTensor
let int_of_cls = function CTsd -> 0 | CFrame -> 1 | CTensor -> 2
let err_name = function
  | EAssertLen -> "AssertLen" | EAssertDim -> "AssertDim" | ERuntimeDim -> "RuntimeDim"
  | ERuntimeOrder -> "RuntimeOrder" | EValueSplit -> "ValueSplit" | EValueBroadcast -> "ValueBroadcast" | ENoNap -> "NoNap"

(* operand from 6 args starting at position i *)
let operand a i =
  let g j = List.nth a (i + j) in
  let k = List.hd (ints (g 0)) in
  let d = { shape = nats (g 3); cells = zs (g 4) } in
  if k = 9 then Inr d else Inl { kls = cls_of k; t_of = zs (g 1); sup_of = iset (g 2); dat = d; cols = zs (g 5) }
let ts_of a i = match operand a i with Inl x -> x | Inr _ -> failwith "time series expected"

let npres_of s =
  match ints s with
  | 0 :: _ -> NOther ()
  | 1 :: sh -> let size = List.fold_left ( * ) 1 sh in
      NArr { shape = List.map nat_of_int sh; cells = List.init size z_of_int }
  | _ -> failwith "bad result"

let out_arr d = out_n d.shape ^ "|" ^ out_z d.cells
let out_out = function
  | OTs r -> "TS " ^ string_of_int (int_of_cls r.kls) ^ "|" ^ out_z r.t_of ^ "|" ^ out_iset r.sup_of ^ "|" ^ out_arr r.dat ^ "|" ^ out_z r.cols
  | OArr d -> "ARR " ^ out_arr d
  | OOther () -> "OTHER"
  | ORefused -> "REFUSED"
  | OErr e -> "ERR " ^ err_name e
let out_list l = String.concat " ; " (List.map out_out l)

let run op a =
  let g i = List.nth a i in
  match op with
  | "func" ->
      let kind = match List.hd (ints (g 0)) with 1 -> FExcluded | 2 -> FFft | _ -> FPlain in
      let r = npres_of (g 7) in
      out_out (array_function (ts_of a 1) kind (fun _ -> r))
  | "ufunc" ->
      let r = npres_of (g 8) in
      out_out (array_ufunc (ts_of a 2) (List.hd (ints (g 0)) <> 0) (nat_of_int (List.hd (ints (g 1)))) (fun _ -> r))
  | "ufunc_multi" ->
      let k = List.hd (ints (g 8)) in
      let rs = List.init k (fun i -> npres_of (g (9 + i))) in
      (match array_ufunc_multi (ts_of a 2) (List.hd (ints (g 0)) <> 0) (nat_of_int (List.hd (ints (g 1)))) (fun _ -> rs) with
       | Some l -> out_list l
       | None -> "REFUSED")
  | "mixed" ->
      let r = npres_of (g 12) in
      out_out (mixed_ufunc (ts_of a 0) (ts_of a 6) (fun _ _ -> r))
  | "concat" ->
      let n = List.hd (ints (g 0)) in
      let ops = List.init n (fun i -> operand a (1 + 6 * i)) in
      let outp = { shape = nats (g (1 + 6 * n)); cells = zs (g (2 + 6 * n)) } in
      out_out (concat_tsd ops outp)
  | "cat0" ->
      let n = List.hd (ints (g 0)) in
      let ops = List.init n (fun i -> { shape = nats (g (1 + 2 * i)); cells = zs (g (2 + 2 * i)) }) in
      out_arr (cat0 ops)
  | "split" ->
      let asplit = List.hd (ints (g 0)) <> 0 in
      let ios = if List.hd (ints (g 1)) = 0 then Inl (nat_of_int (List.hd (ints (g 2)))) else Inr (nats (g 2)) in
      (match split_tsd (ts_of a 3) asplit ios with
       | Inl l -> out_list l
       | Inr e -> "ERR " ^ err_name e)
  | "split_other" ->
      let n = List.hd (ints (g 6)) in
      let pcs = List.init n (fun i -> { shape = nats (g (7 + 2 * i)); cells = zs (g (8 + 2 * i)) }) in
      out_list (split_other (ts_of a 0) pcs)
  | _ -> "ERR unknown op " ^ op

let () =
  try
    while true do
      let line = input_line stdin in
      match String.split_on_char '\t' line with
      | [] -> print_endline "ERR empty"
      | op :: args -> print_endline (try run op args with e -> "ERR " ^ Printexc.to_string e)
    done
  with End_of_file -> ()
