(* Driver for the extracted C19 model (Model/Spectrum.v): one case per line on stdin, one result per line.
   line  := op TAB arg TAB arg ...     arg := space-separated decimal integers (possibly none)
   result := fields separated by '|', each a space-separated list of integers. *)
open Model_c19

let rec pos_of_int n = if n = 1 then XH else if n land 1 = 0 then XO (pos_of_int (n lsr 1)) else XI (pos_of_int (n lsr 1))
let z_of_int n = if n = 0 then Z0 else if n > 0 then Zpos (pos_of_int n) else Zneg (pos_of_int (-n))
let rec int_of_pos = function XH -> 1 | XO p -> 2 * int_of_pos p | XI p -> 2 * int_of_pos p + 1
let int_of_z = function Z0 -> 0 | Zpos p -> int_of_pos p | Zneg p -> - (int_of_pos p)
let rec nat_of_int n = if n <= 0 then O else S (nat_of_int (n - 1))
let rec int_of_nat = function O -> 0 | S n -> 1 + int_of_nat n

let ints s = List.filter (fun x -> x <> "") (String.split_on_char ' ' s) |> List.map int_of_string
let zs s = List.map z_of_int (ints s)
let rec pairs = function a :: b :: r -> (a, b) :: pairs r | _ -> []
let iset s = pairs (zs s)
let out_z l = String.concat " " (List.map (fun z -> string_of_int (int_of_z z)) l)
let out_n l = String.concat " " (List.map (fun n -> string_of_int (int_of_nat n)) l)
let out_iset l = out_z (List.concat_map (fun (a, b) -> [a; b]) l)
let out_b b = if b then "1" else "0"
let z1 s = List.hd (zs s)
let n1 s = nat_of_int (List.hd (ints s))
let b1 s = List.hd (ints s) <> 0

let run op a =
  let g i = List.nth a i in
  match op with
  (* fftfreq n *)
  | "fftfreq" -> out_z (fftfreq_idx (n1 (g 0)))
  (* positions full n  ->  keys | positions *)
  | "positions" -> let r = fft_positions (b1 (g 0)) (n1 (g 1)) in
      out_z (List.map fst r) ^ "|" ^ out_n (List.map snd r)
  (* mults full n -> keys | multipliers *)
  | "mults" -> let r = psd_mults (b1 (g 0)) (n1 (g 1)) in
      out_z (List.map fst r) ^ "|" ^ out_z (List.map snd r)
  (* mults_orig fsn fsd n -> keys | pre-repair mask (history) *)
  | "mults_orig" -> let r = psd_mults_orig (z1 (g 0)) (z1 (g 1)) (n1 (g 2)) in
      out_z (List.map fst r) ^ "|" ^ String.concat " " (List.map (fun (_, b) -> out_b b) r)
  (* signal ts vs s e n(-1 = None)  ->  indices inside the epoch | crop_pad of their values | sum of squares *)
  | "signal" ->
      let ts = zs (g 0) and vs = ints (g 1) in
      let ix = epoch_idx ts (z1 (g 2)) (z1 (g 3)) in
      let x = List.map (fun i -> z_of_int (List.nth vs (int_of_nat i))) ix in
      let n = List.hd (ints (g 4)) in
      let n' = if n < 0 then List.length x else n in
      let cp = crop_pad_z (nat_of_int n') x in
      out_n ix ^ "|" ^ out_z cp ^ "|" ^ out_z [sumsq_z cp]
  (* split ep L st -> segments | allocated rows *)
  | "split" -> let ep = iset (g 0) and l = z1 (g 1) and st = z1 (g 2) in
      out_iset (overlap_split ep l st) ^ "|" ^ out_z [alloc_rows ep st] ^ "|"
      ^ out_n (List.map (fun (s, e) -> seg_count s e l st) ep)
  (* plan ts ep L st -> N | slices   (or "none") *)
  | "plan" -> (match mean_plan (zs (g 0)) (iset (g 1)) (z1 (g 2)) (z1 (g 3)) with
      | None -> "none"
      | Some (n, sl) -> out_n [n] ^ "|" ^ out_n (List.concat_map (fun (a, b) -> [a; b]) sl))
  | _ -> "ERR unknown op " ^ op

let () =
  try
    while true do
      let line = input_line stdin in
      match String.split_on_char '\t' line with
      | [] -> print_endline "ERR empty"
      | op :: args -> print_endline (try run op args with e -> "ERR " ^ Printexc.to_string e)
    done
  with End_of_file -> ()
