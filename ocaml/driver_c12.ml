(* Driver for the extracted TsGroup model (C12): one case per line on stdin, one result per line.
   line := op TAB arg TAB arg ...   arg := space-separated integers.
   group spec (5 + 2n args): flags "supgiven bypass hastag islist" ; sup ; keys as (kind value) pairs
   (kind 0 int, 1 str, 2 bad, 3 float, 4 float with a fraction) ; tags ; member kinds (0 Ts(t, support), 1 array, 2 Ts(t), 3 state as given) ;
   then per member: timestamps ; member support.
   state := keys | sup | hastag | tags | (t | msup | rate)*     ERR for an exception. *)
open Model_c12

let rec pos_of_int n = if n = 1 then XH else if n land 1 = 0 then XO (pos_of_int (n lsr 1)) else XI (pos_of_int (n lsr 1))
let z_of_int n = if n = 0 then Z0 else if n > 0 then Zpos (pos_of_int n) else Zneg (pos_of_int (-n))
let rec int_of_pos = function XH -> 1 | XO p -> 2 * int_of_pos p | XI p -> 2 * int_of_pos p + 1
let int_of_z = function Z0 -> 0 | Zpos p -> int_of_pos p | Zneg p -> - (int_of_pos p)
let rec nat_of_int n = if n <= 0 then O else S (nat_of_int (n - 1))
let rec int_of_nat = function O -> 0 | S n -> 1 + int_of_nat n

let ints s = List.filter (fun x -> x <> "") (String.split_on_char ' ' s) |> List.map int_of_string
let zs s = List.map z_of_int (ints s)
let rec pairs = function a :: b :: r -> (a, b) :: pairs r | _ -> []
let iset s = pairs (zs s)
let bools s = List.map (fun i -> i <> 0) (ints s)
let out_z l = String.concat " " (List.map (fun z -> string_of_int (int_of_z z)) l)
let out_n l = String.concat " " (List.map (fun n -> string_of_int (int_of_nat n)) l)
let out_iset l = out_z (List.concat_map (fun (a, b) -> [a; b]) l)
let out_on l = String.concat " " (List.map (function None -> "nan" | Some n -> string_of_int (int_of_nat n)) l)

let out_rate m = match rate m with None -> "nan" | Some (n, d) -> string_of_int (int_of_nat n) ^ " " ^ string_of_int (int_of_z d)
let out_state (g : group) =
  let (es, (sup, ht)) = g in
  String.concat "|" ([out_z (List.map fst es); out_iset sup; (if ht then "1" else "0"); out_z (List.map (fun (_, (tg, _)) -> tg) es)]
                     @ List.concat_map (fun (_, (_, m)) -> [out_z (fst m); out_iset (snd m); out_rate m]) es)
let out_ostate = function None -> "ERR" | Some g -> out_state g

let rawkey kind v = match kind with 0 -> RInt v | 1 -> RStr v | 2 -> RBad | 3 -> RFlt (v, false) | _ -> RFlt (v, true)

(* parse a group spec starting at position p of the argument array; returns (group option, next position) *)
let parse_group (a : string array) p =
  let fl = ints a.(p) in
  let supgiven = List.nth fl 0 <> 0 and bypass = List.nth fl 1 <> 0 and hastag = List.nth fl 2 <> 0 and islist = List.nth fl 3 <> 0 in
  let sup = if supgiven then Some (iset a.(p + 1)) else None in
  let keys = List.map (fun (k, v) -> rawkey (int_of_z k) v) (pairs (zs a.(p + 2))) in
  let tags = zs a.(p + 3) in
  let kinds = ints a.(p + 4) in
  let n = List.length tags in
  let members = List.mapi (fun i kind ->
      let t = zs a.(p + 5 + 2 * i) and ms = iset a.(p + 6 + 2 * i) in
      match kind with
      | 0 -> RObj (mk_ts t ms)          (* Ts(t, time_support = ms) *)
      | 1 -> RArr t                     (* a raw array *)
      | 2 -> RObj (ts_default t)        (* Ts(t) *)
      | _ -> RObj (t, ms)) kinds in
  let tm = List.combine tags members in
  let g = if islist then mk_group_list tm sup bypass hastag else mk_group (List.combine keys tm) sup bypass hastag in
  (g, p + 5 + 2 * n)

let parse_op (a : string array) p (aux : group option) =
  let c = ints a.(p) in
  let g i = List.nth c i in
  let b i = g i <> 0 in
  let o = match g 0 with
    | 0 -> Some (OSelKeys (zs a.(p + 1)))
    | 1 -> Some (OSelMask (bools a.(p + 1)))
    | 2 -> Some (OThr (z_of_int (g 2), z_of_int (g 1)))
    | 3 -> Some (OCat (z_of_int (g 1)))
    | 4 -> Some (OInt (zs a.(p + 1), nat_of_int (g 1)))
    | 5 -> Some (ORestrict (iset a.(p + 1)))
    | 6 -> Some (OGet (z_of_int (g 1), z_of_int (g 2)))
    | 7 -> Some ORoundTrip
    | 8 -> Some (OMergeSplit (bools a.(p + 1), bools a.(p + 2), b 1, b 2, b 3))
    | 9 -> (match aux with Some x -> Some (OMergeWith (x, b 4, b 1, b 2, b 3)) | None -> None)
    | _ -> None in
  (o, p + 3)

let run op (a : string array) =
  match op with
  | "mk" -> let (g, _) = parse_group a 0 in out_ostate g
  | "hist" ->
      let (g, p) = parse_group a 0 in
      let (aux, p) = parse_group a p in
      (match g with
       | None -> "ERR"
       | Some g ->
           let rec ops p = if p + 2 < Array.length a then
               (let (o, p') = parse_op a p aux in match o with Some o -> o :: ops p' | None -> failwith "bad op") else [] in
           out_state g ^ "#" ^ String.concat "#" (List.map out_ostate (trace g (ops p))))
  | "merge" ->
      (* merge \t "ri rs im n" \t spec_1 ... spec_n *)
      let fl = ints a.(0) in
      let b i = List.nth fl i <> 0 in
      let n = List.nth fl 3 in
      let rec specs i p = if i = n then [] else (let (g, p') = parse_group a p in g :: specs (i + 1) p') in
      let gs = specs 0 1 in
      if List.exists (fun g -> g = None) gs then "ERR"
      else out_ostate (merge_group (List.map (function Some g -> g | None -> failwith "none") gs) (b 0) (b 1) (b 2))
  | "to_tsd" ->
      let (g, _) = parse_group a 0 in
      (match g with None -> "ERR" | Some g -> let (rows, sup) = to_tsd g in
        out_z (List.concat_map (fun (t, k) -> [t; k]) rows) ^ "|" ^ out_iset sup)
  | "intervals" ->
      let (g, p) = parse_group a 0 in
      (match g with None -> "ERR" | Some g ->
        String.concat "#" (List.map (fun (i, r) -> string_of_int (int_of_nat i) ^ "#" ^ out_ostate r) (getby_intervals g (zs a.(p)))))
  | "gcount" ->
      let (g, p) = parse_group a 0 in
      (match g with None -> "ERR" | Some g ->
        String.concat "#" (List.map (fun (k, col) -> out_z [k] ^ "|" ^ out_z (List.map fst col) ^ "|" ^ out_n (List.map snd col))
                             (g_count g (iset a.(p)) (List.hd (zs a.(p + 1))))))
  | "gcount_ep" ->
      let (g, p) = parse_group a 0 in
      (match g with None -> "ERR" | Some g ->
        String.concat "#" (List.map (fun (k, col) -> out_z [k] ^ "|" ^ out_n col) (g_count_ep g (iset a.(p)))))
  | "gtrial" ->
      let (g, p) = parse_group a 0 in
      (match g with None -> "ERR" | Some g ->
        String.concat "#" (List.map (fun (k, rows) -> out_z [k] ^ "|" ^ String.concat "|" (List.map out_n rows))
                             (g_trial_count g (iset a.(p)) (List.hd (zs a.(p + 1))))))
  | "gvf" ->
      let (g, p) = parse_group a 0 in
      (match g with None -> "ERR" | Some g ->
        String.concat "#" (List.map (fun (k, (t, ix)) -> out_z [k] ^ "|" ^ out_z t ^ "|" ^ out_on ix)
                             (g_value_from g (List.hd (zs a.(p))) (zs a.(p + 1)) (iset a.(p + 2)))))
  | _ -> "ERR unknown op " ^ op

let () =
  try
    while true do
      let line = input_line stdin in
      match String.split_on_char '\t' line with
      | [] -> print_endline "ERR empty"
      | op :: args -> print_endline (try run op (Array.of_list args) with e -> "ERR! " ^ Printexc.to_string e)
    done
  with End_of_file -> ()
