(* Driver for the extracted C16 models: one case per line on stdin, one result per line on stdout.
   line  := op TAB arg TAB arg ...     arg := space-separated decimal integers (possibly none)
   result := fields separated by '|', each a space-separated list of integers; "nan" for None. *)
open Model_c16

let rec pos_of_int n = if n = 1 then XH else if n land 1 = 0 then XO (pos_of_int (n lsr 1)) else XI (pos_of_int (n lsr 1))
let z_of_int n = if n = 0 then Z0 else if n > 0 then Zpos (pos_of_int n) else Zneg (pos_of_int (-n))
let rec int_of_pos = function XH -> 1 | XO p -> 2 * int_of_pos p | XI p -> 2 * int_of_pos p + 1
let int_of_z = function Z0 -> 0 | Zpos p -> int_of_pos p | Zneg p -> - (int_of_pos p)
let rec nat_of_int n = if n <= 0 then O else S (nat_of_int (n - 1))
let rec int_of_nat = function O -> 0 | S n -> 1 + int_of_nat n

let ints s = List.filter (fun x -> x <> "") (String.split_on_char ' ' s) |> List.map int_of_string
let zs s = List.map z_of_int (ints s)
let z1 s = List.hd (zs s)
let n1 s = nat_of_int (List.hd (ints s))
let rec pairs = function a :: b :: r -> (a, b) :: pairs r | _ -> []
let iset s = pairs (zs s)
let out_z l = String.concat " " (List.map (fun z -> string_of_int (int_of_z z)) l)
let out_n l = String.concat " " (List.map (fun n -> string_of_int (int_of_nat n)) l)
let out_oz l = String.concat " " (List.map (function None -> "nan" | Some z -> string_of_int (int_of_z z)) l)
let out_cols cols = String.concat "|" (List.map out_oz cols)
let out_group g = String.concat "|" (List.map (fun (r, l) ->
    string_of_int (int_of_z r) ^ ":" ^ out_z (List.concat_map (fun (a, b) -> [a; b]) l)) g)

let run op a =
  let g i = List.nth a i in
  match op with
  | "xcorr" -> out_n (xcorr_counts (zs (g 0)) (zs (g 1)) (z1 (g 2)) (z1 (g 3))) ^ "|" ^ out_z (xcorr_centres2 (z1 (g 2)) (z1 (g 3)))
  | "xcorr_spec" -> out_n (xcorr_spec (zs (g 0)) (zs (g 1)) (z1 (g 2)) (z1 (g 3)))
  | "autocorr" -> out_n (autocorr_counts (zs (g 0)) (z1 (g 1)) (z1 (g 2)))
  | "perievent" -> out_group (align_tsd (z1 (g 0)) (z1 (g 1)) (zs (g 2)) (zs (g 3)) (zs (g 4)))
  | "perievent_spec" -> out_group (perievent_spec (z1 (g 0)) (z1 (g 1)) (zs (g 2)) (zs (g 3)) (zs (g 4)))
  | "pc_kernel" -> out_n (List.concat_map (fun ((lo, hi), st) -> [lo; hi; st]) (pc_kernel (zs (g 0)) (zs (g 1)) (iset (g 2)) (n1 (g 3)) (n1 (g 4))))
  | "pc_columns" -> out_cols (pc_columns Z0 (zs (g 0)) (zs (g 1)) (zs (g 2)) (iset (g 3)) (n1 (g 4)) (n1 (g 5)))
  | "pc_spec" -> out_cols (pc_spec (zs (g 0)) (zs (g 1)) (zs (g 2)) (iset (g 3)) (n1 (g 4)) (n1 (g 5)))
  | "pc_public" -> let (t, c) = pc_public Z0 (zs (g 0)) (zs (g 1)) (zs (g 2)) (iset (g 3)) (z1 (g 4)) (z1 (g 5)) in out_z t ^ "#" ^ out_cols c
  | "pc_public_spec" -> let (t, c) = pc_public_spec (zs (g 0)) (zs (g 1)) (zs (g 2)) (iset (g 3)) (z1 (g 4)) (z1 (g 5)) in out_z t ^ "#" ^ out_cols c
  | "argmin_last" -> out_n [argmin_last (z1 (g 0)) (zs (g 1))]
  | _ -> "ERR unknown op " ^ op

let () =
  try
    while true do
      let line = input_line stdin in
      match String.split_on_char '\t' line with
      | [] -> print_endline "ERR empty"
      | op :: args -> print_endline (try run op args with e -> "ERR " ^ Printexc.to_string e)
    done
  with End_of_file -> ()
