(* Driver for the extracted metadata model (C13): one case per line on stdin, one result per line.
   line := op TAB arg TAB arg ...   arg := space-separated decimal integers (possibly none)
   IntervalSet results:  K|intervals|labels|tags   D|intervals   E
   TsdFrame / TsGroup results:  labels|data|metadata labels|tags   or  E *)
open Model_c13

let rec pos_of_int n = if n = 1 then XH else if n land 1 = 0 then XO (pos_of_int (n lsr 1)) else XI (pos_of_int (n lsr 1))
let z_of_int n = if n = 0 then Z0 else if n > 0 then Zpos (pos_of_int n) else Zneg (pos_of_int (-n))
let rec int_of_pos = function XH -> 1 | XO p -> 2 * int_of_pos p | XI p -> 2 * int_of_pos p + 1
let int_of_z = function Z0 -> 0 | Zpos p -> int_of_pos p | Zneg p -> - (int_of_pos p)
let rec nat_of_int n = if n <= 0 then O else S (nat_of_int (n - 1))
let rec int_of_nat = function O -> 0 | S n -> 1 + int_of_nat n

let ints s = List.filter (fun x -> x <> "") (String.split_on_char ' ' s) |> List.map int_of_string
let zs s = List.map z_of_int (ints s)
let nats s = List.map nat_of_int (ints s)
let bools s = List.map (fun i -> i <> 0) (ints s)
let rec pairs = function a :: b :: r -> (a, b) :: pairs r | _ -> []
let iset s = pairs (zs s)
let out_z l = String.concat " " (List.map (fun z -> string_of_int (int_of_z z)) l)
let out_iset l = out_z (List.concat_map (fun (a, b) -> [a; b]) l)

let out_res f = function
  | Err -> "E"
  | Dropped iv -> "D|" ^ out_iset iv
  | Kept (iv, m) -> "K|" ^ out_iset iv ^ "|" ^ out_z (List.map fst m) ^ "|" ^ f (List.map snd m)
let out_obj = function
  | None -> "E"
  | Some (cs, m) -> out_z (List.map fst cs) ^ "|" ^ out_z (List.map snd cs) ^ "|" ^ out_z (List.map fst m) ^ "|" ^ out_z (List.map snd m)

let run op a =
  let g i = List.nth a i in
  let z i = List.hd (zs (g i)) in
  let tis i j = (iset (g i), range_frame (zs (g j))) in
  let obj i j k = (List.combine (zs (g i)) (zs (g j)), List.combine (zs (g i)) (zs (g k))) in
  match op with
  | "mk" -> out_res out_z (mk_miset (List.combine (zs (g 0)) (zs (g 1))) (range_frame (zs (g 2))))
  | "mk_df" -> out_res out_z (mk_miset_df (List.map2 (fun (s, e) t -> ((s, e), t)) (List.combine (zs (g 0)) (zs (g 1))) (zs (g 2))))
  | "get_pos" -> out_res out_z (iset_get_pos (tis 0 1) (nats (g 2)))
  | "get_labels" -> out_res out_z (iset_get_labels (tis 0 1) (zs (g 2)))
  | "get_bseries" -> out_res out_z (iset_get_bseries (tis 0 1) (List.combine (zs (g 2)) (bools (g 3))))
  | "inter" -> out_res (fun l -> out_z (List.concat_map (fun (x, y) -> [x; y]) l)) (iset_intersect (tis 0 1) (tis 2 3))
  | "diff" -> out_res out_z (iset_set_diff (tis 0 1) (iset (g 2)))
  | "split" -> out_res out_z (iset_split (tis 0 1) (z 2))
  | "union" -> out_res out_z (iset_union_meta (tis 0 1) (tis 2 3))
  | "time_span" -> out_res out_z (iset_time_span (tis 0 1))
  | "merge_close" -> out_res out_z (iset_merge_close (tis 0 1) (z 2))
  | "f_pos" -> out_obj (frame_get_pos (obj 0 1 2) (nats (g 3)))
  | "f_labels" -> out_obj (frame_get_labels (obj 0 1 2) (zs (g 3)))
  | "f_mask" -> out_obj (frame_get_mask (obj 0 1 2) (bools (g 3)))
  | "f_group" -> let v = z 3 in out_obj (frame_get_group (obj 0 1 2) (fun t -> t = v))
  | "f_map" -> out_obj (frame_map (fun d -> d) (obj 0 1 2))
  | "g_keys" -> out_obj (group_get_keys (obj 0 1 2) (zs (g 3)))
  | "g_mask" -> out_obj (group_get_mask (obj 0 1 2) (bools (g 3)))
  | "g_map" -> out_obj (group_map (fun d -> d) (obj 0 1 2))
  | "g_merge" -> out_obj (group_merge (List.hd (ints (g 0)) <> 0) (obj 1 2 3) (obj 4 5 6))
  | _ -> "ERR unknown op " ^ op

let () =
  try
    while true do
      let line = input_line stdin in
      match String.split_on_char '\t' line with
      | [] -> print_endline "ERR empty"
      | op :: args -> print_endline (try run op args with e -> "ERR " ^ Printexc.to_string e)
    done
  with End_of_file -> ()
