(* Driver for the extracted C17 models: one case per line on stdin, one result per line on stdout.
   line  := op TAB arg TAB arg ...     arg := space-separated decimal integers (possibly none)
   result := fields separated by '|'. *)
open Model_c17

let rec pos_of_int n = if n = 1 then XH else if n land 1 = 0 then XO (pos_of_int (n lsr 1)) else XI (pos_of_int (n lsr 1))
let z_of_int n = if n = 0 then Z0 else if n > 0 then Zpos (pos_of_int n) else Zneg (pos_of_int (-n))
let rec int_of_pos_d d = function
  | XH -> 1
  | XO p -> if d > 60 then failwith "overflow" else 2 * int_of_pos_d (d + 1) p
  | XI p -> if d > 60 then failwith "overflow" else 2 * int_of_pos_d (d + 1) p + 1
let int_of_pos p = int_of_pos_d 0 p
let int_of_z = function Z0 -> 0 | Zpos p -> int_of_pos p | Zneg p -> - (int_of_pos p)
let rec nat_of_int n = if n <= 0 then O else S (nat_of_int (n - 1))
let rec int_of_nat = function O -> 0 | S n -> 1 + int_of_nat n

let ints s = List.filter (fun x -> x <> "") (String.split_on_char ' ' s) |> List.map int_of_string
let zs s = List.map z_of_int (ints s)
let ns s = List.map nat_of_int (ints s)
let rec pairs = function a :: b :: r -> (a, b) :: pairs r | _ -> []
let iset s = pairs (zs s)
let out_z l = String.concat " " (List.map (fun z -> string_of_int (int_of_z z)) l)
let out_n l = String.concat " " (List.map (fun n -> string_of_int (int_of_nat n)) l)
let out_on l = String.concat " " (List.map (function None -> "nan" | Some n -> string_of_int (int_of_nat n)) l)
let out_oz l = String.concat " " (List.map (function None -> "nan" | Some z -> string_of_int (int_of_z z)) l)
let out_q x = let r = qred x in string_of_int (int_of_z r.qnum) ^ "/" ^ string_of_int (int_of_pos r.qden)
let out_qs l = String.concat " " (List.map out_q l)
let out_tv = function TNaN -> "nan" | TInf -> "inf" | TVal x -> out_q x
let q_of_int n d = { qnum = z_of_int n; qden = pos_of_int d }
let one_q = q_of_int 1 1

(* edges from "lo hi nb": scaled by nb *)
let edges_of s = match ints s with
  | [lo; hi; nb] -> (lin_edges (z_of_int lo) (z_of_int hi) (nat_of_int nb), z_of_int nb)
  | _ -> failwith "edges"
let rec chunks k l = if l = [] then [] else
  let rec take n l = if n = 0 then ([], l) else match l with [] -> ([], []) | x :: r -> let (a, b) = take (n - 1) r in (x :: a, b) in
  let (a, b) = take k l in a :: chunks k b
let cell = function None -> "nan" | Some (n, s) -> string_of_int (int_of_nat n) ^ ":" ^ string_of_int (int_of_z s)

let run op a =
  let g i = List.nth a i in
  match op with
  | "hist" -> out_n (hist (zs (g 0)) (zs (g 1)))
  | "bin_of" -> let e = zs (g 0) in out_on (List.map (bin_of e) (zs (g 1)))
  | "dig" -> let e = zs (g 0) in out_on (List.map (dig e) (zs (g 1)))
  | "hist2d" -> String.concat "|" (List.map out_n (hist2d (zs (g 0)) (zs (g 1)) (List.combine (zs (g 2)) (zs (g 3)))))
  | "edges" -> let (e, _) = edges_of (g 0) in out_z e ^ "|" ^ out_z (centres2 e)
  | "discrete" -> let sp = zs (g 0) and ep = iset (g 1) in
      out_n [discrete_count sp ep] ^ "|" ^ out_q (discrete_tc sp ep)
  | "tc1d" -> (* edges(lo hi nb), sp, ft, fv, ep *)
      let (e, c) = edges_of (g 0) in
      let sp = zs (g 1) and ft = zs (g 2) and fv = scale c (zs (g 3)) and ep = iset (g 4) in
      out_n (tc1d_count hist e sp ft fv ep) ^ "|" ^ out_n (tc1d_occ hist e ft fv ep) ^ "|" ^
      String.concat " " (List.map out_tv (tc1d hist one_q e sp ft fv ep)) ^ "|" ^
      out_oz (attributed sp ft (zs (g 3)) ep)
  | "tc2d" -> (* ex, ey, sp, ft, fx, fy, ep *)
      let (ex, cx) = edges_of (g 0) and (ey, cy) = edges_of (g 1) in
      let sp = zs (g 2) and ft = zs (g 3) and fx = scale cx (zs (g 4)) and fy = scale cy (zs (g 5)) and ep = iset (g 6) in
      String.concat ";" (List.map out_n (tc2d_count hist2d ex ey sp ft fx fy ep)) ^ "|" ^
      String.concat ";" (List.map out_n (tc2d_occ hist2d ex ey ft fx fy ep)) ^ "|" ^
      String.concat ";" (List.map (fun r -> String.concat " " (List.map out_tv r)) (tc2d hist2d one_q ex ey sp ft fx fy ep))
  | "cont1d" -> (* edges, st, sv, ft, fv, ep *)
      let (e, c) = edges_of (g 0) in
      let st = zs (g 1) and sv = zs (g 2) and ft = zs (g 3) and fv = scale c (zs (g 4)) and ep = iset (g 5) in
      String.concat " " (List.map cell (cont_tc dig hist e st sv ft fv ep))
  | "cont2d" -> (* ex, ey, st, sv, ft, fx, fy, ep *)
      let (ex, cx) = edges_of (g 0) and (ey, cy) = edges_of (g 1) in
      let st = zs (g 2) and sv = zs (g 3) and ft = zs (g 4) and fx = scale cx (zs (g 5)) and fy = scale cy (zs (g 6)) and ep = iset (g 7) in
      String.concat ";" (List.map (fun r -> String.concat " " (List.map cell r)) (cont_tc2 dig hist2d ex ey st sv ft fx fy ep))
  | "post" -> (* b ticks, occ (nat per feature bin), nunits, tc numerators (bin-major), common denominator, counts *)
      let b = List.hd (zs (g 0)) and occ = occ_q (ns (g 1)) and nu = List.hd (ints (g 2)) and rd = List.hd (ints (g 4)) in
      let tc = List.map (List.map (fun n -> q_of_int n rd)) (chunks nu (ints (g 3))) and cnt = ns (g 5) in
      let w = wls occ tc cnt in
      out_qs w ^ "|" ^ out_qs (List.map (expo (bin_size_s b)) tc) ^ "|" ^ string_of_int (int_of_nat (argmax w)) ^ "|" ^
      out_qs (posterior (fun _ -> one_q) (bin_size_s b) occ tc cnt)
  | "rows" -> (* ep, b, sp1, sp2, ... *)
      let ep = iset (g 0) and b = List.hd (zs (g 1)) in
      let units = List.map zs (List.tl (List.tl a)) in
      String.concat ";" (List.map (fun (c, r) -> string_of_int (int_of_z c) ^ ":" ^ out_n r) (count_rows units ep b))
  | "decode2d_rows" -> (* ep, ny, argmax, row times : times of the posterior rows | times of the decoded rows | unravel ny argmax *)
      let ep = iset (g 0) and ny = List.hd (ns (g 1)) and k = List.hd (ns (g 2)) in
      let rows = List.map (fun t -> (t, [])) (zs (g 3)) in
      let one = [one_q] in
      let post = decode2d_post (fun _ -> one_q) one [[one_q]] rows ep (z_of_int 1) in
      let dec = decode2d_decoded (fun _ -> one_q) one [[one_q]] one one rows ep (z_of_int 1) in
      let (i, j) = unravel ny k in
      string_of_int (List.length post) ^ "|" ^ out_z (List.map fst dec) ^ "|" ^ out_n [i; j]
  | "decode_occ" -> (* edges(lo hi nb), fv : centres rebuilt from the edges, then the edges rebuilt from the centres *)
      let (e, c) = edges_of (g 0) in
      (match decode_occ hist (centres2 e) (scale c (zs (g 1))) with None -> "none" | Some l -> out_n l) ^ "|" ^
      (match edges4 (centres2 e) with None -> "none" | Some l -> out_z l)
  | _ -> "ERR unknown op " ^ op

let () =
  try
    while true do
      let line = input_line stdin in
      match String.split_on_char '\t' line with
      | [] -> print_endline "ERR empty"
      | op :: args -> print_endline (try run op args with e -> "ERR " ^ Printexc.to_string e)
    done
  with End_of_file -> ()
