(* gluedriver: run the translated glue routines (coq/Gen/Glue.v, extracted in gluemodel.ml) in the total evaluator
   Glue.Interp under the kernel environment [kenv_all] of coq/Extract/ExtractGlue.v.

   Build:  cd <verif>/ocaml && ocamlfind ocamlopt -O2 -w -a gluemodel.mli gluemodel.ml gluedriver.ml -o gluedriver

   Input: one case per line on stdin, fields separated by TABs:

       <routine name> TAB <arg> TAB <arg> ...

   the routine name as in coq/Gen/glue.json ("IntervalSet.union", "_restrict", ...), the arguments exactly the
   "params" listed there, in order.  Blanks inside an argument are ignored (except inside a string).

   Values (arguments and results share one syntax).  A TIME is a float counted in integer nanosecond ticks:
   the float cell `t` is the rational t/1 (VFlt (Some (t#1))), `n/d` the rational n/d ticks (d > 0; half ticks are 1/2,
   3/2, ...), `nan` is NaN (VFlt None).  A float that is NOT a time (a data sample, a threshold compared with data,
   an interval index returned by in_interval) is written the same way: its cell is the rational itself.

       N                        None
       i:<int>                  int scalar
       f:<int> | f:<n>/<d> | f:nan     float scalar            (d:<...> is accepted as a synonym: "data" float)
       b:0 | b:1                bool scalar
       s:<text>                 string; the text runs to the end of the argument (inside T(...) / O:{...}: to the
                                next `;`, `)` or `}`), so a string cannot contain TAB ; ) }
       F[c,c,...]               1-D float array, cells <int> | <n>/<d> | nan;  F[] is the empty array
                                (D[...] is accepted as a synonym: "data" float array)
       I[k,k,...]               1-D int array
       B[0,1,...]               1-D bool array
       F2:<c>[c,c,...]          2-D float array with <c> columns, cells row-major (rows = cells / c);
                                also I2:<c>[...] B2:<c>[...]; the printed form carries the rows too:
       F2:<c>:<r>[c,c,...]      (accepted on input as well; needed for c = 0 or r = 0 shapes)
       T(v;v;...)               tuple, T() the empty tuple
       IS[s,s,...|e,e,...]      IntervalSet object from its starts and its ends (as many of each; IS[|] is empty):
                                GObj "IntervalSet" [("values", GArr (A2 DFlt n 2 [s0;e0;s1;e1;...]))]
       TS[t,t,...]              time series reduced to its time index: GObj "Tsd" [("t", GArr (A1 DFlt cells))]
       O:<cls>{name=v;name=v}   any other object (printed for objects that are not of the two shapes above)

   Output: one line per case:

       OK <value>               floats are printed reduced (Qred): an integer when the denominator is 1, else n/d
       ERR RAISE <exception>    an explicit `raise` / failed `assert` of the routine
       ERR TYPE <detail>        a value of the wrong kind / a shape mismatch
       ERR INDEX                an index out of range (int index, gather, mask of the wrong length)
       ERR UNBOUND <n>          variable number n read before assignment
       ERR KERNEL <name>        kernel call outside the kernel environment's domain (or kernel absent from it)
       ERR CALL <name>          unknown callee / wrong number of arguments
       ERR DEPTH                call depth exceeded
       BAD <message>            unparsable line / unknown routine
*)
open Gluemodel

let rec pos_of_int n = if n = 1 then XH else if n land 1 = 0 then XO (pos_of_int (n lsr 1)) else XI (pos_of_int (n lsr 1))
let z_of_int n = if n = 0 then Z0 else if n > 0 then Zpos (pos_of_int n) else Zneg (pos_of_int (-n))
let rec int_of_nat = function O -> 0 | S n -> 1 + int_of_nat n
let chars s = List.init (String.length s) (String.get s)
let string_of_chars l = let b = Buffer.create 16 in List.iter (Buffer.add_char b) l; Buffer.contents b

(* decimal printing of a z of any size *)
let rec pos_bits = function XH -> [1] | XO p -> 0 :: pos_bits p | XI p -> 1 :: pos_bits p
let string_of_pos p =
  let bits = List.rev (pos_bits p) in
  let digits = ref [0] in
  List.iter (fun b ->
      let carry = ref b in
      digits := List.map (fun d -> let v = 2 * d + !carry in carry := v / 10; v mod 10) !digits;
      if !carry > 0 then digits := !digits @ [!carry]) bits;
  String.concat "" (List.rev_map string_of_int !digits)
let string_of_z = function Z0 -> "0" | Zpos p -> string_of_pos p | Zneg p -> "-" ^ string_of_pos p

exception Bad of string

(* ---------- parsing ---------- *)
let parse_int s =
  let s = String.trim s in
  try int_of_string s with _ -> raise (Bad ("integer: " ^ s))

let parse_flt s : q option =
  let s = String.trim s in
  if s = "nan" then None
  else match String.index_opt s '/' with
    | Some k ->
      let n = parse_int (String.sub s 0 k) and d = parse_int (String.sub s (k + 1) (String.length s - k - 1)) in
      if d <= 0 then raise (Bad ("denominator: " ^ s));
      Some (q_red { qnum = z_of_int n; qden = pos_of_int d })
    | None -> Some { qnum = z_of_int (parse_int s); qden = XH }

let parse_cell kind s : sval =
  match kind with
  | 'I' -> VInt (z_of_int (parse_int s))
  | 'B' -> (match parse_int s with 0 -> VBool false | 1 -> VBool true | _ -> raise (Bad ("bool cell: " ^ s)))
  | 'F' | 'D' -> VFlt (parse_flt s)
  | _ -> raise (Bad "cell kind")

let dtype_of = function 'I' -> DInt | 'B' -> DBool | 'F' | 'D' -> DFlt | _ -> raise (Bad "array kind")

let parse_cells kind body =
  if String.trim body = "" then []
  else List.map (parse_cell kind) (String.split_on_char ',' body)

(* a cursor over the argument text *)
type cur = { s : string; mutable p : int }
let peek c = if c.p < String.length c.s then Some c.s.[c.p] else None
let skip_ws c = while (match peek c with Some ' ' -> true | _ -> false) do c.p <- c.p + 1 done
let expect c ch =
  skip_ws c;
  if peek c = Some ch then c.p <- c.p + 1
  else raise (Bad (Printf.sprintf "expected '%c' at column %d of: %s" ch c.p c.s))
(* text up to (not including) the first character of [stops], or the end *)
let take_until c stops =
  let st = c.p in
  while (match peek c with Some ch -> not (String.contains stops ch) | None -> false) do c.p <- c.p + 1 done;
  String.sub c.s st (c.p - st)
let take_to_close c ch =
  let t = take_until c (String.make 1 ch) in
  expect c ch; t

let float_cells body = parse_cells 'F' body

let rec parse_value (c : cur) : gval =
  skip_ws c;
  let rest () = String.sub c.s c.p (String.length c.s - c.p) in
  let starts pre = let n = String.length pre in c.p + n <= String.length c.s && String.sub c.s c.p n = pre in
  if starts "IS[" then begin
    c.p <- c.p + 3;
    let body = take_to_close c ']' in
    match String.split_on_char '|' body with
    | [a; b] ->
      let ss = float_cells a and es = float_cells b in
      if List.length ss <> List.length es then raise (Bad ("IS: as many starts as ends expected: " ^ body));
      let cells = List.concat (List.map2 (fun x y -> [x; y]) ss es) in
      GObj (chars "IntervalSet", [(chars "values", GArr (A2 (DFlt, z_of_int (List.length ss), z_of_int 2, cells)))])
    | _ -> raise (Bad ("IS[starts|ends]: " ^ body))
  end
  else if starts "TS[" then begin
    c.p <- c.p + 3;
    let body = take_to_close c ']' in
    GObj (chars "Tsd", [(chars "t", GArr (A1 (DFlt, float_cells body)))])
  end
  else if starts "T(" then begin
    c.p <- c.p + 2;
    skip_ws c;
    if peek c = Some ')' then (c.p <- c.p + 1; GTup [])
    else begin
      let items = ref [parse_value c] in
      skip_ws c;
      while peek c = Some ';' do
        c.p <- c.p + 1;
        items := parse_value c :: !items;
        skip_ws c
      done;
      expect c ')';
      GTup (List.rev !items)
    end
  end
  else if starts "O:" then begin
    c.p <- c.p + 2;
    let cls = String.trim (take_to_close c '{') in
    skip_ws c;
    if peek c = Some '}' then (c.p <- c.p + 1; GObj (chars cls, []))
    else begin
      let field () =
        let name = String.trim (take_to_close c '=') in
        let v = parse_value c in
        (chars name, v) in
      let fs = ref [field ()] in
      skip_ws c;
      while peek c = Some ';' do
        c.p <- c.p + 1;
        fs := field () :: !fs;
        skip_ws c
      done;
      expect c '}';
      GObj (chars cls, List.rev !fs)
    end
  end
  else match peek c with
    | None -> raise (Bad "empty value")
    | Some 'N' -> c.p <- c.p + 1; GNone
    | Some ('i' | 'f' | 'd' | 'b' | 's' as k) when c.p + 1 < String.length c.s && c.s.[c.p + 1] = ':' ->
      c.p <- c.p + 2;
      if k = 's' then GStr (chars (take_until c ";)}"))
      else begin
        let t = take_until c ";)}" in
        match k with
        | 'i' -> GSc (VInt (z_of_int (parse_int t)))
        | 'b' -> GSc (parse_cell 'B' t)
        | _ -> GSc (VFlt (parse_flt t))
      end
    | Some ('F' | 'D' | 'I' | 'B' as kind) ->
      c.p <- c.p + 1;
      let head = take_to_close c '[' in
      let body = take_to_close c ']' in
      let cells = parse_cells kind body in
      let n = List.length cells in
      if String.trim head = "" then GArr (A1 (dtype_of kind, cells))
      else begin
        match String.split_on_char ':' (String.trim head) with
        | ["2"; cs] ->
          let cc = parse_int cs in
          if cc <= 0 || n mod cc <> 0 then raise (Bad ("2-D shape: " ^ head));
          GArr (A2 (dtype_of kind, z_of_int (n / cc), z_of_int cc, cells))
        | ["2"; cs; rs] ->
          let cc = parse_int cs and r = parse_int rs in
          if cc < 0 || r < 0 || r * cc <> n then raise (Bad ("2-D shape: " ^ head));
          GArr (A2 (dtype_of kind, z_of_int r, z_of_int cc, cells))
        | _ -> raise (Bad ("array head: " ^ head))
      end
    | Some _ -> raise (Bad ("value: " ^ rest ()))

let parse_arg (s : string) : gval =
  let c = { s; p = 0 } in
  let v = parse_value c in
  skip_ws c;
  if c.p <> String.length s then raise (Bad ("trailing text in argument: " ^ s));
  v

(* ---------- printing ---------- *)
let show_flt = function
  | None -> "nan"
  | Some q ->
    let r = q_red q in
    (match r.qden with XH -> string_of_z r.qnum | d -> string_of_z r.qnum ^ "/" ^ string_of_pos d)

let show_cell = function
  | VInt z -> string_of_z z
  | VBool b -> if b then "1" else "0"
  | VFlt q -> show_flt q

let kind_char = function DInt -> "I" | DBool -> "B" | DFlt -> "F"
let show_cells d = String.concat "," (List.map show_cell d)

let rec split_pairs = function
  | a :: b :: r -> let (x, y) = split_pairs r in (a :: x, b :: y)
  | _ -> ([], [])

let rec show_value (v : gval) : string =
  match v with
  | GNone -> "N"
  | GSc (VInt z) -> "i:" ^ string_of_z z
  | GSc (VBool b) -> if b then "b:1" else "b:0"
  | GSc (VFlt q) -> "f:" ^ show_flt q
  | GStr s -> "s:" ^ string_of_chars s
  | GArr (A1 (dt, d)) -> kind_char dt ^ "[" ^ show_cells d ^ "]"
  | GArr (A2 (dt, r, c, d)) -> kind_char dt ^ "2:" ^ string_of_z c ^ ":" ^ string_of_z r ^ "[" ^ show_cells d ^ "]"
  | GTup l -> "T(" ^ String.concat ";" (List.map show_value l) ^ ")"
  | GObj (cls, fs) ->
    (match string_of_chars cls, fs with
     | "IntervalSet", [(n, GArr (A2 (DFlt, r, c, d)))]
       when string_of_chars n = "values" && string_of_z c = "2" && List.length d mod 2 = 0
            && string_of_z r = string_of_int (List.length d / 2) ->
       let (ss, es) = split_pairs d in
       "IS[" ^ show_cells ss ^ "|" ^ show_cells es ^ "]"
     | "Tsd", [(n, GArr (A1 (DFlt, d)))] when string_of_chars n = "t" -> "TS[" ^ show_cells d ^ "]"
     | c, _ ->
       "O:" ^ c ^ "{" ^ String.concat ";" (List.map (fun (n, x) -> string_of_chars n ^ "=" ^ show_value x) fs) ^ "}")

let show_err = function
  | ERaise e -> "ERR RAISE " ^ string_of_chars e
  | EType w -> "ERR TYPE " ^ string_of_chars w
  | EIndex -> "ERR INDEX"
  | EUnbound x -> "ERR UNBOUND " ^ string_of_int (int_of_nat x)
  | EKernelErr n -> "ERR KERNEL " ^ string_of_chars n
  | ECallErr n -> "ERR CALL " ^ string_of_chars n
  | EDepth -> "ERR DEPTH"

let () =
  try
    while true do
      let line = input_line stdin in
      let line = if String.length line > 0 && line.[String.length line - 1] = '\r' then String.sub line 0 (String.length line - 1) else line in
      begin
        (try
           if String.trim line = "" then raise (Bad "empty case");
           match String.split_on_char '\t' line with
           | [] -> raise (Bad "empty case")
           | name :: args ->
             let name = String.trim name in
             let vs = List.map parse_arg args in
             (match run_glue (chars name) vs with
              | None -> print_endline ("BAD unknown routine " ^ name)
              | Some (GOk v) -> print_endline ("OK " ^ show_value v)
              | Some (GErr e) -> print_endline (show_err e))
         with
         | Bad m -> print_endline ("BAD " ^ m)
         | Stack_overflow -> print_endline "BAD stack overflow");
        flush stdout
      end
    done
  with End_of_file -> ()
