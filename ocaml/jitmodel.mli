
val negb : bool -> bool

type nat =
| O
| S of nat

val snd : ('a1 * 'a2) -> 'a2

val length : 'a1 list -> nat

val app : 'a1 list -> 'a1 list -> 'a1 list

type comparison =
| Eq
| Lt
| Gt

val compOpp : comparison -> comparison

val add : nat -> nat -> nat

val sub : nat -> nat -> nat

type positive =
| XI of positive
| XO of positive
| XH

type z =
| Z0
| Zpos of positive
| Zneg of positive

module Pos :
 sig
  type mask =
  | IsNul
  | IsPos of positive
  | IsNeg
 end

module Coq_Pos :
 sig
  val succ : positive -> positive

  val add : positive -> positive -> positive

  val add_carry : positive -> positive -> positive

  val pred_double : positive -> positive

  type mask = Pos.mask =
  | IsNul
  | IsPos of positive
  | IsNeg

  val succ_double_mask : mask -> mask

  val double_mask : mask -> mask

  val double_pred_mask : positive -> mask

  val sub_mask : positive -> positive -> mask

  val sub_mask_carry : positive -> positive -> mask

  val sub : positive -> positive -> positive

  val mul : positive -> positive -> positive

  val size_nat : positive -> nat

  val compare_cont : comparison -> positive -> positive -> comparison

  val compare : positive -> positive -> comparison

  val eqb : positive -> positive -> bool

  val ggcdn : nat -> positive -> positive -> positive * (positive * positive)

  val ggcd : positive -> positive -> positive * (positive * positive)

  val iter_op : ('a1 -> 'a1 -> 'a1) -> positive -> 'a1 -> 'a1

  val to_nat : positive -> nat

  val of_succ_nat : nat -> positive
 end

module Z :
 sig
  val double : z -> z

  val succ_double : z -> z

  val pred_double : z -> z

  val pos_sub : positive -> positive -> z

  val add : z -> z -> z

  val opp : z -> z

  val sub : z -> z -> z

  val mul : z -> z -> z

  val compare : z -> z -> comparison

  val sgn : z -> z

  val leb : z -> z -> bool

  val ltb : z -> z -> bool

  val eqb : z -> z -> bool

  val max : z -> z -> z

  val min : z -> z -> z

  val abs : z -> z

  val to_nat : z -> nat

  val of_nat : nat -> z

  val to_pos : z -> positive

  val pos_div_eucl : positive -> z -> z * z

  val div_eucl : z -> z -> z * z

  val div : z -> z -> z

  val modulo : z -> z -> z

  val even : z -> bool

  val ggcd : z -> z -> z * (z * z)
 end

val zeq_bool : z -> z -> bool

val nth : nat -> 'a1 list -> 'a1 -> 'a1

val last : 'a1 list -> 'a1 -> 'a1

val map : ('a1 -> 'a2) -> 'a1 list -> 'a2 list

val flat_map : ('a1 -> 'a2 list) -> 'a1 list -> 'a2 list

val fold_left : ('a1 -> 'a2 -> 'a1) -> 'a2 list -> 'a1 -> 'a1

val fold_right : ('a2 -> 'a1 -> 'a1) -> 'a1 -> 'a2 list -> 'a1

val existsb : ('a1 -> bool) -> 'a1 list -> bool

val forallb : ('a1 -> bool) -> 'a1 list -> bool

val combine : 'a1 list -> 'a2 list -> ('a1 * 'a2) list

val firstn : nat -> 'a1 list -> 'a1 list

val skipn : nat -> 'a1 list -> 'a1 list

val repeat : 'a1 -> nat -> 'a1 list

val eqb0 : char list -> char list -> bool

type q = { qnum : z; qden : positive }

val inject_Z : z -> q

val qcompare : q -> q -> comparison

val qeq_bool : q -> q -> bool

val qle_bool : q -> q -> bool

val qplus : q -> q -> q

val qmult : q -> q -> q

val qopp : q -> q

val qminus : q -> q -> q

val qinv : q -> q

val qdiv : q -> q -> q

val qred : q -> q

type sval =
| VInt of z
| VFlt of q option
| VBool of bool

type dtype =
| DInt
| DFlt
| DBool

type arr =
| A1 of dtype * sval list
| A2 of dtype * z * z * sval list

type value =
| Undef
| Sc of sval
| Ar of arr

type var = char list

type site = nat

type binop =
| Add
| Sub
| Mul
| Div
| FloorDiv
| Mod
| Min
| Max

type cmpop =
| Lt0
| Le
| Gt0
| Ge
| Eq0
| Ne

type unop =
| Neg
| Abs
| ToInt
| ToFlt
| Ceil
| Floor
| Round9
| IsNan

type expr =
| EVar of var
| EInt of z
| EFlt of q
| ENan
| EBool of bool
| EBin of binop * expr * expr
| ECmp of cmpop * expr * expr
| EAnd of expr * expr
| EOr of expr * expr
| ENot of expr
| EIf of expr * expr * expr
| EUn of unop * expr
| ELen of var
| ECols of var
| ERead1 of site * var * expr
| ERead2 of site * var * expr * expr
| ESum of var * expr * expr
| ESumCol of site * var * expr * expr * z
| ESumAll of var
| ESumDiff of site * var * var
| EAnyColProdPos of site * var * z * z

type arg =
| AVar of var
| AExp of expr

type target =
| TVar of var
| TCol of site * var * z

type stmt =
| SSkip
| SAssign of var * expr
| SStore1 of site * var * expr * expr
| SStore2 of site * var * expr * expr * expr
| SNew1 of var * dtype * expr * expr
| SNew2 of var * dtype * expr * expr * expr
| SSlice of var * var * expr * expr
| SGather of site * var * var * var
| SMask of site * var * var * var
| SCmpArr of var * cmpop * var * expr
| SArgsort of var * var
| SCumsum of var * var
| SArrDiv of site * var * var * var
| SArrDivSc of var * var * expr
| SArrScale of var * expr
| SShiftLeft of var
| SColSums of var * var
| SColUpd of site * var * expr * binop * var option * expr
| SCall of nat * target list * char list * arg list
| SSeq of stmt * stmt
| SIf of nat * expr * stmt * stmt
| SWhile of nat * expr * stmt
| SFor of nat * var * expr * expr * stmt
| SForRun of nat * var * z * z * stmt
| SBreak
| SReturn of arg list

type func = { fname : char list; fparams : var list; flocals : var list;
              fbody : stmt }

val seq : stmt list -> stmt

val qfloor : q -> z

val qceiling : q -> z

val qtrunc : q -> z

val qz : z -> q

val to_int : sval -> z

val to_flt : sval -> q option

val truthy : sval -> bool

val is_flt : sval -> bool

val coerce : dtype -> sval -> sval

val f2 : (q -> q -> q option) -> q option -> q option -> q option

val qsome : q -> q option

val fadd : q option -> q option -> q option

val fsub : q option -> q option -> q option

val fmul : q option -> q option -> q option

val fdiv : q option -> q option -> q option

val ffloordiv : q option -> q option -> q option

val fmod : q option -> q option -> q option

val fmin : q option -> q option -> q option

val fmax : q option -> q option -> q option

val binop_int : binop -> z -> z -> sval

val binop_flt : binop -> q option -> q option -> sval

val eval_binop : binop -> sval -> sval -> sval

val cmp_int : cmpop -> z -> z -> bool

val cmp_q : cmpop -> q -> q -> bool

val cmp_flt : cmpop -> q option -> q option -> bool

val eval_cmp : cmpop -> sval -> sval -> bool

val q_rhe : q -> z

val e9 : positive

val round9 : q -> q

val eval_unop : unop -> sval -> sval

val zlen : 'a1 list -> z

val dflt : sval

val nthZ : sval list -> z -> sval

val upd_nth : nat -> 'a1 list -> 'a1 -> 'a1 list

val updZ : sval list -> z -> sval -> sval list

val alen : arr -> z

val acols : arr -> z

val adt : arr -> dtype

val adata : arr -> sval list

val norm_bound : z -> z -> z

val slice : 'a1 list -> z -> z -> 'a1 list

val pyslice : 'a1 list -> z -> z -> 'a1 list

val sum_int : sval list -> z

val sum_flt : sval list -> q option

val sum_cells : dtype -> sval list -> sval

val zrange : z -> nat -> z list

val column : z -> z -> sval list -> z -> sval list

val set_col : z -> z -> z -> sval list -> sval list -> sval list

val gather : sval list -> sval list -> sval list

val idx_ok : z -> sval list -> bool

val maskl : sval list -> sval list -> sval list

val key_le : q option -> q option -> bool

val ins : q option -> z -> (q option * z) list -> (q option * z) list

val isort : (q option * z) list -> (q option * z) list

val argsort : sval list -> sval list

val cumsum_int : z -> sval list -> sval list

val cumsum_flt : q option -> sval list -> sval list

val map2 : ('a1 -> 'a2 -> 'a3) -> 'a1 list -> 'a2 list -> 'a3 list

val cmp_cells : cmpop -> sval -> sval list -> sval list

val div_cells_sc : sval -> sval list -> sval list

val div_cells : sval list -> sval list -> sval list

val coerce_cells : dtype -> sval list -> sval list

val scale_cells : dtype -> sval -> sval list -> sval list

val shift_left : sval list -> sval list

val col_sums : dtype -> z -> z -> sval list -> sval list

val col_upd :
  dtype -> z -> z -> z -> sval list -> binop -> sval list option -> sval ->
  sval list

type store = (var * value) list

val get : store -> var -> value

val set : store -> var -> value -> store

type err =
| OOB of site
| Uninit of var

type 'a res =
| Ok of 'a
| Er of err

val bind : 'a1 res -> ('a1 -> 'a2 res) -> 'a2 res

val get_sc : store -> var -> sval res

val get_arr : store -> var -> arr res

val in_range : z -> z -> bool

val chk : bool -> site -> unit res

val slice_rows : arr -> z -> z -> arr

val eval : expr -> store -> sval res

val eval_arg : arg -> store -> value res

val eval_args : arg list -> store -> value list res

val assign_target : target -> value -> store -> store res

val assign_targets : target list -> value list -> store -> store res

type outcome =
| Normal of store
| Break of store
| Return of value list
| Err of err
| OutOfFuel

val find_func : func list -> char list -> func option

val init_store : func -> value list -> store

val zeros : dtype -> z -> sval -> sval list

val exec : func list -> nat -> stmt -> store -> outcome

val run : func list -> nat -> func -> value list -> outcome

val k_jitrestrict : func

val k_jitrestrict_with_count : func

val k_jitvaluefrom : func

val k_jitcount : func

val k_jitin_interval : func

val k_jitremove_nan : func

val k_jitthreshold : func

val k__jitbin_array : func

val k_jitintersect : func

val k_jitunion : func

val k_jitdiff : func

val k_jitunion_isets : func

val k__jitfix_iset : func

val k__jitcontinuous_perievent : func

val k__jitperievent_trigger_average : func

val k__cross_correlogram : func

val k__overlap_split : func

val all_kernels : func list

val run0 : nat -> func -> value list -> outcome

val q_ticks : q -> z option

val q_of_ticks : z -> q

val q_red : q -> q

val run_kernel : nat -> char list -> value list -> outcome option
